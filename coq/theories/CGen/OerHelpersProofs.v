(** C10 — proofs about the OER helper model (CGen/OerHelpers.v) for the
    predicates of CGen/OerHelpersSpec.v: in bounds / error latch, functional
    correctness against the octet specification, round trips. *)
From Asn1V Require Import Base.Prelude Base.Sweep CGen.Helpers CGen.HelpersSpec CGen.HelpersBits
  CGen.HelpersProofs CGen.OerHelpers CGen.OerHelpersSpec.

(* ------------------------------------------------------------------ *)
(** * Cursor basics (byte cursor) *)

Lemma olive_len s : olive s -> 0 <= len (buf s) < 4611686018427387904.
Proof. intros (_ & _ & H & _). pose proof (len_nonneg (buf s)). lia. Qed.

Lemma olive_not_latched s : olive s -> olatched s -> False.
Proof. intros (_ & L2 & _) [H1 H2]. lia. Qed.

Lemma oabort_latched s e : olatched s -> abort s e = s.
Proof. intros [H _]. unfold abort. destruct (size s >=? 0) eqn:E; [lia|reflexivity]. Qed.

Lemma oabort_live s e : olive s -> abort s e = mkCur (buf s) (- e) (- e).
Proof. intros (H1 & H2 & _). unfold abort. destruct (size s >=? 0) eqn:E; [reflexivity|lia]. Qed.

Lemma oabort_live_latched s e : olive s -> 0 < e <= 2147483647 -> olatched (abort s e).
Proof. intros H He. rewrite oabort_live by auto. unfold olatched; cbn. lia. Qed.

Lemma oalloc_latched err s n : olatched s -> 0 <= n < 9223372036854775808 - 2147483648 -> 0 < err ->
  exists p, alloc_gen err s n = COk (s, p) /\ p < 0.
Proof. intros L. now apply alloc_latched. Qed.

Lemma oalloc_live_room err s n : olive s -> 0 <= n -> pos s + n <= size s ->
  alloc_gen err s n = COk (mkCur (buf s) (size s) (pos s + n), pos s).
Proof.
  intros L Hn Hr. pose proof (olive_len s L). pose proof L as (L1 & L2 & _).
  rewrite alloc_gen_eq by lia.
  destruct (pos s + n <=? size s) eqn:E; [reflexivity|lia].
Qed.

Lemma oalloc_live_noroom err s n : olive s -> 0 <= n < 4611686018427387904 -> size s < pos s + n ->
  alloc_gen err s n = COk (abort s err, - err).
Proof.
  intros L Hn Hr. pose proof (olive_len s L). pose proof L as (L1 & L2 & _).
  rewrite alloc_gen_eq by lia.
  destruct (pos s + n <=? size s) eqn:E; [lia|reflexivity].
Qed.

Lemma oabort_adv s e n : olive s -> abort (mkCur (buf s) (size s) n) e = abort s e.
Proof.
  intros (L1 & L2 & _). unfold abort. cbn [buf size pos].
  destruct (size s >=? 0) eqn:E; [reflexivity|lia].
Qed.

Lemma olive_adv s n : olive s -> 0 <= n -> pos s + n <= size s -> olive (mkCur (buf s) (size s) (pos s + n)).
Proof. intros (L1 & L2 & L3 & L4) H1 H2. unfold olive. cbn [buf size pos]. repeat split; auto; lia. Qed.

(* ------------------------------------------------------------------ *)
(** * The octets under / before the cursor *)

Lemma owritten_length s : olive s -> length (owritten s) = Z.to_nat (pos s).
Proof. intros (L1 & L2 & _). unfold owritten. rewrite firstn_length. unfold len in *. lia. Qed.

(** a buffer that agrees with [b] outside [p, p + len l) and holds [l] there *)
Definition patched (b' b : list Z) (p : Z) (l : list Z) : Prop :=
  length b' = length b /\
  forall j, 0 <= j -> nthz b' j = if (p <=? j) && (j <? p + len l) then nthz l (j - p) else nthz b j.

Lemma patched_written b' b p l : 0 <= p -> p + len l <= len b -> patched b' b p l ->
  firstn (Z.to_nat (p + len l)) b' = firstn (Z.to_nat p) b ++ l.
Proof.
  intros Hp Hl (HL & HN). pose proof (len_nonneg l) as Hll.
  apply nthz_ext.
  - rewrite app_length, !firstn_length. unfold len in *. lia.
  - intros i Hi. unfold len in Hi. rewrite firstn_length in Hi.
    assert (Hi' : 0 <= i < p + len l) by (unfold len in *; lia).
    rewrite nthz_firstn by lia. rewrite HN by lia.
    destruct (Z.ltb_spec i p) as [C|C].
    + destruct ((p <=? i) && (i <? p + len l)) eqn:E; [lia|].
      rewrite nthz_app_l by (unfold len in *; rewrite firstn_length; lia).
      now rewrite nthz_firstn by lia.
    + destruct ((p <=? i) && (i <? p + len l)) eqn:E; [|lia].
      rewrite nthz_app_r by (unfold len in *; rewrite firstn_length; lia).
      f_equal. unfold len in *. rewrite firstn_length. lia.
Qed.

Lemma patched_at b' b p l : 0 <= p -> p + len l <= len b -> patched b' b p l ->
  firstn (length l) (skipn (Z.to_nat p) b') = l.
Proof.
  intros Hp Hl (HL & HN). pose proof (len_nonneg l) as Hll.
  apply nthz_ext.
  - rewrite firstn_length, skipn_length. unfold len in *. lia.
  - intros i Hi. unfold len in Hi. rewrite firstn_length, skipn_length in Hi.
    assert (Hi' : 0 <= i < len l) by (unfold len in *; lia).
    rewrite nthz_firstn by (unfold len in *; lia). rewrite nthz_skipn by lia.
    rewrite Z2Nat.id by lia. rewrite HN by lia.
    destruct ((p <=? i + p) && (i + p <? p + len l)) eqn:E; [|lia]. f_equal. lia.
Qed.

(* ------------------------------------------------------------------ *)
(** * encoder_append_bytes *)

Lemma oappend_bytes_latched s src n : olatched s -> 0 <= n < 4611686018427387904 ->
  oappend_bytes s src n = COk s.
Proof.
  intros L Hn. unfold oappend_bytes, oencoder_alloc.
  destruct (oalloc_latched ENOMEM s n L) as (p & -> & Hp); [lia|unfold ENOMEM; lia|].
  cbn [cbind]. destruct (p <? 0) eqn:E; [reflexivity|lia].
Qed.

Lemma oappend_bytes_noroom s src n : olive s -> 0 <= n < 4611686018427387904 ->
  size s < pos s + n -> oappend_bytes s src n = COk (abort s ENOMEM).
Proof.
  intros L Hn H. unfold oappend_bytes, oencoder_alloc.
  rewrite oalloc_live_noroom by (auto; lia). cbn [cbind]. reflexivity.
Qed.

Lemma oappend_bytes_room s src n : olive s -> 0 <= n <= len src -> pos s + n <= size s ->
  exists b', oappend_bytes s src n = COk (mkCur b' (size s) (pos s + n)) /\
    (bytes_ok src -> bytes_ok b') /\ patched b' (buf s) (pos s) (firstn (Z.to_nat n) src).
Proof.
  intros L Hn Hr. pose proof (olive_len s L) as HL. pose proof L as (L1 & L2 & _ & L4).
  unfold oappend_bytes, oencoder_alloc.
  rewrite oalloc_live_room by (auto; lia). cbn [cbind buf size pos].
  destruct (pos s <? 0) eqn:E; [lia|]. clear E.
  rewrite u64_small by lia.
  destruct (memcpy_spec (buf s) (pos s) src 0 n) as (d & -> & Ld & Bd & Nd); try lia.
  cbn [cbind]. exists d. split; [reflexivity|]. split; [auto|].
  assert (LF : len (firstn (Z.to_nat n) src) = n) by (unfold len in *; rewrite firstn_length; lia).
  split; [exact Ld|]. intros j Hj. rewrite Nd by lia. rewrite LF.
  destruct ((pos s <=? j) && (j <? pos s + n)) eqn:E; [|reflexivity].
  rewrite nthz_firstn by lia. f_equal.
Qed.

(* ------------------------------------------------------------------ *)
(** * Appenders: what one encoder call does in the three regimes *)

Definition oenc_post (s s' : cur) (l : list Z) : Prop :=
  olive s' /\ size s' = size s /\ length (buf s') = length (buf s) /\ pos s' = pos s + len l /\
  owritten s' = owritten s ++ l /\ patched (buf s') (buf s) (pos s) l.

Definition appender (A : cur -> cres cur) (l : list Z) : Prop :=
  (forall s, olatched s -> A s = COk s) /\
  (forall s, olive s -> size s < pos s + len l ->
     exists s', A s = COk s' /\ olatched s' /\ pos s' = - ENOMEM /\ length (buf s') = length (buf s)) /\
  (forall s, olive s -> pos s + len l <= size s -> exists s', A s = COk s' /\ oenc_post s s' l).

Lemma noroom_abort s : olive s ->
  exists s', COk (abort s ENOMEM) = COk s' /\ olatched s' /\ pos s' = - ENOMEM /\
             length (buf s') = length (buf s).
Proof.
  intros L. eexists; split; [reflexivity|].
  split; [apply oabort_live_latched; auto; unfold ENOMEM; lia|].
  rewrite oabort_live by auto. split; reflexivity.
Qed.

Lemma patched_trans b0 b1 b2 p l1 l2 : 0 <= p ->
  patched b1 b0 p l1 -> patched b2 b1 (p + len l1) l2 -> patched b2 b0 p (l1 ++ l2).
Proof.
  intros Hp (A1 & A2) (B1 & B2). pose proof (len_nonneg l1). pose proof (len_nonneg l2).
  split; [congruence|]. intros j Hj.
  assert (LA : len (l1 ++ l2) = len l1 + len l2) by (unfold len; rewrite app_length; lia).
  rewrite B2, A2 by lia. rewrite LA.
  destruct ((p + len l1 <=? j) && (j <? p + len l1 + len l2)) eqn:E1;
  destruct ((p <=? j) && (j <? p + len l1)) eqn:E2;
  destruct ((p <=? j) && (j <? p + (len l1 + len l2))) eqn:E3; try lia; try reflexivity.
  - rewrite nthz_app_r by lia. f_equal. lia.
  - now rewrite nthz_app_l by lia.
Qed.

Lemma oenc_post_trans s s1 s2 l1 l2 : olive s ->
  oenc_post s s1 l1 -> oenc_post s1 s2 l2 -> oenc_post s s2 (l1 ++ l2).
Proof.
  intros L (A1 & A2 & A3 & A4 & A5 & A6) (B1 & B2 & B3 & B4 & B5 & B6).
  unfold oenc_post. split; [exact B1|]. split; [congruence|]. split; [congruence|].
  split; [unfold len in *; rewrite app_length; lia|].
  split; [rewrite B5, A5; now rewrite app_assoc|].
  destruct L as (_ & L2 & _). rewrite A4 in B6. eapply patched_trans; eauto. lia.
Qed.

Lemma appender_seq A1 A2 l1 l2 : appender A1 l1 -> appender A2 l2 ->
  appender (fun s => let+ s1 := A1 s in A2 s1) (l1 ++ l2).
Proof.
  intros (P1 & P2 & P3) (Q1 & Q2 & Q3).
  assert (LA : len (l1 ++ l2) = len l1 + len l2) by (unfold len; rewrite app_length; lia).
  pose proof (len_nonneg l1) as N1. pose proof (len_nonneg l2) as N2.
  split; [|split].
  - intros s L. rewrite P1 by auto. cbn [cbind]. auto.
  - intros s L H. rewrite LA in H.
    destruct (Z.le_gt_cases (pos s + len l1) (size s)) as [R|R].
    + destruct (P3 s L R) as (s1 & -> & L1 & S1 & B1 & Q & _). cbn [cbind].
      destruct (Q2 s1 L1 ltac:(lia)) as (s2 & -> & K1 & K2 & K3).
      exists s2. split; [reflexivity|]. split; [exact K1|]. split; [exact K2|]. congruence.
    + destruct (P2 s L R) as (s1 & -> & K1 & K2 & K3). cbn [cbind].
      rewrite Q1 by auto. exists s1. auto.
  - intros s L H. rewrite LA in H.
    destruct (P3 s L ltac:(lia)) as (s1 & -> & PP). cbn [cbind].
    pose proof PP as (L1 & S1 & B1 & Q & _).
    destruct (Q3 s1 L1 ltac:(lia)) as (s2 & -> & QQ).
    exists s2. split; [reflexivity|]. eapply oenc_post_trans; eauto.
Qed.

Lemma appender_ext A A' l : (forall s, A s = A' s) -> appender A' l -> appender A l.
Proof.
  intros E (P1 & P2 & P3). split; [|split]; intros s; rewrite E; auto.
Qed.

Lemma appender_bytes src n : 0 <= n <= len src -> n < 4611686018427387904 -> bytes_ok src ->
  appender (fun s => oappend_bytes s src n) (firstn (Z.to_nat n) src).
Proof.
  intros Hn Hn2 Bs.
  assert (LF : len (firstn (Z.to_nat n) src) = n) by (unfold len in *; rewrite firstn_length; lia).
  split; [|split]; rewrite ?LF.
  - intros s L. apply oappend_bytes_latched; auto; lia.
  - intros s L H. rewrite oappend_bytes_noroom by (auto; lia). now apply noroom_abort.
  - intros s L H.
    pose proof (olive_len s L) as HL. pose proof L as (L1 & L2 & L3 & L4).
    destruct (oappend_bytes_room s src n L ltac:(lia) H) as (b' & -> & Bb & Pb).
    eexists; split; [reflexivity|]. pose proof Pb as (Lb & _).
    unfold oenc_post. cbn [buf size pos]. rewrite LF.
    split.
    { unfold olive, len in *. cbn [buf size pos]. rewrite Lb. repeat split; auto; lia. }
    split; [reflexivity|]. split; [exact Lb|]. split; [reflexivity|]. split; [|exact Pb].
    unfold owritten. cbn [buf pos]. rewrite <- LF at 1.
    apply patched_written; auto; lia.
Qed.

(* ------------------------------------------------------------------ *)
(** * Big-endian octets of a value *)

Lemma obe_bytes_length k v : length (be_bytes k v) = k.
Proof. induction k; cbn [be_bytes length]; auto. Qed.

Lemma obe_bytes_ok k v : bytes_ok (be_bytes k v).
Proof. induction k; cbn [be_bytes]; constructor; auto. apply is_byte_u8. Qed.

Lemma u8_shiftr_mod v m j : 0 <= j -> j + 8 <= m ->
  u8 (Z.shiftr (v mod 2 ^ m) j) = u8 (Z.shiftr v j).
Proof.
  intros Hj Hm. rewrite !u8_pow. apply Z.bits_inj'. intros i Hi.
  rewrite !Z.testbit_mod_pow2 by lia.
  destruct (Z.ltb_spec i 8); [|reflexivity]. cbn [andb].
  rewrite !Z.shiftr_spec by lia. rewrite Z.testbit_mod_pow2 by lia.
  destruct (Z.ltb_spec (i + j) m); [reflexivity|lia].
Qed.

Lemma be_bytes_mod k m v : 8 * Z.of_nat k <= m -> be_bytes k (v mod 2 ^ m) = be_bytes k v.
Proof.
  induction k as [|k IH]; intros H; [reflexivity|].
  cbn [be_bytes]. rewrite u8_shiftr_mod by lia. rewrite IH by lia. reflexivity.
Qed.

Lemma be_bytes_congr k m a b : 8 * Z.of_nat k <= m -> a mod 2 ^ m = b mod 2 ^ m ->
  be_bytes k a = be_bytes k b.
Proof. intros H E. rewrite <- (be_bytes_mod k m a), <- (be_bytes_mod k m b) by auto. now rewrite E. Qed.

Lemma appender_be k w : (k <= 8)%nat ->
  appender (fun s => oappend_bytes s (be_bytes k w) (Z.of_nat k)) (be_bytes k w).
Proof.
  intros Hk.
  assert (H : appender (fun s => oappend_bytes s (be_bytes k w) (Z.of_nat k))
                (firstn (Z.to_nat (Z.of_nat k)) (be_bytes k w))).
  { apply appender_bytes; [unfold len; rewrite obe_bytes_length; lia|lia|apply obe_bytes_ok]. }
  now rewrite Nat2Z.id, firstn_all2 in H by (rewrite obe_bytes_length; lia).
Qed.

(* ------------------------------------------------------------------ *)
(** * The fixed-width appenders *)

Lemma oappend_uint8_eq s v : oappend_uint8 s v = oappend_bytes s (be_bytes 1 v) (Z.of_nat 1).
Proof. reflexivity. Qed.
Lemma oappend_uint16_eq s v : oappend_uint16 s v = oappend_bytes s (be_bytes 2 (u16 v)) (Z.of_nat 2).
Proof. reflexivity. Qed.
Lemma oappend_uint32_eq s v : oappend_uint32 s v = oappend_bytes s (be_bytes 4 (u32 v)) (Z.of_nat 4).
Proof. reflexivity. Qed.
Lemma oappend_uint64_eq s v : oappend_uint64 s v = oappend_bytes s (be_bytes 8 (u64 v)) (Z.of_nat 8).
Proof. reflexivity. Qed.

Lemma app_u8 v w : v mod 256 = w mod 256 -> appender (fun s => oappend_uint8 s v) (be_bytes 1 w).
Proof.
  intros E. eapply appender_ext; [intro; apply oappend_uint8_eq|].
  replace (be_bytes 1 w) with (be_bytes 1 v) by (apply (be_bytes_congr 1 8); [lia|exact E]).
  apply appender_be. lia.
Qed.

Lemma app_u16 v w : v mod 65536 = w mod 65536 -> appender (fun s => oappend_uint16 s v) (be_bytes 2 w).
Proof.
  intros E. eapply appender_ext; [intro; apply oappend_uint16_eq|].
  replace (be_bytes 2 w) with (be_bytes 2 (u16 v)).
  - apply appender_be. lia.
  - apply (be_bytes_congr 2 16); [lia|]. change (2 ^ 16) with 65536. unfold u16. rewrite Z.mod_mod by lia. exact E.
Qed.

Lemma app_u32 v w : v mod 4294967296 = w mod 4294967296 ->
  appender (fun s => oappend_uint32 s v) (be_bytes 4 w).
Proof.
  intros E. eapply appender_ext; [intro; apply oappend_uint32_eq|].
  replace (be_bytes 4 w) with (be_bytes 4 (u32 v)).
  - apply appender_be. lia.
  - apply (be_bytes_congr 4 32); [lia|]. change (2 ^ 32) with 4294967296. unfold u32.
    rewrite Z.mod_mod by lia. exact E.
Qed.

Lemma app_u64 v w : v mod 18446744073709551616 = w mod 18446744073709551616 ->
  appender (fun s => oappend_uint64 s v) (be_bytes 8 w).
Proof.
  intros E. eapply appender_ext; [intro; apply oappend_uint64_eq|].
  replace (be_bytes 8 w) with (be_bytes 8 (u64 v)).
  - apply appender_be. lia.
  - apply (be_bytes_congr 8 64); [lia|]. change (2 ^ 64) with 18446744073709551616. unfold u64.
    rewrite Z.mod_mod by lia. exact E.
Qed.

Lemma app_i8 v w : v mod 256 = w mod 256 -> appender (fun s => oappend_int8 s v) (be_bytes 1 w).
Proof. intros E. unfold oappend_int8. apply app_u8. rewrite <- E. unfold u8, s8. lia. Qed.
Lemma app_i16 v w : v mod 65536 = w mod 65536 -> appender (fun s => oappend_int16 s v) (be_bytes 2 w).
Proof. intros E. unfold oappend_int16. apply app_u16. rewrite <- E. unfold u16, s16. lia. Qed.
Lemma app_i32 v w : v mod 4294967296 = w mod 4294967296 ->
  appender (fun s => oappend_int32 s v) (be_bytes 4 w).
Proof. intros E. unfold oappend_int32. apply app_u32. rewrite <- E. unfold u32, s32. lia. Qed.
Lemma app_i64 v w : v mod 18446744073709551616 = w mod 18446744073709551616 ->
  appender (fun s => oappend_int64 s v) (be_bytes 8 w).
Proof. intros E. unfold oappend_int64. apply app_u64. rewrite <- E. unfold u64, s64. lia. Qed.

Lemma be_bytes_S k v : be_bytes (S k) v = [u8 (Z.shiftr v (8 * Z.of_nat k))] ++ be_bytes k v.
Proof. reflexivity. Qed.

(** one octet followed by a 16 bit value: the 3 octet forms *)
Lemma app_3 (A1 A2 : cur -> cres cur) x v w :
  appender A1 (be_bytes 1 x) -> appender A2 (be_bytes 2 w) ->
  x mod 256 = Z.shiftr v 16 mod 256 -> w mod 65536 = v mod 65536 ->
  appender (fun s => let+ s1 := A1 s in A2 s1) (be_bytes 3 v).
Proof.
  intros H1 H2 E1 E2. rewrite (be_bytes_S 2 v).
  replace [u8 (Z.shiftr v (8 * Z.of_nat 2))] with (be_bytes 1 x).
  - replace (be_bytes 2 v) with (be_bytes 2 w) by (apply (be_bytes_congr 2 16); [lia|exact E2]).
    now apply appender_seq.
  - cbn [be_bytes]. change (8 * Z.of_nat 0) with 0. change (8 * Z.of_nat 2) with 16.
    rewrite Z.shiftr_0_r. unfold u8. now rewrite E1.
Qed.

Lemma shiftr_u32_16 v : Z.shiftr (u32 v) 16 mod 256 = Z.shiftr v 16 mod 256.
Proof. apply (u8_shiftr_mod v 32 16); lia. Qed.

(* ------------------------------------------------------------------ *)
(** * Every encoder call is an appender of its specified octets *)

Lemma lendet_form4 l : 65536 <= l < 16777216 ->
  be_bytes 4 (Z.lor l (u32 (Z.shiftl 131 24))) = 131 :: be_bytes 3 l.
Proof.
  intros H. change (u32 (Z.shiftl 131 24)) with 2197815296.
  rewrite Z.lor_comm. rewrite (lor_add 24) by (change (2 ^ 24) with 16777216; lia).
  rewrite (be_bytes_S 3). cbn [app]. f_equal.
  - change (8 * Z.of_nat 3) with 24. rewrite Z.shiftr_div_pow2 by lia.
    change (2 ^ 24) with 16777216. unfold u8. lia.
  - apply (be_bytes_congr 3 24); [lia|]. change (2 ^ 24) with 16777216. lia.
Qed.

Lemma oeop_appender o : oeop_ok o -> oeop_is_abort o = false ->
  appender (fun s => run_oeop s o) (oeop_spec o).
Proof.
  intros Ok NA.
  destruct o; cbn [run_oeop oeop_spec oeop_ok oeop_is_abort] in *; try discriminate.
  - (* OBytes *) destruct Ok as (H1 & H2 & H3). apply appender_bytes; auto; lia.
  - now apply app_u8.
  - now apply app_u16.
  - now apply app_u32.
  - now apply app_u64.
  - now apply app_i8.
  - now apply app_i16.
  - now apply app_i32.
  - now apply app_i64.
  - (* OUint *)
    unfold oappend_uint. rewrite (u8_small n) by lia.
    destruct (n =? 1) eqn:E1; [|destruct (n =? 2) eqn:E2; [|destruct (n =? 3) eqn:E3]].
    + replace n with 1 by lia. change (Z.to_nat _) with 1%nat.
      apply app_u8. unfold u8, u32. lia.
    + replace n with 2 by lia. change (Z.to_nat _) with 2%nat.
      apply app_u16. unfold u16, u32. lia.
    + replace n with 3 by lia. change (Z.to_nat _) with 3%nat.
      apply (app_3 (fun s => oappend_uint8 s (u8 (Z.shiftr (u32 v) 16)))
                   (fun s => oappend_uint16 s (u16 (u32 v))) (u8 (Z.shiftr (u32 v) 16)) v (u16 (u32 v))).
      * now apply app_u8.
      * now apply app_u16.
      * unfold u8 at 1. rewrite Z.mod_mod by lia. apply shiftr_u32_16.
      * unfold u16, u32. lia.
    + destruct ((1 <=? n) && (n <=? 3)) eqn:E; [lia|]. change (Z.to_nat 4) with 4%nat.
      apply app_u32. unfold u32. lia.
  - (* OInt *)
    unfold oappend_int. rewrite (u8_small n) by lia.
    destruct (n =? 1) eqn:E1; [|destruct (n =? 2) eqn:E2; [|destruct (n =? 3) eqn:E3]].
    + replace n with 1 by lia. change (Z.to_nat _) with 1%nat.
      apply app_i8. unfold s8, s32. lia.
    + replace n with 2 by lia. change (Z.to_nat _) with 2%nat.
      apply app_i16. unfold s16, s32. lia.
    + replace n with 3 by lia. change (Z.to_nat _) with 3%nat.
      apply (app_3 (fun s => oappend_uint8 s (u8 (Z.shiftr (u32 (s32 v)) 16)))
                   (fun s => oappend_int16 s (s16 (s32 v))) (u8 (Z.shiftr (u32 (s32 v)) 16)) v (s16 (s32 v))).
      * now apply app_u8.
      * now apply app_i16.
      * unfold u8 at 1. rewrite Z.mod_mod by lia.
        replace (u32 (s32 v)) with (u32 v) by (unfold u32, s32; lia). apply shiftr_u32_16.
      * unfold s16, s32. lia.
    + destruct ((1 <=? n) && (n <=? 3)) eqn:E; [lia|]. change (Z.to_nat 4) with 4%nat.
      apply app_i32. unfold s32. lia.
  - (* OLongUint *)
    unfold oappend_long_uint. rewrite (u8_small n) by lia.
    destruct (8 <? n) eqn:E; [lia|].
    set (src := be_bytes (Z.to_nat n) (u64 v) ++ repeat 0 (Z.to_nat (8 - n))).
    assert (F : firstn (Z.to_nat n) src = be_bytes (Z.to_nat n) v).
    { unfold src. rewrite firstn_app, obe_bytes_length, Nat.sub_diag. cbn [firstn].
      rewrite app_nil_r, firstn_all2 by (rewrite obe_bytes_length; lia).
      rewrite u64_pow. apply be_bytes_mod. lia. }
    rewrite <- F. apply appender_bytes.
    + unfold src, len. rewrite app_length, obe_bytes_length, repeat_length. lia.
    + lia.
    + unfold src. apply Forall_app. split; [apply obe_bytes_ok|].
      apply Forall_forall. intros x Hx. apply repeat_spec in Hx. subst x. unfold is_byte; lia.
  - (* OFloat *) unfold oappend_float. apply app_u32. unfold u32. lia.
  - (* ODouble *) unfold oappend_double. apply app_u64. unfold u64. lia.
  - (* OBool *)
    unfold oappend_bool. destruct b.
    + apply (app_u8 255 255 eq_refl).
    + apply (app_u8 0 0 eq_refl).
  - (* OLenDet *)
    unfold oappend_length_determinant.
    assert (Hl : 0 <= u32 n < 4294967296) by (unfold u32; lia).
    set (l := u32 n) in *.
    destruct (l <? 128) eqn:E1; [|destruct (l <? 256) eqn:E2;
      [|destruct (l <? 65536) eqn:E3; [|destruct (l <? 16777216) eqn:E4]]].
    + replace [l] with (be_bytes 1 l)
        by (cbn [be_bytes]; change (8 * Z.of_nat 0) with 0; rewrite Z.shiftr_0_r, u8_small by lia; reflexivity).
      apply app_i8. unfold s8. lia.
    + change [129; l] with ([129] ++ [l]).
      replace [l] with (be_bytes 1 l)
        by (cbn [be_bytes]; change (8 * Z.of_nat 0) with 0; rewrite Z.shiftr_0_r, u8_small by lia; reflexivity).
      apply (appender_seq (fun s => oappend_uint8 s 129) (fun s => oappend_uint8 s (u8 l))).
      * apply (app_u8 129 129 eq_refl).
      * apply app_u8. unfold u8. lia.
    + change (130 :: be_bytes 2 l) with ([130] ++ be_bytes 2 l).
      apply (appender_seq (fun s => oappend_uint8 s 130) (fun s => oappend_uint16 s (u16 l))).
      * apply (app_u8 130 130 eq_refl).
      * apply app_u16. unfold u16. lia.
    + rewrite <- lendet_form4 by lia. now apply app_u32.
    + change (132 :: be_bytes 4 l) with ([132] ++ be_bytes 4 l).
      apply (appender_seq (fun s => oappend_uint8 s 132) (fun s => oappend_uint32 s l)).
      * apply (app_u8 132 132 eq_refl).
      * now apply app_u32.
Qed.

Lemma oeop_spec_len o : oeop_ok o -> len (oeop_spec o) = oeop_bytes o.
Proof.
  intros Ok. unfold len.
  destruct o; cbn [oeop_spec oeop_bytes oeop_ok] in *; rewrite ?obe_bytes_length; try reflexivity.
  - destruct Ok as (H1 & H2 & H3). rewrite firstn_length. unfold len in *. lia.
  - destruct ((1 <=? n) && (n <=? 3)); lia.
  - destruct ((1 <=? n) && (n <=? 3)); lia.
  - lia.
  - unfold length_determinant_length. cbv zeta.
    destruct (u32 n <? 128); [reflexivity|]. destruct (u32 n <? 256); [reflexivity|].
    destruct (u32 n <? 65536); [reflexivity|]. destruct (u32 n <? 16777216); reflexivity.
Qed.

Lemma oeop_bytes_nonneg o : oeop_ok o -> 0 <= oeop_bytes o.
Proof. intros Ok. rewrite <- oeop_spec_len by auto. apply len_nonneg. Qed.

(* ------------------------------------------------------------------ *)
(** * Group 1: in bounds, latch (encoder) *)

Theorem oeop_in_bounds : forall s o, owf s -> oeop_ok o ->
  exists s', run_oeop s o = COk s' /\ owf s' /\ length (buf s') = length (buf s) /\ (olatched s -> s' = s).
Proof.
  intros s o W Ok.
  destruct (oeop_is_abort o) eqn:NA.
  - destruct o; try discriminate. cbn [run_oeop oeop_ok] in *.
    destruct W as [L|L].
    + eexists; split; [reflexivity|]. split; [right; now apply oabort_live_latched|].
      rewrite oabort_live by auto. split; [reflexivity|]. intros H; destruct (olive_not_latched s L H).
    + rewrite oabort_latched by auto. exists s. split; [reflexivity|]. split; [now right|]. split; auto.
  - destruct (oeop_appender o Ok NA) as (P1 & P2 & P3). rewrite oeop_spec_len in P2, P3 by auto.
    destruct W as [L|L].
    + assert (NL : olatched s -> False) by apply (olive_not_latched s L).
      destruct (Z.le_gt_cases (pos s + oeop_bytes o) (size s)) as [R|R].
      * destruct (P3 s L R) as (s' & E & Q1 & _ & Q3 & _).
        exists s'. split; [exact E|]. split; [now left|]. split; [exact Q3|]. intros H; destruct (NL H).
      * destruct (P2 s L R) as (s' & E & Q1 & _ & Q3).
        exists s'. split; [exact E|]. split; [now right|]. split; [exact Q3|]. intros H; destruct (NL H).
    + exists s. split; [now apply P1|]. split; [now right|]. split; auto.
Qed.

Theorem oer_helpers_in_bounds_enc : forall os s, owf s -> Forall oeop_ok os ->
  exists s', run_oeops s os = COk s' /\ owf s' /\ length (buf s') = length (buf s) /\ (olatched s -> s' = s).
Proof.
  induction os as [|o os IH]; intros s W F.
  - exists s. cbn [run_oeops]. repeat split; auto.
  - inversion F as [|? ? Ho Hos]; subst. cbn [run_oeops].
    destruct (oeop_in_bounds s o W Ho) as (s1 & -> & W1 & L1 & K1). cbn [cbind].
    destruct (IH s1 W1 Hos) as (s2 & E & W2 & L2 & K2).
    exists s2. split; [exact E|]. split; [exact W2|]. split; [congruence|].
    intros H. specialize (K1 H). subst s1. now apply K2.
Qed.

Theorem oer_enc_overflow_latches : forall s o, olive s -> oeop_ok o -> oeop_is_abort o = false ->
  size s < pos s + oeop_bytes o ->
  exists s', run_oeop s o = COk s' /\ olatched s' /\ oget_result s' = - ENOMEM.
Proof.
  intros s o L Ok NA R. destruct (oeop_appender o Ok NA) as (_ & P2 & _).
  rewrite oeop_spec_len in P2 by auto.
  destruct (P2 s L R) as (s' & E & Q1 & Q2 & _). exists s'. auto.
Qed.

Lemma run_oeops_app s os1 os2 :
  run_oeops s (os1 ++ os2) = let+ s1 := run_oeops s os1 in run_oeops s1 os2.
Proof.
  revert s; induction os1 as [|o os1 IH]; intros s; [reflexivity|].
  cbn [app run_oeops]. destruct (run_oeop s o); cbn [cbind]; auto.
Qed.

Theorem oer_enc_latch_sticky : forall os1 os2 s s1, owf s -> Forall oeop_ok (os1 ++ os2) ->
  run_oeops s os1 = COk s1 -> olatched s1 -> run_oeops s (os1 ++ os2) = COk s1.
Proof.
  intros os1 os2 s s1 W F E L. rewrite run_oeops_app, E. cbn [cbind].
  apply Forall_app in F. destruct F as [_ F2].
  destruct (oer_helpers_in_bounds_enc os2 s1 (or_intror L) F2) as (s2 & E2 & _ & _ & K).
  rewrite E2. f_equal. now apply K.
Qed.

(* ------------------------------------------------------------------ *)
(** * Group 3 (encoder): functional correctness *)

Theorem oeop_matches_spec : forall s o, olive s -> oeop_ok o -> oeop_is_abort o = false ->
  pos s + oeop_bytes o <= size s ->
  exists s', run_oeop s o = COk s' /\ olive s' /\ size s' = size s /\
             pos s' = pos s + oeop_bytes o /\ owritten s' = owritten s ++ oeop_spec o.
Proof.
  intros s o L Ok NA R. destruct (oeop_appender o Ok NA) as (_ & _ & P3).
  rewrite oeop_spec_len in P3 by auto.
  destruct (P3 s L R) as (s' & E & Q1 & Q2 & Q3 & Q4 & Q5 & _).
  rewrite oeop_spec_len in Q4 by auto.
  exists s'. repeat split; auto; apply Q1.
Qed.

Theorem oer_helpers_match_x696 : forall os s, olive s -> Forall oeop_ok os -> ono_abort os ->
  pos s + ototal_bytes os <= size s ->
  exists s', run_oeops s os = COk s' /\ olive s' /\ size s' = size s /\
             pos s' = pos s + ototal_bytes os /\
             owritten s' = owritten s ++ flat_map oeop_spec os.
Proof.
  assert (TB : forall os, Forall oeop_ok os -> 0 <= ototal_bytes os).
  { induction 1 as [|o os Ho Hos IH]; cbn [ototal_bytes fold_right]; [lia|].
    pose proof (oeop_bytes_nonneg o Ho). fold (ototal_bytes os). lia. }
  induction os as [|o os IH]; intros s L F NA R.
  - exists s. cbn [run_oeops ototal_bytes fold_right flat_map]. rewrite app_nil_r.
    split; [reflexivity|]. split; [exact L|]. split; [reflexivity|]. split; [lia|reflexivity].
  - inversion F as [|? ? Ho Hos]; subst. inversion NA as [|? ? No Nos]; subst.
    cbn [ototal_bytes fold_right] in *. fold (ototal_bytes os) in *.
    pose proof (TB os Hos).
    destruct (oeop_matches_spec s o L Ho No ltac:(lia)) as (s1 & E1 & L1 & S1 & P1 & W1).
    destruct (IH s1 L1 Hos Nos ltac:(lia)) as (s2 & E2 & L2 & S2 & P2 & W2).
    exists s2. cbn [run_oeops]. rewrite E1. cbn [cbind]. split; [exact E2|].
    split; [exact L2|]. split; [congruence|]. split; [lia|].
    rewrite W2, W1. cbn [flat_map]. now rewrite app_assoc.
Qed.

(* ================================================================== *)
(** * Decoder *)

Definition adv (s : cur) (n : Z) : cur := mkCur (buf s) (size s) (pos s + n).

Lemma adv_adv s a b : adv (adv s a) b = adv s (a + b).
Proof. unfold adv. cbn [buf size pos]. f_equal. lia. Qed.

Lemma adv_0 s : adv s 0 = s.
Proof. unfold adv. rewrite Z.add_0_r. apply cur_eta. Qed.

Lemma olive_adv' s n : olive s -> 0 <= n -> pos s + n <= size s -> olive (adv s n).
Proof. apply olive_adv. Qed.

Lemma oabort_adv' s e n : olive s -> abort (adv s n) e = abort s e.
Proof. apply oabort_adv. Qed.

(** ** the octets under the cursor *)

Lemma obytes_at_length s n : olive s -> 0 <= n -> pos s + n <= size s -> length (obytes_at s n) = Z.to_nat n.
Proof.
  intros (L1 & L2 & _) Hn H. unfold obytes_at. rewrite firstn_length, skipn_length. unfold len in *. lia.
Qed.

Lemma obytes_at_nthz s n j : 0 <= pos s -> 0 <= j < n -> nthz (obytes_at s n) j = nthz (buf s) (pos s + j).
Proof.
  intros Hp Hj. unfold obytes_at. rewrite nthz_firstn by lia. rewrite nthz_skipn by lia.
  f_equal. lia.
Qed.

Lemma bytes_ok_skipn n l : bytes_ok l -> bytes_ok (skipn n l).
Proof.
  unfold bytes_ok. revert l. induction n; intros l H; [exact H|].
  destruct l; [constructor|]. cbn [skipn]. inversion H; auto.
Qed.

Lemma obytes_at_ok s n : olive s -> bytes_ok (obytes_at s n).
Proof. intros (_ & _ & _ & B). unfold obytes_at. apply bytes_ok_firstn. now apply bytes_ok_skipn. Qed.

Lemma obytes_at_app s a b : olive s -> 0 <= a -> 0 <= b -> pos s + a + b <= size s ->
  obytes_at s (a + b) = obytes_at s a ++ obytes_at (adv s a) b.
Proof.
  intros L Ha Hb H. pose proof L as (L1 & L2 & _).
  assert (LA : length (obytes_at s a) = Z.to_nat a) by (apply obytes_at_length; auto; lia).
  assert (LB : length (obytes_at (adv s a) b) = Z.to_nat b).
  { apply obytes_at_length; [apply olive_adv'; auto; lia|lia|unfold adv; cbn [size pos]; lia]. }
  assert (LC : length (obytes_at s (a + b)) = Z.to_nat (a + b)) by (apply obytes_at_length; auto; lia).
  apply nthz_ext.
  - rewrite app_length, LA, LB, LC. lia.
  - intros i Hi. unfold len in Hi. rewrite LC in Hi.
    rewrite obytes_at_nthz by lia.
    destruct (Z.ltb_spec i a).
    + rewrite nthz_app_l by (unfold len; lia). now rewrite obytes_at_nthz by lia.
    + rewrite nthz_app_r by (unfold len; lia). unfold len. rewrite LA.
      rewrite obytes_at_nthz by (unfold adv; cbn [pos]; lia).
      unfold adv; cbn [buf pos]. f_equal. lia.
Qed.

(** ** memset *)

Lemma memset_loop_spec : forall k dst i, 0 <= i -> i + Z.of_nat k <= len dst ->
  exists d, memset_loop k dst i = COk d /\ length d = length dst /\
    forall j, 0 <= j -> nthz d j = if (i <=? j) && (j <? i + Z.of_nat k) then 0 else nthz dst j.
Proof.
  induction k as [|k IH]; intros dst i Hi Hd.
  - exists dst. cbn [memset_loop]. repeat split; auto.
    intros j Hj. destruct ((i <=? j) && (j <? i + Z.of_nat 0)) eqn:E; [lia|reflexivity].
  - cbn [memset_loop]. rewrite wr_ok by lia. cbn [cbind].
    destruct (IH (upd dst (Z.to_nat i) 0) (i + 1)) as (d & E & L & N); try rewrite upd_len; try lia.
    exists d. split; [exact E|]. split; [now rewrite L, upd_length|].
    intros j Hj. rewrite N by lia. rewrite nthz_upd by lia.
    destruct ((i + 1 <=? j) && (j <? i + 1 + Z.of_nat k)) eqn:E1;
    destruct ((i <=? j) && (j <? i + Z.of_nat (S k))) eqn:E2;
    destruct (j =? i) eqn:E3; try lia; reflexivity.
Qed.

(** the destination after a failed read: zeroed over the requested length *)
Definition zfill (dst : list Z) (n : Z) : list Z := repeat 0 (Z.to_nat n) ++ skipn (Z.to_nat n) dst.

Lemma zfill_length dst n : 0 <= n <= len dst -> length (zfill dst n) = length dst.
Proof. intros H. unfold zfill. rewrite app_length, repeat_length, skipn_length. unfold len in *. lia. Qed.

Lemma memset_zfill dst n : 0 <= n <= len dst -> memset_loop (Z.to_nat n) dst 0 = COk (zfill dst n).
Proof.
  intros H. destruct (memset_loop_spec (Z.to_nat n) dst 0) as (d & -> & L & N); try lia.
  f_equal. apply nthz_ext.
  - now rewrite zfill_length.
  - intros i Hi. rewrite N by lia. unfold zfill.
    assert (LR : len (repeat 0 (Z.to_nat n)) = n) by (unfold len; rewrite repeat_length; lia).
    destruct ((0 <=? i) && (i <? 0 + Z.of_nat (Z.to_nat n))) eqn:E.
    + rewrite nthz_app_l by lia. now rewrite nthz_repeat0.
    + rewrite nthz_app_r by lia. rewrite LR, nthz_skipn by lia. f_equal. lia.
Qed.

Lemma zfill_zeros cap n : 0 <= n <= cap -> zfill (zeros cap) n = zeros cap.
Proof.
  intros H. unfold zfill, zeros. rewrite skipn_repeat, <- repeat_app. f_equal. lia.
Qed.

(** ** decoder_read_bytes *)

Lemma oread_bytes_latched s dst n : olatched s -> 0 <= n <= len dst -> n < 4611686018427387904 ->
  oread_bytes s dst n = COk (s, zfill dst n).
Proof.
  intros L Hn Hn2. unfold oread_bytes, odecoder_free.
  destruct (oalloc_latched EOUTOFDATA s n L) as (p & -> & Hp); [lia|unfold EOUTOFDATA; lia|].
  cbn [cbind]. destruct (p >=? 0) eqn:E; [lia|].
  rewrite u64_small by lia. rewrite memset_zfill by lia. reflexivity.
Qed.

Lemma oread_bytes_noroom s dst n : olive s -> 0 <= n <= len dst -> n < 4611686018427387904 ->
  size s < pos s + n -> oread_bytes s dst n = COk (abort s EOUTOFDATA, zfill dst n).
Proof.
  intros L Hn Hn2 H. unfold oread_bytes, odecoder_free.
  rewrite oalloc_live_noroom by (auto; lia). cbn [cbind].
  destruct (- EOUTOFDATA >=? 0) eqn:E; [unfold EOUTOFDATA in E; lia|].
  rewrite u64_small by lia. rewrite memset_zfill by lia. reflexivity.
Qed.

Lemma oread_bytes_room s dst n : olive s -> 0 <= n <= len dst -> pos s + n <= size s ->
  oread_bytes s dst n = COk (adv s n, obytes_at s n ++ skipn (Z.to_nat n) dst).
Proof.
  intros L Hn Hr. pose proof (olive_len s L) as HL. pose proof L as (L1 & L2 & _ & L4).
  unfold oread_bytes, odecoder_free.
  rewrite oalloc_live_room by (auto; lia). cbn [cbind buf size pos].
  destruct (pos s >=? 0) eqn:E; [|lia]. clear E.
  rewrite u64_small by lia.
  destruct (memcpy_spec dst 0 (buf s) (pos s) n) as (d & -> & Ld & _ & Nd); try lia.
  cbn [cbind]. unfold adv. do 2 f_equal.
  assert (LA : len (obytes_at s n) = n) by (unfold len; rewrite obytes_at_length by (auto; lia); lia).
  apply nthz_ext.
  - rewrite app_length, skipn_length, obytes_at_length by (auto; lia). unfold len in *. lia.
  - intros i Hi. rewrite Nd by lia.
    destruct ((0 <=? i) && (i <? 0 + n)) eqn:E1.
    + rewrite nthz_app_l by lia. rewrite obytes_at_nthz by lia. f_equal. lia.
    + rewrite nthz_app_r by lia. rewrite LA, nthz_skipn by lia. f_equal. lia.
Qed.

(** ** readers *)

Definition oreader {A} (R : cur -> cres (cur * A)) (k : Z) (val : cur -> A) (Q : A -> Prop) : Prop :=
  (forall s, olatched s -> exists a, R s = COk (s, a) /\ Q a) /\
  (forall s, olive s -> size s < pos s + k -> exists a, R s = COk (abort s EOUTOFDATA, a) /\ Q a) /\
  (forall s, olive s -> pos s + k <= size s -> R s = COk (adv s k, val s) /\ Q (val s)).

Lemma oreader_bind {A B} (R : cur -> cres (cur * A)) k val Q
      (K : cur -> A -> cres (cur * B)) (g : A -> B) (Q' : B -> Prop) :
  oreader R k val Q ->
  (forall s1 a, Q a -> K s1 a = COk (s1, g a)) -> (forall a, Q a -> Q' (g a)) ->
  oreader (fun s => let+ (s1, a) := R s in K s1 a) k (fun s => g (val s)) Q'.
Proof.
  intros (R1 & R2 & R3) HK HQ. split; [|split].
  - intros s L. destruct (R1 s L) as (a & -> & Qa). cbn [cbind]. exists (g a). split; auto.
  - intros s L H. destruct (R2 s L H) as (a & -> & Qa). cbn [cbind]. exists (g a). split; auto.
  - intros s L H. destruct (R3 s L H) as (-> & Qa). cbn [cbind]. split; auto.
Qed.

Lemma oreader_val {A} (R : cur -> cres (cur * A)) k val val' Q :
  oreader R k val Q ->
  (forall s, olive s -> pos s + k <= size s -> val s = val' s) ->
  oreader R k val' Q.
Proof.
  intros (R1 & R2 & R3) HV. split; [|split]; auto.
  intros s L H. rewrite <- (HV s L H). auto.
Qed.

(** two readers in sequence *)
Lemma oreader_seq {A B C} (R1 : cur -> cres (cur * A)) k1 v1 Q1
      (R2 : cur -> cres (cur * B)) k2 v2 Q2 (f : A -> B -> C) (Q : C -> Prop) :
  0 <= k1 -> 0 <= k2 -> oreader R1 k1 v1 Q1 -> oreader R2 k2 v2 Q2 ->
  (forall a b, Q1 a -> Q2 b -> Q (f a b)) ->
  oreader (fun s => let+ (s1, a) := R1 s in let+ (s2, b) := R2 s1 in COk (s2, f a b)) (k1 + k2)
          (fun s => f (v1 s) (v2 (adv s k1))) Q.
Proof.
  intros H1 H2 (A1 & A2 & A3) (B1 & B2 & B3) HQ. split; [|split].
  - intros s L. destruct (A1 s L) as (a & -> & Qa). cbn [cbind].
    destruct (B1 s L) as (b & -> & Qb). cbn [cbind]. eauto.
  - intros s L H. destruct (Z.le_gt_cases (pos s + k1) (size s)) as [R|R].
    + destruct (A3 s L R) as (-> & Qa). cbn [cbind].
      destruct (B2 (adv s k1)) as (b & -> & Qb).
      * apply olive_adv'; auto.
      * unfold adv; cbn [size pos]. lia.
      * cbn [cbind]. rewrite oabort_adv' by auto. eauto.
    + destruct (A2 s L R) as (a & -> & Qa). cbn [cbind].
      destruct (B1 (abort s EOUTOFDATA)) as (b & -> & Qb).
      * apply oabort_live_latched; auto. unfold EOUTOFDATA; lia.
      * cbn [cbind]. eauto.
  - intros s L H. destruct (A3 s L ltac:(lia)) as (-> & Qa). cbn [cbind].
    destruct (B3 (adv s k1)) as (-> & Qb).
    + apply olive_adv'; auto; lia.
    + unfold adv; cbn [size pos]. lia.
    + cbn [cbind]. rewrite adv_adv. split; auto.
Qed.

Lemma oread_bytes_reader dst n : 0 <= n <= len dst -> n < 4611686018427387904 ->
  oreader (fun s => oread_bytes s dst n) n
    (fun s => obytes_at s n ++ skipn (Z.to_nat n) dst) (fun d => length d = length dst).
Proof.
  intros Hn Hn2. split; [|split].
  - intros s L. exists (zfill dst n). split; [now apply oread_bytes_latched|now apply zfill_length].
  - intros s L H. exists (zfill dst n). split; [now apply oread_bytes_noroom|now apply zfill_length].
  - intros s L H. split; [apply oread_bytes_room; auto; lia|].
    rewrite app_length, skipn_length, obytes_at_length by (auto; lia). unfold len in *. lia.
Qed.

(** ** decoder_read_uint8: the three regimes, with the value *)

Lemma oread_uint8_latched s : olatched s -> oread_uint8 s = COk (s, 0).
Proof.
  intros L. unfold oread_uint8. rewrite oread_bytes_latched by (auto; unfold len; cbn [length]; lia).
  reflexivity.
Qed.

Lemma oread_uint8_noroom s : olive s -> size s < pos s + 1 ->
  oread_uint8 s = COk (abort s EOUTOFDATA, 0).
Proof.
  intros L H. unfold oread_uint8. rewrite oread_bytes_noroom by (auto; unfold len; cbn [length]; lia).
  reflexivity.
Qed.

Lemma obytes_at_1 s : olive s -> pos s + 1 <= size s -> obytes_at s 1 = [nthz (buf s) (pos s)].
Proof.
  intros L H. pose proof L as (_ & L2 & _).
  pose proof (obytes_at_length s 1 L ltac:(lia) H) as HL.
  pose proof (obytes_at_nthz s 1 0 ltac:(lia) ltac:(lia)) as HN.
  destruct (obytes_at s 1) as [|a [|? ?]]; try discriminate.
  rewrite nthz_cons_0 in HN. rewrite Z.add_0_r in HN. now subst a.
Qed.

Lemma oread_uint8_room s : olive s -> pos s + 1 <= size s ->
  oread_uint8 s = COk (adv s 1, nthz (buf s) (pos s)).
Proof.
  intros L H. unfold oread_uint8. rewrite oread_bytes_room by (auto; unfold len; cbn [length]; lia).
  rewrite obytes_at_1 by auto. reflexivity.
Qed.

(** ** fixed-width readers: the value is the big-endian value of the octets *)

Ltac bytes_inv Bl :=
  repeat match type of Bl with
  | bytes_ok (_ :: _) => let H := fresh "Hb" in let B := fresh "Bl" in
                         inversion Bl as [|? ? H B]; subst; clear Bl; rename B into Bl
  | Forall _ (_ :: _) => let H := fresh "Hb" in let B := fresh "Bl" in
                         inversion Bl as [|? ? H B]; subst; clear Bl; rename B into Bl
  end.

Lemma oread_uint8_reader :
  oreader oread_uint8 1 (fun s => be_value (obytes_at s 1)) (fun _ => True).
Proof.
  split; [|split].
  - intros s L. exists 0. split; auto. now apply oread_uint8_latched.
  - intros s L H. exists 0. split; auto. now apply oread_uint8_noroom.
  - intros s L H. split; auto. rewrite oread_uint8_room, obytes_at_1 by auto.
    unfold be_value; cbn [be_value_acc]. do 2 f_equal.
Qed.

Lemma oread_uint16_reader :
  oreader oread_uint16 2 (fun s => be_value (obytes_at s 2)) (fun _ => True).
Proof.
  unfold oread_uint16.
  eapply oreader_val.
  - eapply (oreader_bind (fun s => oread_bytes s [0; 0] 2) 2 _ _
             (fun s1 d => let+ a := rd d 0 in let+ b := rd d 1 in
                          COk (s1, u16 (Z.lor (u16 (Z.shiftl a 8)) b)))
             (fun d => u16 (Z.lor (u16 (Z.shiftl (nthz d 0) 8)) (nthz d 1))) (fun _ => True)).
    + apply oread_bytes_reader; unfold len; cbn [length]; lia.
    + intros s1 d Hd. cbn [length] in Hd. rewrite !rd_ok by (unfold len; lia). reflexivity.
    + auto.
  - intros s L H. cbv beta. change (Z.to_nat 2) with 2%nat. cbn [skipn]. rewrite app_nil_r.
    pose proof (obytes_at_length s 2 L ltac:(lia) H) as HL. pose proof (obytes_at_ok s 2 L) as Bl.
    destruct (obytes_at s 2) as [|a [|b [|? ?]]]; try discriminate.
    bytes_inv Bl. unfold is_byte in *.
    unfold be_value; cbn [be_value_acc].
    nthz_concrete.
    rewrite Z.shiftl_mul_pow2 by lia. change (2 ^ 8) with 256.
    unfold u16. rewrite (Z.mod_small (a * 256)) by lia.
    lor_add_step 8. rewrite Z.mod_small by lia. lia.
Qed.

Lemma oread_uint32_reader :
  oreader oread_uint32 4 (fun s => be_value (obytes_at s 4)) (fun _ => True).
Proof.
  unfold oread_uint32.
  eapply oreader_val.
  - eapply (oreader_bind (fun s => oread_bytes s [0; 0; 0; 0] 4) 4 _ _
             (fun s1 d => let+ a := rd d 0 in let+ b := rd d 1 in let+ c := rd d 2 in let+ e := rd d 3 in
                COk (s1, Z.lor (Z.lor (Z.lor (u32 (Z.shiftl a 24)) (u32 (Z.shiftl b 16)))
                                      (u32 (Z.shiftl c 8))) e))
             (fun d => Z.lor (Z.lor (Z.lor (u32 (Z.shiftl (nthz d 0) 24)) (u32 (Z.shiftl (nthz d 1) 16)))
                                      (u32 (Z.shiftl (nthz d 2) 8))) (nthz d 3)) (fun _ => True)).
    + apply oread_bytes_reader; unfold len; cbn [length]; lia.
    + intros s1 d Hd. cbn [length] in Hd. rewrite !rd_ok by (unfold len; lia). reflexivity.
    + auto.
  - intros s L H. cbv beta. change (Z.to_nat 4) with 4%nat. cbn [skipn]. rewrite app_nil_r.
    pose proof (obytes_at_length s 4 L ltac:(lia) H) as HL. pose proof (obytes_at_ok s 4 L) as Bl.
    destruct (obytes_at s 4) as [|a [|b [|c [|e [|? ?]]]]]; try discriminate.
    bytes_inv Bl. unfold is_byte in *.
    unfold be_value; cbn [be_value_acc].
    nthz_concrete.
    rewrite !Z.shiftl_mul_pow2 by lia.
    change (2 ^ 24) with 16777216. change (2 ^ 16) with 65536. change (2 ^ 8) with 256.
    unfold u32. rewrite !Z.mod_small by lia.
    lor_add_step 24. lor_add_step 16. lor_add_step 8. lia.
Qed.

Lemma oread_uint64_reader :
  oreader oread_uint64 8 (fun s => be_value (obytes_at s 8)) (fun _ => True).
Proof.
  unfold oread_uint64.
  eapply oreader_val.
  - eapply (oreader_bind (fun s => oread_bytes s [0; 0; 0; 0; 0; 0; 0; 0] 8) 8 _ _
             (fun s1 d =>
                let+ b0 := rd d 0 in let+ b1 := rd d 1 in let+ b2 := rd d 2 in let+ b3 := rd d 3 in
                let+ b4 := rd d 4 in let+ b5 := rd d 5 in let+ b6 := rd d 6 in let+ b7 := rd d 7 in
                COk (s1, Z.lor (Z.lor (Z.lor (Z.lor (Z.lor (Z.lor (Z.lor
                  (u64 (Z.shiftl b0 56)) (u64 (Z.shiftl b1 48))) (u64 (Z.shiftl b2 40)))
                  (u64 (Z.shiftl b3 32))) (u64 (Z.shiftl b4 24))) (u64 (Z.shiftl b5 16)))
                  (u64 (Z.shiftl b6 8))) b7))
             (fun d => Z.lor (Z.lor (Z.lor (Z.lor (Z.lor (Z.lor (Z.lor
                  (u64 (Z.shiftl (nthz d 0) 56)) (u64 (Z.shiftl (nthz d 1) 48))) (u64 (Z.shiftl (nthz d 2) 40)))
                  (u64 (Z.shiftl (nthz d 3) 32))) (u64 (Z.shiftl (nthz d 4) 24))) (u64 (Z.shiftl (nthz d 5) 16)))
                  (u64 (Z.shiftl (nthz d 6) 8))) (nthz d 7)) (fun _ => True)).
    + apply oread_bytes_reader; unfold len; cbn [length]; lia.
    + intros s1 d Hd. cbn [length] in Hd. rewrite !rd_ok by (unfold len; lia). reflexivity.
    + auto.
  - intros s L H. cbv beta. change (Z.to_nat 8) with 8%nat. cbn [skipn]. rewrite app_nil_r.
    pose proof (obytes_at_length s 8 L ltac:(lia) H) as HL. pose proof (obytes_at_ok s 8 L) as Bl.
    destruct (obytes_at s 8) as [|b0 [|b1 [|b2 [|b3 [|b4 [|b5 [|b6 [|b7 [|? ?]]]]]]]]]; try discriminate.
    bytes_inv Bl. unfold is_byte in *.
    unfold be_value; cbn [be_value_acc].
    nthz_concrete.
    rewrite !Z.shiftl_mul_pow2 by lia.
    change (2 ^ 56) with 72057594037927936. change (2 ^ 48) with 281474976710656.
    change (2 ^ 40) with 1099511627776. change (2 ^ 32) with 4294967296.
    change (2 ^ 24) with 16777216. change (2 ^ 16) with 65536. change (2 ^ 8) with 256.
    unfold u64. rewrite !Z.mod_small by lia.
    lor_add_step 56. lor_add_step 48. lor_add_step 40. lor_add_step 32.
    lor_add_step 24. lor_add_step 16. lor_add_step 8. lia.
Qed.

Lemma oreader_map {A B} (R : cur -> cres (cur * A)) k val (f : A -> B) (Q' : B -> Prop) :
  oreader R k val (fun _ => True) -> (forall a, Q' (f a)) ->
  oreader (fun s => let+ (s', v) := R s in COk (s', f v)) k (fun s => f (val s)) Q'.
Proof.
  intros H HQ.
  apply (oreader_bind R k val (fun _ => True) (fun s' v => COk (s', f v)) f Q'); auto.
Qed.

Lemma oread_int8_reader : oreader oread_int8 1 (fun s => s8 (be_value (obytes_at s 1))) (fun _ => True).
Proof. unfold oread_int8. apply (oreader_map oread_uint8 1 _ s8); [apply oread_uint8_reader|auto]. Qed.
Lemma oread_int16_reader : oreader oread_int16 2 (fun s => s16 (be_value (obytes_at s 2))) (fun _ => True).
Proof. unfold oread_int16. apply (oreader_map oread_uint16 2 _ s16); [apply oread_uint16_reader|auto]. Qed.
Lemma oread_int32_reader : oreader oread_int32 4 (fun s => s32 (be_value (obytes_at s 4))) (fun _ => True).
Proof. unfold oread_int32. apply (oreader_map oread_uint32 4 _ s32); [apply oread_uint32_reader|auto]. Qed.
Lemma oread_int64_reader : oreader oread_int64 8 (fun s => s64 (be_value (obytes_at s 8))) (fun _ => True).
Proof. unfold oread_int64. apply (oreader_map oread_uint64 8 _ s64); [apply oread_uint64_reader|auto]. Qed.

Lemma oread_bool_reader :
  oreader oread_bool 1 (fun s => negb (be_value (obytes_at s 1) =? 0)) (fun _ => True).
Proof.
  unfold oread_bool.
  apply (oreader_map oread_uint8 1 _ (fun b => negb (b =? 0))); [apply oread_uint8_reader|auto].
Qed.

(** a call that reads nothing *)
Lemma oreader_const {A} (c : A) (Q : A -> Prop) : Q c -> oreader (fun s => COk (s, c)) 0 (fun _ => c) Q.
Proof.
  intros HQ. split; [|split].
  - intros s L. eauto.
  - intros s (_ & L2 & _) H. lia.
  - intros s L H. rewrite adv_0. auto.
Qed.

(** the 24 bit form: one octet then two *)
Definition v24 (a b : Z) : Z := Z.lor (u32 (Z.shiftl a 16)) b.

Lemma oread_u24_reader :
  oreader (fun s => let+ (s1, a) := oread_uint8 s in let+ (s2, b) := oread_uint16 s1 in COk (s2, v24 a b))
    3 (fun s => v24 (be_value (obytes_at s 1)) (be_value (obytes_at (adv s 1) 2))) (fun _ => True).
Proof.
  change 3 with (1 + 2).
  apply (oreader_seq oread_uint8 1 (fun s => be_value (obytes_at s 1)) (fun _ => True)
                     oread_uint16 2 (fun s => be_value (obytes_at s 2)) (fun _ => True) v24);
    try lia; auto using oread_uint8_reader, oread_uint16_reader.
Qed.

Lemma be_value_acc_app acc l1 l2 : be_value_acc acc (l1 ++ l2) = be_value_acc (be_value_acc acc l1) l2.
Proof. revert acc; induction l1; intros acc; cbn [app be_value_acc]; auto. Qed.

Lemma v24_value s : olive s -> pos s + 3 <= size s ->
  v24 (be_value (obytes_at s 1)) (be_value (obytes_at (adv s 1) 2)) = be_value (obytes_at s 3).
Proof.
  intros L H. pose proof L as (_ & L2 & _).
  change (obytes_at s 3) with (obytes_at s (1 + 2)). rewrite obytes_at_app by (auto; lia).
  assert (LA : olive (adv s 1)) by (apply olive_adv'; auto; lia).
  pose proof (obytes_at_length s 1 L ltac:(lia) ltac:(lia)) as H1.
  pose proof (obytes_at_length (adv s 1) 2 LA ltac:(lia) ltac:(unfold adv; cbn [size pos]; lia)) as H2.
  pose proof (obytes_at_ok s 1 L) as B1. pose proof (obytes_at_ok (adv s 1) 2 LA) as B2.
  destruct (obytes_at s 1) as [|a [|? ?]]; try discriminate.
  destruct (obytes_at (adv s 1) 2) as [|b [|c [|? ?]]]; try discriminate.
  bytes_inv B1. bytes_inv B2. unfold is_byte in *.
  unfold be_value; cbn [be_value_acc app]. unfold v24.
  rewrite Z.shiftl_mul_pow2 by lia. change (2 ^ 16) with 65536.
  unfold u32. rewrite Z.mod_small by lia.
  lor_add_step 16. lia.
Qed.

(** decoder_read_long_uint *)
Fixpoint lu_value (acc : Z) (l : list Z) : Z :=
  match l with [] => acc | b :: r => lu_value (Z.lor b (u64 (Z.shiftl acc 8))) r end.

Lemma obytes_at_S s k : olive s -> pos s + Z.of_nat (S k) <= size s ->
  obytes_at s (Z.of_nat (S k)) = nthz (buf s) (pos s) :: obytes_at (adv s 1) (Z.of_nat k).
Proof.
  intros L H. replace (Z.of_nat (S k)) with (1 + Z.of_nat k) by lia.
  rewrite obytes_at_app by (auto; lia). rewrite obytes_at_1 by (auto; lia). reflexivity.
Qed.

Lemma oread_long_uint_loop_reader : forall k acc,
  oreader (fun s => oread_long_uint_loop k s acc) (Z.of_nat k)
          (fun s => lu_value acc (obytes_at s (Z.of_nat k))) (fun _ => True).
Proof.
  induction k as [|k IH]; intros acc.
  - cbn [oread_long_uint_loop]. change (Z.of_nat 0) with 0.
    eapply oreader_val; [apply (oreader_const acc); exact I|].
    intros s L H. unfold obytes_at. reflexivity.
  - cbn [oread_long_uint_loop]. split; [|split].
    + intros s L. rewrite oread_uint8_latched by auto. cbn [cbind].
      destruct (IH (Z.lor 0 (u64 (Z.shiftl acc 8)))) as (R1 & _). now apply R1.
    + intros s L H. destruct (Z.le_gt_cases (pos s + 1) (size s)) as [R|R].
      * rewrite oread_uint8_room by auto. cbn [cbind].
        destruct (IH (Z.lor (nthz (buf s) (pos s)) (u64 (Z.shiftl acc 8)))) as (_ & R2 & _).
        destruct (R2 (adv s 1)) as (a & E & _).
        -- apply olive_adv'; auto; lia.
        -- unfold adv; cbn [size pos]. lia.
        -- rewrite oabort_adv' in E by auto. eauto.
      * rewrite oread_uint8_noroom by auto. cbn [cbind].
        destruct (IH (Z.lor 0 (u64 (Z.shiftl acc 8)))) as (R1 & _).
        apply R1. apply oabort_live_latched; auto. unfold EOUTOFDATA; lia.
    + intros s L H. split; auto. rewrite oread_uint8_room by (auto; lia). cbn [cbind].
      destruct (IH (Z.lor (nthz (buf s) (pos s)) (u64 (Z.shiftl acc 8)))) as (_ & _ & R3).
      destruct (R3 (adv s 1)) as (-> & _).
      * apply olive_adv'; auto; lia.
      * unfold adv; cbn [size pos]. lia.
      * rewrite adv_adv. rewrite obytes_at_S by auto. cbn [lu_value].
        do 2 f_equal. f_equal. lia.
Qed.

(** ** every decoder call with a byte count known from its arguments *)

Definition sext24 (t : Z) : Z :=
  s32 (if Z.land t 8388608 =? 8388608 then u32 (t + 4278190080) else t).

Definition odop_len (o : odop) : option Z :=
  match o with
  | RBytes _ n => Some n
  | RU8 | RI8 | RBool => Some 1
  | RU16 | RI16 => Some 2
  | RU32 | RI32 | RFloat => Some 4
  | RU64 | RI64 | RDouble => Some 8
  | RUint n | RInt n => Some (if (1 <=? n) && (n <=? 4) then n else 0)
  | RLongUint n => Some n
  | RLenDet | RTag | RAbort _ => None
  end.

(** the value read when the octets are there *)
Definition odop_val (s : cur) (o : odop) : list Z :=
  match o with
  | RBytes cap n => obytes_at s n ++ zeros (cap - n)
  | RU8 => [be_value (obytes_at s 1)]
  | RU16 => [be_value (obytes_at s 2)]
  | RU32 | RFloat => [be_value (obytes_at s 4)]
  | RU64 | RDouble => [be_value (obytes_at s 8)]
  | RI8 => [s8 (be_value (obytes_at s 1))]
  | RI16 => [s16 (be_value (obytes_at s 2))]
  | RI32 => [s32 (be_value (obytes_at s 4))]
  | RI64 => [s64 (be_value (obytes_at s 8))]
  | RUint n => if (1 <=? n) && (n <=? 4) then [be_value (obytes_at s n)] else [4294967295]
  | RInt n =>
    if n =? 1 then [s8 (be_value (obytes_at s 1))]
    else if n =? 2 then [s16 (be_value (obytes_at s 2))]
    else if n =? 3 then [sext24 (be_value (obytes_at s 3))]
    else if n =? 4 then [s32 (be_value (obytes_at s 4))]
    else [2147483647]
  | RLongUint n => [lu_value 0 (obytes_at s n)]
  | RBool => [if be_value (obytes_at s 1) =? 0 then 0 else 1]
  | RLenDet | RTag | RAbort _ => []
  end.

Definition odop_res_ok (o : odop) (v : list Z) : Prop :=
  match o with RBytes cap _ => len v = cap | _ => True end.

Lemma oreader_Q {A} (R : cur -> cres (cur * A)) k val (Q Q' : A -> Prop) :
  oreader R k val Q -> (forall a, Q a -> Q' a) -> oreader R k val Q'.
Proof.
  intros (R1 & R2 & R3) H. split; [|split].
  - intros s L. destruct (R1 s L) as (a & E & Qa). eauto.
  - intros s L Hs. destruct (R2 s L Hs) as (a & E & Qa). eauto.
  - intros s L Hs. destruct (R3 s L Hs) as (E & Qa). eauto.
Qed.

Lemma odop_reader o k : odop_ok o -> odop_len o = Some k ->
  0 <= k /\ oreader (fun s => run_odop s o) k (fun s => odop_val s o) (odop_res_ok o).
Proof.
  intros Ok HK.
  destruct o; cbn [odop_len odop_ok] in *; try discriminate; inversion HK; subst k; clear HK;
    unfold run_odop, odop_val, odop_res_ok.
  - (* RBytes *)
    destruct Ok as (H1 & H2). split; [lia|].
    assert (LZ : length (zeros cap) = Z.to_nat cap) by (unfold zeros; apply repeat_length).
    eapply oreader_val.
    + eapply oreader_Q; [apply (oread_bytes_reader (zeros cap) n); unfold len; lia|].
      intros a Ha. cbv beta in Ha. unfold len. rewrite Ha, LZ. lia.
    + intros s L H. cbv beta. f_equal. unfold zeros. rewrite skipn_repeat. f_equal. lia.
  - split; [lia|]. apply (oreader_map oread_uint8 1 _ (fun v => [v])); [apply oread_uint8_reader|auto].
  - split; [lia|]. apply (oreader_map oread_uint16 2 _ (fun v => [v])); [apply oread_uint16_reader|auto].
  - split; [lia|]. apply (oreader_map oread_uint32 4 _ (fun v => [v])); [apply oread_uint32_reader|auto].
  - split; [lia|]. apply (oreader_map oread_uint64 8 _ (fun v => [v])); [apply oread_uint64_reader|auto].
  - split; [lia|]. apply (oreader_map oread_int8 1 _ (fun v => [v])); [apply oread_int8_reader|auto].
  - split; [lia|]. apply (oreader_map oread_int16 2 _ (fun v => [v])); [apply oread_int16_reader|auto].
  - split; [lia|]. apply (oreader_map oread_int32 4 _ (fun v => [v])); [apply oread_int32_reader|auto].
  - split; [lia|]. apply (oreader_map oread_int64 8 _ (fun v => [v])); [apply oread_int64_reader|auto].
  - (* RUint *)
    unfold oread_uint. rewrite (u8_small n) by lia.
    destruct (n =? 1) eqn:E1; [|destruct (n =? 2) eqn:E2; [|destruct (n =? 3) eqn:E3; [|destruct (n =? 4) eqn:E4]]].
    + replace n with 1 by lia. split; [cbn; lia|]. cbn [Z.leb Z.compare Pos.compare andb].
      apply (oreader_map oread_uint8 1 _ (fun v => [v])); [apply oread_uint8_reader|auto].
    + replace n with 2 by lia. split; [cbn; lia|]. change ((1 <=? 2) && (2 <=? 4)) with true. cbv iota.
      apply (oreader_map oread_uint16 2 _ (fun v => [v])); [apply oread_uint16_reader|auto].
    + replace n with 3 by lia. split; [cbn; lia|]. change ((1 <=? 3) && (3 <=? 4)) with true. cbv iota.
      eapply oreader_val.
      * apply (oreader_map _ 3 (fun s => v24 (be_value (obytes_at s 1)) (be_value (obytes_at (adv s 1) 2)))
                 (fun v => [v])); [apply oread_u24_reader|auto].
      * intros s L H. cbv beta. now rewrite v24_value.
    + replace n with 4 by lia. split; [cbn; lia|]. change ((1 <=? 4) && (4 <=? 4)) with true. cbv iota.
      apply (oreader_map oread_uint32 4 _ (fun v => [v])); [apply oread_uint32_reader|auto].
    + destruct ((1 <=? n) && (n <=? 4)) eqn:E; [lia|]. split; [lia|].
      apply (oreader_map (fun s => COk (s, 4294967295)) 0 _ (fun v => [v])); [now apply oreader_const|auto].
  - (* RInt *)
    unfold oread_int. rewrite (u8_small n) by lia.
    destruct (n =? 1) eqn:E1; [|destruct (n =? 2) eqn:E2; [|destruct (n =? 3) eqn:E3; [|destruct (n =? 4) eqn:E4]]].
    + replace n with 1 by lia. split; [cbn; lia|]. change ((1 <=? 1) && (1 <=? 4)) with true. cbv iota.
      apply (oreader_map oread_int8 1 _ (fun v => [v])); [apply oread_int8_reader|auto].
    + replace n with 2 by lia. split; [cbn; lia|]. change ((1 <=? 2) && (2 <=? 4)) with true. cbv iota.
      apply (oreader_map oread_int16 2 _ (fun v => [v])); [apply oread_int16_reader|auto].
    + replace n with 3 by lia. split; [cbn; lia|]. change ((1 <=? 3) && (3 <=? 4)) with true. cbv iota.
      eapply oreader_val.
      * apply (oreader_map _ 3 (fun s => sext24 (v24 (be_value (obytes_at s 1)) (be_value (obytes_at (adv s 1) 2))))
                 (fun v => [v])); [|auto].
        change 3 with (1 + 2).
        apply (oreader_seq oread_uint8 1 (fun s => be_value (obytes_at s 1)) (fun _ => True)
                 oread_uint16 2 (fun s => be_value (obytes_at s 2)) (fun _ => True)
                 (fun a b => sext24 (v24 a b)) (fun _ => True));
          try lia; auto using oread_uint8_reader, oread_uint16_reader.
      * intros s L H. cbv beta. now rewrite v24_value.
    + replace n with 4 by lia. split; [cbn; lia|]. change ((1 <=? 4) && (4 <=? 4)) with true. cbv iota.
      apply (oreader_map oread_int32 4 _ (fun v => [v])); [apply oread_int32_reader|auto].
    + destruct ((1 <=? n) && (n <=? 4)) eqn:E; [lia|]. split; [lia|].
      apply (oreader_map (fun s => COk (s, 2147483647)) 0 _ (fun v => [v])); [now apply oreader_const|auto].
  - (* RLongUint *)
    split; [lia|]. unfold oread_long_uint. rewrite (u8_small n) by lia.
    remember (Z.to_nat n) as m eqn:Em. replace n with (Z.of_nat m) by lia.
    apply (oreader_map (fun s => oread_long_uint_loop m s 0) (Z.of_nat m)
             (fun s => lu_value 0 (obytes_at s (Z.of_nat m))) (fun v => [v]));
      [apply oread_long_uint_loop_reader|auto].
  - split; [lia|]. unfold oread_float.
    apply (oreader_map oread_uint32 4 _ (fun v => [v])); [apply oread_uint32_reader|auto].
  - split; [lia|]. unfold oread_double.
    apply (oreader_map oread_uint64 8 _ (fun v => [v])); [apply oread_uint64_reader|auto].
  - split; [lia|]. eapply oreader_val.
    + apply (oreader_map oread_bool 1 (fun s => negb (be_value (obytes_at s 1) =? 0))
               (fun v : bool => [if v then 1 else 0])); [apply oread_bool_reader|auto].
    + intros s L H. cbv beta. now destruct (be_value (obytes_at s 1) =? 0).
Qed.

(** ** safety of every decoder call *)

Definition osafe {A} (R : cur -> cres (cur * A)) (Q : A -> Prop) : Prop :=
  forall s, owf s -> exists s' a, R s = COk (s', a) /\ owf s' /\ buf s' = buf s /\
                                  (olatched s -> s' = s) /\ Q a.

Lemma oreader_safe {A} (R : cur -> cres (cur * A)) k val Q : 0 <= k -> oreader R k val Q -> osafe R Q.
Proof.
  intros Hk (R1 & R2 & R3) s [L|L].
  - assert (NL : olatched s -> False) by apply (olive_not_latched s L).
    destruct (Z.le_gt_cases (pos s + k) (size s)) as [H|H].
    + destruct (R3 s L H) as (E & Qa). eexists _, _. split; [exact E|].
      split; [left; now apply olive_adv'|]. split; [reflexivity|]. split; [intros X; destruct (NL X)|exact Qa].
    + destruct (R2 s L H) as (a & E & Qa). eexists _, _. split; [exact E|].
      split; [right; apply oabort_live_latched; auto; unfold EOUTOFDATA; lia|].
      rewrite oabort_live by auto. split; [reflexivity|]. split; [intros X; destruct (NL X)|exact Qa].
  - destruct (R1 s L) as (a & E & Qa). exists s, a. split; [exact E|]. split; [now right|].
    split; [reflexivity|]. split; auto.
Qed.

Lemma osafe_bind {A B} (R : cur -> cres (cur * A)) Q (K : cur -> A -> cres (cur * B)) Q' :
  osafe R Q -> (forall a, Q a -> osafe (fun s => K s a) Q') ->
  osafe (fun s => let+ (s1, a) := R s in K s1 a) Q'.
Proof.
  intros HR HK s W. destruct (HR s W) as (s1 & a & -> & W1 & B1 & K1 & Qa). cbn [cbind].
  destruct (HK a Qa s1 W1) as (s2 & b & -> & W2 & B2 & K2 & Qb).
  exists s2, b. split; [reflexivity|]. split; [exact W2|]. split; [congruence|]. split; [|exact Qb].
  intros X. specialize (K1 X). subst s1. now apply K2.
Qed.

Lemma osafe_const {A} (c : A) (Q : A -> Prop) : Q c -> osafe (fun s => COk (s, c)) Q.
Proof. intros HQ s W. exists s, c. repeat split; auto. Qed.

Lemma osafe_Q {A} (R : cur -> cres (cur * A)) (Q Q' : A -> Prop) :
  osafe R Q -> (forall a, Q a -> Q' a) -> osafe R Q'.
Proof.
  intros H HQ s W. destruct (H s W) as (s' & a & E & W' & B & K & Qa). exists s', a. repeat split; auto.
Qed.

Lemma oread_uint8_safe : osafe oread_uint8 (fun _ => True).
Proof. apply (oreader_safe _ 1 _ _ ltac:(lia) oread_uint8_reader). Qed.
Lemma oread_uint16_safe : osafe oread_uint16 (fun _ => True).
Proof. apply (oreader_safe _ 2 _ _ ltac:(lia) oread_uint16_reader). Qed.
Lemma oread_uint32_safe : osafe oread_uint32 (fun _ => True).
Proof. apply (oreader_safe _ 4 _ _ ltac:(lia) oread_uint32_reader). Qed.
Lemma oread_u24_safe :
  osafe (fun s => let+ (s1, a) := oread_uint8 s in let+ (s2, b) := oread_uint16 s1 in COk (s2, v24 a b))
        (fun _ => True).
Proof. apply (oreader_safe _ 3 _ _ ltac:(lia) oread_u24_reader). Qed.

Lemma oread_length_determinant_safe : osafe oread_length_determinant (fun _ => True).
Proof.
  unfold oread_length_determinant.
  apply (osafe_bind oread_uint8 (fun _ => True)); [apply oread_uint8_safe|].
  intros l _.
  destruct (negb (Z.land l 128 =? 0)); [|now apply osafe_const].
  destruct (Z.land l 127 =? 1); [apply oread_uint8_safe|].
  destruct (Z.land l 127 =? 2); [apply oread_uint16_safe|].
  destruct (Z.land l 127 =? 3); [apply oread_u24_safe|].
  destruct (Z.land l 127 =? 4); [apply oread_uint32_safe|].
  now apply osafe_const.
Qed.

(** decoder_read_tag: a failed read returns 0, which ends the loop *)
Lemma tag_exit tag : (Z.land (Z.lor (u32 (Z.shiftl tag 8)) 0) 128 =? 128) = false.
Proof.
  rewrite Z.lor_0_r. replace (Z.land (u32 (Z.shiftl tag 8)) 128) with 0; [reflexivity|].
  symmetry. apply Z.bits_inj'. intros i Hi. rewrite Z.land_spec, Z.bits_0.
  change 128 with (2 ^ 7). rewrite Z.pow2_bits_eqb by lia.
  destruct (Z.eqb_spec 7 i) as [<-|]; [|apply andb_false_r].
  rewrite u32_pow, Z.testbit_mod_pow2 by lia. rewrite Z.shiftl_mul_pow2 by lia.
  rewrite Z.mul_pow2_bits_low by lia. reflexivity.
Qed.

Lemma oread_tag_loop_safe : forall fuel s tag, owf s ->
  (olive s -> size s - pos s + 1 <= Z.of_nat fuel) -> (1 <= fuel)%nat ->
  exists s' a, oread_tag_loop fuel s tag = COk (s', a) /\ owf s' /\ buf s' = buf s /\
               (olatched s -> s' = s).
Proof.
  induction fuel as [|f IH]; intros s tag W HF H1; [lia|].
  cbn [oread_tag_loop]. destruct W as [L|L].
  - assert (NL : olatched s -> False) by apply (olive_not_latched s L).
    destruct (Z.le_gt_cases (pos s + 1) (size s)) as [R|R].
    + rewrite oread_uint8_room by auto. cbn [cbind].
      destruct (Z.land _ 128 =? 128).
      * destruct (IH (adv s 1) (Z.lor (u32 (Z.shiftl tag 8)) (nthz (buf s) (pos s)))) as (s' & a & E & W' & B & _).
        -- left. apply olive_adv'; auto; lia.
        -- intros _. unfold adv; cbn [size pos]. specialize (HF L). lia.
        -- specialize (HF L). lia.
        -- exists s', a. split; [exact E|]. split; [exact W'|]. split; [exact B|]. intros X; destruct (NL X).
      * eexists _, _. split; [reflexivity|]. split; [left; apply olive_adv'; auto; lia|].
        split; [reflexivity|]. intros X; destruct (NL X).
    + rewrite oread_uint8_noroom by auto. cbn [cbind]. rewrite tag_exit.
      eexists _, _. split; [reflexivity|].
      split; [right; apply oabort_live_latched; auto; unfold EOUTOFDATA; lia|].
      rewrite oabort_live by auto. split; [reflexivity|]. intros X; destruct (NL X).
  - rewrite oread_uint8_latched by auto. cbn [cbind]. rewrite tag_exit.
    eexists _, _. split; [reflexivity|]. split; [now right|]. split; auto.
Qed.

Lemma oread_tag_safe : osafe oread_tag (fun _ => True).
Proof.
  intros s W. unfold oread_tag.
  destruct (oread_uint8_safe s W) as (s1 & t & -> & W1 & B1 & K1 & _). cbn [cbind].
  destruct (Z.land t 63 =? 63).
  - destruct (oread_tag_loop_safe (length (buf s) + 2) s1 t W1) as (s2 & a & -> & W2 & B2 & K2).
    + intros (L1 & L2 & _). rewrite B1 in L1. unfold len in L1. lia.
    + lia.
    + exists s2, a. split; [reflexivity|]. split; [exact W2|]. split; [congruence|]. split; [|exact I].
      intros X. specialize (K1 X). subst s1. now apply K2.
  - exists s1, t. repeat split; auto.
Qed.

Lemma odop_safe o : odop_ok o -> osafe (fun s => run_odop s o) (odop_res_ok o).
Proof.
  intros Ok. destruct (odop_len o) as [k|] eqn:EK.
  - destruct (odop_reader o k Ok EK) as (Hk & R). now apply (oreader_safe _ k _ _ Hk R).
  - destruct o; try discriminate; unfold run_odop, odop_res_ok.
    + apply (osafe_bind oread_length_determinant (fun _ => True) (fun s' v => COk (s', [v])));
        [apply oread_length_determinant_safe|]. intros a _. now apply osafe_const.
    + apply (osafe_bind oread_tag (fun _ => True) (fun s' v => COk (s', [v])));
        [apply oread_tag_safe|]. intros a _. now apply osafe_const.
    + cbn [odop_ok] in Ok. intros s [L|L].
      * eexists _, _. split; [reflexivity|]. split; [right; now apply oabort_live_latched|].
        rewrite oabort_live by auto. split; [reflexivity|]. split; [|exact I].
        intros X; destruct (olive_not_latched s L X).
      * rewrite oabort_latched by auto. exists s, []. repeat split; auto. now right.
Qed.

(* ------------------------------------------------------------------ *)
(** * Group 2: in bounds, latch (decoder) *)

Theorem odop_in_bounds : forall s o, owf s -> odop_ok o ->
  exists s' v, run_odop s o = COk (s', v) /\ owf s' /\ buf s' = buf s /\ (olatched s -> s' = s) /\
               match o with RBytes cap _ => len v = cap | _ => True end.
Proof. intros s o W Ok. exact (odop_safe o Ok s W). Qed.

(** in particular decoder_read_tag never runs out of the model's fuel *)
Corollary oread_tag_never_ub : forall s, owf s -> oread_tag s <> CUb /\ oread_tag s <> COob.
Proof. intros s W. destruct (oread_tag_safe s W) as (s' & a & -> & _). split; discriminate. Qed.

Theorem oer_helpers_in_bounds_dec : forall os s, owf s -> Forall odop_ok os ->
  exists s' vs, run_odops s os = COk (s', vs) /\ owf s' /\ buf s' = buf s /\ (olatched s -> s' = s) /\
    Forall2 (fun o v => match o with RBytes cap _ => len v = cap | _ => True end) os vs.
Proof.
  induction os as [|o os IH]; intros s W F.
  - exists s, []. cbn [run_odops]. repeat split; auto.
  - inversion F as [|? ? Ho Hos]; subst. cbn [run_odops].
    destruct (odop_in_bounds s o W Ho) as (s1 & v & -> & W1 & B1 & K1 & Q1). cbn [cbind].
    destruct (IH s1 W1 Hos) as (s2 & vs & -> & W2 & B2 & K2 & Q2). cbn [cbind].
    exists s2, (v :: vs). split; [reflexivity|]. split; [exact W2|]. split; [congruence|].
    split; [|constructor; auto].
    intros H. specialize (K1 H). subst s1. now apply K2.
Qed.

(** the calls whose byte count is known from the arguments ([odop_len]: all but
    the length determinant, the tag and abort) latch when the data is short *)
Theorem oer_dec_overflow_latches : forall s o k, olive s -> odop_ok o -> odop_len o = Some k ->
  size s < pos s + k ->
  exists s' v, run_odop s o = COk (s', v) /\ olatched s' /\ oget_result s' = - EOUTOFDATA.
Proof.
  intros s o k L Ok EK R. destruct (odop_reader o k Ok EK) as (_ & _ & R2 & _).
  destruct (R2 s L R) as (a & E & _). eexists _, _. split; [exact E|].
  split; [apply oabort_live_latched; auto; unfold EOUTOFDATA; lia|].
  rewrite oabort_live by auto. reflexivity.
Qed.

Lemma run_odops_app s os1 os2 :
  run_odops s (os1 ++ os2) =
  let+ (s1, vs1) := run_odops s os1 in
  let+ (s2, vs2) := run_odops s1 os2 in COk (s2, vs1 ++ vs2).
Proof.
  revert s; induction os1 as [|o os1 IH]; intros s.
  - cbn [app run_odops cbind]. destruct (run_odops s os2) as [[s2 vs2]| |]; reflexivity.
  - cbn [app run_odops]. destruct (run_odop s o) as [[s1 v]| |]; cbn [cbind]; auto.
    rewrite IH. destruct (run_odops s1 os1) as [[s2 vs]| |]; cbn [cbind]; auto.
    destruct (run_odops s2 os2) as [[s3 vs3]| |]; reflexivity.
Qed.

Theorem oer_dec_latch_sticky : forall os1 os2 s s1 vs1, owf s ->
  Forall odop_ok (os1 ++ os2) -> run_odops s os1 = COk (s1, vs1) -> olatched s1 ->
  exists vs2, run_odops s (os1 ++ os2) = COk (s1, vs1 ++ vs2) /\ length vs2 = length os2.
Proof.
  intros os1 os2 s s1 vs1 W F E L. rewrite run_odops_app, E. cbn [cbind].
  apply Forall_app in F. destruct F as [_ F2].
  destruct (oer_helpers_in_bounds_dec os2 s1 (or_intror L) F2) as (s2 & vs2 & E2 & _ & _ & K & Q).
  rewrite E2. cbn [cbind]. exists vs2. rewrite (K L). split; [reflexivity|].
  symmetry. eapply Forall2_len; eauto.
Qed.

(** the decoder twin of [oeop_matches_spec] *)
Theorem odop_matches_spec : forall s o k, olive s -> odop_ok o -> odop_len o = Some k ->
  pos s + k <= size s -> run_odop s o = COk (adv s k, odop_val s o).
Proof.
  intros s o k L Ok EK R. destruct (odop_reader o k Ok EK) as (_ & _ & _ & R3).
  now destruct (R3 s L R).
Qed.

(* ------------------------------------------------------------------ *)
(** * Group 4: round trips *)

(** After an encoder call, the octets under the old cursor are the appended ones. *)
Lemma oroundtrip_bytes s o s' : olive s -> oeop_ok o -> oeop_is_abort o = false ->
  pos s + oeop_bytes o <= size s -> run_oeop s o = COk s' ->
  olive (mkCur (buf s') (size s) (pos s)) /\
  obytes_at (mkCur (buf s') (size s) (pos s)) (oeop_bytes o) = oeop_spec o.
Proof.
  intros L Ok NA R E.
  destruct (oeop_appender o Ok NA) as (_ & _ & P3).
  pose proof (oeop_spec_len o Ok) as SL.
  destruct (P3 s L ltac:(lia)) as (s1 & E1 & L1 & S1 & B1 & P1 & W1 & Pt).
  rewrite E in E1. inversion E1; subst s1. clear E1.
  pose proof L as (A1 & A2 & A3 & A4). pose proof L1 as (C1 & C2 & C3 & C4).
  split.
  - unfold olive, len in *. cbn [buf size pos]. rewrite B1. repeat split; auto; lia.
  - unfold obytes_at. cbn [buf pos]. rewrite <- SL. unfold len. rewrite Nat2Z.id.
    apply (patched_at _ (buf s)); auto; lia.
Qed.

(** the big-endian value of the [k] low octets of [v] *)
Lemma be_value_acc_be_bytes k : forall acc v,
  be_value_acc acc (be_bytes k v) = acc * 256 ^ Z.of_nat k + v mod 256 ^ Z.of_nat k.
Proof.
  induction k as [|k IH]; intros acc v.
  - cbn [be_bytes be_value_acc]. change (256 ^ Z.of_nat 0) with 1. rewrite Z.mod_1_r. lia.
  - cbn [be_bytes be_value_acc]. rewrite IH.
    assert (P : 0 < 256 ^ Z.of_nat k) by (apply Z.pow_pos_nonneg; lia).
    replace (Z.of_nat (S k)) with (Z.of_nat k + 1) by lia.
    rewrite Z.pow_add_r by lia. change (256 ^ 1) with 256.
    rewrite (Z.rem_mul_r v (256 ^ Z.of_nat k) 256) by lia.
    rewrite Z.shiftr_div_pow2 by lia.
    replace (2 ^ (8 * Z.of_nat k)) with (256 ^ Z.of_nat k)
      by (rewrite Z.pow_mul_r by lia; reflexivity).
    unfold u8. lia.
Qed.

Lemma be_value_be_bytes k v : 0 <= v < 256 ^ Z.of_nat k -> be_value (be_bytes k v) = v.
Proof.
  intros H. unfold be_value. rewrite be_value_acc_be_bytes. rewrite Z.mod_small by lia. lia.
Qed.

Lemma be_value_be_bytes_mod k v : be_value (be_bytes k v) = v mod 256 ^ Z.of_nat k.
Proof. unfold be_value. rewrite be_value_acc_be_bytes. lia. Qed.

(** the eight fixed-width pairs *)
Inductive oint_pair : oeop -> odop -> Z -> Prop :=
| OIP_U8 v : 0 <= v < 256 -> oint_pair (OU8 v) RU8 v
| OIP_U16 v : 0 <= v < 65536 -> oint_pair (OU16 v) RU16 v
| OIP_U32 v : 0 <= v < 4294967296 -> oint_pair (OU32 v) RU32 v
| OIP_U64 v : 0 <= v < 18446744073709551616 -> oint_pair (OU64 v) RU64 v
| OIP_I8 v : -128 <= v < 128 -> oint_pair (OI8 v) RI8 v
| OIP_I16 v : -32768 <= v < 32768 -> oint_pair (OI16 v) RI16 v
| OIP_I32 v : -2147483648 <= v < 2147483648 -> oint_pair (OI32 v) RI32 v
| OIP_I64 v : -9223372036854775808 <= v < 9223372036854775808 -> oint_pair (OI64 v) RI64 v.

Theorem oer_fixed_roundtrip : forall s o d v s', olive s -> oint_pair o d v ->
  pos s + oeop_bytes o <= size s -> run_oeop s o = COk s' ->
  run_odop (mkCur (buf s') (size s) (pos s)) d =
  COk (mkCur (buf s') (size s) (pos s + oeop_bytes o), [v]).
Proof.
  intros s o d v s' L P R E.
  assert (Ok : oeop_ok o) by (destruct P; exact I).
  assert (NA : oeop_is_abort o = false) by (destruct P; reflexivity).
  destruct (oroundtrip_bytes s o s' L Ok NA R E) as (Lt & Bt).
  assert (EB : odop_len d = Some (oeop_bytes o)) by (destruct P; reflexivity).
  assert (OkD : odop_ok d) by (destruct P; exact I).
  rewrite (odop_matches_spec _ d (oeop_bytes o) Lt OkD EB) by (cbn [size pos]; lia).
  unfold adv. cbn [buf size pos]. do 2 f_equal.
  destruct P; cbn [odop_val oeop_bytes oeop_spec] in *; rewrite Bt, be_value_be_bytes_mod;
    f_equal.
  - change (256 ^ Z.of_nat 1) with 256. lia.
  - change (256 ^ Z.of_nat 2) with 65536. lia.
  - change (256 ^ Z.of_nat 4) with 4294967296. lia.
  - change (256 ^ Z.of_nat 8) with 18446744073709551616. lia.
  - change (256 ^ Z.of_nat 1) with 256. unfold s8. lia.
  - change (256 ^ Z.of_nat 2) with 65536. unfold s16. lia.
  - change (256 ^ Z.of_nat 4) with 4294967296. unfold s32. lia.
  - change (256 ^ Z.of_nat 8) with 18446744073709551616. unfold s64. lia.
Qed.

(** from the [run_odop] wrapper back to the reader itself *)
Lemma one_inv (r : cres (cur * Z)) c v :
  (let+ (s', x) := r in COk (s', [x])) = COk (c, [v]) -> r = COk (c, v).
Proof.
  destruct r as [[s1 x]| |]; cbn [cbind]; intros H; try discriminate.
  inversion H; subst. reflexivity.
Qed.

Theorem oer_uint_roundtrip : forall s v k s', olive s -> 1 <= k <= 4 -> 0 <= v < 256 ^ k ->
  pos s + k <= size s -> oappend_uint s v k = COk s' ->
  oread_uint (mkCur (buf s') (size s) (pos s)) k = COk (mkCur (buf s') (size s) (pos s + k), v).
Proof.
  intros s v k s' L Hk Hv R E.
  assert (Ok : oeop_ok (OUint v k)) by (cbn [oeop_ok]; lia).
  assert (EBy : oeop_bytes (OUint v k) = k).
  { cbn [oeop_bytes]. destruct ((1 <=? k) && (k <=? 3)) eqn:X; lia. }
  destruct (oroundtrip_bytes s (OUint v k) s' L Ok eq_refl ltac:(lia) E) as (Lt & Bt).
  rewrite EBy in Bt. cbn [oeop_spec] in Bt.
  replace (if (1 <=? k) && (k <=? 3) then k else 4) with k in Bt
    by (destruct ((1 <=? k) && (k <=? 3)) eqn:X; lia).
  apply one_inv. change (run_odop (mkCur (buf s') (size s) (pos s)) (RUint k) =
    COk (mkCur (buf s') (size s) (pos s + k), [v])).
  assert (EL : odop_len (RUint k) = Some k).
  { cbn [odop_len]. destruct ((1 <=? k) && (k <=? 4)) eqn:X; [reflexivity|lia]. }
  rewrite (odop_matches_spec _ (RUint k) k Lt ltac:(cbn [odop_ok]; lia) EL) by (cbn [size pos]; lia).
  unfold adv. cbn [buf size pos odop_val]. do 2 f_equal.
  destruct ((1 <=? k) && (k <=? 4)) eqn:X; [|lia].
  rewrite Bt, be_value_be_bytes; [reflexivity|]. now rewrite Z2Nat.id by lia.
Qed.

(** splitting the octets under the cursor: the first one and the rest *)
Lemma obytes_at_cons c K x r : olive c -> 1 <= K -> pos c + K <= size c ->
  obytes_at c K = x :: r ->
  oread_uint8 c = COk (adv c 1, x) /\ olive (adv c 1) /\ obytes_at (adv c 1) (K - 1) = r.
Proof.
  intros L HK R E.
  replace K with (1 + (K - 1)) in E by lia.
  rewrite obytes_at_app in E by (auto; lia).
  rewrite obytes_at_1 in E by (auto; lia). cbn [app] in E. inversion E; subst.
  split; [|split].
  - rewrite oread_uint8_room by (auto; lia). reflexivity.
  - apply olive_adv'; auto; lia.
  - reflexivity.
Qed.

Theorem oer_length_determinant_roundtrip : forall s n s', olive s -> 0 <= n < 4294967296 ->
  pos s + length_determinant_length n <= size s -> oappend_length_determinant s n = COk s' ->
  oread_length_determinant (mkCur (buf s') (size s) (pos s)) =
  COk (mkCur (buf s') (size s) (pos s + length_determinant_length n), n).
Proof.
  intros s n s' L Hn R E.
  destruct (oroundtrip_bytes s (OLenDet n) s' L I eq_refl R E) as (Lt & Bt).
  cbn [oeop_bytes oeop_spec] in Bt. cbv zeta in Bt.
  set (c := mkCur (buf s') (size s) (pos s)) in *.
  assert (Ec : forall j, mkCur (buf s') (size s) (pos s + j) = adv c j) by reflexivity.
  rewrite Ec. revert R Bt.
  unfold length_determinant_length. cbv zeta. unfold u32. rewrite Z.mod_small by lia.
  change (size s) with (size c). change (pos s) with (pos c).
  destruct (n <? 128) eqn:E1; [|destruct (n <? 256) eqn:E2;
    [|destruct (n <? 65536) eqn:E3; [|destruct (n <? 16777216) eqn:E4]]]; intros R Bt;
    (eapply (obytes_at_cons c) in Bt; [destruct Bt as (R8 & L1 & B1)|exact Lt|lia|exact R]);
    unfold oread_length_determinant; rewrite R8; cbn [cbind].
  - rewrite land_128_small by lia. reflexivity.
  - change (negb (Z.land 129 128 =? 0)) with true. change (Z.land 129 127) with 1.
    change (1 =? 1) with true. cbv iota.
    eapply (obytes_at_cons (adv c 1)) in B1;
      [destruct B1 as (-> & _ & _)|exact L1|lia|unfold adv; cbn [size pos]; lia].
    rewrite adv_adv. reflexivity.
  - change (negb (Z.land 130 128 =? 0)) with true. change (Z.land 130 127) with 2.
    change (2 =? 1) with false. change (2 =? 2) with true. cbv iota.
    destruct oread_uint16_reader as (_ & _ & R3).
    destruct (R3 (adv c 1) L1 ltac:(unfold adv; cbn [size pos]; lia)) as (-> & _).
    rewrite adv_adv. change (3 - 1) with 2 in B1. rewrite B1.
    rewrite be_value_be_bytes by (change (256 ^ Z.of_nat 2) with 65536; lia). reflexivity.
  - change (negb (Z.land 131 128 =? 0)) with true. change (Z.land 131 127) with 3.
    change (3 =? 1) with false. change (3 =? 2) with false. change (3 =? 3) with true. cbv iota.
    destruct oread_u24_reader as (_ & _ & R3).
    assert (R1 : pos (adv c 1) + 3 <= size (adv c 1)) by (unfold adv; cbn [size pos]; lia).
    destruct (R3 (adv c 1) L1 R1) as (E24 & _).
    unfold v24 in E24. rewrite E24. cbn [cbind]. fold (v24 (be_value (obytes_at (adv c 1) 1))
      (be_value (obytes_at (adv (adv c 1) 1) 2))).
    rewrite v24_value by auto.
    rewrite adv_adv. change (4 - 1) with 3 in B1. rewrite B1.
    rewrite be_value_be_bytes by (change (256 ^ Z.of_nat 3) with 16777216; lia). reflexivity.
  - change (negb (Z.land 132 128 =? 0)) with true. change (Z.land 132 127) with 4.
    change (4 =? 1) with false. change (4 =? 2) with false. change (4 =? 3) with false.
    change (4 =? 4) with true. cbv iota.
    destruct oread_uint32_reader as (_ & _ & R3).
    destruct (R3 (adv c 1) L1 ltac:(unfold adv; cbn [size pos]; lia)) as (-> & _).
    rewrite adv_adv. change (5 - 1) with 4 in B1. rewrite B1.
    rewrite be_value_be_bytes by (change (256 ^ Z.of_nat 4) with 4294967296; lia). reflexivity.
Qed.

(** decoder_read_long_uint computes the big-endian value as long as nothing is
    shifted out of the 64 bit accumulator *)
Lemma lu_value_be : forall l acc, bytes_ok l -> 0 <= acc ->
  (acc + 1) * 256 ^ len l <= 18446744073709551616 -> lu_value acc l = be_value_acc acc l.
Proof.
  induction l as [|b r IH]; intros acc Bl Ha Hb; [reflexivity|].
  inversion Bl as [|? ? Hb0 Br]; subst. unfold is_byte in Hb0.
  cbn [lu_value be_value_acc].
  assert (EL : len (b :: r) = len r + 1) by (unfold len; cbn [length]; lia).
  rewrite EL in Hb. rewrite Z.pow_add_r in Hb by (pose proof (len_nonneg r); lia).
  change (256 ^ 1) with 256 in Hb.
  assert (P : 0 < 256 ^ len r) by (apply Z.pow_pos_nonneg; [lia|apply len_nonneg]).
  assert (Hs : acc * 256 + 256 <= 18446744073709551616) by nia.
  rewrite Z.shiftl_mul_pow2 by lia. rewrite u64_small by (change (2 ^ 8) with 256; lia).
  rewrite Z.lor_comm. rewrite lor_mul_pow2_add by (change (2 ^ 8) with 256; lia).
  change (2 ^ 8) with 256.
  apply IH; auto; [lia|nia].
Qed.

Theorem oer_long_uint_roundtrip : forall s v k s', olive s -> 0 <= k <= 8 -> 0 <= v < 256 ^ k ->
  pos s + k <= size s -> oappend_long_uint s v k = COk s' ->
  oread_long_uint (mkCur (buf s') (size s) (pos s)) k = COk (mkCur (buf s') (size s) (pos s + k), v).
Proof.
  intros s v k s' L Hk Hv R E.
  assert (Ok : oeop_ok (OLongUint v k)) by (cbn [oeop_ok]; lia).
  destruct (oroundtrip_bytes s (OLongUint v k) s' L Ok eq_refl R E) as (Lt & Bt).
  cbn [oeop_bytes oeop_spec] in Bt.
  apply one_inv. change (run_odop (mkCur (buf s') (size s) (pos s)) (RLongUint k) =
    COk (mkCur (buf s') (size s) (pos s + k), [v])).
  rewrite (odop_matches_spec _ (RLongUint k) k Lt ltac:(cbn [odop_ok]; lia) eq_refl)
    by (cbn [size pos]; lia).
  unfold adv. cbn [buf size pos odop_val]. do 2 f_equal.
  rewrite Bt. rewrite lu_value_be.
  - f_equal. apply be_value_be_bytes. now rewrite Z2Nat.id by lia.
  - apply obe_bytes_ok.
  - lia.
  - unfold len. rewrite obe_bytes_length, Z2Nat.id by lia.
    change 18446744073709551616 with (256 ^ 8). rewrite Z.mul_1_l.
    apply Z.pow_le_mono_r; lia.
Qed.

(** the sign test of the 3 octet form *)
Lemma land_bit23 t : 0 <= t < 16777216 -> (Z.land t 8388608 =? 8388608) = (8388608 <=? t).
Proof.
  intros H.
  assert (E : Z.land t (2 ^ 23) = if Z.testbit t 23 then 2 ^ 23 else 0).
  { apply Z.bits_inj'. intros i Hi. rewrite Z.land_spec, Z.pow2_bits_eqb by lia.
    destruct (Z.eqb_spec 23 i) as [<-|N].
    - rewrite andb_true_r. destruct (Z.testbit t 23) eqn:T.
      + now rewrite Z.pow2_bits_true by lia.
      + now rewrite Z.bits_0.
    - rewrite andb_false_r. destruct (Z.testbit t 23).
      + now rewrite Z.pow2_bits_false by lia.
      + now rewrite Z.bits_0. }
  change (2 ^ 23) with 8388608 in E. rewrite E.
  destruct (Z.testbit t 23) eqn:T.
  - apply Z.testbit_true in T; [|lia]. change (2 ^ 23) with 8388608 in T. lia.
  - apply Z.testbit_false in T; [|lia]. change (2 ^ 23) with 8388608 in T. lia.
Qed.

Lemma sext24_mod v : -8388608 <= v < 8388608 -> sext24 (v mod 16777216) = v.
Proof.
  intros H. unfold sext24.
  rewrite land_bit23 by lia.
  destruct (8388608 <=? v mod 16777216) eqn:E; unfold s32, u32; lia.
Qed.

Lemma oer_int_roundtrip_aux s v k s' (f : Z -> Z) : olive s -> 1 <= k <= 4 ->
  pos s + k <= size s -> oappend_int s v k = COk s' ->
  (forall c, odop_val c (RInt k) = [f (be_value (obytes_at c k))]) ->
  f (v mod 256 ^ k) = v ->
  oread_int (mkCur (buf s') (size s) (pos s)) k = COk (mkCur (buf s') (size s) (pos s + k), v).
Proof.
  intros L Hk R E HV Hf.
  assert (Ok : oeop_ok (OInt v k)) by (cbn [oeop_ok]; lia).
  assert (EBy : oeop_bytes (OInt v k) = k).
  { cbn [oeop_bytes]. destruct ((1 <=? k) && (k <=? 3)) eqn:X; lia. }
  destruct (oroundtrip_bytes s (OInt v k) s' L Ok eq_refl ltac:(lia) E) as (Lt & Bt).
  rewrite EBy in Bt. cbn [oeop_spec] in Bt.
  replace (if (1 <=? k) && (k <=? 3) then k else 4) with k in Bt
    by (destruct ((1 <=? k) && (k <=? 3)) eqn:X; lia).
  apply one_inv. change (run_odop (mkCur (buf s') (size s) (pos s)) (RInt k) =
    COk (mkCur (buf s') (size s) (pos s + k), [v])).
  assert (EL : odop_len (RInt k) = Some k).
  { cbn [odop_len]. destruct ((1 <=? k) && (k <=? 4)) eqn:X; [reflexivity|lia]. }
  rewrite (odop_matches_spec _ (RInt k) k Lt ltac:(cbn [odop_ok]; lia) EL) by (cbn [size pos]; lia).
  unfold adv. cbn [buf size pos]. do 2 f_equal.
  rewrite HV, Bt, be_value_be_bytes_mod. rewrite Z2Nat.id by lia. now rewrite Hf.
Qed.

Theorem oer_int_roundtrip : forall s v k s', olive s -> 1 <= k <= 4 ->
  - (256 ^ k) / 2 <= v < 256 ^ k / 2 ->
  pos s + k <= size s -> oappend_int s v k = COk s' ->
  oread_int (mkCur (buf s') (size s) (pos s)) k = COk (mkCur (buf s') (size s) (pos s + k), v).
Proof.
  intros s v k s' L Hk Hv R E.
  assert (K : k = 1 \/ k = 2 \/ k = 3 \/ k = 4) by lia.
  destruct K as [-> | [-> | [-> | ->]]].
  - apply (oer_int_roundtrip_aux s v 1 s' s8); auto; try lia.
    change (256 ^ 1) with 256 in *. unfold s8. lia.
  - apply (oer_int_roundtrip_aux s v 2 s' s16); auto; try lia.
    change (256 ^ 2) with 65536 in *. unfold s16. lia.
  - apply (oer_int_roundtrip_aux s v 3 s' sext24); auto; try lia.
    change (256 ^ 3) with 16777216 in *. apply sext24_mod. lia.
  - apply (oer_int_roundtrip_aux s v 4 s' s32); auto; try lia.
    change (256 ^ 4) with 4294967296 in *. unfold s32. lia.
Qed.

(** enumerated_value_length: 0 selects the short form; otherwise it is the
    least number of octets (1..4) whose two's complement range holds the value *)
Theorem oer_enumerated_value_length_spec : forall v, -2147483648 <= v < 2147483648 ->
  (enumerated_value_length v = 0 <-> 0 <= v < 128) /\
  (~ (0 <= v < 128) ->
   1 <= enumerated_value_length v <= 4 /\
   - (256 ^ enumerated_value_length v) / 2 <= v < 256 ^ enumerated_value_length v / 2 /\
   forall k, 1 <= k <= 4 -> - (256 ^ k) / 2 <= v < 256 ^ k / 2 -> enumerated_value_length v <= k).
Proof.
  intros v Hv. unfold enumerated_value_length. cbv zeta.
  replace (s32 v) with v by (unfold s32; lia).
  destruct ((0 <=? v) && (v <? 128)) eqn:E0.
  { split; [split; intros; [lia|reflexivity]|]. intros N. lia. }
  destruct ((-128 <=? v) && (v <? 128)) eqn:E1;
    [|destruct ((-32768 <=? v) && (v <? 32768)) eqn:E2;
      [|destruct ((-8388608 <=? v) && (v <? 8388608)) eqn:E3]];
  (split; [split; intros; lia|]); intros _;
  (split; [lia|]);
  (split; [change (256 ^ 1) with 256; change (256 ^ 2) with 65536; change (256 ^ 3) with 16777216;
           change (256 ^ 4) with 4294967296; lia|]);
  intros k Hk; assert (K : k = 1 \/ k = 2 \/ k = 3 \/ k = 4) by lia;
  destruct K as [-> | [-> | [-> | ->]]];
  change (256 ^ 1) with 256; change (256 ^ 2) with 65536; change (256 ^ 3) with 16777216;
  change (256 ^ 4) with 4294967296; lia.
Qed.

(* ------------------------------------------------------------------ *)
(** * The length determinant octets are those of the X.696 specification model *)

From Asn1V Require Oer.X696.

Lemma be_bytes_snoc k : forall v, be_bytes (S k) v = be_bytes k (v / 256) ++ [u8 v].
Proof.
  induction k as [|k IH]; intros v.
  - cbn [be_bytes app]. change (8 * Z.of_nat 0) with 0. now rewrite Z.shiftr_0_r.
  - change (be_bytes (S (S k)) v) with (u8 (Z.shiftr v (8 * Z.of_nat (S k))) :: be_bytes (S k) v).
    rewrite IH.
    change (be_bytes (S k) (v / 256)) with
      (u8 (Z.shiftr (v / 256) (8 * Z.of_nat k)) :: be_bytes k (v / 256)).
    cbn [app]. f_equal. f_equal.
    change 256 with (2 ^ 8). rewrite <- Z.shiftr_div_pow2 by lia.
    rewrite Z.shiftr_shiftr by lia. f_equal. lia.
Qed.

Lemma x_digits_be_bytes k : forall v acc,
  Oer.X696.x_digits_acc 256 k v acc = be_bytes k v ++ acc.
Proof.
  induction k as [|k IH]; intros v acc; [reflexivity|].
  cbn [Oer.X696.x_digits_acc]. rewrite IH, be_bytes_snoc, <- app_assoc. reflexivity.
Qed.

Lemma x_octets_be_bytes k v : Oer.X696.x_octets k v = be_bytes (Z.to_nat k) v.
Proof. unfold Oer.X696.x_octets. rewrite x_digits_be_bytes. apply app_nil_r. Qed.

Lemma x_search_bound_4 n : 128 <= n -> exists f, Oer.X696.search_bound n = S (S (S (S f))).
Proof.
  intros H. unfold Oer.X696.search_bound. rewrite Z.abs_eq by lia.
  assert (L : 7 <= Z.log2 n) by (change 7 with (Z.log2 128); apply Z.log2_le_mono; lia).
  exists (Z.to_nat (Z.log2 n / 7 + 3) - 4)%nat. lia.
Qed.

Theorem oer_length_determinant_is_x696 : forall n, 0 <= n < 4294967296 ->
  Some (oeop_spec (OLenDet n)) = Oer.X696.x_length n.
Proof.
  intros n Hn. unfold Oer.X696.x_length. cbn [oeop_spec]. cbv zeta.
  unfold u32. rewrite Z.mod_small by lia.
  destruct (n <? 0) eqn:E0; [lia|].
  destruct (n <? 128) eqn:E1; [reflexivity|].
  destruct (x_search_bound_4 n ltac:(lia)) as (f & Ef).
  unfold Oer.X696.x_ulen, Oer.X696.x_len. rewrite Ef. cbn [Oer.X696.least_from].
  change (1 + 1 + 1 + 1) with 4. change (1 + 1 + 1) with 3. change (1 + 1) with 2.
  change (256 ^ 1) with 256. change (256 ^ 2) with 65536. change (256 ^ 3) with 16777216.
  change (256 ^ 4) with 4294967296.
  destruct (n <? 256) eqn:E2; [|destruct (n <? 65536) eqn:E3;
    [|destruct (n <? 16777216) eqn:E4; [|destruct (n <? 4294967296) eqn:E5; [|lia]]]];
    cbn [Oer.X696.obind]; rewrite x_octets_be_bytes.
  - change (1 <? 128) with true. cbv iota. change (128 + 1) with 129. change (Z.to_nat 1) with 1%nat.
    cbn [be_bytes]. change (8 * Z.of_nat 0) with 0. rewrite Z.shiftr_0_r, u8_small by lia. reflexivity.
  - reflexivity.
  - reflexivity.
  - reflexivity.
Qed.

(* ------------------------------------------------------------------ *)
(** * The hypotheses are satisfiable: a live cursor over 4 bytes *)

Example oer_helpers_example :
  let s := mkCur [0; 0; 0; 0] 4 0 in
  olive s /\
  run_oeops s [OU8 171; OLenDet 2; OBool true] = COk (mkCur [171; 2; 255; 0] 4 3).
Proof.
  cbv zeta. split.
  - unfold olive, len, bytes_ok, is_byte. cbn [buf size pos length]. repeat split; try lia.
    repeat constructor; lia.
  - vm_compute. reflexivity.
Qed.
