(** C10 — proofs about the OER helper model (CGen/OerHelpers.v) for the
    predicates of CGen/OerHelpersSpec.v: in bounds / error latch, functional
    correctness against the octet specification, round trips. *)
From Asn1V Require Import Base.Prelude Base.Sweep CGen.Helpers CGen.HelpersSpec CGen.HelpersBits
  CGen.HelpersProofs CGen.OerHelpers CGen.OerHelpersSpec.

(* ------------------------------------------------------------------ *)
(** * Cursor basics (byte cursor) *)

Lemma olive_len s : olive s -> 0 <= len (buf s) < 4611686018427387904.
Proof. intros (_ & _ & H & _). pose proof (len_nonneg (buf s)). lia. Qed.

Lemma olive_not_latched s : olive s -> olatched s -> False.
Proof. intros (_ & L2 & _) [H1 H2]. lia. Qed.

Lemma oabort_latched s e : olatched s -> abort s e = s.
Proof. intros [H _]. unfold abort. destruct (size s >=? 0) eqn:E; [lia|reflexivity]. Qed.

Lemma oabort_live s e : olive s -> abort s e = mkCur (buf s) (- e) (- e).
Proof. intros (H1 & H2 & _). unfold abort. destruct (size s >=? 0) eqn:E; [reflexivity|lia]. Qed.

Lemma oabort_live_latched s e : olive s -> 0 < e <= 2147483647 -> olatched (abort s e).
Proof. intros H He. rewrite oabort_live by auto. unfold olatched; cbn. lia. Qed.

Lemma oalloc_latched err s n : olatched s -> 0 <= n < 9223372036854775808 - 2147483648 -> 0 < err ->
  exists p, alloc_gen err s n = COk (s, p) /\ p < 0.
Proof. intros L. now apply alloc_latched. Qed.

Lemma oalloc_live_room err s n : olive s -> 0 <= n -> pos s + n <= size s ->
  alloc_gen err s n = COk (mkCur (buf s) (size s) (pos s + n), pos s).
Proof.
  intros L Hn Hr. pose proof (olive_len s L). pose proof L as (L1 & L2 & _).
  rewrite alloc_gen_eq by lia.
  destruct (pos s + n <=? size s) eqn:E; [reflexivity|lia].
Qed.

Lemma oalloc_live_noroom err s n : olive s -> 0 <= n < 4611686018427387904 -> size s < pos s + n ->
  alloc_gen err s n = COk (abort s err, - err).
Proof.
  intros L Hn Hr. pose proof (olive_len s L). pose proof L as (L1 & L2 & _).
  rewrite alloc_gen_eq by lia.
  destruct (pos s + n <=? size s) eqn:E; [lia|reflexivity].
Qed.

Lemma oabort_adv s e n : olive s -> abort (mkCur (buf s) (size s) n) e = abort s e.
Proof.
  intros (L1 & L2 & _). unfold abort. cbn [buf size pos].
  destruct (size s >=? 0) eqn:E; [reflexivity|lia].
Qed.

Lemma olive_adv s n : olive s -> 0 <= n -> pos s + n <= size s -> olive (mkCur (buf s) (size s) (pos s + n)).
Proof. intros (L1 & L2 & L3 & L4) H1 H2. unfold olive. cbn [buf size pos]. repeat split; auto; lia. Qed.

(* ------------------------------------------------------------------ *)
(** * The octets under / before the cursor *)

Lemma owritten_length s : olive s -> length (owritten s) = Z.to_nat (pos s).
Proof. intros (L1 & L2 & _). unfold owritten. rewrite firstn_length. unfold len in *. lia. Qed.

(** a buffer that agrees with [b] outside [p, p + len l) and holds [l] there *)
Definition patched (b' b : list Z) (p : Z) (l : list Z) : Prop :=
  length b' = length b /\
  forall j, 0 <= j -> nthz b' j = if (p <=? j) && (j <? p + len l) then nthz l (j - p) else nthz b j.

Lemma patched_written b' b p l : 0 <= p -> p + len l <= len b -> patched b' b p l ->
  firstn (Z.to_nat (p + len l)) b' = firstn (Z.to_nat p) b ++ l.
Proof.
  intros Hp Hl (HL & HN). pose proof (len_nonneg l) as Hll.
  apply nthz_ext.
  - rewrite app_length, !firstn_length. unfold len in *. lia.
  - intros i Hi. unfold len in Hi. rewrite firstn_length in Hi.
    assert (Hi' : 0 <= i < p + len l) by (unfold len in *; lia).
    rewrite nthz_firstn by lia. rewrite HN by lia.
    destruct (Z.ltb_spec i p) as [C|C].
    + destruct ((p <=? i) && (i <? p + len l)) eqn:E; [lia|].
      rewrite nthz_app_l by (unfold len in *; rewrite firstn_length; lia).
      now rewrite nthz_firstn by lia.
    + destruct ((p <=? i) && (i <? p + len l)) eqn:E; [|lia].
      rewrite nthz_app_r by (unfold len in *; rewrite firstn_length; lia).
      f_equal. unfold len in *. rewrite firstn_length. lia.
Qed.

Lemma patched_at b' b p l : 0 <= p -> p + len l <= len b -> patched b' b p l ->
  firstn (length l) (skipn (Z.to_nat p) b') = l.
Proof.
  intros Hp Hl (HL & HN). pose proof (len_nonneg l) as Hll.
  apply nthz_ext.
  - rewrite firstn_length, skipn_length. unfold len in *. lia.
  - intros i Hi. unfold len in Hi. rewrite firstn_length, skipn_length in Hi.
    assert (Hi' : 0 <= i < len l) by (unfold len in *; lia).
    rewrite nthz_firstn by (unfold len in *; lia). rewrite nthz_skipn by lia.
    rewrite Z2Nat.id by lia. rewrite HN by lia.
    destruct ((p <=? i + p) && (i + p <? p + len l)) eqn:E; [|lia]. f_equal. lia.
Qed.

(* ------------------------------------------------------------------ *)
(** * encoder_append_bytes *)

Lemma oappend_bytes_latched s src n : olatched s -> 0 <= n < 4611686018427387904 ->
  oappend_bytes s src n = COk s.
Proof.
  intros L Hn. unfold oappend_bytes, oencoder_alloc.
  destruct (oalloc_latched ENOMEM s n L) as (p & -> & Hp); [lia|unfold ENOMEM; lia|].
  cbn [cbind]. destruct (p <? 0) eqn:E; [reflexivity|lia].
Qed.

Lemma oappend_bytes_noroom s src n : olive s -> 0 <= n < 4611686018427387904 ->
  size s < pos s + n -> oappend_bytes s src n = COk (abort s ENOMEM).
Proof.
  intros L Hn H. unfold oappend_bytes, oencoder_alloc.
  rewrite oalloc_live_noroom by (auto; lia). cbn [cbind]. reflexivity.
Qed.

Lemma oappend_bytes_room s src n : olive s -> 0 <= n <= len src -> pos s + n <= size s ->
  exists b', oappend_bytes s src n = COk (mkCur b' (size s) (pos s + n)) /\
    (bytes_ok src -> bytes_ok b') /\ patched b' (buf s) (pos s) (firstn (Z.to_nat n) src).
Proof.
  intros L Hn Hr. pose proof (olive_len s L) as HL. pose proof L as (L1 & L2 & _ & L4).
  unfold oappend_bytes, oencoder_alloc.
  rewrite oalloc_live_room by (auto; lia). cbn [cbind buf size pos].
  destruct (pos s <? 0) eqn:E; [lia|]. clear E.
  rewrite u64_small by lia.
  destruct (memcpy_spec (buf s) (pos s) src 0 n) as (d & -> & Ld & Bd & Nd); try lia.
  cbn [cbind]. exists d. split; [reflexivity|]. split; [auto|].
  assert (LF : len (firstn (Z.to_nat n) src) = n) by (unfold len in *; rewrite firstn_length; lia).
  split; [exact Ld|]. intros j Hj. rewrite Nd by lia. rewrite LF.
  destruct ((pos s <=? j) && (j <? pos s + n)) eqn:E; [|reflexivity].
  rewrite nthz_firstn by lia. f_equal.
Qed.

(* ------------------------------------------------------------------ *)
(** * Appenders: what one encoder call does in the three regimes *)

Definition oenc_post (s s' : cur) (l : list Z) : Prop :=
  olive s' /\ size s' = size s /\ length (buf s') = length (buf s) /\ pos s' = pos s + len l /\
  owritten s' = owritten s ++ l /\ patched (buf s') (buf s) (pos s) l.

Definition appender (A : cur -> cres cur) (l : list Z) : Prop :=
  (forall s, olatched s -> A s = COk s) /\
  (forall s, olive s -> size s < pos s + len l ->
     exists s', A s = COk s' /\ olatched s' /\ pos s' = - ENOMEM /\ length (buf s') = length (buf s)) /\
  (forall s, olive s -> pos s + len l <= size s -> exists s', A s = COk s' /\ oenc_post s s' l).

Lemma noroom_abort s : olive s ->
  exists s', COk (abort s ENOMEM) = COk s' /\ olatched s' /\ pos s' = - ENOMEM /\
             length (buf s') = length (buf s).
Proof.
  intros L. eexists; split; [reflexivity|].
  split; [apply oabort_live_latched; auto; unfold ENOMEM; lia|].
  rewrite oabort_live by auto. split; reflexivity.
Qed.

Lemma patched_trans b0 b1 b2 p l1 l2 : 0 <= p ->
  patched b1 b0 p l1 -> patched b2 b1 (p + len l1) l2 -> patched b2 b0 p (l1 ++ l2).
Proof.
  intros Hp (A1 & A2) (B1 & B2). pose proof (len_nonneg l1). pose proof (len_nonneg l2).
  split; [congruence|]. intros j Hj.
  assert (LA : len (l1 ++ l2) = len l1 + len l2) by (unfold len; rewrite app_length; lia).
  rewrite B2, A2 by lia. rewrite LA.
  destruct ((p + len l1 <=? j) && (j <? p + len l1 + len l2)) eqn:E1;
  destruct ((p <=? j) && (j <? p + len l1)) eqn:E2;
  destruct ((p <=? j) && (j <? p + (len l1 + len l2))) eqn:E3; try lia; try reflexivity.
  - rewrite nthz_app_r by lia. f_equal. lia.
  - now rewrite nthz_app_l by lia.
Qed.

Lemma oenc_post_trans s s1 s2 l1 l2 : olive s ->
  oenc_post s s1 l1 -> oenc_post s1 s2 l2 -> oenc_post s s2 (l1 ++ l2).
Proof.
  intros L (A1 & A2 & A3 & A4 & A5 & A6) (B1 & B2 & B3 & B4 & B5 & B6).
  unfold oenc_post. split; [exact B1|]. split; [congruence|]. split; [congruence|].
  split; [unfold len in *; rewrite app_length; lia|].
  split; [rewrite B5, A5; now rewrite app_assoc|].
  destruct L as (_ & L2 & _). rewrite A4 in B6. eapply patched_trans; eauto. lia.
Qed.

Lemma appender_seq A1 A2 l1 l2 : appender A1 l1 -> appender A2 l2 ->
  appender (fun s => let+ s1 := A1 s in A2 s1) (l1 ++ l2).
Proof.
  intros (P1 & P2 & P3) (Q1 & Q2 & Q3).
  assert (LA : len (l1 ++ l2) = len l1 + len l2) by (unfold len; rewrite app_length; lia).
  pose proof (len_nonneg l1) as N1. pose proof (len_nonneg l2) as N2.
  split; [|split].
  - intros s L. rewrite P1 by auto. cbn [cbind]. auto.
  - intros s L H. rewrite LA in H.
    destruct (Z.le_gt_cases (pos s + len l1) (size s)) as [R|R].
    + destruct (P3 s L R) as (s1 & -> & L1 & S1 & B1 & Q & _). cbn [cbind].
      destruct (Q2 s1 L1 ltac:(lia)) as (s2 & -> & K1 & K2 & K3).
      exists s2. split; [reflexivity|]. split; [exact K1|]. split; [exact K2|]. congruence.
    + destruct (P2 s L R) as (s1 & -> & K1 & K2 & K3). cbn [cbind].
      rewrite Q1 by auto. exists s1. auto.
  - intros s L H. rewrite LA in H.
    destruct (P3 s L ltac:(lia)) as (s1 & -> & PP). cbn [cbind].
    pose proof PP as (L1 & S1 & B1 & Q & _).
    destruct (Q3 s1 L1 ltac:(lia)) as (s2 & -> & QQ).
    exists s2. split; [reflexivity|]. eapply oenc_post_trans; eauto.
Qed.

Lemma appender_ext A A' l : (forall s, A s = A' s) -> appender A' l -> appender A l.
Proof.
  intros E (P1 & P2 & P3). split; [|split]; intros s; rewrite E; auto.
Qed.

Lemma appender_bytes src n : 0 <= n <= len src -> n < 4611686018427387904 -> bytes_ok src ->
  appender (fun s => oappend_bytes s src n) (firstn (Z.to_nat n) src).
Proof.
  intros Hn Hn2 Bs.
  assert (LF : len (firstn (Z.to_nat n) src) = n) by (unfold len in *; rewrite firstn_length; lia).
  split; [|split]; rewrite ?LF.
  - intros s L. apply oappend_bytes_latched; auto; lia.
  - intros s L H. rewrite oappend_bytes_noroom by (auto; lia). now apply noroom_abort.
  - intros s L H.
    pose proof (olive_len s L) as HL. pose proof L as (L1 & L2 & L3 & L4).
    destruct (oappend_bytes_room s src n L ltac:(lia) H) as (b' & -> & Bb & Pb).
    eexists; split; [reflexivity|]. pose proof Pb as (Lb & _).
    unfold oenc_post. cbn [buf size pos]. rewrite LF.
    split.
    { unfold olive, len in *. cbn [buf size pos]. rewrite Lb. repeat split; auto; lia. }
    split; [reflexivity|]. split; [exact Lb|]. split; [reflexivity|]. split; [|exact Pb].
    unfold owritten. cbn [buf pos]. rewrite <- LF at 1.
    apply patched_written; auto; lia.
Qed.

(* ------------------------------------------------------------------ *)
(** * Big-endian octets of a value *)

Lemma obe_bytes_length k v : length (be_bytes k v) = k.
Proof. induction k; cbn [be_bytes length]; auto. Qed.

Lemma obe_bytes_ok k v : bytes_ok (be_bytes k v).
Proof. induction k; cbn [be_bytes]; constructor; auto. apply is_byte_u8. Qed.

Lemma u8_shiftr_mod v m j : 0 <= j -> j + 8 <= m ->
  u8 (Z.shiftr (v mod 2 ^ m) j) = u8 (Z.shiftr v j).
Proof.
  intros Hj Hm. rewrite !u8_pow. apply Z.bits_inj'. intros i Hi.
  rewrite !Z.testbit_mod_pow2 by lia.
  destruct (Z.ltb_spec i 8); [|reflexivity]. cbn [andb].
  rewrite !Z.shiftr_spec by lia. rewrite Z.testbit_mod_pow2 by lia.
  destruct (Z.ltb_spec (i + j) m); [reflexivity|lia].
Qed.

Lemma be_bytes_mod k m v : 8 * Z.of_nat k <= m -> be_bytes k (v mod 2 ^ m) = be_bytes k v.
Proof.
  induction k as [|k IH]; intros H; [reflexivity|].
  cbn [be_bytes]. rewrite u8_shiftr_mod by lia. rewrite IH by lia. reflexivity.
Qed.

Lemma be_bytes_congr k m a b : 8 * Z.of_nat k <= m -> a mod 2 ^ m = b mod 2 ^ m ->
  be_bytes k a = be_bytes k b.
Proof. intros H E. rewrite <- (be_bytes_mod k m a), <- (be_bytes_mod k m b) by auto. now rewrite E. Qed.

Lemma appender_be k w : (k <= 8)%nat ->
  appender (fun s => oappend_bytes s (be_bytes k w) (Z.of_nat k)) (be_bytes k w).
Proof.
  intros Hk.
  assert (H : appender (fun s => oappend_bytes s (be_bytes k w) (Z.of_nat k))
                (firstn (Z.to_nat (Z.of_nat k)) (be_bytes k w))).
  { apply appender_bytes; [unfold len; rewrite obe_bytes_length; lia|lia|apply obe_bytes_ok]. }
  now rewrite Nat2Z.id, firstn_all2 in H by (rewrite obe_bytes_length; lia).
Qed.
