(** C10 — semantic tie: the OER helper functions parsed from the C text in /repo
    ([Asn1Gen.OerHelpersIr.oer_helpers_ir], regenerated on every run), executed
    by the interpreter of CGen/Ir.v on SYMBOLIC arguments, compute the functions
    of the model CGen/OerHelpers.v.

    Method.  The interpreter is a mutual fixpoint on one fuel; [cbn] cannot be
    stopped at a callee inside it.  Section "Open recursion" restates one level
    of each interpreter function as a non-recursive functional ([evalF] ...,
    equal to the original by [reflexivity]) and rebuilds the interpreter as a
    single fixpoint [semO] on the fuel in which a call is an ORACLE; with the
    oracle [call prog] it is pointwise equal to the original ([sem_ok]).  A body
    is then executed by [cbn] up to its calls, which are rewritten with the
    theorem of the callee.  Every theorem holds for EVERY fuel above a
    constant (loops: plus the number of iterations). *)
From Asn1V Require Import Base.Prelude CGen.Helpers CGen.HelpersSpec CGen.HelpersBits CGen.Ir
  CGen.HelpersIrTie CGen.OerHelpers.
From Asn1Gen Require Import OerHelpersIr.
Open Scope string_scope.
Open Scope list_scope.
Open Scope Z_scope.

(* ================================================================== *)
(** * Open recursion: one level of the interpreter *)

Section OneLevel.
  Variable prog : program.
  Variable ev : env -> expr -> res (env * Z).
  Variable rs : env -> path -> res (env * (string * list sel)).
  Variable cl : env -> string -> list arg -> res (env * option Z).
  Variable ex : env -> stmt -> res (env * flow).
  Variable el : env -> list stmt -> res (env * flow).
  Variable k : nat.   (* iterations available to a for loop *)

  Definition evalF (e : env) (x : expr) : res (env * Z) :=
    match x with
    | EConst z => ROk (e, z)
    | ERead p =>
      let^ (e1, xs) := rs e p in
      let '(x0, ss) := xs in
      let^ v := env_get e1 x0 ss in
      let^ z := as_int v in ROk (e1, z)
    | ECast t a => let^ (e1, z) := ev e a in ROk (e1, conv t z)
    | EBin op t a b =>
      let^ (e1, za) := ev e a in
      let^ (e2, zb) := ev e1 b in
      let^ r := eval_bin op t za zb in ROk (e2, r)
    | ENeg t a => let^ (e1, z) := ev e a in let^ r := arith t (- z) in ROk (e1, r)
    | ELNot a => let^ (e1, z) := ev e a in ROk (e1, truth (z =? 0))
    | ELAnd a b =>
      let^ (e1, za) := ev e a in
      if za =? 0 then ROk (e1, 0)
      else let^ (e2, zb) := ev e1 b in ROk (e2, truth (negb (zb =? 0)))
    | ELOr a b =>
      let^ (e1, za) := ev e a in
      if negb (za =? 0) then ROk (e1, 1)
      else let^ (e2, zb) := ev e1 b in ROk (e2, truth (negb (zb =? 0)))
    | ECond c a b =>
      let^ (e1, zc) := ev e c in
      if negb (zc =? 0) then ev e1 a else ev e1 b
    | ECall f args =>
      let^ (e1, r) := cl e f args in
      match r with Some z => ROk (e1, z) | None => ROk (e1, 0) end
    | EMemcmpNe a b len =>
      let^ (e1, zn) := ev e len in
      let^ (e2, xa) := rs e1 a in
      let^ (e3, xb) := rs e2 b in
      let^ va := env_get e3 (fst xa) (snd xa) in
      let^ vb := env_get e3 (fst xb) (snd xb) in
      match va, vb with
      | VArr la, VArr lb =>
        if zn <? 0 then RFail FOob
        else let^ same := val_eqb_ints la lb (Z.to_nat zn) in ROk (e3, truth (negb same))
      | _, _ => RFail (FStuck "memcmp of non-arrays")
      end
    end.

  Definition resolveF (e : env) (p : path) : res (env * (string * list sel)) :=
    match p with
    | PVar x => ROk (e, (x, []))
    | PField q f =>
      let^ (e1, xs) := rs e q in
      ROk (e1, (fst xs, snd xs ++ [SelF f]))
    | PIndex q i =>
      let^ (e1, xs) := rs e q in
      let^ (e2, zi) := ev e1 i in
      ROk (e2, (fst xs, snd xs ++ [SelI zi]))
    end.

  Section Loop.
    Variables (c : expr) (step body : list stmt).
    Fixpoint floop (j : nat) (e0 : env) {struct j} : res (env * flow) :=
      match j with
      | O => RFail FFuel
      | S j' =>
        let^ (e2, z) := ev e0 c in
        if z =? 0 then ROk (e2, FNormal)
        else
          let^ (e3, fl1) := el e2 body in
          match fl1 with
          | FNormal =>
            let^ (e4, fl2) := el e3 step in
            match fl2 with FNormal => floop j' e4 | _ => RFail (FStuck "flow in for step") end
          | FBreak => ROk (e3, FNormal)
          | FReturn v => ROk (e3, FReturn v)
          end
      end.
  End Loop.

  Section Find.
    Variables (z : Z) (dflt : list stmt).
    Fixpoint sfind (l : list (list Z * list stmt)) : list stmt :=
      match l with
      | [] => dflt
      | (labels, b) :: r => if existsb (Z.eqb z) labels then b else sfind r
      end.
  End Find.

  (** the arm selection of a switch with the [if]s outside the execution, so that
      a symbolic scrutinee leaves every arm executed separately *)
  Section Switch.
    Variables (e1 : env) (z : Z) (dflt : list stmt).
    Fixpoint sswitch (l : list (list Z * list stmt)) : res (env * flow) :=
      match l with
      | [] => el e1 dflt
      | (labels, b) :: r => if existsb (Z.eqb z) labels then el e1 b else sswitch r
      end.
    Lemma sswitch_sfind l : sswitch l = el e1 (sfind z dflt l).
    Proof. induction l as [|[labels b] r IH]; cbn [sswitch sfind]; [reflexivity|]. now destruct (existsb _ labels). Qed.
  End Switch.

  Definition execF (e : env) (s : stmt) : res (env * flow) :=
    match s with
    | SAssign p t a =>
      let^ (e1, z) := ev e a in
      let^ (e2, xs) := rs e1 p in
      let^ e3 := env_set e2 (fst xs) (snd xs) (VInt (conv t z)) in
      ROk (e3, FNormal)
    | SCopy p q =>
      let^ (e1, xq) := rs e q in
      let^ v := env_get e1 (fst xq) (snd xq) in
      let^ (e2, xp) := rs e1 p in
      let^ e3 := env_set e2 (fst xp) (snd xp) v in
      ROk (e3, FNormal)
    | SExpr a => let^ (e1, _) := ev e a in ROk (e1, FNormal)
    | SIf c a b =>
      let^ (e1, z) := ev e c in
      if negb (z =? 0) then el e1 a else el e1 b
    | SFor init c step body =>
      let^ (e1, fl) := el e init in
      match fl with
      | FNormal => floop c step body k e1
      | _ => RFail (FStuck "flow in for init")
      end
    | SSwitch a arms dflt =>
      let^ (e1, z) := ev e a in
      let^ (e2, fl) := sswitch e1 z dflt arms in
      match fl with
      | FBreak => ROk (e2, FNormal)
      | FReturn v => ROk (e2, FReturn v)
      | FNormal => RFail (FStuck "switch arm falls through")
      end
    | SReturn None => ROk (e, FReturn None)
    | SReturn (Some a) => let^ (e1, z) := ev e a in ROk (e1, FReturn (Some z))
    | SBreak => ROk (e, FBreak)
    | SMemcpy dst doff src soff len =>
      let^ (e1, zn) := ev e len in
      let^ (e2, zd) := ev e1 doff in
      let^ (e3, zs) := ev e2 soff in
      let^ (e4, xd) := rs e3 dst in
      let^ (e5, xsrc) := rs e4 src in
      let^ vd := env_get e5 (fst xd) (snd xd) in
      let^ vs := env_get e5 (fst xsrc) (snd xsrc) in
      match vd, vs with
      | VArr ld, VArr ls =>
        if (zn <? 0) || (zd <? 0) || (zs <? 0) then RFail FOob
        else
          let^ ld' := copy_elems ld (Z.to_nat zd) ls (Z.to_nat zs) (Z.to_nat zn) in
          let^ e6 := env_set e5 (fst xd) (snd xd) (VArr ld') in
          ROk (e6, FNormal)
      | _, _ => RFail (FStuck "memcpy of non-arrays")
      end
    end.

  Definition exec_listF (e : env) (l : list stmt) : res (env * flow) :=
    match l with
    | [] => ROk (e, FNormal)
    | s :: r =>
      let^ (e1, fl) := ex e s in
      match fl with
      | FNormal => el e1 r
      | _ => ROk (e1, fl)
      end
    end.
End OneLevel.

Lemma eval_S prog n e x :
  eval prog (S n) e x = evalF (eval prog n) (resolve prog n) (call prog n) e x.
Proof. reflexivity. Qed.
Lemma resolve_S prog n e p :
  resolve prog (S n) e p = resolveF (eval prog n) (resolve prog n) e p.
Proof. reflexivity. Qed.
Lemma exec_S prog n e s :
  exec prog (S n) e s = execF (eval prog n) (resolve prog n) (exec_list prog n) n e s.
Proof.
  destruct s; try reflexivity.
  cbn [execF].
  change (exec prog (S n) e (SSwitch e0 arms dflt)) with
    (let^ (e1, z) := eval prog n e e0 in
     let^ (e2, fl) := exec_list prog n e1 (sfind z dflt arms) in
     match fl with
     | FBreak => ROk (e2, FNormal)
     | FReturn v => ROk (e2, FReturn v)
     | FNormal => RFail (FStuck "switch arm falls through")
     end).
  destruct (eval prog n e e0) as [[e1 z]|]; [|reflexivity]. cbn [rbind].
  now rewrite sswitch_sfind.
Qed.
Lemma exec_list_S prog n e l :
  exec_list prog (S n) e l = exec_listF (exec prog n) (exec_list prog n) e l.
Proof. reflexivity. Qed.

(** the interpreter again, as ONE fixpoint on the fuel, calls answered by an oracle *)
Record sem : Type := mkSem {
  s_eval : env -> expr -> res (env * Z);
  s_resolve : env -> path -> res (env * (string * list sel));
  s_exec : env -> stmt -> res (env * flow);
  s_exec_list : env -> list stmt -> res (env * flow) }.

Section Oracle.
  Variable C : nat -> env -> string -> list arg -> res (env * option Z).
  Fixpoint semO (n : nat) : sem :=
    match n with
    | O => mkSem (fun _ _ => RFail FFuel) (fun _ _ => RFail FFuel)
                 (fun _ _ => RFail FFuel) (fun _ _ => RFail FFuel)
    | S n' =>
      let r := semO n' in
      mkSem (evalF (s_eval r) (s_resolve r) (C n'))
            (resolveF (s_eval r) (s_resolve r))
            (execF (s_eval r) (s_resolve r) (s_exec_list r) n')
            (exec_listF (s_exec r) (s_exec_list r))
    end.
End Oracle.

Section Ext.
  Variables (ev ev' : env -> expr -> res (env * Z))
            (rs rs' : env -> path -> res (env * (string * list sel)))
            (cl : env -> string -> list arg -> res (env * option Z))
            (ex ex' : env -> stmt -> res (env * flow))
            (el el' : env -> list stmt -> res (env * flow)).
  Hypothesis Hev : forall e x, ev e x = ev' e x.
  Hypothesis Hrs : forall e p, rs e p = rs' e p.
  Hypothesis Hex : forall e s, ex e s = ex' e s.
  Hypothesis Hel : forall e l, el e l = el' e l.

  Ltac ext_step :=
    first [ reflexivity
          | rewrite Hev | rewrite Hrs | rewrite Hex | rewrite Hel
          | match goal with
            | |- rbind ?r _ = rbind ?r _ =>
              let x := fresh "x" in destruct r as [x|]; [|reflexivity]; cbn [rbind]; try destruct x
            | |- (if ?c then _ else _) = (if ?c then _ else _) => destruct c
            | |- match ?v with _ => _ end = match ?v with _ => _ end => destruct v
            end ].

  Lemma evalF_ext e x : evalF ev rs cl e x = evalF ev' rs' cl e x.
  Proof. destruct x; cbn [evalF]; repeat ext_step. Qed.

  Lemma resolveF_ext e p : resolveF ev rs e p = resolveF ev' rs' e p.
  Proof. destruct p; cbn [resolveF]; repeat ext_step. Qed.

  Lemma floop_ext c step body j : forall e, floop ev el c step body j e = floop ev' el' c step body j e.
  Proof.
    induction j as [|j IH]; intros e; [reflexivity|]. cbn [floop].
    repeat first [ rewrite IH | ext_step ].
  Qed.

  Lemma sswitch_ext e1 z dflt l : sswitch el e1 z dflt l = sswitch el' e1 z dflt l.
  Proof. induction l as [|[labels b] r IH]; cbn [sswitch]; [apply Hel|]. rewrite IH, Hel. reflexivity. Qed.

  Lemma execF_ext k e s : execF ev rs el k e s = execF ev' rs' el' k e s.
  Proof.
    destruct s; cbn [execF]; repeat first [ apply floop_ext | rewrite sswitch_ext | ext_step ].
  Qed.

  Lemma exec_listF_ext e l : exec_listF ex el e l = exec_listF ex' el' e l.
  Proof. destruct l; cbn [exec_listF]; repeat ext_step. Qed.
End Ext.

Lemma sem_ok prog n :
  (forall e x, s_eval (semO (call prog) n) e x = eval prog n e x) /\
  (forall e p, s_resolve (semO (call prog) n) e p = resolve prog n e p) /\
  (forall e s, s_exec (semO (call prog) n) e s = exec prog n e s) /\
  (forall e l, s_exec_list (semO (call prog) n) e l = exec_list prog n e l).
Proof.
  induction n as [|n (I1 & I2 & I3 & I4)].
  - repeat split; intros; reflexivity.
  - repeat split; intros.
    + rewrite eval_S. cbn [semO s_eval]. now apply evalF_ext.
    + rewrite resolve_S. cbn [semO s_resolve]. now apply resolveF_ext.
    + rewrite exec_S. cbn [semO s_exec]. now apply execF_ext.
    + rewrite exec_list_S. cbn [semO s_exec_list]. now apply exec_listF_ext.
Qed.

Lemma exec_list_sem prog n e l : exec_list prog n e l = s_exec_list (semO (call prog) n) e l.
Proof. symmetry. apply sem_ok. Qed.
Lemma eval_sem prog n e x : eval prog n e x = s_eval (semO (call prog) n) e x.
Proof. symmetry. apply sem_ok. Qed.
Lemma exec_sem prog n e s : exec prog n e s = s_exec (semO (call prog) n) e s.
Proof. symmetry. apply sem_ok. Qed.

(* ================================================================== *)
(** * A call in any caller: binding, body, copy-out *)

Definition ret_of (f : string) (fn : func) (fl : flow) (e2 : env) : res (env * option Z) :=
  match fl, f_ret fn with
  | FReturn (Some z), Some t => ROk (e2, Some (conv t z))
  | FReturn None, None | FNormal, None => ROk (e2, None)
  | FNormal, Some _ => RFail FUb
  | _, _ => RFail (FStuck ("return of " +++ f))
  end.

Ltac ccbn := cbn [rbind fst snd app lookup update String.eqb Ascii.eqb Bool.eqb andb vget vset as_int
                  f_params f_locals f_body f_ret].

Lemma call_s prog f fn p1 n e x c :
  lookup f prog = Some fn -> f_params fn = [(p1, PByRef)] ->
  lookup x e = Some c -> (1 <= n)%nat ->
  call prog (S n) e f [ARef (PVar x)] =
  let^ (frame', fl) := exec_list prog n ([(p1, c)] ++ f_locals fn) (f_body fn) in
  match lookup p1 frame' with
  | None => RFail (FStuck "copy-out")
  | Some v => let^ e1 := env_set e x [] v in ret_of f fn fl e1
  end.
Proof.
  intros Hf Hp Hx Hn. rewrite call_S. unfold call_body. rewrite Hf, Hp.
  ccbn. rewrite !resolve_PVar by lia. ccbn. unfold env_get at 1. rewrite Hx. ccbn.
  destruct (exec_list prog n _ (f_body fn)) as [[frame' fl]|ff]; ccbn; [|reflexivity].
  destruct (lookup p1 frame') as [v|]; [|reflexivity].
  destruct (env_set e x [] v); ccbn; reflexivity.
Qed.

Lemma call_sv prog f fn p1 p2 t n e x a z t' c :
  lookup f prog = Some fn -> f_params fn = [(p1, PByRef); (p2, PByVal t)] ->
  lookup x e = Some c -> eval prog n e a = ROk (e, z) -> (1 <= n)%nat ->
  call prog (S n) e f [ARef (PVar x); AVal t' a] =
  let^ (frame', fl) := exec_list prog n ([(p1, c); (p2, VInt (conv t z))] ++ f_locals fn) (f_body fn) in
  match lookup p1 frame' with
  | None => RFail (FStuck "copy-out")
  | Some v => let^ e1 := env_set e x [] v in ret_of f fn fl e1
  end.
Proof.
  intros Hf Hp Hx Ha Hn. rewrite call_S. unfold call_body. rewrite Hf, Hp.
  ccbn. rewrite !resolve_PVar by lia. ccbn. unfold env_get at 1. rewrite Hx. ccbn. rewrite Ha. ccbn.
  destruct (exec_list prog n _ (f_body fn)) as [[frame' fl]|ff]; ccbn; [|reflexivity].
  destruct (lookup p1 frame') as [v|]; [|reflexivity].
  destruct (env_set e x [] v); ccbn; reflexivity.
Qed.

(** self_p, a byte object by reference, a size *)
Lemma call_srv prog f fn p1 p2 p3 t n e x y a z t' c d :
  lookup f prog = Some fn -> f_params fn = [(p1, PByRef); (p2, PByRef); (p3, PByVal t)] ->
  lookup x e = Some c -> lookup y e = Some d -> eval prog n e a = ROk (e, z) -> (1 <= n)%nat ->
  call prog (S n) e f [ARef (PVar x); ARef (PVar y); AVal t' a] =
  let^ (frame', fl) :=
     exec_list prog n ([(p1, c); (p2, d); (p3, VInt (conv t z))] ++ f_locals fn) (f_body fn) in
  match lookup p1 frame' with
  | None => RFail (FStuck "copy-out")
  | Some v =>
    let^ e1 := env_set e x [] v in
    match lookup p2 frame' with
    | None => RFail (FStuck "copy-out")
    | Some w => let^ e2 := env_set e1 y [] w in ret_of f fn fl e2
    end
  end.
Proof.
  intros Hf Hp Hx Hy Ha Hn. rewrite call_S. unfold call_body. rewrite Hf, Hp.
  ccbn. rewrite !resolve_PVar by lia. ccbn. unfold env_get at 1. rewrite Hx. ccbn.
  rewrite !resolve_PVar by lia. ccbn. unfold env_get at 1. rewrite Hy. ccbn. rewrite Ha. ccbn.
  destruct (exec_list prog n _ (f_body fn)) as [[frame' fl]|ff]; ccbn; [|reflexivity].
  destruct (lookup p1 frame') as [v|]; [|reflexivity].
  destruct (env_set e x [] v) as [e1|]; ccbn; [|reflexivity].
  destruct (lookup p2 frame') as [w|]; [|reflexivity].
  destruct (env_set e1 y [] w); ccbn; reflexivity.
Qed.

(** the same with the address of a scalar as the byte object *)
Lemma call_ssv prog f fn p1 p2 p3 t n e x y a z t' c d :
  lookup f prog = Some fn -> f_params fn = [(p1, PByRef); (p2, PByRef); (p3, PByVal t)] ->
  lookup x e = Some c -> lookup y e = Some d -> eval prog n e a = ROk (e, z) -> (1 <= n)%nat ->
  call prog (S n) e f [ARef (PVar x); ARefScalar (PVar y); AVal t' a] =
  let^ (frame', fl) :=
     exec_list prog n ([(p1, c); (p2, VArr [d]); (p3, VInt (conv t z))] ++ f_locals fn) (f_body fn) in
  match lookup p1 frame' with
  | None => RFail (FStuck "copy-out")
  | Some v =>
    let^ e1 := env_set e x [] v in
    match lookup p2 frame' with
    | None => RFail (FStuck "copy-out")
    | Some w' => let^ w := vget w' [SelI 0] in let^ e2 := env_set e1 y [] w in ret_of f fn fl e2
    end
  end.
Proof.
  intros Hf Hp Hx Hy Ha Hn. rewrite call_S. unfold call_body. rewrite Hf, Hp.
  ccbn. rewrite !resolve_PVar by lia. ccbn. unfold env_get at 1. rewrite Hx. ccbn.
  rewrite !resolve_PVar by lia. ccbn. unfold env_get at 1. rewrite Hy. ccbn. rewrite Ha. ccbn.
  destruct (exec_list prog n _ (f_body fn)) as [[frame' fl]|ff]; ccbn; [|reflexivity].
  destruct (lookup p1 frame') as [v|]; [|reflexivity].
  destruct (env_set e x [] v) as [e1|]; ccbn; [|reflexivity].
  destruct (lookup p2 frame') as [w'|]; [|reflexivity].
  match goal with |- rbind (rbind ?X _) _ = _ => destruct X as [w|] end; [|reflexivity]. cbn [rbind].
  destruct (env_set e1 y [] w); ccbn; reflexivity.
Qed.

(** [run] is a call from the frame of its "$" variables *)
Lemma run_eq prog fuel f fn args :
  lookup f prog = Some fn -> length (f_params fn) = length args ->
  run prog fuel f args =
  let^ (e1, r) := call prog fuel (combine (map (fun x => append "$" x) (map fst (f_params fn))) args) f
      (map (fun xp => match snd xp with
                      | PByVal t => AVal t (ERead (PVar (append "$" (fst xp))))
                      | PByRef => ARef (PVar (append "$" (fst xp)))
                      | PByRefScalar => ARefScalar (PVar (append "$" (fst xp)))
                      end) (f_params fn)) in
  ROk (r, map snd e1).
Proof.
  intros Hf Hl. unfold run. rewrite Hf. rewrite map_length, Hl, Nat.eqb_refl. reflexivity.
Qed.

(* ================================================================== *)
(** * Symbolic execution of the OER helper block *)

Notation P := oer_helpers_ir.

Definition ofn (f : string) : func :=
  match lookup f P with Some fn => fn | None => mkFunc [] [] [] None end.

(** run the (oracle) interpreter as far as the symbolic values allow; calls stay *)
Ltac sx := cbn -[Z.add Z.sub Z.mul Z.leb Z.ltb Z.geb Z.opp Z.eqb conv in_range Z.modulo Z.pow
                 truth u64 s64 u8 u16 u32 s8 s16 s32 in_s64 in_s32 Z.quot Z.rem Z.div
                 Z.shiftl Z.shiftr Z.land Z.lor rd wr call floop copy_elems Z.to_nat Z.of_nat
                 abort alloc_gen memcpy memset_loop
                 oappend_bytes oappend_uint8 oappend_uint16 oappend_uint32 oappend_uint64
                 oappend_int8 oappend_int16 oappend_int32 oappend_int64
                 oread_bytes oread_uint8 oread_uint16 oread_uint32 oread_uint64
                 oread_int8 oread_int16 oread_int32 oread_int64 oread_tag_loop oread_long_uint_loop].

Lemma fuel_split K n : (K <= n)%nat -> exists m, n = (K + m)%nat.
Proof. intros H. exists (n - K)%nat. lia. Qed.

Ltac s64_fix := repeat match goal with
  | H : in_s64 ?z = true |- context [s64 ?z] => rewrite (s64_id z H)
  end.

Ltac brk := match goal with
  | |- context [if ?c then _ else _] =>
    lazymatch c with
    | in_s64 _ => idtac | in_s32 _ => idtac | in_range _ _ => idtac
    | Z.leb _ _ => idtac | Z.ltb _ _ => idtac | Z.eqb _ _ => idtac | Z.geb _ _ => idtac
    end;
    let E := fresh "E" in destruct c eqn:E
  end.

Ltac norm3 :=
  repeat match goal with
  | |- context [conv U16 ?z] => change (conv U16 z) with (u16 z)
  | |- context [conv U32 ?z] => change (conv U32 z) with (u32 z)
  | |- context [conv I8 ?z] => change (conv I8 z) with (s8 z)
  | |- context [conv I16 ?z] => change (conv I16 z) with (s16 z)
  | |- context [conv I32 ?z] => change (conv I32 z) with (s32 z)
  end; norm2.

Ltac go :=
  sx; norm3; s64_fix;
  first [ reflexivity
        | match goal with H : ?c = _ |- context [if ?c then _ else _] => rewrite H end; go
        | brk; go
        | idtac ].

(** enter the body of [f] called from any environment, at fuel [K + m] *)
Ltac enter_sv f p1 p2 t K Hn Hx Ha :=
  match goal with |- call P (S ?n) ?e f [ARef (PVar ?x); AVal ?t' ?a] = _ =>
    rewrite (call_sv P f (ofn f) p1 p2 t n e x a _ t' _ eq_refl eq_refl Hx Ha) by lia;
    let m := fresh "m" in destruct (fuel_split K n Hn) as (m & ->);
    rewrite exec_list_sem; unfold ofn
  end.
Ltac enter_s f p1 K Hn Hx :=
  match goal with |- call P (S ?n) ?e f [ARef (PVar ?x)] = _ =>
    rewrite (call_s P f (ofn f) p1 n e x _ eq_refl eq_refl Hx) by lia;
    let m := fresh "m" in destruct (fuel_split K n Hn) as (m & ->);
    rewrite exec_list_sem; unfold ofn
  end.

(* ------------------------------------------------------------------ *)
(** ** abort, alloc / free *)

Ltac abort_tac f Hn Hx Ha :=
  enter_sv f "self_p" "error" I64 10%nat Hn Hx Ha;
  unfold abort, cur_val; cbn [size buf pos]; rewrite Z.geb_leb; go.

Lemma ocall_encoder_abort n e x a z t' b sz ps :
  (10 <= n)%nat -> lookup x e = Some (cursor_val b sz ps) -> eval P n e a = ROk (e, z) ->
  in_s64 sz = true -> in_s64 ps = true -> -9223372036854775807 <= s64 z ->
  call P (S n) e "encoder_abort" [ARef (PVar x); AVal t' a] =
  let^ e1 := env_set e x [] (cur_val (abort (mkCur b sz ps) (s64 z))) in ROk (e1, None).
Proof.
  intros Hn Hx Ha Hsz Hps He.
  assert (R : in_s64 (- s64 z) = true) by (unfold in_s64, s64 in *; lia).
  abort_tac "encoder_abort" Hn Hx Ha.
Qed.

Lemma ocall_decoder_abort n e x a z t' b sz ps :
  (10 <= n)%nat -> lookup x e = Some (cursor_val b sz ps) -> eval P n e a = ROk (e, z) ->
  in_s64 sz = true -> in_s64 ps = true -> -9223372036854775807 <= s64 z ->
  call P (S n) e "decoder_abort" [ARef (PVar x); AVal t' a] =
  let^ e1 := env_set e x [] (cur_val (abort (mkCur b sz ps) (s64 z))) in ROk (e1, None).
Proof.
  intros Hn Hx Ha Hsz Hps He.
  assert (R : in_s64 (- s64 z) = true) by (unfold in_s64, s64 in *; lia).
  abort_tac "decoder_abort" Hn Hx Ha.
Qed.

Ltac alloc_tac' f ab err Hn Hx Ha Hsz Hps :=
  enter_sv f "self_p" "size" U64 20%nat Hn Hx Ha;
  unfold oencoder_alloc, odecoder_free, alloc_gen, cur_val; cbn [size buf pos];
  sx; norm3;
  match goal with |- context [in_s64 (?ps + s64 (u64 ?z))] =>
    let R := fresh "R" in let L := fresh "L" in
    destruct (in_s64 (ps + s64 (u64 z))) eqn:R; [|sx; reflexivity];
    sx; norm3;
    destruct (ps + s64 (u64 z) <=? _) eqn:L;
    [ go
    | sx; norm3;
      erewrite ab; [|lia|reflexivity|reflexivity|exact Hsz|exact Hps|vm_compute; discriminate];
      unfold cur_val, ENOMEM, EOUTOFDATA; change (s64 err) with err; go ]
  end.

Lemma ocall_encoder_alloc n e x a z t' b sz ps :
  (20 <= n)%nat -> lookup x e = Some (cursor_val b sz ps) -> eval P n e a = ROk (e, z) ->
  in_s64 sz = true -> in_s64 ps = true ->
  call P (S n) e "encoder_alloc" [ARef (PVar x); AVal t' a] =
  match oencoder_alloc (mkCur b sz ps) z with
  | COk (s', p) => let^ e1 := env_set e x [] (cur_val s') in ROk (e1, Some p)
  | COob => RFail FOob | CUb => RFail FUb end.
Proof.
  intros Hn Hx Ha Hsz Hps.
  alloc_tac' "encoder_alloc" ocall_encoder_abort 12 Hn Hx Ha Hsz Hps.
Qed.

Lemma ocall_decoder_free n e x a z t' b sz ps :
  (20 <= n)%nat -> lookup x e = Some (cursor_val b sz ps) -> eval P n e a = ROk (e, z) ->
  in_s64 sz = true -> in_s64 ps = true ->
  call P (S n) e "decoder_free" [ARef (PVar x); AVal t' a] =
  match odecoder_free (mkCur b sz ps) z with
  | COk (s', p) => let^ e1 := env_set e x [] (cur_val s') in ROk (e1, Some p)
  | COob => RFail FOob | CUb => RFail FUb end.
Proof.
  intros Hn Hx Ha Hsz Hps.
  alloc_tac' "decoder_free" ocall_decoder_abort 500 Hn Hx Ha Hsz Hps.
Qed.

(** [run] of [f]: the call from the "$" frame *)
Ltac run_enter f :=
  match goal with |- run P ?fuel f _ = _ =>
    destruct fuel as [|?k]; [lia|];
    rewrite (run_eq P _ f (ofn f)) by reflexivity;
    let ps := eval cbv in (f_params (ofn f)) in change (f_params (ofn f)) with ps;
    cbn [map fst snd combine append]
  end.

Ltac rd_var := apply eval_read_var_ge; [lia|reflexivity].

Theorem oir_encoder_abort : forall fuel b sz ps e, (20 <= fuel)%nat ->
  in_s64 sz = true -> in_s64 ps = true -> -9223372036854775807 <= e <= 9223372036854775807 ->
  run P fuel "encoder_abort" [cursor_val b sz ps; VInt e] =
  ROk (None, [cur_val (abort (mkCur b sz ps) e); VInt e]).
Proof.
  intros fuel b sz ps e Hf Hsz Hps He. run_enter "encoder_abort".
  assert (E : s64 e = e) by (unfold s64; lia).
  erewrite ocall_encoder_abort; [|lia|reflexivity|rd_var|auto|auto|lia].
  rewrite E. reflexivity.
Qed.

Theorem oir_decoder_abort : forall fuel b sz ps e, (20 <= fuel)%nat ->
  in_s64 sz = true -> in_s64 ps = true -> -9223372036854775807 <= e <= 9223372036854775807 ->
  run P fuel "decoder_abort" [cursor_val b sz ps; VInt e] =
  ROk (None, [cur_val (abort (mkCur b sz ps) e); VInt e]).
Proof.
  intros fuel b sz ps e Hf Hsz Hps He. run_enter "decoder_abort".
  assert (E : s64 e = e) by (unfold s64; lia).
  erewrite ocall_decoder_abort; [|lia|reflexivity|rd_var|auto|auto|lia].
  rewrite E. reflexivity.
Qed.

Theorem oir_encoder_alloc : forall fuel b sz ps n, (30 <= fuel)%nat ->
  in_s64 sz = true -> in_s64 ps = true ->
  run P fuel "encoder_alloc" [cursor_val b sz ps; VInt n] =
  match oencoder_alloc (mkCur b sz ps) n with
  | COk (s', p) => ROk (Some p, [cur_val s'; VInt n])
  | COob => RFail FOob | CUb => RFail FUb end.
Proof.
  intros fuel b sz ps n Hf Hsz Hps. run_enter "encoder_alloc".
  erewrite ocall_encoder_alloc; [|lia|reflexivity|rd_var|auto|auto].
  destruct (oencoder_alloc _ _) as [[s' p]| |]; reflexivity.
Qed.

Theorem oir_decoder_free : forall fuel b sz ps n, (30 <= fuel)%nat ->
  in_s64 sz = true -> in_s64 ps = true ->
  run P fuel "decoder_free" [cursor_val b sz ps; VInt n] =
  match odecoder_free (mkCur b sz ps) n with
  | COk (s', p) => ROk (Some p, [cur_val s'; VInt n])
  | COob => RFail FOob | CUb => RFail FUb end.
Proof.
  intros fuel b sz ps n Hf Hsz Hps. run_enter "decoder_free".
  erewrite ocall_decoder_free; [|lia|reflexivity|rd_var|auto|auto].
  destruct (odecoder_free _ _) as [[s' p]| |]; reflexivity.
Qed.

(* ------------------------------------------------------------------ *)
(** ** init, get_result *)

Ltac enter_srv f p1 p2 p3 t K Hn Hx Hy Ha :=
  match goal with |- call P (S ?n) ?e f [ARef (PVar ?x); ARef (PVar ?y); AVal ?t' ?a] = _ =>
    rewrite (call_srv P f (ofn f) p1 p2 p3 t n e x y a _ t' _ _ eq_refl eq_refl Hx Hy Ha) by lia;
    let m := fresh "m" in destruct (fuel_split K n Hn) as (m & ->);
    rewrite exec_list_sem; unfold ofn
  end.

(** any cursor object, initialised or not ([cursor_val], [cursor_undef]) *)
Definition rec3 (v1 v2 v3 : val) : val := VRec [("buf_p", v1); ("size", v2); ("pos", v3)].

Ltac init_tac' f Hn Hx Hy Ha :=
  enter_srv f "self_p" "buf_p" "size" U64 10%nat Hn Hx Hy Ha;
  unfold oinit, cur_val, rec3; cbn [buf size pos]; go; rewrite s64_s64; reflexivity.

Lemma ocall_encoder_init n e x y a z t' v1 v2 v3 b :
  (10 <= n)%nat -> lookup x e = Some (rec3 v1 v2 v3) -> lookup y e = Some (bytes_val b) ->
  eval P n e a = ROk (e, z) ->
  call P (S n) e "encoder_init" [ARef (PVar x); ARef (PVar y); AVal t' a] =
  let^ e1 := env_set e x [] (cur_val (oinit b z)) in
  let^ e2 := env_set e1 y [] (bytes_val b) in ROk (e2, None).
Proof. intros Hn Hx Hy Ha. init_tac' "encoder_init" Hn Hx Hy Ha. Qed.

Lemma ocall_decoder_init n e x y a z t' v1 v2 v3 b :
  (10 <= n)%nat -> lookup x e = Some (rec3 v1 v2 v3) -> lookup y e = Some (bytes_val b) ->
  eval P n e a = ROk (e, z) ->
  call P (S n) e "decoder_init" [ARef (PVar x); ARef (PVar y); AVal t' a] =
  let^ e1 := env_set e x [] (cur_val (oinit b z)) in
  let^ e2 := env_set e1 y [] (bytes_val b) in ROk (e2, None).
Proof. intros Hn Hx Hy Ha. init_tac' "decoder_init" Hn Hx Hy Ha. Qed.

Theorem oir_encoder_init : forall fuel v1 v2 v3 b n, (20 <= fuel)%nat ->
  run P fuel "encoder_init" [rec3 v1 v2 v3; bytes_val b; VInt n] =
  ROk (None, [cur_val (oinit b n); bytes_val b; VInt n]).
Proof.
  intros fuel v1 v2 v3 b n Hf. run_enter "encoder_init".
  erewrite ocall_encoder_init; [|lia|reflexivity|reflexivity|rd_var]. reflexivity.
Qed.

Theorem oir_decoder_init : forall fuel v1 v2 v3 b n, (20 <= fuel)%nat ->
  run P fuel "decoder_init" [rec3 v1 v2 v3; bytes_val b; VInt n] =
  ROk (None, [cur_val (oinit b n); bytes_val b; VInt n]).
Proof.
  intros fuel v1 v2 v3 b n Hf. run_enter "decoder_init".
  erewrite ocall_decoder_init; [|lia|reflexivity|reflexivity|rd_var]. reflexivity.
Qed.

Lemma ocall_encoder_get_result n e x b sz ps :
  (10 <= n)%nat -> lookup x e = Some (cursor_val b sz ps) -> in_s64 ps = true ->
  call P (S n) e "encoder_get_result" [ARef (PVar x)] =
  let^ e1 := env_set e x [] (cursor_val b sz ps) in ROk (e1, Some (oget_result (mkCur b sz ps))).
Proof.
  intros Hn Hx Hps. enter_s "encoder_get_result" "self_p" 10%nat Hn Hx. unfold oget_result. cbn [pos]. go.
Qed.

Lemma ocall_decoder_get_result n e x b sz ps :
  (10 <= n)%nat -> lookup x e = Some (cursor_val b sz ps) -> in_s64 ps = true ->
  call P (S n) e "decoder_get_result" [ARef (PVar x)] =
  let^ e1 := env_set e x [] (cursor_val b sz ps) in ROk (e1, Some (oget_result (mkCur b sz ps))).
Proof.
  intros Hn Hx Hps. enter_s "decoder_get_result" "self_p" 10%nat Hn Hx. unfold oget_result. cbn [pos]. go.
Qed.

Theorem oir_encoder_get_result : forall fuel b sz ps, (20 <= fuel)%nat -> in_s64 ps = true ->
  run P fuel "encoder_get_result" [cursor_val b sz ps] =
  ROk (Some (oget_result (mkCur b sz ps)), [cursor_val b sz ps]).
Proof.
  intros fuel b sz ps Hf Hps. run_enter "encoder_get_result".
  erewrite ocall_encoder_get_result; [|lia|reflexivity|auto]. reflexivity.
Qed.

Theorem oir_decoder_get_result : forall fuel b sz ps, (20 <= fuel)%nat -> in_s64 ps = true ->
  run P fuel "decoder_get_result" [cursor_val b sz ps] =
  ROk (Some (oget_result (mkCur b sz ps)), [cursor_val b sz ps]).
Proof.
  intros fuel b sz ps Hf Hps. run_enter "decoder_get_result".
  erewrite ocall_decoder_get_result; [|lia|reflexivity|auto]. reflexivity.
Qed.

(* ------------------------------------------------------------------ *)
(** ** encoder_append_bytes *)

Definition ab_p (s : cur) (z : Z) : Z := match oencoder_alloc s z with COk (_, p) => p | _ => 0 end.

Lemma u64_nonneg z : (u64 z <? 0) = false.
Proof. unfold u64. lia. Qed.

Lemma alloc_u64 err s z : alloc_gen err s (u64 z) = alloc_gen err s z.
Proof. unfold alloc_gen. now rewrite u64_u64. Qed.

Definition ab_env (c : val) (src : list Z) (N : Z) (vp : val) : env :=
  [("self_p", c); ("buf_p", bytes_val src); ("size", VInt N); ("pos", vp)].

Lemma body_append_bytes n b sz ps src z : (29 <= n)%nat -> in_s64 sz = true -> in_s64 ps = true ->
  exec_list P n (ab_env (cursor_val b sz ps) src (u64 z) VUndef) (f_body (ofn "encoder_append_bytes")) =
  match oappend_bytes (mkCur b sz ps) src z with
  | COk s' =>
      ROk (ab_env (cur_val s') src (u64 z) (VInt (ab_p (mkCur b sz ps) z)),
           if ab_p (mkCur b sz ps) z <? 0 then FReturn None else FNormal)
  | COob => RFail FOob
  | CUb => RFail FUb
  end.
Proof.
  intros Hn Hsz Hps. destruct (fuel_split 29 n Hn) as (m & ->).
  rewrite exec_list_sem. unfold ofn, ab_env. sx.
  erewrite ocall_encoder_alloc; [|lia|reflexivity|reflexivity|auto|auto].
  unfold oappend_bytes, ab_p, oencoder_alloc. rewrite alloc_u64.
  destruct (alloc_gen ENOMEM {| buf := b; size := sz; pos := ps |} z) as [[s1 p]| |] eqn:EA;
    cbn [cbind]; [|reflexivity|reflexivity].
  destruct (alloc_gen_facts ENOMEM _ _ _ _ eq_refl eq_refl EA Hsz Hps) as (F1 & F2 & F3 & F4).
  unfold cur_val. sx. norm3. s64_fix.
  destruct (p <? 0) eqn:Pn.
  - sx. now destruct s1.
  - sx. rewrite u64_nonneg, Pn. sx.
    unfold bytes_val.
    rewrite copy_elems_memcpy0 by (unfold u64; lia).
    destruct (memcpy (buf s1) p src 0 (u64 z)) as [b'| |]; cbn [cbind rbind]; reflexivity.
Qed.

Ltac ret_tac := unfold ret_of; cbn [f_ret]; repeat match goal with |- context [if ?c then _ else _] => destruct c end.

Lemma ocall_encoder_append_bytes n e x y a z t' b sz ps src :
  (30 <= n)%nat -> lookup x e = Some (cursor_val b sz ps) -> lookup y e = Some (bytes_val src) ->
  eval P n e a = ROk (e, z) -> in_s64 sz = true -> in_s64 ps = true ->
  call P (S n) e "encoder_append_bytes" [ARef (PVar x); ARef (PVar y); AVal t' a] =
  match oappend_bytes (mkCur b sz ps) src z with
  | COk s' => let^ e1 := env_set e x [] (cur_val s') in
              let^ e2 := env_set e1 y [] (bytes_val src) in ROk (e2, None)
  | COob => RFail FOob | CUb => RFail FUb end.
Proof.
  intros Hn Hx Hy Ha Hsz Hps.
  rewrite (call_srv P "encoder_append_bytes" (ofn "encoder_append_bytes") "self_p" "buf_p" "size" U64
             n e x y a z t' _ _ eq_refl eq_refl Hx Hy Ha) by lia.
  change (conv U64 z) with (u64 z).
  change ([("self_p", cursor_val b sz ps); ("buf_p", bytes_val src); ("size", VInt (u64 z))] ++
          f_locals (ofn "encoder_append_bytes")) with (ab_env (cursor_val b sz ps) src (u64 z) VUndef).
  rewrite body_append_bytes by (auto; lia).
  destruct (oappend_bytes _ src z) as [s'| |]; cbn [rbind]; [|reflexivity|reflexivity].
  unfold ab_env. cbn [lookup String.eqb Ascii.eqb Bool.eqb].
  destruct (env_set e x [] (cur_val s')) as [e1|]; cbn [rbind]; [|reflexivity].
  destruct (env_set e1 y [] (bytes_val src)) as [e2|]; cbn [rbind]; [|reflexivity].
  destruct (ab_p _ z <? 0); reflexivity.
Qed.

(** [&value]: a one-byte object *)
Lemma ocall_encoder_append_bytes_scalar n e x y a z t' b sz ps v :
  (30 <= n)%nat -> lookup x e = Some (cursor_val b sz ps) -> lookup y e = Some (VInt v) ->
  eval P n e a = ROk (e, z) -> in_s64 sz = true -> in_s64 ps = true ->
  call P (S n) e "encoder_append_bytes" [ARef (PVar x); ARefScalar (PVar y); AVal t' a] =
  match oappend_bytes (mkCur b sz ps) [v] z with
  | COk s' => let^ e1 := env_set e x [] (cur_val s') in
              let^ e2 := env_set e1 y [] (VInt v) in ROk (e2, None)
  | COob => RFail FOob | CUb => RFail FUb end.
Proof.
  intros Hn Hx Hy Ha Hsz Hps.
  rewrite (call_ssv P "encoder_append_bytes" (ofn "encoder_append_bytes") "self_p" "buf_p" "size" U64
             n e x y a z t' _ _ eq_refl eq_refl Hx Hy Ha) by lia.
  change (conv U64 z) with (u64 z).
  change ([("self_p", cursor_val b sz ps); ("buf_p", VArr [VInt v]); ("size", VInt (u64 z))] ++
          f_locals (ofn "encoder_append_bytes")) with (ab_env (cursor_val b sz ps) [v] (u64 z) VUndef).
  rewrite body_append_bytes by (auto; lia).
  destruct (oappend_bytes _ [v] z) as [s'| |]; cbn [rbind]; [|reflexivity|reflexivity].
  unfold ab_env. cbn [lookup String.eqb Ascii.eqb Bool.eqb].
  destruct (env_set e x [] (cur_val s')) as [e1|]; cbn [rbind]; [|reflexivity].
  cbn. destruct (env_set e1 y [] (VInt v)) as [e2|]; cbn [rbind]; [|reflexivity].
  destruct (ab_p _ z <? 0); reflexivity.
Qed.

Theorem oir_encoder_append_bytes : forall fuel b sz ps src n, (40 <= fuel)%nat ->
  in_s64 sz = true -> in_s64 ps = true ->
  run P fuel "encoder_append_bytes" [cursor_val b sz ps; bytes_val src; VInt n] =
  match oappend_bytes (mkCur b sz ps) src n with
  | COk s' => ROk (None, [cur_val s'; bytes_val src; VInt n])
  | COob => RFail FOob | CUb => RFail FUb end.
Proof.
  intros fuel b sz ps src n Hf Hsz Hps. run_enter "encoder_append_bytes".
  erewrite ocall_encoder_append_bytes; [|lia|reflexivity|reflexivity|rd_var|auto|auto].
  destruct (oappend_bytes _ src n) as [s'| |]; reflexivity.
Qed.

(* ------------------------------------------------------------------ *)
(** ** decoder_read_bytes: memcpy, or memset through the hidden loop variable *)

Definition ms_c : expr := EBin OLt U64 (ERead (PVar "$memset_i")) (ERead (PVar "size")).
Definition ms_step : list stmt :=
  [SAssign (PVar "$memset_i") U64 (EBin OAdd U64 (ERead (PVar "$memset_i")) (EConst 1))].
Definition ms_body : list stmt := [SAssign (PIndex (PVar "buf_p") (ERead (PVar "$memset_i"))) U8 (EConst 0)].
Definition ms_env (c vb : val) (N : Z) (vp vi : val) : env :=
  [("self_p", c); ("buf_p", vb); ("size", VInt N); ("pos", vp); ("$memset_i", vi)].

Lemma ms_frag_c M c vb N vp i : (10 <= M)%nat ->
  eval P M (ms_env c vb N vp (VInt i)) ms_c = ROk (ms_env c vb N vp (VInt i), truth (i <? N)).
Proof.
  intros HM. rewrite eval_sem. destruct (fuel_split 10 M HM) as (m & ->). unfold ms_env, ms_c. sx. reflexivity.
Qed.

Lemma ms_frag_step M c vb N vp i : (10 <= M)%nat ->
  exec_list P M (ms_env c vb N vp (VInt i)) ms_step = ROk (ms_env c vb N vp (VInt (u64 (i + 1))), FNormal).
Proof.
  intros HM. rewrite exec_list_sem. destruct (fuel_split 10 M HM) as (m & ->). unfold ms_env, ms_step. sx. norm3.
  rewrite u64_u64. reflexivity.
Qed.

Lemma ms_frag_body M c d N vp i : (10 <= M)%nat ->
  exec_list P M (ms_env c (bytes_val d) N vp (VInt i)) ms_body =
  match wr d i 0 with
  | COk d' => ROk (ms_env c (bytes_val d') N vp (VInt i), FNormal)
  | COob => RFail FOob | CUb => RFail FUb end.
Proof.
  intros HM. rewrite exec_list_sem. destruct (fuel_split 10 M HM) as (m & ->). unfold ms_env, ms_body. sx. norm3.
  rewrite vset_bytes_cbn. destruct (wr d i 0); reflexivity.
Qed.

Lemma memset_floop M k c N vp : (10 <= M)%nat -> 0 <= N < 18446744073709551616 ->
  forall j d i, 0 <= i -> i + Z.of_nat j = N -> (j < k)%nat ->
  floop (eval P M) (exec_list P M) ms_c ms_step ms_body k (ms_env c (bytes_val d) N vp (VInt i)) =
  match memset_loop j d i with
  | COk d' => ROk (ms_env c (bytes_val d') N vp (VInt N), FNormal)
  | COob => RFail FOob | CUb => RFail FUb end.
Proof.
  intros HM HN.
  intros j. revert k. induction j as [|j IH]; intros k d i Hi Hj Hk; (destruct k as [|k]; [lia|]).
  - cbn [floop memset_loop]. rewrite ms_frag_c by auto. cbn [rbind].
    replace i with N by lia. rewrite Z.ltb_irrefl. reflexivity.
  - cbn [floop memset_loop]. rewrite ms_frag_c by auto. cbn [rbind].
    destruct (i <? N) eqn:E; [|lia]. cbn [truth Z.eqb].
    rewrite ms_frag_body by auto.
    destruct (wr d i 0) as [d'| |]; cbn [rbind cbind]; try reflexivity.
    rewrite ms_frag_step by auto. cbn [rbind].
    rewrite u64_id by lia. apply IH; lia.
Qed.

Definition rb_p (s : cur) (z : Z) : Z := match odecoder_free s z with COk (_, p) => p | _ => 0 end.

Definition rb_s1 : stmt :=
  SAssign (PVar "pos") I64 (ECall "decoder_free" [ARef (PVar "self_p"); AVal U64 (ERead (PVar "size"))]).
Definition rb_cond : expr := EBin OGe I64 (ERead (PVar "pos")) (EConst 0).
Definition rb_A : list stmt :=
  [SMemcpy (PVar "buf_p") (EConst 0) (PField (PVar "self_p") "buf_p") (ERead (PVar "pos")) (ERead (PVar "size"))].
Definition rb_B : list stmt :=
  [SFor [SAssign (PVar "$memset_i") U64 (EConst 0)] ms_c ms_step ms_body].

Lemma rb_body_eq : f_body (ofn "decoder_read_bytes") = [rb_s1; SIf rb_cond rb_A rb_B].
Proof. reflexivity. Qed.

Lemma rb_frag_s1 M b sz ps vb z : (25 <= M)%nat -> in_s64 sz = true -> in_s64 ps = true ->
  exec P M (ms_env (cursor_val b sz ps) vb (u64 z) VUndef VUndef) rb_s1 =
  match odecoder_free (mkCur b sz ps) z with
  | COk (s1, p) => ROk (ms_env (cur_val s1) vb (u64 z) (VInt p) VUndef, FNormal)
  | COob => RFail FOob | CUb => RFail FUb end.
Proof.
  intros HM Hsz Hps. rewrite exec_sem. destruct (fuel_split 25 M HM) as (m & ->).
  unfold ms_env, rb_s1. sx.
  erewrite ocall_decoder_free; [|lia|reflexivity|reflexivity|auto|auto].
  unfold odecoder_free. rewrite alloc_u64.
  destruct (alloc_gen EOUTOFDATA _ z) as [[s1 p]| |] eqn:EA; [|reflexivity|reflexivity].
  destruct (alloc_gen_facts EOUTOFDATA _ _ _ _ eq_refl eq_refl EA Hsz Hps) as (F1 & F2 & F3 & F4).
  sx. norm3. s64_fix. reflexivity.
Qed.

Lemma rb_frag_cond M c vb N p : (10 <= M)%nat ->
  eval P M (ms_env c vb N (VInt p) VUndef) rb_cond = ROk (ms_env c vb N (VInt p) VUndef, truth (0 <=? p)).
Proof.
  intros HM. rewrite eval_sem. destruct (fuel_split 10 M HM) as (m & ->). unfold ms_env, rb_cond. sx. reflexivity.
Qed.

Lemma rb_frag_A M b sz ps dst N p : (10 <= M)%nat -> 0 <= p -> 0 <= N ->
  exec_list P M (ms_env (cursor_val b sz ps) (bytes_val dst) N (VInt p) VUndef) rb_A =
  match memcpy dst 0 b p N with
  | COk d => ROk (ms_env (cursor_val b sz ps) (bytes_val d) N (VInt p) VUndef, FNormal)
  | COob => RFail FOob | CUb => RFail FUb end.
Proof.
  intros HM Hp HN. rewrite exec_list_sem. destruct (fuel_split 10 M HM) as (m & ->).
  unfold ms_env, rb_A. sx.
  destruct (N <? 0) eqn:E1; [lia|]. destruct (p <? 0) eqn:E2; [lia|]. sx.
  unfold bytes_val. change (Z.to_nat 0) with 0%nat.
  rewrite copy_elems_memcpy2 by lia.
  destruct (memcpy dst 0 b p N); reflexivity.
Qed.

Lemma rb_frag_init M c vb N vp : (10 <= M)%nat ->
  exec_list P M (ms_env c vb N vp VUndef) [SAssign (PVar "$memset_i") U64 (EConst 0)] =
  ROk (ms_env c vb N vp (VInt 0), FNormal).
Proof.
  intros HM. rewrite exec_list_sem. destruct (fuel_split 10 M HM) as (m & ->). unfold ms_env. sx. reflexivity.
Qed.

Lemma rb_frag_B M c dst N vp : (14 + Z.to_nat N <= M)%nat -> 0 <= N < 18446744073709551616 ->
  exec_list P M (ms_env c (bytes_val dst) N vp VUndef) rb_B =
  match memset_loop (Z.to_nat N) dst 0 with
  | COk d => ROk (ms_env c (bytes_val d) N vp (VInt N), FNormal)
  | COob => RFail FOob | CUb => RFail FUb end.
Proof.
  intros HM HN. destruct M as [|[|M]]; try lia.
  unfold rb_B. rewrite exec_list_cons. rewrite exec_S. cbn [execF].
  rewrite rb_frag_init by lia. cbn [rbind].
  rewrite (memset_floop M M c N vp ltac:(lia) HN (Z.to_nat N) dst 0) by lia.
  destruct (memset_loop (Z.to_nat N) dst 0); cbn [rbind]; reflexivity.
Qed.

Lemma body_read_bytes n b sz ps dst z : (30 + Z.to_nat (u64 z) <= n)%nat ->
  in_s64 sz = true -> in_s64 ps = true ->
  exec_list P n (ms_env (cursor_val b sz ps) (bytes_val dst) (u64 z) VUndef VUndef)
            (f_body (ofn "decoder_read_bytes")) =
  match oread_bytes (mkCur b sz ps) dst z with
  | COk (s', d) => ROk (ms_env (cur_val s') (bytes_val d) (u64 z) (VInt (rb_p (mkCur b sz ps) z))
                         (if rb_p (mkCur b sz ps) z >=? 0 then VUndef else VInt (u64 z)), FNormal)
  | COob => RFail FOob | CUb => RFail FUb end.
Proof.
  intros Hn Hsz Hps. rewrite rb_body_eq.
  assert (HU : 0 <= u64 z < 18446744073709551616) by (unfold u64; lia).
  destruct n as [|[|[|n]]]; try lia.
  rewrite exec_list_cons. rewrite rb_frag_s1 by (auto; lia).
  unfold oread_bytes, rb_p.
  destruct (odecoder_free _ z) as [[s1 p]| |] eqn:EA; cbn [rbind cbind]; try reflexivity.
  destruct (alloc_gen_facts EOUTOFDATA _ _ _ _ eq_refl eq_refl EA Hsz Hps) as (F1 & F2 & F3 & F4).
  rewrite exec_list_cons, exec_SIf. rewrite rb_frag_cond by lia. cbn [rbind]. rewrite truth_test, Z.geb_leb.
  destruct (0 <=? p) eqn:Pp.
  - unfold cur_val. rewrite rb_frag_A by lia.
    destruct (memcpy dst 0 (buf s1) p (u64 z)); cbn [rbind cbind]; reflexivity.
  - rewrite rb_frag_B by lia.
    destruct (memset_loop (Z.to_nat (u64 z)) dst 0); cbn [rbind cbind]; reflexivity.
Qed.

Lemma ocall_decoder_read_bytes n e x y a z t' b sz ps dst :
  (31 + Z.to_nat (u64 z) <= n)%nat -> lookup x e = Some (cursor_val b sz ps) ->
  lookup y e = Some (bytes_val dst) ->
  eval P n e a = ROk (e, z) -> in_s64 sz = true -> in_s64 ps = true ->
  call P (S n) e "decoder_read_bytes" [ARef (PVar x); ARef (PVar y); AVal t' a] =
  match oread_bytes (mkCur b sz ps) dst z with
  | COk (s', d) => let^ e1 := env_set e x [] (cur_val s') in
                   let^ e2 := env_set e1 y [] (bytes_val d) in ROk (e2, None)
  | COob => RFail FOob | CUb => RFail FUb end.
Proof.
  intros Hn Hx Hy Ha Hsz Hps.
  rewrite (call_srv P "decoder_read_bytes" (ofn "decoder_read_bytes") "self_p" "buf_p" "size" U64
             n e x y a z t' _ _ eq_refl eq_refl Hx Hy Ha) by lia.
  change (conv U64 z) with (u64 z).
  change ([("self_p", cursor_val b sz ps); ("buf_p", bytes_val dst); ("size", VInt (u64 z))] ++
          f_locals (ofn "decoder_read_bytes"))
    with (ms_env (cursor_val b sz ps) (bytes_val dst) (u64 z) VUndef VUndef).
  rewrite body_read_bytes by (auto; lia).
  destruct (oread_bytes _ dst z) as [[s' d]| |]; cbn [rbind]; [|reflexivity|reflexivity].
  unfold ms_env. cbn [lookup String.eqb Ascii.eqb Bool.eqb].
  destruct (env_set e x [] (cur_val s')) as [e1|]; cbn [rbind]; [|reflexivity].
  destruct (env_set e1 y [] (bytes_val d)) as [e2|]; cbn [rbind]; reflexivity.
Qed.

Theorem oir_decoder_read_bytes : forall fuel b sz ps dst n, (40 + Z.to_nat (u64 n) <= fuel)%nat ->
  in_s64 sz = true -> in_s64 ps = true ->
  run P fuel "decoder_read_bytes" [cursor_val b sz ps; bytes_val dst; VInt n] =
  match oread_bytes (mkCur b sz ps) dst n with
  | COk (s', d) => ROk (None, [cur_val s'; bytes_val d; VInt n])
  | COob => RFail FOob | CUb => RFail FUb end.
Proof.
  intros fuel b sz ps dst n Hf Hsz Hps. run_enter "decoder_read_bytes".
  erewrite (ocall_decoder_read_bytes _ _ _ _ _ n); [|lia|reflexivity|reflexivity|rd_var|auto|auto].
  destruct (oread_bytes _ dst n) as [[s' d]| |]; reflexivity.
Qed.

(* ------------------------------------------------------------------ *)
(** ** encoder_append_uint8 .. uint64, int8 .. int64, float, double, bool *)

Ltac sx2 := cbn -[Z.add Z.sub Z.mul Z.leb Z.ltb Z.geb Z.opp Z.eqb conv in_range Z.modulo Z.pow
                 truth u64 s64 u8 u16 u32 s8 s16 s32 in_s64 in_s32 Z.quot Z.rem Z.div
                 Z.shiftl Z.shiftr Z.land Z.lor rd wr call floop copy_elems
                 abort alloc_gen memcpy memset_loop
                 oappend_bytes oappend_uint8 oappend_uint16 oappend_uint32 oappend_uint64
                 oappend_int8 oappend_int16 oappend_int32 oappend_int64
                 oread_bytes oread_uint8 oread_uint16 oread_uint32 oread_uint64
                 oread_int8 oread_int16 oread_int32 oread_int64 oread_tag_loop oread_long_uint_loop].
Ltac sxn := repeat (progress (sx2; norm3; fold_nats)).

Ltac fold_bytes :=
  rewrite ?u8_u8;
  match goal with
  | |- context [VArr [VInt ?a; VInt ?b; VInt ?c; VInt ?d; VInt ?e; VInt ?f; VInt ?g; VInt ?h]] =>
    change (VArr [VInt a; VInt b; VInt c; VInt d; VInt e; VInt f; VInt g; VInt h])
      with (bytes_val [a; b; c; d; e; f; g; h])
  | |- context [VArr [VInt ?a; VInt ?b; VInt ?c; VInt ?d]] =>
    change (VArr [VInt a; VInt b; VInt c; VInt d]) with (bytes_val [a; b; c; d])
  | |- context [VArr [VInt ?a; VInt ?b]] =>
    change (VArr [VInt a; VInt b]) with (bytes_val [a; b])
  end.

(** the shape of every encoder call lemma below *)
Definition enc_call (f : string) (model : cur -> Z -> cres cur) (K : nat) : Prop :=
  forall n e x a z t' b sz ps,
  (K <= n)%nat -> lookup x e = Some (cursor_val b sz ps) -> eval P n e a = ROk (e, z) ->
  in_s64 sz = true -> in_s64 ps = true ->
  call P (S n) e f [ARef (PVar x); AVal t' a] =
  match model (mkCur b sz ps) z with
  | COk s' => let^ e1 := env_set e x [] (cur_val s') in ROk (e1, None)
  | COob => RFail FOob | CUb => RFail FUb end.

Ltac split_res :=
  match goal with |- context [match ?r with COk _ => _ | COob => _ | CUb => _ end] => destruct r end.

Lemma ocall_encoder_append_uint8 : enc_call "encoder_append_uint8" oappend_uint8 45.
Proof.
  intros n e x a z t' b sz ps Hn Hx Ha Hsz Hps.
  enter_sv "encoder_append_uint8" "self_p" "value" U8 45%nat Hn Hx Ha.
  sxn.
  erewrite ocall_encoder_append_bytes_scalar; [|lia|reflexivity|reflexivity|reflexivity|auto|auto].
  unfold oappend_uint8. split_res; sxn; reflexivity.
Qed.

Ltac app_uint_tac f t Hn Hx Ha Hsz Hps :=
  enter_sv f "self_p" "value" t 45%nat Hn Hx Ha;
  sxn; fold_bytes;
  erewrite ocall_encoder_append_bytes; [|lia|reflexivity|reflexivity|reflexivity|exact Hsz|exact Hps];
  unfold oappend_uint16, oappend_uint32, oappend_uint64; cbv zeta;
  split_res; sxn; reflexivity.

Lemma ocall_encoder_append_uint16 : enc_call "encoder_append_uint16" oappend_uint16 45.
Proof. intros n e x a z t' b sz ps Hn Hx Ha Hsz Hps. app_uint_tac "encoder_append_uint16" U16 Hn Hx Ha Hsz Hps. Qed.
Lemma ocall_encoder_append_uint32 : enc_call "encoder_append_uint32" oappend_uint32 45.
Proof. intros n e x a z t' b sz ps Hn Hx Ha Hsz Hps. app_uint_tac "encoder_append_uint32" U32 Hn Hx Ha Hsz Hps. Qed.
Lemma ocall_encoder_append_uint64 : enc_call "encoder_append_uint64" oappend_uint64 45.
Proof. intros n e x a z t' b sz ps Hn Hx Ha Hsz Hps. app_uint_tac "encoder_append_uint64" U64 Hn Hx Ha Hsz Hps. Qed.

(** a helper that only converts its argument and calls another one *)
Ltac deleg_tac f t K callee Hn Hx Ha Hsz Hps :=
  enter_sv f "self_p" "value" t K Hn Hx Ha;
  sxn;
  erewrite callee; [|lia|reflexivity|reflexivity|exact Hsz|exact Hps];
  norm3;
  unfold oappend_int8, oappend_int16, oappend_int32, oappend_int64, oappend_float, oappend_double;
  split_res; sxn; reflexivity.

Lemma ocall_encoder_append_int8 : enc_call "encoder_append_int8" oappend_int8 55.
Proof.
  intros n e x a z t' b sz ps Hn Hx Ha Hsz Hps.
  deleg_tac "encoder_append_int8" I8 55%nat ocall_encoder_append_uint8 Hn Hx Ha Hsz Hps.
Qed.
Lemma ocall_encoder_append_int16 : enc_call "encoder_append_int16" oappend_int16 55.
Proof.
  intros n e x a z t' b sz ps Hn Hx Ha Hsz Hps.
  deleg_tac "encoder_append_int16" I16 55%nat ocall_encoder_append_uint16 Hn Hx Ha Hsz Hps.
Qed.
Lemma ocall_encoder_append_int32 : enc_call "encoder_append_int32" oappend_int32 55.
Proof.
  intros n e x a z t' b sz ps Hn Hx Ha Hsz Hps.
  deleg_tac "encoder_append_int32" I32 55%nat ocall_encoder_append_uint32 Hn Hx Ha Hsz Hps.
Qed.
Lemma ocall_encoder_append_int64 : enc_call "encoder_append_int64" oappend_int64 55.
Proof.
  intros n e x a z t' b sz ps Hn Hx Ha Hsz Hps.
  deleg_tac "encoder_append_int64" I64 55%nat ocall_encoder_append_uint64 Hn Hx Ha Hsz Hps.
Qed.
Lemma ocall_encoder_append_float : enc_call "encoder_append_float" oappend_float 55.
Proof.
  intros n e x a z t' b sz ps Hn Hx Ha Hsz Hps.
  deleg_tac "encoder_append_float" U32 55%nat ocall_encoder_append_uint32 Hn Hx Ha Hsz Hps.
Qed.
Lemma ocall_encoder_append_double : enc_call "encoder_append_double" oappend_double 55.
Proof.
  intros n e x a z t' b sz ps Hn Hx Ha Hsz Hps.
  deleg_tac "encoder_append_double" U64 55%nat ocall_encoder_append_uint64 Hn Hx Ha Hsz Hps.
Qed.

Lemma ocall_encoder_append_bool :
  enc_call "encoder_append_bool" (fun s z => oappend_bool s (negb (z =? 0))) 55.
Proof.
  intros n e x a z t' b sz ps Hn Hx Ha Hsz Hps.
  enter_sv "encoder_append_bool" "self_p" "value" IBool 55%nat Hn Hx Ha.
  unfold oappend_bool, conv.
  destruct (z =? 0); cbn [negb]; sxn;
    (erewrite ocall_encoder_append_uint8; [|lia|reflexivity|reflexivity|exact Hsz|exact Hps]);
    split_res; sxn; reflexivity.
Qed.

(** from a call lemma to the theorem about [run] *)
Ltac run_enc f L :=
  let fuel := fresh "fuel" in let b := fresh "b" in let sz := fresh "sz" in let ps := fresh "ps" in
  let v := fresh "v" in let Hf := fresh "Hf" in let Hsz := fresh "Hsz" in let Hps := fresh "Hps" in
  intros fuel b sz ps v Hf Hsz Hps; run_enter f;
  erewrite L; [|lia|reflexivity|rd_var|exact Hsz|exact Hps];
  split_res; reflexivity.

Definition enc_run (f : string) (model : cur -> Z -> cres cur) (K : nat) : Prop :=
  forall fuel b sz ps v, (K <= fuel)%nat -> in_s64 sz = true -> in_s64 ps = true ->
  run P fuel f [cursor_val b sz ps; VInt v] =
  match model (mkCur b sz ps) v with
  | COk s' => ROk (None, [cur_val s'; VInt v])
  | COob => RFail FOob | CUb => RFail FUb end.

Theorem oir_encoder_append_uint8 : enc_run "encoder_append_uint8" oappend_uint8 60.
Proof. run_enc "encoder_append_uint8" ocall_encoder_append_uint8. Qed.
Theorem oir_encoder_append_uint16 : enc_run "encoder_append_uint16" oappend_uint16 60.
Proof. run_enc "encoder_append_uint16" ocall_encoder_append_uint16. Qed.
Theorem oir_encoder_append_uint32 : enc_run "encoder_append_uint32" oappend_uint32 60.
Proof. run_enc "encoder_append_uint32" ocall_encoder_append_uint32. Qed.
Theorem oir_encoder_append_uint64 : enc_run "encoder_append_uint64" oappend_uint64 60.
Proof. run_enc "encoder_append_uint64" ocall_encoder_append_uint64. Qed.
Theorem oir_encoder_append_int8 : enc_run "encoder_append_int8" oappend_int8 60.
Proof. run_enc "encoder_append_int8" ocall_encoder_append_int8. Qed.
Theorem oir_encoder_append_int16 : enc_run "encoder_append_int16" oappend_int16 60.
Proof. run_enc "encoder_append_int16" ocall_encoder_append_int16. Qed.
Theorem oir_encoder_append_int32 : enc_run "encoder_append_int32" oappend_int32 60.
Proof. run_enc "encoder_append_int32" ocall_encoder_append_int32. Qed.
Theorem oir_encoder_append_int64 : enc_run "encoder_append_int64" oappend_int64 60.
Proof. run_enc "encoder_append_int64" ocall_encoder_append_int64. Qed.
Theorem oir_encoder_append_float : enc_run "encoder_append_float" oappend_float 60.
Proof. run_enc "encoder_append_float" ocall_encoder_append_float. Qed.
Theorem oir_encoder_append_double : enc_run "encoder_append_double" oappend_double 60.
Proof. run_enc "encoder_append_double" ocall_encoder_append_double. Qed.
Theorem oir_encoder_append_bool :
  enc_run "encoder_append_bool" (fun s z => oappend_bool s (negb (z =? 0))) 60.
Proof. run_enc "encoder_append_bool" ocall_encoder_append_bool. Qed.

(* ------------------------------------------------------------------ *)
(** ** decoder_read_uint8 .. uint64 *)

Lemma memset_loop_ok : forall k dst i d, bytes_ok dst -> memset_loop k dst i = COk d -> bytes_ok d.
Proof.
  induction k as [|k IH]; intros dst i d Bd H; cbn [memset_loop] in H.
  - inversion H; subst; auto.
  - unfold wr in H. destruct ((0 <=? i) && (i <? len dst)); cbn [cbind] in H; try discriminate.
    eapply IH; [|exact H]. apply upd_bytes_ok; auto. unfold is_byte; lia.
Qed.

Lemma memset_loop_length : forall k dst i d, memset_loop k dst i = COk d -> length d = length dst.
Proof.
  induction k as [|k IH]; intros dst i d H; cbn [memset_loop] in H.
  - inversion H; subst; auto.
  - unfold wr in H. destruct ((0 <=? i) && (i <? len dst)); cbn [cbind] in H; try discriminate.
    rewrite (IH _ _ _ H). apply upd_length.
Qed.

Lemma oread_bytes_facts s dst n s' d : oread_bytes s dst n = COk (s', d) ->
  in_s64 (size s) = true -> in_s64 (pos s) = true -> bytes_ok (buf s) -> bytes_ok dst ->
  in_s64 (size s') = true /\ in_s64 (pos s') = true /\ buf s' = buf s /\ bytes_ok d /\ length d = length dst.
Proof.
  unfold oread_bytes, odecoder_free. intros H Hs Hp Bb Bd.
  destruct (alloc_gen EOUTOFDATA s n) as [[s1 p]| |] eqn:EA; cbn [cbind] in H; try discriminate.
  destruct (alloc_gen_facts EOUTOFDATA _ _ _ _ eq_refl eq_refl EA Hs Hp) as (F1 & F2 & F3 & F4).
  destruct (p >=? 0).
  - destruct (memcpy dst 0 (buf s1) p (u64 n)) as [d0| |] eqn:M; cbn [cbind] in H; try discriminate.
    inversion H; subst. repeat split; auto.
    + unfold memcpy in M. rewrite F4 in M. exact (memcpy_loop_ok (buf s) Bb _ _ _ _ _ _ Bd M).
    + unfold memcpy in M. exact (memcpy_loop_length _ _ _ _ _ _ _ M).
  - destruct (memset_loop _ dst 0) as [d0| |] eqn:M; cbn [cbind] in H; try discriminate.
    inversion H; subst. repeat split; auto.
    + exact (memset_loop_ok _ _ _ _ Bd M).
    + exact (memset_loop_length _ _ _ _ M).
Qed.

(** the one-byte read into [&value] (any previous content) *)
Lemma rb1_frag_A M b sz ps w0 p : (10 <= M)%nat -> 0 <= p ->
  exec_list P M (ms_env (cursor_val b sz ps) (VArr [w0]) 1 (VInt p) VUndef) rb_A =
  match memcpy [0] 0 b p 1 with
  | COk d => ROk (ms_env (cursor_val b sz ps) (bytes_val d) 1 (VInt p) VUndef, FNormal)
  | COob => RFail FOob | CUb => RFail FUb end.
Proof.
  intros HM Hp. rewrite exec_list_sem. destruct (fuel_split 10 M HM) as (m & ->).
  unfold ms_env, rb_A. sxn.
  destruct (p <? 0) eqn:E2; [lia|]. sxn.
  unfold memcpy. change (Z.to_nat 1) with 1%nat. cbn [copy_elems memcpy_loop].
  rewrite Z.add_0_r. rewrite <- (Z2Nat.id p) at 2 by lia. rewrite rd_nat, nth_error_map.
  destruct (nth_error b (Z.to_nat p)); cbn [option_map cbind]; reflexivity.
Qed.

Lemma rb1_frag_B M c w0 vp : (16 <= M)%nat ->
  exec_list P M (ms_env c (VArr [w0]) 1 vp VUndef) rb_B =
  ROk (ms_env c (bytes_val [0]) 1 vp (VInt 1), FNormal).
Proof.
  intros HM. destruct M as [|[|[|[|M]]]]; try lia.
  unfold rb_B. rewrite exec_list_cons. rewrite exec_S. cbn [execF].
  rewrite rb_frag_init by lia. cbn [rbind floop].
  rewrite ms_frag_c by lia. cbn [rbind]. change (truth (0 <? 1) =? 0) with false. cbv iota.
  replace (exec_list P (S (S M)) (ms_env c (VArr [w0]) 1 vp (VInt 0)) ms_body)
    with (ROk (ms_env c (bytes_val [0]) 1 vp (VInt 0), FNormal) : res (env * flow)).
  2:{ rewrite exec_list_sem. destruct (fuel_split 10 M ltac:(lia)) as (m & ->). unfold ms_env, ms_body. sxn. reflexivity. }
  cbn [rbind]. rewrite ms_frag_step by lia. cbn [rbind]. change (u64 (0 + 1)) with 1.
  rewrite ms_frag_c by lia. cbn [rbind]. change (truth (1 <? 1) =? 0) with true. cbv iota. reflexivity.
Qed.

Lemma body_read_bytes_scalar n b sz ps w0 : (32 <= n)%nat ->
  in_s64 sz = true -> in_s64 ps = true ->
  exec_list P n (ms_env (cursor_val b sz ps) (VArr [w0]) 1 VUndef VUndef)
            (f_body (ofn "decoder_read_bytes")) =
  match oread_bytes (mkCur b sz ps) [0] 1 with
  | COk (s', d) => ROk (ms_env (cur_val s') (bytes_val d) 1 (VInt (rb_p (mkCur b sz ps) 1))
                         (if rb_p (mkCur b sz ps) 1 >=? 0 then VUndef else VInt 1), FNormal)
  | COob => RFail FOob | CUb => RFail FUb end.
Proof.
  intros Hn Hsz Hps. rewrite rb_body_eq.
  destruct n as [|[|[|n]]]; try lia.
  rewrite exec_list_cons. rewrite (rb_frag_s1 _ b sz ps (VArr [w0]) 1) by (auto; lia).
  unfold oread_bytes, rb_p.
  destruct (odecoder_free _ 1) as [[s1 p]| |] eqn:EA; cbn [rbind cbind]; try reflexivity.
  destruct (alloc_gen_facts EOUTOFDATA _ _ _ _ eq_refl eq_refl EA Hsz Hps) as (F1 & F2 & F3 & F4).
  rewrite exec_list_cons, exec_SIf. change (u64 1) with 1. rewrite rb_frag_cond by lia. cbn [rbind]. rewrite truth_test, Z.geb_leb.
  destruct (0 <=? p) eqn:Pp.
  - unfold cur_val. rewrite rb1_frag_A by lia.
    destruct (memcpy [0] 0 (buf s1) p 1); cbn [rbind cbind]; reflexivity.
  - rewrite rb1_frag_B by lia. reflexivity.
Qed.

Lemma ocall_decoder_read_bytes_scalar n e x y a t' b sz ps w0 :
  (33 <= n)%nat -> lookup x e = Some (cursor_val b sz ps) -> lookup y e = Some w0 ->
  eval P n e a = ROk (e, 1) -> in_s64 sz = true -> in_s64 ps = true ->
  call P (S n) e "decoder_read_bytes" [ARef (PVar x); ARefScalar (PVar y); AVal t' a] =
  match oread_bytes (mkCur b sz ps) [0] 1 with
  | COk (s', d) =>
    let^ e1 := env_set e x [] (cur_val s') in
    match rd d 0 with
    | COk w => let^ e2 := env_set e1 y [] (VInt w) in ROk (e2, None)
    | COob => RFail FOob | CUb => RFail FUb end
  | COob => RFail FOob | CUb => RFail FUb end.
Proof.
  intros Hn Hx Hy Ha Hsz Hps.
  rewrite (call_ssv P "decoder_read_bytes" (ofn "decoder_read_bytes") "self_p" "buf_p" "size" U64
             n e x y a 1 t' _ _ eq_refl eq_refl Hx Hy Ha) by lia.
  change (conv U64 1) with 1.
  change ([("self_p", cursor_val b sz ps); ("buf_p", VArr [w0]); ("size", VInt 1)] ++
          f_locals (ofn "decoder_read_bytes"))
    with (ms_env (cursor_val b sz ps) (VArr [w0]) 1 VUndef VUndef).
  rewrite body_read_bytes_scalar by (auto; lia).
  destruct (oread_bytes _ [0] 1) as [[s' d]| |]; cbn [rbind]; [|reflexivity|reflexivity].
  unfold ms_env. cbn [lookup String.eqb Ascii.eqb Bool.eqb].
  destruct (env_set e x [] (cur_val s')) as [e1|]; cbn [rbind]; [|reflexivity].
  rewrite vget_bytes. destruct (rd d 0) as [w| |]; cbn [rbind]; reflexivity.
Qed.

Definition dec_call (f : string) (model : cur -> cres (cur * Z)) (K : nat) : Prop :=
  forall n e x b sz ps, (K <= n)%nat -> lookup x e = Some (cursor_val b sz ps) ->
  in_s64 sz = true -> in_s64 ps = true -> bytes_ok b ->
  call P (S n) e f [ARef (PVar x)] =
  match model (mkCur b sz ps) with
  | COk (s', r) => let^ e1 := env_set e x [] (cur_val s') in ROk (e1, Some r)
  | COob => RFail FOob | CUb => RFail FUb end.

Lemma bytes_ok_zeros l : Forall (fun x => x = 0) l -> bytes_ok l.
Proof. intros H. eapply Forall_impl; [|exact H]. intros a ->. unfold is_byte; lia. Qed.

Lemma ocall_decoder_read_uint8 : dec_call "decoder_read_uint8" oread_uint8 45.
Proof.
  intros n e x b sz ps Hn Hx Hsz Hps Bb.
  enter_s "decoder_read_uint8" "self_p" 45%nat Hn Hx.
  sxn.
  erewrite ocall_decoder_read_bytes_scalar; [|lia|reflexivity|reflexivity|reflexivity|auto|auto].
  unfold oread_uint8.
  destruct (oread_bytes _ [0] 1) as [[s' d]| |] eqn:ER; cbn [cbind]; [|reflexivity|reflexivity].
  destruct (oread_bytes_facts _ _ _ _ _ ER Hsz Hps Bb ltac:(repeat constructor; unfold is_byte; lia)) as (F1 & F2 & F3 & F4 & F5).
  sxn.
  destruct (rd d 0) as [w| |] eqn:R0; cbn [cbind]; sxn; try reflexivity.
  rewrite (u8_small w) by (apply (rd_is_byte d 0 w F4 R0)). reflexivity.
Qed.


Ltac binv Bl :=
  repeat match type of Bl with
  | bytes_ok (_ :: _) => let H := fresh "Hb" in let B := fresh "Bl" in
                         inversion Bl as [|? ? H B]; subst; clear Bl; rename B into Bl
  | Forall _ (_ :: _) => let H := fresh "Hb" in let B := fresh "Bl" in
                         inversion Bl as [|? ? H B]; subst; clear Bl; rename B into Bl
  end.
Ltac rd_conc :=
  repeat match goal with
  | |- context [rd (?a :: ?l) ?i] => is_zconst i;
      let v := eval cbv in (rd (a :: l) i) in change (rd (a :: l) i) with v
  end.
Ltac bytes_simp :=
  repeat match goal with
  | H : is_byte ?x |- context [u16 ?x] => rewrite (u16_small x) by (unfold is_byte in H; lia)
  | H : is_byte ?x |- context [u32 ?x] => rewrite (u32_small x) by (unfold is_byte in H; lia)
  | H : is_byte ?x |- context [u64 ?x] => rewrite (u64_small x) by (unfold is_byte in H; lia)
  | H : is_byte ?x |- context [u8 ?x] => rewrite (u8_small x) by (unfold is_byte in H; lia)
  | H : is_byte ?x |- context [?x <? 0] => replace (x <? 0) with false by (unfold is_byte in H; lia)
  | H : is_byte ?x |- context [in_s32 (Z.shiftl ?x ?k)] => rewrite (shl_byte_in_s32 x k H) by lia
  end.
Lemma u16_u16 z : u16 (u16 z) = u16 z.
Proof. unfold u16. now rewrite Z.mod_mod by lia. Qed.
Lemma u32_u32 z : u32 (u32 z) = u32 z.
Proof. unfold u32. now rewrite Z.mod_mod by lia. Qed.
Ltac zero_ok := repeat constructor; unfold is_byte; lia.

Lemma ocall_decoder_read_uint16 : dec_call "decoder_read_uint16" oread_uint16 45.
Proof.
  intros n e x b sz ps Hn Hx Hsz Hps Bb.
  enter_s "decoder_read_uint16" "self_p" 45%nat Hn Hx.
  sxn. fold_bytes.
  erewrite (ocall_decoder_read_bytes _ _ _ _ _ 2); [|change (u64 2) with 2; lia|reflexivity|reflexivity|reflexivity|auto|auto].
  unfold oread_uint16.
  destruct (oread_bytes _ [0; 0] 2) as [[s' d]| |] eqn:ER; cbn [cbind]; [|reflexivity|reflexivity].
  destruct (oread_bytes_facts _ _ _ _ _ ER Hsz Hps Bb ltac:(zero_ok)) as (F1 & F2 & F3 & F4 & F5).
  destruct d as [|x0 [|x1 [|? ?]]]; try discriminate. binv F4. rd_conc. cbn [cbind].
  repeat (progress (sxn; bytes_simp)).
  rewrite (u16_small (Z.shiftl x0 8)) by (rewrite Z.shiftl_mul_pow2 by lia; unfold is_byte in *; lia).
  rewrite u16_u16. reflexivity.
Qed.

Lemma ocall_decoder_read_uint32 : dec_call "decoder_read_uint32" oread_uint32 45.
Proof.
  intros n e x b sz ps Hn Hx Hsz Hps Bb.
  enter_s "decoder_read_uint32" "self_p" 45%nat Hn Hx.
  sxn. fold_bytes.
  erewrite (ocall_decoder_read_bytes _ _ _ _ _ 4); [|change (u64 4) with 4; lia|reflexivity|reflexivity|reflexivity|auto|auto].
  unfold oread_uint32.
  destruct (oread_bytes _ [0; 0; 0; 0] 4) as [[s' d]| |] eqn:ER; cbn [cbind]; [|reflexivity|reflexivity].
  destruct (oread_bytes_facts _ _ _ _ _ ER Hsz Hps Bb ltac:(zero_ok)) as (F1 & F2 & F3 & F4 & F5).
  destruct d as [|x0 [|x1 [|x2 [|x3 [|? ?]]]]]; try discriminate. binv F4. rd_conc. cbn [cbind].
  repeat (progress (sxn; bytes_simp)).
  rewrite u32_small; [reflexivity|]. change 4294967296 with (2 ^ 32).
  repeat (apply lor_bound; [lia| |]); try apply byte_shl_u32_bound.
  unfold is_byte in *. change (2 ^ 32) with 4294967296. lia.
Qed.

Lemma ocall_decoder_read_uint64 : dec_call "decoder_read_uint64" oread_uint64 45.
Proof.
  intros n e x b sz ps Hn Hx Hsz Hps Bb.
  enter_s "decoder_read_uint64" "self_p" 45%nat Hn Hx.
  sxn. fold_bytes.
  erewrite (ocall_decoder_read_bytes _ _ _ _ _ 8); [|change (u64 8) with 8; lia|reflexivity|reflexivity|reflexivity|auto|auto].
  unfold oread_uint64.
  destruct (oread_bytes _ [0; 0; 0; 0; 0; 0; 0; 0] 8) as [[s' d]| |] eqn:ER; cbn [cbind]; [|reflexivity|reflexivity].
  destruct (oread_bytes_facts _ _ _ _ _ ER Hsz Hps Bb ltac:(zero_ok)) as (F1 & F2 & F3 & F4 & F5).
  destruct d as [|x0 [|x1 [|x2 [|x3 [|x4 [|x5 [|x6 [|x7 [|? ?]]]]]]]]]; try discriminate. binv F4. rd_conc. cbn [cbind].
  repeat (progress (sxn; bytes_simp)).
  rewrite u64_small; [reflexivity|]. change 18446744073709551616 with (2 ^ 64).
  repeat (apply lor_bound; [lia| |]); try apply byte_shl_u64_bound.
  unfold is_byte in *. change (2 ^ 64) with 18446744073709551616. lia.
Qed.


(* ------------------------------------------------------------------ *)
(** ** decoder_read_int8 .. int64, float, double, bool *)

Ltac split_res2 :=
  match goal with |- context [match ?r with COk _ => _ | COob => _ | CUb => _ end] =>
    destruct r as [[? ?]| |] end.

Ltac ddeleg_tac f K callee Hn Hx Hsz Hps Bb :=
  enter_s f "self_p" K Hn Hx;
  sxn;
  erewrite callee; [|lia|reflexivity|exact Hsz|exact Hps|exact Bb];
  unfold oread_int8, oread_int16, oread_int32, oread_int64, oread_float, oread_double, oread_bool;
  split_res2; cbn [cbind]; sxn;
  rewrite ?s8_s8, ?s16_s16, ?s32_s32, ?s64_s64, ?u32_u32, ?u64_u64; try reflexivity.

Lemma ocall_decoder_read_int8 : dec_call "decoder_read_int8" oread_int8 55.
Proof.
  intros n e x b sz ps Hn Hx Hsz Hps Bb.
  ddeleg_tac "decoder_read_int8" 55%nat ocall_decoder_read_uint8 Hn Hx Hsz Hps Bb.
Qed.
Lemma ocall_decoder_read_int16 : dec_call "decoder_read_int16" oread_int16 55.
Proof.
  intros n e x b sz ps Hn Hx Hsz Hps Bb.
  ddeleg_tac "decoder_read_int16" 55%nat ocall_decoder_read_uint16 Hn Hx Hsz Hps Bb.
Qed.
Lemma ocall_decoder_read_int32 : dec_call "decoder_read_int32" oread_int32 55.
Proof.
  intros n e x b sz ps Hn Hx Hsz Hps Bb.
  ddeleg_tac "decoder_read_int32" 55%nat ocall_decoder_read_uint32 Hn Hx Hsz Hps Bb.
Qed.
Lemma ocall_decoder_read_int64 : dec_call "decoder_read_int64" oread_int64 55.
Proof.
  intros n e x b sz ps Hn Hx Hsz Hps Bb.
  ddeleg_tac "decoder_read_int64" 55%nat ocall_decoder_read_uint64 Hn Hx Hsz Hps Bb.
Qed.

(** what the readers return: the cursor stays representable, the value is in range *)

Lemma COk_pair_inj {A B} (a a' : A) (b b' : B) : @COk (A * B) (a, b) = COk (a', b') -> a = a' /\ b = b'.
Proof. intros H; inversion H; auto. Qed.

Definition rd_facts (s s' : cur) : Prop :=
  in_s64 (size s') = true /\ in_s64 (pos s') = true /\ buf s' = buf s.

Lemma oread_uint8_facts s s' r : oread_uint8 s = COk (s', r) ->
  in_s64 (size s) = true -> in_s64 (pos s) = true -> bytes_ok (buf s) ->
  rd_facts s s' /\ 0 <= r < 256.
Proof.
  unfold oread_uint8. intros H Hs Hp Bb.
  destruct (oread_bytes s [0] 1) as [[s1 d]| |] eqn:ER; cbn [cbind] in H; try discriminate.
  destruct (oread_bytes_facts _ _ _ _ _ ER Hs Hp Bb ltac:(zero_ok)) as (F1 & F2 & F3 & F4 & F5).
  destruct d as [|x0 [|? ?]]; try discriminate. binv F4.
  revert H. rd_conc. cbn [cbind]. intros H. apply COk_pair_inj in H. destruct H as [<- <-]. unfold rd_facts, is_byte in *. auto.
Qed.

Lemma oread_uint16_facts s s' r : oread_uint16 s = COk (s', r) ->
  in_s64 (size s) = true -> in_s64 (pos s) = true -> bytes_ok (buf s) ->
  rd_facts s s' /\ 0 <= r < 65536.
Proof.
  unfold oread_uint16. intros H Hs Hp Bb.
  destruct (oread_bytes s [0; 0] 2) as [[s1 d]| |] eqn:ER; cbn [cbind] in H; try discriminate.
  destruct (oread_bytes_facts _ _ _ _ _ ER Hs Hp Bb ltac:(zero_ok)) as (F1 & F2 & F3 & F4 & F5).
  destruct d as [|x0 [|x1 [|? ?]]]; try discriminate.
  revert H. rd_conc. cbn [cbind]. intros H. apply COk_pair_inj in H. destruct H as [<- <-]. split; [unfold rd_facts; auto|]. unfold u16 at 1. apply Z.mod_pos_bound. lia.
Qed.

Lemma oread_uint32_facts s s' r : oread_uint32 s = COk (s', r) ->
  in_s64 (size s) = true -> in_s64 (pos s) = true -> bytes_ok (buf s) ->
  rd_facts s s' /\ 0 <= r < 4294967296.
Proof.
  unfold oread_uint32. intros H Hs Hp Bb.
  destruct (oread_bytes s [0; 0; 0; 0] 4) as [[s1 d]| |] eqn:ER; cbn [cbind] in H; try discriminate.
  destruct (oread_bytes_facts _ _ _ _ _ ER Hs Hp Bb ltac:(zero_ok)) as (F1 & F2 & F3 & F4 & F5).
  destruct d as [|x0 [|x1 [|x2 [|x3 [|? ?]]]]]; try discriminate. binv F4.
  revert H. rd_conc. cbn [cbind]. intros H. apply COk_pair_inj in H. destruct H as [<- <-]. split; [unfold rd_facts; auto|].
  change 4294967296 with (2 ^ 32).
  repeat (apply lor_bound; [lia| |]); try apply byte_shl_u32_bound.
  unfold is_byte in *. change (2 ^ 32) with 4294967296. lia.
Qed.

Lemma oread_uint64_facts s s' r : oread_uint64 s = COk (s', r) ->
  in_s64 (size s) = true -> in_s64 (pos s) = true -> bytes_ok (buf s) ->
  rd_facts s s' /\ 0 <= r < 18446744073709551616.
Proof.
  unfold oread_uint64. intros H Hs Hp Bb.
  destruct (oread_bytes s [0; 0; 0; 0; 0; 0; 0; 0] 8) as [[s1 d]| |] eqn:ER; cbn [cbind] in H; try discriminate.
  destruct (oread_bytes_facts _ _ _ _ _ ER Hs Hp Bb ltac:(zero_ok)) as (F1 & F2 & F3 & F4 & F5).
  destruct d as [|x0 [|x1 [|x2 [|x3 [|x4 [|x5 [|x6 [|x7 [|? ?]]]]]]]]]; try discriminate. binv F4.
  revert H. rd_conc. cbn [cbind]. intros H. apply COk_pair_inj in H. destruct H as [<- <-]. split; [unfold rd_facts; auto|].
  change 18446744073709551616 with (2 ^ 64).
  repeat (apply lor_bound; [lia| |]); try apply byte_shl_u64_bound.
  unfold is_byte in *. change (2 ^ 64) with 18446744073709551616. lia.
Qed.

Lemma ocall_decoder_read_float : dec_call "decoder_read_float" oread_float 55.
Proof.
  intros n e x b sz ps Hn Hx Hsz Hps Bb.
  enter_s "decoder_read_float" "self_p" 55%nat Hn Hx. sxn.
  erewrite ocall_decoder_read_uint32; [|lia|reflexivity|exact Hsz|exact Hps|exact Bb].
  unfold oread_float.
  destruct (oread_uint32 _) as [[s' r]| |] eqn:ER; [|reflexivity|reflexivity].
  destruct (oread_uint32_facts _ _ _ ER Hsz Hps Bb) as (_ & Hr). sxn.
  rewrite !(u32_small r) by lia. reflexivity.
Qed.

Lemma ocall_decoder_read_double : dec_call "decoder_read_double" oread_double 55.
Proof.
  intros n e x b sz ps Hn Hx Hsz Hps Bb.
  enter_s "decoder_read_double" "self_p" 55%nat Hn Hx. sxn.
  erewrite ocall_decoder_read_uint64; [|lia|reflexivity|exact Hsz|exact Hps|exact Bb].
  unfold oread_double.
  destruct (oread_uint64 _) as [[s' r]| |] eqn:ER; [|reflexivity|reflexivity].
  destruct (oread_uint64_facts _ _ _ ER Hsz Hps Bb) as (_ & Hr). sxn.
  rewrite !(u64_small r) by lia. reflexivity.
Qed.

Definition oread_bool_z (s : cur) : cres (cur * Z) :=
  let+ (s1, v) := oread_bool s in COk (s1, if v : bool then 1 else 0).

Lemma ocall_decoder_read_bool : dec_call "decoder_read_bool" oread_bool_z 55.
Proof.
  intros n e x b sz ps Hn Hx Hsz Hps Bb.
  enter_s "decoder_read_bool" "self_p" 55%nat Hn Hx. sxn.
  erewrite ocall_decoder_read_uint8; [|lia|reflexivity|exact Hsz|exact Hps|exact Bb].
  unfold oread_bool_z, oread_bool.
  destruct (oread_uint8 _) as [[s' r]| |] eqn:ER; [|reflexivity|reflexivity].
  cbn [cbind]. sxn. unfold conv. destruct (r =? 0); reflexivity.
Qed.

Definition dec_run (f : string) (model : cur -> cres (cur * Z)) (K : nat) : Prop :=
  forall fuel b sz ps, (K <= fuel)%nat -> in_s64 sz = true -> in_s64 ps = true -> bytes_ok b ->
  run P fuel f [cursor_val b sz ps] =
  match model (mkCur b sz ps) with
  | COk (s', r) => ROk (Some r, [cur_val s'])
  | COob => RFail FOob | CUb => RFail FUb end.

Ltac run_dec f L :=
  let fuel := fresh "fuel" in let b := fresh "b" in let sz := fresh "sz" in let ps := fresh "ps" in
  let Hf := fresh "Hf" in let Hsz := fresh "Hsz" in let Hps := fresh "Hps" in let Bb := fresh "Bb" in
  intros fuel b sz ps Hf Hsz Hps Bb; run_enter f;
  erewrite L; [|lia|reflexivity|exact Hsz|exact Hps|exact Bb];
  split_res2; reflexivity.

Theorem oir_decoder_read_uint8 : dec_run "decoder_read_uint8" oread_uint8 60.
Proof. run_dec "decoder_read_uint8" ocall_decoder_read_uint8. Qed.
Theorem oir_decoder_read_uint16 : dec_run "decoder_read_uint16" oread_uint16 60.
Proof. run_dec "decoder_read_uint16" ocall_decoder_read_uint16. Qed.
Theorem oir_decoder_read_uint32 : dec_run "decoder_read_uint32" oread_uint32 60.
Proof. run_dec "decoder_read_uint32" ocall_decoder_read_uint32. Qed.
Theorem oir_decoder_read_uint64 : dec_run "decoder_read_uint64" oread_uint64 60.
Proof. run_dec "decoder_read_uint64" ocall_decoder_read_uint64. Qed.
Theorem oir_decoder_read_int8 : dec_run "decoder_read_int8" oread_int8 60.
Proof. run_dec "decoder_read_int8" ocall_decoder_read_int8. Qed.
Theorem oir_decoder_read_int16 : dec_run "decoder_read_int16" oread_int16 60.
Proof. run_dec "decoder_read_int16" ocall_decoder_read_int16. Qed.
Theorem oir_decoder_read_int32 : dec_run "decoder_read_int32" oread_int32 60.
Proof. run_dec "decoder_read_int32" ocall_decoder_read_int32. Qed.
Theorem oir_decoder_read_int64 : dec_run "decoder_read_int64" oread_int64 60.
Proof. run_dec "decoder_read_int64" ocall_decoder_read_int64. Qed.
Theorem oir_decoder_read_float : dec_run "decoder_read_float" oread_float 60.
Proof. run_dec "decoder_read_float" ocall_decoder_read_float. Qed.
Theorem oir_decoder_read_double : dec_run "decoder_read_double" oread_double 60.
Proof. run_dec "decoder_read_double" ocall_decoder_read_double. Qed.
Theorem oir_decoder_read_bool : dec_run "decoder_read_bool" oread_bool_z 60.
Proof. run_dec "decoder_read_bool" ocall_decoder_read_bool. Qed.

(* ------------------------------------------------------------------ *)
(** ** the three pure functions *)

Lemma call_v prog f fn p1 t n e a z t' :
  lookup f prog = Some fn -> f_params fn = [(p1, PByVal t)] ->
  eval prog n e a = ROk (e, z) ->
  call prog (S n) e f [AVal t' a] =
  let^ (frame', fl) := exec_list prog n ([(p1, VInt (conv t z))] ++ f_locals fn) (f_body fn) in
  ret_of f fn fl e.
Proof.
  intros Hf Hp Ha. rewrite call_S. unfold call_body. rewrite Hf, Hp.
  ccbn. rewrite Ha. ccbn.
  destruct (exec_list prog n _ (f_body fn)) as [[frame' fl]|ff]; ccbn; reflexivity.
Qed.

Ltac pure_tac f t :=
  match goal with |- run P ?fuel f [VInt ?v] = _ =>
    run_enter f;
    match goal with |- context [call P (S ?k) ?e f _] =>
      rewrite (call_v P f (ofn f) "value" t k e _ v t eq_refl eq_refl) by rd_var;
      let m := fresh "m" in destruct (fuel_split 20 k ltac:(lia)) as (m & ->);
      rewrite exec_list_sem; unfold ofn
    end
  end.

Theorem oir_length_determinant_length : forall fuel v, (30 <= fuel)%nat ->
  run P fuel "length_determinant_length" [VInt v] =
  ROk (Some (length_determinant_length v), [VInt v]).
Proof.
  intros fuel v Hf. pure_tac "length_determinant_length" U32.
  unfold length_determinant_length. cbv zeta. change (conv U32 v) with (u32 v).
  destruct (u32 v <? 128) eqn:E1; [sxn; rewrite ?E1; sxn; reflexivity|].
  destruct (u32 v <? 256) eqn:E2; [sxn; rewrite ?E1, ?E2; sxn; reflexivity|].
  destruct (u32 v <? 65536) eqn:E3; [sxn; rewrite ?E1, ?E2, ?E3; sxn; reflexivity|].
  destruct (u32 v <? 16777216) eqn:E4; sxn; rewrite ?E1, ?E2, ?E3, ?E4; sxn; reflexivity.
Qed.

Theorem oir_minimum_uint_length : forall fuel v, (30 <= fuel)%nat ->
  run P fuel "minimum_uint_length" [VInt v] =
  ROk (Some (minimum_uint_length v), [VInt v]).
Proof.
  intros fuel v Hf. pure_tac "minimum_uint_length" U32.
  unfold minimum_uint_length. cbv zeta. change (conv U32 v) with (u32 v).
  destruct (u32 v <? 256) eqn:E1; [repeat (progress (sxn; rewrite ?E1)); reflexivity|].
  destruct (u32 v <? 65536) eqn:E2; [repeat (progress (sxn; rewrite ?E1, ?E2)); reflexivity|].
  destruct (u32 v <? 16777216) eqn:E3; repeat (progress (sxn; rewrite ?E1, ?E2, ?E3)); reflexivity.
Qed.

Theorem oir_enumerated_value_length : forall fuel v, (30 <= fuel)%nat ->
  run P fuel "enumerated_value_length" [VInt v] =
  ROk (Some (enumerated_value_length v), [VInt v]).
Proof.
  intros fuel v Hf. pure_tac "enumerated_value_length" I32.
  unfold enumerated_value_length. cbv zeta. change (conv I32 v) with (s32 v).
  destruct (0 <=? s32 v) eqn:A1; destruct (s32 v <? 128) eqn:A2;
  destruct (-128 <=? s32 v) eqn:A3; destruct (-32768 <=? s32 v) eqn:A4; destruct (s32 v <? 32768) eqn:A5;
  destruct (-8388608 <=? s32 v) eqn:A6; destruct (s32 v <? 8388608) eqn:A7; try lia;
  cbn [andb]; repeat (progress (sxn; rewrite ?A1, ?A2, ?A3, ?A4, ?A5, ?A6, ?A7)); reflexivity.
Qed.

(* ------------------------------------------------------------------ *)
(** ** encoder_append_uint, encoder_append_int, encoder_append_length_determinant *)

Definition keeps (A : cur -> cres cur) : Prop :=
  forall s s', A s = COk s' -> in_s64 (size s) = true -> in_s64 (pos s) = true ->
  in_s64 (size s') = true /\ in_s64 (pos s') = true.

Lemma keeps_bytes src n : keeps (fun s => oappend_bytes s src n).
Proof.
  intros s s' H Hs Hp. unfold oappend_bytes, oencoder_alloc in H.
  destruct (alloc_gen ENOMEM s n) as [[s1 p]| |] eqn:EA; cbn [cbind] in H; try discriminate.
  destruct (alloc_gen_facts ENOMEM _ _ _ _ eq_refl eq_refl EA Hs Hp) as (F1 & F2 & F3 & F4).
  destruct (p <? 0); [inversion H; subst; auto|].
  destruct (memcpy (buf s1) p src 0 (u64 n)); cbn [cbind] in H; try discriminate.
  inversion H; subst. auto.
Qed.

Lemma keeps_u8 v : keeps (fun s => oappend_uint8 s v). Proof. apply keeps_bytes. Qed.
Lemma keeps_u16 v : keeps (fun s => oappend_uint16 s v). Proof. apply keeps_bytes. Qed.
Lemma keeps_u32 v : keeps (fun s => oappend_uint32 s v). Proof. apply keeps_bytes. Qed.

Lemma call_svv prog f fn p1 p2 p3 t2 t3 n e x a2 z2 a3 z3 t2' t3' c :
  lookup f prog = Some fn -> f_params fn = [(p1, PByRef); (p2, PByVal t2); (p3, PByVal t3)] ->
  lookup x e = Some c -> eval prog n e a2 = ROk (e, z2) -> eval prog n e a3 = ROk (e, z3) -> (1 <= n)%nat ->
  call prog (S n) e f [ARef (PVar x); AVal t2' a2; AVal t3' a3] =
  let^ (frame', fl) :=
    exec_list prog n ([(p1, c); (p2, VInt (conv t2 z2)); (p3, VInt (conv t3 z3))] ++ f_locals fn) (f_body fn) in
  match lookup p1 frame' with
  | None => RFail (FStuck "copy-out")
  | Some v => let^ e1 := env_set e x [] v in ret_of f fn fl e1
  end.
Proof.
  intros Hf Hp Hx Ha2 Ha3 Hn. rewrite call_S. unfold call_body. rewrite Hf, Hp.
  ccbn. rewrite !resolve_PVar by lia. ccbn. unfold env_get at 1. rewrite Hx. ccbn. rewrite Ha2. ccbn.
  rewrite Ha3. ccbn.
  destruct (exec_list prog n _ (f_body fn)) as [[frame' fl]|ff]; ccbn; [|reflexivity].
  destruct (lookup p1 frame') as [v|]; [|reflexivity].
  destruct (env_set e x [] v); ccbn; reflexivity.
Qed.

Ltac enter_svv f p1 p2 p3 t2 t3 K Hn Hx Ha2 Ha3 :=
  match goal with |- call P (S ?n) ?e f [ARef (PVar ?x); AVal ?t2' ?a2; AVal ?t3' ?a3] = _ =>
    rewrite (call_svv P f (ofn f) p1 p2 p3 t2 t3 n e x a2 _ a3 _ t2' t3' _ eq_refl eq_refl Hx Ha2 Ha3) by lia;
    let m := fresh "m" in destruct (fuel_split K n Hn) as (m & ->);
    rewrite exec_list_sem; unfold ofn
  end.

Ltac ecall L Hsz Hps := erewrite L; [|lia|reflexivity|reflexivity|exact Hsz|exact Hps].

Lemma ocall_encoder_append_uint n e x a2 z2 a3 z3 t2' t3' b sz ps :
  (65 <= n)%nat -> lookup x e = Some (cursor_val b sz ps) ->
  eval P n e a2 = ROk (e, z2) -> eval P n e a3 = ROk (e, z3) ->
  in_s64 sz = true -> in_s64 ps = true ->
  call P (S n) e "encoder_append_uint" [ARef (PVar x); AVal t2' a2; AVal t3' a3] =
  match oappend_uint (mkCur b sz ps) z2 z3 with
  | COk s' => let^ e1 := env_set e x [] (cur_val s') in ROk (e1, None)
  | COob => RFail FOob | CUb => RFail FUb end.
Proof.
  intros Hn Hx Ha2 Ha3 Hsz Hps.
  enter_svv "encoder_append_uint" "self_p" "value" "number_of_bytes" U32 U8 65%nat Hn Hx Ha2 Ha3.
  unfold oappend_uint. cbv zeta. change (conv U8 z3) with (u8 z3). change (conv U32 z2) with (u32 z2).
  destruct (u8 z3 =? 1) eqn:E1; [|destruct (u8 z3 =? 2) eqn:E2; [|destruct (u8 z3 =? 3) eqn:E3]].
  - sxn. rewrite E1. sxn.
    ecall ocall_encoder_append_uint8 Hsz Hps. norm3.
    split_res; sxn; reflexivity.
  - sxn. rewrite E1, E2. sxn.
    ecall ocall_encoder_append_uint16 Hsz Hps. norm3.
    split_res; sxn; reflexivity.
  - sxn. rewrite E1, E2, E3. sxn.
    ecall ocall_encoder_append_uint8 Hsz Hps. norm3.
    destruct (oappend_uint8 _ _) as [s1| |] eqn:EA; cbn [cbind]; [|reflexivity|reflexivity].
    destruct (keeps_u8 _ _ _ EA Hsz Hps) as (G1 & G2).
    destruct s1 as [b1 sz1 ps1]. cbn [buf size pos] in *. unfold cur_val. sxn.
    ecall ocall_encoder_append_uint16 G1 G2. norm3.
    split_res; sxn; reflexivity.
  - sxn. rewrite E1, E2, E3. sxn.
    ecall ocall_encoder_append_uint32 Hsz Hps. norm3.
    split_res; sxn; reflexivity.
Qed.

Lemma keeps_i16 v : keeps (fun s => oappend_int16 s v). Proof. apply keeps_bytes. Qed.

Lemma ocall_encoder_append_int n e x a2 z2 a3 z3 t2' t3' b sz ps :
  (65 <= n)%nat -> lookup x e = Some (cursor_val b sz ps) ->
  eval P n e a2 = ROk (e, z2) -> eval P n e a3 = ROk (e, z3) ->
  in_s64 sz = true -> in_s64 ps = true ->
  call P (S n) e "encoder_append_int" [ARef (PVar x); AVal t2' a2; AVal t3' a3] =
  match oappend_int (mkCur b sz ps) z2 z3 with
  | COk s' => let^ e1 := env_set e x [] (cur_val s') in ROk (e1, None)
  | COob => RFail FOob | CUb => RFail FUb end.
Proof.
  intros Hn Hx Ha2 Ha3 Hsz Hps.
  enter_svv "encoder_append_int" "self_p" "value" "number_of_bytes" I32 U8 65%nat Hn Hx Ha2 Ha3.
  unfold oappend_int. cbv zeta. change (conv U8 z3) with (u8 z3). change (conv I32 z2) with (s32 z2).
  destruct (u8 z3 =? 1) eqn:E1; [|destruct (u8 z3 =? 2) eqn:E2; [|destruct (u8 z3 =? 3) eqn:E3]].
  - sxn. rewrite E1. sxn.
    ecall ocall_encoder_append_int8 Hsz Hps. norm3.
    split_res; sxn; reflexivity.
  - sxn. rewrite E1, E2. sxn.
    ecall ocall_encoder_append_int16 Hsz Hps. norm3.
    split_res; sxn; reflexivity.
  - sxn. rewrite E1, E2, E3. sxn.
    ecall ocall_encoder_append_uint8 Hsz Hps. norm3.
    destruct (oappend_uint8 _ _) as [s1| |] eqn:EA; cbn [cbind]; [|reflexivity|reflexivity].
    destruct (keeps_u8 _ _ _ EA Hsz Hps) as (G1 & G2).
    destruct s1 as [b1 sz1 ps1]. cbn [buf size pos] in *. unfold cur_val. sxn.
    ecall ocall_encoder_append_int16 G1 G2. norm3.
    split_res; sxn; reflexivity.
  - sxn. rewrite E1, E2, E3. sxn.
    ecall ocall_encoder_append_int32 Hsz Hps. norm3.
    split_res; sxn; reflexivity.
Qed.

Lemma ocall_encoder_append_length_determinant :
  enc_call "encoder_append_length_determinant" oappend_length_determinant 65.
Proof.
  intros n e x a z t' b sz ps Hn Hx Ha Hsz Hps.
  enter_sv "encoder_append_length_determinant" "self_p" "length" U32 65%nat Hn Hx Ha.
  unfold oappend_length_determinant. cbv zeta. change (conv U32 z) with (u32 z).
  destruct (u32 z <? 128) eqn:E1; [|destruct (u32 z <? 256) eqn:E2;
    [|destruct (u32 z <? 65536) eqn:E3; [|destruct (u32 z <? 16777216) eqn:E4]]].
  - repeat (progress (sxn; rewrite ?E1)).
    ecall ocall_encoder_append_int8 Hsz Hps. norm3.
    split_res; sxn; reflexivity.
  - repeat (progress (sxn; rewrite ?E1, ?E2)).
    ecall ocall_encoder_append_uint8 Hsz Hps. norm3.
    destruct (oappend_uint8 _ 129) as [s1| |] eqn:EA; cbn [cbind]; [|reflexivity|reflexivity].
    destruct (keeps_u8 _ _ _ EA Hsz Hps) as (G1 & G2).
    destruct s1 as [b1 sz1 ps1]. cbn [buf size pos] in *. unfold cur_val. sxn.
    ecall ocall_encoder_append_uint8 G1 G2. norm3.
    split_res; sxn; reflexivity.
  - repeat (progress (sxn; rewrite ?E1, ?E2, ?E3)).
    ecall ocall_encoder_append_uint8 Hsz Hps. norm3.
    destruct (oappend_uint8 _ 130) as [s1| |] eqn:EA; cbn [cbind]; [|reflexivity|reflexivity].
    destruct (keeps_u8 _ _ _ EA Hsz Hps) as (G1 & G2).
    destruct s1 as [b1 sz1 ps1]. cbn [buf size pos] in *. unfold cur_val. sxn.
    ecall ocall_encoder_append_uint16 G1 G2. norm3.
    split_res; sxn; reflexivity.
  - repeat (progress (sxn; rewrite ?E1, ?E2, ?E3, ?E4)).
    ecall ocall_encoder_append_uint32 Hsz Hps. norm3.
    split_res; sxn; reflexivity.
  - repeat (progress (sxn; rewrite ?E1, ?E2, ?E3, ?E4)).
    ecall ocall_encoder_append_uint8 Hsz Hps. norm3.
    destruct (oappend_uint8 _ 132) as [s1| |] eqn:EA; cbn [cbind]; [|reflexivity|reflexivity].
    destruct (keeps_u8 _ _ _ EA Hsz Hps) as (G1 & G2).
    destruct s1 as [b1 sz1 ps1]. cbn [buf size pos] in *. unfold cur_val. sxn.
    ecall ocall_encoder_append_uint32 G1 G2. norm3.
    split_res; sxn; reflexivity.
Qed.

Theorem oir_encoder_append_uint : forall fuel b sz ps v k, (80 <= fuel)%nat ->
  in_s64 sz = true -> in_s64 ps = true ->
  run P fuel "encoder_append_uint" [cursor_val b sz ps; VInt v; VInt k] =
  match oappend_uint (mkCur b sz ps) v k with
  | COk s' => ROk (None, [cur_val s'; VInt v; VInt k])
  | COob => RFail FOob | CUb => RFail FUb end.
Proof.
  intros fuel b sz ps v k Hf Hsz Hps. run_enter "encoder_append_uint".
  erewrite ocall_encoder_append_uint; [|lia|reflexivity|rd_var|rd_var|exact Hsz|exact Hps].
  split_res; reflexivity.
Qed.

Theorem oir_encoder_append_int : forall fuel b sz ps v k, (80 <= fuel)%nat ->
  in_s64 sz = true -> in_s64 ps = true ->
  run P fuel "encoder_append_int" [cursor_val b sz ps; VInt v; VInt k] =
  match oappend_int (mkCur b sz ps) v k with
  | COk s' => ROk (None, [cur_val s'; VInt v; VInt k])
  | COob => RFail FOob | CUb => RFail FUb end.
Proof.
  intros fuel b sz ps v k Hf Hsz Hps. run_enter "encoder_append_int".
  erewrite ocall_encoder_append_int; [|lia|reflexivity|rd_var|rd_var|exact Hsz|exact Hps].
  split_res; reflexivity.
Qed.

Theorem oir_encoder_append_length_determinant :
  enc_run "encoder_append_length_determinant" oappend_length_determinant 80.
Proof. run_enc "encoder_append_length_determinant" ocall_encoder_append_length_determinant. Qed.

(* ------------------------------------------------------------------ *)
(** ** decoder_read_uint, decoder_read_int, decoder_read_length_determinant *)

Definition dec_call_v (f : string) (model : cur -> Z -> cres (cur * Z)) (K : nat) : Prop :=
  forall n e x a z t' b sz ps, (K <= n)%nat -> lookup x e = Some (cursor_val b sz ps) ->
  eval P n e a = ROk (e, z) ->
  in_s64 sz = true -> in_s64 ps = true -> bytes_ok b ->
  call P (S n) e f [ARef (PVar x); AVal t' a] =
  match model (mkCur b sz ps) z with
  | COk (s', r) => let^ e1 := env_set e x [] (cur_val s') in ROk (e1, Some r)
  | COob => RFail FOob | CUb => RFail FUb end.

Ltac dcall L Hsz Hps Bb := erewrite L; [|lia|reflexivity|exact Hsz|exact Hps|exact Bb].

(** after a reader: name the new cursor, keep its invariants *)
Ltac after_read F s1 ER Hsz Hps Bb b1 sz1 ps1 G1 G2 Hr :=
  destruct (F _ _ _ ER Hsz Hps Bb) as ((G1 & G2 & ?G3) & Hr);
  destruct s1 as [b1 sz1 ps1]; cbn [buf size pos] in *; subst b1; clear ER.

Lemma u32_lor_small x y : 0 <= x < 4294967296 -> 0 <= y < 4294967296 -> u32 (Z.lor x y) = Z.lor x y.
Proof.
  intros Hx Hy. apply u32_small. change 4294967296 with (2 ^ 32) in *. apply lor_bound; lia.
Qed.

Lemma u32_range z : 0 <= u32 z < 4294967296.
Proof. unfold u32. lia. Qed.

Lemma ocall_decoder_read_uint : dec_call_v "decoder_read_uint" oread_uint 65.
Proof.
  intros n e x a z t' b sz ps Hn Hx Ha Hsz Hps Bb.
  enter_sv "decoder_read_uint" "self_p" "number_of_bytes" U8 65%nat Hn Hx Ha.
  unfold oread_uint. cbv zeta. change (conv U8 z) with (u8 z).
  destruct (u8 z =? 1) eqn:E1; [|destruct (u8 z =? 2) eqn:E2; [|destruct (u8 z =? 3) eqn:E3;
    [|destruct (u8 z =? 4) eqn:E4]]].
  - repeat (progress (sxn; rewrite ?E1)).
    dcall ocall_decoder_read_uint8 Hsz Hps Bb.
    destruct (oread_uint8 _) as [[s1 r]| |] eqn:ER; [|reflexivity|reflexivity].
    destruct (oread_uint8_facts _ _ _ ER Hsz Hps Bb) as (_ & Hr).
    sxn. rewrite !(u32_small r) by lia. reflexivity.
  - repeat (progress (sxn; rewrite ?E1, ?E2)).
    dcall ocall_decoder_read_uint16 Hsz Hps Bb.
    destruct (oread_uint16 _) as [[s1 r]| |] eqn:ER; [|reflexivity|reflexivity].
    destruct (oread_uint16_facts _ _ _ ER Hsz Hps Bb) as (_ & Hr).
    sxn. rewrite !(u32_small r) by lia. reflexivity.
  - repeat (progress (sxn; rewrite ?E1, ?E2, ?E3)).
    dcall ocall_decoder_read_uint8 Hsz Hps Bb.
    destruct (oread_uint8 _) as [[s1 r1]| |] eqn:ER; cbn [cbind]; [|reflexivity|reflexivity].
    after_read oread_uint8_facts s1 ER Hsz Hps Bb b1 sz1 ps1 G1 G2 Hr1.
    unfold cur_val. sxn.
    dcall ocall_decoder_read_uint16 G1 G2 Bb.
    destruct (oread_uint16 _) as [[s2 r2]| |] eqn:ER2; cbn [cbind]; [|reflexivity|reflexivity].
    destruct (oread_uint16_facts _ _ _ ER2 G1 G2 Bb) as (_ & Hr2).
    sxn. rewrite (u32_small r1) by lia. rewrite !u32_u32.
    rewrite !u32_lor_small by (try apply u32_range; lia). reflexivity.
  - repeat (progress (sxn; rewrite ?E1, ?E2, ?E3, ?E4)).
    dcall ocall_decoder_read_uint32 Hsz Hps Bb.
    destruct (oread_uint32 _) as [[s1 r]| |] eqn:ER; [|reflexivity|reflexivity].
    destruct (oread_uint32_facts _ _ _ ER Hsz Hps Bb) as (_ & Hr).
    sxn. rewrite !(u32_small r) by lia. reflexivity.
  - repeat (progress (sxn; rewrite ?E1, ?E2, ?E3, ?E4)). reflexivity.
Qed.

Lemma s32_s8 z : s32 (s8 z) = s8 z. Proof. unfold s32, s8. lia. Qed.
Lemma s32_s16 z : s32 (s16 z) = s16 z. Proof. unfold s32, s16. lia. Qed.

Lemma ocall_decoder_read_int : dec_call_v "decoder_read_int" oread_int 75.
Proof.
  intros n e x a z t' b sz ps Hn Hx Ha Hsz Hps Bb.
  enter_sv "decoder_read_int" "self_p" "number_of_bytes" U8 75%nat Hn Hx Ha.
  unfold oread_int. cbv zeta. change (conv U8 z) with (u8 z).
  destruct (u8 z =? 1) eqn:E1; [|destruct (u8 z =? 2) eqn:E2; [|destruct (u8 z =? 3) eqn:E3;
    [|destruct (u8 z =? 4) eqn:E4]]].
  - repeat (progress (sxn; rewrite ?E1)).
    dcall ocall_decoder_read_int8 Hsz Hps Bb. unfold oread_int8.
    destruct (oread_uint8 _) as [[s1 r]| |] eqn:ER; [|reflexivity|reflexivity].
    cbn [cbind]. sxn. rewrite ?s32_s32, ?s32_s8. reflexivity.
  - repeat (progress (sxn; rewrite ?E1, ?E2)).
    dcall ocall_decoder_read_int16 Hsz Hps Bb. unfold oread_int16.
    destruct (oread_uint16 _) as [[s1 r]| |] eqn:ER; [|reflexivity|reflexivity].
    cbn [cbind]. sxn. rewrite ?s32_s32, ?s32_s16. reflexivity.
  - repeat (progress (sxn; rewrite ?E1, ?E2, ?E3)).
    dcall ocall_decoder_read_uint8 Hsz Hps Bb.
    destruct (oread_uint8 _) as [[s1 r1]| |] eqn:ER; cbn [cbind]; [|reflexivity|reflexivity].
    after_read oread_uint8_facts s1 ER Hsz Hps Bb b1 sz1 ps1 G1 G2 Hr1.
    unfold cur_val. sxn.
    dcall ocall_decoder_read_uint16 G1 G2 Bb.
    destruct (oread_uint16 _) as [[s2 r2]| |] eqn:ER2; cbn [cbind]; [|reflexivity|reflexivity].
    destruct (oread_uint16_facts _ _ _ ER2 G1 G2 Bb) as (_ & Hr2).
    sxn. rewrite (u32_small r1) by lia. rewrite !u32_u32.
    rewrite !u32_lor_small by (try apply u32_range; lia).
    destruct (Z.land (Z.lor (u32 (Z.shiftl r1 16)) r2) 8388608 =? 8388608) eqn:EL;
      repeat (progress (sxn; rewrite ?u32_u32, ?s32_s32, ?EL)); reflexivity.
  - repeat (progress (sxn; rewrite ?E1, ?E2, ?E3, ?E4)).
    dcall ocall_decoder_read_int32 Hsz Hps Bb. unfold oread_int32.
    destruct (oread_uint32 _) as [[s1 r]| |] eqn:ER; [|reflexivity|reflexivity].
    cbn [cbind]. sxn. rewrite ?s32_s32. reflexivity.
  - repeat (progress (sxn; rewrite ?E1, ?E2, ?E3, ?E4)). reflexivity.
Qed.

Lemma ocall_decoder_read_length_determinant :
  dec_call "decoder_read_length_determinant" oread_length_determinant 75.
Proof.
  intros n e x b sz ps Hn Hx Hsz Hps Bb.
  enter_s "decoder_read_length_determinant" "self_p" 75%nat Hn Hx.
  unfold oread_length_determinant. sxn.
  dcall ocall_decoder_read_uint8 Hsz Hps Bb.
  destruct (oread_uint8 _) as [[s1 l]| |] eqn:ER; cbn [cbind]; [|reflexivity|reflexivity].
  after_read oread_uint8_facts s1 ER Hsz Hps Bb b1 sz1 ps1 G1 G2 Hl.
  unfold cur_val. sxn. rewrite !(u32_small l) by lia.
  destruct (Z.land l 128 =? 0) eqn:EL; cbn [negb].
  - repeat (progress (sxn; rewrite ?EL)). rewrite !(u32_small l) by lia. reflexivity.
  - destruct (Z.land l 127 =? 1) eqn:E1; [|destruct (Z.land l 127 =? 2) eqn:E2;
      [|destruct (Z.land l 127 =? 3) eqn:E3; [|destruct (Z.land l 127 =? 4) eqn:E4]]].
    + repeat (progress (sxn; rewrite ?EL, ?E1)).
      dcall ocall_decoder_read_uint8 G1 G2 Bb.
      destruct (oread_uint8 _) as [[s2 r]| |] eqn:ER2; [|reflexivity|reflexivity].
      destruct (oread_uint8_facts _ _ _ ER2 G1 G2 Bb) as (_ & Hr).
      sxn. rewrite !(u32_small r) by lia. reflexivity.
    + repeat (progress (sxn; rewrite ?EL, ?E1, ?E2)).
      dcall ocall_decoder_read_uint16 G1 G2 Bb.
      destruct (oread_uint16 _) as [[s2 r]| |] eqn:ER2; [|reflexivity|reflexivity].
      destruct (oread_uint16_facts _ _ _ ER2 G1 G2 Bb) as (_ & Hr).
      sxn. rewrite !(u32_small r) by lia. reflexivity.
    + repeat (progress (sxn; rewrite ?EL, ?E1, ?E2, ?E3)).
      dcall ocall_decoder_read_uint8 G1 G2 Bb.
      destruct (oread_uint8 _) as [[s2 r1]| |] eqn:ER2; cbn [cbind]; [|reflexivity|reflexivity].
      after_read oread_uint8_facts s2 ER2 G1 G2 Bb b2 sz2 ps2 G3 G4 Hr1.
      unfold cur_val. sxn.
      dcall ocall_decoder_read_uint16 G3 G4 Bb.
      destruct (oread_uint16 _) as [[s3 r2]| |] eqn:ER3; cbn [cbind]; [|reflexivity|reflexivity].
      destruct (oread_uint16_facts _ _ _ ER3 G3 G4 Bb) as (_ & Hr2).
      sxn. rewrite (u32_small r1) by lia. rewrite ?u32_u32.
      rewrite !u32_lor_small by (try apply u32_range; lia). reflexivity.
    + repeat (progress (sxn; rewrite ?EL, ?E1, ?E2, ?E3, ?E4)).
      dcall ocall_decoder_read_uint32 G1 G2 Bb.
      destruct (oread_uint32 _) as [[s2 r]| |] eqn:ER2; [|reflexivity|reflexivity].
      destruct (oread_uint32_facts _ _ _ ER2 G1 G2 Bb) as (_ & Hr).
      sxn. rewrite !(u32_small r) by lia. reflexivity.
    + repeat (progress (sxn; rewrite ?EL, ?E1, ?E2, ?E3, ?E4)). reflexivity.
Qed.

Definition dec_run_v (f : string) (model : cur -> Z -> cres (cur * Z)) (K : nat) : Prop :=
  forall fuel b sz ps k, (K <= fuel)%nat -> in_s64 sz = true -> in_s64 ps = true -> bytes_ok b ->
  run P fuel f [cursor_val b sz ps; VInt k] =
  match model (mkCur b sz ps) k with
  | COk (s', r) => ROk (Some r, [cur_val s'; VInt k])
  | COob => RFail FOob | CUb => RFail FUb end.

Theorem oir_decoder_read_uint : dec_run_v "decoder_read_uint" oread_uint 90.
Proof.
  intros fuel b sz ps k Hf Hsz Hps Bb. run_enter "decoder_read_uint".
  erewrite ocall_decoder_read_uint; [|lia|reflexivity|rd_var|exact Hsz|exact Hps|exact Bb].
  split_res2; reflexivity.
Qed.

Theorem oir_decoder_read_int : dec_run_v "decoder_read_int" oread_int 90.
Proof.
  intros fuel b sz ps k Hf Hsz Hps Bb. run_enter "decoder_read_int".
  erewrite ocall_decoder_read_int; [|lia|reflexivity|rd_var|exact Hsz|exact Hps|exact Bb].
  split_res2; reflexivity.
Qed.

Theorem oir_decoder_read_length_determinant :
  dec_run "decoder_read_length_determinant" oread_length_determinant 90.
Proof. run_dec "decoder_read_length_determinant" ocall_decoder_read_length_determinant. Qed.

(* ------------------------------------------------------------------ *)
(** ** decoder_read_long_uint: a loop of decoder_read_uint8 *)

Definition lu_c : expr := EBin OLt I32 (ERead (PVar "byte")) (ERead (PVar "number_of_bytes")).
Definition lu_step : list stmt := [SAssign (PVar "byte") U8 (EBin OAdd I32 (ERead (PVar "byte")) (EConst 1))].
Definition lu_body : list stmt :=
  [SAssign (PVar "value") U64
     (EBin OOr U64 (ECall "decoder_read_uint8" [ARef (PVar "self_p")])
                   (EBin OShl U64 (ERead (PVar "value")) (EConst 8)))].
Definition lu_env (c : val) (N v : Z) (vi : val) : env :=
  [("self_p", c); ("number_of_bytes", VInt N); ("value", VInt v); ("byte", vi)].

Lemma lu_body_eq : f_body (ofn "decoder_read_long_uint") =
  [SFor [SAssign (PVar "byte") U8 (EConst 0)] lu_c lu_step lu_body; SReturn (Some (ERead (PVar "value")))].
Proof. reflexivity. Qed.

Lemma lu_frag_c M c N v i : (10 <= M)%nat ->
  eval P M (lu_env c N v (VInt i)) lu_c = ROk (lu_env c N v (VInt i), truth (i <? N)).
Proof.
  intros HM. rewrite eval_sem. destruct (fuel_split 10 M HM) as (m & ->). unfold lu_env, lu_c. sxn. reflexivity.
Qed.

Lemma lu_frag_step M c N v i : (10 <= M)%nat -> 0 <= i < 255 ->
  exec_list P M (lu_env c N v (VInt i)) lu_step = ROk (lu_env c N v (VInt (i + 1)), FNormal).
Proof.
  intros HM Hi. rewrite exec_list_sem. destruct (fuel_split 10 M HM) as (m & ->). unfold lu_env, lu_step. sxn.
  assert (R : in_s32 (i + 1) = true) by (unfold in_s32; lia). rewrite R. sxn.
  rewrite ?u8_u8. rewrite (u8_small (i + 1)) by lia. reflexivity.
Qed.

Lemma lu_frag_body M b sz ps N v vi : (55 <= M)%nat -> in_s64 sz = true -> in_s64 ps = true -> bytes_ok b ->
  exec_list P M (lu_env (cursor_val b sz ps) N v vi) lu_body =
  match oread_uint8 (mkCur b sz ps) with
  | COk (s1, r) => ROk (lu_env (cur_val s1) N (Z.lor r (u64 (Z.shiftl v 8))) vi, FNormal)
  | COob => RFail FOob | CUb => RFail FUb end.
Proof.
  intros HM Hsz Hps Bb. rewrite exec_list_sem. destruct (fuel_split 55 M HM) as (m & ->).
  unfold lu_env, lu_body. sxn.
  dcall ocall_decoder_read_uint8 Hsz Hps Bb.
  destruct (oread_uint8 _) as [[s1 r]| |] eqn:ER; [|reflexivity|reflexivity].
  destruct (oread_uint8_facts _ _ _ ER Hsz Hps Bb) as (_ & Hr).
  sxn. rewrite <- (u64_small r) at 1 by lia. rewrite u64_lor. rewrite (u64_small r) by lia. reflexivity.
Qed.

Lemma lu_floop M k N : (55 <= M)%nat -> 0 <= N <= 255 ->
  forall j b sz ps v i, in_s64 sz = true -> in_s64 ps = true -> bytes_ok b ->
  0 <= i -> i + Z.of_nat j = N -> (j < k)%nat ->
  floop (eval P M) (exec_list P M) lu_c lu_step lu_body k (lu_env (cursor_val b sz ps) N v (VInt i)) =
  match oread_long_uint_loop j (mkCur b sz ps) v with
  | COk (s', r) => ROk (lu_env (cur_val s') N r (VInt N), FNormal)
  | COob => RFail FOob | CUb => RFail FUb end.
Proof.
  intros HM HN j. revert k. induction j as [|j IH]; intros k b sz ps v i Hsz Hps Bb Hi Hj Hk;
    (destruct k as [|k]; [lia|]).
  - cbn [floop oread_long_uint_loop]. rewrite lu_frag_c by lia. cbn [rbind].
    replace i with N by lia. rewrite Z.ltb_irrefl. reflexivity.
  - cbn [floop oread_long_uint_loop]. rewrite lu_frag_c by lia. cbn [rbind].
    destruct (i <? N) eqn:E; [|lia]. cbn [truth Z.eqb].
    rewrite lu_frag_body by auto.
    destruct (oread_uint8 _) as [[s1 r]| |] eqn:ER; cbn [rbind cbind]; try reflexivity.
    destruct (oread_uint8_facts _ _ _ ER Hsz Hps Bb) as ((G1 & G2 & G3) & Hr).
    destruct s1 as [b1 sz1 ps1]; cbn [buf size pos] in *; subst b1.
    rewrite lu_frag_step by lia. cbn [rbind]. unfold cur_val. cbn [buf size pos].
    apply IH; auto; lia.
Qed.

Lemma lu_frag_init M c N v : (10 <= M)%nat ->
  exec_list P M (lu_env c N v VUndef) [SAssign (PVar "byte") U8 (EConst 0)] =
  ROk (lu_env c N v (VInt 0), FNormal).
Proof.
  intros HM. rewrite exec_list_sem. destruct (fuel_split 10 M HM) as (m & ->). unfold lu_env. sxn. reflexivity.
Qed.

Lemma lu_frag_ret M c N v vi : (10 <= M)%nat ->
  exec_list P M (lu_env c N v vi) [SReturn (Some (ERead (PVar "value")))] =
  ROk (lu_env c N v vi, FReturn (Some v)).
Proof.
  intros HM. rewrite exec_list_sem. destruct (fuel_split 10 M HM) as (m & ->). unfold lu_env. sxn. reflexivity.
Qed.

Lemma lu_loop_range : forall j s v s' r, 0 <= v < 18446744073709551616 -> bytes_ok (buf s) ->
  in_s64 (size s) = true -> in_s64 (pos s) = true ->
  oread_long_uint_loop j s v = COk (s', r) -> 0 <= r < 18446744073709551616.
Proof.
  induction j as [|j IH]; intros s v s' r Hv Bb Hs Hp H; cbn [oread_long_uint_loop] in H.
  - apply COk_pair_inj in H. destruct H as [_ <-]. exact Hv.
  - destruct (oread_uint8 s) as [[s1 x]| |] eqn:ER; cbn [cbind] in H; try discriminate.
    destruct (oread_uint8_facts _ _ _ ER Hs Hp Bb) as ((G1 & G2 & G3) & Hx).
    eapply IH; [| | | |exact H]; auto; [|now rewrite G3].
    change 18446744073709551616 with (2 ^ 64). apply lor_bound; [lia| |apply byte_shl_u64_bound].
    change (2 ^ 64) with 18446744073709551616. lia.
Qed.

Lemma ocall_decoder_read_long_uint n e x a z t' b sz ps :
  (70 + Z.to_nat (u8 z) <= n)%nat -> lookup x e = Some (cursor_val b sz ps) ->
  eval P n e a = ROk (e, z) ->
  in_s64 sz = true -> in_s64 ps = true -> bytes_ok b ->
  call P (S n) e "decoder_read_long_uint" [ARef (PVar x); AVal t' a] =
  match oread_long_uint (mkCur b sz ps) z with
  | COk (s', r) => let^ e1 := env_set e x [] (cur_val s') in ROk (e1, Some r)
  | COob => RFail FOob | CUb => RFail FUb end.
Proof.
  intros Hn Hx Ha Hsz Hps Bb.
  rewrite (call_sv P "decoder_read_long_uint" (ofn "decoder_read_long_uint") "self_p" "number_of_bytes" U8
             n e x a z t' _ eq_refl eq_refl Hx Ha) by lia.
  change (conv U8 z) with (u8 z).
  change ([("self_p", cursor_val b sz ps); ("number_of_bytes", VInt (u8 z))] ++
          f_locals (ofn "decoder_read_long_uint")) with (lu_env (cursor_val b sz ps) (u8 z) 0 VUndef).
  rewrite lu_body_eq.
  assert (HN : 0 <= u8 z <= 255) by (unfold u8; lia).
  destruct n as [|[|[|n]]]; try lia.
  rewrite exec_list_cons, exec_S. cbn [execF].
  rewrite lu_frag_init by lia. cbn [rbind].
  rewrite (lu_floop (S n) (S n) (u8 z) ltac:(lia) HN (Z.to_nat (u8 z)) b sz ps 0 0) by (auto; lia).
  unfold oread_long_uint.
  destruct (oread_long_uint_loop _ _ 0) as [[s' r]| |] eqn:EL; cbn [rbind]; [|reflexivity|reflexivity].
  pose proof (lu_loop_range _ (mkCur b sz ps) 0 _ _ ltac:(lia) Bb Hsz Hps EL) as Hr.
  rewrite lu_frag_ret by lia. cbn [rbind].
  unfold lu_env. cbn [lookup String.eqb Ascii.eqb Bool.eqb].
  destruct (env_set e x [] (cur_val s')) as [e1|]; cbn [rbind]; [|reflexivity].
  unfold ret_of. change (f_ret (ofn "decoder_read_long_uint")) with (Some U64). cbv iota. change (conv U64 r) with (u64 r). rewrite u64_small by lia. reflexivity.
Qed.

Theorem oir_decoder_read_long_uint : forall fuel b sz ps k, (90 + Z.to_nat (u8 k) <= fuel)%nat ->
  in_s64 sz = true -> in_s64 ps = true -> bytes_ok b ->
  run P fuel "decoder_read_long_uint" [cursor_val b sz ps; VInt k] =
  match oread_long_uint (mkCur b sz ps) k with
  | COk (s', r) => ROk (Some r, [cur_val s'; VInt k])
  | COob => RFail FOob | CUb => RFail FUb end.
Proof.
  intros fuel b sz ps k Hf Hsz Hps Bb. run_enter "decoder_read_long_uint".
  erewrite (ocall_decoder_read_long_uint _ _ _ _ k); [|lia|reflexivity|rd_var|exact Hsz|exact Hps|exact Bb].
  split_res2; reflexivity.
Qed.

(* ------------------------------------------------------------------ *)
(** ** encoder_append_long_uint: the local array is filled back to front *)

Definition al_c : expr := EBin OLt U32 (ERead (PVar "byte")) (ERead (PVar "number_of_bytes")).
Definition al_step : list stmt := [SAssign (PVar "byte") U32 (EBin OAdd U32 (ERead (PVar "byte")) (EConst 1))].
Definition al_body : list stmt :=
  [SAssign (PIndex (PVar "buf")
      (EBin OSub U32 (EBin OSub U32 (ERead (PVar "number_of_bytes")) (ERead (PVar "byte"))) (EConst 1))) U8
     (ECast U8 (EBin OShr U64 (ERead (PVar "value")) (EBin OMul U32 (EConst 8) (ERead (PVar "byte")))))].
Definition al_env (c : val) (v N : Z) (d : list Z) (vi : val) : env :=
  [("self_p", c); ("value", VInt v); ("number_of_bytes", VInt N); ("buf", bytes_val d); ("byte", vi)].

Lemma al_body_eq : f_body (ofn "encoder_append_long_uint") =
  [SFor [SAssign (PVar "byte") U32 (EConst 0)] al_c al_step al_body;
   SExpr (ECall "encoder_append_bytes"
            [ARef (PVar "self_p"); ARef (PVar "buf"); AVal U64 (ERead (PVar "number_of_bytes"))])].
Proof. reflexivity. Qed.

(** the filling loop at model level *)
Fixpoint lu_fill (j : nat) (d : list Z) (N v i : Z) : cres (list Z) :=
  match j with
  | O => COk d
  | S j' => let+ d' := wr d (N - i - 1) (u8 (Z.shiftr v (8 * i))) in lu_fill j' d' N v (i + 1)
  end.

Lemma al_frag_c M c v N d i : (10 <= M)%nat ->
  eval P M (al_env c v N d (VInt i)) al_c = ROk (al_env c v N d (VInt i), truth (i <? N)).
Proof.
  intros HM. rewrite eval_sem. destruct (fuel_split 10 M HM) as (m & ->). unfold al_env, al_c. sxn. reflexivity.
Qed.

Lemma al_frag_step M c v N d i : (10 <= M)%nat -> 0 <= i < 255 ->
  exec_list P M (al_env c v N d (VInt i)) al_step = ROk (al_env c v N d (VInt (i + 1)), FNormal).
Proof.
  intros HM Hi. rewrite exec_list_sem. destruct (fuel_split 10 M HM) as (m & ->). unfold al_env, al_step. sxn.
  rewrite ?u32_u32. rewrite (u32_small (i + 1)) by lia. reflexivity.
Qed.

Lemma al_frag_body M c v N d i : (12 <= M)%nat -> 0 <= i < N -> N <= 255 -> i < 8 ->
  exec_list P M (al_env c v N d (VInt i)) al_body =
  match wr d (N - i - 1) (u8 (Z.shiftr v (8 * i))) with
  | COk d' => ROk (al_env c v N d' (VInt i), FNormal)
  | COob => RFail FOob | CUb => RFail FUb end.
Proof.
  intros HM Hi HN H8. rewrite exec_list_sem. destruct (fuel_split 12 M HM) as (m & ->).
  unfold al_env, al_body. sxn.
  rewrite (u32_small (8 * i)) by lia.
  destruct ((8 * i <? 0) || (64 <=? 8 * i)) eqn:E; [lia|]. sxn.
  rewrite (u32_small (N - i)) by lia. rewrite (u32_small (N - i - 1)) by lia.
  rewrite ?u8_u8. rewrite vset_bytes_cbn.
  destruct (wr d (N - i - 1) _); reflexivity.
Qed.

Lemma al_floop M k c v N : (12 <= M)%nat -> 0 <= N <= 8 ->
  forall j d i, 0 <= i -> i + Z.of_nat j = N -> (j < k)%nat ->
  floop (eval P M) (exec_list P M) al_c al_step al_body k (al_env c v N d (VInt i)) =
  match lu_fill j d N v i with
  | COk d' => ROk (al_env c v N d' (VInt N), FNormal)
  | COob => RFail FOob | CUb => RFail FUb end.
Proof.
  intros HM HN j. revert k. induction j as [|j IH]; intros k d i Hi Hj Hk; (destruct k as [|k]; [lia|]).
  - cbn [floop lu_fill]. rewrite al_frag_c by lia. cbn [rbind].
    replace i with N by lia. rewrite Z.ltb_irrefl. reflexivity.
  - cbn [floop lu_fill]. rewrite al_frag_c by lia. cbn [rbind].
    destruct (i <? N) eqn:E; [|lia]. cbn [truth Z.eqb].
    rewrite al_frag_body by lia.
    destruct (wr d (N - i - 1) _) as [d'| |]; cbn [rbind cbind]; try reflexivity.
    rewrite al_frag_step by lia. cbn [rbind]. apply IH; lia.
Qed.

Lemma al_floop_big M k c v N d : (12 <= M)%nat -> 8 < N <= 255 -> length d = 8%nat -> (1 <= k)%nat ->
  floop (eval P M) (exec_list P M) al_c al_step al_body k (al_env c v N d (VInt 0)) = RFail FOob.
Proof.
  intros HM HN Hd Hk. destruct k as [|k]; [lia|].
  cbn [floop]. rewrite al_frag_c by lia. cbn [rbind].
  destruct (0 <? N) eqn:E; [|lia]. cbn [truth Z.eqb].
  rewrite al_frag_body by lia.
  unfold wr, len. rewrite Hd. destruct ((0 <=? N - 0 - 1) && (N - 0 - 1 <? Z.of_nat 8)) eqn:E2; [lia|].
  reflexivity.
Qed.

Lemma lu_fill_spec v N : 0 <= N <= 8 ->
  lu_fill (Z.to_nat N) (repeat 0 8) N v 0 =
  COk (be_bytes (Z.to_nat N) v ++ repeat 0 (Z.to_nat (8 - N))).
Proof.
  intros HN.
  assert (C : N = 0 \/ N = 1 \/ N = 2 \/ N = 3 \/ N = 4 \/ N = 5 \/ N = 6 \/ N = 7 \/ N = 8) by lia.
  destruct C as [->|[->|[->|[->|[->|[->|[->|[->| ->]]]]]]]]; reflexivity.
Qed.

Lemma al_frag_init M c v N d : (10 <= M)%nat ->
  exec_list P M (al_env c v N d VUndef) [SAssign (PVar "byte") U32 (EConst 0)] =
  ROk (al_env c v N d (VInt 0), FNormal).
Proof.
  intros HM. rewrite exec_list_sem. destruct (fuel_split 10 M HM) as (m & ->). unfold al_env. sxn. reflexivity.
Qed.

Lemma al_frag_call M b sz ps v N d vi : (40 <= M)%nat -> in_s64 sz = true -> in_s64 ps = true ->
  exec_list P M (al_env (cursor_val b sz ps) v N d vi)
    [SExpr (ECall "encoder_append_bytes"
            [ARef (PVar "self_p"); ARef (PVar "buf"); AVal U64 (ERead (PVar "number_of_bytes"))])] =
  match oappend_bytes (mkCur b sz ps) d N with
  | COk s' => ROk (al_env (cur_val s') v N d vi, FNormal)
  | COob => RFail FOob | CUb => RFail FUb end.
Proof.
  intros HM Hsz Hps. rewrite exec_list_sem. destruct (fuel_split 40 M HM) as (m & ->).
  unfold al_env. sxn.
  erewrite ocall_encoder_append_bytes; [|lia|reflexivity|reflexivity|reflexivity|exact Hsz|exact Hps].
  split_res; sxn; reflexivity.
Qed.

Lemma ocall_encoder_append_long_uint n e x a2 z2 a3 z3 t2' t3' b sz ps :
  (70 <= n)%nat -> lookup x e = Some (cursor_val b sz ps) ->
  eval P n e a2 = ROk (e, z2) -> eval P n e a3 = ROk (e, z3) ->
  in_s64 sz = true -> in_s64 ps = true ->
  call P (S n) e "encoder_append_long_uint" [ARef (PVar x); AVal t2' a2; AVal t3' a3] =
  match oappend_long_uint (mkCur b sz ps) z2 z3 with
  | COk s' => let^ e1 := env_set e x [] (cur_val s') in ROk (e1, None)
  | COob => RFail FOob | CUb => RFail FUb end.
Proof.
  intros Hn Hx Ha2 Ha3 Hsz Hps.
  rewrite (call_svv P "encoder_append_long_uint" (ofn "encoder_append_long_uint") "self_p" "value"
             "number_of_bytes" U64 U8 n e x a2 z2 a3 z3 t2' t3' _ eq_refl eq_refl Hx Ha2 Ha3) by lia.
  change (conv U8 z3) with (u8 z3). change (conv U64 z2) with (u64 z2).
  change ([("self_p", cursor_val b sz ps); ("value", VInt (u64 z2)); ("number_of_bytes", VInt (u8 z3))] ++
          f_locals (ofn "encoder_append_long_uint"))
    with (al_env (cursor_val b sz ps) (u64 z2) (u8 z3) (repeat 0 8) VUndef).
  rewrite al_body_eq. unfold oappend_long_uint. cbv zeta.
  assert (HN : 0 <= u8 z3 <= 255) by (unfold u8; lia).
  destruct n as [|[|[|n]]]; try lia.
  rewrite exec_list_cons, exec_S. cbn [execF].
  rewrite al_frag_init by lia. cbn [rbind].
  destruct (8 <? u8 z3) eqn:E8.
  - rewrite al_floop_big by (try reflexivity; lia). reflexivity.
  - rewrite (al_floop (S n) (S n) _ _ (u8 z3) ltac:(lia) ltac:(lia) (Z.to_nat (u8 z3)) (repeat 0 8) 0) by lia.
    rewrite lu_fill_spec by lia. cbn [rbind].
    rewrite al_frag_call by (auto; lia).
    destruct (oappend_bytes _ _ (u8 z3)) as [s'| |]; cbn [rbind]; [|reflexivity|reflexivity].
    unfold al_env. cbn [lookup String.eqb Ascii.eqb Bool.eqb].
    destruct (env_set e x [] (cur_val s')) as [e1|]; cbn [rbind]; reflexivity.
Qed.

Theorem oir_encoder_append_long_uint : forall fuel b sz ps v k, (90 <= fuel)%nat ->
  in_s64 sz = true -> in_s64 ps = true ->
  run P fuel "encoder_append_long_uint" [cursor_val b sz ps; VInt v; VInt k] =
  match oappend_long_uint (mkCur b sz ps) v k with
  | COk s' => ROk (None, [cur_val s'; VInt v; VInt k])
  | COob => RFail FOob | CUb => RFail FUb end.
Proof.
  intros fuel b sz ps v k Hf Hsz Hps. run_enter "encoder_append_long_uint".
  erewrite ocall_encoder_append_long_uint; [|lia|reflexivity|rd_var|rd_var|exact Hsz|exact Hps].
  split_res; reflexivity.
Qed.

(* ------------------------------------------------------------------ *)
(** ** decoder_read_tag: do { } while as a for loop whose init is the body *)

Definition tg_s1 : stmt := SAssign (PVar "tag") U32 (EBin OShl U32 (ERead (PVar "tag")) (EConst 8)).
Definition tg_s2 : stmt :=
  SAssign (PVar "tag") U32
    (EBin OOr U32 (ERead (PVar "tag")) (ECast U32 (ECall "decoder_read_uint8" [ARef (PVar "self_p")]))).
Definition tg_body : list stmt := [tg_s1; tg_s2].
Definition tg_c : expr := EBin OEq U32 (EBin OAnd U32 (ERead (PVar "tag")) (EConst 128)) (EConst 128).
Definition tg_first : stmt :=
  SAssign (PVar "tag") U32 (ECall "decoder_read_uint8" [ARef (PVar "self_p")]).
Definition tg_cond : expr := EBin OEq U32 (EBin OAnd U32 (ERead (PVar "tag")) (EConst 63)) (EConst 63).
Definition tg_env (c : val) (vt : val) : env := [("self_p", c); ("tag", vt)].

Lemma tg_body_eq : f_body (ofn "decoder_read_tag") =
  [tg_first; SIf tg_cond [SFor tg_body tg_c [] tg_body] []; SReturn (Some (ERead (PVar "tag")))].
Proof. reflexivity. Qed.

(** one pass through the loop body: tag <<= 8; tag |= read_uint8() *)
Lemma tg_frag_body M b sz ps t : (55 <= M)%nat -> in_s64 sz = true -> in_s64 ps = true -> bytes_ok b ->
  exec_list P M (tg_env (cursor_val b sz ps) (VInt t)) tg_body =
  match oread_uint8 (mkCur b sz ps) with
  | COk (s1, r) => ROk (tg_env (cur_val s1) (VInt (Z.lor (u32 (Z.shiftl t 8)) r)), FNormal)
  | COob => RFail FOob | CUb => RFail FUb end.
Proof.
  intros HM Hsz Hps Bb. rewrite exec_list_sem. destruct (fuel_split 55 M HM) as (m & ->).
  unfold tg_env, tg_body, tg_s1, tg_s2. sxn.
  dcall ocall_decoder_read_uint8 Hsz Hps Bb.
  destruct (oread_uint8 _) as [[s1 r]| |] eqn:ER; [|reflexivity|reflexivity].
  destruct (oread_uint8_facts _ _ _ ER Hsz Hps Bb) as (_ & Hr).
  sxn. rewrite ?u32_u32. rewrite (u32_small r) by lia.
  rewrite u32_lor_small by (try apply u32_range; lia). reflexivity.
Qed.

Lemma tg_frag_c M c t : (10 <= M)%nat ->
  eval P M (tg_env c (VInt t)) tg_c = ROk (tg_env c (VInt t), truth (Z.land t 128 =? 128)).
Proof.
  intros HM. rewrite eval_sem. destruct (fuel_split 10 M HM) as (m & ->). unfold tg_env, tg_c. sxn. reflexivity.
Qed.

Lemma exec_list_nil_ge M e : (1 <= M)%nat -> exec_list P M e [] = ROk (e, FNormal).
Proof. intros H. destruct M; [lia|reflexivity]. Qed.

(** a read that delivers a non-zero octet took it from inside the buffer *)
Lemma oread_uint8_progress s s1 r : oread_uint8 s = COk (s1, r) ->
  buf s1 = buf s /\ (r = 0 \/ (0 <= pos s < len (buf s) /\ pos s1 = pos s + 1)).
Proof.
  unfold oread_uint8, oread_bytes, odecoder_free, alloc_gen. change (s64 (u64 1)) with 1. change (u64 1) with 1.
  destruct (negb (in_s64 (pos s + 1))); cbn [cbind]; [discriminate|].
  destruct (pos s + 1 <=? size s); cbn [cbind buf pos].
  - destruct (pos s >=? 0) eqn:Pp.
    + unfold memcpy. change (Z.to_nat 1) with 1%nat. cbn [memcpy_loop]. rewrite Z.add_0_r.
      unfold rd at 1. destruct ((0 <=? pos s) && (pos s <? len (buf s))) eqn:E; cbn [cbind]; [|discriminate].
      destruct (nth_error (buf s) (Z.to_nat (pos s))); cbn [cbind]; [|discriminate].
      change (wr [0] (0 + 0) z) with (COk [z] : cres (list Z)). cbn [cbind].
      change (rd [z] 0) with (COk z : cres Z). cbn [cbind].
      intros H. apply COk_pair_inj in H. destruct H as [<- <-]. cbn [buf pos]. split; [reflexivity|]. right. lia.
    + change (memset_loop (Z.to_nat 1) [0] 0) with (COk [0] : cres (list Z)). cbn [cbind].
      change (rd [0] 0) with (COk 0 : cres Z). cbn [cbind].
      intros H. apply COk_pair_inj in H. destruct H as [<- <-]. cbn [buf]. auto.
  - change (- EOUTOFDATA >=? 0) with false. cbv iota.
    change (memset_loop (Z.to_nat 1) [0] 0) with (COk [0] : cres (list Z)). cbn [cbind].
    change (rd [0] 0) with (COk 0 : cres Z). cbn [cbind].
    intros H. apply COk_pair_inj in H. destruct H as [<- <-]. split; [|auto].
    unfold abort. destruct (size s >=? 0); reflexivity.
Qed.

Lemma tag_exit0 t : (Z.land (Z.lor (u32 (Z.shiftl t 8)) 0) 128 =? 128) = false.
Proof.
  rewrite Z.lor_0_r. replace (Z.land (u32 (Z.shiftl t 8)) 128) with 0; [reflexivity|].
  symmetry. apply Z.bits_inj'. intros i Hi. rewrite Z.land_spec, Z.bits_0.
  change 128 with (2 ^ 7). rewrite Z.pow2_bits_eqb by lia.
  destruct (Z.eqb_spec 7 i) as [<-|]; [|apply andb_false_r].
  rewrite u32_pow, Z.testbit_mod_pow2 by lia. rewrite Z.shiftl_mul_pow2 by lia.
  rewrite Z.mul_pow2_bits_low by lia. reflexivity.
Qed.

(** how many more passes the loop can make *)
Definition tmu (s : cur) : nat :=
  if 0 <=? pos s then S (Z.to_nat (len (buf s) - pos s)) else 1%nat.

Lemma tmu_bound s : (1 <= tmu s <= length (buf s) + 1)%nat.
Proof. unfold tmu, len. destruct (0 <=? pos s) eqn:E; lia. Qed.

Definition tW (f : nat) (s : cur) (t : Z) : cres (cur * Z) :=
  if Z.land t 128 =? 128 then oread_tag_loop f s t else COk (s, t).

Lemma tg_while M : (55 <= M)%nat ->
  forall f k b sz ps t, (f < k)%nat -> in_s64 sz = true -> in_s64 ps = true -> bytes_ok b ->
  (tmu (mkCur b sz ps) <= f)%nat ->
  floop (eval P M) (exec_list P M) tg_c [] tg_body k (tg_env (cursor_val b sz ps) (VInt t)) =
  match tW f (mkCur b sz ps) t with
  | COk (s', r) => ROk (tg_env (cur_val s') (VInt r), FNormal)
  | COob => RFail FOob | CUb => RFail FUb end.
Proof.
  intros HM. induction f as [|f IH]; intros k b sz ps t Hk Hsz Hps Bb Hmu.
  - pose proof (tmu_bound (mkCur b sz ps)). lia.
  - destruct k as [|k]; [lia|]. cbn [floop]. rewrite tg_frag_c by lia. cbn [rbind].
    unfold tW. destruct (Z.land t 128 =? 128) eqn:EC; cbn [truth Z.eqb]; [|reflexivity].
    cbn [oread_tag_loop]. rewrite tg_frag_body by auto.
    destruct (oread_uint8 _) as [[s1 r]| |] eqn:ER; cbn [rbind cbind]; try reflexivity.
    destruct (oread_uint8_facts _ _ _ ER Hsz Hps Bb) as ((G1 & G2 & G3) & Hr).
    destruct (oread_uint8_progress _ _ _ ER) as (_ & Pr).
    destruct s1 as [b1 sz1 ps1]; cbn [buf size pos] in *; subst b1.
    rewrite exec_list_nil_ge by lia. cbn [rbind].
    unfold cur_val. cbn [buf size pos].
    destruct Pr as [->|(P1 & P2)].
    + rewrite tag_exit0. destruct k as [|k]; [lia|]. cbn [floop]. rewrite tg_frag_c by lia. cbn [rbind].
      rewrite tag_exit0. reflexivity.
    + fold (tW f {| buf := b; size := sz1; pos := ps1 |} (Z.lor (u32 (Z.shiftl t 8)) r)).
      apply IH; auto; try lia.
      unfold tmu in *. cbn [buf pos] in *.
      destruct (0 <=? ps) eqn:E1; [|lia]. destruct (0 <=? ps1) eqn:E2; [|lia]. lia.
Qed.

Lemma tag_loop_range : forall f s t s' r, 0 <= t < 4294967296 -> bytes_ok (buf s) ->
  in_s64 (size s) = true -> in_s64 (pos s) = true ->
  oread_tag_loop f s t = COk (s', r) -> 0 <= r < 4294967296.
Proof.
  induction f as [|f IH]; intros s t s' r Ht Bb Hs Hp H; cbn [oread_tag_loop] in H; [discriminate|].
  destruct (oread_uint8 s) as [[s1 x]| |] eqn:ER; cbn [cbind] in H; try discriminate.
  destruct (oread_uint8_facts _ _ _ ER Hs Hp Bb) as ((G1 & G2 & G3) & Hx).
  assert (B : 0 <= Z.lor (u32 (Z.shiftl t 8)) x < 4294967296).
  { change 4294967296 with (2 ^ 32). apply lor_bound; [lia|apply byte_shl_u32_bound|].
    change (2 ^ 32) with 4294967296. lia. }
  destruct (Z.land _ 128 =? 128).
  - eapply IH; [exact B| | | |exact H]; auto. now rewrite G3.
  - apply COk_pair_inj in H. destruct H as [_ <-]. exact B.
Qed.

Lemma tg_frag_first M b sz ps : (55 <= M)%nat -> in_s64 sz = true -> in_s64 ps = true -> bytes_ok b ->
  exec P M (tg_env (cursor_val b sz ps) VUndef) tg_first =
  match oread_uint8 (mkCur b sz ps) with
  | COk (s1, r) => ROk (tg_env (cur_val s1) (VInt r), FNormal)
  | COob => RFail FOob | CUb => RFail FUb end.
Proof.
  intros HM Hsz Hps Bb. rewrite exec_sem. destruct (fuel_split 55 M HM) as (m & ->).
  unfold tg_env, tg_first. sxn.
  dcall ocall_decoder_read_uint8 Hsz Hps Bb.
  destruct (oread_uint8 _) as [[s1 r]| |] eqn:ER; [|reflexivity|reflexivity].
  destruct (oread_uint8_facts _ _ _ ER Hsz Hps Bb) as (_ & Hr).
  sxn. rewrite (u32_small r) by lia. reflexivity.
Qed.

Lemma tg_frag_cond M c t : (10 <= M)%nat ->
  eval P M (tg_env c (VInt t)) tg_cond = ROk (tg_env c (VInt t), truth (Z.land t 63 =? 63)).
Proof.
  intros HM. rewrite eval_sem. destruct (fuel_split 10 M HM) as (m & ->). unfold tg_env, tg_cond. sxn. reflexivity.
Qed.

Lemma tg_frag_ret M c t : (10 <= M)%nat ->
  exec_list P M (tg_env c (VInt t)) [SReturn (Some (ERead (PVar "tag")))] =
  ROk (tg_env c (VInt t), FReturn (Some t)).
Proof.
  intros HM. rewrite exec_list_sem. destruct (fuel_split 10 M HM) as (m & ->). unfold tg_env. sxn. reflexivity.
Qed.

Lemma ocall_decoder_read_tag n e x b sz ps :
  (70 + length b <= n)%nat -> lookup x e = Some (cursor_val b sz ps) ->
  in_s64 sz = true -> in_s64 ps = true -> bytes_ok b ->
  call P (S n) e "decoder_read_tag" [ARef (PVar x)] =
  match oread_tag (mkCur b sz ps) with
  | COk (s', r) => let^ e1 := env_set e x [] (cur_val s') in ROk (e1, Some r)
  | COob => RFail FOob | CUb => RFail FUb end.
Proof.
  intros Hn Hx Hsz Hps Bb.
  rewrite (call_s P "decoder_read_tag" (ofn "decoder_read_tag") "self_p" n e x _ eq_refl eq_refl Hx) by lia.
  change ([("self_p", cursor_val b sz ps)] ++ f_locals (ofn "decoder_read_tag"))
    with (tg_env (cursor_val b sz ps) VUndef).
  rewrite tg_body_eq. unfold oread_tag. cbn [buf].
  destruct n as [|[|[|[|[|n]]]]]; try lia.
  rewrite exec_list_cons, tg_frag_first by (auto; lia).
  destruct (oread_uint8 _) as [[s1 t]| |] eqn:ER; cbn [rbind cbind]; try reflexivity.
  destruct (oread_uint8_facts _ _ _ ER Hsz Hps Bb) as ((G1 & G2 & G3) & Ht).
  destruct s1 as [b1 sz1 ps1]; cbn [buf size pos] in *; subst b1. clear ER.
  unfold cur_val. cbn [buf size pos].
  rewrite exec_list_cons, exec_SIf, tg_frag_cond by lia. cbn [rbind]. rewrite truth_test.
  assert (FIN : forall s' r, 0 <= r < 4294967296 ->
     match exec_list P (S (S (S n))) (tg_env (cur_val s') (VInt r)) [SReturn (Some (ERead (PVar "tag")))] with
     | ROk (frame', fl) =>
       match lookup "self_p" frame' with
       | Some v => let^ e1 := env_set e x [] v in ret_of "decoder_read_tag" (ofn "decoder_read_tag") fl e1
       | None => RFail (FStuck "copy-out")
       end
     | RFail f => RFail f
     end = let^ e1 := env_set e x [] (cur_val s') in ROk (e1, Some r)).
  { intros s' r Hr. rewrite tg_frag_ret by lia. unfold tg_env. cbn [lookup String.eqb Ascii.eqb Bool.eqb].
    destruct (env_set e x [] (cur_val s')) as [e1|]; cbn [rbind]; [|reflexivity].
    unfold ret_of. change (f_ret (ofn "decoder_read_tag")) with (Some U32). cbv iota.
    change (conv U32 r) with (u32 r). now rewrite u32_small by lia. }
  destruct (Z.land t 63 =? 63) eqn:E63.
  - (* the loop *)
    rewrite exec_list_cons, exec_S. cbn [execF].
    rewrite tg_frag_body by (auto; lia).
    replace (length b + 2)%nat with (S (length b + 1)) by lia. cbn [oread_tag_loop].
    destruct (oread_uint8 _) as [[s2 r2]| |] eqn:ER2; cbn [rbind cbind]; try reflexivity.
    destruct (oread_uint8_facts _ _ _ ER2 G1 G2 Bb) as ((G4 & G5 & G6) & Hr2).
    destruct s2 as [b2 sz2 ps2]; cbn [buf size pos] in *; subst b2.
    unfold cur_val. cbn [buf size pos].
    fold (tW (length b + 1) {| buf := b; size := sz2; pos := ps2 |} (Z.lor (u32 (Z.shiftl t 8)) r2)).
    rewrite (tg_while n ltac:(lia) (length b + 1)%nat n b sz2 ps2) by
      (auto; try lia; pose proof (tmu_bound {| buf := b; size := sz2; pos := ps2 |}); cbn [buf] in *; lia).
    destruct (tW _ _ _) as [[s' r]| |] eqn:EW; cbn [rbind]; try reflexivity.
    assert (Hr : 0 <= r < 4294967296).
    { assert (B : 0 <= Z.lor (u32 (Z.shiftl t 8)) r2 < 4294967296).
      { change 4294967296 with (2 ^ 32). apply lor_bound; [lia|apply byte_shl_u32_bound|].
        change (2 ^ 32) with 4294967296. lia. }
      unfold tW in EW. destruct (Z.land _ 128 =? 128).
      - eapply (tag_loop_range _ _ _ _ _ B); [| | |exact EW]; auto.
      - apply COk_pair_inj in EW. destruct EW as [_ <-]. exact B. }
    rewrite exec_list_nil_ge by lia. cbn [rbind].
    exact (FIN s' r Hr).
  - rewrite exec_list_nil_ge by lia. cbn [rbind].
    exact (FIN {| buf := b; size := sz1; pos := ps1 |} t ltac:(lia)).
Qed.

Theorem oir_decoder_read_tag : forall fuel b sz ps, (90 + length b <= fuel)%nat ->
  in_s64 sz = true -> in_s64 ps = true -> bytes_ok b ->
  run P fuel "decoder_read_tag" [cursor_val b sz ps] =
  match oread_tag (mkCur b sz ps) with
  | COk (s', r) => ROk (Some r, [cur_val s'])
  | COob => RFail FOob | CUb => RFail FUb end.
Proof.
  intros fuel b sz ps Hf Hsz Hps Bb. run_enter "decoder_read_tag".
  erewrite (ocall_decoder_read_tag _ _ _ b); [|lia|reflexivity|exact Hsz|exact Hps|exact Bb].
  split_res2; reflexivity.
Qed.
