(** C10 — proofs for CGen/GenLogicOerSizes.v: the quantity field the generated
    encoder of a SEQUENCE OF writes is the X.696 one for every count below 2^32
    exactly when COUNT evaluates to the minimal octet count. *)
From Asn1V Require Import Base.Prelude Base.Corr CGen.Helpers CGen.HelpersBits CGen.HelpersProofs CGen.OerHelpers
  CGen.OerHelpersSpec CGen.OerHelpersProofs CGen.GenLogicOerSizes.
From Asn1V Require Import Oer.X696 Oer.X696Proofs.
Open Scope Z_scope.

Lemma u8_idem z : u8 (u8 z) = u8 z.
Proof. unfold u8. apply Z.mod_mod. lia. Qed.

Lemma x_ulen_bands n : 0 <= n < 4294967296 -> x_ulen n = Some (x696_quantity_count n).
Proof.
  intros H. unfold x_ulen, x696_quantity_count. change 256 with (2 ^ 8).
  destruct (n <? 2 ^ 8) eqn:A; [|destruct (n <? 65536) eqn:B; [|destruct (n <? 16777216) eqn:C]];
    apply x_len_spec; try lia;
    change (2 ^ 8) with 256 in *; try (intros _);
    change (2 ^ (8 * 1)) with 256; change (2 ^ (8 * 2)) with 65536; change (2 ^ (8 * (2 - 1))) with 256;
    change (2 ^ (8 * 3)) with 16777216; change (2 ^ (8 * (3 - 1))) with 65536;
    change (2 ^ (8 * 4)) with 4294967296; change (2 ^ (8 * (4 - 1))) with 16777216; try lia.
Qed.

Lemma quantity_count_range n : 1 <= x696_quantity_count n <= 4.
Proof. unfold x696_quantity_count. repeat match goal with |- context [if ?c then _ else _] => destruct c end; lia. Qed.

(** the helper the current generator calls computes the X.696 count *)
Lemma minimum_uint_length_is_count n : 0 <= n < 4294967296 -> minimum_uint_length n = x696_quantity_count n.
Proof. intros H. unfold minimum_uint_length, x696_quantity_count, u32. rewrite Z.mod_small by lia. reflexivity. Qed.

(** the X.696 quantity field, spelled out *)
Lemma x696_quantity_octets n : 0 <= n < 4294967296 ->
  x696_quantity n = Some (x696_quantity_count n :: be_bytes (Z.to_nat (x696_quantity_count n)) n).
Proof.
  intros H. unfold x696_quantity, x_uint_var. destruct (n <? 0) eqn:E; [lia|].
  rewrite x_ulen_bands by lia. cbn [obind]. rewrite x_octets_be_bytes.
  pose proof (quantity_count_range n) as R.
  unfold x_length. destruct (x696_quantity_count n <? 0) eqn:E0; [lia|].
  destruct (x696_quantity_count n <? 128) eqn:E1; [|lia]. reflexivity.
Qed.

(** what the three generated statements write when COUNT evaluates to k (1..4) *)
Lemma gen_quantity_octets_count len count value k :
  qeval len count = k -> 1 <= k <= 4 ->
  gen_quantity_octets len count value = k :: be_bytes (Z.to_nat k) (qeval len value).
Proof.
  intros E R. unfold gen_quantity_octets. rewrite E. cbv zeta. rewrite (u8_small k) by lia.
  cbn [oeop_spec]. assert (K : k = 1 \/ k = 2 \/ k = 3 \/ k = 4) by lia.
  destruct K as [ -> | [ -> | [ -> | -> ] ] ]; cbn [Z.leb Z.compare Pos.compare Pos.compare_cont andb];
    change (Z.to_nat 1) with 1%nat; cbn [be_bytes]; change (8 * Z.of_nat 0) with 0; rewrite ?Z.shiftr_0_r;
    rewrite ?u8_idem; reflexivity.
Qed.

(** SOUND: with COUNT = minimum_uint_length(length) and VALUE = length (what /repo emits for a
    variable size) the octets are the X.696 quantity field, for every count below 2^32 ... *)
Theorem quantity_runtime_is_x696 : forall n, 0 <= n < 4294967296 ->
  Some (gen_quantity_octets n (QMinUint QLen) QLen) = x696_quantity n.
Proof.
  intros n H. rewrite x696_quantity_octets by lia.
  rewrite (gen_quantity_octets_count n (QMinUint QLen) QLen (x696_quantity_count n)).
  - reflexivity.
  - cbn [qeval]. apply minimum_uint_length_is_count. lia.
  - apply quantity_count_range.
Qed.

(** ... and with the size pasted as a constant (what /repo emits for a fixed size) *)
Theorem quantity_fixed_is_x696 : forall n, 0 <= n < 4294967296 ->
  Some (gen_quantity_octets n (QMinUint (QNum n)) (QNum n)) = x696_quantity n.
Proof.
  intros n H. rewrite x696_quantity_octets by lia.
  rewrite (gen_quantity_octets_count n (QMinUint (QNum n)) (QNum n) (x696_quantity_count n)).
  - reflexivity.
  - cbn [qeval]. apply minimum_uint_length_is_count. lia.
  - apply quantity_count_range.
Qed.

(** COMPLETE: whatever expression the generator pastes for COUNT, the octets are the X.696
    ones only if it evaluates (as the uint8_t it is stored in) to the minimal count *)
Theorem quantity_count_must_be_minimal : forall n count value, 0 <= n < 4294967296 ->
  Some (gen_quantity_octets n count value) = x696_quantity n ->
  u8 (qeval n count) = x696_quantity_count n.
Proof.
  intros n count value H E. rewrite x696_quantity_octets in E by lia.
  unfold gen_quantity_octets in E. cbv zeta in E. cbn [oeop_spec] in E.
  change (be_bytes 1 (u8 (qeval n count))) with [u8 (Z.shiftr (u8 (qeval n count)) (8 * Z.of_nat 0))] in E.
  change (8 * Z.of_nat 0) with 0 in E. rewrite Z.shiftr_0_r, u8_idem in E.
  cbn [app] in E. inversion E. reflexivity.
Qed.

(** the C integer width (1, 2, 4, 8) is NOT the count: 65536 needs three octets *)
Theorem quantity_type_width_refuted :
  exists n, 0 <= n < 4294967296 /\ Some (gen_quantity_octets n (QNum 4) (QNum n)) <> x696_quantity n /\
            x696_quantity n = Some [3; 1; 0; 0] /\ gen_quantity_octets n (QNum 4) (QNum n) = [4; 0; 1; 0; 0].
Proof. exists 65536. split; [lia|]. split; [|split]; vm_compute; congruence. Qed.

(** the boolean the harness evaluates is the statement of the theorems *)
Lemma list_eqb_Z_eq l1 : forall l2, list_eqb Z.eqb l1 l2 = true <-> l1 = l2.
Proof.
  induction l1 as [|a r IH]; destruct l2 as [|b s]; cbn [list_eqb]; split; intros H; try discriminate; try reflexivity.
  - apply andb_true_iff in H. destruct H as [H1 H2]. apply Z.eqb_eq in H1. apply IH in H2. congruence.
  - inversion H; subst. apply andb_true_iff. split; [apply Z.eqb_refl|apply IH; reflexivity].
Qed.

Theorem quantity_agrees_iff : forall n count value,
  quantity_agrees n count value = true <-> Some (gen_quantity_octets n count value) = x696_quantity n.
Proof.
  intros n count value. unfold quantity_agrees. destruct (x696_quantity n) as [l|].
  - rewrite list_eqb_Z_eq. split; intros H; [subst; reflexivity|inversion H; reflexivity].
  - split; intros H; discriminate.
Qed.

(** static length arithmetic (extension addition holding a SEQUENCE OF): 1 + COUNTLEN + len * inner
    is the number of octets of quantity field plus elements *)
Theorem seqof_static_length_sound : forall n inner, 0 <= n < 4294967296 ->
  gen_seqof_static_length n inner (QMinUint QLen) =
  Z.of_nat (length (gen_quantity_octets n (QMinUint QLen) QLen)) + n * inner.
Proof.
  intros n inner H. unfold gen_seqof_static_length.
  rewrite (gen_quantity_octets_count n (QMinUint QLen) QLen (x696_quantity_count n)).
  - cbn [qeval length]. rewrite be_bytes_length. rewrite minimum_uint_length_is_count by lia.
    pose proof (quantity_count_range n). lia.
  - cbn [qeval]. apply minimum_uint_length_is_count. lia.
  - apply quantity_count_range.
Qed.

(** the decoder's comparison accepts exactly the quantities the SIZE constraint allows when the
    pasted bound is the maximum (and, for a fixed size, the comparison is an equality) *)
Theorem quantity_check_sound : forall lo hi q, 0 <= lo <= hi -> 0 <= q ->
  gen_quantity_accepts (lo =? hi) hi q = true -> (lo = hi -> size_allows lo hi q = true) /\ q <= hi.
Proof.
  intros lo hi q H Hq. unfold gen_quantity_accepts, size_allows.
  destruct (lo =? hi) eqn:E; intros A; split; intros; lia.
Qed.

(** OCTET STRING: the one-octet form is chosen only where it is the X.696 length determinant *)
Theorem octets_length_form_sound : forall lo hi len, 0 <= lo <= len -> len <= hi -> hi < 4294967296 -> lo <> hi ->
  Some (gen_octets_length_octets (x696_octets_length_form lo hi) len) = x_length len.
Proof.
  intros lo hi len H1 H2 H3 H4. unfold x696_octets_length_form, gen_octets_length_octets.
  destruct (lo =? hi) eqn:E; [lia|]. destruct (hi <? 128) eqn:F.
  - change (1 =? 0) with false. change (1 =? 1) with true. cbv iota.
    unfold x_length. destruct (len <? 0) eqn:A; [lia|]. destruct (len <? 128) eqn:B; [|lia].
    cbn [oeop_spec]. change (be_bytes 1 len) with [u8 (Z.shiftr len (8 * Z.of_nat 0))].
    change (8 * Z.of_nat 0) with 0. rewrite Z.shiftr_0_r, u8_small by lia. reflexivity.
  - change (2 =? 0) with false. change (2 =? 1) with false. cbv iota.
    apply oer_length_determinant_is_x696. lia.
Qed.
