(** C09 — predicates used by the statements about the helper model
    (CGen/Helpers.v).  Definitions only; proofs are in HelpersProofs.v. *)
From Asn1V Require Import Base.Prelude CGen.Helpers.

(** A cursor as encoder_init/decoder_init leaves it and as the helpers keep
    it while no error happened: [size] is exactly the capacity of the object
    behind buf_p (in bits), the position is inside, bytes are bytes. *)
Definition live (s : cur) : Prop :=
  size s = 8 * len (buf s) /\ 0 <= pos s <= size s /\
  len (buf s) < 576460752303423488 (* 2^59: pos + 8n stays inside ssize_t *) /\ bytes_ok (buf s).

(** The error latch: encoder_abort/decoder_abort stored the negated error. *)
Definition latched (s : cur) : Prop := -2147483647 <= size s < 0 /\ pos s = size s.

Definition wf (s : cur) : Prop := live s \/ latched s.

(** The not yet written bits of the byte the cursor stands in are zero
    (encoder_append_bit ORs into that byte). *)
Definition clean (s : cur) : Prop :=
  forall i, pos s <= i < 8 * ((pos s + 7) / 8) -> getbit (buf s) i = false.

(** Arguments the generated code can pass. *)
Definition eop_ok (o : eop) : Prop :=
  match o with
  | EBit v => 0 <= v <= 1
  | EBytes src n => 0 <= n <= len src /\ n < 576460752303423488 /\ bytes_ok src
  | ENnbi _ n => 0 <= n <= 64
  | EAbort e => 0 < e <= 2147483647     (* the error codes are small int constants *)
  | _ => True
  end.

Definition eop_is_abort (o : eop) : bool := match o with EAbort _ => true | _ => false end.

(** Number of bits a call appends. *)
Definition eop_bits (o : eop) : Z :=
  match o with
  | EBit _ | EBool _ => 1
  | EBytes _ n => 8 * n
  | ENnbi _ n => n
  | EU8 _ | EI8 _ => 8
  | EU16 _ | EI16 _ => 16
  | EU32 _ | EI32 _ => 32
  | EU64 _ | EI64 _ => 64
  | EAbort _ => 0
  end.

(** The bit string X.691 / codecs/per.py append for the same call. *)
Definition eop_spec (o : eop) : list bool :=
  match o with
  | EBit v => [v =? 1]
  | EBool b => [b]
  | EBytes src n => bytes_bits (firstn (Z.to_nat n) src)
  | ENnbi v n => be_bits (Z.to_nat n) v
  | EU8 v => be_bits 8 v
  | EU16 v => be_bits 16 v
  | EU32 v => be_bits 32 v
  | EU64 v => be_bits 64 v
  | EI8 v => be_bits 8 (v + 128)
  | EI16 v => be_bits 16 (v + 32768)
  | EI32 v => be_bits 32 (v + 2147483648)
  | EI64 v => be_bits 64 (v + 9223372036854775808)
  | EAbort _ => []
  end.

Definition dop_ok (o : dop) : Prop :=
  match o with
  | DBytes cap n => 0 <= n <= cap /\ cap < 576460752303423488
  | DNnbi n => 0 <= n <= 64
  | DAbort e => 0 < e <= 2147483647
  | _ => True
  end.

Definition dop_bits (o : dop) : Z :=
  match o with
  | DBit | DBool => 1
  | DBytes _ n => 8 * n
  | DNnbi n => n
  | DU8 | DI8 => 8
  | DU16 | DI16 => 16
  | DU32 | DI32 => 32
  | DU64 | DI64 => 64
  | DAbort _ => 0
  end.

Definition junk_ok (junk : list Z) : Prop := bytes_ok junk /\ (8 <= length junk)%nat.

(** The [n] bits under the read cursor. *)
Definition bits_at (s : cur) (n : Z) : list bool :=
  firstn (Z.to_nat n) (skipn (Z.to_nat (pos s)) (bytes_bits (buf s))).

(** Bytes of a bit string whose length is a multiple of 8. *)
Fixpoint unpack_bytes (k : nat) (bs : list bool) : list Z :=
  match k with
  | O => []
  | S k' => bits_value (firstn 8 bs) :: unpack_bytes k' (skipn 8 bs)
  end.

(** The value X.691 / codecs/per.py read for the same call. *)
Definition dop_spec (s : cur) (o : dop) : list Z :=
  match o with
  | DBit => [bits_value (bits_at s 1)]
  | DBool => [bits_value (bits_at s 1)]
  | DBytes cap n => unpack_bytes (Z.to_nat n) (bits_at s (8 * n)) ++ zeros (cap - n)
  | DNnbi n => [bits_value (bits_at s n)]
  | DU8 => [bits_value (bits_at s 8)]
  | DU16 => [bits_value (bits_at s 16)]
  | DU32 => [bits_value (bits_at s 32)]
  | DU64 => [bits_value (bits_at s 64)]
  | DI8 => [bits_value (bits_at s 8) - 128]
  | DI16 => [bits_value (bits_at s 16) - 32768]
  | DI32 => [bits_value (bits_at s 32) - 2147483648]
  | DI64 => [bits_value (bits_at s 64) - 9223372036854775808]
  | DAbort _ => []
  end.

Definition no_abort (os : list eop) : Prop := Forall (fun o => eop_is_abort o = false) os.
Definition total_bits (os : list eop) : Z := fold_right (fun o a => eop_bits o + a) 0 os.
