(** C10 — the static encoded-length arithmetic of the OER C generator
    (asn1tools/source/c/oer.py: get_length_determinant_length,
    get_sequence_present_mask_length, get_sequence_additions_mask_length,
    get_enumerated_value_length) against X.696 and against the C helper
    functions of the same name (CGen/OerHelpers.v).  Proofs:
    GenLogicOerProofs.v; tie: harness/c10_logic.py calls the Python functions. *)
From Asn1V Require Import Base.Prelude CGen.Helpers CGen.OerHelpers.

(** oer.get_length_determinant_length as it is in /repo: note 1677726. *)
Definition gen_length_determinant_length (length : Z) : Z :=
  if length <? 128 then 1 else if length <? 256 then 2 else if length <? 65536 then 3
  else if length <? 1677726 then 4 else 5.

(** with proposed_fixes/C10-length-determinant-length-typo.diff *)
Definition gen_length_determinant_length_fixed (length : Z) : Z :=
  if length <? 128 then 1 else if length <? 256 then 2 else if length <? 65536 then 3
  else if length <? 16777216 then 4 else 5.

(** number of octets of the X.696 8.6 length determinant of n (what the
    Python codec and encoder_append_length_determinant emit) *)
Definition x696_length_determinant_octets (n : Z) : Z :=
  if n <? 128 then 1 else 1 + (if n <? 256 then 1 else if n <? 65536 then 2 else if n <? 16777216 then 3 else 4).

(** oer.get_sequence_present_mask_length / get_sequence_additions_mask_length *)
Definition present_mask_length (optionals extension_bit : Z) : Z := (optionals + extension_bit + 7) / 8.
Definition additions_mask_length (additions : Z) : Z := (additions + 7) / 8.

(** _Generator.get_enumerated_value_length (None = its Error) *)
Definition gen_enumerated_value_length (value : Z) : option Z :=
  if (-128 <=? value) && (value <? 128) then Some 1
  else if (-32768 <=? value) && (value <? 32768) then Some 2
  else if (-8388608 <=? value) && (value <? 8388608) then Some 3
  else if (-2147483648 <=? value) && (value <? 2147483648) then Some 4
  else None.

(** X.696 clause 10: number of octets of a constrained INTEGER (None: variable size) *)
Definition x696_int_octets (lo hi : Z) : option Z :=
  if 0 <=? lo then
    (if hi <=? 255 then Some 1 else if hi <=? 65535 then Some 2 else if hi <=? 4294967295 then Some 4
     else if hi <=? 18446744073709551615 then Some 8 else None)
  else
    (if (-128 <=? lo) && (hi <=? 127) then Some 1
     else if (-32768 <=? lo) && (hi <=? 32767) then Some 2
     else if (-2147483648 <=? lo) && (hi <=? 2147483647) then Some 4
     else if (-9223372036854775808 <=? lo) && (hi <=? 9223372036854775807) then Some 8 else None).
