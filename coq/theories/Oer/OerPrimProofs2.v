(** Primitive lemmas, part 2: bit fields, tags, character strings, OBJECT
    IDENTIFIER contents, bounded repetition. *)
From Asn1V Require Import Base.Prelude Oer.OerPrim Oer.OerPrimProofs.
Open Scope Z_scope.

(** * Bit fields *)
Lemma bits_of_byte_of_bits b7 b6 b5 b4 b3 b2 b1 b0 :
  bits_of_byte (byte_of_bits b7 b6 b5 b4 b3 b2 b1 b0) = [b7; b6; b5; b4; b3; b2; b1; b0].
Proof.
  destruct b7, b6, b5, b4, b3, b2, b1, b0; vm_compute; reflexivity.
Qed.

Lemma list_ind8 {A} (P : list A -> Prop) :
  P [] ->
  (forall l, (0 < length l < 8)%nat -> P l) ->
  (forall b7 b6 b5 b4 b3 b2 b1 b0 r, P r -> P (b7 :: b6 :: b5 :: b4 :: b3 :: b2 :: b1 :: b0 :: r)) ->
  forall l, P l.
Proof.
  intros H0 Hs H8 l.
  assert (G : forall n l, (length l <= n)%nat -> P l).
  { induction n as [|n IH]; intros l' Hl.
    - destruct l'; [exact H0|simpl in Hl; lia].
    - destruct l' as [|b7 [|b6 [|b5 [|b4 [|b3 [|b2 [|b1 [|b0 r]]]]]]]];
        try exact H0; try (apply Hs; simpl; lia).
      apply H8. apply IH. simpl in Hl. lia. }
  apply (G (length l)). lia.
Qed.

Lemma pack_bits_short (l : list bool) :
  (0 < length l < 8)%nat ->
  pack_bits l = [bits_value 0 (l ++ repeat false (8 - length l))].
Proof.
  intros H.
  destruct l as [|b7 [|b6 [|b5 [|b4 [|b3 [|b2 [|b1 [|b0 r]]]]]]]]; simpl in H; try lia; reflexivity.
Qed.

Lemma unpack_pack_short (l : list bool) :
  (0 < length l < 8)%nat ->
  firstn (length l) (bits_of_byte (bits_value 0 (l ++ repeat false (8 - length l)))) = l.
Proof.
  intros H.
  destruct l as [|b7 [|b6 [|b5 [|b4 [|b3 [|b2 [|b1 [|b0 r]]]]]]]]; simpl in H; try lia;
    repeat match goal with b : bool |- _ => destruct b end; vm_compute; reflexivity.
Qed.

Lemma pack_bits_length (l : list bool) :
  Z.of_nat (length (pack_bits l)) = (Z.of_nat (length l) + 7) / 8.
Proof.
  induction l using list_ind8.
  - reflexivity.
  - rewrite pack_bits_short by assumption. simpl length.
    apply (Z.div_unique _ _ _ (Z.of_nat (length l) - 1)); lia.
  - cbn [pack_bits length]. rewrite Nat2Z.inj_succ, IHl.
    repeat rewrite Nat2Z.inj_succ.
    replace (Z.succ (Z.succ (Z.succ (Z.succ (Z.succ (Z.succ (Z.succ (Z.succ (Z.of_nat (length l))))))))) + 7)
      with ((Z.of_nat (length l) + 7) + 1 * 8) by lia.
    rewrite Z.div_add by lia. lia.
Qed.

Lemma unpack_pack (l : list bool) : firstn (length l) (unpack_bits (pack_bits l)) = l.
Proof.
  induction l using list_ind8.
  - reflexivity.
  - rewrite pack_bits_short by assumption. unfold unpack_bits. cbn [flat_map]. rewrite app_nil_r.
    apply unpack_pack_short. assumption.
  - cbn [pack_bits]. unfold unpack_bits in *. cbn [flat_map].
    rewrite bits_of_byte_of_bits. cbn [length app firstn]. rewrite IHl. reflexivity.
Qed.

Lemma good_bits (l : list bool) : good (dec_bits (Z.of_nat (length l))) (pack_bits l) l.
Proof.
  unfold dec_bits. destruct (Z.of_nat (length l) <? 0) eqn:E; [lia|].
  eapply good_bind_ret_eq.
  - apply good_take'. symmetry. apply pack_bits_length.
  - rewrite Nat2Z.id. apply unpack_pack.
Qed.

Lemma good_bits' n (l : list bool) : n = Z.of_nat (length l) -> good (dec_bits n) (pack_bits l) l.
Proof. intros ->. apply good_bits. Qed.

(** * Tags *)
Lemma b128_digits_S k v :
  b128_digits (S (S k)) v = (128 + (v / 128 ^ Z.of_nat (S k)) mod 128) :: b128_digits (S k) v.
Proof. reflexivity. Qed.

Lemma good_tag_rest k v : good dec_tag_rest (b128_digits (S k) v) (b128_digits (S k) v).
Proof.
  induction k as [|k IH].
  - cbn [b128_digits]. pose proof (Z.mod_pos_bound v 128 ltac:(lia)). split.
    + intros tail. cbn. destruct (v mod 128 <? 128) eqn:E; [reflexivity|lia].
    + intros p Hp. apply strict_prefix_length in Hp. destruct p; [|simpl in Hp; lia].
      exists EOutOfData. auto.
  - rewrite b128_digits_S. set (d := 128 + (v / 128 ^ Z.of_nat (S k)) mod 128).
    assert (Hd : (d <? 128) = false).
    { unfold d. pose proof (Z.mod_pos_bound (v / 128 ^ Z.of_nat (S k)) 128 ltac:(lia)). lia. }
    destruct IH as [IH1 IH2]. split.
    + intros tail. cbn [app dec_tag_rest]. rewrite Hd. rewrite IH1. reflexivity.
    + intros p Hp. destruct p as [|x p].
      * exists EOutOfData. auto.
      * destruct Hp as [s [Hs Hp]]. cbn [app] in Hp. injection Hp as Hx Hp. subst x.
        cbn [dec_tag_rest]. rewrite Hd.
        destruct (IH2 p) as [x [-> Hx]]; [exists s; auto|]. exists x. auto.
Qed.

Lemma b128_len_pos v : 1 <= b128_len v.
Proof. unfold b128_len. apply Z.div_le_lower_bound; lia. Qed.

Definition tag_flags_ok (f : Z) : Prop := f = 64 \/ f = 128 \/ f = 192.

Lemma good_tag n f : 0 <= n -> tag_flags_ok f -> good dec_tag (encode_tag n f) (encode_tag n f).
Proof.
  intros Hn Hf. unfold encode_tag, dec_tag. destruct (n <? 63) eqn:E.
  - rewrite <- (app_nil_r [f + n]). eapply good_bind; [apply good_byte|].
    assert ((f + n) mod 64 = n).
    { destruct Hf as [ -> | [ -> | -> ] ]; symmetry;
        [apply (Z.mod_unique _ _ 1)|apply (Z.mod_unique _ _ 2)|apply (Z.mod_unique _ _ 3)]; lia. }
    destruct ((f + n) mod 64 =? 63) eqn:E1; [lia|]. apply good_ret.
  - pose proof (b128_len_pos n).
    destruct (Z.to_nat (b128_len n)) as [|k] eqn:Ek; [lia|].
    apply (good_bind dec_byte _ [f + 63] (b128_digits (S k) n) (f + 63)); [apply good_byte|].
    assert ((f + 63) mod 64 = 63).
    { destruct Hf as [ -> | [ -> | -> ] ]; reflexivity. }
    destruct ((f + 63) mod 64 =? 63) eqn:E1; [|lia].
    apply (good_bind_ret_eq dec_tag_rest (fun r => (f + 63) :: r) _ (b128_digits (S k) n));
      [apply good_tag_rest|reflexivity].
Qed.

(** * Character strings *)
Ltac Zify.zify_post_hook ::= Z.div_mod_to_equations.

Lemma ascii_dec_app c bs cs : 0 <= c < 128 -> ascii_dec bs = Ok cs -> ascii_dec (c :: bs) = Ok (c :: cs).
Proof.
  intros H E. cbn [ascii_dec]. destruct (c <? 128) eqn:E1; [|lia]. rewrite E. reflexivity.
Qed.

Lemma ascii_roundtrip cs bs : enc_chars ascii_enc1 cs = Ok bs -> ascii_dec bs = Ok cs.
Proof.
  revert bs. induction cs as [|c cs IH]; intros bs H.
  - injection H as <-. reflexivity.
  - cbn [enc_chars] in H. unfold ascii_enc1 in H at 1.
    destruct (c <? 0) eqn:E0; [discriminate|].
    destruct (c <? 128) eqn:E1.
    + cbn [bind] in H. destruct (enc_chars ascii_enc1 cs) as [b|] eqn:E2; [|discriminate].
      cbn [bind] in H. injection H as <-. cbn [app]. apply ascii_dec_app; [lia|]. apply IH. reflexivity.
    + destruct (c <? 1114112); discriminate.
Qed.

Lemma ascii_length cs bs : enc_chars ascii_enc1 cs = Ok bs -> length bs = length cs.
Proof.
  revert bs. induction cs as [|c cs IH]; intros bs H.
  - injection H as <-. reflexivity.
  - cbn [enc_chars] in H. unfold ascii_enc1 in H at 1.
    destruct (c <? 0) eqn:E0; [discriminate|].
    destruct (c <? 128) eqn:E1.
    + cbn [bind] in H. destruct (enc_chars ascii_enc1 cs) as [b|] eqn:E2; [|discriminate].
      cbn [bind] in H. injection H as <-. cbn [app length]. f_equal. apply IH. reflexivity.
    + destruct (c <? 1114112); discriminate.
Qed.

Lemma utf8_dec_unfold b0 r :
  utf8_dec (b0 :: r) =
    if b0 <? 128 then let* cs := utf8_dec r in Ok (b0 :: cs)
    else if b0 <? 194 then Err EUnicodeDec
    else if b0 <? 224 then
      match r with
      | b1 :: r1 =>
        if is_cont b1 then let* cs := utf8_dec r1 in Ok (((b0 - 192) * 64 + (b1 - 128)) :: cs)
        else Err EUnicodeDec
      | _ => Err EUnicodeDec
      end
    else if b0 <? 240 then
      match r with
      | b1 :: b2 :: r2 =>
        if is_cont b1 && is_cont b2
           && (negb (b0 =? 224) || (160 <=? b1)) && (negb (b0 =? 237) || (b1 <=? 159))
        then let* cs := utf8_dec r2 in
             Ok (((b0 - 224) * 4096 + (b1 - 128) * 64 + (b2 - 128)) :: cs)
        else Err EUnicodeDec
      | _ => Err EUnicodeDec
      end
    else if b0 <? 245 then
      match r with
      | b1 :: b2 :: b3 :: r3 =>
        if is_cont b1 && is_cont b2 && is_cont b3
           && (negb (b0 =? 240) || (144 <=? b1)) && (negb (b0 =? 244) || (b1 <=? 143))
        then let* cs := utf8_dec r3 in
             Ok (((b0 - 240) * 262144 + (b1 - 128) * 4096 + (b2 - 128) * 64 + (b3 - 128)) :: cs)
        else Err EUnicodeDec
      | _ => Err EUnicodeDec
      end
    else Err EUnicodeDec.
Proof. reflexivity. Qed.

Lemma utf8_dec_one c a bs cs :
  utf8_enc1 c = Ok a -> utf8_dec bs = Ok cs -> utf8_dec (a ++ bs) = Ok (c :: cs).
Proof.
  unfold utf8_enc1. intros H E.
  destruct (c <? 0) eqn:E0; [discriminate|].
  destruct (c <? 128) eqn:E1.
  { apply Ok_inj in H; subst a. cbn [app]. rewrite utf8_dec_unfold. rewrite E1, E. reflexivity. }
  destruct (c <? 2048) eqn:E2.
  { apply Ok_inj in H; subst a. cbn [app]. rewrite utf8_dec_unfold.
    destruct (192 + c / 64 <? 128) eqn:T1; [lia|].
    destruct (192 + c / 64 <? 194) eqn:T2; [lia|].
    destruct (192 + c / 64 <? 224) eqn:T3; [|lia].
    unfold is_cont.
    destruct ((128 <=? 128 + c mod 64) && (128 + c mod 64 <=? 191)) eqn:T4; [|lia].
    rewrite E. cbv beta iota delta [bind]. f_equal. f_equal. lia. }
  destruct (c <? 65536) eqn:E3.
  { destruct ((55296 <=? c) && (c <=? 57343)) eqn:E4; [discriminate|].
    apply Ok_inj in H; subst a. cbn [app]. rewrite utf8_dec_unfold.
    destruct (224 + c / 4096 <? 128) eqn:T1; [lia|].
    destruct (224 + c / 4096 <? 194) eqn:T2; [lia|].
    destruct (224 + c / 4096 <? 224) eqn:T3; [lia|].
    destruct (224 + c / 4096 <? 240) eqn:T4; [|lia].
    unfold is_cont.
    match goal with |- (if ?c then _ else _) = _ => destruct c eqn:T5 end.
    - rewrite E. cbv beta iota delta [bind]. f_equal. f_equal. lia.
    - exfalso.
      destruct (224 + c / 4096 =? 224) eqn:U1; destruct (224 + c / 4096 =? 237) eqn:U2;
        cbn [negb orb] in T5; lia. }
  destruct (c <? 1114112) eqn:E4; [|discriminate].
  apply Ok_inj in H; subst a. cbn [app]. rewrite utf8_dec_unfold.
  destruct (240 + c / 262144 <? 128) eqn:T1; [lia|].
  destruct (240 + c / 262144 <? 194) eqn:T2; [lia|].
  destruct (240 + c / 262144 <? 224) eqn:T3; [lia|].
  destruct (240 + c / 262144 <? 240) eqn:T4; [lia|].
  destruct (240 + c / 262144 <? 245) eqn:T5; [|lia].
  unfold is_cont.
  match goal with |- (if ?c then _ else _) = _ => destruct c eqn:T6 end.
  - rewrite E. cbv beta iota delta [bind]. f_equal. f_equal. lia.
  - exfalso.
    destruct (240 + c / 262144 =? 240) eqn:U1; destruct (240 + c / 262144 =? 244) eqn:U2;
      cbn [negb orb] in T6; lia.
Qed.

Lemma utf8_roundtrip cs bs : enc_chars utf8_enc1 cs = Ok bs -> utf8_dec bs = Ok cs.
Proof.
  revert bs. induction cs as [|c cs IH]; intros bs H.
  - injection H as <-. reflexivity.
  - cbn [enc_chars] in H.
    destruct (utf8_enc1 c) as [a|] eqn:E1; cbn [bind] in H; [|discriminate].
    destruct (enc_chars utf8_enc1 cs) as [b|] eqn:E2; cbn [bind] in H; [|discriminate].
    injection H as <-. apply (utf8_dec_one c a b cs E1). apply IH. reflexivity.
Qed.

(** * OBJECT IDENTIFIER contents *)
Lemma dec_subids_digits k : forall acc pending v rest,
  dec_subids acc pending (b128_digits (S k) v ++ rest) =
  (let* l := dec_subids 0 false rest in
   Ok ((acc * 128 ^ Z.of_nat k + v mod 128 ^ Z.of_nat (S k)) :: l)).
Proof.
  induction k as [|k IH]; intros acc pending v rest.
  - cbn [b128_digits app dec_subids].
    pose proof (Z.mod_pos_bound v 128 ltac:(lia)).
    destruct (128 <=? v mod 128) eqn:E; [lia|].
    change (128 ^ Z.of_nat 0) with 1. change (128 ^ Z.of_nat 1) with 128.
    destruct (dec_subids 0 false rest); cbn [bind]; [|reflexivity]. f_equal. f_equal. lia.
  - rewrite b128_digits_S. cbn [app dec_subids].
    pose proof (Z.mod_pos_bound (v / 128 ^ Z.of_nat (S k)) 128 ltac:(lia)).
    destruct (128 <=? 128 + (v / 128 ^ Z.of_nat (S k)) mod 128) eqn:E; [|lia].
    rewrite IH.
    destruct (dec_subids 0 false rest); cbn [bind]; [|reflexivity]. f_equal. f_equal.
    replace (128 + (v / 128 ^ Z.of_nat (S k)) mod 128 - 128) with ((v / 128 ^ Z.of_nat (S k)) mod 128) by lia.
    rewrite (Nat2Z.inj_succ (S k)), (Z.pow_succ_r 128 (Z.of_nat (S k))) by lia.
    rewrite (Z.mul_comm 128 (128 ^ Z.of_nat (S k))).
    rewrite (Z.rem_mul_r v (128 ^ Z.of_nat (S k)) 128) by lia.
    rewrite (Nat2Z.inj_succ k), (Z.pow_succ_r 128 (Z.of_nat k)) by lia.
    set (P := 128 ^ Z.of_nat k). set (Q := (v / (128 * P)) mod 128). set (R := v mod (128 * P)).
    ring.
Qed.

Lemma b128_len_spec v : 0 <= v -> v < 128 ^ b128_len v.
Proof.
  intros H. pose proof (b128_len_pos v).
  replace (128 ^ b128_len v) with (2 ^ (7 * b128_len v))
    by (rewrite Z.pow_mul_r by lia; reflexivity).
  apply (lt_pow2_le v (bit_length v)); [apply bit_length_spec; lia|].
  split; [apply bit_length_nonneg|]. unfold b128_len.
  pose proof (Z.div_mod (Z.max (bit_length v) 1 + 6) 7 ltac:(lia)).
  pose proof (Z.mod_pos_bound (Z.max (bit_length v) 1 + 6) 7 ltac:(lia)). lia.
Qed.

Lemma dec_subids_subid v rest : 0 <= v ->
  dec_subids 0 false (enc_subid v ++ rest) = (let* l := dec_subids 0 false rest in Ok (v :: l)).
Proof.
  intros H. unfold enc_subid. pose proof (b128_len_pos v). pose proof (b128_len_spec v H).
  destruct (Z.to_nat (b128_len v)) as [|k] eqn:Ek; [lia|].
  rewrite dec_subids_digits. rewrite <- Ek, Z2Nat.id by lia.
  rewrite Z.mod_small by lia. rewrite Z.mul_0_l, Z.add_0_l. reflexivity.
Qed.

Lemma enc_subid_nonempty v : enc_subid v <> [].
Proof.
  unfold enc_subid. pose proof (b128_len_pos v).
  destruct (Z.to_nat (b128_len v)) as [|[|k]] eqn:Ek; [lia| |]; discriminate.
Qed.

Lemma dec_subids_flat arcs : forallb (fun a => 0 <=? a) arcs = true ->
  dec_subids 0 false (flat_map enc_subid arcs) = Ok arcs.
Proof.
  induction arcs as [|a arcs IH]; intros H.
  - reflexivity.
  - cbn [forallb] in H. apply andb_prop in H. destruct H as [Ha H].
    cbn [flat_map]. rewrite dec_subids_subid by lia. rewrite IH by assumption. reflexivity.
Qed.

Lemma oid_roundtrip arcs bs : oid_ok arcs = true -> enc_oid arcs = Ok bs -> dec_oid bs = Ok arcs.
Proof.
  intros Hok H. unfold oid_ok in Hok. destruct arcs as [|a0 [|a1 rest]]; try discriminate.
  apply andb_prop in Hok. destruct Hok as [Hok H2]. apply andb_prop in Hok. destruct Hok as [Hpos H1].
  unfold enc_oid in H.
  destruct (existsb (fun a => a <? 0) (a0 :: a1 :: rest)) eqn:Eneg; [discriminate|].
  apply Ok_inj in H; subst bs.
  pose proof Hpos as Hpos'. cbn [forallb] in Hpos'.
  apply andb_prop in Hpos'. destruct Hpos' as [P0 Hpos']. apply andb_prop in Hpos'. destruct Hpos' as [P1 Prest].
  unfold dec_oid.
  destruct (enc_subid (40 * a0 + a1) ++ flat_map enc_subid rest) as [|x l] eqn:El.
  { apply app_eq_nil in El. destruct El as [El _]. destruct (enc_subid_nonempty _ El). }
  rewrite <- El. rewrite dec_subids_subid by lia. rewrite dec_subids_flat by assumption.
  cbn [bind]. destruct (40 * a0 + a1 <? 80) eqn:E80.
  - destruct (a0 =? 2) eqn:E2; [lia|]. cbn [orb] in H2.
    cbn [app]. f_equal. f_equal; [|f_equal]; lia.
  - destruct (a0 =? 2) eqn:E2; [|cbn [orb] in H2; lia].
    cbn [app]. f_equal. f_equal; [|f_equal]; lia.
Qed.

(** * Repetition *)
Fixpoint iter_n {St} (n : nat) (f : St -> result St) (s : St) : result St :=
  match n with O => Ok s | S k => let* s' := f s in iter_n k f s' end.

Lemma iter_n_add {St} (a b : nat) (f : St -> result St) s :
  iter_n (a + b) f s = (let* s' := iter_n a f s in iter_n b f s').
Proof.
  revert s. induction a as [|a IH]; intros s; [reflexivity|].
  cbn [Nat.add iter_n]. destruct (f s); cbn [bind]; [apply IH|reflexivity].
Qed.

Lemma rep_pos_iter {St} (p : positive) (f : St -> result St) s :
  rep_pos p f s = iter_n (Pos.to_nat p) f s.
Proof.
  revert s. induction p as [p IH|p IH|]; intros s; cbn [rep_pos].
  - rewrite Pos2Nat.inj_xI. cbn [iter_n].
    destruct (f s) as [s0|]; cbn [bind]; [|reflexivity].
    replace (2 * Pos.to_nat p)%nat with (Pos.to_nat p + Pos.to_nat p)%nat by lia.
    rewrite iter_n_add, IH. destruct (iter_n (Pos.to_nat p) f s0); cbn [bind]; [apply IH|reflexivity].
  - rewrite Pos2Nat.inj_xO.
    replace (2 * Pos.to_nat p)%nat with (Pos.to_nat p + Pos.to_nat p)%nat by lia.
    rewrite iter_n_add, IH. destruct (iter_n (Pos.to_nat p) f s); cbn [bind]; [apply IH|reflexivity].
  - change (Pos.to_nat 1) with 1%nat. cbn [iter_n]. destruct (f s); reflexivity.
Qed.

Lemma rep_n_iter {St} (n : nat) (f : St -> result St) s : rep_n (Z.of_nat n) f s = iter_n n f s.
Proof.
  destruct n as [|n]; [reflexivity|].
  unfold rep_n. rewrite <- (Nat2Z.id (S n)) at 2.
  destruct (Z.of_nat (S n)) eqn:E; try lia. rewrite rep_pos_iter. f_equal.
Qed.
