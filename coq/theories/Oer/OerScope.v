(** Definitions used in the statements about the OER model:
    [oer_norm] — the value the decoder returns for an encoded value (DEFAULT
    root members filled in, absent additions stay absent, unused bits of the
    last BIT STRING octet cleared);
    [oer_ok] — the decidable region in which the round-trip / truncation
    theorems are stated: a well-formedness condition on the types reached
    (distinct ENUMERATED numbers, distinct CHOICE tags) and on the value
    (BIT STRING data long enough, fixed sizes respected, OBJECT IDENTIFIER
    arcs legal), and the exclusion of the recorded finding region
    "UTF8String with a fixed SIZE". *)
From Asn1V Require Import Base.Prelude Syntax.Asn1 Oer.OerPrim Oer.OerImpl.
Open Scope Z_scope.

Fixpoint find_member (n : string) (ms : list (member_of ty)) : option (member_of ty) :=
  match ms with
  | [] => None
  | m :: r => if String.eqb n (m_name m) then Some m else find_member n r
  end.

Section Norm.
  Context (e : env) (rec : ty -> value -> value).

  Fixpoint norm_root (ms : list (member_of ty)) (fs : list (string * value)) : list (string * value) :=
    match ms with
    | [] => []
    | m :: ms' =>
      match lookup (m_name m) fs, m_opt m with
      | Some v, Default d =>
        (m_name m, if value_eqb v d then d else rec (m_ty m) v) :: norm_root ms' fs
      | Some v, _ => (m_name m, rec (m_ty m) v) :: norm_root ms' fs
      | None, Default d => (m_name m, d) :: norm_root ms' fs
      | None, _ => norm_root ms' fs
      end
    end.

  Fixpoint norm_adds (ms : list (member_of ty)) (fs : list (string * value)) : list (string * value) :=
    match ms with
    | [] => []
    | m :: ms' =>
      match lookup (m_name m) fs with
      | Some v => (m_name m, rec (m_ty m) v) :: norm_adds ms' fs
      | None => norm_adds ms' fs
      end
    end.

  Definition norm_step (t : ty) (v : value) : value :=
    match t, v with
    | TBits _ _, VBits data n =>
      match bits_payload data n with
      | Ok (payload, _, _) => VBits payload n
      | Err _ => v
      end
    | TSeq _ root ext, VSeq fs =>
      VSeq (norm_root root fs ++
            match ext with Some adds => norm_adds (flat_adds adds) fs | None => [] end)
    | TSeqOf _ t' _, VList vs => VList (map (rec t') vs)
    | TChoice root ext, VChoice n v' =>
      match find_member n (root ++ match ext with Some x => x | None => [] end) with
      | Some m => VChoice n (rec (m_ty m) v')
      | None => v
      end
    | TRef n, _ => match lookup n e with Some t' => rec t' v | None => v end
    | TTag _ t', _ => rec t' v
    | _, _ => v
    end.
End Norm.

Fixpoint oer_norm (fuel : nat) (e : env) (t : ty) (v : value) : value :=
  match fuel with
  | O => v
  | S f => norm_step e (oer_norm f e) t v
  end.

(** * The region *)
Fixpoint nodup_z (l : list Z) : bool :=
  match l with
  | [] => true
  | x :: r => negb (existsb (Z.eqb x) r) && nodup_z r
  end.

Fixpoint nodup_tags (l : list (list Z)) : bool :=
  match l with
  | [] => true
  | x :: r => negb (existsb (zlist_eqb x) r) && nodup_tags r
  end.

Definition size_ok (sz : size) (n : Z) : bool :=
  match fixed_size sz with Some s => s =? n | None => true end.

Definition bits_ok (sz : size) (data : list Z) (n : Z) : bool :=
  (0 <=? n) && (negb (n mod 8 =? 0) || (n / 8 <=? Z.of_nat (length data))) && size_ok sz n.

Definition tags_of (alts : list (option (list Z) * member_of ty)) : list (list Z) :=
  flat_map (fun a => match fst a with Some t => [t] | None => [] end) alts.

Section Ok.
  Context (numeric : bool) (e : env) (rec : ty -> value -> bool).

  Fixpoint ok_root (ms : list (member_of ty)) (fs : list (string * value)) : bool :=
    match ms with
    | [] => true
    | m :: ms' =>
      match lookup (m_name m) fs, m_opt m with
      | Some v, Default d => (value_eqb v d || rec (m_ty m) v) && ok_root ms' fs
      | Some v, _ => rec (m_ty m) v && ok_root ms' fs
      | None, _ => ok_root ms' fs
      end
    end.

  Fixpoint ok_adds (ms : list (member_of ty)) (fs : list (string * value)) : bool :=
    match ms with
    | [] => true
    | m :: ms' =>
      match lookup (m_name m) fs with
      | Some v => rec (m_ty m) v && ok_adds ms' fs
      | None => ok_adds ms' fs
      end
    end.

  Definition ok_choice (root : list (member_of ty)) (ext : option (list (member_of ty)))
             (n : string) (v : value) : bool :=
    let auto := choice_auto root ext in
    let extl := match ext with Some x => x | None => [] end in
    let alts := alt_tags auto 0 root ++ alt_tags auto (Z.of_nat (length root)) extl in
    nodup_tags (tags_of alts) &&
    negb (existsb (fun a => match fst a with None => true | Some _ => false end) alts) &&
    forallb (fun m => match m_ty m with TTag tg _ => 0 <=? t_num tg | _ => true end) (root ++ extl) &&
    match find_member n (root ++ extl) with
    | Some m => rec (m_ty m) v
    | None => false
    end.

  Definition ok_step (t : ty) (v : value) : bool :=
    match t, v with
    | TBool, VBool _ => true
    | TNull, VNone => true
    | TInt _, VInt _ => true
    | TEnum root ext, _ => numeric || nodup_z (map snd (enum_items root ext))
    | TBits _ sz, VBits data n => bits_ok sz data n
    | TOctets sz, VBytes bs => size_ok sz (Z.of_nat (length bs))
    | TStr SkUTF8 sz _, VStr _ => match fixed_size sz with Some _ => false | None => true end
    | TStr _ sz _, VStr cs => size_ok sz (Z.of_nat (length cs))
    | TOid, VOid arcs => oid_ok arcs
    | TSeq _ root ext, VSeq fs =>
      ok_root root fs && match ext with Some adds => ok_adds (flat_adds adds) fs | None => true end
    | TSeqOf _ t' _, VList vs => forallb (rec t') vs
    | TChoice root ext, VChoice n v' => ok_choice root ext n v'
    | TRef n, _ => match lookup n e with Some t' => rec t' v | None => false end
    | TTag _ t', _ => rec t' v
    | _, _ => false
    end.
End Ok.

Fixpoint oer_ok (numeric : bool) (fuel : nat) (e : env) (t : ty) (v : value) : bool :=
  match fuel with
  | O => false
  | S f => ok_step numeric e (oer_ok numeric f e) t v
  end.
