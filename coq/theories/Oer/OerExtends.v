(** C07 for the OER model as ONE inductive statement: version 2 of a type is
    version 1 plus extension additions at any number of extensible nodes, at
    any depth (SEQUENCE/SET additions and groups, CHOICE alternatives,
    ENUMERATED items after the marker; inside SEQUENCE/SET components,
    SEQUENCE OF/SET OF elements, CHOICE alternatives, tagged types and
    through type references in two environments).

    [oext e1 e2 f t1 t2]    the relation, a decidable boolean;
    [oview]                 the version-1 view of a version-2 value;
    [oer_forward]           version 1 decodes every version-2 encoding (in
                            scope [oer_ok] at version 2), followed by any tail,
                            to the view and consumes exactly the encoding;
    [oer_backward]          version 2 decodes every version-1 encoding to the
                            value the version-1 decoder returns;
    [oer_forward_truncation], [oer_backward_truncation]
                            every strict prefix of the encoding is a decode
                            error for the other version too;
    [oproj], [ostrict], [oview_proj], [oer_forward_proj], [oer_forward_commutes]
                            the view is the projection [oproj] of what version 2
                            itself decodes, when component names are distinct
                            and DEFAULT values are their own projections
                            ([ostrict], a decidable boolean).
    The hypotheses are shown necessary by the [_refuted] examples of
    OerExtendsEx.v, which also has the inhabitant [oextends_inhabited].

    Route: the two-sided component lemmas of sections [Cross], [CrossChoice],
    [CrossList] (one version encodes, the other decodes, given the statement
    for the component types) generalise [good_root], [good_adds], [good_seq],
    [good_choice], [good_list] of OerProofs.v and the one-node lemmas of
    OerExt.v ([loop_pres_app], [loop_ms_app], [good_skip] are reused); the
    theorems are an induction on the fuel over the pair of types.

    Addition groups are flattened by the library (finding
    oer-addition-groups-flattened, OerFindings.v) and by the model; the
    relation compares additions structurally (single with single, group with
    group), the proofs use only the flattened lists. *)
From Asn1V Require Import Base.Prelude Syntax.Asn1.
From Asn1V Require Import Oer.OerPrim Oer.OerImpl Oer.OerScope.
From Asn1V Require Import Oer.OerPrimProofs Oer.OerPrimProofs2 Oer.OerProofs Oer.OerExt.
Open Scope Z_scope.

(** * Boolean equality of the parts that must not change *)
Definition optz_eqb (a b : option Z) : bool :=
  match a, b with Some x, Some y => x =? y | None, None => true | _, _ => false end.

Definition size_eqb (a b : size) : bool :=
  match a, b with
  | SzNone, SzNone => true
  | SzRange l h x, SzRange l' h' x' => (l =? l') && optz_eqb h h' && Bool.eqb x x'
  | _, _ => false
  end.

Definition intc_eqb (a b : intc) : bool :=
  match a, b with
  | IcNone, IcNone => true
  | IcRange l h x, IcRange l' h' x' => optz_eqb l l' && optz_eqb h h' && Bool.eqb x x'
  | _, _ => false
  end.

Definition strkind_eqb (a b : strkind) : bool :=
  match a, b with
  | SkIA5, SkIA5 | SkVisible, SkVisible | SkNumeric, SkNumeric | SkPrintable, SkPrintable
  | SkUTF8, SkUTF8 | SkBMP, SkBMP | SkGeneral, SkGeneral | SkGraphic, SkGraphic
  | SkTeletex, SkTeletex | SkUniversal, SkUniversal | SkObjectDescriptor, SkObjectDescriptor => true
  | _, _ => false
  end.

Fixpoint items_eqb (a b : list (string * Z)) : bool :=
  match a, b with
  | [], [] => true
  | (n, z) :: a', (m, y) :: b' => String.eqb n m && (z =? y) && items_eqb a' b'
  | _, _ => false
  end.

(** [a] is a prefix of [b] *)
Fixpoint items_prefixb (a b : list (string * Z)) : bool :=
  match a, b with
  | [], _ => true
  | (n, z) :: a', (m, y) :: b' => String.eqb n m && (z =? y) && items_prefixb a' b'
  | _ :: _, [] => false
  end.

Definition optitems_eqb (a b : option (list (string * Z))) : bool :=
  match a, b with Some x, Some y => items_eqb x y | None, None => true | _, _ => false end.

Definition optzlist_eqb (a b : option (list Z)) : bool :=
  match a, b with Some x, Some y => zlist_eqb x y | None, None => true | _, _ => false end.

Definition tclass_eqb (a b : tclass) : bool :=
  match a, b with Univ, Univ | Appl, Appl | Ctx, Ctx | Priv, Priv => true | _, _ => false end.

Definition tag_eqb (a b : tag) : bool :=
  tclass_eqb (t_class a) (t_class b) && (t_num a =? t_num b) && Bool.eqb (t_explicit a) (t_explicit b).

Definition opt_eqb (a b : optionality) : bool :=
  match a, b with
  | Mandatory, Mandatory => true
  | Optional, Optional => true
  | Default x, Default y => value_eqb x y
  | _, _ => false
  end.

(** the types without components: equal *)
Definition leaf_eqb (t1 t2 : ty) : bool :=
  match t1, t2 with
  | TBool, TBool => true
  | TNull, TNull => true
  | TInt c1, TInt c2 => intc_eqb c1 c2
  | TBits n1 s1, TBits n2 s2 => optitems_eqb n1 n2 && size_eqb s1 s2
  | TOctets s1, TOctets s2 => size_eqb s1 s2
  | TStr k1 s1 a1, TStr k2 s2 a2 => strkind_eqb k1 k2 && size_eqb s1 s2 && optzlist_eqb a1 a2
  | TOid, TOid => true
  | _, _ => false
  end.

Definition is_leaf (t : ty) : bool :=
  match t with
  | TSeq _ _ _ | TSeqOf _ _ _ | TChoice _ _ | TEnum _ _ | TRef _ | TTag _ _ => false
  | _ => true
  end.

Lemma optz_eqb_eq a b : optz_eqb a b = true -> a = b.
Proof. destruct a, b; cbn; try discriminate; intros H; [f_equal; lia|reflexivity]. Qed.

Lemma size_eqb_eq a b : size_eqb a b = true -> a = b.
Proof.
  destruct a, b; cbn [size_eqb]; try discriminate; [reflexivity|]. intros H.
  apply andb_prop in H. destruct H as [H H3]. apply andb_prop in H. destruct H as [H1 H2].
  apply optz_eqb_eq in H2. apply Bool.eqb_prop in H3. subst. f_equal. lia.
Qed.

Lemma intc_eqb_eq a b : intc_eqb a b = true -> a = b.
Proof.
  destruct a, b; cbn [intc_eqb]; try discriminate; [reflexivity|]. intros H.
  apply andb_prop in H. destruct H as [H H3]. apply andb_prop in H. destruct H as [H1 H2].
  apply optz_eqb_eq in H1. apply optz_eqb_eq in H2. apply Bool.eqb_prop in H3. subst. reflexivity.
Qed.

Lemma strkind_eqb_eq a b : strkind_eqb a b = true -> a = b.
Proof. destruct a, b; cbn; try discriminate; reflexivity. Qed.

Lemma items_eqb_eq a : forall b, items_eqb a b = true -> a = b.
Proof.
  induction a as [|[n z] a IH]; intros [|[m y] b]; cbn [items_eqb]; try discriminate; [reflexivity|].
  intros H. apply andb_prop in H. destruct H as [H H3]. apply andb_prop in H. destruct H as [H1 H2].
  apply String.eqb_eq in H1. rewrite (IH _ H3). subst. f_equal. f_equal. lia.
Qed.

Lemma items_prefixb_split a : forall b, items_prefixb a b = true -> exists new, b = a ++ new.
Proof.
  induction a as [|[n z] a IH]; intros b; cbn [items_prefixb].
  - intros _. exists b. reflexivity.
  - destruct b as [|[m y] b]; [discriminate|]. intros H.
    apply andb_prop in H. destruct H as [H H3]. apply andb_prop in H. destruct H as [H1 H2].
    apply String.eqb_eq in H1. destruct (IH _ H3) as [new ->]. exists new. subst. cbn [app]. f_equal. f_equal. lia.
Qed.

Lemma tclass_eqb_eq a b : tclass_eqb a b = true -> a = b.
Proof. destruct a, b; cbn; try discriminate; reflexivity. Qed.

Lemma tag_eqb_eq a b : tag_eqb a b = true -> a = b.
Proof.
  destruct a as [c n x], b as [c' n' x']. unfold tag_eqb. cbn [t_class t_num t_explicit]. intros H.
  apply andb_prop in H. destruct H as [H H3]. apply andb_prop in H. destruct H as [H1 H2].
  apply tclass_eqb_eq in H1. apply Bool.eqb_prop in H3. subst. f_equal. lia.
Qed.

Lemma opt_eqb_eq a b : opt_eqb a b = true -> a = b.
Proof.
  destruct a, b; cbn [opt_eqb]; try discriminate; try reflexivity.
  intros H. f_equal. apply value_eqb_eq. exact H.
Qed.

Lemma leaf_eqb_eq t1 t2 : leaf_eqb t1 t2 = true -> t1 = t2 /\ is_leaf t1 = true.
Proof.
  destruct t1, t2; cbn [leaf_eqb is_leaf]; try discriminate; intros H; (split; [|reflexivity]); try reflexivity.
  - f_equal. apply intc_eqb_eq. exact H.
  - apply andb_prop in H. destruct H as [H1 H2]. apply size_eqb_eq in H2. subst. f_equal.
    destruct named, named0; cbn [optitems_eqb] in H1; try discriminate; [|reflexivity].
    f_equal. apply items_eqb_eq. exact H1.
  - f_equal. apply size_eqb_eq. exact H.
  - apply andb_prop in H. destruct H as [H H3]. apply andb_prop in H. destruct H as [H1 H2].
    apply strkind_eqb_eq in H1. apply size_eqb_eq in H2. subst. f_equal.
    destruct alpha, alpha0; cbn [optzlist_eqb] in H3; try discriminate; [|reflexivity].
    f_equal. apply value_eqb_zlist. exact H3.
Qed.

(** * Pairwise boolean relations on lists *)
Fixpoint forall2b {A B} (R : A -> B -> bool) (l1 : list A) (l2 : list B) : bool :=
  match l1, l2 with
  | [], [] => true
  | x :: r1, y :: r2 => R x y && forall2b R r1 r2
  | _, _ => false
  end.

(** [l1] is pairwise related to a prefix of [l2] *)
Fixpoint prefix2b {A B} (R : A -> B -> bool) (l1 : list A) (l2 : list B) : bool :=
  match l1, l2 with
  | [], _ => true
  | x :: r1, y :: r2 => R x y && prefix2b R r1 r2
  | _ :: _, [] => false
  end.

Lemma forall2b_Forall2 {A B} (R : A -> B -> bool) (P : B -> A -> Prop) l1 :
  (forall x y, R x y = true -> P y x) ->
  forall l2, forall2b R l1 l2 = true -> Forall2 P l2 l1.
Proof.
  intros HR. induction l1 as [|x r1 IH]; intros [|y r2]; cbn [forall2b]; try discriminate.
  - constructor.
  - intros H. apply andb_prop in H. destruct H as [H1 H2]. constructor; auto.
Qed.

Lemma prefix2b_split {A B} (R : A -> B -> bool) l1 :
  forall l2, prefix2b R l1 l2 = true -> exists c new, l2 = c ++ new /\ forall2b R l1 c = true.
Proof.
  induction l1 as [|x r1 IH]; intros l2; cbn [prefix2b].
  - intros _. exists [], l2. split; reflexivity.
  - destruct l2 as [|y r2]; [discriminate|]. intros H. apply andb_prop in H. destruct H as [H1 H2].
    destruct (IH _ H2) as (c & new & -> & Hc). exists (y :: c), new. split; [reflexivity|].
    cbn [forall2b]. rewrite H1, Hc. reflexivity.
Qed.

Lemma Forall2_flip {A B} (R : A -> B -> Prop) l1 l2 :
  Forall2 R l1 l2 -> Forall2 (fun y x => R x y) l2 l1.
Proof. intros F. induction F; constructor; auto. Qed.

Lemma Forall2_length {A B} (R : A -> B -> Prop) l1 l2 : Forall2 R l1 l2 -> length l1 = length l2.
Proof. intros F. induction F; cbn [length]; congruence. Qed.

Lemma Forall2_app' {A B} (R : A -> B -> Prop) a1 b1 a2 b2 :
  Forall2 R a1 b1 -> Forall2 R a2 b2 -> Forall2 R (a1 ++ a2) (b1 ++ b2).
Proof. intros F1 F2. induction F1; cbn [app]; [exact F2|constructor; assumption]. Qed.

Definition olist {A} (o : option (list A)) : list A := match o with Some l => l | None => [] end.

(** both tagged with the same tag, or both untagged (a tag on a component is
    what the CHOICE and SET code looks at) *)
Definition same_outerb (t1 t2 : ty) : bool :=
  match t1, t2 with
  | TTag g1 _, TTag g2 _ => tag_eqb g1 g2
  | TTag _ _, _ | _, TTag _ _ => false
  | _, _ => true
  end.

(** * The relation *)
Section Rel.
  Variables e1 e2 : env.    (* the environments of version 1 and of version 2 *)

  (** components: same name, same optionality (including the DEFAULT value),
      same outermost tag, related types *)
  Definition mrelb (R : ty -> ty -> bool) (m1 m2 : member_of ty) : bool :=
    String.eqb (m_name m1) (m_name m2) && opt_eqb (m_opt m1) (m_opt m2) &&
    same_outerb (m_ty m1) (m_ty m2) && R (m_ty m1) (m_ty m2).

  (** additions: both single or both groups, members pairwise related *)
  Definition arelb (R : ty -> ty -> bool) (x1 x2 : addition_of ty) : bool :=
    Bool.eqb (fst x1) (fst x2) && forall2b (mrelb R) (snd x1) (snd x2).

  (** every alternative of the CHOICE has tag octets in the model
      (AUTOMATIC numbering, or every alternative tagged) *)
  Definition choice_tagged (root : list (member_of ty)) (ext : option (list (member_of ty))) : bool :=
    let auto := choice_auto root ext in
    negb (existsb (fun a => match fst a with None => true | Some _ => false end)
                  (alt_tags auto 0 root ++ alt_tags auto (Z.of_nat (length root)) (olist ext))).

  (** [oext f t1 t2]: [t2] is [t1] with extension additions appended at any
      number of nodes (down to depth [f]).
      - leaves: identical;
      - SEQUENCE/SET: root components pairwise related; the additions of [t1]
        pairwise related to a prefix of the additions of [t2]; a marker in one
        version iff in the other;
      - CHOICE: likewise for root and additional alternatives; the tagging
        mode is the same and every alternative of [t2] has a tag in the model;
      - ENUMERATED: same root, the additional items of [t1] a prefix of those
        of [t2];
      - SEQUENCE OF/SET OF: same SIZE, related elements;
      - references: same name, the two environments' definitions related;
      - tagged types: same tag, related inner types. *)
  Fixpoint oext (f : nat) (t1 t2 : ty) {struct f} : bool :=
    match f with
    | O => true
    | S f' =>
      match t1, t2 with
      | TSeq s1 r1 x1, TSeq s2 r2 x2 =>
        Bool.eqb s1 s2 && forall2b (mrelb (oext f')) r1 r2 &&
        match x1, x2 with
        | None, None => true
        | Some a1, Some a2 => prefix2b (arelb (oext f')) a1 a2
        | _, _ => false
        end
      | TSeqOf s1 el1 sz1, TSeqOf s2 el2 sz2 => Bool.eqb s1 s2 && size_eqb sz1 sz2 && oext f' el1 el2
      | TChoice r1 x1, TChoice r2 x2 =>
        forall2b (mrelb (oext f')) r1 r2 &&
        Bool.eqb (choice_auto r1 x1) (choice_auto r2 x2) && choice_tagged r2 x2 &&
        match x1, x2 with
        | None, None => true
        | Some a1, Some a2 => prefix2b (mrelb (oext f')) a1 a2
        | _, _ => false
        end
      | TEnum r1 x1, TEnum r2 x2 =>
        items_eqb r1 r2 &&
        match x1, x2 with
        | None, None => true
        | Some a1, Some a2 => items_prefixb a1 a2
        | _, _ => false
        end
      | TRef n1, TRef n2 =>
        String.eqb n1 n2 &&
        match lookup n1 e1, lookup n2 e2 with
        | Some a, Some b => oext f' a b
        | _, _ => false
        end
      | TTag g1 a, TTag g2 b => tag_eqb g1 g2 && oext f' a b
      | _, _ => leaf_eqb t1 t2
      end
    end.
End Rel.

Lemma same_outer_tagged a b : same_outerb a b = true -> is_tagged a = is_tagged b.
Proof. destruct a, b; cbn [same_outerb is_tagged]; try discriminate; reflexivity. Qed.

Lemma alt_tag_rel auto i a b : same_outerb a b = true -> alt_tag auto i a = alt_tag auto i b.
Proof.
  unfold alt_tag. destruct auto; [reflexivity|].
  destruct a, b; cbn [same_outerb]; try discriminate; try reflexivity.
  intros H. apply tag_eqb_eq in H. subst. reflexivity.
Qed.

Lemma find_tag_app_l tg a b m : find_tag tg a = Some m -> find_tag tg (a ++ b) = Some m.
Proof.
  induction a as [|[[tg'|] m'] a IH]; cbn [app find_tag]; [discriminate| |exact IH].
  destruct (zlist_eqb tg tg'); [auto|exact IH].
Qed.

Lemma find_tag_app_none tg a b : find_tag tg a = None -> find_tag tg (a ++ b) = find_tag tg b.
Proof.
  induction a as [|[[tg'|] m'] a IH]; cbn [app find_tag]; [reflexivity| |exact IH].
  destruct (zlist_eqb tg tg'); [discriminate|exact IH].
Qed.

(** * Two-sided component lemmas: one version encodes, the other decodes *)
Fixpoint find_alt2 (n : string) (mse msd : list (member_of ty)) : option (member_of ty * member_of ty) :=
  match mse, msd with
  | me :: re, md :: rd => if String.eqb n (m_name me) then Some (me, md) else find_alt2 n re rd
  | _, _ => None
  end.

Section CrossDefs.
  Variable nm : ty -> ty -> value -> value.   (* encoder-side type, decoder-side type *)

  Fixpoint nroot (mse msd : list (member_of ty)) (fs : list (string * value)) : list (string * value) :=
    match mse, msd with
    | me :: re, md :: rd =>
      match lookup (m_name me) fs, m_opt me with
      | Some v, Default d =>
        (m_name me, if value_eqb v d then d else nm (m_ty me) (m_ty md) v) :: nroot re rd fs
      | Some v, _ => (m_name me, nm (m_ty me) (m_ty md) v) :: nroot re rd fs
      | None, Default d => (m_name me, d) :: nroot re rd fs
      | None, _ => nroot re rd fs
      end
    | _, _ => []
    end.

  Fixpoint nadds (ce cd : list (member_of ty)) (fs : list (string * value)) : list (string * value) :=
    match ce, cd with
    | me :: re, md :: rd =>
      match lookup (m_name me) fs with
      | Some v => (m_name me, nm (m_ty me) (m_ty md) v) :: nadds re rd fs
      | None => nadds re rd fs
      end
    | _, _ => []
    end.

  Definition nchoice (root_e root_d ce cd : list (member_of ty)) (n : string) (v : value) : value :=
    match find_alt2 n root_e root_d with
    | Some (me, md) => VChoice n (nm (m_ty me) (m_ty md) v)
    | None =>
      match find_alt2 n ce cd with
      | Some (me, md) => VChoice n (nm (m_ty me) (m_ty md) v)
      | None => VUnknownChoice
      end
    end.
End CrossDefs.

Notation isnone := (fun a : option (list Z) * member_of ty => match fst a with None => true | Some _ => false end).

Section Cross.
  Variables (encr : ty -> value -> result (list Z)) (okr : ty -> value -> bool).
  Variable decr : ty -> dec value.
  Variable R : ty -> ty -> Prop.              (* encoder-side type, decoder-side type *)
  Variable nm : ty -> ty -> value -> value.   (* what the decoder returns *)
  Hypothesis IH : forall te td v bs,
      R te td -> okr te v = true -> encr te v = Ok bs -> good (decr td) bs (nm te td v).

  Definition mrel (me md : member_of ty) : Prop :=
    m_name me = m_name md /\ m_opt me = m_opt md /\
    same_outerb (m_ty me) (m_ty md) = true /\ R (m_ty me) (m_ty md).

  Lemma xtagged mse msd : Forall2 mrel mse msd ->
    existsb (fun m => is_tagged (m_ty m)) mse = existsb (fun m => is_tagged (m_ty m)) msd.
  Proof.
    intros F. induction F as [|me md re rd (_ & _ & Ht & _) F IHf]; [reflexivity|].
    cbn [existsb]. rewrite (same_outer_tagged _ _ Ht), IHf. reflexivity.
  Qed.

  Lemma xgood_root mse msd : Forall2 mrel mse msd -> forall fs bits body,
    ok_root okr mse fs = true -> enc_root encr mse fs = Ok (bits, body) ->
    good (dec_root decr msd bits) body (nroot nm mse msd fs) /\
    length bits = length (filter is_optional_member msd).
  Proof.
    intros F. induction F as [|me md re rd (Hn & Ho & _ & HR) F IHms]; intros fs bits body Hok H.
    - cbn [enc_root] in H. inv_eq H. split; [apply good_ret|reflexivity].
    - cbn [enc_root ok_root nroot dec_root filter] in *. unfold is_optional_member at 1.
      rewrite <- Ho, <- Hn.
      destruct (lookup (m_name me) fs) as [v|] eqn:El; destruct (m_opt me) as [| |d] eqn:Eo.
      + apply andb_prop in Hok. destruct Hok as [Hv Hok].
        bind_inv H b Eb. bind_inv H r Er. destruct r as [bits' body']. inv_eq H.
        destruct (IHms _ _ _ Hok Er) as [G L]. split; [|exact L].
        eapply good_bind; [eapply IH; eassumption|].
        eapply good_bind_ret_eq; [exact G|reflexivity].
      + apply andb_prop in Hok. destruct Hok as [Hv Hok].
        bind_inv H b Eb. bind_inv H r Er. destruct r as [bits' body']. inv_eq H.
        destruct (IHms _ _ _ Hok Er) as [G L]. split; [|cbn [length]; congruence].
        eapply good_bind; [eapply IH; eassumption|].
        eapply good_bind_ret_eq; [exact G|reflexivity].
      + apply andb_prop in Hok. destruct Hok as [Hv Hok].
        destruct (value_eqb v d) eqn:Ed.
        * bind_inv H r Er. destruct r as [bits' body']. inv_eq H.
          destruct (IHms _ _ _ Hok Er) as [G L]. split; [|cbn [length]; congruence].
          eapply good_bind_ret_eq; [exact G|reflexivity].
        * cbn [orb] in Hv.
          bind_inv H b Eb. bind_inv H r Er. destruct r as [bits' body']. inv_eq H.
          destruct (IHms _ _ _ Hok Er) as [G L]. split; [|cbn [length]; congruence].
          eapply good_bind; [eapply IH; eassumption|].
          eapply good_bind_ret_eq; [exact G|reflexivity].
      + discriminate.
      + bind_inv H r Er. destruct r as [bits' body']. inv_eq H.
        destruct (IHms _ _ _ Hok Er) as [G L]. split; [|cbn [length]; congruence]. exact G.
      + bind_inv H r Er. destruct r as [bits' body']. inv_eq H.
        destruct (IHms _ _ _ Hok Er) as [G L]. split; [|cbn [length]; congruence].
        eapply good_bind_ret_eq; [exact G|reflexivity].
  Qed.

  Lemma xgood_adds ce cd : Forall2 mrel ce cd -> forall fs pres es tl,
    ok_adds okr ce fs = true -> enc_adds encr ce fs = Ok (pres, es) -> concat_open es = Ok tl ->
    good (dec_adds_loop decr cd pres) tl (nadds nm ce cd fs) /\ length pres = length cd.
  Proof.
    intros F. induction F as [|me md re rd (Hn & Ho & _ & HR) F IHms]; intros fs pres es tl Hok H Hc.
    - cbn [enc_adds] in H. inv_eq H. cbn [concat_open] in Hc. inv_eq Hc.
      split; [apply good_ret|reflexivity].
    - cbn [enc_adds ok_adds nadds] in *.
      destruct (lookup (m_name me) fs) as [v|] eqn:El.
      + apply andb_prop in Hok. destruct Hok as [Hv Hok].
        bind_inv H b Eb. bind_inv H r Er. destruct r as [pres' es']. inv_eq H.
        cbn [concat_open] in Hc. bind_inv Hc w Ew. bind_inv Hc ws Ews. inv_eq Hc.
        unfold wrap_open in Ew. bind_inv Ew ld Eld. inv_eq Ew.
        destruct (IHms _ _ _ _ Hok Er Ews) as [G L]. split; [|cbn [length]; congruence].
        cbn [dec_adds_loop]. rewrite <- app_assoc, <- Hn.
        eapply good_bind; [apply (good_len (Z.of_nat (length b))); [lia|exact Eld]|].
        eapply good_bind; [eapply IH; eassumption|].
        eapply good_bind_ret_eq; [exact G|reflexivity].
      + bind_inv H r Er. destruct r as [pres' es']. inv_eq H.
        destruct (IHms _ _ _ _ Hok Er Hc) as [G L]. split; [|cbn [length]; congruence].
        cbn [dec_adds_loop]. exact G.
  Qed.

  Lemma xenc_adds_none ce : forall cd fs pres,
    enc_adds encr ce fs = Ok (pres, []) -> nadds nm ce cd fs = [].
  Proof.
    induction ce as [|m ms IHms]; intros cd fs pres H; [reflexivity|].
    destruct cd as [|md rd]; [reflexivity|].
    cbn [enc_adds nadds] in *. destruct (lookup (m_name m) fs) as [v|].
    - bind_inv H b Eb. bind_inv H r Er. destruct r as [pres' es']. inv_eq H. discriminate.
    - bind_inv H r Er. destruct r as [pres' es']. inv_eq H. eapply IHms. exact Er.
  Qed.

  Lemma ok_adds_app a b fs : ok_adds okr (a ++ b) fs = true -> ok_adds okr a fs = true /\ ok_adds okr b fs = true.
  Proof.
    induction a as [|m a IHa]; cbn [app ok_adds]; [auto|].
    destruct (lookup (m_name m) fs); [|auto]. intros H.
    apply andb_prop in H. destruct H as [Hv H]. destruct (IHa H). rewrite Hv. auto.
  Qed.

  (** the encoder knows the additions [ce ++ ne], the decoder those related to [ce] *)
  Lemma xgood_seq_fwd re rd adds_e adds_d ce ne fs bs :
    Forall2 mrel re rd -> flat_adds adds_e = ce ++ ne -> Forall2 mrel ce (flat_adds adds_d) ->
    ok_root okr re fs = true -> ok_adds okr (flat_adds adds_e) fs = true ->
    enc_seq encr re (Some adds_e) fs = Ok bs ->
    good (dec_seq decr rd (Some adds_d)) bs
         (VSeq (nroot nm re rd fs ++ nadds nm ce (flat_adds adds_d) fs)).
  Proof.
    intros Fr Hfl Fa Hr Ha H. unfold enc_seq in H. bind_inv H r Er. destruct r as [bits body].
    destruct (xgood_root re rd Fr fs bits body Hr Er) as [G L]. unfold dec_seq.
    rewrite Hfl in *. set (cd := flat_adds adds_d) in *.
    pose proof (Forall2_length _ _ _ Fa) as Lcd.
    destruct (ok_adds_app _ _ _ Ha) as [Ha1 Ha2].
    assert (Hpre : forall x, good (dec_bits (1 + Z.of_nat (length (filter is_optional_member rd))))
                                  (pack_bits (x :: bits)) (x :: bits)).
    { intros x. apply good_bits'. cbn [length]. lia. }
    rewrite enc_adds_app in H.
    destruct (enc_adds encr ce fs) as [[pres1 es1]|] eqn:E1.
    2:{ destruct (ce ++ ne) eqn:Ef; [|discriminate].
        apply app_eq_nil in Ef. destruct Ef as [Ef1 _]. rewrite Ef1 in E1. discriminate. }
    destruct (enc_adds encr ne fs) as [[pres2 es2]|] eqn:E2.
    2:{ destruct (ce ++ ne) eqn:Ef; [|discriminate].
        apply app_eq_nil in Ef. destruct Ef as [_ Ef2]. rewrite Ef2 in E2. discriminate. }
    cbn [bind fst snd] in H.
    assert (Hnone : es1 = [] -> es2 = [] ->
              bs = pack_bits (false :: bits) ++ body ->
              good (dlet bits0 := dec_bits (1 + Z.of_nat (length (filter is_optional_member rd)))
                    in match bits0 with
                       | [] => dfail EUnmodelled
                       | x :: bits' =>
                         dlet fs0 := dec_root decr rd bits'
                         in (if x then dlet afs := dec_adds decr cd in dret (VSeq (fs0 ++ afs))
                             else dret (VSeq fs0))
                       end) bs
                   (VSeq (nroot nm re rd fs ++ nadds nm ce cd fs))).
    { intros -> _ ->. rewrite (xenc_adds_none ce cd fs pres1 E1). rewrite app_nil_r.
      eapply good_bind; [apply Hpre|]. eapply good_bind_ret_eq; [exact G|reflexivity]. }
    destruct (ce ++ ne) as [|m0 fl] eqn:Ef.
    { apply app_eq_nil in Ef. destruct Ef as [Ef1 Ef2]. rewrite Ef1 in E1. rewrite Ef2 in E2.
      cbn [enc_adds] in E1, E2. inv_eq E1. inv_eq E2. inv_eq H. apply Hnone; reflexivity. }
    rewrite <- Ef in *.
    destruct (es1 ++ es2) as [|e0 es'] eqn:Ees.
    { apply app_eq_nil in Ees. destruct Ees as [-> ->]. inv_eq H. apply Hnone; reflexivity. }
    rewrite <- Ees in *. bind_inv H ld Eld. bind_inv H tlb Etl. inv_eq H.
    rewrite concat_open_app in Etl. bind_inv Etl tl1 Et1. bind_inv Etl tl2 Et2. inv_eq Etl.
    destruct (xgood_adds ce cd Fa fs pres1 es1 tl1 Ha1 E1 Et1) as [GA LA].
    pose proof (good_skip encr decr ne fs pres2 es2 tl2 E2 Et2) as GS.
    pose proof (enc_adds_len encr ne fs pres2 es2 E2) as LB.
    eapply good_bind; [apply Hpre|]. cbv beta iota.
    eapply good_bind; [exact G|].
    set (n := Z.of_nat (length (ce ++ ne))) in *.
    assert (Hn : 0 <= n) by (unfold n; lia).
    eapply good_bind_nil; [|apply good_ret].
    unfold dec_adds.
    eapply good_bind; [apply (good_len ((n + 7) / 8 + 1)); [lia|exact Eld]|].
    apply (good_bind dec_byte _ [(- n) mod 8] (pack_bits (pres1 ++ pres2) ++ tl1 ++ tl2) ((- n) mod 8));
      [apply good_byte|].
    rewrite (bitmap_arith n Hn).
    eapply good_bind; [apply good_bits'; unfold n; rewrite !app_length; lia|].
    eapply (good_ext (dlet fs1 := dec_adds_loop decr cd pres1 in
                      dlet fs2 := dec_adds_loop decr [] pres2 in dret (fs1 ++ fs2))).
    { intros l. rewrite (loop_pres_app encr decr cd pres1 pres2 l LA). unfold dbind, dret.
      destruct (dec_adds_loop decr cd pres1 l) as [[a r]|]; [|reflexivity].
      destruct (dec_adds_loop decr [] pres2 r) as [[b r']|]; reflexivity. }
    eapply good_bind; [exact GA|].
    eapply (good_bind_ret_eq _ (fun fs2 => nadds nm ce cd fs ++ fs2)); [exact GS|apply app_nil_r].
  Qed.

  (** the encoder knows the additions [ce], the decoder [cd ++ nd] with [cd] related to [ce] *)
  Lemma xgood_seq_bwd re rd adds_e adds_d cd nd fs bs :
    Forall2 mrel re rd -> flat_adds adds_d = cd ++ nd -> Forall2 mrel (flat_adds adds_e) cd ->
    ok_root okr re fs = true -> ok_adds okr (flat_adds adds_e) fs = true ->
    enc_seq encr re (Some adds_e) fs = Ok bs ->
    good (dec_seq decr rd (Some adds_d)) bs
         (VSeq (nroot nm re rd fs ++ nadds nm (flat_adds adds_e) cd fs)).
  Proof.
    intros Fr Hfl Fa Hr Ha H. unfold enc_seq in H. bind_inv H r Er. destruct r as [bits body].
    destruct (xgood_root re rd Fr fs bits body Hr Er) as [G L]. unfold dec_seq.
    rewrite Hfl. set (ce := flat_adds adds_e) in *.
    pose proof (Forall2_length _ _ _ Fa) as Lcd.
    assert (Hpre : forall x, good (dec_bits (1 + Z.of_nat (length (filter is_optional_member rd))))
                                  (pack_bits (x :: bits)) (x :: bits)).
    { intros x. apply good_bits'. cbn [length]. lia. }
    assert (Hnone : nadds nm ce cd fs = [] ->
              good (dlet bits0 := dec_bits (1 + Z.of_nat (length (filter is_optional_member rd)))
                    in match bits0 with
                       | [] => dfail EUnmodelled
                       | x :: bits' =>
                         dlet fs0 := dec_root decr rd bits'
                         in (if x then dlet afs := dec_adds decr (cd ++ nd) in dret (VSeq (fs0 ++ afs))
                             else dret (VSeq fs0))
                       end)
                   (pack_bits (false :: bits) ++ body)
                   (VSeq (nroot nm re rd fs ++ nadds nm ce cd fs))).
    { intros ->. rewrite app_nil_r. eapply good_bind; [apply Hpre|].
      eapply good_bind_ret_eq; [exact G|reflexivity]. }
    destruct ce as [|a0 ce'] eqn:Ef.
    - inv_eq H. apply Hnone. reflexivity.
    - rewrite <- Ef in *. bind_inv H r2 Er2. destruct r2 as [pres es].
      destruct es as [|e0 es'].
      + inv_eq H. apply Hnone. eapply xenc_adds_none. exact Er2.
      + bind_inv H ld Eld. bind_inv H tlb Etl. inv_eq H.
        destruct (xgood_adds ce cd Fa _ _ _ _ Ha Er2 Etl) as [GA LA].
        eapply good_bind; [apply Hpre|]. cbv beta iota.
        eapply good_bind; [exact G|].
        set (n := Z.of_nat (length ce)) in *.
        assert (Hn : 0 <= n) by (unfold n; lia).
        eapply good_bind_nil; [|apply good_ret].
        unfold dec_adds.
        eapply good_bind; [apply (good_len ((n + 7) / 8 + 1)); [lia|exact Eld]|].
        apply (good_bind dec_byte _ [(- n) mod 8] (pack_bits pres ++ tlb) ((- n) mod 8)); [apply good_byte|].
        rewrite (bitmap_arith n Hn).
        eapply good_bind; [apply good_bits'; unfold n; lia|].
        eapply good_ext; [intros l; symmetry; apply (loop_ms_app encr decr cd nd pres l LA)|]. exact GA.
  Qed.

  Lemma xgood_seq_none re rd fs bs :
    Forall2 mrel re rd -> ok_root okr re fs = true ->
    enc_seq encr re None fs = Ok bs ->
    good (dec_seq decr rd None) bs (VSeq (nroot nm re rd fs)).
  Proof.
    intros Fr Hr H. unfold enc_seq in H. bind_inv H r Er. destruct r as [bits body].
    destruct (xgood_root re rd Fr fs bits body Hr Er) as [G L]. unfold dec_seq. inv_eq H.
    eapply good_bind; [apply good_bits'; lia|].
    eapply good_bind_ret_eq; [exact G|reflexivity].
  Qed.
End Cross.

Section CrossChoice.
  Variables (encr : ty -> value -> result (list Z)) (okr : ty -> value -> bool).
  Variable decr : ty -> dec value.
  Variable R : ty -> ty -> Prop.
  Variable nm : ty -> ty -> value -> value.
  Hypothesis IH : forall te td v bs,
      R te td -> okr te v = true -> encr te v = Ok bs -> good (decr td) bs (nm te td v).
  Let mrel := mrel R.

  Lemma tags_of_rel auto mse msd : Forall2 mrel mse msd ->
    forall i, tags_of (alt_tags auto i mse) = tags_of (alt_tags auto i msd).
  Proof.
    intros F. induction F as [|me md re rd (_ & _ & Ht & _) F IHf]; intros i; [reflexivity|].
    cbn [alt_tags]. unfold tags_of in *. cbn [flat_map fst]. rewrite (alt_tag_rel auto i _ _ Ht), IHf. reflexivity.
  Qed.

  Lemma has_none_rel auto mse msd : Forall2 mrel mse msd ->
    forall i, existsb isnone (alt_tags auto i mse) = existsb isnone (alt_tags auto i msd).
  Proof.
    intros F. induction F as [|me md re rd (_ & _ & Ht & _) F IHf]; intros i; [reflexivity|].
    cbn [alt_tags existsb fst]. rewrite (alt_tag_rel auto i _ _ Ht), IHf. reflexivity.
  Qed.

  Lemma find_alt2_none auto n mse : forall msd i,
    find_alt n (alt_tags auto i mse) = None -> find_alt2 n mse msd = None.
  Proof.
    induction mse as [|me re IHm]; intros msd i H; [reflexivity|].
    destruct msd as [|md rd]; [reflexivity|].
    cbn [alt_tags find_alt find_alt2] in *. cbn [snd] in H.
    destruct (String.eqb n (m_name me)); [discriminate|]. eapply IHm. exact H.
  Qed.

  Lemma find_pair auto n mse msd : Forall2 mrel mse msd -> forall i tg me,
    nodup_tags (tags_of (alt_tags auto i mse)) = true ->
    find_alt n (alt_tags auto i mse) = Some (Some tg, me) ->
    exists md, find_tag tg (alt_tags auto i msd) = Some md /\
               find_alt2 n mse msd = Some (me, md) /\ mrel me md /\ m_name me = n.
  Proof.
    intros F. induction F as [|me0 md0 re rd Hm F IHf]; intros i tg me Hnd H;
      cbn [alt_tags find_alt] in H; [discriminate|].
    cbn [snd] in H. cbn [alt_tags find_tag find_alt2].
    pose proof Hm as (_ & _ & Ht & _). rewrite <- (alt_tag_rel auto i _ _ Ht).
    destruct (String.eqb n (m_name me0)) eqn:En.
    - assert (alt_tag auto i (m_ty me0) = Some tg /\ me0 = me) as [Etg <-] by (split; congruence).
      rewrite Etg, zlist_eqb_refl. exists md0.
      split; [reflexivity|]. split; [reflexivity|]. split; [exact Hm|].
      symmetry. apply String.eqb_eq. exact En.
    - cbn [alt_tags] in Hnd. unfold tags_of in Hnd. cbn [flat_map fst] in Hnd.
      fold (tags_of (alt_tags auto (i + 1) re)) in Hnd.
      destruct (find_alt_some _ _ _ _ _ _ H) as [_ Hin]. pose proof (in_tags_of _ _ _ Hin) as Hin'.
      destruct (alt_tag auto i (m_ty me0)) as [tg0|].
      + cbn [app nodup_tags] in Hnd. apply andb_prop in Hnd. destruct Hnd as [Hx Hnd].
        apply negb_true_iff in Hx.
        destruct (zlist_eqb tg tg0) eqn:Ez.
        * exfalso. apply value_eqb_zlist in Ez. subst tg0. exact (existsb_zlist_in _ _ Hx Hin').
        * apply IHf; assumption.
      + cbn [app] in Hnd. apply IHf; assumption.
  Qed.

  (** the encoder knows the additional alternatives [ce ++ ne], the decoder
      [cd ++ nd] with [cd] related to [ce]; one of [ne], [nd] is empty *)
  Lemma xgood_choice root_e ext_e root_d ext_d ce ne cd nd n v bs :
    Forall2 mrel root_e root_d -> Forall2 mrel ce cd ->
    olist ext_e = ce ++ ne -> olist ext_d = cd ++ nd ->
    (ne = [] \/ (nd = [] /\ ext_d <> None)) ->
    choice_auto root_e ext_e = choice_auto root_d ext_d ->
    existsb isnone (alt_tags (choice_auto root_d ext_d)
                             (Z.of_nat (length root_d) + Z.of_nat (length cd)) nd) = false ->
    ok_choice okr root_e ext_e n v = true ->
    enc_choice encr root_e ext_e n v = Ok bs ->
    good (dec_choice decr root_d ext_d) bs (nchoice nm root_e root_d ce cd n v).
  Proof.
    intros Fr Fc He Hd Hcase Hauto Hndn Hok H.
    unfold ok_choice in Hok. unfold enc_choice in H. unfold dec_choice. cbv zeta in Hok, H. cbv zeta.
    change (match ext_e with Some x => x | None => [] end) with (olist ext_e) in *.
    change (match ext_d with Some x => x | None => [] end) with (olist ext_d).
    rewrite <- Hauto in *. set (auto := choice_auto root_e ext_e) in *.
    rewrite He in *. rewrite Hd.
    pose proof (Forall2_length _ _ _ Fr) as Lr. pose proof (Forall2_length _ _ _ Fc) as Lc.
    rewrite <- Lr in *.
    set (L := Z.of_nat (length root_e)) in *.
    rewrite !alt_tags_app in *. rewrite <- Lc in *.
    set (Re := alt_tags auto 0 root_e) in *. set (Ce := alt_tags auto L ce) in *.
    set (Ne := alt_tags auto (L + Z.of_nat (length ce)) ne) in *.
    set (Rd := alt_tags auto 0 root_d) in *. set (Cd := alt_tags auto L cd) in *.
    set (Nd := alt_tags auto (L + Z.of_nat (length ce)) nd) in *.
    apply andb_prop in Hok. destruct Hok as [Hok Hm].
    apply andb_prop in Hok. destruct Hok as [Hok Hnum].
    apply andb_prop in Hok. destruct Hok as [Hnd Hall].
    apply negb_true_iff in Hall. rewrite !existsb_app in Hall.
    apply orb_false_iff in Hall. destruct Hall as [Hall1 Hall2].
    apply orb_false_iff in Hall2. destruct Hall2 as [Hall2 Hall3].
    assert (Hdall : existsb isnone (Rd ++ Cd ++ Nd) = false).
    { rewrite !existsb_app. unfold Rd, Cd. rewrite <- (has_none_rel auto _ _ Fr), <- (has_none_rel auto _ _ Fc).
      fold Re Ce. rewrite Hall1, Hall2, Hndn. reflexivity. }
    rewrite Hdall.
    rewrite !tags_of_app in Hnd. destruct (nodup_tags_app _ _ Hnd) as [Nr [Nce Dis]].
    destruct (nodup_tags_app _ _ Nce) as [Nc [Nn Dis2]].
    rewrite !forallb_app in Hnum. apply andb_prop in Hnum. destruct Hnum as [Hnr Hnum].
    apply andb_prop in Hnum. destruct Hnum as [Hnc Hnn].
    assert (TR : tags_of Rd = tags_of Re) by (symmetry; apply tags_of_rel; exact Fr).
    assert (TC : tags_of Cd = tags_of Ce) by (symmetry; apply tags_of_rel; exact Fc).
    assert (HL : 0 <= L) by (unfold L; lia).
    rewrite !find_member_app in Hm. unfold nchoice.
    destruct (find_alt n Re) as [[[tg|] me]|] eqn:Ef.
    - destruct (find_pair auto n _ _ Fr 0 tg me Nr Ef) as (md & Ft & F2 & (Hn' & _ & _ & HR) & Hname).
      destruct (find_alt_some _ _ _ _ _ _ Ef) as [Fm Hin]. rewrite Fm in Hm. rewrite F2.
      bind_inv H b Eb. inv_eq H.
      destruct (alt_tag_valid auto root_e 0 tg me ltac:(lia) Hnr Hin) as [num [fl [-> [Hnn' Hfl]]]].
      eapply good_bind; [apply good_tag; assumption|].
      fold Rd in Ft. rewrite Ft.
      eapply good_bind_ret_eq; [eapply IH; eassumption|]. rewrite <- Hn', Hname. reflexivity.
    - discriminate.
    - rewrite (find_alt_none _ _ _ _ Ef) in Hm.
      rewrite (find_alt2_none auto n root_e root_d 0 Ef).
      rewrite find_alt_app in H.
      destruct (find_alt n Ce) as [[[tg|] me]|] eqn:Ef2.
      + destruct (find_pair auto n _ _ Fc L tg me Nc Ef2) as (md & Ft & F2 & (Hn' & _ & _ & HR) & Hname).
        destruct (find_alt_some _ _ _ _ _ _ Ef2) as [Fm Hin]. rewrite Fm in Hm. rewrite F2.
        bind_inv H b Eb. bind_inv H w Ew. inv_eq H.
        unfold wrap_open in Ew. bind_inv Ew ld Eld. inv_eq Ew.
        destruct (alt_tag_valid auto ce L tg me HL Hnc Hin) as [num [fl [-> [Hnn' Hfl]]]].
        eapply good_bind; [apply good_tag; assumption|].
        fold Rd. rewrite (find_tag_notin _ Rd).
        2:{ rewrite TR. intros Hc. apply (Dis _ Hc). apply in_or_app. left. apply (in_tags_of _ me). exact Hin. }
        fold Cd in Ft. rewrite (find_tag_app_l _ _ Nd _ Ft).
        eapply good_bind; [apply (good_len (Z.of_nat (length b))); [lia|exact Eld]|].
        eapply good_bind_ret_eq; [eapply IH; eassumption|]. rewrite <- Hn', Hname. reflexivity.
      + discriminate.
      + rewrite (find_alt_none _ _ _ _ Ef2) in Hm.
        rewrite (find_alt2_none auto n ce cd L Ef2).
        destruct (find_alt n Ne) as [[[tg|] me]|] eqn:Ef3; try discriminate.
        destruct Hcase as [Hne|[Hnd0 Hext]].
        { exfalso. unfold Ne in Ef3. rewrite Hne in Ef3. discriminate. }
        destruct (find_alt_some _ _ _ _ _ _ Ef3) as [Fm Hin].
        bind_inv H b Eb. bind_inv H w Ew. inv_eq H.
        unfold wrap_open in Ew. bind_inv Ew ld Eld. inv_eq Ew.
        destruct (alt_tag_valid auto ne (L + Z.of_nat (length ce)) tg me ltac:(lia) Hnn Hin)
          as [num [fl [-> [Hnn' Hfl]]]].
        eapply good_bind; [apply good_tag; assumption|].
        fold Rd. rewrite (find_tag_notin _ Rd).
        2:{ rewrite TR. intros Hc. apply (Dis _ Hc). apply in_or_app. right. apply (in_tags_of _ me). exact Hin. }
        unfold Nd. rewrite Hnd0. cbn [alt_tags]. rewrite app_nil_r.
        rewrite (find_tag_notin _ Cd).
        2:{ rewrite TC. intros Hc. apply (Dis2 _ Hc). apply (in_tags_of _ me). exact Hin. }
        destruct ext_d as [xd|]; [|congruence].
        eapply good_bind; [apply (good_len (Z.of_nat (length b))); [lia|exact Eld]|].
        eapply good_bind_ret_eq; [apply good_take|reflexivity].
  Qed.
End CrossChoice.

(** SEQUENCE OF / SET OF: element types [te] (encoder) and [td] (decoder) *)
Section CrossList.
  Variables (encr : ty -> value -> result (list Z)) (okr : ty -> value -> bool).
  Variable decr : ty -> dec value.
  Variables te td : ty.
  Variable nmv : value -> value.
  Hypothesis IHel : forall v bs, okr te v = true -> encr te v = Ok bs -> good (decr td) bs (nmv v).

  Lemma xgood_list_loop vs : forall bs acc,
    forallb (okr te) vs = true -> enc_list encr te vs = Ok bs ->
    (forall tail, iter_n (length vs) (dec_elem decr td) (acc, bs ++ tail)
                  = Ok (rev (map nmv vs) ++ acc, tail)) /\
    (forall p, strict_prefix p bs -> dec_err (iter_n (length vs) (dec_elem decr td) (acc, p))).
  Proof.
    induction vs as [|v vs IHvs]; intros bs acc Hok H.
    - cbn [enc_list] in H. inv_eq H. split; [reflexivity|].
      intros p Hp. destruct (strict_prefix_nil _ Hp).
    - cbn [enc_list forallb] in *. apply andb_prop in Hok. destruct Hok as [Hv Hok].
      bind_inv H b Eb. bind_inv H bs' Ebs. inv_eq H.
      destruct (IHel _ _ Hv Eb) as [G1 G2].
      split.
      + intros tail. cbn [length iter_n]. unfold dec_elem at 1. cbn [fst snd].
        rewrite <- app_assoc, G1. cbn [bind].
        destruct (IHvs _ (nmv v :: acc) Hok eq_refl) as [L1 _]. rewrite L1.
        cbn [map rev]. rewrite <- app_assoc. reflexivity.
      + intros p Hp. cbn [length iter_n]. unfold dec_elem at 1. cbn [fst snd].
        destruct (strict_prefix_app _ _ _ Hp) as [Hp1|[q [-> Hq]]].
        * destruct (G2 p Hp1) as [x [-> Hx]]. exists x. auto.
        * rewrite G1. cbn [bind].
          destruct (IHvs _ (nmv v :: acc) Hok eq_refl) as [_ L2]. apply L2. exact Hq.
  Qed.

  Lemma xgood_list vs bs :
    forallb (okr te) vs = true ->
    (let* q := enc_uint_var (Z.of_nat (length vs)) in
     let* b := enc_list encr te vs in Ok (q ++ b)) = Ok bs ->
    good (dec_list decr td) bs (VList (map nmv vs)).
  Proof.
    intros Hok H. bind_inv H q Equ. bind_inv H b Eb. inv_eq H.
    unfold dec_list. eapply good_bind; [eapply good_uint_var; [|exact Equ]; lia|].
    destruct (xgood_list_loop vs b [] Hok Eb) as [L1 L2]. split.
    - intros tail. rewrite rep_n_iter, L1. rewrite <- rev_alt, app_nil_r, rev_involutive. reflexivity.
    - intros p Hp. rewrite rep_n_iter. destruct (L2 p Hp) as [x [-> Hx]]. exists x. auto.
  Qed.
End CrossList.

(** * ENUMERATED with further items after the marker *)

(** what a decoder that knows the items [items1] reports *)
Definition oproj_enum (items1 : list (string * Z)) (v : value) : value :=
  match v with
  | VInt z => match find_name z items1 with Some _ => v | None => VNone end
  | VEnum n => match find_num n items1 with Some _ => v | None => VNone end
  | _ => v
  end.

Lemma nodup_z_app_l l1 l2 : nodup_z (l1 ++ l2) = true -> nodup_z l1 = true.
Proof.
  induction l1 as [|x l1 IH]; cbn [app nodup_z]; [reflexivity|]. intros H.
  apply andb_prop in H. destruct H as [Hx H]. rewrite (IH H), andb_true_r.
  apply negb_true_iff in Hx. apply negb_true_iff. rewrite existsb_app in Hx.
  apply orb_false_iff in Hx. tauto.
Qed.

Lemma xgood_enum_fwd numeric root a1 new v bs :
  numeric || nodup_z (map snd (enum_items root (Some (a1 ++ new)))) = true ->
  enc_enum numeric root (Some (a1 ++ new)) v = Ok bs ->
  good (dec_enum numeric root (Some a1)) bs (oproj_enum (root ++ a1) v).
Proof.
  intros Hok H. unfold enc_enum in H.
  apply (good_ext (dbind dec_enum_value
                         (fun z' => match find_name z' (enum_items root (Some a1)) with
                                    | Some n => dret (if numeric then VInt z' else VEnum n)
                                    | None => dret VNone
                                    end))).
  { intros l. unfold dec_enum_value, dec_enum. apply dbind_assoc. }
  unfold enum_items in *. rewrite app_assoc in H, Hok.
  destruct v; try discriminate; destruct numeric; try discriminate; cbn [oproj_enum].
  - destruct (find_name z ((root ++ a1) ++ new)) eqn:E; [|discriminate].
    eapply good_bind_nil; [apply good_enum_value; exact H|].
    destruct (find_name z (root ++ a1)); apply good_ret.
  - cbn [orb] in Hok.
    destruct (find_num name ((root ++ a1) ++ new)) as [z|] eqn:E; [|discriminate].
    eapply good_bind_nil; [apply good_enum_value; exact H|].
    rewrite find_num_app in E. rewrite map_app in Hok.
    destruct (find_num name (root ++ a1)) as [z'|] eqn:E1.
    + assert (z' = z) by congruence. subst z'.
      rewrite (find_name_num _ _ _ (nodup_z_app_l _ _ Hok) E1). apply good_ret.
    + rewrite find_name_notin; [apply good_ret|].
      apply (nodup_z_app _ _ Hok). eapply find_num_in. exact E.
Qed.

Lemma xgood_enum_bwd numeric root a1 new v bs :
  numeric || nodup_z (map snd (enum_items root (Some a1))) = true ->
  enc_enum numeric root (Some a1) v = Ok bs ->
  good (dec_enum numeric root (Some (a1 ++ new))) bs v.
Proof.
  intros Hok H. unfold enc_enum in H.
  apply (good_ext (dbind dec_enum_value
                         (fun z' => match find_name z' (enum_items root (Some (a1 ++ new))) with
                                    | Some n => dret (if numeric then VInt z' else VEnum n)
                                    | None => dret VNone
                                    end))).
  { intros l. unfold dec_enum_value, dec_enum. apply dbind_assoc. }
  unfold enum_items in *.
  destruct v; try discriminate; destruct numeric; try discriminate.
  - destruct (find_name z (root ++ a1)) eqn:E; [|discriminate].
    eapply good_bind_nil; [apply good_enum_value; exact H|].
    cbv beta. rewrite app_assoc, find_name_app, E. apply good_ret.
  - cbn [orb] in Hok.
    destruct (find_num name (root ++ a1)) as [z|] eqn:E; [|discriminate].
    eapply good_bind_nil; [apply good_enum_value; exact H|].
    cbv beta. rewrite app_assoc, find_name_app, (find_name_num _ _ _ Hok E). apply good_ret.
Qed.

(** * From the boolean relation to the component relations *)
Lemma same_outerb_sym a b : same_outerb a b = true -> same_outerb b a = true.
Proof.
  destruct a, b; cbn [same_outerb]; try discriminate; try reflexivity.
  intros H. apply tag_eqb_eq in H. subst. unfold tag_eqb.
  destruct tg0 as [c n x]. cbn [t_class t_num t_explicit].
  rewrite Z.eqb_refl, Bool.eqb_reflx. destruct c; reflexivity.
Qed.

Lemma forall2b_Forall2' {A B} (R : A -> B -> bool) (P : A -> B -> Prop) l1 :
  (forall x y, R x y = true -> P x y) ->
  forall l2, forall2b R l1 l2 = true -> Forall2 P l1 l2.
Proof.
  intros HR. induction l1 as [|x r1 IH]; intros [|y r2]; cbn [forall2b]; try discriminate.
  - constructor.
  - intros H. apply andb_prop in H. destruct H as [H1 H2]. constructor; auto.
Qed.

Lemma flat_adds_cons (x : addition_of ty) r : flat_adds (x :: r) = snd x ++ flat_adds r.
Proof. reflexivity. Qed.

Lemma flat_rel_swap (Rb : ty -> ty -> bool) (P : member_of ty -> member_of ty -> Prop) a1 :
  (forall x y, mrelb Rb x y = true -> P y x) ->
  forall c2, forall2b (arelb Rb) a1 c2 = true -> Forall2 P (flat_adds c2) (flat_adds a1).
Proof.
  intros HP. induction a1 as [|x1 r1 IH]; intros [|x2 r2]; cbn [forall2b]; try discriminate.
  - constructor.
  - intros H. apply andb_prop in H. destruct H as [H1 H2]. unfold arelb in H1.
    apply andb_prop in H1. destruct H1 as [_ H1]. rewrite !flat_adds_cons.
    apply Forall2_app'; [apply (forall2b_Forall2 _ _ _ HP _ H1)|apply IH; exact H2].
Qed.

Lemma flat_rel (Rb : ty -> ty -> bool) (P : member_of ty -> member_of ty -> Prop) a1 :
  (forall x y, mrelb Rb x y = true -> P x y) ->
  forall c2, forall2b (arelb Rb) a1 c2 = true -> Forall2 P (flat_adds a1) (flat_adds c2).
Proof.
  intros HP. induction a1 as [|x1 r1 IH]; intros [|x2 r2]; cbn [forall2b]; try discriminate.
  - constructor.
  - intros H. apply andb_prop in H. destruct H as [H1 H2]. unfold arelb in H1.
    apply andb_prop in H1. destruct H1 as [_ H1]. rewrite !flat_adds_cons.
    apply Forall2_app'; [apply (forall2b_Forall2' _ _ _ HP _ H1)|apply IH; exact H2].
Qed.

Lemma nadds_app_l nm ce : forall cd ne fs,
  length ce = length cd -> nadds nm (ce ++ ne) cd fs = nadds nm ce cd fs.
Proof.
  induction ce as [|me re IH]; intros [|md rd] ne fs H; cbn [length] in H; try discriminate.
  - cbn [app nadds]. destruct ne; reflexivity.
  - cbn [app nadds]. rewrite (IH rd) by lia. reflexivity.
Qed.

Lemma nadds_app_r nm ce : forall cd nd fs,
  length ce = length cd -> nadds nm ce (cd ++ nd) fs = nadds nm ce cd fs.
Proof.
  induction ce as [|me re IH]; intros [|md rd] nd fs H; cbn [length] in H; try discriminate.
  - reflexivity.
  - cbn [app nadds]. rewrite (IH rd) by lia. reflexivity.
Qed.

Lemma find_alt2_app_l n ce : forall cd ne,
  length ce = length cd -> find_alt2 n (ce ++ ne) cd = find_alt2 n ce cd.
Proof.
  induction ce as [|me re IH]; intros [|md rd] ne H; cbn [length] in H; try discriminate.
  - cbn [app find_alt2]. destruct ne; reflexivity.
  - cbn [app find_alt2]. rewrite (IH rd) by lia. reflexivity.
Qed.

Lemma find_alt2_app_r n ce : forall cd nd,
  length ce = length cd -> find_alt2 n ce (cd ++ nd) = find_alt2 n ce cd.
Proof.
  induction ce as [|me re IH]; intros [|md rd] nd H; cbn [length] in H; try discriminate.
  - reflexivity.
  - cbn [app find_alt2]. rewrite (IH rd) by lia. reflexivity.
Qed.

(** * The version-1 view of a version-2 value *)
Section View.
  Variables e1 e2 : env.

  (** [oview f t1 t2 v]: what version 1 (type [t1], environment [e1]) sees of
      the value [v] of version 2 (type [t2], environment [e2]): components it
      does not know are dropped, DEFAULT root components are filled in, an
      alternative it does not know is [VUnknownChoice] (the tuple (None,
      None)), an item it does not know is [VNone]; leaves are normalised as
      the decoder does (unused bits of a BIT STRING cleared). *)
  Fixpoint oview (f : nat) (t1 t2 : ty) (v : value) {struct f} : value :=
    match f with
    | O => v
    | S f' =>
      let nm := fun te td : ty => oview f' td te in
      match t1, t2 with
      | TSeq _ r1 x1, TSeq _ r2 x2 =>
        match v with
        | VSeq fs =>
          VSeq (nroot nm r2 r1 fs ++ nadds nm (flat_adds (olist x2)) (flat_adds (olist x1)) fs)
        | _ => v
        end
      | TSeqOf _ el1 _, TSeqOf _ el2 _ =>
        match v with VList vs => VList (map (oview f' el1 el2) vs) | _ => v end
      | TChoice r1 x1, TChoice r2 x2 =>
        match v with
        | VChoice n v' => nchoice nm r2 r1 (olist x2) (olist x1) n v'
        | _ => v
        end
      | TEnum r1 x1, TEnum _ _ =>
        match x1 with Some a1 => oproj_enum (r1 ++ a1) v | None => v end
      | TRef n1, TRef n2 =>
        match lookup n1 e1, lookup n2 e2 with
        | Some a, Some b => oview f' a b v
        | _, _ => v
        end
      | TTag _ a, TTag _ b => oview f' a b v
      | _, _ => norm_step e2 (fun _ w => w) t2 v
      end
    end.
End View.

Lemma oext_leaf e1 e2 f t1 t2 : is_leaf t1 = true -> oext e1 e2 (S f) t1 t2 = leaf_eqb t1 t2.
Proof. destruct t1; try discriminate; intros _; destruct t2; reflexivity. Qed.

Lemma oview_leaf e1 e2 f t v :
  is_leaf t = true -> oview e1 e2 (S f) t t v = norm_step e2 (fun _ w => w) t v.
Proof. destruct t; try discriminate; intros _; reflexivity. Qed.

Lemma leaf_good numeric e1 e2 f t v bs :
  is_leaf t = true -> oer_ok numeric (S f) e2 t v = true -> oer_encode numeric (S f) e2 t v = Ok bs ->
  good (oer_dec numeric (S f) e1 t) bs (norm_step e2 (fun _ w => w) t v).
Proof.
  intros Hl Hok H. pose proof (oer_good numeric e2 (S f) t v bs Hok H) as G.
  destruct t; try discriminate Hl; exact G.
Qed.

(** * Forward: version 2 encodes, version 1 decodes *)
Lemma mrelb_swap (Rb : ty -> ty -> bool) (R : ty -> ty -> Prop) :
  (forall a b, Rb a b = true -> R b a) ->
  forall x y, mrelb Rb x y = true -> mrel R y x.
Proof.
  intros HR x y H. unfold mrelb in H.
  apply andb_prop in H. destruct H as [H H4]. apply andb_prop in H. destruct H as [H H3].
  apply andb_prop in H. destruct H as [H1 H2].
  apply String.eqb_eq in H1. apply opt_eqb_eq in H2.
  repeat split; [congruence|congruence|apply same_outerb_sym; exact H3|apply HR; exact H4].
Qed.

Lemma mrelb_mrel (Rb : ty -> ty -> bool) (R : ty -> ty -> Prop) :
  (forall a b, Rb a b = true -> R a b) ->
  forall x y, mrelb Rb x y = true -> mrel R x y.
Proof.
  intros HR x y H. unfold mrelb in H.
  apply andb_prop in H. destruct H as [H H4]. apply andb_prop in H. destruct H as [H H3].
  apply andb_prop in H. destruct H as [H1 H2].
  apply String.eqb_eq in H1. apply opt_eqb_eq in H2.
  repeat split; [congruence|congruence|exact H3|apply HR; exact H4].
Qed.

Theorem oer_forward_good numeric e1 e2 : forall f t1 t2 v bs,
  oext e1 e2 f t1 t2 = true ->
  oer_ok numeric f e2 t2 v = true -> oer_encode numeric f e2 t2 v = Ok bs ->
  good (oer_dec numeric f e1 t1) bs (oview e1 e2 f t1 t2 v).
Proof.
  induction f as [|f IHf]; intros t1 t2 v bs Hx Hok H; [discriminate|].
  pose (R := fun te td : ty => oext e1 e2 f td te = true).
  pose (nm := fun te td : ty => oview e1 e2 f td te).
  assert (IH : forall te td v bs, R te td -> oer_ok numeric f e2 te v = true ->
                 oer_encode numeric f e2 te v = Ok bs -> good (oer_dec numeric f e1 td) bs (nm te td v))
    by (intros; apply IHf; assumption).
  assert (Hmr : forall x y, mrelb (oext e1 e2 f) x y = true -> mrel R y x)
    by (apply mrelb_swap; intros a b Hab; exact Hab).
  destruct (is_leaf t1) eqn:Hl.
  { rewrite (oext_leaf _ _ _ _ _ Hl) in Hx. destruct (leaf_eqb_eq _ _ Hx) as [<- _].
    rewrite (oview_leaf _ _ _ _ _ Hl). apply leaf_good; assumption. }
  destruct t1; try discriminate Hl; destruct t2; cbn [oext leaf_eqb] in Hx; try discriminate Hx.
  - (* ENUMERATED *)
    apply andb_prop in Hx. destruct Hx as [Hr Hx]. apply items_eqb_eq in Hr. subst root0.
    cbn [oer_ok ok_step oer_encode enc_step oer_dec dec_step oview] in *.
    destruct ext as [a1|], ext0 as [a2|]; try discriminate Hx.
    + destruct (items_prefixb_split _ _ Hx) as [new ->]. eapply xgood_enum_fwd; eassumption.
    + apply good_enum; assumption.
  - (* SEQUENCE / SET *)
    apply andb_prop in Hx. destruct Hx as [Hx Hxa]. apply andb_prop in Hx. destruct Hx as [Hs Hr].
    apply Bool.eqb_prop in Hs. subst isset0.
    pose proof (forall2b_Forall2 _ _ _ Hmr _ Hr) as Fr.
    destruct v; try (destruct isset; cbn [oer_encode enc_step] in H; discriminate).
    cbn [oer_ok ok_step] in Hok. apply andb_prop in Hok. destruct Hok as [Hor Hoa].
    cbn [oview]. fold nm.
    destruct ext as [a1|], ext0 as [a2|]; try discriminate Hxa.
    + destruct (prefix2b_split _ _ _ Hxa) as (c2 & new & -> & Hc).
      pose proof (flat_rel_swap _ _ _ Hmr _ Hc) as Fa.
      cbn [olist]. rewrite flat_adds_app, (nadds_app_l _ _ _ _ _ (Forall2_length _ _ _ Fa)).
      destruct isset; cbn [oer_encode enc_step oer_dec dec_step] in *.
      * rewrite <- (xtagged R _ _ Fr).
        destruct (existsb (fun m => is_tagged (m_ty m)) root0); [discriminate|].
        eapply (xgood_seq_fwd _ _ _ R nm IH); [exact Fr|apply flat_adds_app|exact Fa|exact Hor|exact Hoa|exact H].
      * eapply (xgood_seq_fwd _ _ _ R nm IH); [exact Fr|apply flat_adds_app|exact Fa|exact Hor|exact Hoa|exact H].
    + cbn [olist flat_adds flat_map nadds]. rewrite app_nil_r.
      destruct isset; cbn [oer_encode enc_step oer_dec dec_step] in *.
      * rewrite <- (xtagged R _ _ Fr).
        destruct (existsb (fun m => is_tagged (m_ty m)) root0); [discriminate|].
        eapply (xgood_seq_none _ _ _ R nm IH); eassumption.
      * eapply (xgood_seq_none _ _ _ R nm IH); eassumption.
  - (* SEQUENCE OF / SET OF *)
    apply andb_prop in Hx. destruct Hx as [_ Hel].
    destruct v; cbn [oer_encode enc_step oer_ok ok_step] in *; try discriminate.
    cbn [oer_dec dec_step oview].
    apply (xgood_list (oer_encode numeric f e2) (oer_ok numeric f e2) (oer_dec numeric f e1) t2 t1
             (oview e1 e2 f t1 t2)); [|exact Hok|exact H].
    intros v0 bs0 Hv0 H0. apply IHf; assumption.
  - (* CHOICE *)
    apply andb_prop in Hx. destruct Hx as [Hx Hxa]. apply andb_prop in Hx. destruct Hx as [Hx Htg].
    apply andb_prop in Hx. destruct Hx as [Hr Hau]. apply Bool.eqb_prop in Hau.
    pose proof (forall2b_Forall2 _ _ _ Hmr _ Hr) as Fr.
    destruct v; cbn [oer_encode enc_step oer_ok ok_step] in *; try discriminate.
    cbn [oer_dec dec_step oview]. fold nm.
    destruct ext as [a1|], ext0 as [a2|]; try discriminate Hxa.
    + destruct (prefix2b_split _ _ _ Hxa) as (c2 & new & -> & Hc).
      pose proof (forall2b_Forall2 _ _ _ Hmr _ Hc) as Fc.
      cbn [olist]. unfold nchoice. rewrite (find_alt2_app_l _ _ _ _ (Forall2_length _ _ _ Fc)).
      apply (xgood_choice _ _ _ R nm IH root0 (Some (c2 ++ new)) root (Some a1) c2 new a1 []);
        try assumption; try reflexivity.
      * symmetry. apply app_nil_r.
      * right. split; [reflexivity|discriminate].
      * symmetry. exact Hau.
    + cbn [olist].
      apply (xgood_choice _ _ _ R nm IH root0 None root None [] [] [] []);
        try assumption; try reflexivity.
      * constructor.
      * left. reflexivity.
      * symmetry. exact Hau.
  - (* reference *)
    apply andb_prop in Hx. destruct Hx as [Hn Hx]. apply String.eqb_eq in Hn. subst name0.
    cbn [oer_ok ok_step oer_encode enc_step oer_dec dec_step oview] in *.
    destruct (lookup name e1) as [a|]; [|discriminate Hx].
    destruct (lookup name e2) as [b|]; [|discriminate Hx].
    apply IHf; [exact Hx|exact Hok|]. destruct v; exact H.
  - (* tagged *)
    apply andb_prop in Hx. destruct Hx as [_ Hx].
    cbn [oer_ok ok_step oer_encode enc_step oer_dec dec_step oview] in *.
    apply IHf; [exact Hx|exact Hok|]. destruct v; exact H.
Qed.
Print Assumptions oer_forward_good.

(** * Backward: version 1 encodes, version 2 decodes *)
Lemma nroot_norm (normr : ty -> value -> value) mse : forall msd fs,
  length mse = length msd -> nroot (fun te _ => normr te) mse msd fs = norm_root normr mse fs.
Proof.
  induction mse as [|me re IH]; intros [|md rd] fs H; cbn [length] in H; try discriminate; [reflexivity|].
  cbn [nroot norm_root]. rewrite (IH rd) by lia. reflexivity.
Qed.

Lemma nadds_norm (normr : ty -> value -> value) ce : forall cd fs,
  length ce = length cd -> nadds (fun te _ => normr te) ce cd fs = norm_adds normr ce fs.
Proof.
  induction ce as [|me re IH]; intros [|md rd] fs H; cbn [length] in H; try discriminate; [reflexivity|].
  cbn [nadds norm_adds]. rewrite (IH rd) by lia. reflexivity.
Qed.

Lemma find_alt2_member n mse : forall msd, length mse = length msd ->
  match find_alt2 n mse msd with
  | Some (me, _) => find_member n mse = Some me
  | None => find_member n mse = None
  end.
Proof.
  induction mse as [|me re IH]; intros [|md rd] H; cbn [length] in H; try discriminate; [reflexivity|].
  cbn [find_alt2 find_member]. destruct (String.eqb n (m_name me)); [reflexivity|]. apply IH. lia.
Qed.

Lemma nchoice_norm (normr : ty -> value -> value) root_e root_d ce cd n v :
  length root_e = length root_d -> length ce = length cd ->
  find_member n (root_e ++ ce) <> None ->
  nchoice (fun te _ => normr te) root_e root_d ce cd n v
  = match find_member n (root_e ++ ce) with
    | Some m => VChoice n (normr (m_ty m) v)
    | None => VChoice n v
    end.
Proof.
  intros Lr Lc Hm. unfold nchoice. rewrite find_member_app in *.
  pose proof (find_alt2_member n root_e root_d Lr) as A.
  destruct (find_alt2 n root_e root_d) as [[me md]|]; rewrite A in *; [reflexivity|].
  pose proof (find_alt2_member n ce cd Lc) as B.
  destruct (find_alt2 n ce cd) as [[me md]|]; rewrite B in *; [reflexivity|congruence].
Qed.

Lemma leaf_norm e f t v : is_leaf t = true -> oer_norm (S f) e t v = norm_step e (fun _ w => w) t v.
Proof. destruct t; try discriminate; intros _; reflexivity. Qed.

Theorem oer_backward_good numeric e1 e2 : forall f t1 t2 v bs,
  oext e1 e2 f t1 t2 = true ->
  oer_ok numeric f e1 t1 v = true -> oer_encode numeric f e1 t1 v = Ok bs ->
  good (oer_dec numeric f e2 t2) bs (oer_norm f e1 t1 v).
Proof.
  induction f as [|f IHf]; intros t1 t2 v bs Hx Hok H; [discriminate|].
  pose (R := fun te td : ty => oext e1 e2 f te td = true).
  pose (nm := fun (te td : ty) => oer_norm f e1 te).
  assert (IH : forall te td v bs, R te td -> oer_ok numeric f e1 te v = true ->
                 oer_encode numeric f e1 te v = Ok bs -> good (oer_dec numeric f e2 td) bs (nm te td v))
    by (intros; apply IHf; assumption).
  assert (Hmr : forall x y, mrelb (oext e1 e2 f) x y = true -> mrel R x y)
    by (apply mrelb_mrel; intros a b Hab; exact Hab).
  destruct (is_leaf t1) eqn:Hl.
  { rewrite (oext_leaf _ _ _ _ _ Hl) in Hx. destruct (leaf_eqb_eq _ _ Hx) as [<- _].
    rewrite (leaf_norm _ _ _ _ Hl). apply leaf_good; assumption. }
  destruct t1; try discriminate Hl; destruct t2; cbn [oext leaf_eqb] in Hx; try discriminate Hx.
  - (* ENUMERATED *)
    apply andb_prop in Hx. destruct Hx as [Hr Hx]. apply items_eqb_eq in Hr. subst root0.
    replace (oer_norm (S f) e1 (TEnum root ext) v) with v by (destruct v; reflexivity).
    cbn [oer_ok ok_step oer_encode enc_step oer_dec dec_step] in *.
    destruct ext as [a1|], ext0 as [a2|]; try discriminate Hx.
    + destruct (items_prefixb_split _ _ Hx) as [new ->]. apply xgood_enum_bwd; assumption.
    + apply good_enum; assumption.
  - (* SEQUENCE / SET *)
    apply andb_prop in Hx. destruct Hx as [Hx Hxa]. apply andb_prop in Hx. destruct Hx as [Hs Hr].
    apply Bool.eqb_prop in Hs. subst isset0.
    pose proof (forall2b_Forall2' _ _ _ Hmr _ Hr) as Fr.
    destruct v; try (destruct isset; cbn [oer_encode enc_step] in H; discriminate).
    cbn [oer_ok ok_step] in Hok. apply andb_prop in Hok. destruct Hok as [Hor Hoa].
    cbn [oer_norm norm_step].
    rewrite <- (nroot_norm (oer_norm f e1) root root0 fields (Forall2_length _ _ _ Fr)). fold nm.
    destruct ext as [a1|], ext0 as [a2|]; try discriminate Hxa.
    + destruct (prefix2b_split _ _ _ Hxa) as (c2 & new & -> & Hc).
      pose proof (flat_rel _ _ _ Hmr _ Hc) as Fa.
      rewrite <- (nadds_norm (oer_norm f e1) _ _ fields (Forall2_length _ _ _ Fa)). fold nm.
      destruct isset; cbn [oer_encode enc_step oer_dec dec_step] in *.
      * rewrite <- (xtagged R _ _ Fr).
        destruct (existsb (fun m => is_tagged (m_ty m)) root); [discriminate|].
        eapply (xgood_seq_bwd _ _ _ R nm IH); [exact Fr|apply flat_adds_app|exact Fa|exact Hor|exact Hoa|exact H].
      * eapply (xgood_seq_bwd _ _ _ R nm IH); [exact Fr|apply flat_adds_app|exact Fa|exact Hor|exact Hoa|exact H].
    + rewrite app_nil_r.
      destruct isset; cbn [oer_encode enc_step oer_dec dec_step] in *.
      * rewrite <- (xtagged R _ _ Fr).
        destruct (existsb (fun m => is_tagged (m_ty m)) root); [discriminate|].
        eapply (xgood_seq_none _ _ _ R nm IH); eassumption.
      * eapply (xgood_seq_none _ _ _ R nm IH); eassumption.
  - (* SEQUENCE OF / SET OF *)
    apply andb_prop in Hx. destruct Hx as [_ Hel].
    destruct v; cbn [oer_encode enc_step oer_ok ok_step] in *; try discriminate.
    cbn [oer_dec dec_step oer_norm norm_step].
    apply (xgood_list (oer_encode numeric f e1) (oer_ok numeric f e1) (oer_dec numeric f e2) t1 t2
             (oer_norm f e1 t1)); [|exact Hok|exact H].
    intros v0 bs0 Hv0 H0. apply IHf; assumption.
  - (* CHOICE *)
    apply andb_prop in Hx. destruct Hx as [Hx Hxa]. apply andb_prop in Hx. destruct Hx as [Hx Htg].
    apply andb_prop in Hx. destruct Hx as [Hr Hau]. apply Bool.eqb_prop in Hau.
    pose proof (forall2b_Forall2' _ _ _ Hmr _ Hr) as Fr.
    destruct v; cbn [oer_encode enc_step oer_ok ok_step] in *; try discriminate.
    cbn [oer_dec dec_step oer_norm norm_step].
    assert (Hfm : find_member alt (root ++ match ext with Some x => x | None => [] end) <> None).
    { unfold ok_choice in Hok. apply andb_prop in Hok. destruct Hok as [_ Hm].
      destruct (find_member alt (root ++ match ext with Some x => x | None => [] end)); [discriminate|discriminate]. }
    unfold choice_tagged in Htg. cbv zeta in Htg. apply negb_true_iff in Htg.
    destruct ext as [a1|], ext0 as [a2|]; try discriminate Hxa.
    + destruct (prefix2b_split _ _ _ Hxa) as (c2 & new & -> & Hc).
      pose proof (forall2b_Forall2' _ _ _ Hmr _ Hc) as Fc.
      rewrite <- (nchoice_norm (oer_norm f e1) root root0 a1 c2 alt v
                    (Forall2_length _ _ _ Fr) (Forall2_length _ _ _ Fc) Hfm). fold nm.
      apply (xgood_choice _ _ _ R nm IH root (Some a1) root0 (Some (c2 ++ new)) a1 [] c2 new);
        try assumption; try reflexivity.
      * symmetry. apply app_nil_r.
      * left. reflexivity.
      * cbn [olist] in Htg. rewrite alt_tags_app, !existsb_app in Htg.
        apply orb_false_iff in Htg. destruct Htg as [_ Htg].
        apply orb_false_iff in Htg. destruct Htg as [_ Htg]. exact Htg.
    + rewrite <- (nchoice_norm (oer_norm f e1) root root0 [] [] alt v
                    (Forall2_length _ _ _ Fr) eq_refl Hfm). fold nm.
      apply (xgood_choice _ _ _ R nm IH root None root0 None [] [] [] []);
        try assumption; try reflexivity.
      * constructor.
      * left. reflexivity.
  - (* reference *)
    apply andb_prop in Hx. destruct Hx as [Hn Hx]. apply String.eqb_eq in Hn. subst name0.
    replace (oer_norm (S f) e1 (TRef name) v)
      with (match lookup name e1 with Some t' => oer_norm f e1 t' v | None => v end) by (destruct v; reflexivity).
    cbn [oer_ok ok_step oer_encode enc_step oer_dec dec_step] in *.
    destruct (lookup name e1) as [a|]; [|discriminate Hx].
    destruct (lookup name e2) as [b|]; [|discriminate Hx].
    apply IHf; [exact Hx|exact Hok|]. destruct v; exact H.
  - (* tagged *)
    apply andb_prop in Hx. destruct Hx as [_ Hx].
    replace (oer_norm (S f) e1 (TTag tg t1) v) with (oer_norm f e1 t1 v) by (destruct v; reflexivity).
    cbn [oer_ok ok_step oer_encode enc_step oer_dec dec_step] in *.
    apply IHf; [exact Hx|exact Hok|]. destruct v; exact H.
Qed.
Print Assumptions oer_backward_good.

(** * The statements at the API: [oer_decode] of the other version *)

(** C07 forward, any depth: version 1 decodes every version-2 encoding, followed
    by anything, to its view of the value and consumes exactly the encoding. *)
Theorem oer_forward numeric e1 e2 f t1 t2 v bs :
  oext e1 e2 f t1 t2 = true ->
  oer_ok numeric f e2 t2 v = true -> oer_encode numeric f e2 t2 v = Ok bs ->
  forall tail, oer_decode numeric f e1 t1 (bs ++ tail) = Ok (oview e1 e2 f t1 t2 v, length bs).
Proof.
  intros Hx Hok H tail. destruct (oer_forward_good _ _ _ _ _ _ _ _ Hx Hok H) as [G _].
  unfold oer_decode. rewrite G, app_length. f_equal. f_equal. lia.
Qed.

(** ... and every strict prefix of a version-2 encoding is a decode error for version 1 *)
Theorem oer_forward_truncation numeric e1 e2 f t1 t2 v bs :
  oext e1 e2 f t1 t2 = true ->
  oer_ok numeric f e2 t2 v = true -> oer_encode numeric f e2 t2 v = Ok bs ->
  forall p, strict_prefix p bs ->
  exists x, oer_decode numeric f e1 t1 p = Err x /\ is_decode_error x = true.
Proof.
  intros Hx Hok H p Hp. destruct (oer_forward_good _ _ _ _ _ _ _ _ Hx Hok H) as [_ G].
  destruct (G p Hp) as [x [E Hxe]]. exists x. unfold oer_decode. rewrite E. auto.
Qed.

(** C07 backward, any depth: version 2 decodes every version-1 encoding to
    exactly the value the version-1 decoder returns ([oer_norm] at version 1;
    in particular an addition of version 2 with a DEFAULT value is absent from
    the result, as decode_additions never fills in defaults). *)
Theorem oer_backward numeric e1 e2 f t1 t2 v bs :
  oext e1 e2 f t1 t2 = true ->
  oer_ok numeric f e1 t1 v = true -> oer_encode numeric f e1 t1 v = Ok bs ->
  forall tail, oer_decode numeric f e2 t2 (bs ++ tail) = Ok (oer_norm f e1 t1 v, length bs).
Proof.
  intros Hx Hok H tail. destruct (oer_backward_good _ _ _ _ _ _ _ _ Hx Hok H) as [G _].
  unfold oer_decode. rewrite G, app_length. f_equal. f_equal. lia.
Qed.

Theorem oer_backward_truncation numeric e1 e2 f t1 t2 v bs :
  oext e1 e2 f t1 t2 = true ->
  oer_ok numeric f e1 t1 v = true -> oer_encode numeric f e1 t1 v = Ok bs ->
  forall p, strict_prefix p bs ->
  exists x, oer_decode numeric f e2 t2 p = Err x /\ is_decode_error x = true.
Proof.
  intros Hx Hok H p Hp. destruct (oer_backward_good _ _ _ _ _ _ _ _ Hx Hok H) as [_ G].
  destruct (G p Hp) as [x [E Hxe]]. exists x. unfold oer_decode. rewrite E. auto.
Qed.

Print Assumptions oer_forward.
Print Assumptions oer_forward_truncation.
Print Assumptions oer_backward.
Print Assumptions oer_backward_truncation.

(** * The view is the projection of what version 2 decodes *)

(** name -> (version-1 type, version-2 type) for the components both versions know *)
Fixpoint zipm (ms1 ms2 : list (member_of ty)) : list (string * (ty * ty)) :=
  match ms1, ms2 with
  | m1 :: r1, m2 :: r2 => (m_name m2, (m_ty m1, m_ty m2)) :: zipm r1 r2
  | _, _ => []
  end.

(** keep the fields version 1 knows (projected), drop the others *)
Definition proj_fields (P : ty -> ty -> value -> value) (K : list (string * (ty * ty)))
           (fields : list (string * value)) : list (string * value) :=
  flat_map (fun nw => match lookup (fst nw) K with
                      | Some pr => [(fst nw, P (fst pr) (snd pr) (snd nw))]
                      | None => []
                      end) fields.

Fixpoint nodup_names (l : list string) : bool :=
  match l with
  | [] => true
  | x :: r => negb (existsb (String.eqb x) r) && nodup_names r
  end.

Section Proj.
  Variables e1 e2 : env.

  (** [oproj f t1 t2 w]: the version-1 view of a version-2 decoder output [w]
      of type [t2], where [t1] is the version-1 type *)
  Fixpoint oproj (f : nat) (t1 t2 : ty) (w : value) {struct f} : value :=
    match f with
    | O => w
    | S f' =>
      match t1, t2 with
      | TSeq _ r1 x1, TSeq _ r2 x2 =>
        match w with
        | VSeq fields =>
          VSeq (proj_fields (oproj f')
                  (zipm r1 r2 ++ zipm (flat_adds (olist x1)) (flat_adds (olist x2))) fields)
        | _ => w
        end
      | TSeqOf _ el1 _, TSeqOf _ el2 _ =>
        match w with VList ws => VList (map (oproj f' el1 el2) ws) | _ => w end
      | TChoice r1 x1, TChoice r2 x2 =>
        match w with
        | VChoice n x =>
          match find_alt2 n r2 r1 with
          | Some (m2, m1) => VChoice n (oproj f' (m_ty m1) (m_ty m2) x)
          | None =>
            match find_alt2 n (olist x2) (olist x1) with
            | Some (m2, m1) => VChoice n (oproj f' (m_ty m1) (m_ty m2) x)
            | None => VUnknownChoice
            end
          end
        | _ => w
        end
      | TEnum r1 x1, TEnum _ _ =>
        match x1 with Some a1 => oproj_enum (r1 ++ a1) w | None => w end
      | TRef n1, TRef n2 =>
        match lookup n1 e1, lookup n2 e2 with
        | Some a, Some b => oproj f' a b w
        | _, _ => w
        end
      | TTag _ a, TTag _ b => oproj f' a b w
      | _, _ => w
      end
    end.

  (** a DEFAULT value of a root component is its own projection *)
  Definition mstrictb (S : ty -> ty -> bool) (P : ty -> ty -> value -> value)
             (m1 m2 : member_of ty) : bool :=
    S (m_ty m1) (m_ty m2) &&
    match m_opt m2 with Default d => value_eqb (P (m_ty m1) (m_ty m2) d) d | _ => true end.
  Definition tstrictb (S : ty -> ty -> bool) (m1 m2 : member_of ty) : bool := S (m_ty m1) (m_ty m2).

  (** [ostrict f t1 t2]: what only the projection statement needs — the
      component names of every version-2 SEQUENCE/SET reached are distinct,
      DEFAULT values of root components are their own projections *)
  Fixpoint ostrict (f : nat) (t1 t2 : ty) {struct f} : bool :=
    match f with
    | O => true
    | S f' =>
      match t1, t2 with
      | TSeq _ r1 x1, TSeq _ r2 x2 =>
        nodup_names (map m_name r2 ++ map m_name (flat_adds (olist x2))) &&
        forall2b (mstrictb (ostrict f') (oproj f')) r1 r2 &&
        prefix2b (tstrictb (ostrict f')) (flat_adds (olist x1)) (flat_adds (olist x2))
      | TSeqOf _ el1 _, TSeqOf _ el2 _ => ostrict f' el1 el2
      | TChoice r1 x1, TChoice r2 x2 =>
        forall2b (tstrictb (ostrict f')) r1 r2 && prefix2b (tstrictb (ostrict f')) (olist x1) (olist x2)
      | TRef n1, TRef n2 =>
        match lookup n1 e1, lookup n2 e2 with
        | Some a, Some b => ostrict f' a b
        | _, _ => true
        end
      | TTag _ a, TTag _ b => ostrict f' a b
      | _, _ => true
      end
    end.
End Proj.

Lemma proj_fields_app P K a b : proj_fields P K (a ++ b) = proj_fields P K a ++ proj_fields P K b.
Proof. unfold proj_fields. apply flat_map_app. Qed.

Lemma proj_fields_drop P K tl :
  (forall n, In n (map fst tl) -> lookup n K = None) -> proj_fields P K tl = [].
Proof.
  induction tl as [|[n w] tl IH]; intros H; [reflexivity|].
  unfold proj_fields in *. cbn [flat_map fst snd].
  rewrite (H n) by (cbn; auto). cbn [app]. apply IH. intros n' Hn'. apply H. cbn. auto.
Qed.

Lemma pf_cons P K n w tl t1 t2 :
  lookup n K = Some (t1, t2) ->
  proj_fields P K ((n, w) :: tl) = (n, P t1 t2 w) :: proj_fields P K tl.
Proof. intros H. unfold proj_fields. cbn [flat_map fst snd]. rewrite H. reflexivity. Qed.

Section PF.
  Variable normr : ty -> value -> value.
  Variable P : ty -> ty -> value -> value.
  Variable nm : ty -> ty -> value -> value.
  Variable K : list (string * (ty * ty)).

  Definition pair_ok (m2 m1 : member_of ty) : Prop :=
    lookup (m_name m2) K = Some (m_ty m1, m_ty m2) /\
    (forall d, m_opt m2 = Default d -> P (m_ty m1) (m_ty m2) d = d) /\
    (forall v, nm (m_ty m2) (m_ty m1) v = P (m_ty m1) (m_ty m2) (normr (m_ty m2) v)).

  Definition pair_ok' (m2 m1 : member_of ty) : Prop :=
    lookup (m_name m2) K = Some (m_ty m1, m_ty m2) /\
    (forall v, nm (m_ty m2) (m_ty m1) v = P (m_ty m1) (m_ty m2) (normr (m_ty m2) v)).

  Lemma pf_root r2 r1 fs :
    Forall2 pair_ok r2 r1 -> proj_fields P K (norm_root normr r2 fs) = nroot nm r2 r1 fs.
  Proof.
    intros F. induction F as [|m2 m1 l2 l1 (Hk & Hd & Hv) F IH]; [reflexivity|].
    cbn [norm_root nroot].
    destruct (lookup (m_name m2) fs) as [v|]; destruct (m_opt m2) as [| |d] eqn:Eo;
      rewrite ?(pf_cons _ _ _ _ _ _ _ Hk), ?IH; try reflexivity.
    - rewrite Hv. reflexivity.
    - rewrite Hv. reflexivity.
    - destruct (value_eqb v d); [rewrite (Hd d eq_refl)|rewrite Hv]; reflexivity.
    - rewrite (Hd d eq_refl). reflexivity.
  Qed.

  Lemma pf_adds c2 a1 fs :
    Forall2 pair_ok' c2 a1 -> proj_fields P K (norm_adds normr c2 fs) = nadds nm c2 a1 fs.
  Proof.
    intros F. induction F as [|m2 m1 l2 l1 (Hk & Hv) F IH]; [reflexivity|].
    cbn [norm_adds nadds].
    destruct (lookup (m_name m2) fs) as [v|]; rewrite ?(pf_cons _ _ _ _ _ _ _ Hk), ?IH, ?Hv; reflexivity.
  Qed.
End PF.

Lemma norm_adds_app normr a b fs : norm_adds normr (a ++ b) fs = norm_adds normr a fs ++ norm_adds normr b fs.
Proof.
  induction a as [|m a IH]; [reflexivity|]. cbn [app norm_adds].
  destruct (lookup (m_name m) fs); rewrite IH; reflexivity.
Qed.

Lemma keys_norm_adds normr b fs n : In n (map fst (norm_adds normr b fs)) -> In n (map m_name b).
Proof.
  induction b as [|m b IH]; cbn [norm_adds map]; [auto|].
  destruct (lookup (m_name m) fs); cbn [map fst In]; intros H; [destruct H as [H|H]; [left; exact H|right; auto]|right; auto].
Qed.

Lemma nodup_names_NoDup l : nodup_names l = true -> NoDup l.
Proof.
  induction l as [|x l IH]; cbn [nodup_names]; intros H; constructor.
  - apply andb_prop in H. destruct H as [H _]. apply negb_true_iff in H. intros Hin.
    rewrite <- not_true_iff_false in H. apply H. apply existsb_exists. exists x. split; [exact Hin|apply String.eqb_refl].
  - apply IH. apply andb_prop in H. tauto.
Qed.

Lemma NoDup_app_l {A} (l1 l2 : list A) : NoDup (l1 ++ l2) -> NoDup l1.
Proof.
  induction l1 as [|x l1 IH]; cbn [app]; intros H; constructor; inversion H as [|? ? Hnot Hnd]; subst.
  - intros Hin. apply Hnot. apply in_or_app. left. exact Hin.
  - apply IH. exact Hnd.
Qed.

Lemma lookup_In_nodup {A} (K : list (string * A)) n x :
  NoDup (map fst K) -> In (n, x) K -> lookup n K = Some x.
Proof.
  induction K as [|[k y] K IH]; cbn [map fst In lookup]; intros Hnd Hin; [contradiction|].
  inversion Hnd as [|? ? Hnot Hnd']; subst.
  destruct Hin as [E|Hin].
  - assert (k = n /\ y = x) as [-> ->] by (split; congruence). rewrite String.eqb_refl. reflexivity.
  - destruct (String.eqb n k) eqn:E.
    + apply String.eqb_eq in E. subst. exfalso. apply Hnot. change (In (fst (k, x)) (map fst K)). apply in_map. exact Hin.
    + apply IH; assumption.
Qed.

Lemma lookup_notin {A} (K : list (string * A)) n : ~ In n (map fst K) -> lookup n K = None.
Proof.
  induction K as [|[k y] K IH]; cbn [map fst In lookup]; intros H; [reflexivity|].
  destruct (String.eqb n k) eqn:E; [apply String.eqb_eq in E; subst; tauto|]. apply IH. tauto.
Qed.

Lemma keys_zipm ms1 : forall ms2, length ms1 = length ms2 -> map fst (zipm ms1 ms2) = map m_name ms2.
Proof.
  induction ms1 as [|m1 r1 IH]; intros [|m2 r2] H; cbn [length] in H; try discriminate; [reflexivity|].
  cbn [zipm map fst]. f_equal. apply IH. lia.
Qed.

Lemma zipm_app_r ms1 : forall c n, length ms1 = length c -> zipm ms1 (c ++ n) = zipm ms1 c.
Proof.
  induction ms1 as [|m1 r1 IH]; intros [|m2 r2] n H; cbn [length] in H; try discriminate; [reflexivity|].
  cbn [app zipm]. f_equal. apply IH. lia.
Qed.

Lemma zipm_In (Q : member_of ty -> member_of ty -> Prop) ms1 ms2 :
  Forall2 Q ms1 ms2 ->
  forall K, incl (zipm ms1 ms2) K ->
  Forall2 (fun m2 m1 => In (m_name m2, (m_ty m1, m_ty m2)) K /\ Q m1 m2) ms2 ms1.
Proof.
  intros F. induction F as [|m1 m2 r1 r2 Hq F IH]; intros K Hi; constructor.
  - split; [|exact Hq]. apply Hi. cbn [zipm]. left. reflexivity.
  - apply IH. intros x Hx. apply Hi. cbn [zipm]. right. exact Hx.
Qed.

Lemma Forall2_imp {A B} (R S : A -> B -> Prop) l1 l2 :
  (forall x y, R x y -> S x y) -> Forall2 R l1 l2 -> Forall2 S l1 l2.
Proof. intros H F. induction F; constructor; auto. Qed.

Lemma forall2b_and {A B} (R1 R2 : A -> B -> bool) l1 : forall l2,
  forall2b R1 l1 l2 = true -> forall2b R2 l1 l2 = true ->
  Forall2 (fun x y => R1 x y = true /\ R2 x y = true) l1 l2.
Proof.
  induction l1 as [|x r1 IH]; intros [|y r2]; cbn [forall2b]; try discriminate; [constructor|].
  intros H1 H2. apply andb_prop in H1. apply andb_prop in H2. constructor; [tauto|apply IH; tauto].
Qed.

Lemma prefix2b_and {A B} (R1 R2 : A -> B -> bool) l1 : forall l2,
  prefix2b R1 l1 l2 = true -> prefix2b R2 l1 l2 = true ->
  exists c n, l2 = c ++ n /\ Forall2 (fun x y => R1 x y = true /\ R2 x y = true) l1 c.
Proof.
  induction l1 as [|x r1 IH]; intros l2; cbn [prefix2b].
  - intros _ _. exists [], l2. split; [reflexivity|constructor].
  - destruct l2 as [|y r2]; [discriminate|]. intros H1 H2.
    apply andb_prop in H1. apply andb_prop in H2.
    destruct (IH r2) as (c & n & -> & F); [tauto|tauto|].
    exists (y :: c), n. split; [reflexivity|constructor; [tauto|exact F]].
Qed.

Lemma flat_prefix (Rb : ty -> ty -> bool) a1 : forall a2,
  prefix2b (arelb Rb) a1 a2 = true -> prefix2b (mrelb Rb) (flat_adds a1) (flat_adds a2) = true.
Proof.
  induction a1 as [|x1 r1 IH]; intros a2; [reflexivity|].
  destruct a2 as [|x2 r2]; cbn [prefix2b]; [discriminate|]. intros H.
  apply andb_prop in H. destruct H as [H1 H2]. unfold arelb in H1. apply andb_prop in H1. destruct H1 as [_ H1].
  rewrite !flat_adds_cons. specialize (IH _ H2). revert H1 IH.
  generalize (snd x1) (snd x2) (flat_adds r1) (flat_adds r2). clear.
  intros l1. induction l1 as [|y l1 IHl]; intros [|z l2] t1 t2; cbn [forall2b app prefix2b]; try discriminate; [auto|].
  intros H. apply andb_prop in H. destruct H as [H1 H2]. intros Ht. rewrite H1. cbn [andb]. apply IHl; assumption.
Qed.

Lemma find_alt2_rel (Q : member_of ty -> member_of ty -> Prop) n mse msd me md :
  Forall2 Q mse msd -> find_alt2 n mse msd = Some (me, md) -> Q me md.
Proof.
  intros F. induction F as [|x y r1 r2 Hq F IH]; cbn [find_alt2]; [discriminate|].
  destruct (String.eqb n (m_name x)); [intros E; assert (x = me /\ y = md) as [<- <-] by (split; congruence); exact Hq|exact IH].
Qed.

Lemma oproj_leaf e1 e2 f t1 t2 w : is_leaf t1 = true -> oproj e1 e2 f t1 t2 w = w.
Proof. destruct f; [reflexivity|]. destruct t1; try discriminate; intros _; destruct t2; reflexivity. Qed.

Lemma mrelb_parts (Rb : ty -> ty -> bool) x y : mrelb Rb x y = true ->
  m_name x = m_name y /\ m_opt x = m_opt y /\ Rb (m_ty x) (m_ty y) = true.
Proof.
  unfold mrelb. intros H.
  apply andb_prop in H. destruct H as [H H4]. apply andb_prop in H. destruct H as [H H3].
  apply andb_prop in H. destruct H as [H1 H2].
  apply String.eqb_eq in H1. apply opt_eqb_eq in H2. auto.
Qed.

Theorem oview_proj e1 e2 : forall f t1 t2 v,
  oext e1 e2 f t1 t2 = true -> ostrict e1 e2 f t1 t2 = true ->
  oview e1 e2 f t1 t2 v = oproj e1 e2 f t1 t2 (oer_norm f e2 t2 v).
Proof.
  induction f as [|f IHf]; intros t1 t2 v Hx Hs; [reflexivity|].
  destruct (is_leaf t1) eqn:Hl.
  { rewrite (oext_leaf _ _ _ _ _ Hl) in Hx. destruct (leaf_eqb_eq _ _ Hx) as [<- _].
    rewrite (oview_leaf _ _ _ _ _ Hl), (oproj_leaf _ _ _ _ _ _ Hl), (leaf_norm _ _ _ _ Hl). reflexivity. }
  destruct t1; try discriminate Hl; destruct t2; cbn [oext leaf_eqb] in Hx; try discriminate Hx.
  - (* ENUMERATED *)
    replace (oer_norm (S f) e2 (TEnum root0 ext0) v) with v by (destruct v; reflexivity). reflexivity.
  - (* SEQUENCE / SET *)
    apply andb_prop in Hx. destruct Hx as [Hx Hxa]. apply andb_prop in Hx. destruct Hx as [_ Hr].
    cbn [ostrict] in Hs. apply andb_prop in Hs. destruct Hs as [Hs Hsa]. apply andb_prop in Hs. destruct Hs as [Hnd Hsr].
    destruct v; try reflexivity.
    cbn [oview oproj oer_norm norm_step]. f_equal.
    replace (match ext0 with Some adds => norm_adds (oer_norm f e2) (flat_adds adds) fields | None => [] end)
      with (norm_adds (oer_norm f e2) (flat_adds (olist ext0)) fields) by (destruct ext0; reflexivity).
    assert (Hpa : prefix2b (mrelb (oext e1 e2 f)) (flat_adds (olist ext)) (flat_adds (olist ext0)) = true).
    { destruct ext as [a1|], ext0 as [a2|]; try discriminate Hxa; [apply flat_prefix; exact Hxa|reflexivity]. }
    set (A1 := flat_adds (olist ext)) in *. set (A2 := flat_adds (olist ext0)) in *.
    destruct (prefix2b_and _ _ _ _ Hpa Hsa) as (C & N & EA & Fa).
    pose proof (forall2b_and _ _ _ _ Hr Hsr) as Fr.
    pose proof (Forall2_length _ _ _ Fr) as Lr. pose proof (Forall2_length _ _ _ Fa) as La.
    rewrite EA in *. rewrite (zipm_app_r _ _ _ La), norm_adds_app, (nadds_app_l _ _ _ _ _ (eq_sym La)).
    set (K := zipm root root0 ++ zipm A1 C).
    assert (HkK : map fst K = map m_name root0 ++ map m_name C).
    { unfold K. rewrite map_app, (keys_zipm _ _ Lr), (keys_zipm _ _ La). reflexivity. }
    apply nodup_names_NoDup in Hnd. rewrite map_app, app_assoc in Hnd.
    assert (HndK : NoDup (map fst K)) by (rewrite HkK; exact (NoDup_app_l _ _ Hnd)).
    rewrite !proj_fields_app.
    rewrite (pf_root (oer_norm f e2) (oproj e1 e2 f) (fun te td => oview e1 e2 f td te) K root0 root fields).
    2:{ eapply Forall2_imp; [|apply (zipm_In _ _ _ Fr K); unfold K; apply incl_appl; apply incl_refl].
        intros m2 m1 [Hin [Hm Hst]]. unfold mstrictb in Hst. apply andb_prop in Hst. destruct Hst as [Hst Hd].
        destruct (mrelb_parts _ _ _ Hm) as (_ & _ & Hm').
        split; [apply lookup_In_nodup; assumption|]. split.
        - intros d Ed. rewrite Ed in Hd. apply value_eqb_eq. exact Hd.
        - intros v. apply IHf; assumption. }
    rewrite (pf_adds (oer_norm f e2) (oproj e1 e2 f) (fun te td => oview e1 e2 f td te) K C A1 fields).
    2:{ eapply Forall2_imp; [|apply (zipm_In _ _ _ Fa K); unfold K; apply incl_appr; apply incl_refl].
        intros m2 m1 [Hin [Hm Hst]]. unfold tstrictb in Hst.
        destruct (mrelb_parts _ _ _ Hm) as (_ & _ & Hm').
        split; [apply lookup_In_nodup; assumption|]. intros v. apply IHf; assumption. }
    rewrite proj_fields_drop; [rewrite app_nil_r; reflexivity|].
    intros n Hn. apply lookup_notin. rewrite HkK. intros Hin.
    apply keys_norm_adds in Hn.
    revert Hnd Hin Hn. generalize (map m_name root0 ++ map m_name C) (map m_name N). clear.
    intros l1 l2 Hnd H1 H2. induction l1 as [|x l1 IH]; [destruct H1|].
    cbn [app] in Hnd. inversion Hnd as [|? ? Hnot Hnd']; subst. destruct H1 as [->|H1]; [|auto].
    apply Hnot. apply in_or_app. right. exact H2.
  - (* SEQUENCE OF / SET OF *)
    apply andb_prop in Hx. destruct Hx as [_ Hel]. cbn [ostrict] in Hs.
    destruct v; try reflexivity.
    cbn [oview oproj oer_norm norm_step]. f_equal. rewrite map_map. apply map_ext.
    intros a. apply IHf; assumption.
  - (* CHOICE *)
    apply andb_prop in Hx. destruct Hx as [Hx Hxa]. apply andb_prop in Hx. destruct Hx as [Hx _].
    apply andb_prop in Hx. destruct Hx as [Hr _].
    cbn [ostrict] in Hs. apply andb_prop in Hs. destruct Hs as [Hsr Hsa].
    destruct v; try reflexivity.
    cbn [oview oproj oer_norm norm_step]. unfold nchoice.
    assert (Hpa : prefix2b (mrelb (oext e1 e2 f)) (olist ext) (olist ext0) = true).
    { destruct ext as [a1|], ext0 as [a2|]; try discriminate Hxa; [exact Hxa|reflexivity]. }
    change (match ext0 with Some x => x | None => [] end) with (olist ext0).
    destruct (prefix2b_and _ _ _ _ Hpa Hsa) as (C & N & EA & Fa).
    pose proof (forall2b_and _ _ _ _ Hr Hsr) as Fr.
    pose proof (Forall2_length _ _ _ Fr) as Lr. pose proof (Forall2_length _ _ _ Fa) as La.
    rewrite EA. rewrite (find_alt2_app_l _ _ _ _ (eq_sym La)).
    rewrite find_member_app.
    pose proof (find_alt2_member alt root0 root (eq_sym Lr)) as A.
    destruct (find_alt2 alt root0 root) as [[m2 m1]|] eqn:E2.
    + rewrite A. cbv beta iota. rewrite E2. f_equal.
      destruct (find_alt2_rel (fun y x => mrelb (oext e1 e2 f) x y = true /\ tstrictb (ostrict e1 e2 f) x y = true)
                  alt root0 root m2 m1 (Forall2_flip _ _ _ Fr) E2) as [Hm Hst].
      destruct (mrelb_parts _ _ _ Hm) as (_ & _ & Hm'). apply IHf; assumption.
    + rewrite A. rewrite find_member_app.
      pose proof (find_alt2_member alt C (olist ext) (eq_sym La)) as B.
      destruct (find_alt2 alt C (olist ext)) as [[m2 m1]|] eqn:E3.
      * rewrite B. cbv beta iota. rewrite E2, (find_alt2_app_l _ _ _ _ (eq_sym La)), E3. f_equal.
        destruct (find_alt2_rel (fun y x => mrelb (oext e1 e2 f) x y = true /\ tstrictb (ostrict e1 e2 f) x y = true)
                    alt C (olist ext) m2 m1 (Forall2_flip _ _ _ Fa) E3) as [Hm Hst].
        destruct (mrelb_parts _ _ _ Hm) as (_ & _ & Hm'). apply IHf; assumption.
      * rewrite B. destruct (find_member alt N); cbv beta iota;
          rewrite E2, (find_alt2_app_l _ _ _ _ (eq_sym La)), E3; reflexivity.
  - (* reference *)
    apply andb_prop in Hx. destruct Hx as [Hn Hx]. apply String.eqb_eq in Hn. subst name0.
    replace (oer_norm (S f) e2 (TRef name) v)
      with (match lookup name e2 with Some t' => oer_norm f e2 t' v | None => v end) by (destruct v; reflexivity).
    cbn [oview oproj ostrict] in *.
    destruct (lookup name e1) as [a|]; [|discriminate Hx].
    destruct (lookup name e2) as [b|]; [|discriminate Hx].
    apply IHf; assumption.
  - (* tagged *)
    apply andb_prop in Hx. destruct Hx as [_ Hx].
    replace (oer_norm (S f) e2 (TTag tg0 t2) v) with (oer_norm f e2 t2 v) by (destruct v; reflexivity).
    cbn [oview oproj ostrict] in *. apply IHf; assumption.
Qed.
Print Assumptions oview_proj.

(** C07 forward with the projection: decoding a version-2 encoding under
    version 1 gives the projection of what version 2 decodes. *)
Theorem oer_forward_proj numeric e1 e2 f t1 t2 v bs :
  oext e1 e2 f t1 t2 = true -> ostrict e1 e2 f t1 t2 = true ->
  oer_ok numeric f e2 t2 v = true -> oer_encode numeric f e2 t2 v = Ok bs ->
  forall tail,
    oer_decode numeric f e1 t1 (bs ++ tail)
    = Ok (oproj e1 e2 f t1 t2 (oer_norm f e2 t2 v), length bs).
Proof.
  intros Hx Hs Hok H tail. rewrite <- (oview_proj e1 e2 f t1 t2 v Hx Hs).
  apply oer_forward; assumption.
Qed.

Corollary oer_forward_commutes numeric e1 e2 f t1 t2 v bs :
  oext e1 e2 f t1 t2 = true -> ostrict e1 e2 f t1 t2 = true ->
  oer_ok numeric f e2 t2 v = true -> oer_encode numeric f e2 t2 v = Ok bs ->
  forall tail, exists w,
    oer_decode numeric f e2 t2 (bs ++ tail) = Ok (w, length bs) /\
    oer_decode numeric f e1 t1 (bs ++ tail) = Ok (oproj e1 e2 f t1 t2 w, length bs).
Proof.
  intros Hx Hs Hok H tail. exists (oer_norm f e2 t2 v). split.
  - apply oer_roundtrip; assumption.
  - apply oer_forward_proj; assumption.
Qed.

Print Assumptions oer_forward_proj.
Print Assumptions oer_forward_commutes.
