(** Serial application of constraints at reference sites (C06, round 5).

    The shared universe [ty] (Syntax/Asn1.v) has constraints only on the
    built-in type itself: [TInt c], [TOctets sz], ...; a reference is a bare
    [TRef n].  ASN.1 also allows a constraint to be written on a reference:

        Uint8 ::= INTEGER (0..255)
        Level ::= Uint8 (0..10, ...)                 -- type assignment
        S ::= SEQUENCE { n Uint8 (1..8, ...) }       -- component
        L ::= SEQUENCE OF Str (SIZE(4))              -- element

    which is a serial application of constraints (X.680 clause 50.1 ff. /
    G.4.2.3).  This file is the specification of what that means for OER:

    - X.680: every constraint of the chain restricts the value set of the type
      it is applied to (its parent type); [MIN] / [MAX] in a value range denote
      the smallest / largest value of the parent type; if the parent type is
      extensible by its own constraint, the later constraint is applied to the
      parent type without its extension marker and additions (its root), and the
      result is extensible only when the later constraint has a marker itself.
    - X.696 clause 8.2: a constraint with an extension marker is not
      OER-visible; in a serial application the constraints that are not
      OER-visible are ignored and the effective constraint is what the
      OER-visible ones leave (their intersection).  Sizes: a fixed length
      (no length determinant) only when the effective size constraint is a
      single value.

    A module with such sites is a surface environment [senv]: every entry is
    either an ordinary type of the universe or [DCon parent c], "parent with
    constraint c written on the reference".  A constrained component / element
    site is an anonymous entry of the surface environment to which the
    constructed type refers by [TRef] (the harness invents the name; it carries
    no meaning).  [elab] turns a surface environment into an ordinary [env], so
    [x696_encode] and every theorem of Props/C06.v apply to the result as they
    stand.  The theorems below say what [elab] does to a chain. *)
From Asn1V Require Import Base.Prelude Syntax.Asn1 Oer.X696.
Open Scope Z_scope.

(** ** bounds; [None] is "unbounded on that side" *)
Definition lo_max (a b : option Z) : option Z :=
  match a, b with
  | Some x, Some y => Some (Z.max x y)
  | Some x, None => Some x
  | None, y => y
  end.
Definition hi_min (a b : option Z) : option Z :=
  match a, b with
  | Some x, Some y => Some (Z.min x y)
  | Some x, None => Some x
  | None, y => y
  end.

(** ** INTEGER *)

(** What is known about an INTEGER type after some constraints:
    [root]: the X.680 root value range of the type (the parent type of the
    next constraint); [vis]: what the OER-visible constraints so far leave. *)
Record istate : Type := mkI { i_rlo : option Z; i_rhi : option Z; i_vlo : option Z; i_vhi : option Z }.

Definition istate0 : istate := mkI None None None None.

(** one more constraint; in [IcRange lo hi ext] a [None] bound is the keyword
    MIN / MAX, i.e. the bound of the parent type *)
Definition istep (s : istate) (c : intc) : istate :=
  match c with
  | IcNone => s
  | IcRange lo hi ext =>
    let lo' := match lo with Some l => Some l | None => i_rlo s end in
    let hi' := match hi with Some h => Some h | None => i_rhi s end in
    mkI (lo_max (i_rlo s) lo') (hi_min (i_rhi s) hi')
        (if ext then i_vlo s else lo_max (i_vlo s) lo')
        (if ext then i_vhi s else hi_min (i_vhi s) hi')
  end.

Definition ichain (cs : list intc) : istate := fold_left istep cs istate0.

(** the effective (OER-visible) constraint as a constraint of the universe *)
Definition ivisible (s : istate) : intc :=
  match i_vlo s, i_vhi s with
  | None, None => IcNone
  | lo, hi => IcRange lo hi false
  end.

Definition eff_int (cs : list intc) : intc := ivisible (ichain cs).

(** ** SIZE *)

(** [vis]: intersection of the OER-visible size constraints; lower bound 0 and
    no upper bound when there is none *)
Record zstate : Type := mkZ { z_any : bool; z_lo : Z; z_hi : option Z }.
Definition zstate0 : zstate := mkZ false 0 None.

Definition zstep (s : zstate) (c : size) : zstate :=
  match c with
  | SzNone => s
  | SzRange _ _ true => s
  | SzRange lo hi false => mkZ true (Z.max (z_lo s) lo) (hi_min (z_hi s) hi)
  end.

Definition zchain (cs : list size) : zstate := fold_left zstep cs zstate0.

Definition zvisible (s : zstate) : size :=
  if z_any s then SzRange (z_lo s) (z_hi s) false else SzNone.

Definition eff_size (cs : list size) : size := zvisible (zchain cs).

(** ** surface environments *)

Inductive scon : Type :=
| CInt (c : intc)
| CSize (sz : size).

Inductive sdef : Type :=
| DTy (t : ty)
| DCon (parent : string) (c : scon).

Definition senv : Type := list (string * sdef).

(** the built-in type a name denotes and the constraints written on the
    references on the way, innermost first *)
Fixpoint resolve (fuel : nat) (se : senv) (n : string) : option (ty * list scon) :=
  match fuel with
  | O => None
  | S f =>
    match lookup n se with
    | Some (DTy (TRef m)) => resolve f se m
    | Some (DTy t) => Some (t, [])
    | Some (DCon m c) =>
      match resolve f se m with
      | Some (t, cs) => Some (t, cs ++ [c])
      | None => None
      end
    | None => None
    end
  end.

Fixpoint ints_of (cs : list scon) : option (list intc) :=
  match cs with
  | [] => Some []
  | CInt c :: r => match ints_of r with Some l => Some (c :: l) | None => None end
  | CSize _ :: _ => None
  end.
Fixpoint sizes_of (cs : list scon) : option (list size) :=
  match cs with
  | [] => Some []
  | CSize c :: r => match sizes_of r with Some l => Some (c :: l) | None => None end
  | CInt _ :: _ => None
  end.

(** the constraint of the built-in type is the first constraint of the chain *)
Fixpoint apply_chain (t : ty) (cs : list scon) : option ty :=
  match t with
  | TInt c => match ints_of cs with Some l => Some (TInt (eff_int (c :: l))) | None => None end
  | TOctets sz => match sizes_of cs with Some l => Some (TOctets (eff_size (sz :: l))) | None => None end
  | TBits named sz => match sizes_of cs with Some l => Some (TBits named (eff_size (sz :: l))) | None => None end
  | TStr k sz alpha => match sizes_of cs with Some l => Some (TStr k (eff_size (sz :: l)) alpha) | None => None end
  | TSeqOf isset elem sz =>
    match sizes_of cs with Some l => Some (TSeqOf isset elem (eff_size (sz :: l))) | None => None end
  | TTag tg t' => match apply_chain t' cs with Some u => Some (TTag tg u) | None => None end
  | _ => match cs with [] => Some t | _ => None end
  end.

Definition elab_def (fuel : nat) (se : senv) (n : string) (d : sdef) : option ty :=
  match d with
  | DTy t => Some t
  | DCon _ _ =>
    match resolve fuel se n with
    | Some (t, cs) => apply_chain t cs
    | None => None
    end
  end.

Fixpoint elab_list (fuel : nat) (se : senv) (l : senv) : option env :=
  match l with
  | [] => Some []
  | (n, d) :: r =>
    match elab_def fuel se n d, elab_list fuel se r with
    | Some t, Some e => Some ((n, t) :: e)
    | _, _ => None
    end
  end.

Definition elab (fuel : nat) (se : senv) : option env := elab_list fuel se se.

(** for case files: an ill-formed surface module gives the empty environment
    (every reference then fails to encode, which the comparison reports) *)
Definition elab_env (fuel : nat) (se : senv) : env :=
  match elab fuel se with Some e => e | None => [] end.

(** ** what the chain does *)

Lemma ichain_app : forall cs c, ichain (cs ++ [c]) = istep (ichain cs) c.
Proof. intros. unfold ichain. rewrite fold_left_app. reflexivity. Qed.

Lemma zchain_app : forall cs c, zchain (cs ++ [c]) = zstep (zchain cs) c.
Proof. intros. unfold zchain. rewrite fold_left_app. reflexivity. Qed.

(** X.696 8.2: an extensible constraint applied on top of any chain leaves the
    effective constraint what it was — whatever its bounds *)
Theorem eff_int_extensible_ignored : forall cs lo hi,
    eff_int (cs ++ [IcRange lo hi true]) = eff_int cs.
Proof. intros. unfold eff_int. rewrite ichain_app. reflexivity. Qed.

Theorem eff_size_extensible_ignored : forall cs lo hi,
    eff_size (cs ++ [SzRange lo hi true]) = eff_size cs.
Proof. intros. unfold eff_size. rewrite zchain_app. reflexivity. Qed.

(** bounds as predicates *)
Definition lo_ok (b : option Z) (v : Z) : Prop := match b with Some l => l <= v | None => True end.
Definition hi_ok (b : option Z) (v : Z) : Prop := match b with Some h => v <= h | None => True end.

Lemma lo_max_ok : forall a b v, lo_ok (lo_max a b) v <-> lo_ok a v /\ lo_ok b v.
Proof. intros [x|] [y|] v; cbn; try tauto. lia. Qed.
Lemma hi_min_ok : forall a b v, hi_ok (hi_min a b) v <-> hi_ok a v /\ hi_ok b v.
Proof. intros [x|] [y|] v; cbn; try tauto. lia. Qed.

(** the value set of one visible constraint, MIN / MAX resolved in the parent *)
Definition con_lo (s : istate) (lo : option Z) : option Z := match lo with Some l => Some l | None => i_rlo s end.
Definition con_hi (s : istate) (hi : option Z) : option Z := match hi with Some h => Some h | None => i_rhi s end.

(** a non-extensible constraint intersects: a number is inside the new
    effective constraint iff it was inside the old one and is inside the
    constraint (with MIN / MAX denoting the bounds of the parent type) *)
Theorem istep_visible_intersects : forall s lo hi v,
    let s' := istep s (IcRange lo hi false) in
    (lo_ok (i_vlo s') v /\ hi_ok (i_vhi s') v) <->
    (lo_ok (i_vlo s) v /\ hi_ok (i_vhi s) v) /\ (lo_ok (con_lo s lo) v /\ hi_ok (con_hi s hi) v).
Proof.
  intros s lo hi v. cbn. fold (con_lo s lo). fold (con_hi s hi).
  rewrite lo_max_ok, hi_min_ok. tauto.
Qed.

(** the root (X.680 value set without additions) is intersected by every constraint *)
Theorem istep_root_intersects : forall s lo hi ext v,
    let s' := istep s (IcRange lo hi ext) in
    (lo_ok (i_rlo s') v /\ hi_ok (i_rhi s') v) <->
    (lo_ok (i_rlo s) v /\ hi_ok (i_rhi s) v) /\ (lo_ok (con_lo s lo) v /\ hi_ok (con_hi s hi) v).
Proof.
  intros s lo hi ext v. cbn. fold (con_lo s lo). fold (con_hi s hi).
  rewrite lo_max_ok, hi_min_ok. tauto.
Qed.

(** invariant: the root lies inside the effective constraint (every value of
    the root of the type is encodable in the selected form) *)
Definition root_in_vis (s : istate) : Prop :=
  forall v, lo_ok (i_rlo s) v -> hi_ok (i_rhi s) v -> lo_ok (i_vlo s) v /\ hi_ok (i_vhi s) v.

Lemma istep_root_in_vis : forall s c, root_in_vis s -> root_in_vis (istep s c).
Proof.
  intros s [|lo hi ext] H; [exact H|].
  intros v Hl Hh.
  pose proof (proj1 (istep_root_intersects s lo hi ext v) (conj Hl Hh)) as [[R1 R2] [C1 C2]].
  destruct ext.
  - cbn. exact (H v R1 R2).
  - apply (istep_visible_intersects s lo hi v). split; [exact (H v R1 R2)|tauto].
Qed.

Theorem ichain_root_in_vis : forall cs, root_in_vis (ichain cs).
Proof.
  intros cs. unfold ichain.
  assert (G : forall l s, root_in_vis s -> root_in_vis (fold_left istep l s)).
  { induction l as [|c l IH]; intros s H; cbn; [exact H|]. apply IH, istep_root_in_vis, H. }
  apply G. intros v _ _. cbn. tauto.
Qed.

(** a narrowing written with numbers inside the current effective constraint
    becomes the effective constraint (the usual case: Uint16 (0..10)) *)
Theorem istep_narrowing : forall s l h,
    lo_ok (i_vlo s) l -> hi_ok (i_vhi s) h ->
    ivisible (istep s (IcRange (Some l) (Some h) false)) = IcRange (Some l) (Some h) false.
Proof.
  intros s l h Hl Hh. unfold ivisible. cbn.
  destruct (i_vlo s) as [a|], (i_vhi s) as [b|]; cbn in *;
    rewrite ?Z.max_r, ?Z.min_r by lia; reflexivity.
Qed.

(** the effective constraint only shrinks along a chain *)
Theorem istep_vis_shrinks : forall s c v,
    lo_ok (i_vlo (istep s c)) v -> hi_ok (i_vhi (istep s c)) v -> lo_ok (i_vlo s) v /\ hi_ok (i_vhi s) v.
Proof.
  intros s [|lo hi [|]] v Hl Hh; cbn in *; try tauto.
  apply (istep_visible_intersects s lo hi v). cbn. tauto.
Qed.

(** sizes: a non-extensible size constraint intersects *)
Theorem zstep_visible_intersects : forall s lo hi n,
    let s' := zstep s (SzRange lo hi false) in
    (z_lo s' <= n /\ hi_ok (z_hi s') n) <-> (z_lo s <= n /\ hi_ok (z_hi s) n) /\ (lo <= n /\ hi_ok hi n).
Proof.
  intros s lo hi n. cbn. rewrite hi_min_ok.
  split; [intros [A [B C]] | intros [[A B] [C D]]]; repeat split; try assumption; lia.
Qed.

(** a single-value size inside the current effective size constraint gives the
    fixed-length form; an extensible one on top of it keeps it *)
Theorem zstep_fixed : forall s n,
    z_lo s <= n -> hi_ok (z_hi s) n ->
    visible_fixed_size (zvisible (zstep s (SzRange n (Some n) false))) = Some n.
Proof.
  intros s n Hl Hh. unfold zvisible. cbn.
  destruct (z_hi s) as [h|]; cbn in *; rewrite ?Z.max_r, ?Z.min_r by lia; rewrite Z.eqb_refl; reflexivity.
Qed.

(** at the level of types: the serial application of an extensible constraint
    to a reference denotes the same OER type as the reference itself *)
Lemma ints_of_app : forall cs c l, ints_of cs = Some l -> ints_of (cs ++ [CInt c]) = Some (l ++ [c]).
Proof.
  induction cs as [|[c0|s0] cs IH]; intros c l H; cbn in *.
  - inversion H. reflexivity.
  - destruct (ints_of cs) as [l0|] eqn:E; [|discriminate]. inversion H; subst.
    rewrite (IH c l0 eq_refl). reflexivity.
  - discriminate.
Qed.
Lemma sizes_of_app : forall cs c l, sizes_of cs = Some l -> sizes_of (cs ++ [CSize c]) = Some (l ++ [c]).
Proof.
  induction cs as [|[c0|s0] cs IH]; intros c l H; cbn in *.
  - inversion H. reflexivity.
  - discriminate.
  - destruct (sizes_of cs) as [l0|] eqn:E; [|discriminate]. inversion H; subst.
    rewrite (IH c l0 eq_refl). reflexivity.
Qed.

Theorem apply_chain_extensible_int : forall c0 cs lo hi u,
    apply_chain (TInt c0) cs = Some u ->
    apply_chain (TInt c0) (cs ++ [CInt (IcRange lo hi true)]) = Some u.
Proof.
  intros c0 cs lo hi u H. cbn in *.
  destruct (ints_of cs) as [l|] eqn:E; [|discriminate].
  rewrite (ints_of_app cs _ l E).
  change (c0 :: l ++ [IcRange lo hi true]) with ((c0 :: l) ++ [IcRange lo hi true]).
  rewrite eff_int_extensible_ignored. exact H.
Qed.

Theorem apply_chain_extensible_octets : forall sz cs lo hi u,
    apply_chain (TOctets sz) cs = Some u ->
    apply_chain (TOctets sz) (cs ++ [CSize (SzRange lo hi true)]) = Some u.
Proof.
  intros sz cs lo hi u H. cbn in *.
  destruct (sizes_of cs) as [l|] eqn:E; [|discriminate].
  rewrite (sizes_of_app cs _ l E).
  change (sz :: l ++ [SzRange lo hi true]) with ((sz :: l) ++ [SzRange lo hi true]).
  rewrite eff_size_extensible_ignored. exact H.
Qed.

(** ** pinned instances (the shapes of the region) *)
Example serial_uint8_ext :
  eff_int [IcRange (Some 0) (Some 255) false; IcRange (Some 0) (Some 10) true] = IcRange (Some 0) (Some 255) false.
Proof. reflexivity. Qed.
Example serial_nat_ext :
  eff_int [IcRange (Some 0) None false; IcRange (Some 0) (Some 100) true] = IcRange (Some 0) None false.
Proof. reflexivity. Qed.
Example serial_narrow :
  eff_int [IcRange (Some 0) (Some 65535) false; IcRange (Some 0) (Some 10) false; IcRange (Some 0) (Some 3) true]
  = IcRange (Some 0) (Some 10) false.
Proof. reflexivity. Qed.
Example serial_ext_then_visible :
  eff_int [IcRange (Some 0) (Some 10) true; IcRange (Some 0) (Some 5) false] = IcRange (Some 0) (Some 5) false.
Proof. reflexivity. Qed.
Example serial_min_is_parent_min :
  eff_int [IcRange (Some 0) (Some 65535) false; IcRange None (Some 10) false] = IcRange (Some 0) (Some 10) false.
Proof. reflexivity. Qed.
Example serial_max_is_parent_max :
  eff_int [IcRange None (Some 100) false; IcRange (Some 0) None false] = IcRange (Some 0) (Some 100) false.
Proof. reflexivity. Qed.
Example serial_min_of_extensible_parent :
  eff_int [IcRange (Some 0) (Some 10) true; IcRange None (Some 5) false] = IcRange (Some 0) (Some 5) false.
Proof. reflexivity. Qed.
Example serial_size_fixed_kept :
  eff_size [SzRange 5 (Some 5) false; SzRange 5 (Some 5) true] = SzRange 5 (Some 5) false.
Proof. reflexivity. Qed.
Example serial_size_narrowed_to_fixed :
  eff_size [SzRange 1 (Some 5) false; SzRange 3 (Some 3) false] = SzRange 3 (Some 3) false.
Proof. reflexivity. Qed.
Example serial_size_ext_parent :
  eff_size [SzRange 5 (Some 5) true; SzRange 5 (Some 5) false] = SzRange 5 (Some 5) false.
Proof. reflexivity. Qed.

Example elab_level :
  let se := [("Uint8"%string, DTy (TInt (IcRange (Some 0) (Some 255) false)));
             ("Level"%string, DCon "Uint8" (CInt (IcRange (Some 0) (Some 10) true)));
             ("S"%string, DTy (TSeq false [(("n"%string, TRef "#1"), Mandatory)] None));
             ("#1"%string, DCon "Level" (CInt (IcRange (Some 1) (Some 8) false)))] in
  x696_encode false 8 (elab_env 8 se) (TRef "Level") (VInt 200) = Some [200] /\
  x696_encode false 8 (elab_env 8 se) (TRef "S") (VSeq [("n"%string, VInt 5)]) = Some [5].
Proof. split; reflexivity. Qed.
