(** C08, work bound for the OER decoder model (OerCost.v):
    [oer_dec_cost_erases]  erasing the step counter gives back [oer_dec];
    [oer_dec_cost_bound]   for EVERY input, accepted or rejected, the steps are
                           at most [Ko e fuel t * (length input + 1)], for types
                           none of whose SEQUENCE OF / SET OF element types can
                           be decoded without consuming an octet
                           ([no_zero_width_elements], a decidable boolean);
    [oer_dec_cost_zero_width_refuted]
                           without that hypothesis k+1 octets buy 256^k - 1
                           steps (the twin of OerWork.oer_zero_width_elements_unbounded). *)
From Asn1V Require Import Base.Prelude Syntax.Asn1.
From Asn1V Require Import Oer.OerPrim Oer.OerImpl Oer.OerCost Oer.OerWork.
From Coq Require Import NArith.
Open Scope Z_scope.

(** * Erasure *)
Definition Er {A} (m : cdec A) (d : dec A) : Prop := forall bs, fst (m bs) = d bs.

Lemma Er_ret {A} (a : A) : Er (cret a) (dret a).
Proof. intros bs. reflexivity. Qed.
Lemma Er_fail {A} x : Er (@cfail A x) (dfail x).
Proof. intros bs. reflexivity. Qed.
Lemma Er_prim {A} (d : dec A) : Er (prim d) d.
Proof. intros bs. reflexivity. Qed.
Lemma Er_tick {A} n (m : cdec A) d : Er m d -> Er (tick n m) d.
Proof. intros H bs. unfold tick. rewrite <- H. destruct (m bs). reflexivity. Qed.
Lemma Er_bind {A B} (m : cdec A) d (f : A -> cdec B) g :
  Er m d -> (forall a, Er (f a) (g a)) -> Er (cbind m f) (dbind d g).
Proof.
  intros H1 H2 bs. unfold cbind, dbind. rewrite <- H1. destruct (m bs) as [[[a r]|x] c]; cbn [fst]; [|reflexivity].
  rewrite <- H2. destruct (f a r). reflexivity.
Qed.

Ltac er :=
  repeat first
    [ apply Er_ret | apply Er_fail | apply Er_prim | solve [auto]
    | apply Er_tick | (apply Er_bind; [|intros ?])
    | match goal with
      | |- Er (if ?c then _ else _) _ => destruct c
      | |- Er (match ?x with _ => _ end) _ => destruct x
      end ].

Lemma Er_len : Er c_len dec_len.
Proof. unfold c_len, dec_len, c_byte, c_take. er. Qed.
Lemma Er_uint_var : Er c_uint_var dec_uint_var.
Proof. unfold c_uint_var, dec_uint_var, c_take. pose proof Er_len. er. Qed.
Lemma Er_sint_body n : Er (c_sint_body n) (dec_sint_body n).
Proof. unfold c_sint_body, dec_sint_body, c_take. er. Qed.
Lemma Er_sint_var : Er c_sint_var dec_sint_var.
Proof. unfold c_sint_var, dec_sint_var. pose proof Er_len. pose proof Er_sint_body. er. Qed.
Lemma Er_bits n : Er (c_bits n) (dec_bits n).
Proof. unfold c_bits, dec_bits, c_take. er. Qed.
Lemma Er_tag_rest : Er c_tag_rest dec_tag_rest.
Proof.
  intros bs. induction bs as [|b r IH]; [reflexivity|]. cbn [c_tag_rest dec_tag_rest].
  destruct (b <? 128); [reflexivity|]. rewrite <- IH. destruct (c_tag_rest r) as [[[t r']|x] c]; reflexivity.
Qed.
Lemma Er_tag : Er c_tag dec_tag.
Proof. unfold c_tag, dec_tag, c_byte. pose proof Er_tag_rest. er. Qed.
Lemma Er_int c : Er (c_int c) (dec_int c).
Proof.
  unfold c_int, dec_int, c_fixed_u, c_fixed_s, dec_fixed_u, dec_fixed_s, c_take.
  pose proof Er_uint_var. pose proof Er_sint_var. er.
Qed.
Lemma Er_enum numeric root ext : Er (c_enum numeric root ext) (dec_enum numeric root ext).
Proof. unfold c_enum, dec_enum, c_byte. pose proof Er_sint_body. er. Qed.
Lemma Er_bitstring sz : Er (c_bitstring sz) (dec_bitstring sz).
Proof. unfold c_bitstring, dec_bitstring, c_byte, c_take. pose proof Er_len. er. Qed.
Lemma Er_sized sz : Er (c_sized sz) (dec_sized sz).
Proof. unfold c_sized, dec_sized, c_take. pose proof Er_len. er. Qed.

Lemma Er_crep_pos {S} (f : S -> result S * N) (g : S -> result S) :
  (forall s, fst (f s) = g s) -> forall p s, fst (crep_pos p f s) = rep_pos p g s.
Proof.
  intros H. induction p as [q IH|q IH|]; intros s; cbn [crep_pos rep_pos].
  - rewrite <- H. destruct (f s) as [[s0|x] c0]; cbn [fst bind]; [|reflexivity].
    rewrite <- IH. destruct (crep_pos q f s0) as [[s1|x] c1]; cbn [fst bind]; [|reflexivity].
    rewrite <- IH. destruct (crep_pos q f s1). reflexivity.
  - rewrite <- IH. destruct (crep_pos q f s) as [[s1|x] c1]; cbn [fst bind]; [|reflexivity].
    rewrite <- IH. destruct (crep_pos q f s1). reflexivity.
  - apply H.
Qed.

Section ErComposite.
  Variables (numeric : bool) (e : env) (crec : ty -> cdec value) (drec : ty -> dec value).
  Hypothesis Hrec : forall t, Er (crec t) (drec t).

  Lemma Er_root ms : forall bits, Er (c_dec_root crec ms bits) (dec_root drec ms bits).
  Proof.
    induction ms as [|m ms IH]; intros bits; cbn [c_dec_root dec_root]; [apply Er_ret|].
    apply Er_tick. pose proof (Hrec (m_ty m)).
    destruct (m_opt m); [|destruct bits as [|[|] bits']..]; er; try apply IH.
  Qed.

  Lemma Er_adds_loop pres : forall ms, Er (c_dec_adds_loop crec ms pres) (dec_adds_loop drec ms pres).
  Proof.
    induction pres as [|p pres IH]; intros ms; cbn [c_dec_adds_loop dec_adds_loop]; [apply Er_ret|].
    apply Er_tick. pose proof Er_len. unfold c_take.
    destruct ms as [|m ms']; destruct p; try apply IH.
    - er; apply IH.
    - pose proof (Hrec (m_ty m)). er; apply IH.
  Qed.

  Lemma Er_adds ms : Er (c_dec_adds crec ms) (dec_adds drec ms).
  Proof.
    unfold c_dec_adds, dec_adds, c_byte. pose proof Er_len. pose proof Er_bits.
    er; try apply Er_adds_loop.
  Qed.

  Lemma Er_seq root ext : Er (c_dec_seq crec root ext) (dec_seq drec root ext).
  Proof.
    unfold c_dec_seq, dec_seq. pose proof Er_bits. pose proof Er_adds. pose proof Er_root.
    destruct ext as [adds|].
    - apply Er_bind; [apply Er_tick; auto|]. intros [|x bits']; [apply Er_fail|].
      apply Er_bind; [auto|]. intros fs. destruct x; er.
    - er.
  Qed.

  Lemma Er_list t : Er (c_dec_list crec t) (dec_list drec t).
  Proof.
    unfold c_dec_list, dec_list. apply Er_bind; [apply Er_uint_var|]. intros n bs.
    assert (H : fst (crep_n n (c_dec_elem crec t) ([], bs)) = rep_n n (dec_elem drec t) ([], bs)).
    { unfold crep_n, rep_n. destruct n; try reflexivity. apply Er_crep_pos.
      intros s. unfold c_dec_elem, dec_elem. rewrite <- (Hrec t (snd s)).
      destruct (crec t (snd s)) as [[[v r]|x] c]; reflexivity. }
    rewrite <- H. destruct (crep_n n (c_dec_elem crec t) ([], bs)) as [[[acc r]|x] c]; reflexivity.
  Qed.

  Lemma Er_choice root ext : Er (c_dec_choice crec root ext) (dec_choice drec root ext).
  Proof.
    unfold c_dec_choice, dec_choice, c_take. pose proof Er_tag. pose proof Er_len.
    destruct (existsb _ _); [apply Er_fail|].
    apply Er_bind; [assumption|]. intros tg.
    destruct (find_tag tg _) as [m|]; [pose proof (Hrec (m_ty m)); er|].
    destruct (find_tag tg _) as [m|]; [pose proof (Hrec (m_ty m)); er|].
    destruct ext; er.
  Qed.

  Lemma Er_step t : Er (c_dec_step numeric e crec t) (dec_step numeric e drec t).
  Proof.
    destruct t; cbn [c_dec_step dec_step].
    - unfold c_byte. er.
    - er.
    - pose proof (Er_int c). er.
    - apply Er_enum.
    - apply Er_bitstring.
    - pose proof (Er_sized sz). er.
    - pose proof (Er_sized sz). unfold c_lift. destruct (str_codec k) as [[f g]|]; er.
    - pose proof Er_len. unfold c_take, c_lift. er.
    - destruct isset; [destruct (existsb _ _); [apply Er_fail|]|]; apply Er_seq.
    - apply Er_list.
    - apply Er_choice.
    - destruct (lookup name e); [apply Hrec|apply Er_fail].
    - apply Hrec.
  Qed.
End ErComposite.

Lemma Er_dec numeric e : forall fuel t, Er (oer_dec_cost numeric fuel e t) (oer_dec numeric fuel e t).
Proof.
  induction fuel as [|f IH]; intros t; cbn [oer_dec_cost oer_dec]; [intros bs; reflexivity|].
  apply Er_tick. apply Er_step. exact IH.
Qed.

(** the instrumentation does not change behaviour, errors included *)
Theorem oer_dec_cost_erases numeric fuel e t inp :
  fst (oer_dec_cost numeric fuel e t inp) = oer_dec numeric fuel e t inp.
Proof. apply Er_dec. Qed.

Theorem oer_decode_cost_erases numeric fuel e t inp :
  fst (oer_decode_cost numeric fuel e t inp) = oer_decode numeric fuel e t inp.
Proof.
  unfold oer_decode_cost, oer_decode. rewrite <- oer_dec_cost_erases.
  destruct (oer_dec_cost numeric fuel e t inp) as [[[v r]|x] c]; reflexivity.
Qed.
Print Assumptions oer_dec_cost_erases.
Print Assumptions oer_decode_cost_erases.

(** * The cost analysis *)
(** [Cost (a, b, w) m]: on every input [m] makes at most [a + b * consumed]
    steps, where [consumed] is the number of octets consumed (on an error: the
    octets that were left); if [w] then a successful run consumes at least one
    octet. *)
Local Open Scope N_scope.

Record abw : Type := ABW { ka : N; kb : N; kw : bool }.

Definition Cost {A} (k : abw) (m : cdec A) : Prop :=
  forall bs,
    match m bs with
    | (Ok (_, r), c) =>
      (length r <= length bs)%nat /\
      c <= ka k + kb k * N.of_nat (length bs - length r) /\
      (kw k = true -> (length r < length bs)%nat)
    | (Err _, c) => c <= ka k + kb k * N.of_nat (length bs)
    end.

Definition kle (k k' : abw) : Prop :=
  ka k <= ka k' /\ kb k <= kb k' /\ (kw k' = true -> kw k = true).

Definition kret : abw := ABW 0 0 false.
Definition kfail : abw := ABW 0 0 true.
Definition kprim (w : bool) : abw := ABW 1 0 w.
Definition kseq (k1 k2 : abw) : abw := ABW (ka k1 + ka k2) (N.max (kb k1) (kb k2)) (kw k1 || kw k2).
Definition kalt (k1 k2 : abw) : abw := ABW (N.max (ka k1) (ka k2)) (N.max (kb k1) (kb k2)) (kw k1 && kw k2).
Definition ktick (n : N) (k : abw) : abw := ABW (n + ka k) (kb k) (kw k).

Lemma kle_refl k : kle k k.
Proof. unfold kle. repeat split; auto; lia. Qed.

Lemma kle_trans k1 k2 k3 : kle k1 k2 -> kle k2 k3 -> kle k1 k3.
Proof. unfold kle. intros (A1 & B1 & W1) (A2 & B2 & W2). repeat split; [lia | lia | auto]. Qed.

Lemma Cost_weaken {A} k k' (m : cdec A) : kle k k' -> Cost k m -> Cost k' m.
Proof.
  intros (Ha & Hb & Hw) H bs. specialize (H bs). destruct (m bs) as [[[x r]|er] c].
  - destruct H as (L & C & W). split; [exact L|]. split; [|auto].
    pose proof (N.mul_le_mono_r _ _ (N.of_nat (length bs - length r)) Hb). lia.
  - pose proof (N.mul_le_mono_r _ _ (N.of_nat (length bs)) Hb). lia.
Qed.

Lemma Cost_ret {A} (a : A) : Cost kret (cret a).
Proof. intros bs. cbn. split; [lia|]. split; [lia|discriminate]. Qed.

Lemma Cost_fail {A} x : Cost kfail (@cfail A x).
Proof. intros bs. cbn. lia. Qed.

Lemma kle_fail k : kle kfail k.
Proof. unfold kle, kfail. cbn. repeat split; try lia. Qed.

Lemma Cost_fail_any {A} k x : Cost k (@cfail A x).
Proof. eapply Cost_weaken; [apply kle_fail|apply Cost_fail]. Qed.

Lemma Cost_tick {A} n k (m : cdec A) : Cost k m -> Cost (ktick n k) (tick n m).
Proof.
  intros H bs. specialize (H bs). unfold tick. destruct (m bs) as [[[x r]|er] c]; cbn [ka kb kw ktick].
  - destruct H as (L & C & W). split; [exact L|]. split; [lia|exact W].
  - lia.
Qed.

Lemma arith_seq a1 b1 a2 b2 c1 c2 X Y :
  c1 <= a1 + b1 * X -> c2 <= a2 + b2 * Y -> c1 + c2 <= a1 + a2 + N.max b1 b2 * (X + Y).
Proof.
  intros H1 H2.
  pose proof (N.mul_le_mono_r _ _ X (N.le_max_l b1 b2)).
  pose proof (N.mul_le_mono_r _ _ Y (N.le_max_r b1 b2)).
  rewrite N.mul_add_distr_l. lia.
Qed.

Lemma arith_seq_le a1 b1 a2 b2 c1 c2 X Y Z :
  c1 <= a1 + b1 * X -> c2 <= a2 + b2 * Y -> X + Y <= Z -> c1 + c2 <= a1 + a2 + N.max b1 b2 * Z.
Proof.
  intros H1 H2 H3. pose proof (arith_seq _ _ _ _ _ _ _ _ H1 H2).
  pose proof (N.mul_le_mono_l _ _ (N.max b1 b2) H3). lia.
Qed.

Lemma Cost_bind {A B} k1 k2 (m : cdec A) (f : A -> cdec B) :
  Cost k1 m -> (forall x, Cost k2 (f x)) -> Cost (kseq k1 k2) (cbind m f).
Proof.
  intros H1 H2 bs. unfold cbind. specialize (H1 bs).
  destruct (m bs) as [[[x r]|er] c1]; cbn [ka kb kw kseq].
  - destruct H1 as (L1 & C1 & W1). specialize (H2 x r).
    destruct (f x r) as [[[y r2]|er2] c2].
    + destruct H2 as (L2 & C2 & W2). split; [lia|]. split.
      * eapply arith_seq_le; [exact C1 | exact C2 | lia].
      * intros Hw. apply orb_prop in Hw. destruct Hw as [Hw|Hw]; [specialize (W1 Hw)|specialize (W2 Hw)]; lia.
    + eapply arith_seq_le; [exact C1 | exact H2 | lia].
  - pose proof (N.mul_le_mono_r _ _ (N.of_nat (length bs)) (N.le_max_l (kb k1) (kb k2))). lia.
Qed.

Lemma kle_alt_l k1 k2 : kle k1 (kalt k1 k2).
Proof. unfold kle, kalt; cbn [ka kb kw]. split; [lia|]. split; [lia|]. intros Hw; apply andb_prop in Hw; tauto. Qed.
Lemma kle_alt_r k1 k2 : kle k2 (kalt k1 k2).
Proof. unfold kle, kalt; cbn [ka kb kw]. split; [lia|]. split; [lia|]. intros Hw; apply andb_prop in Hw; tauto. Qed.

Lemma Cost_if {A} k1 k2 (c : bool) (m1 m2 : cdec A) :
  Cost k1 m1 -> Cost k2 m2 -> Cost (kalt k1 k2) (if c then m1 else m2).
Proof.
  intros H1 H2. destruct c; [eapply Cost_weaken; [apply kle_alt_l|exact H1] | eapply Cost_weaken; [apply kle_alt_r|exact H2]].
Qed.

(** primitives *)
Lemma Cost_byte : Cost (kprim true) c_byte.
Proof.
  intros bs. unfold c_byte, prim, dec_byte. destruct bs as [|b r]; cbn [ka kb kw kprim length]; [lia|].
  split; [lia|]. split; [lia|]. intros _. lia.
Qed.

Lemma Cost_take n : Cost (kprim (0 <? n)%Z) (c_take n).
Proof.
  intros bs. unfold c_take, prim, dec_take. cbn [ka kb kw kprim].
  destruct (n <? 0)%Z eqn:E0; [lia|]. destruct (Z.of_nat (length bs) <? n)%Z eqn:E1; [lia|].
  rewrite skipn_length. split; [lia|]. split; [lia|]. intros Hw. lia.
Qed.

Lemma kle_prim_false w : kle (kprim w) (kprim false).
Proof. unfold kle, kprim; cbn. repeat split; try lia; try discriminate. Qed.

Lemma Cost_take_any n : Cost (kprim false) (c_take n).
Proof. eapply Cost_weaken; [apply kle_prim_false|apply Cost_take]. Qed.

Lemma Cost_lift {A} (r : result A) : Cost (kprim false) (c_lift r).
Proof.
  intros bs. unfold c_lift, prim, lift. destruct r; cbn [ka kb kw kprim]; [|lia].
  split; [lia|]. split; [lia|discriminate].
Qed.

Definition k_len : abw := kseq (kprim true) (kalt kret (kseq (kprim false) kret)).
Lemma Cost_len : Cost k_len c_len.
Proof.
  unfold c_len, k_len. apply Cost_bind; [apply Cost_byte|]. intros b.
  apply Cost_if; [apply Cost_ret|]. apply Cost_bind; [apply Cost_take_any|]. intros. apply Cost_ret.
Qed.

Definition k_uint_var : abw := kseq k_len (kseq (kprim false) kret).
Lemma Cost_uint_var : Cost k_uint_var c_uint_var.
Proof.
  unfold c_uint_var, k_uint_var. apply Cost_bind; [apply Cost_len|]. intros n.
  apply Cost_bind; [apply Cost_take_any|]. intros. apply Cost_ret.
Qed.

Definition k_sint_body : abw := kseq (kprim false) kret.
Lemma Cost_sint_body n : Cost k_sint_body (c_sint_body n).
Proof.
  unfold c_sint_body, k_sint_body. apply Cost_bind; [apply Cost_take_any|]. intros ds.
  destruct (n =? 0)%Z; [apply Cost_fail_any|apply Cost_ret].
Qed.

Definition k_sint_var : abw := kseq k_len k_sint_body.
Lemma Cost_sint_var : Cost k_sint_var c_sint_var.
Proof. unfold c_sint_var, k_sint_var. apply Cost_bind; [apply Cost_len|]. intros. apply Cost_sint_body. Qed.

Definition k_fixed (n : Z) : abw := kseq (kprim (0 <? n)%Z) kret.
Definition k_int (c : intc) : abw :=
  match int_form_of c with
  | IFixU n | IFixS n => k_fixed n
  | IVarU => k_uint_var
  | IVarS => k_sint_var
  end.
Lemma Cost_int c : Cost (k_int c) (c_int c).
Proof.
  unfold c_int, k_int. destruct (int_form_of c); unfold c_fixed_u, c_fixed_s, k_fixed.
  - apply Cost_bind; [apply Cost_take|]. intros. apply Cost_ret.
  - apply Cost_bind; [apply Cost_take|]. intros. apply Cost_ret.
  - apply Cost_uint_var.
  - apply Cost_sint_var.
Qed.

Definition k_bits (n : Z) : abw := kseq (kprim (0 <? (n + 7) / 8)%Z) kret.
Lemma Cost_bits n : Cost (k_bits n) (c_bits n).
Proof.
  unfold c_bits, k_bits. destruct (n <? 0)%Z; [apply Cost_fail_any|].
  apply Cost_bind; [apply Cost_take|]. intros. apply Cost_ret.
Qed.

Definition k_tag_rest : abw := ABW 1 1 true.
Lemma Cost_tag_rest : Cost k_tag_rest c_tag_rest.
Proof.
  intros bs. unfold k_tag_rest. cbn [ka kb kw]. induction bs as [|b r IH]; cbn [c_tag_rest length]; [lia|].
  destruct (b <? 128)%Z.
  - split; [lia|]. split; [lia|]. intros _. lia.
  - destruct (c_tag_rest r) as [[[t r']|x] c].
    + destruct IH as (L & C & W). split; [lia|]. split; [|intros _; lia].
      replace (S (length r) - length r')%nat with (S (length r - length r')) by lia. lia.
    + lia.
Qed.

Definition k_tag : abw := kseq (kprim true) (kalt (kseq k_tag_rest kret) kret).
Lemma Cost_tag : Cost k_tag c_tag.
Proof.
  unfold c_tag, k_tag. apply Cost_bind; [apply Cost_byte|]. intros b.
  apply Cost_if; [|apply Cost_ret]. apply Cost_bind; [apply Cost_tag_rest|]. intros. apply Cost_ret.
Qed.

Definition k_enum : abw := kseq (kprim true) (kseq (kalt k_sint_body kret) kret).
Lemma Cost_enum numeric root ext : Cost k_enum (c_enum numeric root ext).
Proof.
  unfold c_enum, k_enum. apply Cost_bind; [apply Cost_byte|]. intros b.
  apply Cost_bind; [apply Cost_if; [apply Cost_sint_body|apply Cost_ret]|]. intros z.
  destruct (find_name z _); [apply Cost_ret|]. destruct ext; [apply Cost_ret|apply Cost_fail_any].
Qed.

Definition k_bitstring (sz : size) : abw :=
  match fixed_size sz with
  | None => kseq k_len (kseq (kprim true) (kseq (kprim false) kret))
  | Some n => kseq (kprim (0 <? (n + 7) / 8)%Z) kret
  end.
Lemma Cost_bitstring sz : Cost (k_bitstring sz) (c_bitstring sz).
Proof.
  unfold c_bitstring, k_bitstring. destruct (fixed_size sz).
  - apply Cost_bind; [apply Cost_take|]. intros. apply Cost_ret.
  - apply Cost_bind; [apply Cost_len|]. intros l. apply Cost_bind; [apply Cost_byte|]. intros u.
    apply Cost_bind; [apply Cost_take_any|]. intros. apply Cost_ret.
Qed.

Definition k_sized (sz : size) : abw :=
  match fixed_size sz with
  | None => kseq k_len (kprim false)
  | Some n => kprim (0 <? n)%Z
  end.
Lemma Cost_sized sz : Cost (k_sized sz) (c_sized sz).
Proof.
  unfold c_sized, k_sized. destruct (fixed_size sz); [apply Cost_take|].
  apply Cost_bind; [apply Cost_len|]. intros. apply Cost_take_any.
Qed.

(** OBJECT IDENTIFIER contents: one step per octet, paid by the octet *)
Definition k_oid_body : abw := ABW 2 1 false.
Lemma Cost_oid_body l :
  Cost k_oid_body (clet ds := c_take l in
                   clet arcs := tick (N.of_nat (length ds)) (c_lift (dec_oid ds)) in cret (VOid arcs)).
Proof.
  intros bs. unfold c_lift, c_take, cbind, tick, prim, lift, cret, dec_take, k_oid_body. cbn [ka kb kw].
  destruct (l <? 0)%Z eqn:E0; [lia|]. destruct (Z.of_nat (length bs) <? l)%Z eqn:E1; [lia|].
  assert (Hl : length (firstn (Z.to_nat l) bs) = Z.to_nat l) by (rewrite firstn_length; lia).
  destruct (dec_oid (firstn (Z.to_nat l) bs)) as [arcs|x]; rewrite Hl, ?skipn_length.
  - split; [lia|]. split; [lia|discriminate].
  - lia.
Qed.
Definition k_oid : abw := kseq k_len k_oid_body.

(** * Composite types, given the analysis [kr] of the component types *)
Section KComposite.
  Variable kr : ty -> abw.

  Fixpoint k_root (ms : list (member_of ty)) : abw :=
    match ms with
    | [] => kret
    | m :: ms' =>
      let r := k_root ms' in
      ktick 1 (match m_opt m with
               | Mandatory => kseq (kr (m_ty m)) (kseq r kret)
               | _ => kalt (kseq (kr (m_ty m)) (kseq r kret)) (kseq r kret)
               end)
    end.

  (** cost per octet of a present addition: it consumes at least the octet of
      its length determinant *)
  Fixpoint k_adds_B (ms : list (member_of ty)) : N :=
    match ms with
    | [] => 4
    | m :: r => N.max (4 + ka (kr (m_ty m)) + kb (kr (m_ty m))) (k_adds_B r)
    end.

  Definition k_adds_tail (ms : list (member_of ty)) : abw :=
    ABW (1 + N.max 8 (k_adds_B ms)) (N.max 8 (k_adds_B ms)) false.
  Definition k_adds (ms : list (member_of ty)) : abw :=
    kseq k_len (kseq (kprim true) (k_adds_tail ms)).

  Definition k_seq (root : list (member_of ty)) (ext : option (list (addition_of ty))) : abw :=
    let nopt := Z.of_nat (length (filter is_optional_member root)) in
    match ext with
    | None => kseq (ktick (Z.to_N nopt) (k_bits nopt)) (kseq (k_root root) kret)
    | Some adds =>
      kseq (ktick (Z.to_N (1 + nopt)) (k_bits (1 + nopt)))
           (kseq (k_root root) (kalt (kseq (k_adds (flat_adds adds)) kret) kret))
    end.

  (** a loop whose body consumes at least one octet per successful iteration *)
  Definition k_rep (x : abw) : abw := ABW (1 + ka x) (1 + ka x + kb x) false.
  Definition k_list (t : ty) : abw := kseq k_uint_var (k_rep (kr t)).

  Fixpoint k_alts (ms : list (member_of ty)) : abw :=
    match ms with
    | [] => kfail
    | m :: r => kalt (kr (m_ty m)) (k_alts r)
    end.

  Definition k_choice (root : list (member_of ty)) (ext : option (list (member_of ty))) : abw :=
    kseq k_tag
         (kalt (kseq (k_alts root) kret)
               (kalt (kseq k_len (kseq (k_alts (match ext with Some x => x | None => [] end)) kret))
                     (kseq k_len (kseq (kprim false) kret)))).

  Definition k_step (e : env) (t : ty) : abw :=
    match t with
    | TBool => kseq (kprim true) kret
    | TNull => kret
    | TInt c => kseq (k_int c) kret
    | TEnum _ _ => k_enum
    | TBits _ sz => k_bitstring sz
    | TOctets sz => kseq (k_sized sz) kret
    | TStr k sz _ =>
      match str_codec k with
      | Some _ => kseq (k_sized sz) (kseq (kprim false) kret)
      | None => kfail
      end
    | TOid => k_oid
    | TSeq _ root ext => k_seq root ext
    | TSeqOf _ t' _ => k_list t'
    | TChoice root ext => k_choice root ext
    | TRef n => match lookup n e with Some t' => kr t' | None => kfail end
    | TTag _ t' => kr t'
    end.
End KComposite.

Fixpoint Kabw (e : env) (fuel : nat) (t : ty) {struct fuel} : abw :=
  match fuel with
  | O => ABW 1 0 true
  | S f => ktick 1 (k_step (Kabw e f) e t)
  end.

(** the constant of the bound *)
Definition Ko (e : env) (fuel : nat) (t : ty) : N := ka (Kabw e fuel t) + kb (Kabw e fuel t).

(** no SEQUENCE OF / SET OF reached from [t] (through components, alternatives,
    additions and references, down to depth [fuel]) has an element type that
    can be decoded without consuming an octet (NULL, a SEQUENCE without
    marker whose components are all zero-width, a string of fixed SIZE(0)...) *)
Fixpoint no_zero_width_elements (e : env) (fuel : nat) (t : ty) {struct fuel} : bool :=
  match fuel with
  | O => true
  | S f =>
    match t with
    | TSeq _ root ext =>
      forallb (fun m => no_zero_width_elements e f (m_ty m)) root &&
      forallb (fun m => no_zero_width_elements e f (m_ty m))
              (flat_adds (match ext with Some x => x | None => [] end))
    | TSeqOf _ t' _ => kw (Kabw e f t') && no_zero_width_elements e f t'
    | TChoice root ext =>
      forallb (fun m => no_zero_width_elements e f (m_ty m)) root &&
      forallb (fun m => no_zero_width_elements e f (m_ty m)) (match ext with Some x => x | None => [] end)
    | TRef n => match lookup n e with Some t' => no_zero_width_elements e f t' | None => true end
    | TTag _ t' => no_zero_width_elements e f t'
    | _ => true
    end
  end.

Lemma arith_paid a b c0 X : 1 <= X -> c0 <= a + b * X -> 1 + c0 <= (1 + a + b) * X.
Proof. intros H1 H2. nia. Qed.

Lemma mul_split (A : N) (a b c : nat) : (c <= b <= a)%nat ->
  A * N.of_nat (a - b) + A * N.of_nat (b - c) = A * N.of_nat (a - c).
Proof. intros H. rewrite <- N.mul_add_distr_l. f_equal. lia. Qed.

(** [crep_pos] over a body that pays for itself with the octets it consumes *)
Section Rep.
  Context {S : Type} (len : S -> nat) (f : S -> result S * N) (A0 A : N).
  Hypothesis Hf : forall s,
    match f s with
    | (Ok s', c) => (len s' <= len s)%nat /\ c <= A * N.of_nat (len s - len s')
    | (Err _, c) => c <= A0 + A * N.of_nat (len s)
    end.

  Lemma crep_pos_bound p : forall s,
    match crep_pos p f s with
    | (Ok s', c) => (len s' <= len s)%nat /\ c <= A * N.of_nat (len s - len s')
    | (Err _, c) => c <= A0 + A * N.of_nat (len s)
    end.
  Proof.
    assert (Hmono : forall a b : nat, (b <= a)%nat -> A * N.of_nat b <= A * N.of_nat a)
      by (intros a b H; apply N.mul_le_mono_l; lia).
    induction p as [q IH|q IH|]; intros s; cbn [crep_pos]; [| |apply Hf].
    - pose proof (Hf s) as H0. destruct (f s) as [[s0|x] c0]; [|exact H0]. destruct H0 as [L0 C0].
      pose proof (IH s0) as H1. destruct (crep_pos q f s0) as [[s1|x] c1].
      + destruct H1 as [L1 C1]. pose proof (IH s1) as H2. destruct (crep_pos q f s1) as [[s2|x] c2].
        * destruct H2 as [L2 C2]. split; [lia|].
          rewrite <- (mul_split A (len s) (len s0) (len s2)) by lia.
          rewrite <- (mul_split A (len s0) (len s1) (len s2)) by lia. lia.
        * pose proof (mul_split A (len s) (len s0) (len s1) ltac:(lia)).
          pose proof (mul_split A (len s) (len s1) 0 ltac:(lia)). rewrite !Nat.sub_0_r in *. lia.
      + pose proof (mul_split A (len s) (len s0) 0 ltac:(lia)). rewrite !Nat.sub_0_r in *. lia.
    - pose proof (IH s) as H1. destruct (crep_pos q f s) as [[s1|x] c1]; [|exact H1]. destruct H1 as [L1 C1].
      pose proof (IH s1) as H2. destruct (crep_pos q f s1) as [[s2|x] c2].
      + destruct H2 as [L2 C2]. split; [lia|].
        rewrite <- (mul_split A (len s) (len s1) (len s2)) by lia. lia.
      + pose proof (mul_split A (len s) (len s1) 0 ltac:(lia)). rewrite !Nat.sub_0_r in *. lia.
  Qed.
End Rep.

Section CostComposite.
  Variables (numeric : bool) (e : env) (rec : ty -> cdec value) (kr : ty -> abw).

  Definition okm (m : member_of ty) : Prop := Cost (kr (m_ty m)) (rec (m_ty m)).

  Lemma Cost_root ms : Forall okm ms -> forall bits, Cost (k_root kr ms) (c_dec_root rec ms bits).
  Proof.
    induction 1 as [|m ms Hm _ IH]; intros bits; cbn [k_root c_dec_root]; [apply Cost_ret|].
    apply Cost_tick.
    assert (Hp : forall b, Cost (kseq (kr (m_ty m)) (kseq (k_root kr ms) kret))
                   (clet v := rec (m_ty m) in clet fs := c_dec_root rec ms b in cret ((m_name m, v) :: fs))).
    { intros b. apply Cost_bind; [exact Hm|]. intros v. apply Cost_bind; [apply IH|]. intros. apply Cost_ret. }
    destruct (m_opt m) as [| |d]; [apply Hp| |].
    - destruct bits as [|[|] bits']; [apply Cost_fail_any| |].
      + eapply Cost_weaken; [apply kle_alt_l|apply Hp].
      + eapply Cost_weaken; [apply kle_alt_r|].
        eapply Cost_weaken; [|apply IH]. unfold kle, kseq, kret; cbn [ka kb kw]. repeat split; try lia.
        all: try (intros Hw; rewrite orb_false_r in Hw; exact Hw).
    - destruct bits as [|[|] bits']; [apply Cost_fail_any| |].
      + eapply Cost_weaken; [apply kle_alt_l|apply Hp].
      + eapply Cost_weaken; [apply kle_alt_r|].
        apply Cost_bind; [apply IH|]. intros. apply Cost_ret.
  Qed.

  Lemma k_adds_B_ge ms : 4 <= k_adds_B kr ms.
  Proof. induction ms as [|m r IH]; cbn [k_adds_B]; lia. Qed.

  Lemma k_adds_B_in m ms : In m ms -> 4 + ka (kr (m_ty m)) + kb (kr (m_ty m)) <= k_adds_B kr ms.
  Proof. induction ms as [|m0 r IH]; cbn [k_adds_B In]; [tauto|]. intros [->|H]; [lia|]. specialize (IH H). lia. Qed.

  (** the loop of decode_additions: one step per presence bit, a present
      addition pays with the octets it consumes *)
  Lemma Cost_adds_loop B pres : forall ms, Forall okm ms -> k_adds_B kr ms <= B -> forall bs,
    match c_dec_adds_loop rec ms pres bs with
    | (Ok (_, r), c) =>
      (length r <= length bs)%nat /\ c <= N.of_nat (length pres) + B * N.of_nat (length bs - length r)
    | (Err _, c) => c <= N.of_nat (length pres) + B + B * N.of_nat (length bs)
    end.
  Proof.
    induction pres as [|p pres IH]; intros ms Hms HB bs; cbn [c_dec_adds_loop].
    - cbn. split; lia.
    - assert (Hmono : forall a b : nat, (b <= a)%nat -> B * N.of_nat b <= B * N.of_nat a)
        by (intros a b H; apply N.mul_le_mono_l; lia).
      unfold tick. cbn [length]. destruct ms as [|m ms'].
      + pose proof (k_adds_B_ge []) as HB4. cbn [k_adds_B] in HB.
        destruct p.
        * unfold cbind at 1. pose proof (Cost_len bs) as HL. destruct (c_len bs) as [[[l r1]|x] c1].
          2:{ cbn [ka kb kw k_len kseq kalt kprim kret] in HL. nia. }
          destruct HL as (L1 & C1 & W1). specialize (W1 eq_refl). cbn [ka kb kw k_len kseq kalt kprim kret] in C1.
          unfold cbind. pose proof (Cost_take_any l r1) as HT. destruct (c_take l r1) as [[[ds r2]|x] c2].
          2:{ cbn [ka kb kw kprim] in HT. specialize (Hmono (length bs) 1%nat ltac:(lia)). nia. }
          destruct HT as (L2 & C2 & _). cbn [ka kb kw kprim] in C2.
          specialize (IH [] Hms HB r2). destruct (c_dec_adds_loop rec [] pres r2) as [[[fs r3]|x] c3].
          -- destruct IH as [L3 C3]. split; [lia|].
             pose proof (mul_split B (length bs) (length r2) (length r3) ltac:(lia)).
             assert (1 <= N.of_nat (length bs - length r2)) by lia. nia.
          -- pose proof (mul_split B (length bs) (length r2) 0 ltac:(lia)). rewrite !Nat.sub_0_r in *.
             assert (1 <= N.of_nat (length bs - length r2)) by lia. nia.
        * specialize (IH [] Hms HB bs). destruct (c_dec_adds_loop rec [] pres bs) as [[[fs r3]|x] c3]; [destruct IH; split|]; lia.
      + inversion Hms as [|? ? Hm Hms']; subst.
        assert (HB' : k_adds_B kr ms' <= B) by (cbn [k_adds_B] in HB; lia).
        assert (HBm : 4 + ka (kr (m_ty m)) + kb (kr (m_ty m)) <= B) by (cbn [k_adds_B] in HB; lia).
        destruct p.
        * unfold cbind at 1. pose proof (Cost_len bs) as HL. destruct (c_len bs) as [[[l r1]|x] c1].
          2:{ cbn [ka kb kw k_len kseq kalt kprim kret] in HL. nia. }
          destruct HL as (L1 & C1 & W1). specialize (W1 eq_refl). cbn [ka kb kw k_len kseq kalt kprim kret] in C1.
          unfold cbind at 1. pose proof (Hm r1) as HT. destruct (rec (m_ty m) r1) as [[[v r2]|x] c2].
          2:{ pose proof (Hmono (length bs) (length r1) ltac:(lia)).
              assert (kb (kr (m_ty m)) * N.of_nat (length r1) <= B * N.of_nat (length r1)) by (apply N.mul_le_mono_r; lia).
              assert (1 <= N.of_nat (length bs)) by lia. nia. }
          destruct HT as (L2 & C2 & _).
          assert (kb (kr (m_ty m)) * N.of_nat (length r1 - length r2) <= kb (kr (m_ty m)) * N.of_nat (length bs - length r2))
            by (apply N.mul_le_mono_l; lia).
          unfold cbind. specialize (IH ms' Hms' HB' r2).
          destruct (c_dec_adds_loop rec ms' pres r2) as [[[fs r3]|x] c3].
          -- destruct IH as [L3 C3]. cbn [cret]. split; [lia|].
             pose proof (mul_split B (length bs) (length r2) (length r3) ltac:(lia)).
             assert (1 <= N.of_nat (length bs - length r2)) by lia. nia.
          -- pose proof (mul_split B (length bs) (length r2) 0 ltac:(lia)). rewrite !Nat.sub_0_r in *.
             assert (1 <= N.of_nat (length bs - length r2)) by lia. nia.
        * specialize (IH ms' Hms' HB' bs). destruct (c_dec_adds_loop rec ms' pres bs) as [[[fs r3]|x] c3]; [destruct IH; split|]; lia.
  Qed.
End CostComposite.

Section CostComposite2.
  Variables (numeric : bool) (e : env) (rec : ty -> cdec value) (kr : ty -> abw).
  Let okm := okm rec kr.

  Lemma Cost_adds_tail ms n : Forall okm ms ->
    Cost (k_adds_tail kr ms) (clet pres := c_bits n in c_dec_adds_loop rec ms pres).
  Proof.
    intros Hms bs. unfold k_adds_tail. cbn [ka kb kw]. set (B := N.max 8 (k_adds_B kr ms)).
    unfold cbind at 1. unfold c_bits. destruct (n <? 0)%Z eqn:En; [cbn; lia|].
    unfold cbind at 1. unfold c_take, prim, dec_take.
    destruct ((n + 7) / 8 <? 0)%Z eqn:E0; [lia|].
    destruct (Z.of_nat (length bs) <? (n + 7) / 8)%Z eqn:E1; [lia|].
    unfold cret. set (ds := firstn (Z.to_nat ((n + 7) / 8)) bs). set (r1 := skipn (Z.to_nat ((n + 7) / 8)) bs).
    set (pres := firstn (Z.to_nat n) (unpack_bits ds)).
    assert (Lr1 : length r1 = (length bs - Z.to_nat ((n + 7) / 8))%nat) by (unfold r1; apply skipn_length).
    assert (Lds : length ds = Z.to_nat ((n + 7) / 8)) by (unfold ds; rewrite firstn_length; lia).
    assert (Lp : (length pres <= 8 * length ds)%nat).
    { unfold pres. rewrite firstn_length. etransitivity; [apply Nat.le_min_r|].
      unfold unpack_bits. clear. induction ds as [|b r IH]; cbn [flat_map length]; [lia|].
      rewrite app_length. cbn [bits_of_byte length]. lia. }
    pose proof (Cost_adds_loop rec kr B pres ms Hms ltac:(unfold B; lia) r1) as HLoop.
    destruct (c_dec_adds_loop rec ms pres r1) as [[[fs r2]|x] c2].
    - destruct HLoop as [L2 C2]. split; [lia|]. split; [|discriminate].
      assert (HB8 : 8 <= B) by (unfold B; lia).
      pose proof (mul_split B (length bs) (length r1) (length r2) ltac:(lia)).
      assert (N.of_nat (length pres) <= B * N.of_nat (length bs - length r1)) by nia. lia.
    - assert (HB8 : 8 <= B) by (unfold B; lia).
      pose proof (mul_split B (length bs) (length r1) 0 ltac:(lia)). rewrite !Nat.sub_0_r in *.
      assert (N.of_nat (length pres) <= B * N.of_nat (length bs - length r1)) by nia. lia.
  Qed.

  Lemma Cost_adds ms : Forall okm ms -> Cost (k_adds kr ms) (c_dec_adds rec ms).
  Proof.
    intros Hms. unfold c_dec_adds, k_adds. apply Cost_bind; [apply Cost_len|]. intros l.
    apply Cost_bind; [apply Cost_byte|]. intros u. apply Cost_adds_tail. exact Hms.
  Qed.

  Lemma Cost_seq root ext :
    Forall okm root -> Forall okm (flat_adds (match ext with Some x => x | None => [] end)) ->
    Cost (k_seq kr root ext) (c_dec_seq rec root ext).
  Proof.
    intros Hr Ha. unfold c_dec_seq, k_seq. destruct ext as [adds|].
    - apply Cost_bind; [apply Cost_tick; apply Cost_bits|]. intros [|x bits']; [apply Cost_fail_any|].
      apply Cost_bind; [apply Cost_root; exact Hr|]. intros fs.
      apply Cost_if; [|apply Cost_ret]. apply Cost_bind; [apply Cost_adds; exact Ha|]. intros. apply Cost_ret.
    - apply Cost_bind; [apply Cost_tick; apply Cost_bits|]. intros bits.
      apply Cost_bind; [apply Cost_root; exact Hr|]. intros. apply Cost_ret.
  Qed.

  Lemma Cost_list t : Cost (kr t) (rec t) -> kw (kr t) = true -> Cost (k_list kr t) (c_dec_list rec t).
  Proof.
    intros Ht Hw. unfold c_dec_list, k_list. apply Cost_bind; [apply Cost_uint_var|]. intros n bs.
    unfold k_rep. cbn [ka kb kw]. set (a := ka (kr t)) in *. set (b := kb (kr t)) in *.
    assert (Hf : forall s : list value * list Z,
      match c_dec_elem rec t s with
      | (Ok s', c) => (length (snd s') <= length (snd s))%nat /\
                      c <= (1 + a + b) * N.of_nat (length (snd s) - length (snd s'))
      | (Err _, c) => c <= (1 + a) + (1 + a + b) * N.of_nat (length (snd s))
      end).
    { intros s. unfold c_dec_elem. specialize (Ht (snd s)). destruct (rec t (snd s)) as [[[v r]|x] c].
      - destruct Ht as (L & C & W). specialize (W Hw). cbn [snd]. split; [lia|].
        apply arith_paid; [lia|exact C].
      - fold a b in Ht. assert (b * N.of_nat (length (snd s)) <= (1 + a + b) * N.of_nat (length (snd s)))
          by (apply N.mul_le_mono_r; lia). lia. }
    unfold crep_n. destruct n as [|p|p].
    - cbn. split; [lia|]. split; [lia|discriminate].
    - pose proof (crep_pos_bound (fun s : list value * list Z => length (snd s)) _ _ _ Hf p ([], bs)) as H.
      cbn [snd] in H. destruct (crep_pos p (c_dec_elem rec t) ([], bs)) as [[[acc r]|x] c].
      + cbn [snd] in H. destruct H as [L C]. split; [exact L|]. split; [lia|discriminate].
      + exact H.
    - cbn. split; [lia|]. split; [lia|discriminate].
  Qed.

  Lemma kle_alts m ms : In m ms -> kle (kr (m_ty m)) (k_alts kr ms).
  Proof.
    induction ms as [|m0 r IH]; cbn [In k_alts]; [tauto|]. intros [->|H]; [apply kle_alt_l|].
    eapply kle_trans; [apply IH; exact H|apply kle_alt_r].
  Qed.

  Lemma find_tag_In tg auto ms : forall i m, find_tag tg (alt_tags auto i ms) = Some m -> In m ms.
  Proof.
    induction ms as [|m0 r IH]; intros i m; cbn [alt_tags find_tag]; [discriminate|].
    destruct (alt_tag auto i (m_ty m0)) as [tg'|]; [destruct (zlist_eqb tg tg')|].
    - intros H. left. congruence.
    - intros H. right. eapply IH. exact H.
    - intros H. right. eapply IH. exact H.
  Qed.

  Lemma Cost_choice root ext :
    Forall okm root -> Forall okm (match ext with Some x => x | None => [] end) ->
    Cost (k_choice kr root ext) (c_dec_choice rec root ext).
  Proof.
    intros Hr Ha. unfold c_dec_choice, k_choice. destruct (existsb _ _); [apply Cost_fail_any|].
    apply Cost_bind; [apply Cost_tag|]. intros tg.
    destruct (find_tag tg (alt_tags _ 0 root)) as [m|] eqn:E1.
    { eapply Cost_weaken; [apply kle_alt_l|]. pose proof (find_tag_In _ _ _ _ _ E1) as Hin.
      apply Cost_bind; [|intros; apply Cost_ret].
      eapply Cost_weaken; [apply kle_alts; exact Hin|]. rewrite Forall_forall in Hr. apply Hr. exact Hin. }
    eapply Cost_weaken; [apply kle_alt_r|].
    destruct (find_tag tg (alt_tags _ (Z.of_nat (length root)) _)) as [m|] eqn:E2.
    { eapply Cost_weaken; [apply kle_alt_l|]. pose proof (find_tag_In _ _ _ _ _ E2) as Hin.
      apply Cost_bind; [apply Cost_len|]. intros l. apply Cost_bind; [|intros; apply Cost_ret].
      eapply Cost_weaken; [apply kle_alts; exact Hin|]. rewrite Forall_forall in Ha. apply Ha. exact Hin. }
    eapply Cost_weaken; [apply kle_alt_r|].
    destruct ext; [|apply Cost_fail_any].
    apply Cost_bind; [apply Cost_len|]. intros l0. apply Cost_bind; [apply Cost_take_any|]. intros. apply Cost_ret.
  Qed.
End CostComposite2.

Lemma forallb_Forall {A} (p : A -> bool) (P : A -> Prop) l :
  (forall x, p x = true -> P x) -> forallb p l = true -> Forall P l.
Proof.
  intros H. induction l as [|x l IH]; cbn [forallb]; intros Hf; constructor.
  - apply H. apply andb_prop in Hf. tauto.
  - apply IH. apply andb_prop in Hf. tauto.
Qed.

Lemma Cost_dec numeric e : forall fuel t,
  no_zero_width_elements e fuel t = true -> Cost (Kabw e fuel t) (oer_dec_cost numeric fuel e t).
Proof.
  induction fuel as [|f IH]; intros t Hz.
  - intros bs. cbn. lia.
  - cbn [Kabw oer_dec_cost]. apply Cost_tick.
    assert (Hms : forall ms, forallb (fun m => no_zero_width_elements e f (m_ty m)) ms = true ->
                             Forall (okm (oer_dec_cost numeric f e) (Kabw e f)) ms).
    { intros ms. apply forallb_Forall. intros m Hm. apply IH. exact Hm. }
    destruct t; cbn [k_step c_dec_step]; cbn [no_zero_width_elements] in Hz.
    + apply Cost_bind; [apply Cost_byte|]. intros. apply Cost_ret.
    + apply Cost_ret.
    + apply Cost_bind; [apply Cost_int|]. intros. apply Cost_ret.
    + apply Cost_enum.
    + apply Cost_bitstring.
    + apply Cost_bind; [apply Cost_sized|]. intros. apply Cost_ret.
    + destruct (str_codec k) as [[g1 g2]|]; [|apply Cost_fail].
      apply Cost_bind; [apply Cost_sized|]. intros ds. apply Cost_bind; [apply Cost_lift|]. intros. apply Cost_ret.
    + unfold k_oid. apply Cost_bind; [apply Cost_len|]. intros l. apply Cost_oid_body.
    + apply andb_prop in Hz. destruct Hz as [Hz1 Hz2].
      destruct isset; [destruct (existsb _ _); [apply Cost_fail_any|]|]; apply Cost_seq; auto.
    + apply andb_prop in Hz. destruct Hz as [Hz1 Hz2]. apply Cost_list; [apply IH; exact Hz2|exact Hz1].
    + apply andb_prop in Hz. destruct Hz as [Hz1 Hz2]. apply Cost_choice; auto.
    + destruct (lookup name e); [apply IH; exact Hz|apply Cost_fail].
    + apply IH. exact Hz.
Qed.

(** THE WORK BOUND: any input, accepted or rejected *)
Theorem oer_dec_cost_bound_ab numeric e fuel t inp :
  no_zero_width_elements e fuel t = true ->
  snd (oer_dec_cost numeric fuel e t inp)
  <= ka (Kabw e fuel t) + kb (Kabw e fuel t) * N.of_nat (length inp).
Proof.
  intros Hz. pose proof (Cost_dec numeric e fuel t Hz inp) as H.
  destruct (oer_dec_cost numeric fuel e t inp) as [[[v r]|x] c]; cbn [snd]; [|exact H].
  destruct H as (L & C & _).
  assert (kb (Kabw e fuel t) * N.of_nat (length inp - length r) <= kb (Kabw e fuel t) * N.of_nat (length inp))
    by (apply N.mul_le_mono_l; lia). lia.
Qed.

Theorem oer_dec_cost_bound numeric e fuel t inp :
  no_zero_width_elements e fuel t = true ->
  snd (oer_dec_cost numeric fuel e t inp) <= Ko e fuel t * (N.of_nat (length inp) + 1).
Proof.
  intros Hz. pose proof (oer_dec_cost_bound_ab numeric e fuel t inp Hz). unfold Ko. nia.
Qed.

(** success is paid by the CONSUMED octets *)
Theorem oer_dec_cost_bound_consumed numeric e fuel t inp v rest c :
  no_zero_width_elements e fuel t = true ->
  oer_dec_cost numeric fuel e t inp = (Ok (v, rest), c) ->
  (length rest <= length inp)%nat /\
  c <= ka (Kabw e fuel t) + kb (Kabw e fuel t) * N.of_nat (length inp - length rest).
Proof.
  intros Hz E. pose proof (Cost_dec numeric e fuel t Hz inp) as H. rewrite E in H. tauto.
Qed.

Theorem oer_decode_cost_bound numeric fuel e t inp :
  no_zero_width_elements e fuel t = true ->
  snd (oer_decode_cost numeric fuel e t inp) <= Ko e fuel t * (N.of_nat (length inp) + 1).
Proof.
  intros Hz. pose proof (oer_dec_cost_bound numeric e fuel t inp Hz) as H. unfold oer_decode_cost.
  destruct (oer_dec_cost numeric fuel e t inp) as [[[v r]|x] c]; exact H.
Qed.

Print Assumptions oer_dec_cost_bound.
Print Assumptions oer_decode_cost_bound.
Print Assumptions oer_dec_cost_bound_consumed.

(** * The hypothesis is necessary: zero-width elements *)
Lemma crep_len (rec : ty -> cdec value) t p : forall s,
  match crep_pos p (c_dec_elem rec t) s with
  | (Ok s', c) => N.of_nat (length (fst s')) <= N.of_nat (length (fst s)) + c
  | (Err _, _) => True
  end.
Proof.
  assert (Hf : forall s, match c_dec_elem rec t s with
                         | (Ok s', c) => N.of_nat (length (fst s')) <= N.of_nat (length (fst s)) + c
                         | (Err _, _) => True end).
  { intros s. unfold c_dec_elem. destruct (rec t (snd s)) as [[[v r]|x] c]; [|exact I]. cbn [fst length]. lia. }
  induction p as [q IH|q IH|]; intros s; cbn [crep_pos]; [| |apply Hf].
  - pose proof (Hf s) as H0. destruct (c_dec_elem rec t s) as [[s0|x] c0]; [|exact I].
    pose proof (IH s0) as H1. destruct (crep_pos q (c_dec_elem rec t) s0) as [[s1|x] c1]; [|exact I].
    pose proof (IH s1) as H2. destruct (crep_pos q (c_dec_elem rec t) s1) as [[s2|x] c2]; [|exact I]. lia.
  - pose proof (IH s) as H1. destruct (crep_pos q (c_dec_elem rec t) s) as [[s1|x] c1]; [|exact I].
    pose proof (IH s1) as H2. destruct (crep_pos q (c_dec_elem rec t) s1) as [[s2|x] c2]; [|exact I]. lia.
Qed.

(** decoding a SEQUENCE OF costs at least one step per element of the result *)
Lemma seqof_cost_ge_length numeric fuel e isset t sz bs vs r c :
  oer_dec_cost numeric (S fuel) e (TSeqOf isset t sz) bs = (Ok (VList vs, r), c) ->
  N.of_nat (length vs) <= c.
Proof.
  cbn [oer_dec_cost c_dec_step]. unfold tick, c_dec_list, cbind.
  destruct (c_uint_var bs) as [[[n r1]|x] c1]; [|discriminate].
  unfold crep_n. destruct n as [|p|p].
  - intros H. assert (vs = rev_append [] []) by congruence. subst vs. cbn. lia.
  - pose proof (crep_len (oer_dec_cost numeric fuel e) t p ([], r1)) as H.
    destruct (crep_pos p _ ([], r1)) as [[[acc r2]|x] c2]; [|discriminate].
    cbn [fst length] in H. intros E. assert (vs = rev_append acc [] /\ c = 1 + (c1 + c2)) as [-> ->] by (split; congruence).
    rewrite rev_append_rev, app_nil_r, rev_length. lia.
  - intros H. assert (vs = rev_append [] []) by congruence. subst vs. cbn. lia.
Qed.

(** the twin of [OerWork.oer_zero_width_elements_unbounded]: [k + 1] octets buy
    [256^k - 1] steps, so no constant [Ko] bounds the cost linearly. *)
Theorem oer_dec_cost_zero_width_refuted :
  forall (k : nat) numeric fuel e isset sz,
    (1 <= k <= 127)%nat ->
    no_zero_width_elements e (S (S fuel)) (TSeqOf isset TNull sz) = false /\
    Z.to_N (256 ^ Z.of_nat k - 1)%Z
    <= snd (oer_dec_cost numeric (S (S fuel)) e (TSeqOf isset TNull sz) (Z.of_nat k :: repeat 255%Z k)).
Proof.
  intros k numeric fuel e isset sz Hk. split; [reflexivity|].
  pose proof (oer_zero_width_elements_unbounded k numeric fuel e isset sz Hk) as H.
  unfold oer_decode in H. rewrite <- oer_dec_cost_erases in H.
  destruct (oer_dec_cost numeric (S (S fuel)) e (TSeqOf isset TNull sz) (Z.of_nat k :: repeat 255%Z k))
    as [[[v r]|x] c] eqn:E; cbn [fst snd] in *; [|discriminate].
  assert (v = VList (repeat VNone (Z.to_nat (256 ^ Z.of_nat k - 1)))) by congruence. subst v.
  pose proof (seqof_cost_ge_length _ _ _ _ _ _ _ _ _ _ E) as Hc. rewrite repeat_length in Hc. lia.
Qed.

(** in the shape of the bound: already 4 octets exceed [Ko * (length + 1)] = 40 *)
Corollary oer_dec_cost_bound_fails_on_zero_width numeric fuel e isset sz :
  Ko e (S (S fuel)) (TSeqOf isset TNull sz) * (N.of_nat (length (3%Z :: repeat 255%Z 3)) + 1)
  < snd (oer_dec_cost numeric (S (S fuel)) e (TSeqOf isset TNull sz) (3%Z :: repeat 255%Z 3)).
Proof.
  destruct (oer_dec_cost_zero_width_refuted 3 numeric fuel e isset sz ltac:(lia)) as [_ H].
  change (Z.of_nat 3) with 3%Z in H. change (repeat 255%Z 3) with [255; 255; 255]%Z in *.
  assert (HK : Ko e (S (S fuel)) (TSeqOf isset TNull sz) = 8) by reflexivity.
  rewrite HK. cbn [length]. change (Z.to_N (256 ^ 3 - 1)%Z) with 16777215 in H. lia.
Qed.

Print Assumptions oer_dec_cost_zero_width_refuted.
Print Assumptions oer_dec_cost_bound_fails_on_zero_width.
