(** Vectors pinning the X.696 specification model: the three worked examples of
    "Overview of OER" (tests/files/overview_of_oer.asn, octets as printed there)
    and the expected octets of the repository's OER unit tests for INTEGER,
    ENUMERATED, SEQUENCE, SEQUENCE OF and CHOICE (tests/test_oer.py; literals
    of the test file, not outputs of the library).  Generated once by a script
    from those literals; checked by vm_compute. *)
From Asn1V Require Import Base.Prelude Syntax.Asn1 Oer.X696.
Open Scope Z_scope.

Definition vec_env : env := [("OvA"%string, (TSeq false [(("a1"%string, (TInt (IcRange (Some (0)%Z) (Some (100)%Z) false))), Mandatory); (("a2"%string, (TInt (IcRange (Some (-290)%Z) (Some (399)%Z) false))), Mandatory); (("a3"%string, (TInt (IcRange (Some (0)%Z) (Some (60000)%Z) false))), Optional); (("a4"%string, (TInt (IcRange (Some (-5000000)%Z) (Some (5000000)%Z) false))), Mandatory); (("a5"%string, (TInt (IcRange (Some (1000)%Z) None false))), Mandatory); (("a6"%string, (TInt (IcRange (Some (-1)%Z) None false))), Mandatory); (("a7"%string, (TInt IcNone)), Optional)] None)); ("OvB"%string, (TSeq false [(("b1"%string, (TStr SkIA5 (SzRange (0)%Z (Some (10)%Z) false) None)), Mandatory); (("b2"%string, (TStr SkIA5 (SzRange (3)%Z (Some (3)%Z) false) None)), Mandatory); (("b3"%string, (TStr SkIA5 SzNone None)), Mandatory); (("b4"%string, (TOctets SzNone)), Mandatory); (("b5"%string, (TBits None (SzRange (4)%Z (Some (4)%Z) false))), Mandatory); (("b6"%string, (TBits None SzNone)), Mandatory)] None)); ("OvC"%string, (TChoice [(("c1"%string, TBool), Mandatory); (("c2"%string, (TSeqOf false (TEnum [("a"%string, (0)%Z); ("b"%string, (1)%Z); ("c"%string, (2)%Z); ("d"%string, (3)%Z); ("e"%string, (4)%Z)] None) SzNone)), Mandatory)] None)); ("IA"%string, (TInt IcNone)); ("IB"%string, (TInt (IcRange (Some (-128)%Z) (Some (127)%Z) false))); ("IC"%string, (TInt (IcRange (Some (-32768)%Z) (Some (32767)%Z) false))); ("ID"%string, (TInt (IcRange (Some (-2147483648)%Z) (Some (2147483647)%Z) false))); ("IE"%string, (TInt (IcRange (Some (-9223372036854775808)%Z) (Some (9223372036854775807)%Z) false))); ("IF"%string, (TInt (IcRange (Some (0)%Z) (Some (255)%Z) false))); ("IG"%string, (TInt (IcRange (Some (0)%Z) (Some (65535)%Z) false))); ("IH"%string, (TInt (IcRange (Some (0)%Z) (Some (4294967295)%Z) false))); ("II"%string, (TInt (IcRange (Some (0)%Z) (Some (18446744073709551615)%Z) false))); ("IJ"%string, (TInt (IcRange (Some (0)%Z) (Some (18446744073709551616)%Z) false))); ("IK"%string, (TInt (IcRange (Some (1)%Z) None false))); ("IL"%string, (TInt (IcRange None (Some (0)%Z) false))); ("EA"%string, (TEnum [("a"%string, (1)%Z)] None)); ("EB"%string, (TEnum [("a"%string, (128)%Z)] None)); ("EC"%string, (TEnum [("a"%string, (0)%Z); ("b"%string, (127)%Z)] None)); ("ED"%string, (TEnum [("a"%string, (0)%Z)] (Some [("b"%string, (127)%Z)]))); ("EE"%string, (TEnum [("a"%string, (-1)%Z); ("b"%string, (1234)%Z)] None)); ("EF"%string, (TEnum [("a"%string, (-16777216)%Z); ("b"%string, (-8388608)%Z); ("c"%string, (-65536)%Z); ("d"%string, (-32768)%Z); ("e"%string, (-128)%Z)] None)); ("SB"%string, (TSeq false [(("a"%string, (TInt IcNone)), (Default (VInt (0)%Z)))] None)); ("SH"%string, (TSeq false [(("a"%string, (TSeq false [] None)), Optional)] None)); ("LA"%string, (TSeqOf false (TInt IcNone) SzNone)); ("CB"%string, (TChoice [(("a"%string, TBool), Mandatory)] (Some [(("b"%string, TBool), Mandatory); (("c"%string, (TInt IcNone)), Mandatory)]))); ("CD"%string, (TChoice [(("a"%string, (TTag (mkTag Ctx (62)%Z false) TBool)), Mandatory); (("b"%string, (TTag (mkTag Appl (63)%Z false) TBool)), Mandatory); (("c"%string, (TTag (mkTag Priv (963)%Z false) TBool)), Mandatory)] None))].

Example x696_vector_0 : x696_encode false 20%nat vec_env (TRef "OvA"%string) (VSeq [("a1"%string, (VInt (4)%Z)); ("a2"%string, (VInt (4)%Z)); ("a3"%string, (VInt (4)%Z)); ("a4"%string, (VInt (4)%Z)); ("a5"%string, (VInt (1024)%Z)); ("a6"%string, (VInt (4)%Z)); ("a7"%string, (VInt (4)%Z))]) = Some (hex "c004000400040000000402040001040104"%string).
Proof. vm_compute. reflexivity. Qed.

Example x696_vector_1 : x696_encode false 20%nat vec_env (TRef "OvB"%string) (VSeq [("b1"%string, (VStr [(65)%Z; (66)%Z; (67)%Z])); ("b2"%string, (VStr [(65)%Z; (66)%Z; (67)%Z])); ("b3"%string, (VStr [(65)%Z; (66)%Z; (67)%Z])); ("b4"%string, (VBytes (hex "01020304"%string))); ("b5"%string, (VBits (hex "50"%string) (4)%Z)); ("b6"%string, (VBits (hex "50"%string) (4)%Z))]) = Some (hex "0341424341424303414243040102030450020450"%string).
Proof. vm_compute. reflexivity. Qed.

Example x696_vector_2 : x696_encode false 20%nat vec_env (TRef "OvC"%string) (VChoice "c2"%string (VList [(VEnum "b"%string); (VEnum "c"%string); (VEnum "d"%string); (VEnum "e"%string)])) = Some (hex "81010401020304"%string).
Proof. vm_compute. reflexivity. Qed.

Example x696_vector_3 : x696_encode false 20%nat vec_env (TRef "IA"%string) (VInt (0)%Z) = Some (hex "0100"%string).
Proof. vm_compute. reflexivity. Qed.

Example x696_vector_4 : x696_encode false 20%nat vec_env (TRef "IA"%string) (VInt (128)%Z) = Some (hex "020080"%string).
Proof. vm_compute. reflexivity. Qed.

Example x696_vector_5 : x696_encode false 20%nat vec_env (TRef "IA"%string) (VInt (100000)%Z) = Some (hex "030186a0"%string).
Proof. vm_compute. reflexivity. Qed.

Example x696_vector_6 : x696_encode false 20%nat vec_env (TRef "IA"%string) (VInt (-255)%Z) = Some (hex "02ff01"%string).
Proof. vm_compute. reflexivity. Qed.

Example x696_vector_7 : x696_encode false 20%nat vec_env (TRef "IA"%string) (VInt (-1234567)%Z) = Some (hex "03ed2979"%string).
Proof. vm_compute. reflexivity. Qed.

Example x696_vector_8 : x696_encode false 20%nat vec_env (TRef "IB"%string) (VInt (-2)%Z) = Some (hex "fe"%string).
Proof. vm_compute. reflexivity. Qed.

Example x696_vector_9 : x696_encode false 20%nat vec_env (TRef "IC"%string) (VInt (-2)%Z) = Some (hex "fffe"%string).
Proof. vm_compute. reflexivity. Qed.

Example x696_vector_10 : x696_encode false 20%nat vec_env (TRef "ID"%string) (VInt (-2)%Z) = Some (hex "fffffffe"%string).
Proof. vm_compute. reflexivity. Qed.

Example x696_vector_11 : x696_encode false 20%nat vec_env (TRef "IE"%string) (VInt (-2)%Z) = Some (hex "fffffffffffffffe"%string).
Proof. vm_compute. reflexivity. Qed.

Example x696_vector_12 : x696_encode false 20%nat vec_env (TRef "IF"%string) (VInt (128)%Z) = Some (hex "80"%string).
Proof. vm_compute. reflexivity. Qed.

Example x696_vector_13 : x696_encode false 20%nat vec_env (TRef "IG"%string) (VInt (1000)%Z) = Some (hex "03e8"%string).
Proof. vm_compute. reflexivity. Qed.

Example x696_vector_14 : x696_encode false 20%nat vec_env (TRef "IH"%string) (VInt (128)%Z) = Some (hex "00000080"%string).
Proof. vm_compute. reflexivity. Qed.

Example x696_vector_15 : x696_encode false 20%nat vec_env (TRef "II"%string) (VInt (128)%Z) = Some (hex "0000000000000080"%string).
Proof. vm_compute. reflexivity. Qed.

Example x696_vector_16 : x696_encode false 20%nat vec_env (TRef "IJ"%string) (VInt (1)%Z) = Some (hex "0101"%string).
Proof. vm_compute. reflexivity. Qed.

Example x696_vector_17 : x696_encode false 20%nat vec_env (TRef "IK"%string) (VInt (128)%Z) = Some (hex "0180"%string).
Proof. vm_compute. reflexivity. Qed.

Example x696_vector_18 : x696_encode false 20%nat vec_env (TRef "IL"%string) (VInt (-128)%Z) = Some (hex "0180"%string).
Proof. vm_compute. reflexivity. Qed.

Example x696_vector_19 : x696_encode false 20%nat vec_env (TRef "EA"%string) (VEnum "a"%string) = Some (hex "01"%string).
Proof. vm_compute. reflexivity. Qed.

Example x696_vector_20 : x696_encode false 20%nat vec_env (TRef "EB"%string) (VEnum "a"%string) = Some (hex "820080"%string).
Proof. vm_compute. reflexivity. Qed.

Example x696_vector_21 : x696_encode false 20%nat vec_env (TRef "EC"%string) (VEnum "b"%string) = Some (hex "7f"%string).
Proof. vm_compute. reflexivity. Qed.

Example x696_vector_22 : x696_encode false 20%nat vec_env (TRef "ED"%string) (VEnum "b"%string) = Some (hex "7f"%string).
Proof. vm_compute. reflexivity. Qed.

Example x696_vector_23 : x696_encode false 20%nat vec_env (TRef "EE"%string) (VEnum "a"%string) = Some (hex "81ff"%string).
Proof. vm_compute. reflexivity. Qed.

Example x696_vector_24 : x696_encode false 20%nat vec_env (TRef "EE"%string) (VEnum "b"%string) = Some (hex "8204d2"%string).
Proof. vm_compute. reflexivity. Qed.

Example x696_vector_25 : x696_encode false 20%nat vec_env (TRef "EF"%string) (VEnum "a"%string) = Some (hex "84ff000000"%string).
Proof. vm_compute. reflexivity. Qed.

Example x696_vector_26 : x696_encode false 20%nat vec_env (TRef "EF"%string) (VEnum "b"%string) = Some (hex "83800000"%string).
Proof. vm_compute. reflexivity. Qed.

Example x696_vector_27 : x696_encode false 20%nat vec_env (TRef "EF"%string) (VEnum "c"%string) = Some (hex "83ff0000"%string).
Proof. vm_compute. reflexivity. Qed.

Example x696_vector_28 : x696_encode false 20%nat vec_env (TRef "EF"%string) (VEnum "d"%string) = Some (hex "828000"%string).
Proof. vm_compute. reflexivity. Qed.

Example x696_vector_29 : x696_encode false 20%nat vec_env (TRef "EF"%string) (VEnum "e"%string) = Some (hex "8180"%string).
Proof. vm_compute. reflexivity. Qed.

Example x696_vector_30 : x696_encode false 20%nat vec_env (TRef "SB"%string) (VSeq [("a"%string, (VInt (0)%Z))]) = Some (hex "00"%string).
Proof. vm_compute. reflexivity. Qed.

Example x696_vector_31 : x696_encode false 20%nat vec_env (TRef "SB"%string) (VSeq [("a"%string, (VInt (1)%Z))]) = Some (hex "800101"%string).
Proof. vm_compute. reflexivity. Qed.

Example x696_vector_32 : x696_encode false 20%nat vec_env (TRef "SH"%string) (VSeq []) = Some (hex "00"%string).
Proof. vm_compute. reflexivity. Qed.

Example x696_vector_34 : x696_encode false 20%nat vec_env (TRef "LA"%string) (VList []) = Some (hex "0100"%string).
Proof. vm_compute. reflexivity. Qed.

Example x696_vector_35 : x696_encode false 20%nat vec_env (TRef "LA"%string) (VList [(VInt (1)%Z); (VInt (2)%Z)]) = Some (hex "010201010102"%string).
Proof. vm_compute. reflexivity. Qed.

Example x696_vector_36 : x696_encode false 20%nat vec_env (TRef "CB"%string) (VChoice "a"%string (VBool true)) = Some (hex "80ff"%string).
Proof. vm_compute. reflexivity. Qed.

Example x696_vector_37 : x696_encode false 20%nat vec_env (TRef "CB"%string) (VChoice "b"%string (VBool true)) = Some (hex "8101ff"%string).
Proof. vm_compute. reflexivity. Qed.

Example x696_vector_38 : x696_encode false 20%nat vec_env (TRef "CB"%string) (VChoice "c"%string (VInt (1000)%Z)) = Some (hex "82030203e8"%string).
Proof. vm_compute. reflexivity. Qed.

Example x696_vector_39 : x696_encode false 20%nat vec_env (TRef "CD"%string) (VChoice "a"%string (VBool false)) = Some (hex "be00"%string).
Proof. vm_compute. reflexivity. Qed.

Example x696_vector_40 : x696_encode false 20%nat vec_env (TRef "CD"%string) (VChoice "b"%string (VBool false)) = Some (hex "7f3f00"%string).
Proof. vm_compute. reflexivity. Qed.

Example x696_vector_41 : x696_encode false 20%nat vec_env (TRef "CD"%string) (VChoice "c"%string (VBool false)) = Some (hex "ff874300"%string).
Proof. vm_compute. reflexivity. Qed.
