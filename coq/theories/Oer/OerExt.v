(** Extension additions keep versions interoperable (C07, OER part), for a
    SEQUENCE / SET whose later version appends additions (single members or
    groups) after the extension marker, the root and the earlier additions
    being unchanged:
      [oer_forward_partial]   the earlier version decodes every encoding of the
                              later one to the value without the additions it
                              does not know, consuming the whole encoding;
      [oer_backward_partial]  the later version decodes every encoding of the
                              earlier one to the same value.
    (* OPEN: the full statements quantify over an inductive [extends t1 t2]
       that also allows additions at any depth (inside members, elements and
       alternatives), new CHOICE alternatives and new ENUMERATED items; the
       lemmas below are the re-synchronisation step those proofs need. *) *)
From Asn1V Require Import Base.Prelude Syntax.Asn1.
From Asn1V Require Import Oer.OerPrim Oer.OerImpl Oer.OerScope.
From Asn1V Require Import Oer.OerPrimProofs Oer.OerPrimProofs2 Oer.OerProofs.
Open Scope Z_scope.

Lemma flat_adds_app a b : flat_adds (a ++ b) = flat_adds a ++ flat_adds b.
Proof. unfold flat_adds. apply flat_map_app. Qed.

Section Ext.
  Variables (encr : ty -> value -> result (list Z)) (decr : ty -> dec value).

  Lemma enc_adds_app ms1 ms2 fs :
    enc_adds encr (ms1 ++ ms2) fs =
    (let* r1 := enc_adds encr ms1 fs in
     let* r2 := enc_adds encr ms2 fs in Ok (fst r1 ++ fst r2, snd r1 ++ snd r2)).
  Proof.
    induction ms1 as [|m ms1 IH]; cbn [app enc_adds].
    - cbn [bind fst snd app]. destruct (enc_adds encr ms2 fs) as [[p es]|]; reflexivity.
    - destruct (lookup (m_name m) fs) as [v|].
      + destruct (encr (m_ty m) v) as [b|]; cbn [bind]; [|reflexivity].
        rewrite IH. destruct (enc_adds encr ms1 fs) as [[p1 es1]|]; cbn [bind fst snd]; [|reflexivity].
        destruct (enc_adds encr ms2 fs) as [[p2 es2]|]; reflexivity.
      + rewrite IH. destruct (enc_adds encr ms1 fs) as [[p1 es1]|]; cbn [bind fst snd]; [|reflexivity].
        destruct (enc_adds encr ms2 fs) as [[p2 es2]|]; reflexivity.
  Qed.

  Lemma concat_open_app es1 es2 :
    concat_open (es1 ++ es2) =
    (let* a := concat_open es1 in let* b := concat_open es2 in Ok (a ++ b)).
  Proof.
    induction es1 as [|x es1 IH]; cbn [app concat_open].
    - cbn [bind app]. destruct (concat_open es2); reflexivity.
    - destruct (wrap_open x) as [w|]; cbn [bind]; [|reflexivity].
      rewrite IH. destruct (concat_open es1) as [a|]; cbn [bind]; [|reflexivity].
      destruct (concat_open es2) as [b|]; cbn [bind]; [|reflexivity]. rewrite app_assoc. reflexivity.
  Qed.

  (** a decoder that knows fewer additions than there are presence bits *)
  Lemma loop_pres_app ms : forall pres1 pres2 l,
    length pres1 = length ms ->
    dec_adds_loop decr ms (pres1 ++ pres2) l =
    match dec_adds_loop decr ms pres1 l with
    | Ok (fs1, r) =>
      match dec_adds_loop decr [] pres2 r with
      | Ok (fs2, r') => Ok (fs1 ++ fs2, r')
      | Err x => Err x
      end
    | Err x => Err x
    end.
  Proof.
    induction ms as [|m ms IH]; intros pres1 pres2 l Hl.
    - destruct pres1; [|discriminate]. cbn [app dec_adds_loop]. unfold dret.
      destruct (dec_adds_loop decr [] pres2 l) as [[a r]|]; reflexivity.
    - destruct pres1 as [|p pres1]; [discriminate|]. cbn [app dec_adds_loop].
      destruct p.
      + unfold dbind, dret. destruct (dec_len l) as [[n r]|]; [|reflexivity].
        destruct (decr (m_ty m) r) as [[v r']|]; [|reflexivity].
        rewrite IH by (cbn [length] in Hl; lia).
        destruct (dec_adds_loop decr ms pres1 r') as [[fs1 r1]|]; [|reflexivity].
        destruct (dec_adds_loop decr [] pres2 r1) as [[fs2 r2]|]; reflexivity.
      + apply IH. cbn [length] in Hl. lia.
  Qed.

  (** a decoder that knows more additions than there are presence bits *)
  Lemma loop_ms_app ms1 ms2 : forall pres l,
    length pres = length ms1 ->
    dec_adds_loop decr (ms1 ++ ms2) pres l = dec_adds_loop decr ms1 pres l.
  Proof.
    induction ms1 as [|m ms1 IH]; intros pres l Hl.
    - destruct pres; [|discriminate]. reflexivity.
    - destruct pres as [|p pres]; [discriminate|]. cbn [app dec_adds_loop]. destruct p.
      + unfold dbind, dret. destruct (dec_len l) as [[n r]|]; [|reflexivity].
        destruct (decr (m_ty m) r) as [[v r']|]; [|reflexivity].
        rewrite IH by (cbn [length] in Hl; lia). reflexivity.
      + apply IH. cbn [length] in Hl. lia.
  Qed.

  Lemma enc_adds_len ms : forall fs pres es,
    enc_adds encr ms fs = Ok (pres, es) -> length pres = length ms.
  Proof.
    induction ms as [|m ms IH]; intros fs pres es H; cbn [enc_adds] in H.
    - inv_eq H. reflexivity.
    - destruct (lookup (m_name m) fs) as [v|].
      + bind_inv H b Eb. bind_inv H r Er. destruct r as [p es']. inv_eq H.
        cbn [length]. f_equal. eapply IH. exact Er.
      + bind_inv H r Er. destruct r as [p es']. inv_eq H. cbn [length]. f_equal. eapply IH. exact Er.
  Qed.

  (** unknown additions are skipped by their length prefix *)
  Lemma good_skip ms : forall fs pres es tlb,
    enc_adds encr ms fs = Ok (pres, es) -> concat_open es = Ok tlb ->
    good (dec_adds_loop decr [] pres) tlb [].
  Proof.
    induction ms as [|m ms IH]; intros fs pres es tlb H Hc; cbn [enc_adds] in H.
    - inv_eq H. cbn [concat_open] in Hc. inv_eq Hc. apply good_ret.
    - destruct (lookup (m_name m) fs) as [v|].
      + bind_inv H b Eb. bind_inv H r Er. destruct r as [p es']. inv_eq H.
        cbn [concat_open] in Hc. bind_inv Hc w Ew. bind_inv Hc ws Ews. inv_eq Hc.
        unfold wrap_open in Ew. bind_inv Ew ld Eld. inv_eq Ew.
        cbn [dec_adds_loop]. rewrite <- app_assoc.
        eapply good_bind; [apply (good_len (Z.of_nat (length b))); [lia|exact Eld]|].
        eapply good_bind; [apply good_take|]. eapply IH; eassumption.
      + bind_inv H r Er. destruct r as [p es']. inv_eq H. cbn [dec_adds_loop]. eapply IH; eassumption.
  Qed.
End Ext.

Section ExtStep.
  Variables (encr : ty -> value -> result (list Z)) (okr : ty -> value -> bool).
  Variables (decr : ty -> dec value) (normr : ty -> value -> value).
  Hypothesis IH : forall t v bs,
      okr t v = true -> encr t v = Ok bs -> good (decr t) bs (normr t v).

  (** V2 = root + (adds1 ++ adds2) encodes, V1 = root + adds1 decodes *)
  Lemma good_seq_forward root adds1 adds2 fs bs :
    ok_root okr root fs = true -> ok_adds okr (flat_adds (adds1 ++ adds2)) fs = true ->
    enc_seq encr root (Some (adds1 ++ adds2)) fs = Ok bs ->
    good (dec_seq decr root (Some adds1)) bs
         (VSeq (norm_root normr root fs ++ norm_adds normr (flat_adds adds1) fs)).
  Proof.
    intros Hr Ha H. unfold enc_seq in H. bind_inv H r Er. destruct r as [bits body].
    destruct (good_root encr okr decr normr IH root fs bits body Hr Er) as [G L]. unfold dec_seq.
    rewrite flat_adds_app in *. set (f1 := flat_adds adds1) in *. set (f2 := flat_adds adds2) in *.
    assert (Ha1 : ok_adds okr f1 fs = true /\ ok_adds okr f2 fs = true).
    { clear - Ha. induction f1 as [|m f1 IHf]; cbn [app ok_adds] in *; [auto|].
      destruct (lookup (m_name m) fs); [|auto].
      apply andb_prop in Ha. destruct Ha as [Hv Ha]. destruct (IHf Ha). rewrite Hv. auto. }
    destruct Ha1 as [Ha1 Ha2].
    assert (Hpre : forall x, good (dec_bits (1 + Z.of_nat (length (filter is_optional_member root))))
                                  (pack_bits (x :: bits)) (x :: bits)).
    { intros x. apply good_bits'. cbn [length]. lia. }
    rewrite enc_adds_app in H.
    destruct (enc_adds encr f1 fs) as [[pres1 es1]|] eqn:E1.
    2:{ destruct (f1 ++ f2) eqn:Ef; [|discriminate].
        apply app_eq_nil in Ef. destruct Ef as [Ef1 _]. rewrite Ef1 in E1. discriminate. }
    destruct (enc_adds encr f2 fs) as [[pres2 es2]|] eqn:E2.
    2:{ destruct (f1 ++ f2) eqn:Ef; [|discriminate].
        apply app_eq_nil in Ef. destruct Ef as [_ Ef2]. rewrite Ef2 in E2. discriminate. }
    cbn [bind fst snd] in H.
    assert (Hnone : es1 = [] -> es2 = [] ->
              bs = pack_bits (false :: bits) ++ body ->
              good (dlet bits0 := dec_bits (1 + Z.of_nat (length (filter is_optional_member root)))
                    in match bits0 with
                       | [] => dfail EUnmodelled
                       | x :: bits' =>
                         dlet fs0 := dec_root decr root bits'
                         in (if x then dlet afs := dec_adds decr f1 in dret (VSeq (fs0 ++ afs))
                             else dret (VSeq fs0))
                       end) bs
                   (VSeq (norm_root normr root fs ++ norm_adds normr f1 fs))).
    { intros -> _ ->. rewrite (enc_adds_none encr normr f1 fs pres1 E1). rewrite app_nil_r.
      eapply good_bind; [apply Hpre|]. eapply good_bind_ret_eq; [exact G|reflexivity]. }
    destruct (f1 ++ f2) as [|m0 fl] eqn:Ef.
    { apply app_eq_nil in Ef. destruct Ef as [Ef1 Ef2]. rewrite Ef1 in E1. rewrite Ef2 in E2.
      cbn [enc_adds] in E1, E2. inv_eq E1. inv_eq E2. inv_eq H. apply Hnone; reflexivity. }
    rewrite <- Ef in *.
    destruct (es1 ++ es2) as [|e0 es'] eqn:Ees.
    { apply app_eq_nil in Ees. destruct Ees as [-> ->]. inv_eq H. apply Hnone; reflexivity. }
    rewrite <- Ees in *. bind_inv H ld Eld. bind_inv H tlb Etl. inv_eq H.
    rewrite concat_open_app in Etl. bind_inv Etl tl1 Et1. bind_inv Etl tl2 Et2. inv_eq Etl.
    destruct (good_adds encr okr decr normr IH f1 fs pres1 es1 tl1 Ha1 E1 Et1) as [GA LA].
    pose proof (good_skip encr decr f2 fs pres2 es2 tl2 E2 Et2) as GS.
    pose proof (enc_adds_len encr f2 fs pres2 es2 E2) as LB.
    eapply good_bind; [apply Hpre|]. cbv beta iota.
    eapply good_bind; [exact G|].
    set (n := Z.of_nat (length (f1 ++ f2))) in *.
    assert (Hn : 0 <= n) by (unfold n; lia).
    eapply good_bind_nil; [|apply good_ret].
    unfold dec_adds.
    eapply good_bind; [apply (good_len ((n + 7) / 8 + 1)); [lia|exact Eld]|].
    apply (good_bind dec_byte _ [(- n) mod 8] (pack_bits (pres1 ++ pres2) ++ tl1 ++ tl2) ((- n) mod 8));
      [apply good_byte|].
    rewrite (bitmap_arith n Hn).
    eapply good_bind; [apply good_bits'; unfold n; rewrite !app_length; lia|].
    eapply (good_ext (dlet fs1 := dec_adds_loop decr f1 pres1 in
                      dlet fs2 := dec_adds_loop decr [] pres2 in dret (fs1 ++ fs2))).
    { intros l. rewrite (loop_pres_app encr decr f1 pres1 pres2 l LA). unfold dbind, dret.
      destruct (dec_adds_loop decr f1 pres1 l) as [[a r]|]; [|reflexivity].
      destruct (dec_adds_loop decr [] pres2 r) as [[b r']|]; reflexivity. }
    eapply good_bind; [exact GA|].
    eapply (good_bind_ret_eq _ (fun fs2 => norm_adds normr f1 fs ++ fs2)); [exact GS|apply app_nil_r].
  Qed.

  (** V1 = root + adds1 encodes, V2 = root + (adds1 ++ adds2) decodes *)
  Lemma good_seq_backward root adds1 adds2 fs bs :
    ok_root okr root fs = true -> ok_adds okr (flat_adds adds1) fs = true ->
    enc_seq encr root (Some adds1) fs = Ok bs ->
    good (dec_seq decr root (Some (adds1 ++ adds2))) bs
         (VSeq (norm_root normr root fs ++ norm_adds normr (flat_adds adds1) fs)).
  Proof.
    intros Hr Ha H. unfold enc_seq in H. bind_inv H r Er. destruct r as [bits body].
    destruct (good_root encr okr decr normr IH root fs bits body Hr Er) as [G L]. unfold dec_seq.
    rewrite flat_adds_app. set (f1 := flat_adds adds1) in *. set (f2 := flat_adds adds2) in *.
    assert (Hpre : forall x, good (dec_bits (1 + Z.of_nat (length (filter is_optional_member root))))
                                  (pack_bits (x :: bits)) (x :: bits)).
    { intros x. apply good_bits'. cbn [length]. lia. }
    assert (Hnone : norm_adds normr f1 fs = [] ->
              good (dlet bits0 := dec_bits (1 + Z.of_nat (length (filter is_optional_member root)))
                    in match bits0 with
                       | [] => dfail EUnmodelled
                       | x :: bits' =>
                         dlet fs0 := dec_root decr root bits'
                         in (if x then dlet afs := dec_adds decr (f1 ++ f2) in dret (VSeq (fs0 ++ afs))
                             else dret (VSeq fs0))
                       end)
                   (pack_bits (false :: bits) ++ body)
                   (VSeq (norm_root normr root fs ++ norm_adds normr f1 fs))).
    { intros ->. rewrite app_nil_r. eapply good_bind; [apply Hpre|].
      eapply good_bind_ret_eq; [exact G|reflexivity]. }
    destruct f1 as [|a0 f1'] eqn:Ef.
    - inv_eq H. apply Hnone. reflexivity.
    - rewrite <- Ef in *. bind_inv H r2 Er2. destruct r2 as [pres es].
      destruct es as [|e0 es'].
      + inv_eq H. apply Hnone. eapply enc_adds_none. exact Er2.
      + bind_inv H ld Eld. bind_inv H tlb Etl. inv_eq H.
        destruct (good_adds encr okr decr normr IH _ _ _ _ _ Ha Er2 Etl) as [GA LA].
        eapply good_bind; [apply Hpre|]. cbv beta iota.
        eapply good_bind; [exact G|].
        set (n := Z.of_nat (length f1)) in *.
        assert (Hn : 0 <= n) by (unfold n; lia).
        eapply good_bind_nil; [|apply good_ret].
        unfold dec_adds.
        eapply good_bind; [apply (good_len ((n + 7) / 8 + 1)); [lia|exact Eld]|].
        apply (good_bind dec_byte _ [(- n) mod 8] (pack_bits pres ++ tlb) ((- n) mod 8)); [apply good_byte|].
        rewrite (bitmap_arith n Hn).
        eapply good_bind; [apply good_bits'; unfold n; lia|].
        eapply good_ext; [intros l; symmetry; apply (loop_ms_app encr decr f1 f2 pres l LA)|]. exact GA.
  Qed.
End ExtStep.

(** * The theorems *)
Theorem oer_forward_partial numeric fuel e isset root adds1 adds2 fs bs :
  oer_ok numeric (S fuel) e (TSeq isset root (Some (adds1 ++ adds2))) (VSeq fs) = true ->
  oer_encode numeric (S fuel) e (TSeq isset root (Some (adds1 ++ adds2))) (VSeq fs) = Ok bs ->
  forall tail,
    oer_decode numeric (S fuel) e (TSeq isset root (Some adds1)) (bs ++ tail)
    = Ok (VSeq (norm_root (oer_norm fuel e) root fs ++ norm_adds (oer_norm fuel e) (flat_adds adds1) fs),
          length bs).
Proof.
  intros Hok H tail. cbn [oer_ok ok_step] in Hok. apply andb_prop in Hok. destruct Hok as [Hr Ha].
  assert (G : good (oer_dec numeric (S fuel) e (TSeq isset root (Some adds1))) bs
                   (VSeq (norm_root (oer_norm fuel e) root fs ++
                          norm_adds (oer_norm fuel e) (flat_adds adds1) fs))).
  { destruct isset; cbn [oer_encode enc_step oer_dec dec_step] in *.
    - destruct (existsb (fun m => is_tagged (m_ty m)) root); [discriminate|].
      eapply good_seq_forward; [apply oer_good|eassumption..].
    - eapply good_seq_forward; [apply oer_good|eassumption..]. }
  destruct G as [G _]. unfold oer_decode. rewrite G, app_length. f_equal. f_equal. lia.
Qed.

Theorem oer_backward_partial numeric fuel e isset root adds1 adds2 fs bs :
  oer_ok numeric (S fuel) e (TSeq isset root (Some adds1)) (VSeq fs) = true ->
  oer_encode numeric (S fuel) e (TSeq isset root (Some adds1)) (VSeq fs) = Ok bs ->
  forall tail,
    oer_decode numeric (S fuel) e (TSeq isset root (Some (adds1 ++ adds2))) (bs ++ tail)
    = Ok (oer_norm (S fuel) e (TSeq isset root (Some adds1)) (VSeq fs), length bs).
Proof.
  intros Hok H tail. cbn [oer_ok ok_step] in Hok. apply andb_prop in Hok. destruct Hok as [Hr Ha].
  assert (G : good (oer_dec numeric (S fuel) e (TSeq isset root (Some (adds1 ++ adds2)))) bs
                   (oer_norm (S fuel) e (TSeq isset root (Some adds1)) (VSeq fs))).
  { cbn [oer_norm norm_step].
    destruct isset; cbn [oer_encode enc_step oer_dec dec_step] in *.
    - destruct (existsb (fun m => is_tagged (m_ty m)) root); [discriminate|].
      eapply good_seq_backward; [apply oer_good|eassumption..].
    - eapply good_seq_backward; [apply oer_good|eassumption..]. }
  destruct G as [G _]. unfold oer_decode. rewrite G, app_length. f_equal. f_equal. lia.
Qed.

(** * New ENUMERATED items and CHOICE alternatives seen by the earlier version *)
Lemma find_name_app z a b :
  find_name z (a ++ b) = match find_name z a with Some n => Some n | None => find_name z b end.
Proof.
  induction a as [|[k y] a IH]; cbn [app find_name]; [reflexivity|]. destruct (z =? y); [reflexivity|exact IH].
Qed.

Lemma find_num_app n a b :
  find_num n (a ++ b) = match find_num n a with Some z => Some z | None => find_num n b end.
Proof.
  induction a as [|[k y] a IH]; cbn [app find_num]; [reflexivity|]. destruct (String.eqb n k); [reflexivity|exact IH].
Qed.

Lemma nodup_z_app l1 l2 : nodup_z (l1 ++ l2) = true -> forall x, In x l2 -> ~ In x l1.
Proof.
  induction l1 as [|y l1 IH]; cbn [app nodup_z]; intros H x Hx Hin; [destruct Hin|].
  apply andb_prop in H. destruct H as [Hy H]. destruct Hin as [<-|Hin].
  - apply negb_true_iff in Hy. rewrite <- not_true_iff_false in Hy. apply Hy.
    apply existsb_exists. exists y. split; [apply in_or_app; right; exact Hx|apply Z.eqb_refl].
  - exact (IH H x Hx Hin).
Qed.

Lemma find_name_notin z items : ~ In z (map snd items) -> find_name z items = None.
Proof.
  induction items as [|[k y] r IH]; cbn [map snd find_name In]; intros H; [reflexivity|].
  destruct (z =? y) eqn:E; [exfalso; apply H; left; lia|]. apply IH. tauto.
Qed.

Lemma find_num_in n z items : find_num n items = Some z -> In z (map snd items).
Proof.
  induction items as [|[k y] r IH]; cbn [find_num map snd In]; [discriminate|].
  destruct (String.eqb n k); [intros [= ->]; left; reflexivity|right; auto].
Qed.

(** an item added after the marker decodes as None under the earlier version *)
Theorem oer_forward_enum_new_item numeric fuel e root ext1 ext2 (name : string) z bs :
  nodup_z (map snd (root ++ ext1 ++ ext2)) = true ->
  find_num name (root ++ ext1) = None -> find_num name ext2 = Some z ->
  oer_encode numeric (S fuel) e (TEnum root (Some (ext1 ++ ext2)))
             (if numeric then VInt z else VEnum name) = Ok bs ->
  forall tail,
    oer_decode numeric (S fuel) e (TEnum root (Some ext1)) (bs ++ tail) = Ok (VNone, length bs).
Proof.
  intros Hnd Hn1 Hn2 H tail.
  assert (Hz : find_name z (root ++ ext1) = None).
  { apply find_name_notin. rewrite app_assoc, map_app in Hnd.
    apply (nodup_z_app _ _ Hnd). eapply find_num_in. exact Hn2. }
  assert (Hv : enc_enum_value z = Ok bs).
  { cbn [oer_encode enc_step] in H. unfold enc_enum, enum_items in H. destruct numeric.
    - destruct (find_name z (root ++ ext1 ++ ext2)); [exact H|discriminate].
    - rewrite app_assoc, find_num_app, Hn1, Hn2 in H. exact H. }
  assert (G : good (oer_dec numeric (S fuel) e (TEnum root (Some ext1))) bs VNone).
  { cbn [oer_dec dec_step].
    apply (good_ext (dbind dec_enum_value
                           (fun z' => match find_name z' (enum_items root (Some ext1)) with
                                      | Some n => dret (if numeric then VInt z' else VEnum n)
                                      | None => dret VNone
                                      end))).
    { intros l. unfold dec_enum_value, dec_enum. apply dbind_assoc. }
    eapply good_bind_nil; [apply good_enum_value; exact Hv|].
    unfold enum_items. rewrite Hz. apply good_ret. }
  destruct G as [G _]. unfold oer_decode. rewrite G, app_length. f_equal. f_equal. lia.
Qed.

Lemma alt_tags_app auto a b : forall i,
  alt_tags auto i (a ++ b) = alt_tags auto i a ++ alt_tags auto (i + Z.of_nat (length a)) b.
Proof.
  induction a as [|m a IH]; intros i; cbn [app alt_tags length].
  - f_equal. lia.
  - rewrite IH. replace (i + 1 + Z.of_nat (length a)) with (i + Z.of_nat (S (length a))) by lia. reflexivity.
Qed.

Lemma find_alt_app n a b :
  find_alt n (a ++ b) = match find_alt n a with Some x => Some x | None => find_alt n b end.
Proof.
  induction a as [|x a IH]; cbn [app find_alt]; [reflexivity|].
  destruct (String.eqb n (m_name (snd x))); [reflexivity|exact IH].
Qed.

Lemma find_alt_in n alts x : find_alt n alts = Some x -> In x alts.
Proof.
  induction alts as [|y alts IH]; cbn [find_alt]; [discriminate|].
  destruct (String.eqb n (m_name (snd y))); [intros [= <-]; left; reflexivity|right; auto].
Qed.

(** an alternative added after the marker, under AUTOMATIC tags, is skipped
    by the earlier version and reported as the unknown alternative *)
Theorem oer_forward_choice_new_alternative numeric fuel e root ext1 ext2 n v bs :
  choice_auto root (Some (ext1 ++ ext2)) = true ->
  nodup_tags (tags_of (alt_tags true 0 root ++
                       alt_tags true (Z.of_nat (length root)) (ext1 ++ ext2))) = true ->
  find_member n (root ++ ext1) = None ->
  oer_encode numeric (S fuel) e (TChoice root (Some (ext1 ++ ext2))) (VChoice n v) = Ok bs ->
  forall tail,
    oer_decode numeric (S fuel) e (TChoice root (Some ext1)) (bs ++ tail) = Ok (VUnknownChoice, length bs).
Proof.
  intros Hauto Hnd Hnf H tail.
  assert (Hauto1 : choice_auto root (Some ext1) = true).
  { unfold choice_auto in *. apply negb_true_iff in Hauto. apply negb_true_iff.
    rewrite app_assoc, existsb_app in Hauto. apply orb_false_iff in Hauto. tauto. }
  rewrite find_member_app in Hnf.
  destruct (find_member n root) eqn:F1; [discriminate|].
  cbn [oer_encode enc_step] in H. unfold enc_choice in H. rewrite Hauto in H.
  assert (R0 : find_alt n (alt_tags true 0 root) = None).
  { destruct (find_alt n (alt_tags true 0 root)) as [[tg m]|] eqn:E; [|reflexivity].
    destruct (find_alt_some _ _ _ _ _ _ E) as [F _]. congruence. }
  rewrite R0 in H. rewrite alt_tags_app, find_alt_app in H.
  assert (R1 : find_alt n (alt_tags true (Z.of_nat (length root)) ext1) = None).
  { destruct (find_alt n (alt_tags true (Z.of_nat (length root)) ext1)) as [[tg m]|] eqn:E; [|reflexivity].
    destruct (find_alt_some _ _ _ _ _ _ E) as [F _]. congruence. }
  rewrite R1 in H.
  set (i2 := Z.of_nat (length root) + Z.of_nat (length ext1)) in *.
  destruct (find_alt n (alt_tags true i2 ext2)) as [[[tg|] m]|] eqn:E2; try discriminate.
  bind_inv H b Eb. bind_inv H w Ew. inv_eq H. unfold wrap_open in Ew. bind_inv Ew ld Eld. inv_eq Ew.
  pose proof (find_alt_in _ _ _ E2) as Hin.
  assert (Hi2 : 0 <= i2) by (unfold i2; lia).
  assert (Hnum : forallb (fun m => match m_ty m with TTag tg _ => 0 <=? t_num tg | _ => true end) ext2 = true).
  { unfold choice_auto in Hauto. apply negb_true_iff in Hauto.
    rewrite !existsb_app in Hauto. apply orb_false_iff in Hauto. destruct Hauto as [_ Hauto].
    apply orb_false_iff in Hauto. destruct Hauto as [_ Hauto].
    clear - Hauto. induction ext2 as [|m0 r IHr]; [reflexivity|].
    cbn [existsb forallb] in *. apply orb_false_iff in Hauto. destruct Hauto as [H0 Hr].
    rewrite (IHr Hr). destruct (m_ty m0); try reflexivity. discriminate. }
  destruct (alt_tag_valid true ext2 i2 tg m Hi2 Hnum Hin) as [num [fl [-> [Hn Hfl]]]].
  rewrite alt_tags_app, tags_of_app, tags_of_app in Hnd.
  destruct (nodup_tags_app _ _ Hnd) as [_ [Nd2 Dis]].
  destruct (nodup_tags_app _ _ Nd2) as [_ [_ Dis2]].
  assert (G : good (oer_dec numeric (S fuel) e (TChoice root (Some ext1))) (encode_tag num fl ++ ld ++ b)
                   VUnknownChoice).
  { cbn [oer_dec dec_step]. unfold dec_choice. rewrite Hauto1.
    assert (Hall : existsb (fun a => match fst a with None => true | Some _ => false end)
                     (alt_tags true 0 root ++ alt_tags true (Z.of_nat (length root)) ext1) = false).
    { clear. rewrite existsb_app. apply orb_false_iff. split.
      - generalize 0. induction root as [|m r IHr]; intros i; cbn; [reflexivity|apply IHr].
      - generalize (Z.of_nat (length root)). induction ext1 as [|m r IHr]; intros i; cbn; [reflexivity|apply IHr]. }
    rewrite Hall.
    eapply good_bind; [apply good_tag; assumption|].
    rewrite (find_tag_notin _ (alt_tags true 0 root)).
    2:{ intros Hc. apply (Dis _ Hc). apply in_or_app. right. apply (in_tags_of _ m). exact Hin. }
    rewrite (find_tag_notin _ (alt_tags true (Z.of_nat (length root)) ext1)).
    2:{ intros Hc. apply (Dis2 _ Hc). apply (in_tags_of _ m). exact Hin. }
    eapply good_bind; [apply (good_len (Z.of_nat (length b))); [lia|exact Eld]|].
    eapply good_bind_ret_eq; [apply good_take|reflexivity]. }
  destruct G as [G _]. unfold oer_decode. rewrite G, app_length. f_equal. f_equal. lia.
Qed.
