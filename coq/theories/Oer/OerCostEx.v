(** Non-vacuity of the OER work bound (OerCostProofs.v) on the version-2 module
    of OerExtendsEx.v: [Msg] is a SEQUENCE with a DEFAULT component, an addition
    and an addition group, a SEQUENCE OF an extensible SEQUENCE (through a
    reference), an extensible CHOICE and an extensible ENUMERATED.  The
    constant is computed, the measured steps of an accepted encoding and of
    two hostile inputs are next to the bound. *)
From Asn1V Require Import Base.Prelude Syntax.Asn1.
From Asn1V Require Import Oer.OerPrim Oer.OerImpl Oer.OerCost Oer.OerCostProofs Oer.OerExtendsEx.
From Coq Require Import NArith.
Open Scope string_scope.

(** the hypothesis holds, the constant: 77 + 28 per octet, [Ko] = 105, at every
    fuel that reaches the whole (acyclic) module *)
Example oer_cost_constants :
  no_zero_width_elements env2 fuel10 (TRef "Msg") = true /\
  Kabw env2 fuel10 (TRef "Msg") = ABW 77 28 true /\
  Ko env2 fuel10 (TRef "Msg") = 105%N /\ Ko env2 8 (TRef "Msg") = 105%N /\ Ko env2 20 (TRef "Msg") = 105%N.
Proof. repeat split; vm_compute; reflexivity. Qed.

(** the 41 octets of [oextends_inhabited]: 83 steps, bound 105 * 42 = 4410 *)
Example oer_cost_measured_accepted :
  oer_decode_cost false fuel10 env2 (TRef "Msg") octets2
  = (Ok (val2, 41%nat), 83%N).
Proof. vm_compute. reflexivity. Qed.

(** hostile: a quantity field of 2^32 - 1 elements followed by one element and
    nothing else is rejected after 21 steps (bound 105 * 11) *)
Example oer_cost_measured_huge_count :
  oer_decode_cost false fuel10 env2 (TRef "Msg") (hex "c0020104ffffffff8001") = (Err EOutOfData, 21%N).
Proof. vm_compute. reflexivity. Qed.

(** hostile: 127 elements announced, none present: 17 steps *)
Example oer_cost_measured_truncated :
  oer_decode_cost false fuel10 env2 (TRef "Msg") (hex "c00201017f") = (Err EOutOfData, 17%N).
Proof. vm_compute. reflexivity. Qed.

(** the theorem instantiated: every input, whatever it is *)
Example oer_cost_bound_instance :
  forall inp, (snd (oer_decode_cost false fuel10 env2 (TRef "Msg") inp) <= 105 * (N.of_nat (length inp) + 1))%N.
Proof.
  intros inp. destruct oer_cost_constants as (Hz & _ & HK & _).
  rewrite <- HK. apply oer_decode_cost_bound. exact Hz.
Qed.

Print Assumptions oer_cost_constants.
Print Assumptions oer_cost_bound_instance.
