(** The conforming region of the comparison with X.696: [in_scope] is the
    conjunction of the round-trip region [oer_ok] (Oer/OerScope.v) and
    [x_conf], which requires that the value is a value of the type in the
    X.680 sense where the library does not check it (numbers inside the
    visible range, BIT STRING data made of octets), and excludes the recorded
    finding regions:
      - addition groups [[ ]] (the library flattens them, X.696 encodes a
        group as one SEQUENCE)                       finding oer-addition-groups-flattened
      - CHOICE alternatives tagged [UNIVERSAL n]     finding oer-universal-class-tag
      - an extension addition with DEFAULT supplied with its default value
        (BASIC-OER sender's option; the specification is canonical). *)
From Asn1V Require Import Base.Prelude Syntax.Asn1 Oer.OerPrim Oer.OerImpl Oer.OerScope.
Open Scope Z_scope.

Definition int_conf (c : intc) (z : Z) : bool :=
  match c with
  | IcRange lo hi false =>
    match lo with Some l => l <=? z | None => true end &&
    match hi with Some h => z <=? h | None => true end
  | _ => true
  end.

Definition not_universal (t : ty) : bool :=
  match t with
  | TTag tg _ => match t_class tg with Univ => false | _ => true end
  | _ => true
  end.

Section Conf.
  Context (e : env) (rec : ty -> value -> bool).

  Fixpoint conf_root (ms : list (member_of ty)) (fs : list (string * value)) : bool :=
    match ms with
    | [] => true
    | m :: ms' =>
      match lookup (m_name m) fs, m_opt m with
      | Some v, Default d => (value_eqb v d || rec (m_ty m) v) && conf_root ms' fs
      | Some v, _ => rec (m_ty m) v && conf_root ms' fs
      | None, _ => conf_root ms' fs
      end
    end.

  Fixpoint conf_adds (adds : list (addition_of ty)) (fs : list (string * value)) : bool :=
    match adds with
    | [] => true
    | (false, [m]) :: r =>
      match lookup (m_name m) fs with
      | Some v =>
        match m_opt m with Default d => negb (value_eqb v d) | _ => true end &&
        rec (m_ty m) v && conf_adds r fs
      | None => conf_adds r fs
      end
    | _ :: _ => false
    end.

  Definition conf_step (t : ty) (v : value) : bool :=
    match t, v with
    | TInt c, VInt z => int_conf c z
    | TBits _ _, VBits data _ => forallb is_byteb data
    | TSeq _ root ext, VSeq fs =>
      conf_root root fs && match ext with Some adds => conf_adds adds fs | None => true end
    | TSeqOf _ t' _, VList vs => forallb (rec t') vs
    | TChoice root ext, VChoice n v' =>
      let alts := root ++ match ext with Some x => x | None => [] end in
      forallb (fun m => not_universal (m_ty m)) alts &&
      match find_member n alts with Some m => rec (m_ty m) v' | None => false end
    | TRef n, _ => match lookup n e with Some t' => rec t' v | None => false end
    | TTag _ t', _ => rec t' v
    | _, _ => true
    end.
End Conf.

Fixpoint x_conf (fuel : nat) (e : env) (t : ty) (v : value) : bool :=
  match fuel with
  | O => false
  | S f => conf_step e (x_conf f e) t v
  end.

Definition in_scope (numeric : bool) (fuel : nat) (e : env) (t : ty) (v : value) : bool :=
  oer_ok numeric fuel e t v && x_conf fuel e t v.
