(** Specification model of Basic OER (Rec. ITU-T X.696 | ISO/IEC 8825-7),
    written from the standard's clauses and independently of oer.py: octets
    are computed from the abstract value by the rules of clauses 8-29, with
    only OER-visible constraints taken into account (8.2: a constraint with
    an extension marker is not OER-visible; permitted-alphabet constraints are
    not OER-visible; SIZE on SEQUENCE OF is not used).

    Where BASIC-OER leaves the sender a choice this specification takes the
    CANONICAL-OER one (minimal length determinants, DEFAULT values omitted,
    BOOLEAN TRUE = 'FF'H), which is also what the library aims at.  The
    standard's text is not available offline; clause numbers are from memory
    and every rule is pinned by the vectors in Oer/X696Vectors.v.

    [x696_encode numeric fuel env t v = None] when the value is not a value of
    the type (or fuel ran out).  [numeric] only selects how ENUMERATED values
    are written in the abstract value (number or identifier). *)
From Asn1V Require Import Base.Prelude Syntax.Asn1.
Open Scope Z_scope.

Definition obind {A B} (o : option A) (f : A -> option B) : option B :=
  match o with Some a => f a | None => None end.
Notation "'olet' x ':=' o 'in' k" := (obind o (fun x => k))
  (at level 200, x pattern, o at level 100, k at level 200).

(** ** 8.6 Length determinant, 10 whole numbers *)

(** least k >= k0 satisfying P, searching at most [fuel] candidates *)
Fixpoint least_from (P : Z -> bool) (k0 : Z) (fuel : nat) : option Z :=
  match fuel with
  | O => None
  | S f => if P k0 then Some k0 else least_from P (k0 + 1) f
  end.

Definition search_bound (v : Z) : nat := Z.to_nat (Z.log2 (Z.abs v) / 7 + 3).

(** number of base-[b] digits of the shortest unsigned representation (at least one) *)
Definition x_len (b : Z) (v : Z) : option Z := least_from (fun k => v <? b ^ k) 1 (search_bound v).
Definition x_ulen (v : Z) : option Z := x_len 256 v.
(** number of octets of the shortest two's-complement representation *)
Definition x_slen (v : Z) : option Z :=
  least_from (fun k => (- 2 ^ (8 * k - 1) <=? v) && (v <? 2 ^ (8 * k - 1))) 1 (search_bound v).

(** [k] base-[b] digits, most significant first, of v modulo b^k *)
Fixpoint x_digits_acc (b : Z) (k : nat) (v : Z) (acc : list Z) : list Z :=
  match k with O => acc | S k' => x_digits_acc b k' (v / b) (v mod b :: acc) end.
Definition x_octets (k : Z) (v : Z) : list Z := x_digits_acc 256 (Z.to_nat k) v [].

Definition x_length (n : Z) : option (list Z) :=
  if n <? 0 then None
  else if n <? 128 then Some [n]
  else olet k := x_ulen n in
       if k <? 128 then Some ((128 + k) :: x_octets k n) else None.

Definition x_uint_var (v : Z) : option (list Z) :=
  if v <? 0 then None
  else olet k := x_ulen v in olet l := x_length k in Some (l ++ x_octets k v).
Definition x_sint_var (v : Z) : option (list Z) :=
  olet k := x_slen v in olet l := x_length k in Some (l ++ x_octets k v).

(** ** 8.2 OER-visible constraints *)
Definition visible_range (c : intc) : option Z * option Z :=
  match c with
  | IcRange lo hi false => (lo, hi)
  | _ => (None, None)
  end.
Definition visible_fixed_size (sz : size) : option Z :=
  match sz with
  | SzRange lo (Some hi) false => if lo =? hi then Some lo else None
  | _ => None
  end.

(** ** 10 INTEGER *)
Definition in_range (lo hi v : Z) : bool := (lo <=? v) && (v <=? hi).

Definition x_integer (c : intc) (v : Z) : option (list Z) :=
  let within :=
      match visible_range c with
      | (lo, hi) => match lo with Some l => l <=? v | None => true end
                    && match hi with Some h => v <=? h | None => true end
      end in
  if negb within then None else
  match visible_range c with
  | (Some lo, hi) =>
    if 0 <=? lo then
      match hi with
      | Some h =>
        if h <=? 255 then Some (x_octets 1 v)
        else if h <=? 65535 then Some (x_octets 2 v)
        else if h <=? 4294967295 then Some (x_octets 4 v)
        else if h <=? 18446744073709551615 then Some (x_octets 8 v)
        else x_uint_var v
      | None => x_uint_var v
      end
    else
      match hi with
      | Some h =>
        if (-128 <=? lo) && (h <=? 127) then Some (x_octets 1 v)
        else if (-32768 <=? lo) && (h <=? 32767) then Some (x_octets 2 v)
        else if (-2147483648 <=? lo) && (h <=? 2147483647) then Some (x_octets 4 v)
        else if (-9223372036854775808 <=? lo) && (h <=? 9223372036854775807) then Some (x_octets 8 v)
        else x_sint_var v
      | None => x_sint_var v
      end
  | (None, _) => x_sint_var v
  end.

(** ** 11 ENUMERATED *)
Definition x_enum_value (z : Z) : option (list Z) :=
  if in_range 0 127 z then Some [z]
  else olet k := x_slen z in
       if k <? 128 then Some ((128 + k) :: x_octets k z) else None.

Fixpoint x_find_num (n : string) (l : list (string * Z)) : option Z :=
  match l with [] => None | (k, z) :: r => if String.eqb n k then Some z else x_find_num n r end.

Definition x_enumerated (numeric : bool) (items : list (string * Z)) (v : value) : option (list Z) :=
  match v with
  | VInt z => if numeric && existsb (fun it => snd it =? z) items then x_enum_value z else None
  | VEnum n => if numeric then None else olet z := x_find_num n items in x_enum_value z
  | _ => None
  end.

(** ** bit fields: preamble and bitmaps, most significant bit first, padded with zero bits *)
Fixpoint x_bits_value (bs : list bool) : Z :=
  match bs with [] => 0 | b :: r => (if b then 2 ^ Z.of_nat (length r) else 0) + x_bits_value r end.
(** one octet from (up to) eight bits, missing low-order bits being zero *)
Definition x_octet_of (chunk : list bool) : Z :=
  x_bits_value (chunk ++ repeat false (8 - length chunk)).
Fixpoint x_pack_fuel (fuel : nat) (bs : list bool) : list Z :=
  match fuel with
  | O => []
  | S f =>
    match bs with
    | [] => []
    | _ => x_octet_of (firstn 8 bs) :: x_pack_fuel f (skipn 8 bs)
    end
  end.
Definition x_pack (bs : list bool) : list Z := x_pack_fuel (length bs) bs.

Definition x_byte_bits (b : Z) : list bool :=
  map (fun i => Z.odd (b / 2 ^ i)) [7; 6; 5; 4; 3; 2; 1; 0].

(** ** 12 BIT STRING, 13 OCTET STRING, 27-29 restricted character strings *)
Definition x_bitstring (sz : size) (data : list Z) (n : Z) : option (list Z) :=
  if (n <? 0) || (8 * Z.of_nat (length data) <? n) then None
  else
    let bits := firstn (Z.to_nat n) (flat_map x_byte_bits data) in
    let octets := x_pack bits in
    match visible_fixed_size sz with
    | Some s => if s =? n then Some octets else None
    | None =>
      olet l := x_length (1 + Z.of_nat (length octets)) in
      Some (l ++ ((- n) mod 8) :: octets)
    end.

Definition x_sized (fixed : option Z) (count : Z) (octets : list Z) : option (list Z) :=
  match fixed with
  | Some s => if s =? count then Some octets else None
  | None => olet l := x_length (Z.of_nat (length octets)) in Some (l ++ octets)
  end.

Definition x_utf8 (c : Z) : option (list Z) :=
  if in_range 0 127 c then Some [c]
  else if in_range 128 2047 c then Some [192 + c / 64; 128 + c mod 64]
  else if in_range 2048 65535 c then
    if in_range 55296 57343 c then None
    else Some [224 + c / 4096; 128 + (c / 64) mod 64; 128 + c mod 64]
  else if in_range 65536 1114111 c then
    Some [240 + c / 262144; 128 + (c / 4096) mod 64; 128 + (c / 64) mod 64; 128 + c mod 64]
  else None.
Definition x_char7 (c : Z) : option (list Z) := if in_range 0 127 c then Some [c] else None.

Fixpoint x_chars (f : Z -> option (list Z)) (cs : list Z) : option (list Z) :=
  match cs with
  | [] => Some []
  | c :: r => olet a := f c in olet b := x_chars f r in Some (a ++ b)
  end.

(** Known-multiplier types (one octet per character here) drop the length
    when the size is fixed by a visible constraint; UTF8String never does. *)
Definition x_string (k : strkind) (sz : size) (cs : list Z) : option (list Z) :=
  match k with
  | SkUTF8 => olet o := x_chars x_utf8 cs in x_sized None 0 o
  | SkIA5 | SkVisible | SkNumeric | SkPrintable =>
    olet o := x_chars x_char7 cs in x_sized (visible_fixed_size sz) (Z.of_nat (length cs)) o
  | _ => None
  end.

(** ** 23 OBJECT IDENTIFIER: length determinant + the X.690 8.19 contents *)
(** base-128 digits, bit 8 set on all but the last (X.690 8.19.2) *)
Fixpoint x_cont (ds : list Z) : list Z :=
  match ds with
  | [] => []
  | [d] => [d]
  | d :: r => (128 + d) :: x_cont r
  end.
Definition x_subid (v : Z) : option (list Z) :=
  olet k := x_len 128 v in Some (x_cont (x_digits_acc 128 (Z.to_nat k) v [])).

Fixpoint x_subids (vs : list Z) : option (list Z) :=
  match vs with
  | [] => Some []
  | v :: r => olet a := x_subid v in olet b := x_subids r in Some (a ++ b)
  end.

Definition x_oid (arcs : list Z) : option (list Z) :=
  match arcs with
  | a0 :: a1 :: rest =>
    if forallb (fun a => 0 <=? a) arcs && in_range 0 2 a0 && ((a0 =? 2) || (a1 <? 40))
    then olet c := x_subids ((40 * a0 + a1) :: rest) in
         olet l := x_length (Z.of_nat (length c)) in Some (l ++ c)
    else None
  | _ => None
  end.

(** ** 8.7 tags (used by CHOICE only) *)
Definition x_class_bits (c : tclass) : Z :=
  match c with Univ => 0 | Appl => 64 | Ctx => 128 | Priv => 192 end.
Definition x_tag (c : tclass) (num : Z) : option (list Z) :=
  if num <? 0 then None
  else if num <? 63 then Some [x_class_bits c + num]
  else olet ds := x_subid num in Some ((x_class_bits c + 63) :: ds).

Definition x_open (o : list Z) : option (list Z) :=
  olet l := x_length (Z.of_nat (length o)) in Some (l ++ o).

(** ** constructed types *)
Section Spec.
  Context (numeric : bool) (e : env) (rec : ty -> value -> option (list Z)).

  Definition x_has (n : string) (fs : list (string * value)) : bool :=
    match lookup n fs with Some _ => true | None => false end.

  (** 16.2 preamble bit and 16.3 encoding of one root component *)
  Definition x_component (m : member_of ty) (fs : list (string * value))
    : option (list bool * list Z) :=
    match m_opt m, lookup (m_name m) fs with
    | Mandatory, Some v => olet o := rec (m_ty m) v in Some ([], o)
    | Mandatory, None => None
    | Optional, Some v => olet o := rec (m_ty m) v in Some ([true], o)
    | Optional, None => Some ([false], [])
    | Default d, Some v =>
      if value_eqb v d then Some ([false], [])
      else olet o := rec (m_ty m) v in Some ([true], o)
    | Default d, None => Some ([false], [])
    end.

  Fixpoint x_components (ms : list (member_of ty)) (fs : list (string * value))
    : option (list bool * list Z) :=
    match ms with
    | [] => Some ([], [])
    | m :: r =>
      olet (b1, o1) := x_component m fs in
      olet (b2, o2) := x_components r fs in Some (b1 ++ b2, o1 ++ o2)
    end.

  (** 16.4/16.5: one extension addition: a single component, or an addition
      group encoded as a SEQUENCE of its components.  [Some None]: absent. *)
  Definition x_addition (a : addition_of ty) (fs : list (string * value))
    : option (option (list Z)) :=
    match a with
    | (false, [m]) =>
      match lookup (m_name m) fs, m_opt m with
      | Some v, Default d => if value_eqb v d then Some None else olet o := rec (m_ty m) v in Some (Some o)
      | Some v, _ => olet o := rec (m_ty m) v in Some (Some o)
      | None, _ => Some None
      end
    | (_, ms) =>
      if existsb (fun m => x_has (m_name m) fs) ms
      then olet o := rec (TSeq false ms None) (VSeq fs) in Some (Some o)
      else Some None
    end.

  Fixpoint x_additions (adds : list (addition_of ty)) (fs : list (string * value))
    : option (list bool * list Z) :=
    match adds with
    | [] => Some ([], [])
    | a :: r =>
      olet x := x_addition a fs in
      olet (bits, os) := x_additions r fs in
      match x with
      | Some o => olet w := x_open o in Some (true :: bits, w ++ os)
      | None => Some (false :: bits, os)
      end
    end.

  Definition x_sequence (root : list (member_of ty)) (ext : option (list (addition_of ty)))
             (fs : list (string * value)) : option (list Z) :=
    olet (pre, body) := x_components root fs in
    match ext with
    | None => Some (x_pack pre ++ body)
    | Some adds =>
      olet (bits, os) := x_additions adds fs in
      if existsb (fun b => b) bits then
        let bitmap := x_pack bits in
        olet l := x_length (1 + Z.of_nat (length bitmap)) in
        Some (x_pack (true :: pre) ++ body ++ l ++ ((- Z.of_nat (length bits)) mod 8) :: bitmap ++ os)
      else Some (x_pack (false :: pre) ++ body)
    end.

  Fixpoint x_elements (t : ty) (vs : list value) : option (list Z) :=
    match vs with
    | [] => Some []
    | v :: r => olet a := rec t v in olet b := x_elements t r in Some (a ++ b)
    end.

  (** 20: the tag of an alternative: its own outermost tag, or, under
      AUTOMATIC TAGS with no alternative tagged, context [index]. *)
  Definition x_alt_tagged (t : ty) : bool := match t with TTag _ _ => true | _ => false end.

  Fixpoint x_find_alt (n : string) (i : Z) (ms : list (member_of ty)) : option (Z * member_of ty) :=
    match ms with
    | [] => None
    | m :: r => if String.eqb n (m_name m) then Some (i, m) else x_find_alt n (i + 1) r
    end.

  Definition x_choice (root : list (member_of ty)) (ext : option (list (member_of ty)))
             (n : string) (v : value) : option (list Z) :=
    let extl := match ext with Some x => x | None => [] end in
    let automatic := negb (existsb (fun m => x_alt_tagged (m_ty m)) (root ++ extl)) in
    let tag_of i (m : member_of ty) :=
        if automatic then x_tag Ctx i
        else match m_ty m with TTag tg _ => x_tag (t_class tg) (t_num tg) | _ => None end in
    match x_find_alt n 0 root with
    | Some (i, m) => olet tg := tag_of i m in olet o := rec (m_ty m) v in Some (tg ++ o)
    | None =>
      olet (i, m) := x_find_alt n (Z.of_nat (length root)) extl in
      olet tg := tag_of i m in
      olet o := rec (m_ty m) v in olet w := x_open o in Some (tg ++ w)
    end.

  Definition x_step (t : ty) (v : value) : option (list Z) :=
    match t, v with
    | TBool, VBool b => Some [if b then 255 else 0]
    | TNull, VNone => Some []
    | TInt c, VInt z => x_integer c z
    | TEnum root ext, _ => x_enumerated numeric (root ++ match ext with Some x => x | None => [] end) v
    | TBits _ sz, VBits data n => x_bitstring sz data n
    | TOctets sz, VBytes o => x_sized (visible_fixed_size sz) (Z.of_nat (length o)) o
    | TStr k sz _, VStr cs => x_string k sz cs
    | TOid, VOid arcs => x_oid arcs
    | TSeq false root ext, VSeq fs => x_sequence root ext fs
    | TSeq true root ext, VSeq fs =>
      (* 18: SET components in canonical tag order; with AUTOMATIC TAGS and no
         component tagged this is the textual order *)
      if existsb (fun m => x_alt_tagged (m_ty m)) root then None else x_sequence root ext fs
    | TSeqOf _ t' _, VList vs =>
      olet q := x_uint_var (Z.of_nat (length vs)) in
      olet o := x_elements t' vs in Some (q ++ o)
    | TChoice root ext, VChoice n v' => x_choice root ext n v'
    | TRef n, _ => olet t' := lookup n e in rec t' v
    | TTag _ t', _ => rec t' v
    | _, _ => None
    end.
End Spec.

Fixpoint x696_encode (numeric : bool) (fuel : nat) (e : env) (t : ty) (v : value)
  : option (list Z) :=
  match fuel with
  | O => None
  | S f => x_step numeric e (x696_encode numeric f e) t v
  end.
