(** The hypotheses of [oer_forward] / [oer_backward] (OerExtends.v) are
    satisfiable by a non-trivial instance: a module extended at FOUR nodes of
    different depth at once — an addition group at the top-level SEQUENCE, a
    new item of an ENUMERATED reached through a reference from a DEFAULT
    component, a new alternative of a CHOICE, and a new addition of the
    SEQUENCE that is the element type of a SEQUENCE OF (and, in version 2, the
    type of the new alternative).  All hypotheses by [vm_compute]; the octets
    are those /repo produces (PYTHONPATH=/repo /venv/bin/python, codec 'oer'):

    version 1                                  version 2
    M DEFINITIONS AUTOMATIC TAGS ::= BEGIN     M DEFINITIONS AUTOMATIC TAGS ::= BEGIN
      Color ::= ENUMERATED { red(0), green(1),   Color ::= ENUMERATED { red(0), green(1),
                             ..., blue(2) }                             ..., blue(2), black(3) }
      Inner ::= SEQUENCE { x INTEGER (0..255),   Inner ::= SEQUENCE { x INTEGER (0..255),
                           ..., y BOOLEAN }                           ..., y BOOLEAN, z OCTET STRING }
      Shape ::= CHOICE { circle INTEGER (0..255), Shape ::= CHOICE { circle INTEGER (0..255),
                         ..., square BOOLEAN }                      ..., square BOOLEAN, tri Inner }
      Msg ::= SEQUENCE {                         Msg ::= SEQUENCE {
        id INTEGER (0..65535),                     id INTEGER (0..65535),
        items SEQUENCE OF Inner,                   items SEQUENCE OF Inner,
        shape Shape,                               shape Shape,
        color Color DEFAULT red,                   color Color DEFAULT red,
        ...,                                       ...,
        note IA5String                             note IA5String,
      }                                            [[ extra INTEGER, flag BOOLEAN ]]
    END                                          }
                                               END

    c2.encode('Msg', {'id': 513, 'items': [{'x': 1, 'y': True, 'z': b'\xaa\xbb'}, {'x': 2}],
                      'shape': ('tri', {'x': 7, 'z': b'\x01'}), 'color': 'black', 'note': 'hi',
                      'extra': -2, 'flag': True}).hex()
      = 'c00201010280010206c001ff0302aabb000282088007020640020101030205e0030268690201fe01ff'
    c1.decode('Msg', that)
      = {'id': 513, 'items': [{'x': 1, 'y': True}, {'x': 2}], 'shape': (None, None), 'color': None, 'note': 'hi'}
    c1.encode('Msg', {'id': 7, 'items': [{'x': 1, 'y': False}], 'shape': ('square', True),
                      'color': 'blue', 'note': 'a'}).hex()
      = 'c000070101800102078001008101ff02020780020161'
    c2.decode('Msg', that) = the same value. *)
From Asn1V Require Import Base.Prelude Syntax.Asn1.
From Asn1V Require Import Oer.OerPrim Oer.OerImpl Oer.OerScope Oer.OerPrimProofs Oer.OerExtends.
Open Scope Z_scope.
Open Scope string_scope.

Definition u8 := TInt (IcRange (Some 0) (Some 255) false).
Definition color1 := TEnum [("red", 0); ("green", 1)] (Some [("blue", 2)]).
Definition color2 := TEnum [("red", 0); ("green", 1)] (Some [("blue", 2); ("black", 3)]).
Definition inner1 := TSeq false [("x", u8, Mandatory)] (Some [(false, [("y", TBool, Mandatory)])]).
Definition inner2 :=
  TSeq false [("x", u8, Mandatory)]
       (Some [(false, [("y", TBool, Mandatory)]); (false, [("z", TOctets SzNone, Mandatory)])]).
Definition shape1 := TChoice [("circle", u8, Mandatory)] (Some [("square", TBool, Mandatory)]).
Definition shape2 :=
  TChoice [("circle", u8, Mandatory)] (Some [("square", TBool, Mandatory); ("tri", TRef "Inner", Mandatory)]).
Definition msg_root : list (member_of ty) :=
  [("id", TInt (IcRange (Some 0) (Some 65535) false), Mandatory);
   ("items", TSeqOf false (TRef "Inner") SzNone, Mandatory);
   ("shape", TRef "Shape", Mandatory);
   ("color", TRef "Color", Default (VEnum "red"))].
Definition note_add : addition_of ty := (false, [("note", TStr SkIA5 SzNone None, Mandatory)]).
Definition msg1 := TSeq false msg_root (Some [note_add]).
Definition msg2 :=
  TSeq false msg_root
       (Some [note_add; (true, [("extra", TInt IcNone, Mandatory); ("flag", TBool, Mandatory)])]).

Definition env1 : env := [("Color", color1); ("Inner", inner1); ("Shape", shape1); ("Msg", msg1)].
Definition env2 : env := [("Color", color2); ("Inner", inner2); ("Shape", shape2); ("Msg", msg2)].

Definition fuel10 : nat := 10.

Definition val2 : value :=
  VSeq [("id", VInt 513);
        ("items", VList [VSeq [("x", VInt 1); ("y", VBool true); ("z", VBytes [170; 187])];
                         VSeq [("x", VInt 2)]]);
        ("shape", VChoice "tri" (VSeq [("x", VInt 7); ("z", VBytes [1])]));
        ("color", VEnum "black");
        ("note", VStr [104; 105]);
        ("extra", VInt (-2)); ("flag", VBool true)].

(** what version 1 sees of it *)
Definition view1 : value :=
  VSeq [("id", VInt 513);
        ("items", VList [VSeq [("x", VInt 1); ("y", VBool true)]; VSeq [("x", VInt 2)]]);
        ("shape", VUnknownChoice);
        ("color", VNone);
        ("note", VStr [104; 105])].

Definition octets2 := hex "c00201010280010206c001ff0302aabb000282088007020640020101030205e0030268690201fe01ff".

Definition val1 : value :=
  VSeq [("id", VInt 7);
        ("items", VList [VSeq [("x", VInt 1); ("y", VBool false)]]);
        ("shape", VChoice "square" (VBool true));
        ("color", VEnum "blue");
        ("note", VStr [97])].
Definition octets1 := hex "c000070101800102078001008101ff02020780020161".

(** the relation, the scope and the encodings (the octets of /repo) *)
Example oextends_inhabited :
  oext env1 env2 fuel10 (TRef "Msg") (TRef "Msg") = true /\
  oer_ok false fuel10 env2 (TRef "Msg") val2 = true /\
  oer_encode false fuel10 env2 (TRef "Msg") val2 = Ok octets2 /\
  oview env1 env2 fuel10 (TRef "Msg") (TRef "Msg") val2 = view1 /\
  ostrict env1 env2 fuel10 (TRef "Msg") (TRef "Msg") = true /\
  oproj env1 env2 fuel10 (TRef "Msg") (TRef "Msg") (oer_norm fuel10 env2 (TRef "Msg") val2) = view1 /\
  oer_decode false fuel10 env1 (TRef "Msg") octets2 = Ok (view1, 41%nat) /\
  oer_ok false fuel10 env1 (TRef "Msg") val1 = true /\
  oer_encode false fuel10 env1 (TRef "Msg") val1 = Ok octets1 /\
  oer_norm fuel10 env1 (TRef "Msg") val1 = val1 /\
  oer_decode false fuel10 env2 (TRef "Msg") octets1 = Ok (val1, 22%nat).
Proof. repeat split; vm_compute; reflexivity. Qed.

(** the theorems instantiated: any tail, and every strict prefix *)
Example oextends_forward_instance :
  (forall tail, oer_decode false fuel10 env1 (TRef "Msg") (octets2 ++ tail) = Ok (view1, 41%nat)) /\
  (forall p, strict_prefix p octets2 ->
             exists x, oer_decode false fuel10 env1 (TRef "Msg") p = Err x /\ is_decode_error x = true).
Proof.
  destruct oextends_inhabited as (Hx & Hok & He & Hv & _).
  split.
  - intros tail. rewrite (oer_forward false env1 env2 fuel10 _ _ val2 octets2 Hx Hok He tail), Hv. reflexivity.
  - exact (oer_forward_truncation false env1 env2 fuel10 _ _ val2 octets2 Hx Hok He).
Qed.

Example oextends_backward_instance :
  (forall tail, oer_decode false fuel10 env2 (TRef "Msg") (octets1 ++ tail) = Ok (val1, 22%nat)) /\
  (forall p, strict_prefix p octets1 ->
             exists x, oer_decode false fuel10 env2 (TRef "Msg") p = Err x /\ is_decode_error x = true).
Proof.
  destruct oextends_inhabited as (Hx & _ & _ & _ & _ & _ & _ & Hok & He & Hn & _).
  split.
  - intros tail. rewrite (oer_backward false env1 env2 fuel10 _ _ val1 octets1 Hx Hok He tail), Hn. reflexivity.
  - exact (oer_backward_truncation false env1 env2 fuel10 _ _ val1 octets1 Hx Hok He).
Qed.

(** * The hypotheses are necessary *)

(** [oer_ok] at version 2 (distinct CHOICE tags): a new alternative that reuses
    the tag of an old one is decoded by version 1 as the old alternative, from
    the length octet, and the rest of the encoding is left over. *)
Definition tg (n : Z) := mkTag Ctx n false.
Definition dup_choice1 := TChoice [("a", TTag (tg 0) TBool, Mandatory)] (Some []).
Definition dup_choice2 :=
  TChoice [("a", TTag (tg 0) TBool, Mandatory)] (Some [("b", TTag (tg 0) (TInt IcNone), Mandatory)]).
Example oer_forward_needs_distinct_tags_refuted :
  oext [] [] 3 dup_choice1 dup_choice2 = true /\
  oer_ok false 3 [] dup_choice2 (VChoice "b" (VInt 5)) = false /\
  oer_encode false 3 [] dup_choice2 (VChoice "b" (VInt 5)) = Ok (hex "80020105") /\
  oview [] [] 3 dup_choice1 dup_choice2 (VChoice "b" (VInt 5)) = VUnknownChoice /\
  oer_decode false 3 [] dup_choice1 (hex "80020105") = Ok (VChoice "a" (VBool true), 2%nat).
Proof. repeat split; vm_compute; reflexivity. Qed.

(** [oer_ok] at version 2 (distinct ENUMERATED numbers, names mode): a new item
    that reuses the number of an old one is decoded by version 1 as the old item. *)
Definition dup_enum1 := TEnum [("a", 0)] (Some [("b", 1)]).
Definition dup_enum2 := TEnum [("a", 0)] (Some [("b", 1); ("c", 1)]).
Example oer_forward_needs_distinct_numbers_refuted :
  oext [] [] 3 dup_enum1 dup_enum2 = true /\
  oer_ok false 3 [] dup_enum2 (VEnum "c") = false /\
  oer_encode false 3 [] dup_enum2 (VEnum "c") = Ok [1] /\
  oview [] [] 3 dup_enum1 dup_enum2 (VEnum "c") = VNone /\
  oer_decode false 3 [] dup_enum1 [1] = Ok (VEnum "b", 1%nat).
Proof. repeat split; vm_compute; reflexivity. Qed.

(** the relation's "same outermost tag" on components: with the tag of an
    alternative changed, version 1 does not find the alternative and skips a
    length that is not there. *)
Definition retag_choice1 := TChoice [("a", TTag (tg 0) TBool, Mandatory)] (Some []).
Definition retag_choice2 := TChoice [("a", TTag (tg 1) TBool, Mandatory)] (Some []).
Example oext_needs_same_tag_refuted :
  oext [] [] 3 retag_choice1 retag_choice2 = false /\
  oer_ok false 3 [] retag_choice2 (VChoice "a" (VBool true)) = true /\
  oer_encode false 3 [] retag_choice2 (VChoice "a" (VBool true)) = Ok (hex "81ff") /\
  oer_decode false 3 [] retag_choice1 (hex "81ff") = Err EOutOfData.
Proof. repeat split; vm_compute; reflexivity. Qed.

(** the relation's "every alternative of version 2 has a tag in the model": a
    tagged new alternative next to untagged old ones switches version 2 out of
    AUTOMATIC numbering, where the model has no tag for the old alternatives
    (the library takes their UNIVERSAL tags, which the model does not cover):
    the version-2 decoder of the model is undefined on a version-1 encoding. *)
Definition auto_choice1 := TChoice [("a", TBool, Mandatory)] (Some []).
Definition auto_choice2 := TChoice [("a", TBool, Mandatory)] (Some [("b", TTag (tg 0) (TInt IcNone), Mandatory)]).
Example oext_needs_tagged_refuted :
  oext [] [] 3 auto_choice1 auto_choice2 = false /\
  oer_ok false 3 [] auto_choice1 (VChoice "a" (VBool true)) = true /\
  oer_encode false 3 [] auto_choice1 (VChoice "a" (VBool true)) = Ok (hex "80ff") /\
  oer_decode false 3 [] auto_choice2 (hex "80ff") = Err EUnmodelled.
Proof. repeat split; vm_compute; reflexivity. Qed.

(** [ostrict] (only for the projection form [oer_forward_proj]): with a
    component name used twice in version 2 the projection by name keeps both
    fields, version 1 returns one. *)
Definition dupname1 := TSeq false [("a", TBool, Mandatory)] (Some []).
Definition dupname2 := TSeq false [("a", TBool, Mandatory)] (Some [(false, [("a", TBool, Mandatory)])]).
Example oview_proj_needs_distinct_names_refuted :
  oext [] [] 3 dupname1 dupname2 = true /\
  ostrict [] [] 3 dupname1 dupname2 = false /\
  oer_ok false 3 [] dupname2 (VSeq [("a", VBool true)]) = true /\
  oer_encode false 3 [] dupname2 (VSeq [("a", VBool true)]) = Ok (hex "80ff02078001ff") /\
  oer_decode false 3 [] dupname1 (hex "80ff02078001ff") = Ok (VSeq [("a", VBool true)], 7%nat) /\
  oview [] [] 3 dupname1 dupname2 (VSeq [("a", VBool true)]) = VSeq [("a", VBool true)] /\
  oproj [] [] 3 dupname1 dupname2 (oer_norm 3 [] dupname2 (VSeq [("a", VBool true)]))
  = VSeq [("a", VBool true); ("a", VBool true)].
Proof. repeat split; vm_compute; reflexivity. Qed.

(** [ostrict], DEFAULT values: a DEFAULT value that carries a field version 1
    does not know is returned as written by version 1 when the component is
    absent, its projection has lost the field. *)
Definition dfl_inner1 := TSeq false [("x", TBool, Mandatory)] (Some []).
Definition dfl_inner2 := TSeq false [("x", TBool, Mandatory)] (Some [(false, [("y", TBool, Mandatory)])]).
Definition dfl_val := VSeq [("x", VBool true); ("y", VBool true)].
Definition dfl_outer1 := TSeq false [("i", dfl_inner1, Default dfl_val)] None.
Definition dfl_outer2 := TSeq false [("i", dfl_inner2, Default dfl_val)] None.
Example oview_proj_needs_default_projection_refuted :
  oext [] [] 4 dfl_outer1 dfl_outer2 = true /\
  ostrict [] [] 4 dfl_outer1 dfl_outer2 = false /\
  oer_ok false 4 [] dfl_outer2 (VSeq []) = true /\
  oer_encode false 4 [] dfl_outer2 (VSeq []) = Ok [0] /\
  oer_decode false 4 [] dfl_outer1 [0] = Ok (VSeq [("i", dfl_val)], 1%nat) /\
  oproj [] [] 4 dfl_outer1 dfl_outer2 (oer_norm 4 [] dfl_outer2 (VSeq []))
  = VSeq [("i", VSeq [("x", VBool true)])].
Proof. repeat split; vm_compute; reflexivity. Qed.

Print Assumptions oextends_inhabited.
Print Assumptions oextends_forward_instance.
Print Assumptions oextends_backward_instance.
