(** Lemmas about the primitive layer of the OER model, and the [good]
    predicate that packages "decodes back with any tail" with "every strict
    prefix is a decode error" and composes over [dbind]. *)
From Asn1V Require Import Base.Prelude Oer.OerPrim.
Open Scope Z_scope.

Lemma Ok_inj {A} (a b : A) : Ok a = Ok b -> a = b.
Proof. congruence. Qed.

(** * [good]: exact round trip with any tail + truncation safety *)
Definition strict_prefix {A} (p l : list A) : Prop := exists s, s <> [] /\ l = p ++ s.

Definition dec_err {A} (r : result A) : Prop :=
  exists x, r = Err x /\ is_decode_error x = true.

Definition good {A} (D : dec A) (bs : list Z) (a : A) : Prop :=
  (forall tail, D (bs ++ tail) = Ok (a, tail)) /\
  (forall p, strict_prefix p bs -> dec_err (D p)).

Lemma strict_prefix_nil {A} (p : list A) : ~ strict_prefix p [].
Proof. intros [s [Hs H]]. destruct p; destruct s; simpl in H; congruence. Qed.

Lemma strict_prefix_app {A} (p l1 l2 : list A) :
  strict_prefix p (l1 ++ l2) ->
  strict_prefix p l1 \/ exists q, p = l1 ++ q /\ strict_prefix q l2.
Proof.
  revert p. induction l1 as [|x l1 IH]; intros p [s [Hs H]].
  - right. exists p. split; [reflexivity|]. exists s. auto.
  - destruct p as [|y p].
    + left. exists (x :: l1). split; [discriminate|reflexivity].
    + simpl in H. injection H as Hx H. subst y.
      destruct (IH p) as [[s' [Hs' H']]|[q [Hq Hq']]].
      * exists s. auto.
      * left. exists s'. split; auto. simpl. congruence.
      * right. exists q. split; auto. simpl. congruence.
Qed.

Lemma strict_prefix_length {A} (p l : list A) : strict_prefix p l -> (length p < length l)%nat.
Proof.
  intros [s [Hs H]]. subst l. rewrite app_length. destruct s; [congruence|simpl; lia].
Qed.

Lemma good_ret {A} (a : A) : good (dret a) [] a.
Proof.
  split; [reflexivity|]. intros p H. destruct (strict_prefix_nil _ H).
Qed.

Lemma good_bind {A B} (m : dec A) (f : A -> dec B) bs1 bs2 a b :
  good m bs1 a -> good (f a) bs2 b -> good (dbind m f) (bs1 ++ bs2) b.
Proof.
  intros [H1 T1] [H2 T2]. split.
  - intros tail. unfold dbind. rewrite <- app_assoc, H1. apply H2.
  - intros p Hp. unfold dbind.
    destruct (strict_prefix_app _ _ _ Hp) as [Hp1|[q [-> Hq]]].
    + destruct (T1 p Hp1) as [x [-> Hx]]. exists x. auto.
    + rewrite H1. apply T2. exact Hq.
Qed.

Lemma good_bind_ret {A B} (m : dec A) (g : A -> B) bs a :
  good m bs a -> good (dbind m (fun x => dret (g x))) bs (g a).
Proof.
  intros H. rewrite <- (app_nil_r bs). eapply good_bind; [exact H|apply good_ret].
Qed.

Lemma good_bind_ret_eq {A B} (m : dec A) (g : A -> B) bs a b :
  good m bs a -> g a = b -> good (dbind m (fun x => dret (g x))) bs b.
Proof. intros H <-. apply good_bind_ret. exact H. Qed.

Lemma good_ext {A} (D D' : dec A) bs a : (forall l, D l = D' l) -> good D bs a -> good D' bs a.
Proof.
  intros E [H T]. split; intros; rewrite <- E; auto.
Qed.

Lemma good_byte b : good dec_byte [b] b.
Proof.
  split; [reflexivity|].
  intros p Hp. apply strict_prefix_length in Hp. destruct p; [|simpl in Hp; lia].
  exists EOutOfData. auto.
Qed.

Lemma good_take l : good (dec_take (Z.of_nat (length l))) l l.
Proof.
  split.
  - intros tail. unfold dec_take.
    destruct (Z.of_nat (length l) <? 0) eqn:E1; [lia|].
    rewrite app_length.
    destruct (Z.of_nat (length l + length tail) <? Z.of_nat (length l)) eqn:E2; [lia|].
    rewrite Nat2Z.id. rewrite firstn_app, Nat.sub_diag, firstn_all. simpl. rewrite app_nil_r.
    rewrite skipn_app, Nat.sub_diag, skipn_all. reflexivity.
  - intros p Hp. apply strict_prefix_length in Hp. unfold dec_take.
    destruct (Z.of_nat (length l) <? 0) eqn:E1; [lia|].
    destruct (Z.of_nat (length p) <? Z.of_nat (length l)) eqn:E2; [|lia].
    exists EOutOfData. auto.
Qed.

Lemma good_take' n l : n = Z.of_nat (length l) -> good (dec_take n) l l.
Proof. intros ->. apply good_take. Qed.

(** * Big-endian octets *)
Lemma be_bytes_length n v : length (be_bytes n v) = n.
Proof. induction n; simpl; congruence. Qed.

Lemma be_value_acc_be_bytes n : forall acc v,
  be_value_acc acc (be_bytes n v) = acc * 256 ^ Z.of_nat n + v mod 256 ^ Z.of_nat n.
Proof.
  induction n as [|k IH]; intros acc v.
  - simpl. rewrite Z.mod_1_r. lia.
  - cbn [be_bytes be_value_acc]. rewrite IH.
    rewrite Nat2Z.inj_succ, Z.pow_succ_r by lia.
    rewrite (Z.mul_comm 256 (256 ^ Z.of_nat k)).
    rewrite (Z.rem_mul_r v (256 ^ Z.of_nat k) 256) by lia. lia.
Qed.

Lemma be_value_be_bytes n v : 0 <= v < 256 ^ Z.of_nat n -> be_value (be_bytes n v) = v.
Proof.
  intros H. unfold be_value. rewrite be_value_acc_be_bytes. rewrite Z.mod_small by lia. lia.
Qed.

Lemma pow256 k : 0 <= k -> 256 ^ k = 2 ^ (8 * k).
Proof. intros H. rewrite Z.pow_mul_r by lia. reflexivity. Qed.

Lemma bit_length_nonneg v : 0 <= bit_length v.
Proof.
  unfold bit_length. destruct (v <=? 0) eqn:E; [lia|]. pose proof (Z.log2_nonneg v). lia.
Qed.

Lemma bit_length_spec v : 0 <= v -> v < 2 ^ bit_length v.
Proof.
  intros H. unfold bit_length. destruct (v <=? 0) eqn:E.
  - simpl. lia.
  - pose proof (Z.log2_spec v ltac:(lia)). unfold Z.succ in *. lia.
Qed.

Lemma bit_length_lower v : 0 < v -> 2 ^ (bit_length v - 1) <= v.
Proof.
  intros H. unfold bit_length. destruct (v <=? 0) eqn:E; [lia|].
  replace (Z.log2 v + 1 - 1) with (Z.log2 v) by lia.
  apply (Z.log2_spec v H).
Qed.

Lemma lt_pow2_le v a b : v < 2 ^ a -> 0 <= a <= b -> v < 2 ^ b.
Proof.
  intros H1 H2. pose proof (Z.pow_le_mono_r 2 a b ltac:(lia) ltac:(lia)). lia.
Qed.

Lemma ulen_pos v : 1 <= ulen v.
Proof.
  unfold ulen. apply Z.div_le_lower_bound; lia.
Qed.

Lemma ulen_spec v : 0 <= v -> v < 256 ^ ulen v.
Proof.
  intros H. pose proof (ulen_pos v). rewrite pow256 by lia.
  apply (lt_pow2_le v (bit_length v)); [apply bit_length_spec; lia|].
  split; [apply bit_length_nonneg|].
  unfold ulen. pose proof (Z.mul_div_le (Z.max (bit_length v) 1 + 7) 8 ltac:(lia)).
  pose proof (Z.mod_pos_bound (Z.max (bit_length v) 1 + 7) 8 ltac:(lia)).
  pose proof (Z.div_mod (Z.max (bit_length v) 1 + 7) 8 ltac:(lia)). lia.
Qed.

(** * Length determinant *)
Lemma good_len n ld : 0 <= n -> len_det n = Ok ld -> good dec_len ld n.
Proof.
  intros Hn H. unfold len_det in H. destruct (n <? 128) eqn:E.
  - injection H as <-. unfold dec_len.
    rewrite <- (app_nil_r [n]). eapply good_bind; [apply good_byte|].
    rewrite E. apply good_ret.
  - remember ((bit_length n + 7) / 8) as k eqn:Ek.
    destruct (127 <? k) eqn:E2; [discriminate|]. injection H as <-.
    assert (Hk : 1 <= k).
    { subst k. apply Z.div_le_lower_bound; [lia|].
      assert (1 <= bit_length n); [|lia].
      unfold bit_length. destruct (n <=? 0) eqn:E3; [lia|]. pose proof (Z.log2_nonneg n). lia. }
    assert (Hlt : n < 256 ^ k).
    { rewrite pow256 by lia. apply (lt_pow2_le n (bit_length n)); [apply bit_length_spec; lia|].
      split; [apply bit_length_nonneg|]. subst k.
      pose proof (Z.div_mod (bit_length n + 7) 8 ltac:(lia)).
      pose proof (Z.mod_pos_bound (bit_length n + 7) 8 ltac:(lia)). lia. }
    clear Ek. unfold dec_len.
    apply (good_bind dec_byte _ [128 + k] (be_bytes (Z.to_nat k) n) (128 + k)); [apply good_byte|].
    destruct (128 + k <? 128) eqn:E3; [lia|].
    replace (128 + k - 128) with k by lia.
    eapply good_bind_ret_eq; [apply good_take'; rewrite be_bytes_length, Z2Nat.id; lia|].
    apply be_value_be_bytes; rewrite Z2Nat.id by lia; lia.
Qed.

Lemma len_det_nonempty n ld : len_det n = Ok ld -> ld <> [].
Proof.
  unfold len_det. destruct (n <? 128); [intros [= <-]; discriminate|].
  destruct (127 <? _); [discriminate|]. intros [= <-]. discriminate.
Qed.

(** * Variable-size unsigned integer *)
Lemma good_uint_var v bs : 0 <= v -> enc_uint_var v = Ok bs -> good dec_uint_var bs v.
Proof.
  intros Hv H. unfold enc_uint_var in H.
  destruct (len_det (ulen v)) as [ld|] eqn:E; simpl in H; [|discriminate]. injection H as <-.
  pose proof (ulen_pos v). pose proof (ulen_spec v Hv).
  unfold dec_uint_var. eapply good_bind; [apply (good_len (ulen v)); [lia|exact E]|].
  eapply good_bind_ret_eq; [apply good_take'; rewrite be_bytes_length, Z2Nat.id; lia|].
  apply be_value_be_bytes; rewrite Z2Nat.id by lia; lia.
Qed.

(** * Two's complement *)
Lemma to_signed_be n v :
  1 <= n -> - 2 ^ (8 * n - 1) <= v < 2 ^ (8 * n - 1) ->
  to_signed n (be_value (be_bytes (Z.to_nat n) v)) = v.
Proof.
  intros Hn Hv. unfold be_value. rewrite be_value_acc_be_bytes, Z2Nat.id by lia.
  rewrite pow256 by lia. rewrite Z.mul_0_l, Z.add_0_l.
  assert (E : 2 ^ (8 * n) = 2 * 2 ^ (8 * n - 1)).
  { replace (8 * n) with (Z.succ (8 * n - 1)) at 1 by lia. rewrite Z.pow_succ_r by lia. reflexivity. }
  assert (0 < 2 ^ (8 * n - 1)) by (apply Z.pow_pos_nonneg; lia).
  unfold to_signed. destruct (0 <=? v) eqn:E0.
  - rewrite Z.mod_small by lia.
    destruct (2 ^ (8 * n - 1) <=? v) eqn:E1; lia.
  - replace (v mod 2 ^ (8 * n)) with (v + 2 ^ (8 * n)).
    + destruct (2 ^ (8 * n - 1) <=? v + 2 ^ (8 * n)) eqn:E1; lia.
    + apply (Z.mod_unique _ _ (-1)); lia.
Qed.

Lemma slen_pos v : 1 <= slen v.
Proof.
  unfold slen. destruct (v <? 0) eqn:E.
  - assert (1 <= (bit_length (- v) + 7) / 8).
    { apply Z.div_le_lower_bound; [lia|].
      assert (1 <= bit_length (- v)); [|lia]. unfold bit_length.
      destruct (- v <=? 0) eqn:E1; [lia|]. pose proof (Z.log2_nonneg (- v)). lia. }
    destruct (_ <=? _); lia.
  - destruct (0 <? v) eqn:E1; [|lia].
    assert (1 <= (bit_length v + 7) / 8).
    { apply Z.div_le_lower_bound; [lia|].
      assert (1 <= bit_length v); [|lia]. unfold bit_length.
      destruct (v <=? 0) eqn:E2; [lia|]. pose proof (Z.log2_nonneg v). lia. }
    destruct (_ =? _); lia.
Qed.

Lemma pow2_split k : 1 <= k -> 2 ^ k = 2 * 2 ^ (k - 1).
Proof.
  intros H. replace k with (Z.succ (k - 1)) at 1 by lia. rewrite Z.pow_succ_r by lia. reflexivity.
Qed.

Lemma slen_spec v : - 2 ^ (8 * slen v - 1) <= v < 2 ^ (8 * slen v - 1).
Proof.
  unfold slen. destruct (v <? 0) eqn:E.
  - set (nb := (bit_length (- v) + 7) / 8).
    assert (Hbl : 1 <= bit_length (- v)).
    { unfold bit_length. destruct (- v <=? 0) eqn:E1; [lia|]. pose proof (Z.log2_nonneg (- v)). lia. }
    assert (Hnb : 1 <= nb) by (unfold nb; apply Z.div_le_lower_bound; lia).
    assert (Hge : bit_length (- v) <= 8 * nb).
    { unfold nb. pose proof (Z.div_mod (bit_length (- v) + 7) 8 ltac:(lia)).
      pose proof (Z.mod_pos_bound (bit_length (- v) + 7) 8 ltac:(lia)). lia. }
    assert (Hlt : - v < 2 ^ (8 * nb)).
    { apply (lt_pow2_le _ (bit_length (- v))); [apply bit_length_spec; lia|lia]. }
    assert (0 < 2 ^ (8 * nb - 1)) by (apply Z.pow_pos_nonneg; lia).
    pose proof (pow2_split (8 * nb) ltac:(lia)).
    destruct (2 ^ (8 * nb - 1) <=? 2 ^ (8 * nb) + v) eqn:E1.
    + lia.
    + replace (8 * (nb + 1) - 1) with (8 * nb + 7) by lia.
      pose proof (Z.pow_le_mono_r 2 (8 * nb) (8 * nb + 7) ltac:(lia) ltac:(lia)). lia.
  - destruct (0 <? v) eqn:E1.
    + set (nb := (bit_length v + 7) / 8).
      assert (Hbl : 1 <= bit_length v).
      { unfold bit_length. destruct (v <=? 0) eqn:E2; [lia|]. pose proof (Z.log2_nonneg v). lia. }
      assert (Hnb : 1 <= nb) by (unfold nb; apply Z.div_le_lower_bound; lia).
      assert (Hge : bit_length v <= 8 * nb).
      { unfold nb. pose proof (Z.div_mod (bit_length v + 7) 8 ltac:(lia)).
        pose proof (Z.mod_pos_bound (bit_length v + 7) 8 ltac:(lia)). lia. }
      pose proof (bit_length_spec v ltac:(lia)) as Hs.
      destruct (bit_length v =? 8 * nb) eqn:E2.
      * replace (8 * (nb + 1) - 1) with (8 * nb + 7) by lia.
        assert (v < 2 ^ (8 * nb + 7)) by (apply (lt_pow2_le _ (bit_length v)); lia).
        assert (0 < 2 ^ (8 * nb + 7)) by (apply Z.pow_pos_nonneg; lia). lia.
      * assert (v < 2 ^ (8 * nb - 1)) by (apply (lt_pow2_le _ (bit_length v)); lia).
        assert (0 < 2 ^ (8 * nb - 1)) by (apply Z.pow_pos_nonneg; lia). lia.
    + assert (v = 0) by lia. subst v. simpl. lia.
Qed.

Lemma good_sint_body n v :
  1 <= n -> - 2 ^ (8 * n - 1) <= v < 2 ^ (8 * n - 1) ->
  good (dec_sint_body n) (be_bytes (Z.to_nat n) v) v.
Proof.
  intros Hn Hv. unfold dec_sint_body.
  rewrite <- (app_nil_r (be_bytes _ _)).
  eapply good_bind; [apply good_take'; rewrite be_bytes_length, Z2Nat.id; lia|].
  destruct (n =? 0) eqn:E; [lia|]. rewrite to_signed_be by assumption. apply good_ret.
Qed.

Lemma good_sint_var v bs : enc_sint_var v = Ok bs -> good dec_sint_var bs v.
Proof.
  intros H. unfold enc_sint_var in H.
  destruct (len_det (slen v)) as [ld|] eqn:E; simpl in H; [|discriminate]. injection H as <-.
  pose proof (slen_pos v). pose proof (slen_spec v).
  unfold dec_sint_var. eapply good_bind; [apply (good_len (slen v)); [lia|exact E]|].
  apply good_sint_body; assumption.
Qed.

(** * Fixed-width integers *)
Lemma good_fixed_u n v bs : 0 <= n -> enc_fixed_u n v = Ok bs -> good (dec_fixed_u n) bs v.
Proof.
  intros Hn H. unfold enc_fixed_u in H.
  destruct ((0 <=? v) && (v <? 2 ^ (8 * n))) eqn:E; [|discriminate]. injection H as <-.
  unfold dec_fixed_u.
  eapply good_bind_ret_eq; [apply good_take'; rewrite be_bytes_length, Z2Nat.id; lia|].
  apply be_value_be_bytes; rewrite Z2Nat.id, pow256 by lia; lia.
Qed.

Lemma good_fixed_s n v bs : 1 <= n -> enc_fixed_s n v = Ok bs -> good (dec_fixed_s n) bs v.
Proof.
  intros Hn H. unfold enc_fixed_s in H.
  destruct ((- 2 ^ (8 * n - 1) <=? v) && (v <? 2 ^ (8 * n - 1))) eqn:E; [|discriminate].
  injection H as <-. unfold dec_fixed_s.
  eapply (good_bind_ret_eq _ (fun ds => to_signed n (be_value ds)));
    [apply good_take'; rewrite be_bytes_length, Z2Nat.id; lia|].
  apply to_signed_be; lia.
Qed.
