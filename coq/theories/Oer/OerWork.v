(** Decode work is NOT bounded by the input length (C08, OER part): the
    quantity field of SEQUENCE OF / SET OF is trusted, and an element type of
    width zero (NULL; also an empty SEQUENCE, a fixed-size string of size 0...)
    lets [k+1] input octets drive [256^k - 1] loop iterations and as many list
    cells.  The theorem is about the model; harness/c06.py drops inputs the
    library needs more than 0.1 s for, the witness with k = 3 (16 million
    iterations from 4 octets) is in notes/C06.md.
    (* OPEN: oer_dec_steps — for types none of whose SEQUENCE OF / SET OF
       element types can have width zero, an instrumented decoder makes at most
       a * (length bs + 1) + b primitive reads and loop iterations; needs a
       step-counting variant of Oer/OerImpl.v and has not been started. *) *)
From Asn1V Require Import Base.Prelude Syntax.Asn1.
From Asn1V Require Import Oer.OerPrim Oer.OerImpl Oer.OerPrimProofs Oer.OerPrimProofs2.
Open Scope Z_scope.

Lemma be_value_acc_ff k : forall acc,
  be_value_acc acc (repeat 255 k) = (acc + 1) * 256 ^ Z.of_nat k - 1.
Proof.
  induction k as [|k IH]; intros acc.
  - cbn [repeat be_value_acc]. change (256 ^ Z.of_nat 0) with 1. lia.
  - cbn [repeat be_value_acc]. rewrite IH. rewrite Nat2Z.inj_succ, Z.pow_succ_r by lia. ring.
Qed.

Lemma rev_append_repeat {A} (x : A) n : forall acc, rev_append (repeat x n) acc = repeat x n ++ acc.
Proof.
  induction n as [|n IH]; intros acc; [reflexivity|].
  cbn [repeat rev_append]. rewrite IH.
  change (x :: acc) with ([x] ++ acc). rewrite app_assoc.
  replace (repeat x n ++ [x]) with (x :: repeat x n); [reflexivity|].
  clear. induction n as [|n IHn]; [reflexivity|]. cbn [repeat app]. rewrite <- IHn. reflexivity.
Qed.

Lemma iter_null (rec : ty -> dec value) n :
  (forall bs, rec TNull bs = Ok (VNone, bs)) ->
  forall acc bs, iter_n n (dec_elem rec TNull) (acc, bs) = Ok (repeat VNone n ++ acc, bs).
Proof.
  intros Hrec. induction n as [|n IH]; intros acc bs; [reflexivity|].
  cbn [iter_n]. unfold dec_elem at 1. cbn [fst snd]. rewrite Hrec. cbn [bind].
  rewrite IH. f_equal. f_equal.
  change (VNone :: acc) with ([VNone] ++ acc). rewrite app_assoc. f_equal.
  clear. induction n as [|n IHn]; [reflexivity|]. cbn [repeat app]. rewrite IHn. reflexivity.
Qed.

Theorem oer_zero_width_elements_unbounded :
  forall (k : nat) numeric fuel e isset sz,
    (1 <= k <= 127)%nat ->
    oer_decode numeric (S (S fuel)) e (TSeqOf isset TNull sz) (Z.of_nat k :: repeat 255 k)
    = Ok (VList (repeat VNone (Z.to_nat (256 ^ Z.of_nat k - 1))), S k).
Proof.
  intros k numeric fuel e isset sz Hk.
  unfold oer_decode. cbn [oer_dec dec_step]. unfold dec_list, dec_uint_var, dec_len.
  unfold dbind at 1. unfold dbind at 1. unfold dbind at 1. cbn [dec_byte].
  destruct (Z.of_nat k <? 128) eqn:E; [|lia]. unfold dret at 1.
  unfold dbind at 1. unfold dec_take.
  destruct (Z.of_nat k <? 0) eqn:E0; [lia|].
  rewrite repeat_length.
  destruct (Z.of_nat k <? Z.of_nat k) eqn:E1; [lia|].
  rewrite Nat2Z.id. rewrite firstn_all2 by (rewrite repeat_length; lia).
  rewrite skipn_all2 by (rewrite repeat_length; lia).
  unfold dret. unfold be_value. rewrite be_value_acc_ff.
  replace ((0 + 1) * 256 ^ Z.of_nat k - 1) with (256 ^ Z.of_nat k - 1) by lia.
  assert (0 <= 256 ^ Z.of_nat k - 1).
  { assert (0 < 256 ^ Z.of_nat k) by (apply Z.pow_pos_nonneg; lia). lia. }
  rewrite <- (Z2Nat.id (256 ^ Z.of_nat k - 1)) at 1 by lia.
  rewrite rep_n_iter, iter_null by reflexivity. rewrite app_nil_r.
  rewrite rev_append_repeat, app_nil_r.
  cbn [length]. rewrite repeat_length. reflexivity.
Qed.
