(** C08, work bound for the OER decoder model: a cost-instrumented copy of the
    decoder of [Oer/OerImpl.v] (and of the primitives of [Oer/OerPrim.v] it
    uses).

    [cdec A := list Z -> result (A * list Z) * N] is the decoder monad of
    OerPrim.v paired with a step counter; an error keeps the steps spent
    before it.  Every decoder used by [oer_dec] has a copy here with the same
    control structure ([cbind] for [dbind], [cret] for [dret], ...).  The
    counter is advanced by

      - one step for every primitive read of the Python decoder object
        ([read_byte], [read_bits]/[read_bytes], [read_non_negative_binary_integer],
        [skip_bits]; [read_length_determinant] = its one or two reads): [prim];
        one step per octet for the [while] loop of [read_tag];
      - one step per [read_bit] of the SEQUENCE/SET preamble (the count is a
        constant of the type), one for the conversion [.decode(ENCODING)] of a
        character string, one per content octet for the subidentifier loops of
        [decode_object_identifier] (plus one for the call);
      - one step for every loop iteration: per root member in [decode_root],
        per presence bit in [decode_additions], per element in
        [ArrayType.decode];
      - one step for every call of a type's [decode] method ([oer_dec_cost],
        one per fuel level, also for the model-only levels [TRef]/[TTag] and
        for the call that finds the fuel exhausted).

    [Oer/OerCostProofs.v] proves that erasing the counter gives back [oer_dec]
    ([oer_dec_cost_erases]) and the linear bound ([oer_dec_cost_bound]). *)
From Asn1V Require Import Base.Prelude Syntax.Asn1 Oer.OerPrim Oer.OerImpl.
Open Scope Z_scope.

Definition cdec (A : Type) : Type := list Z -> result (A * list Z) * N.

Definition cret {A} (a : A) : cdec A := fun bs => (Ok (a, bs), 0%N).
Definition cfail {A} (e : err) : cdec A := fun _ => (Err e, 0%N).
Definition cbind {A B} (m : cdec A) (f : A -> cdec B) : cdec B :=
  fun bs => match m bs with
            | (Ok (a, r), c1) => let (res, c2) := f a r in (res, (c1 + c2)%N)
            | (Err e, c1) => (Err e, c1)
            end.
(** [n] more steps *)
Definition tick {A} (n : N) (m : cdec A) : cdec A :=
  fun bs => let (res, c) := m bs in (res, (n + c)%N).
(** a primitive read of the decoder object: one step *)
Definition prim {A} (d : dec A) : cdec A := fun bs => (d bs, 1%N).

Notation "'clet' x ':=' m 'in' k" := (cbind m (fun x => k))
  (at level 200, x pattern, m at level 100, k at level 200).

(** * Primitives *)
Definition c_byte : cdec Z := prim dec_byte.
Definition c_take (n : Z) : cdec (list Z) := prim (dec_take n).

Definition c_len : cdec Z :=
  clet b := c_byte in
  if b <? 128 then cret b
  else clet ds := c_take (b - 128) in cret (be_value ds).

Definition c_uint_var : cdec Z :=
  clet n := c_len in clet ds := c_take n in cret (be_value ds).

Definition c_sint_body (n : Z) : cdec Z :=
  clet ds := c_take n in
  if n =? 0 then cfail (EForeign "ValueError"%string)
  else cret (to_signed n (be_value ds)).
Definition c_sint_var : cdec Z := clet n := c_len in c_sint_body n.

Definition c_fixed_u (n : Z) : cdec Z := clet ds := c_take n in cret (be_value ds).
Definition c_fixed_s (n : Z) : cdec Z :=
  clet ds := c_take n in cret (to_signed n (be_value ds)).

Definition c_bits (n : Z) : cdec (list bool) :=
  if n <? 0 then cfail (EForeign "ValueError"%string)
  else clet ds := c_take ((n + 7) / 8) in cret (firstn (Z.to_nat n) (unpack_bits ds)).

(** Decoder.read_tag: one [read_byte] per octet *)
Fixpoint c_tag_rest (bs : list Z) : result (list Z * list Z) * N :=
  match bs with
  | [] => (Err EOutOfData, 1%N)
  | b :: r =>
    if b <? 128 then (Ok ([b], r), 1%N)
    else match c_tag_rest r with
         | (Ok (t, r'), c) => (Ok (b :: t, r'), (1 + c)%N)
         | (Err e, c) => (Err e, (1 + c)%N)
         end
  end.
Definition c_tag : cdec (list Z) :=
  clet b := c_byte in
  if b mod 64 =? 63 then clet r := c_tag_rest in cret (b :: r) else cret [b].

(** * The decoders of OerImpl.v *)
Section CDec.
  Context (numeric : bool) (e : env) (rec : ty -> cdec value).

  Definition c_int (c : intc) : cdec Z :=
    match int_form_of c with
    | IFixU n => c_fixed_u n
    | IFixS n => c_fixed_s n
    | IVarU => c_uint_var
    | IVarS => c_sint_var
    end.

  Definition c_enum (root : list (string * Z)) (ext : option (list (string * Z))) : cdec value :=
    clet b := c_byte in
    clet z := (if 128 <=? b then c_sint_body (b - 128) else cret b) in
    match find_name z (enum_items root ext) with
    | Some n => cret (if numeric then VInt z else VEnum n)
    | None => match ext with Some _ => cret VNone | None => cfail EDecode end
    end.

  Definition c_bitstring (sz : size) : cdec value :=
    match fixed_size sz with
    | None =>
      clet l := c_len in
      clet unused := c_byte in
      clet ds := c_take (l - 1) in
      cret (VBits ds (8 * (l - 1) - unused))
    | Some n => clet ds := c_take ((n + 7) / 8) in cret (VBits ds n)
    end.

  Definition c_sized (sz : size) : cdec (list Z) :=
    match fixed_size sz with
    | None => clet l := c_len in c_take l
    | Some n => c_take n
    end.

  (** a conversion of the octets already read: one step *)
  Definition c_lift {A} (r : result A) : cdec A := prim (lift r).

  Fixpoint c_dec_root (ms : list (member_of ty)) (bits : list bool) : cdec (list (string * value)) :=
    match ms with
    | [] => cret []
    | m :: ms' =>
      tick 1
      match m_opt m with
      | Mandatory =>
        clet v := rec (m_ty m) in
        clet fs := c_dec_root ms' bits in cret ((m_name m, v) :: fs)
      | Optional =>
        match bits with
        | true :: bits' =>
          clet v := rec (m_ty m) in
          clet fs := c_dec_root ms' bits' in cret ((m_name m, v) :: fs)
        | false :: bits' => c_dec_root ms' bits'
        | [] => cfail EUnmodelled
        end
      | Default d =>
        match bits with
        | true :: bits' =>
          clet v := rec (m_ty m) in
          clet fs := c_dec_root ms' bits' in cret ((m_name m, v) :: fs)
        | false :: bits' => clet fs := c_dec_root ms' bits' in cret ((m_name m, d) :: fs)
        | [] => cfail EUnmodelled
        end
      end
    end.

  Fixpoint c_dec_adds_loop (ms : list (member_of ty)) (pres : list bool) : cdec (list (string * value)) :=
    match pres with
    | [] => cret []
    | p :: pres' =>
      tick 1
      match ms with
      | m :: ms' =>
        if p then
          clet _ := c_len in
          clet v := rec (m_ty m) in
          clet fs := c_dec_adds_loop ms' pres' in cret ((m_name m, v) :: fs)
        else c_dec_adds_loop ms' pres'
      | [] =>
        if p then
          clet l := c_len in
          clet _ := c_take l in c_dec_adds_loop [] pres'
        else c_dec_adds_loop [] pres'
      end
    end.

  Definition c_dec_adds (ms : list (member_of ty)) : cdec (list (string * value)) :=
    clet l := c_len in
    clet unused := c_byte in
    let n := (l - 1) * 8 - unused in
    clet pres := c_bits n in
    c_dec_adds_loop ms pres.

  Definition c_dec_seq (root : list (member_of ty)) (ext : option (list (addition_of ty)))
    : cdec value :=
    let nopt := Z.of_nat (length (filter is_optional_member root)) in
    match ext with
    | None =>
      clet bits := tick (Z.to_N nopt) (c_bits nopt) in
      clet fs := c_dec_root root bits in cret (VSeq fs)
    | Some adds =>
      clet bits := tick (Z.to_N (1 + nopt)) (c_bits (1 + nopt)) in
      match bits with
      | x :: bits' =>
        clet fs := c_dec_root root bits' in
        if x then clet afs := c_dec_adds (flat_adds adds) in cret (VSeq (fs ++ afs))
        else cret (VSeq fs)
      | [] => cfail EUnmodelled
      end
    end.

  (** one iteration of ArrayType.decode: one step plus the element *)
  Definition c_dec_elem (t : ty) (s : list value * list Z) : result (list value * list Z) * N :=
    match rec t (snd s) with
    | (Ok (v, r), c) => (Ok (v :: fst s, r), (1 + c)%N)
    | (Err x, c) => (Err x, (1 + c)%N)
    end.
End CDec.

(** [rep_pos]/[rep_n] of OerPrim.v with the costs of the iterations that run added up *)
Fixpoint crep_pos {S} (p : positive) (f : S -> result S * N) (s : S) : result S * N :=
  match p with
  | xH => f s
  | xO q =>
    match crep_pos q f s with
    | (Ok s1, c1) => let (r, c2) := crep_pos q f s1 in (r, (c1 + c2)%N)
    | (Err x, c1) => (Err x, c1)
    end
  | xI q =>
    match f s with
    | (Ok s0, c0) =>
      match crep_pos q f s0 with
      | (Ok s1, c1) => let (r, c2) := crep_pos q f s1 in (r, (c0 + c1 + c2)%N)
      | (Err x, c1) => (Err x, (c0 + c1)%N)
      end
    | (Err x, c0) => (Err x, c0)
    end
  end.
Definition crep_n {S} (n : Z) (f : S -> result S * N) (s : S) : result S * N :=
  match n with Zpos p => crep_pos p f s | _ => (Ok s, 0%N) end.

Section CDec2.
  Context (numeric : bool) (e : env) (rec : ty -> cdec value).

  Definition c_dec_list (t : ty) : cdec value :=
    clet n := c_uint_var in
    fun bs => match crep_n n (c_dec_elem rec t) ([], bs) with
              | (Ok (acc, r), c) => (Ok (VList (rev_append acc []), r), c)
              | (Err x, c) => (Err x, c)
              end.

  Definition c_dec_choice (root : list (member_of ty)) (ext : option (list (member_of ty)))
    : cdec value :=
    let auto := choice_auto root ext in
    let ralts := alt_tags auto 0 root in
    let ealts := alt_tags auto (Z.of_nat (length root)) (match ext with Some x => x | None => [] end) in
    if existsb (fun a => match fst a with None => true | Some _ => false end) (ralts ++ ealts)
    then cfail EUnmodelled
    else
    clet tg := c_tag in
    match find_tag tg ralts with
    | Some m => clet v := rec (m_ty m) in cret (VChoice (m_name m) v)
    | None =>
      match find_tag tg ealts with
      | Some m => clet _ := c_len in clet v := rec (m_ty m) in cret (VChoice (m_name m) v)
      | None =>
        match ext with
        | Some _ => clet l := c_len in clet _ := c_take l in cret VUnknownChoice
        | None => cfail EDecode
        end
      end
    end.

  Definition c_dec_step (t : ty) : cdec value :=
    match t with
    | TBool => clet b := c_byte in cret (VBool (negb (b =? 0)))
    | TNull => cret VNone
    | TInt c => clet z := c_int c in cret (VInt z)
    | TEnum root ext => c_enum numeric root ext
    | TBits _ sz => c_bitstring sz
    | TOctets sz => clet ds := c_sized sz in cret (VBytes ds)
    | TStr k sz _ =>
      match str_codec k with
      | Some (_, g) => clet ds := c_sized sz in clet cs := c_lift (g ds) in cret (VStr cs)
      | None => cfail EUnmodelled
      end
    | TOid =>
      clet l := c_len in clet ds := c_take l in
      clet arcs := tick (N.of_nat (length ds)) (c_lift (dec_oid ds)) in cret (VOid arcs)
    | TSeq false root ext => c_dec_seq rec root ext
    | TSeq true root ext =>
      if existsb (fun m => is_tagged (m_ty m)) root then cfail EUnmodelled else c_dec_seq rec root ext
    | TSeqOf _ t' _ => c_dec_list t'
    | TChoice root ext => c_dec_choice root ext
    | TRef n => match lookup n e with Some t' => rec t' | None => cfail EUnmodelled end
    | TTag _ t' => rec t'
    end.
End CDec2.

Fixpoint oer_dec_cost (numeric : bool) (fuel : nat) (e : env) (t : ty) : cdec value :=
  match fuel with
  | O => fun _ => (Err EFuel, 1%N)
  | S f => tick 1 (c_dec_step numeric e (oer_dec_cost numeric f e) t)
  end.

(** value, number of octets consumed, and the steps *)
Definition oer_decode_cost (numeric : bool) (fuel : nat) (e : env) (t : ty) (bs : list Z)
  : result (value * nat) * N :=
  match oer_dec_cost numeric fuel e t bs with
  | (Ok (v, r), c) => (Ok (v, (length bs - length r)%nat), c)
  | (Err x, c) => (Err x, c)
  end.
