(** Comparison helpers for the generated OER correspondence case files. *)
From Asn1V Require Import Base.Prelude Base.Corr Syntax.Asn1 Oer.OerPrim Oer.OerImpl Oer.OerScope Oer.X696 Oer.X696Scope.
Open Scope Z_scope.

Definition err_eqb (a b : err) : bool :=
  match a, b with
  | EDecode, EDecode | EOutOfData, EOutOfData | EEncode, EEncode
  | EConstraints, EConstraints | EFuel, EFuel | EUnmodelled, EUnmodelled => true
  | EMissing x y, EMissing x' y' => (x =? x') && (y =? y')
  | EForeign x, EForeign y => String.eqb x y
  | _, _ => false
  end.

Definition res_bytes_eqb (a b : result (list Z)) : bool :=
  match a, b with
  | Ok x, Ok y => zlist_eqb x y
  | Err x, Err y => err_eqb x y
  | _, _ => false
  end.

(** expected consumed count -1: not observable, not compared *)
Definition res_dec_eqb (a : result (value * nat)) (b : result (value * Z)) : bool :=
  match a, b with
  | Ok (v, n), Ok (w, m) => value_eqb v w && ((m =? -1) || (Z.of_nat n =? m))
  | Err x, Err y => err_eqb x y
  | _, _ => false
  end.

Definition opt_bytes_eqb (a : option (list Z)) (b : result (list Z)) : bool :=
  match a, b with
  | Some x, Ok y => zlist_eqb x y
  | None, Err _ => true
  | _, _ => false
  end.

Fixpoint mismatches2_from {A B C} (eqb : B -> C -> bool) (f : A -> B)
         (cases : list (A * C)) (i : Z) : list Z :=
  match cases with
  | [] => []
  | (a, c) :: r =>
    if eqb (f a) c then mismatches2_from eqb f r (i + 1)
    else i :: mismatches2_from eqb f r (i + 1)
  end.
Definition mismatches2 {A B C} (eqb : B -> C -> bool) (f : A -> B) cases := mismatches2_from eqb f cases 0.

Definition enc_case : Type := (bool * env * ty * value)%type.
Definition run_enc (fuel : nat) (c : enc_case) : result (list Z) :=
  let '(numeric, e, t, v) := c in oer_encode numeric fuel e t v.
Definition run_spec (fuel : nat) (c : enc_case) : option (list Z) :=
  let '(numeric, e, t, v) := c in x696_encode numeric fuel e t v.

Definition dec_case : Type := (bool * env * ty * list Z)%type.
Definition run_dec (fuel : nat) (c : dec_case) : result (value * nat) :=
  let '(numeric, e, t, bs) := c in oer_decode numeric fuel e t bs.

(** the regions of the theorems, evaluated on the generated cases: the Python
    predicates of harness/codec_oer.py must not be wider than the Coq ones *)
Definition run_ok (fuel : nat) (c : enc_case) : bool :=
  let '(numeric, e, t, v) := c in oer_ok numeric fuel e t v.
Definition run_scope (fuel : nat) (c : enc_case) : bool :=
  let '(numeric, e, t, v) := c in in_scope numeric fuel e t v.
