(** Implementation model of asn1tools/codecs/oer.py over the shared universe
    of Syntax/Asn1.v: what [compile_string(text, 'oer', numeric_enums=b)]
    followed by [.encode(name, v)] / [.decode(name, bytes)] DOES, including
    its quirks.  Model only; proofs are in Oer/*Proofs.v.

    The compile step (oer.Compiler.compile_type, lines 1293-1437) is folded
    into the functions that read the constraints off the [ty]:
    [int_form_of] (Integer.set_restricted_to_range, 585-618), [fixed_size]
    (KnownMultiplierStringType/BitString/OctetString constructors), the
    flattening of addition groups (compile_extension_member, 1467-1479) and
    the CHOICE tags (compiler.pre_process_tags_type_members + Type.set_tag).

    The model follows the tree with the three repairs proposed in
    proposed_fixes/C06-*.diff applied:
      - an extensible INTEGER constraint selects the variable signed form,
      - the presence bitmap's unused-bits octet is (-n) mod 8,
      - a mandatory extension addition that is not in the value is absent and
        the following additions are still encoded at their own bit positions;
        an EncodeError raised inside a present addition propagates (the
        part shared with proposed_fixes/C12-addition-errors.diff).

    Outcomes: [Err EEncode/EDecode/EOutOfData] library errors,
    [Err (EForeign k)] foreign Python exceptions, [Err EFuel] fuel exhausted,
    [Err EUnmodelled] ill-typed values and constructs outside the model. *)
From Asn1V Require Import Base.Prelude Syntax.Asn1 Oer.OerPrim.
Open Scope Z_scope.

(** * Compile-time decisions *)
Inductive int_form : Type := IFixU (n : Z) | IFixS (n : Z) | IVarU | IVarS.

Definition int_form_of (c : intc) : int_form :=
  match c with
  | IcNone => IVarS
  | IcRange _ _ true => IVarS
  | IcRange None _ false => IVarS
  | IcRange (Some lo) None false => if lo <? 0 then IVarS else IVarU
  | IcRange (Some lo) (Some hi) false =>
    if 0 <=? lo then
      if hi <? 256 then IFixU 1
      else if hi <? 65536 then IFixU 2
      else if hi <? 4294967296 then IFixU 4
      else if hi <? 18446744073709551616 then IFixU 8
      else IVarU
    else if (-128 <=? lo) && (hi <? 128) then IFixS 1
    else if (-32768 <=? lo) && (hi <? 32768) then IFixS 2
    else if (-2147483648 <=? lo) && (hi <? 2147483648) then IFixS 4
    else if (-9223372036854775808 <=? lo) && (hi <? 9223372036854775808) then IFixS 8
    else IVarS
  end.

Definition fixed_size (sz : size) : option Z :=
  match sz with
  | SzRange lo (Some hi) false => if lo =? hi then Some lo else None
  | _ => None
  end.

Definition str_codec (k : strkind) : option ((Z -> result (list Z)) * (list Z -> result (list Z))) :=
  match k with
  | SkUTF8 => Some (utf8_enc1, utf8_dec)
  | SkIA5 | SkVisible | SkNumeric | SkPrintable => Some (ascii_enc1, ascii_dec)
  | _ => None
  end.

(** Type.set_tag: APPLICATION and PRIVATE keep their class, everything else
    (context and UNIVERSAL) becomes context-specific. *)
Definition class_flags (c : tclass) : Z :=
  match c with Appl => 64 | Priv => 192 | Ctx => 128 | Univ => 128 end.

Definition is_tagged (t : ty) : bool := match t with TTag _ _ => true | _ => false end.

(** Tag octets of the [i]-th alternative: AUTOMATIC numbering when no
    alternative carries a tag, else the alternative's own outermost tag. *)
Definition alt_tag (auto : bool) (i : Z) (t : ty) : option (list Z) :=
  if auto then Some (encode_tag i 128)
  else match t with
       | TTag tg _ => Some (encode_tag (t_num tg) (class_flags (t_class tg)))
       | _ => None
       end.

Fixpoint alt_tags (auto : bool) (i : Z) (ms : list (member_of ty))
  : list (option (list Z) * member_of ty) :=
  match ms with
  | [] => []
  | m :: r => (alt_tag auto i (m_ty m), m) :: alt_tags auto (i + 1) r
  end.

Definition choice_auto (root : list (member_of ty)) (ext : option (list (member_of ty))) : bool :=
  negb (existsb (fun m => is_tagged (m_ty m)) (root ++ match ext with Some x => x | None => [] end)).

Definition flat_adds (adds : list (addition_of ty)) : list (member_of ty) :=
  flat_map (fun a => snd a) adds.

Definition is_optional_member {T} (m : member_of T) : bool :=
  match m_opt m with Mandatory => false | _ => true end.

Definition enum_items (root : list (string * Z)) (ext : option (list (string * Z))) :=
  root ++ match ext with Some x => x | None => [] end.

Fixpoint find_num (n : string) (l : list (string * Z)) : option Z :=
  match l with [] => None | (k, z) :: r => if String.eqb n k then Some z else find_num n r end.
Fixpoint find_name (z : Z) (l : list (string * Z)) : option string :=
  match l with [] => None | (k, y) :: r => if z =? y then Some k else find_name z r end.

(** * Encoder *)
Section Enc.
  Context (numeric : bool) (e : env) (rec : ty -> value -> result (list Z)).

  Definition enc_int (c : intc) (z : Z) : result (list Z) :=
    match int_form_of c with
    | IFixU n => enc_fixed_u n z
    | IFixS n => enc_fixed_s n z
    | IVarU => if z <? 0 then Err EUnmodelled else enc_uint_var z
    | IVarS => enc_sint_var z
    end.

  (** Enumerated.encode: short form 0..127, else append_integer + set_bit on
      the first octet of the length determinant. *)
  Definition enc_enum_value (z : Z) : result (list Z) :=
    if (0 <=? z) && (z <=? 127) then Ok [z]
    else
      let k := slen z in
      if 128 <=? k then Err EUnmodelled      (* long-form length determinant: set_bit is a no-op, garbage *)
      else Ok ((128 + k) :: be_bytes (Z.to_nat k) z).

  Definition enc_enum (root : list (string * Z)) (ext : option (list (string * Z))) (v : value)
    : result (list Z) :=
    let items := enum_items root ext in
    match v, numeric with
    | VInt z, true =>
      match find_name z items with Some _ => enc_enum_value z | None => Err EEncode end
    | VEnum n, false =>
      match find_num n items with Some z => enc_enum_value z | None => Err EEncode end
    | _, _ => Err EUnmodelled
    end.

  (** BitString.encode *)
  Definition bit_mask (rest : Z) : Z := 256 - 2 ^ (8 - rest).

  Definition bits_payload (data : list Z) (n : Z) : result (list Z * Z * Z) :=
    if n <? 0 then Err EUnmodelled
    else
      let nbytes := n / 8 in
      let rest := n mod 8 in
      if rest =? 0 then Ok (firstn (Z.to_nat nbytes) data, 0, nbytes)
      else match nth_error data (Z.to_nat nbytes) with
           | None => Err EIndex
           | Some last =>
             Ok (firstn (Z.to_nat nbytes) data ++ [Z.land last (bit_mask rest)], 8 - rest, nbytes + 1)
           end.

  Definition enc_bits (sz : size) (data : list Z) (n : Z) : result (list Z) :=
    let* (payload, unused, cnt) := bits_payload data n in
    match fixed_size sz with
    | None => let* ld := len_det (cnt + 1) in Ok (ld ++ unused :: payload)
    | Some _ => Ok payload
    end.

  Definition enc_sized (sz : size) (payload : list Z) : result (list Z) :=
    match fixed_size sz with
    | None => let* ld := len_det (Z.of_nat (length payload)) in Ok (ld ++ payload)
    | Some _ => Ok payload
    end.

  Definition wrap_open (b : list Z) : result (list Z) :=
    let* ld := len_det (Z.of_nat (length b)) in Ok (ld ++ b).

  Fixpoint concat_open (es : list (list Z)) : result (list Z) :=
    match es with
    | [] => Ok []
    | b :: r => let* w := wrap_open b in let* ws := concat_open r in Ok (w ++ ws)
    end.

  (** MembersType.encode_root: the preamble bits of the OPTIONAL/DEFAULT
      root members and the concatenated encodings of the present ones. *)
  Fixpoint enc_root (ms : list (member_of ty)) (fs : list (string * value))
    : result (list bool * list Z) :=
    match ms with
    | [] => Ok ([], [])
    | m :: ms' =>
      match lookup (m_name m) fs, m_opt m with
      | Some v, Mandatory =>
        let* b := rec (m_ty m) v in
        let* (bits, body) := enc_root ms' fs in Ok (bits, b ++ body)
      | Some v, Optional =>
        let* b := rec (m_ty m) v in
        let* (bits, body) := enc_root ms' fs in Ok (true :: bits, b ++ body)
      | Some v, Default d =>
        if value_eqb v d then
          let* (bits, body) := enc_root ms' fs in Ok (false :: bits, body)
        else
          let* b := rec (m_ty m) v in
          let* (bits, body) := enc_root ms' fs in Ok (true :: bits, b ++ body)
      | None, Mandatory => Err EEncode
      | None, _ => let* (bits, body) := enc_root ms' fs in Ok (false :: bits, body)
      end
    end.

  (** MembersType.encode_additions, the loop (repaired: try/except per
      addition; only the location-free "member not found" error is ignored).
      One presence bit per addition, the encodings of the present ones. *)
  Fixpoint enc_adds (ms : list (member_of ty)) (fs : list (string * value))
    : result (list bool * list (list Z)) :=
    match ms with
    | [] => Ok ([], [])
    | m :: ms' =>
      match lookup (m_name m) fs with
      | Some v =>
        let* b := rec (m_ty m) v in
        let* (p, es) := enc_adds ms' fs in Ok (true :: p, b :: es)
      | None => let* (p, es) := enc_adds ms' fs in Ok (false :: p, es)
      end
    end.

  Definition enc_seq (root : list (member_of ty)) (ext : option (list (addition_of ty)))
             (fs : list (string * value)) : result (list Z) :=
    let* (bits, body) := enc_root root fs in
    match ext with
    | None => Ok (pack_bits bits ++ body)
    | Some adds =>
      let flat := flat_adds adds in
      match flat with
      | [] => Ok (pack_bits (false :: bits) ++ body)
      | _ =>
        let* (pres, es) := enc_adds flat fs in
        match es with
        | [] => Ok (pack_bits (false :: bits) ++ body)
        | _ =>
          let n := Z.of_nat (length flat) in
          let* ld := len_det ((n + 7) / 8 + 1) in
          let* tail := concat_open es in
          Ok (pack_bits (true :: bits) ++ body ++ ld ++ ((- n) mod 8) :: pack_bits pres ++ tail)
        end
      end
    end.

  Fixpoint enc_list (t : ty) (vs : list value) : result (list Z) :=
    match vs with
    | [] => Ok []
    | v :: r => let* b := rec t v in let* bs := enc_list t r in Ok (b ++ bs)
    end.

  Fixpoint find_alt (n : string) (alts : list (option (list Z) * member_of ty))
    : option (option (list Z) * member_of ty) :=
    match alts with
    | [] => None
    | a :: r => if String.eqb n (m_name (snd a)) then Some a else find_alt n r
    end.

  Definition enc_choice (root : list (member_of ty)) (ext : option (list (member_of ty)))
             (n : string) (v : value) : result (list Z) :=
    let auto := choice_auto root ext in
    let ralts := alt_tags auto 0 root in
    let ealts := alt_tags auto (Z.of_nat (length root)) (match ext with Some x => x | None => [] end) in
    match find_alt n ralts with
    | Some (Some tg, m) => let* b := rec (m_ty m) v in Ok (tg ++ b)
    | Some (None, _) => Err EUnmodelled
    | None =>
      match find_alt n ealts with
      | Some (Some tg, m) => let* b := rec (m_ty m) v in let* w := wrap_open b in Ok (tg ++ w)
      | Some (None, _) => Err EUnmodelled
      | None => Err EEncode
      end
    end.

  Definition enc_step (t : ty) (v : value) : result (list Z) :=
    match t, v with
    | TBool, VBool b => Ok [if b then 255 else 0]
    | TNull, VNone => Ok []
    | TInt c, VInt z => enc_int c z
    | TEnum root ext, _ => enc_enum root ext v
    | TBits _ sz, VBits data n => enc_bits sz data n
    | TOctets sz, VBytes bs => enc_sized sz bs
    | TStr k sz _, VStr cs =>
      match str_codec k with
      | Some (f, _) => let* payload := enc_chars f cs in enc_sized sz payload
      | None => Err EUnmodelled
      end
    | TOid, VOid arcs => let* c := enc_oid arcs in wrap_open c
    | TSeq false root ext, VSeq fs => enc_seq root ext fs
    | TSeq true root ext, VSeq fs =>
      if existsb (fun m => is_tagged (m_ty m)) root then Err EUnmodelled else enc_seq root ext fs
    | TSeqOf _ t' _, VList vs =>
      let* q := enc_uint_var (Z.of_nat (length vs)) in
      let* bs := enc_list t' vs in Ok (q ++ bs)
    | TChoice root ext, VChoice n v' => enc_choice root ext n v'
    | TRef n, _ => match lookup n e with Some t' => rec t' v | None => Err EUnmodelled end
    | TTag _ t', _ => rec t' v
    | _, _ => Err EUnmodelled
    end.
End Enc.

Fixpoint oer_encode (numeric : bool) (fuel : nat) (e : env) (t : ty) (v : value)
  : result (list Z) :=
  match fuel with
  | O => Err EFuel
  | S f => enc_step numeric e (oer_encode numeric f e) t v
  end.

(** * Decoder *)
Section Dec.
  Context (numeric : bool) (e : env) (rec : ty -> dec value).

  Definition dec_int (c : intc) : dec Z :=
    match int_form_of c with
    | IFixU n => dec_fixed_u n
    | IFixS n => dec_fixed_s n
    | IVarU => dec_uint_var
    | IVarS => dec_sint_var
    end.

  (** Enumerated.decode: peek_bit / clear_bit / read_integer or read_byte *)
  Definition dec_enum (root : list (string * Z)) (ext : option (list (string * Z))) : dec value :=
    dlet b := dec_byte in
    dlet z := (if 128 <=? b then dec_sint_body (b - 128) else dret b) in
    match find_name z (enum_items root ext) with
    | Some n => dret (if numeric then VInt z else VEnum n)
    | None => match ext with Some _ => dret VNone | None => dfail EDecode end
    end.

  Definition dec_bitstring (sz : size) : dec value :=
    match fixed_size sz with
    | None =>
      dlet l := dec_len in
      dlet unused := dec_byte in
      dlet ds := dec_take (l - 1) in
      dret (VBits ds (8 * (l - 1) - unused))
    | Some n => dlet ds := dec_take ((n + 7) / 8) in dret (VBits ds n)
    end.

  Definition dec_sized (sz : size) : dec (list Z) :=
    match fixed_size sz with
    | None => dlet l := dec_len in dec_take l
    | Some n => dec_take n
    end.

  Definition lift {A} (r : result A) : dec A := fun bs =>
    match r with Ok a => Ok (a, bs) | Err x => Err x end.

  (** MembersType.decode_root after the presence bits have been read *)
  Fixpoint dec_root (ms : list (member_of ty)) (bits : list bool) : dec (list (string * value)) :=
    match ms with
    | [] => dret []
    | m :: ms' =>
      match m_opt m with
      | Mandatory =>
        dlet v := rec (m_ty m) in
        dlet fs := dec_root ms' bits in dret ((m_name m, v) :: fs)
      | Optional =>
        match bits with
        | true :: bits' =>
          dlet v := rec (m_ty m) in
          dlet fs := dec_root ms' bits' in dret ((m_name m, v) :: fs)
        | false :: bits' => dec_root ms' bits'
        | [] => dfail EUnmodelled
        end
      | Default d =>
        match bits with
        | true :: bits' =>
          dlet v := rec (m_ty m) in
          dlet fs := dec_root ms' bits' in dret ((m_name m, v) :: fs)
        | false :: bits' => dlet fs := dec_root ms' bits' in dret ((m_name m, d) :: fs)
        | [] => dfail EUnmodelled
        end
      end
    end.

  (** the loop of MembersType.decode_additions *)
  Fixpoint dec_adds_loop (ms : list (member_of ty)) (pres : list bool) : dec (list (string * value)) :=
    match pres with
    | [] => dret []
    | p :: pres' =>
      match ms with
      | m :: ms' =>
        if p then
          dlet _ := dec_len in
          dlet v := rec (m_ty m) in
          dlet fs := dec_adds_loop ms' pres' in dret ((m_name m, v) :: fs)
        else dec_adds_loop ms' pres'
      | [] =>
        if p then
          dlet l := dec_len in
          dlet _ := dec_take l in dec_adds_loop [] pres'
        else dec_adds_loop [] pres'
      end
    end.

  Definition dec_adds (ms : list (member_of ty)) : dec (list (string * value)) :=
    dlet l := dec_len in
    dlet unused := dec_byte in
    let n := (l - 1) * 8 - unused in
    dlet pres := dec_bits n in
    dec_adds_loop ms pres.

  Definition dec_seq (root : list (member_of ty)) (ext : option (list (addition_of ty)))
    : dec value :=
    let nopt := Z.of_nat (length (filter is_optional_member root)) in
    match ext with
    | None =>
      dlet bits := dec_bits nopt in
      dlet fs := dec_root root bits in dret (VSeq fs)
    | Some adds =>
      dlet bits := dec_bits (1 + nopt) in
      match bits with
      | x :: bits' =>
        dlet fs := dec_root root bits' in
        if x then dlet afs := dec_adds (flat_adds adds) in dret (VSeq (fs ++ afs))
        else dret (VSeq fs)
      | [] => dfail EUnmodelled
      end
    end.

  (** ArrayType.decode: one element appended per iteration *)
  Definition dec_elem (t : ty) (s : list value * list Z) : result (list value * list Z) :=
    match rec t (snd s) with
    | Ok (v, r) => Ok (v :: fst s, r)
    | Err x => Err x
    end.

  Definition dec_list (t : ty) : dec value :=
    dlet n := dec_uint_var in
    fun bs => match rep_n n (dec_elem t) ([], bs) with
              | Ok (acc, r) => Ok (VList (rev_append acc []), r)   (* = rev acc, in linear time *)
              | Err x => Err x
              end.

  Fixpoint find_tag (tg : list Z) (alts : list (option (list Z) * member_of ty))
    : option (member_of ty) :=
    match alts with
    | [] => None
    | (Some tg', m) :: r => if zlist_eqb tg tg' then Some m else find_tag tg r
    | (None, _) :: r => find_tag tg r
    end.

  Definition dec_choice (root : list (member_of ty)) (ext : option (list (member_of ty)))
    : dec value :=
    let auto := choice_auto root ext in
    let ralts := alt_tags auto 0 root in
    let ealts := alt_tags auto (Z.of_nat (length root)) (match ext with Some x => x | None => [] end) in
    if existsb (fun a => match fst a with None => true | Some _ => false end) (ralts ++ ealts)
    then dfail EUnmodelled
    else
    dlet tg := dec_tag in
    match find_tag tg ralts with
    | Some m => dlet v := rec (m_ty m) in dret (VChoice (m_name m) v)
    | None =>
      match find_tag tg ealts with
      | Some m => dlet _ := dec_len in dlet v := rec (m_ty m) in dret (VChoice (m_name m) v)
      | None =>
        match ext with
        | Some _ => dlet l := dec_len in dlet _ := dec_take l in dret VUnknownChoice
        | None => dfail EDecode
        end
      end
    end.

  Definition dec_step (t : ty) : dec value :=
    match t with
    | TBool => dlet b := dec_byte in dret (VBool (negb (b =? 0)))
    | TNull => dret VNone
    | TInt c => dlet z := dec_int c in dret (VInt z)
    | TEnum root ext => dec_enum root ext
    | TBits _ sz => dec_bitstring sz
    | TOctets sz => dlet ds := dec_sized sz in dret (VBytes ds)
    | TStr k sz _ =>
      match str_codec k with
      | Some (_, g) => dlet ds := dec_sized sz in dlet cs := lift (g ds) in dret (VStr cs)
      | None => dfail EUnmodelled
      end
    | TOid => dlet l := dec_len in dlet ds := dec_take l in dlet arcs := lift (dec_oid ds) in dret (VOid arcs)
    | TSeq false root ext => dec_seq root ext
    | TSeq true root ext =>
      if existsb (fun m => is_tagged (m_ty m)) root then dfail EUnmodelled else dec_seq root ext
    | TSeqOf _ t' _ => dec_list t'
    | TChoice root ext => dec_choice root ext
    | TRef n => match lookup n e with Some t' => rec t' | None => dfail EUnmodelled end
    | TTag _ t' => rec t'
    end.
End Dec.

Fixpoint oer_dec (numeric : bool) (fuel : nat) (e : env) (t : ty) : dec value :=
  match fuel with
  | O => dfail EFuel
  | S f => dec_step numeric e (oer_dec numeric f e) t
  end.

(** value and number of octets consumed *)
Definition oer_decode (numeric : bool) (fuel : nat) (e : env) (t : ty) (bs : list Z)
  : result (value * nat) :=
  match oer_dec numeric fuel e t bs with
  | Ok (v, r) => Ok (v, (length bs - length r)%nat)
  | Err x => Err x
  end.
