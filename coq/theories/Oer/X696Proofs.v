(** The implementation model produces exactly the octets of the X.696
    specification model on the conforming region ([x_conf], Oer/X696Scope.v):
    primitive refinement lemmas first, then the fuel induction. *)
From Asn1V Require Import Base.Prelude Base.Sweep Syntax.Asn1.
From Asn1V Require Import Oer.OerPrim Oer.OerImpl Oer.OerScope Oer.X696.
From Asn1V Require Import Oer.OerPrimProofs Oer.OerPrimProofs2 Oer.OerProofs.
Open Scope Z_scope.

Definition to_opt {A} (r : result A) : option A := match r with Ok a => Some a | Err _ => None end.

(** * Digits *)
Fixpoint be_digits (b : Z) (n : nat) (v : Z) : list Z :=
  match n with
  | O => []
  | S k => (v / b ^ Z.of_nat k) mod b :: be_digits b k v
  end.

Lemma be_bytes_digits n v : be_bytes n v = be_digits 256 n v.
Proof. induction n as [|n IH]; cbn [be_bytes be_digits]; congruence. Qed.

Lemma be_digits_snoc b k v : 0 < b ->
  be_digits b (S k) v = be_digits b k (v / b) ++ [v mod b].
Proof.
  intros Hb. induction k as [|k IH].
  - cbn [be_digits app]. change (b ^ Z.of_nat 0) with 1. rewrite Z.div_1_r. reflexivity.
  - change (be_digits b (S (S k)) v) with ((v / b ^ Z.of_nat (S k)) mod b :: be_digits b (S k) v).
    rewrite IH. cbn [be_digits app]. f_equal.
    rewrite Nat2Z.inj_succ, Z.pow_succ_r by lia.
    rewrite Z.div_div by (try apply Z.pow_pos_nonneg; lia). reflexivity.
Qed.

Lemma x_digits_acc_spec b k : forall v acc, 0 < b ->
  x_digits_acc b k v acc = be_digits b k v ++ acc.
Proof.
  induction k as [|k IH]; intros v acc Hb; [reflexivity|].
  cbn [x_digits_acc]. rewrite IH by assumption. rewrite be_digits_snoc by assumption.
  rewrite <- app_assoc. reflexivity.
Qed.

Lemma x_octets_spec k v : x_octets k v = be_bytes (Z.to_nat k) v.
Proof.
  unfold x_octets. rewrite x_digits_acc_spec by lia. rewrite app_nil_r. symmetry. apply be_bytes_digits.
Qed.

(** * Minimal lengths *)
Lemma least_from_found P : forall fuel k0 k,
  k0 <= k -> (forall j, k0 <= j < k -> P j = false) -> P k = true ->
  (Z.to_nat (k - k0) < fuel)%nat -> least_from P k0 fuel = Some k.
Proof.
  induction fuel as [|f IH]; intros k0 k Hle Hlow Hk Hf; [lia|].
  cbn [least_from]. destruct (Z.eq_dec k0 k) as [->|Hne].
  - rewrite Hk. reflexivity.
  - rewrite (Hlow k0) by lia. apply IH; try assumption; try lia.
    intros j Hj. apply Hlow. lia.
Qed.

Lemma log2_bit_length v : 0 < v -> bit_length v = Z.log2 v + 1.
Proof. intros H. unfold bit_length. destruct (v <=? 0) eqn:E; lia. Qed.

Lemma pow_le_pow2 a b : 0 <= a <= b -> 2 ^ a <= 2 ^ b.
Proof. intros H. apply Z.pow_le_mono_r; lia. Qed.

(** generic: k digits of base 2^w suffice and k-1 do not *)
Lemma x_len_spec w v k :
  7 <= w <= 8 -> 0 <= v -> 1 <= k ->
  v < 2 ^ (w * k) -> (1 < k -> 2 ^ (w * (k - 1)) <= v) ->
  x_len (2 ^ w) v = Some k.
Proof.
  intros Hw Hv Hk Hlt Hge. unfold x_len.
  apply least_from_found.
  - lia.
  - intros j Hj. rewrite <- Z.pow_mul_r by lia.
    assert (2 ^ (w * j) <= 2 ^ (w * (k - 1))) by (apply pow_le_pow2; nia).
    specialize (Hge ltac:(lia)). lia.
  - rewrite <- Z.pow_mul_r by lia. lia.
  - unfold search_bound. pose proof (Z.log2_nonneg (Z.abs v)).
    assert (0 <= Z.log2 (Z.abs v) / 7) by (apply Z.div_pos; lia).
    destruct (Z.eq_dec k 1) as [->|Hk1]; [lia|].
    specialize (Hge ltac:(lia)).
    assert (Hv0 : 0 < v) by (assert (0 < 2 ^ (w * (k - 1))) by (apply Z.pow_pos_nonneg; nia); lia).
    rewrite Z.abs_eq in * by lia.
    assert (w * (k - 1) <= Z.log2 v) by (apply Z.log2_le_pow2; [lia|exact Hge]).
    assert (k - 1 <= Z.log2 v / 7) by (apply Z.div_le_lower_bound; nia).
    lia.
Qed.

Lemma div_ceil_bounds m d : 0 < d -> d * ((m + (d - 1)) / d) - (d - 1) <= m <= d * ((m + (d - 1)) / d).
Proof.
  intros Hd. pose proof (Z.div_mod (m + (d - 1)) d ltac:(lia)).
  pose proof (Z.mod_pos_bound (m + (d - 1)) d Hd). lia.
Qed.

Lemma x_ulen_spec v : 0 <= v -> x_ulen v = Some (ulen v).
Proof.
  intros Hv. unfold x_ulen. change 256 with (2 ^ 8).
  pose proof (ulen_pos v). pose proof (ulen_spec v Hv) as Hlt. rewrite pow256 in Hlt by lia.
  apply x_len_spec; try lia.
  intros Hk. unfold ulen in *. pose proof (div_ceil_bounds (Z.max (bit_length v) 1) 8 ltac:(lia)) as B.
  replace (8 - 1) with 7 in B by lia.
  assert (Hbl : 2 <= bit_length v) by lia.
  assert (0 < v). { destruct (Z.eq_dec v 0) as [->|]; [vm_compute in Hbl; lia|lia]. }
  pose proof (bit_length_lower v ltac:(lia)).
  assert (2 ^ (8 * ((Z.max (bit_length v) 1 + 7) / 8 - 1)) <= 2 ^ (bit_length v - 1))
    by (apply pow_le_pow2; lia).
  lia.
Qed.

Lemma b128_len_x v : 0 <= v -> x_len 128 v = Some (b128_len v).
Proof.
  intros Hv. change 128 with (2 ^ 7).
  pose proof (b128_len_pos v). pose proof (b128_len_spec v Hv) as Hlt.
  replace (128 ^ b128_len v) with (2 ^ (7 * b128_len v)) in Hlt by (rewrite Z.pow_mul_r by lia; reflexivity).
  apply x_len_spec; try lia.
  intros Hk. unfold b128_len in *. pose proof (div_ceil_bounds (Z.max (bit_length v) 1) 7 ltac:(lia)) as B.
  replace (7 - 1) with 6 in B by lia.
  assert (Hbl : 2 <= bit_length v) by lia.
  assert (0 < v). { destruct (Z.eq_dec v 0) as [->|]; [vm_compute in Hbl; lia|lia]. }
  pose proof (bit_length_lower v ltac:(lia)).
  assert (2 ^ (7 * ((Z.max (bit_length v) 1 + 6) / 7 - 1)) <= 2 ^ (bit_length v - 1))
    by (apply pow_le_pow2; lia).
  lia.
Qed.

Lemma x_length_spec n : 0 <= n -> x_length n = to_opt (len_det n).
Proof.
  intros Hn. unfold x_length, len_det. destruct (n <? 0) eqn:E0; [lia|].
  destruct (n <? 128) eqn:E1; [reflexivity|].
  rewrite x_ulen_spec by lia. cbn [obind].
  assert (ulen n = (bit_length n + 7) / 8).
  { unfold ulen. f_equal. f_equal.
    assert (1 <= bit_length n); [|lia]. unfold bit_length. destruct (n <=? 0) eqn:E2; [lia|].
    pose proof (Z.log2_nonneg n). lia. }
  rewrite <- H. destruct (ulen n <? 128) eqn:E2; destruct (127 <? ulen n) eqn:E3; try lia; cbn [to_opt]; [|reflexivity].
  rewrite x_octets_spec. reflexivity.
Qed.

Lemma x_uint_var_spec v : 0 <= v -> x_uint_var v = to_opt (enc_uint_var v).
Proof.
  intros Hv. unfold x_uint_var, enc_uint_var. destruct (v <? 0) eqn:E; [lia|].
  rewrite x_ulen_spec by lia. cbn [obind]. pose proof (ulen_pos v).
  rewrite x_length_spec by lia. destruct (len_det (ulen v)); cbn [to_opt obind bind]; [|reflexivity].
  rewrite x_octets_spec. reflexivity.
Qed.

(** the two's-complement length chosen by append_integer is the minimal one *)
Lemma slen_minimal v j : 1 <= j < slen v -> ((- 2 ^ (8 * j - 1) <=? v) && (v <? 2 ^ (8 * j - 1))) = false.
Proof.
  intros Hj.
  assert (Hmono : 2 ^ (8 * j - 1) <= 2 ^ (8 * (slen v - 1) - 1)) by (apply pow_le_pow2; lia).
  assert (0 < 2 ^ (8 * j - 1)) by (apply Z.pow_pos_nonneg; lia).
  enough (~ (- 2 ^ (8 * (slen v - 1) - 1) <= v < 2 ^ (8 * (slen v - 1) - 1))) by lia.
  unfold slen in *. destruct (v <? 0) eqn:E.
  - set (nb := (bit_length (- v) + 7) / 8) in *.
    pose proof (div_ceil_bounds (bit_length (- v)) 8 ltac:(lia)) as B. replace (8 - 1) with 7 in B by lia.
    fold nb in B.
    pose proof (bit_length_lower (- v) ltac:(lia)) as Hlow.
    destruct (2 ^ (8 * nb - 1) <=? 2 ^ (8 * nb) + v) eqn:E1.
    + assert (2 ^ (8 * (nb - 1)) <= 2 ^ (bit_length (- v) - 1)) by (apply pow_le_pow2; lia).
      assert (2 ^ (8 * (nb - 1)) = 2 * 2 ^ (8 * (nb - 1) - 1)) by (apply pow2_split; lia). lia.
    + replace (nb + 1 - 1) with nb in * by lia.
      pose proof (pow2_split (8 * nb) ltac:(lia)). lia.
  - destruct (0 <? v) eqn:E1; [|lia].
    set (nb := (bit_length v + 7) / 8) in *.
    pose proof (div_ceil_bounds (bit_length v) 8 ltac:(lia)) as B. replace (8 - 1) with 7 in B by lia.
    fold nb in B.
    pose proof (bit_length_lower v ltac:(lia)) as Hlow.
    destruct (bit_length v =? 8 * nb) eqn:E2.
    + replace (nb + 1 - 1) with nb in * by lia.
      replace (bit_length v - 1) with (8 * nb - 1) in Hlow by lia. lia.
    + assert (2 ^ (8 * (nb - 1)) <= 2 ^ (bit_length v - 1)) by (apply pow_le_pow2; lia).
      assert (2 ^ (8 * (nb - 1)) = 2 * 2 ^ (8 * (nb - 1) - 1)) by (apply pow2_split; lia).
      assert (0 < 2 ^ (8 * (nb - 1) - 1)) by (apply Z.pow_pos_nonneg; lia). lia.
Qed.

Lemma x_slen_spec v : x_slen v = Some (slen v).
Proof.
  unfold x_slen. pose proof (slen_pos v). pose proof (slen_spec v).
  apply least_from_found.
  - lia.
  - intros j Hj. apply slen_minimal. lia.
  - lia.
  - unfold search_bound. pose proof (Z.log2_nonneg (Z.abs v)).
    assert (0 <= Z.log2 (Z.abs v) / 7) by (apply Z.div_pos; lia).
    destruct (Z.eq_dec (slen v) 1) as [->|Hne]; [lia|].
    pose proof (slen_minimal v (slen v - 1) ltac:(lia)) as Hm.
    assert (Hbig : 2 ^ (8 * (slen v - 1) - 1) <= Z.abs v) by lia.
    assert (8 * (slen v - 1) - 1 <= Z.log2 (Z.abs v)).
    { apply Z.log2_le_pow2; [|exact Hbig].
      assert (0 < 2 ^ (8 * (slen v - 1) - 1)) by (apply Z.pow_pos_nonneg; lia). lia. }
    assert (slen v - 1 <= Z.log2 (Z.abs v) / 7 + 1).
    { pose proof (Z.div_mod (Z.log2 (Z.abs v)) 7 ltac:(lia)).
      pose proof (Z.mod_pos_bound (Z.log2 (Z.abs v)) 7 ltac:(lia)). lia. }
    lia.
Qed.

Lemma x_sint_var_spec v : x_sint_var v = to_opt (enc_sint_var v).
Proof.
  unfold x_sint_var, enc_sint_var. rewrite x_slen_spec. cbn [obind]. pose proof (slen_pos v).
  rewrite x_length_spec by lia. destruct (len_det (slen v)); cbn [to_opt obind bind]; [|reflexivity].
  rewrite x_octets_spec. reflexivity.
Qed.

(** * INTEGER, ENUMERATED *)
From Asn1V Require Import Oer.X696Scope.

Lemma x_integer_spec c z : int_conf c z = true -> x_integer c z = to_opt (enc_int c z).
Proof.
  unfold int_conf, x_integer, enc_int, visible_range, int_form_of. intros Hc.
  destruct c as [|lo hi ext].
  - cbn [negb andb]. apply x_sint_var_spec.
  - destruct ext.
    + destruct lo, hi; cbn [negb andb]; apply x_sint_var_spec.
    + rewrite Hc. cbn [negb]. destruct lo as [lo|].
      * destruct hi as [hi|].
        -- apply andb_prop in Hc. destruct Hc as [Hlo Hhi].
           destruct (0 <=? lo) eqn:E0.
           ++ unfold enc_fixed_u.
              destruct (hi <=? 255) eqn:T1; destruct (hi <? 256) eqn:U1; try lia.
              { replace ((0 <=? z) && (z <? 2 ^ (8 * 1))) with true by (change (2 ^ (8 * 1)) with 256; lia).
                cbn [to_opt]. rewrite x_octets_spec. reflexivity. }
              destruct (hi <=? 65535) eqn:T2; destruct (hi <? 65536) eqn:U2; try lia.
              { replace ((0 <=? z) && (z <? 2 ^ (8 * 2))) with true by (change (2 ^ (8 * 2)) with 65536; lia).
                cbn [to_opt]. rewrite x_octets_spec. reflexivity. }
              destruct (hi <=? 4294967295) eqn:T3; destruct (hi <? 4294967296) eqn:U3; try lia.
              { replace ((0 <=? z) && (z <? 2 ^ (8 * 4))) with true by (change (2 ^ (8 * 4)) with 4294967296; lia).
                cbn [to_opt]. rewrite x_octets_spec. reflexivity. }
              destruct (hi <=? 18446744073709551615) eqn:T4; destruct (hi <? 18446744073709551616) eqn:U4; try lia.
              { replace ((0 <=? z) && (z <? 2 ^ (8 * 8))) with true
                  by (change (2 ^ (8 * 8)) with 18446744073709551616; lia).
                cbn [to_opt]. rewrite x_octets_spec. reflexivity. }
              destruct (z <? 0) eqn:Ez; [lia|]. apply x_uint_var_spec. lia.
           ++ unfold enc_fixed_s.
              destruct ((-128 <=? lo) && (hi <=? 127)) eqn:T1; destruct ((-128 <=? lo) && (hi <? 128)) eqn:U1; try lia.
              { replace ((- 2 ^ (8 * 1 - 1) <=? z) && (z <? 2 ^ (8 * 1 - 1))) with true
                  by (change (2 ^ (8 * 1 - 1)) with 128; lia).
                cbn [to_opt]. rewrite x_octets_spec. reflexivity. }
              destruct ((-32768 <=? lo) && (hi <=? 32767)) eqn:T2; destruct ((-32768 <=? lo) && (hi <? 32768)) eqn:U2; try lia.
              { replace ((- 2 ^ (8 * 2 - 1) <=? z) && (z <? 2 ^ (8 * 2 - 1))) with true
                  by (change (2 ^ (8 * 2 - 1)) with 32768; lia).
                cbn [to_opt]. rewrite x_octets_spec. reflexivity. }
              destruct ((-2147483648 <=? lo) && (hi <=? 2147483647)) eqn:T3;
                destruct ((-2147483648 <=? lo) && (hi <? 2147483648)) eqn:U3; try lia.
              { replace ((- 2 ^ (8 * 4 - 1) <=? z) && (z <? 2 ^ (8 * 4 - 1))) with true
                  by (change (2 ^ (8 * 4 - 1)) with 2147483648; lia).
                cbn [to_opt]. rewrite x_octets_spec. reflexivity. }
              destruct ((-9223372036854775808 <=? lo) && (hi <=? 9223372036854775807)) eqn:T4;
                destruct ((-9223372036854775808 <=? lo) && (hi <? 9223372036854775808)) eqn:U4; try lia.
              { replace ((- 2 ^ (8 * 8 - 1) <=? z) && (z <? 2 ^ (8 * 8 - 1))) with true
                  by (change (2 ^ (8 * 8 - 1)) with 9223372036854775808; lia).
                cbn [to_opt]. rewrite x_octets_spec. reflexivity. }
              apply x_sint_var_spec.
        -- destruct (0 <=? lo) eqn:E0; destruct (lo <? 0) eqn:E1; try lia.
           ++ destruct (z <? 0) eqn:Ez; [lia|]. apply x_uint_var_spec. lia.
           ++ apply x_sint_var_spec.
      * apply x_sint_var_spec.
Qed.

Lemma x_enum_value_spec z : x_enum_value z = to_opt (enc_enum_value z).
Proof.
  unfold x_enum_value, enc_enum_value, in_range.
  destruct ((0 <=? z) && (z <=? 127)); [reflexivity|].
  rewrite x_slen_spec. cbn [obind].
  destruct (slen z <? 128) eqn:E1; destruct (128 <=? slen z) eqn:E2; try lia; cbn [to_opt]; [|reflexivity].
  rewrite x_octets_spec. reflexivity.
Qed.

Lemma x_find_num_spec n items : x_find_num n items = find_num n items.
Proof. induction items as [|[k z] r IH]; cbn; [reflexivity|]. destruct (String.eqb n k); congruence. Qed.

Lemma existsb_find_name z items :
  existsb (fun it => snd it =? z) items = match find_name z items with Some _ => true | None => false end.
Proof.
  induction items as [|[k y] r IH]; cbn [existsb find_name snd]; [reflexivity|].
  rewrite Z.eqb_sym. destruct (z =? y); [reflexivity|exact IH].
Qed.

Lemma x_enumerated_spec numeric root ext v :
  x_enumerated numeric (root ++ match ext with Some x => x | None => [] end) v
  = to_opt (enc_enum numeric root ext v).
Proof.
  unfold x_enumerated, enc_enum, enum_items.
  set (items := root ++ match ext with Some x => x | None => [] end).
  destruct v; destruct numeric; cbn [andb to_opt]; try reflexivity.
  - rewrite existsb_find_name. destruct (find_name z items); [apply x_enum_value_spec|reflexivity].
  - rewrite x_find_num_spec. destruct (find_num name items); cbn [obind]; [apply x_enum_value_spec|reflexivity].
Qed.

(** * Bit fields *)
Lemma bits_value_x l : forall acc, bits_value acc l = acc * 2 ^ Z.of_nat (length l) + x_bits_value l.
Proof.
  induction l as [|b r IH]; intros acc; cbn [bits_value x_bits_value length].
  - change (2 ^ Z.of_nat 0) with 1. lia.
  - rewrite IH. rewrite Nat2Z.inj_succ, Z.pow_succ_r by lia. destruct b; ring.
Qed.

Lemma x_octet_of_short l : x_octet_of l = bits_value 0 (l ++ repeat false (8 - length l)).
Proof. unfold x_octet_of. rewrite bits_value_x. lia. Qed.

Lemma x_pack_fuel_spec l : forall fuel, (length l <= fuel)%nat -> x_pack_fuel fuel l = pack_bits l.
Proof.
  induction l using list_ind8; intros fuel Hf.
  - destruct fuel; reflexivity.
  - destruct fuel as [|f]; [lia|]. rewrite pack_bits_short by assumption.
    destruct l as [|b0 l']; [simpl in H; lia|].
    cbn [x_pack_fuel]. rewrite firstn_all2 by lia. rewrite skipn_all2 by lia.
    rewrite x_octet_of_short. destruct f; reflexivity.
  - destruct fuel as [|f]; [simpl in Hf; lia|].
    cbn [x_pack_fuel firstn skipn pack_bits]. rewrite IHl by (simpl in Hf; lia).
    f_equal. rewrite x_octet_of_short. reflexivity.
Qed.

Lemma x_pack_spec l : x_pack l = pack_bits l.
Proof. unfold x_pack. apply x_pack_fuel_spec. lia. Qed.

Lemma x_byte_bits_spec b : x_byte_bits b = bits_of_byte b.
Proof.
  unfold x_byte_bits, bits_of_byte. cbn [map].
  rewrite !Z.testbit_odd, !Z.shiftr_div_pow2 by lia. reflexivity.
Qed.

Lemma byte_bits_roundtrip b : 0 <= b < 256 ->
  byte_of_bits (Z.testbit b 7) (Z.testbit b 6) (Z.testbit b 5) (Z.testbit b 4)
               (Z.testbit b 3) (Z.testbit b 2) (Z.testbit b 1) (Z.testbit b 0) = b.
Proof.
  intros H. apply Z.eqb_eq.
  apply (sweep (fun b => byte_of_bits (Z.testbit b 7) (Z.testbit b 6) (Z.testbit b 5) (Z.testbit b 4)
                                      (Z.testbit b 3) (Z.testbit b 2) (Z.testbit b 1) (Z.testbit b 0) =? b) 0 256);
    [vm_compute; reflexivity|lia].
Qed.

Lemma pack_bits_bytes pre : forall rest,
  forallb is_byteb pre = true ->
  pack_bits (flat_map bits_of_byte pre ++ rest) = pre ++ pack_bits rest.
Proof.
  induction pre as [|b pre IH]; intros rest H; [reflexivity|].
  cbn [forallb] in H. apply andb_prop in H. destruct H as [Hb H].
  cbn [flat_map]. unfold bits_of_byte at 1. cbn [app pack_bits].
  rewrite byte_bits_roundtrip by (unfold is_byteb in Hb; lia).
  rewrite IH by assumption. reflexivity.
Qed.

Lemma pack_partial_byte last r : 0 <= last < 256 -> 0 < r < 8 ->
  pack_bits (firstn (Z.to_nat r) (bits_of_byte last)) = [Z.land last (256 - 2 ^ (8 - r))].
Proof.
  intros Hl Hr.
  assert (G : forall r', In r' [1; 2; 3; 4; 5; 6; 7] ->
              forallb (fun b => zlist_eqb (pack_bits (firstn (Z.to_nat r') (bits_of_byte b)))
                                          [Z.land b (256 - 2 ^ (8 - r'))]) (zrange 0 256) = true).
  { intros r' Hin. repeat (destruct Hin as [<-|Hin]; [vm_compute; reflexivity|]). destruct Hin. }
  assert (Hin : In r [1; 2; 3; 4; 5; 6; 7]).
  { assert (r = 1 \/ r = 2 \/ r = 3 \/ r = 4 \/ r = 5 \/ r = 6 \/ r = 7) as Hc by lia.
    cbn [In]. intuition. }
  specialize (G r Hin). rewrite forallb_forall in G.
  specialize (G last (zrange_in 0 256 last ltac:(lia))).
  clear - G. revert G.
  generalize (pack_bits (firstn (Z.to_nat r) (bits_of_byte last))) as a.
  generalize ([Z.land last (256 - 2 ^ (8 - r))]) as b.
  intros b a. revert b. induction a as [|x a IH]; destruct b as [|y b]; cbn [zlist_eqb]; try discriminate; auto.
  intros H. apply andb_prop in H. destruct H as [H1 H2]. f_equal; [lia|auto].
Qed.

Lemma firstn_flat_map_bytes (data : list Z) : forall k,
  (k <= length data)%nat ->
  firstn (8 * k) (flat_map bits_of_byte data) = flat_map bits_of_byte (firstn k data).
Proof.
  induction data as [|b data IH]; intros k Hk.
  - destruct k; [reflexivity|simpl in Hk; lia].
  - destruct k as [|k]; [reflexivity|].
    replace (8 * S k)%nat with (8 + 8 * k)%nat by lia.
    cbn [flat_map firstn]. unfold bits_of_byte at 1. cbn [app firstn Nat.add].
    unfold bits_of_byte at 1. cbn [app]. rewrite IH by (simpl in Hk; lia). reflexivity.
Qed.

Lemma firstn_flat_map_frag (data : list Z) : forall k r last,
  nth_error data k = Some last -> (r < 8)%nat ->
  firstn (8 * k + r) (flat_map bits_of_byte data)
  = flat_map bits_of_byte (firstn k data) ++ firstn r (bits_of_byte last).
Proof.
  induction data as [|b data IH]; intros k r last Hn Hr.
  - destruct k; discriminate.
  - destruct k as [|k].
    + cbn [nth_error] in Hn. injection Hn as ->. cbn [flat_map firstn Nat.mul Nat.add app].
      rewrite firstn_app.
      replace (r - length (bits_of_byte last))%nat with 0%nat by (unfold bits_of_byte; cbn [length]; lia).
      cbn [firstn]. rewrite app_nil_r. reflexivity.
    + cbn [nth_error] in Hn.
      replace (8 * S k + r)%nat with (8 + (8 * k + r))%nat by lia.
      cbn [flat_map firstn]. unfold bits_of_byte at 1. cbn [app firstn Nat.add].
      unfold bits_of_byte at 2. cbn [app]. rewrite (IH k r last Hn Hr). reflexivity.
Qed.

Lemma forallb_firstn {A} (f : A -> bool) l n : forallb f l = true -> forallb f (firstn n l) = true.
Proof.
  revert n. induction l as [|x l IH]; intros n H; destruct n; cbn [firstn forallb] in *; auto.
  apply andb_prop in H. destruct H as [H1 H2]. rewrite H1, IH; auto.
Qed.

Lemma flat_map_x_byte_bits data : flat_map x_byte_bits data = flat_map bits_of_byte data.
Proof. induction data as [|b d IH]; cbn [flat_map]; [reflexivity|]. rewrite x_byte_bits_spec, IH. reflexivity. Qed.

Lemma x_bitstring_spec sz data n :
  bits_ok sz data n = true -> forallb is_byteb data = true ->
  x_bitstring sz data n = to_opt (enc_bits sz data n).
Proof.
  unfold bits_ok, x_bitstring, enc_bits, bits_payload, size_ok. intros Hok Hbytes.
  apply andb_prop in Hok. destruct Hok as [Hok Hsz]. apply andb_prop in Hok. destruct Hok as [Hn Hlen].
  change (visible_fixed_size sz) with (fixed_size sz).
  destruct (n <? 0) eqn:E0; [lia|]. cbn [orb].
  rewrite flat_map_x_byte_bits, x_pack_spec.
  pose proof (Z.div_mod n 8 ltac:(lia)) as Hdm. pose proof (Z.mod_pos_bound n 8 ltac:(lia)) as Hmb.
  destruct (n mod 8 =? 0) eqn:E1.
  - cbn [negb orb] in Hlen.
    destruct (8 * Z.of_nat (length data) <? n) eqn:E2; [lia|].
    replace (Z.to_nat n) with (8 * Z.to_nat (n / 8))%nat by lia.
    rewrite firstn_flat_map_bytes by lia.
    rewrite <- (app_nil_r (flat_map bits_of_byte _)).
    rewrite pack_bits_bytes by (apply forallb_firstn; exact Hbytes).
    cbn [pack_bits]. rewrite app_nil_r. cbn [bind].
    destruct (fixed_size sz) as [s|].
    + rewrite Hsz. reflexivity.
    + rewrite firstn_length_le by lia. rewrite Z2Nat.id by lia.
      rewrite x_length_spec by lia. replace (1 + n / 8) with (n / 8 + 1) by lia.
      destruct (len_det (n / 8 + 1)); cbn [obind bind to_opt]; [|reflexivity].
      replace ((- n) mod 8) with 0 by lia. reflexivity.
  - destruct (nth_error data (Z.to_nat (n / 8))) as [last|] eqn:E2.
    + assert (Hlt : (Z.to_nat (n / 8) < length data)%nat) by (apply nth_error_Some; congruence).
      destruct (8 * Z.of_nat (length data) <? n) eqn:E3; [lia|].
      assert (Hlast : 0 <= last < 256).
      { apply nth_error_In in E2. rewrite forallb_forall in Hbytes. specialize (Hbytes _ E2).
        unfold is_byteb in Hbytes. lia. }
      replace (Z.to_nat n) with (8 * Z.to_nat (n / 8) + Z.to_nat (n mod 8))%nat by lia.
      rewrite (firstn_flat_map_frag data _ _ last E2) by lia.
      rewrite pack_bits_bytes by (apply forallb_firstn; exact Hbytes).
      rewrite pack_partial_byte by lia. unfold bit_mask. cbn [bind].
      destruct (fixed_size sz) as [s|].
      * rewrite Hsz. reflexivity.
      * rewrite app_length, firstn_length_le by lia. cbn [length].
        rewrite x_length_spec by lia.
        replace (1 + Z.of_nat (Z.to_nat (n / 8) + 1)) with (n / 8 + 1 + 1) by lia.
        destruct (len_det (n / 8 + 1 + 1)); cbn [obind bind to_opt]; [|reflexivity].
        replace ((- n) mod 8) with (8 - n mod 8) by lia. reflexivity.
    + assert (Hge : (length data <= Z.to_nat (n / 8))%nat) by (apply nth_error_None; exact E2).
      destruct (8 * Z.of_nat (length data) <? n) eqn:E3; [reflexivity|lia].
Qed.

(** * Character strings *)
Lemma x_utf8_spec c : x_utf8 c = to_opt (utf8_enc1 c).
Proof.
  unfold x_utf8, utf8_enc1, in_range.
  destruct (c <? 0) eqn:E0.
  { destruct ((0 <=? c) && (c <=? 127)) eqn:T1; [lia|]. destruct ((128 <=? c) && (c <=? 2047)) eqn:T2; [lia|].
    destruct ((2048 <=? c) && (c <=? 65535)) eqn:T3; [lia|].
    destruct ((65536 <=? c) && (c <=? 1114111)) eqn:T4; [lia|reflexivity]. }
  destruct (c <? 128) eqn:E1.
  { destruct ((0 <=? c) && (c <=? 127)) eqn:T1; [reflexivity|lia]. }
  destruct ((0 <=? c) && (c <=? 127)) eqn:T1; [lia|].
  destruct (c <? 2048) eqn:E2.
  { destruct ((128 <=? c) && (c <=? 2047)) eqn:T2; [reflexivity|lia]. }
  destruct ((128 <=? c) && (c <=? 2047)) eqn:T2; [lia|].
  destruct (c <? 65536) eqn:E3.
  { destruct ((2048 <=? c) && (c <=? 65535)) eqn:T3; [|lia].
    destruct ((55296 <=? c) && (c <=? 57343)); reflexivity. }
  destruct ((2048 <=? c) && (c <=? 65535)) eqn:T3; [lia|].
  destruct (c <? 1114112) eqn:E4.
  { destruct ((65536 <=? c) && (c <=? 1114111)) eqn:T4; [reflexivity|lia]. }
  destruct ((65536 <=? c) && (c <=? 1114111)) eqn:T4; [lia|reflexivity].
Qed.

Lemma x_char7_spec c : x_char7 c = to_opt (ascii_enc1 c).
Proof.
  unfold x_char7, ascii_enc1, in_range.
  destruct (c <? 0) eqn:E0; [destruct ((0 <=? c) && (c <=? 127)) eqn:T; [lia|reflexivity]|].
  destruct (c <? 128) eqn:E1; [destruct ((0 <=? c) && (c <=? 127)) eqn:T; [reflexivity|lia]|].
  destruct ((0 <=? c) && (c <=? 127)) eqn:T; [lia|]. destruct (c <? 1114112); reflexivity.
Qed.

Lemma x_chars_spec (f : Z -> option (list Z)) (g : Z -> result (list Z)) cs :
  (forall c, f c = to_opt (g c)) -> x_chars f cs = to_opt (enc_chars g cs).
Proof.
  intros Hfg. induction cs as [|c cs IH]; [reflexivity|].
  cbn [x_chars enc_chars]. rewrite Hfg. destruct (g c); cbn [obind bind to_opt]; [|reflexivity].
  rewrite IH. destruct (enc_chars g cs); reflexivity.
Qed.

Lemma x_sized_spec sz count payload :
  size_ok sz count = true ->
  x_sized (fixed_size sz) count payload = to_opt (enc_sized sz payload).
Proof.
  unfold size_ok, x_sized, enc_sized. intros H. destruct (fixed_size sz) as [s|].
  - rewrite H. reflexivity.
  - rewrite x_length_spec by lia. destruct (len_det _); reflexivity.
Qed.

(** * OBJECT IDENTIFIER, tags *)
Lemma x_cont_digits k v : x_cont (be_digits 128 (S k) v) = b128_digits (S k) v.
Proof.
  induction k as [|k IH].
  - cbn [be_digits x_cont b128_digits]. change (128 ^ Z.of_nat 0) with 1. rewrite Z.div_1_r. reflexivity.
  - rewrite b128_digits_S. rewrite <- IH.
    change (be_digits 128 (S (S k)) v) with ((v / 128 ^ Z.of_nat (S k)) mod 128 :: be_digits 128 (S k) v).
    cbn [be_digits x_cont]. reflexivity.
Qed.

Lemma x_subid_spec v : 0 <= v -> x_subid v = Some (enc_subid v).
Proof.
  intros Hv. unfold x_subid, enc_subid. rewrite b128_len_x by assumption. cbn [obind].
  rewrite x_digits_acc_spec by lia. rewrite app_nil_r.
  pose proof (b128_len_pos v). destruct (Z.to_nat (b128_len v)) as [|k] eqn:Ek; [lia|].
  rewrite x_cont_digits. reflexivity.
Qed.

Lemma x_subids_spec vs : forallb (fun a => 0 <=? a) vs = true -> x_subids vs = Some (flat_map enc_subid vs).
Proof.
  induction vs as [|v vs IH]; intros H; [reflexivity|].
  cbn [forallb] in H. apply andb_prop in H. destruct H as [Hv H].
  cbn [x_subids flat_map]. rewrite x_subid_spec by lia. cbn [obind]. rewrite IH by assumption. reflexivity.
Qed.

Lemma x_oid_spec arcs : oid_ok arcs = true ->
  x_oid arcs = to_opt (let* c := enc_oid arcs in wrap_open c).
Proof.
  unfold oid_ok, x_oid, enc_oid, in_range. intros H.
  destruct arcs as [|a0 [|a1 rest]]; try discriminate.
  apply andb_prop in H. destruct H as [H H2]. apply andb_prop in H. destruct H as [Hpos H1].
  rewrite Hpos.
  assert (Hneg : existsb (fun a => a <? 0) (a0 :: a1 :: rest) = false).
  { destruct (existsb _ _) eqn:E; [|reflexivity]. apply existsb_exists in E. destruct E as [x [Hin Hx]].
    rewrite forallb_forall in Hpos. specialize (Hpos _ Hin). lia. }
  rewrite Hneg.
  pose proof Hpos as Hp. cbn [forallb] in Hp. apply andb_prop in Hp. destruct Hp as [P0 Hp].
  apply andb_prop in Hp. destruct Hp as [P1 Prest].
  replace ((0 <=? a0) && (a0 <=? 2)) with true by lia. rewrite H2. cbn [andb].
  rewrite x_subids_spec by (cbn [forallb]; rewrite Prest; replace (0 <=? 40 * a0 + a1) with true by lia; reflexivity).
  cbn [obind bind flat_map]. unfold wrap_open.
  rewrite x_length_spec by lia. destruct (len_det _); reflexivity.
Qed.

Lemma x_tag_spec c num : 0 <= num -> c <> Univ ->
  x_tag c num = Some (encode_tag num (class_flags c)).
Proof.
  intros Hn Hc. unfold x_tag, encode_tag. destruct (num <? 0) eqn:E0; [lia|].
  assert (x_class_bits c = class_flags c) as -> by (destruct c; try reflexivity; congruence).
  destruct (num <? 63); [reflexivity|]. rewrite x_subid_spec by lia. reflexivity.
Qed.

Lemma x_open_spec o : x_open o = to_opt (wrap_open o).
Proof. unfold x_open, wrap_open. rewrite x_length_spec by lia. destruct (len_det _); reflexivity. Qed.

(** * Constructed types: one step, given the hypothesis on the recursive calls *)
Lemma enc_adds_shape (encr : ty -> value -> result (list Z)) ms : forall fs pres es,
  enc_adds encr ms fs = Ok (pres, es) ->
  length pres = length ms /\ existsb (fun b => b) pres = match es with [] => false | _ => true end.
Proof.
  induction ms as [|m ms IH]; intros fs pres es H; cbn [enc_adds] in H.
  - assert (pres = [] /\ es = []) as [-> ->] by (split; congruence). split; reflexivity.
  - destruct (lookup (m_name m) fs) as [v|].
    + destruct (encr (m_ty m) v) as [b|]; cbn [bind] in H; [|discriminate].
      destruct (enc_adds encr ms fs) as [[p es']|] eqn:E; cbn [bind] in H; [|discriminate].
      assert (pres = true :: p /\ es = b :: es') as [-> ->] by (split; congruence).
      destruct (IH _ _ _ E) as [L _]. split; [cbn [length]; congruence|reflexivity].
    + destruct (enc_adds encr ms fs) as [[p es']|] eqn:E; cbn [bind] in H; [|discriminate].
      assert (pres = false :: p /\ es = es') as [-> ->] by (split; congruence).
      destruct (IH _ _ _ E) as [L X]. split; [cbn [length]; congruence|exact X].
Qed.

Lemma x_find_alt_spec auto n ms : forall i,
  find_alt n (alt_tags auto i ms) =
  match x_find_alt n i ms with Some (j, m) => Some (alt_tag auto j (m_ty m), m) | None => None end.
Proof.
  induction ms as [|m ms IH]; intros i; cbn [alt_tags find_alt x_find_alt]; [reflexivity|].
  cbn [snd]. destruct (String.eqb n (m_name m)); [reflexivity|apply IH].
Qed.

Lemma x_find_alt_member n ms : forall i,
  match x_find_alt n i ms with
  | Some (j, m) => find_member n ms = Some m /\ i <= j
  | None => find_member n ms = None
  end.
Proof.
  induction ms as [|m ms IH]; intros i; cbn [x_find_alt find_member]; [reflexivity|].
  destruct (String.eqb n (m_name m)); [split; [reflexivity|lia]|].
  specialize (IH (i + 1)). destruct (x_find_alt n (i + 1) ms) as [[j m']|]; [|exact IH].
  destruct IH as [H1 H2]. split; [exact H1|lia].
Qed.

Lemma find_member_in n ms m : find_member n ms = Some m -> In m ms.
Proof.
  induction ms as [|m0 ms IH]; cbn [find_member]; [discriminate|].
  destruct (String.eqb n (m_name m0)); [intros [= <-]; left; reflexivity|right; auto].
Qed.

Section RStep.
  Variables (numeric : bool) (e : env).
  Variables (encr : ty -> value -> result (list Z)) (specr : ty -> value -> option (list Z)).
  Variables (okr confr : ty -> value -> bool).
  Hypothesis IH : forall t v, okr t v = true -> confr t v = true -> specr t v = to_opt (encr t v).

  Lemma x_components_spec ms fs :
    ok_root okr ms fs = true -> conf_root confr ms fs = true ->
    x_components specr ms fs = to_opt (enc_root encr ms fs).
  Proof.
    induction ms as [|m ms IHms]; intros Hok Hc; [reflexivity|].
    cbn [x_components enc_root ok_root conf_root] in *. unfold x_component.
    destruct (lookup (m_name m) fs) as [v|]; destruct (m_opt m) as [| |d].
    - apply andb_prop in Hok. destruct Hok as [Hv Hok]. apply andb_prop in Hc. destruct Hc as [Cv Hc].
      rewrite (IH _ _ Hv Cv), (IHms Hok Hc).
      destruct (encr (m_ty m) v); cbn [to_opt obind bind]; [|reflexivity].
      destruct (enc_root encr ms fs) as [[bits body]|]; reflexivity.
    - apply andb_prop in Hok. destruct Hok as [Hv Hok]. apply andb_prop in Hc. destruct Hc as [Cv Hc].
      rewrite (IH _ _ Hv Cv), (IHms Hok Hc).
      destruct (encr (m_ty m) v); cbn [to_opt obind bind]; [|reflexivity].
      destruct (enc_root encr ms fs) as [[bits body]|]; reflexivity.
    - apply andb_prop in Hok. destruct Hok as [Hv Hok]. apply andb_prop in Hc. destruct Hc as [Cv Hc].
      rewrite (IHms Hok Hc). destruct (value_eqb v d).
      + cbn [obind]. destruct (enc_root encr ms fs) as [[bits body]|]; reflexivity.
      + cbn [orb] in Hv, Cv. rewrite (IH _ _ Hv Cv).
        destruct (encr (m_ty m) v); cbn [to_opt obind bind]; [|reflexivity].
        destruct (enc_root encr ms fs) as [[bits body]|]; reflexivity.
    - reflexivity.
    - rewrite (IHms Hok Hc). cbn [obind]. destruct (enc_root encr ms fs) as [[bits body]|]; reflexivity.
    - rewrite (IHms Hok Hc). cbn [obind]. destruct (enc_root encr ms fs) as [[bits body]|]; reflexivity.
  Qed.

  Lemma x_additions_spec adds fs :
    ok_adds okr (flat_adds adds) fs = true -> conf_adds confr adds fs = true ->
    x_additions specr adds fs =
    to_opt (let* r := enc_adds encr (flat_adds adds) fs in
            let* tl := concat_open (snd r) in Ok (fst r, tl)).
  Proof.
    induction adds as [|a adds IHa]; intros Hok Hc; [reflexivity|].
    cbn [conf_adds] in Hc. destruct a as [[|] [|m [|m' l]]]; try discriminate.
    change (flat_adds ((false, [m]) :: adds)) with (m :: flat_adds adds) in *.
    cbn [ok_adds enc_adds x_additions] in *. unfold x_addition.
    destruct (lookup (m_name m) fs) as [v|].
    - apply andb_prop in Hok. destruct Hok as [Hv Hok].
      apply andb_prop in Hc. destruct Hc as [Hc Hc2]. apply andb_prop in Hc. destruct Hc as [Hd Cv].
      rewrite (IHa Hok Hc2).
      assert (E : match m_opt m with
                  | Default d => if value_eqb v d then Some None else olet o := specr (m_ty m) v in Some (Some o)
                  | _ => olet o := specr (m_ty m) v in Some (Some o)
                  end = olet o := specr (m_ty m) v in Some (Some o)).
      { destruct (m_opt m) as [| |d]; try reflexivity. apply negb_true_iff in Hd. rewrite Hd. reflexivity. }
      rewrite E. rewrite (IH _ _ Hv Cv).
      destruct (encr (m_ty m) v) as [b|]; cbn [to_opt obind bind]; [|reflexivity].
      destruct (enc_adds encr (flat_adds adds) fs) as [[p es]|]; cbn [to_opt obind bind fst snd]; [|reflexivity].
      cbn [concat_open]. rewrite x_open_spec.
      destruct (concat_open es) as [ws|]; destruct (wrap_open b) as [w|]; reflexivity.
    - rewrite (IHa Hok Hc). cbn [obind].
      destruct (enc_adds encr (flat_adds adds) fs) as [[p es]|]; cbn [to_opt obind bind fst snd]; [|reflexivity].
      destruct (concat_open es); reflexivity.
  Qed.

  Lemma x_sequence_spec root ext fs :
    ok_root okr root fs = true ->
    match ext with Some adds => ok_adds okr (flat_adds adds) fs | None => true end = true ->
    conf_root confr root fs = true ->
    match ext with Some adds => conf_adds confr adds fs | None => true end = true ->
    x_sequence specr root ext fs = to_opt (enc_seq encr root ext fs).
  Proof.
    intros Hr Ha Cr Ca. unfold x_sequence, enc_seq.
    rewrite (x_components_spec _ _ Hr Cr).
    destruct (enc_root encr root fs) as [[bits body]|]; cbn [to_opt obind bind]; [|reflexivity].
    destruct ext as [adds|]; [|rewrite x_pack_spec; reflexivity].
    rewrite (x_additions_spec _ _ Ha Ca). rewrite !x_pack_spec.
    destruct (flat_adds adds) as [|m0 flat'] eqn:Ef.
    { cbn [enc_adds bind fst snd concat_open to_opt obind existsb]. reflexivity. }
    rewrite <- Ef.
    destruct (enc_adds encr (flat_adds adds) fs) as [[pres es]|] eqn:Ee; cbn [to_opt obind bind fst snd]; [|reflexivity].
    destruct (enc_adds_shape _ _ _ _ _ Ee) as [L X].
    destruct es as [|e0 es'].
    - cbn [concat_open to_opt obind bind]. rewrite X. reflexivity.
    - destruct (concat_open (e0 :: es')) as [tl|]; cbn [to_opt obind bind].
      + rewrite X. rewrite x_pack_spec. rewrite x_length_spec by lia.
        rewrite pack_bits_length. rewrite L.
        replace (1 + (Z.of_nat (length (flat_adds adds)) + 7) / 8)
          with ((Z.of_nat (length (flat_adds adds)) + 7) / 8 + 1) by lia.
        destruct (len_det _); reflexivity.
      + destruct (len_det _); reflexivity.
  Qed.

  Lemma x_elements_spec t vs :
    forallb (okr t) vs = true -> forallb (confr t) vs = true ->
    x_elements specr t vs = to_opt (enc_list encr t vs).
  Proof.
    induction vs as [|v vs IHvs]; intros Hok Hc; [reflexivity|].
    cbn [forallb] in *. apply andb_prop in Hok. destruct Hok as [Hv Hok].
    apply andb_prop in Hc. destruct Hc as [Cv Hc].
    cbn [x_elements enc_list]. rewrite (IH _ _ Hv Cv), (IHvs Hok Hc).
    destruct (encr t v); cbn [to_opt obind bind]; [|reflexivity].
    destruct (enc_list encr t vs); reflexivity.
  Qed.

  Lemma x_choice_spec root ext n v :
    ok_choice okr root ext n v = true ->
    forallb (fun m => not_universal (m_ty m)) (root ++ match ext with Some x => x | None => [] end) = true ->
    match find_member n (root ++ match ext with Some x => x | None => [] end) with
    | Some m => confr (m_ty m) v
    | None => false
    end = true ->
    x_choice specr root ext n v = to_opt (enc_choice encr root ext n v).
  Proof.
    unfold ok_choice, x_choice, enc_choice.
    set (extl := match ext with Some x => x | None => [] end).
    change (negb (existsb (fun m => x_alt_tagged (m_ty m)) (root ++ extl))) with (choice_auto root ext).
    set (auto := choice_auto root ext).
    intros Hok Hnu Hc.
    apply andb_prop in Hok. destruct Hok as [Hok Hm].
    apply andb_prop in Hok. destruct Hok as [Hok Hnum]. clear Hok.
    assert (Htag : forall j m, 0 <= j -> In m (root ++ extl) ->
              (if auto then x_tag Ctx j
               else match m_ty m with TTag tg _ => x_tag (t_class tg) (t_num tg) | _ => None end)
              = alt_tag auto j (m_ty m)).
    { intros j m Hj Hin. unfold alt_tag. destruct auto.
      - rewrite x_tag_spec by (try lia; discriminate). reflexivity.
      - rewrite forallb_forall in Hnum, Hnu. specialize (Hnum _ Hin). specialize (Hnu _ Hin).
        destruct (m_ty m); try reflexivity.
        rewrite x_tag_spec; [reflexivity|lia|].
        unfold not_universal in Hnu. destruct (t_class tg); congruence. }
    rewrite find_member_app in Hm, Hc.
    rewrite !x_find_alt_spec.
    pose proof (x_find_alt_member n root 0) as F1.
    destruct (x_find_alt n 0 root) as [[j m]|].
    - destruct F1 as [F1 Hj]. rewrite F1 in Hm, Hc.
      rewrite Htag by (try lia; apply in_or_app; left; eapply find_member_in; exact F1).
      destruct (alt_tag auto j (m_ty m)) as [tg|]; cbn [obind to_opt]; [|reflexivity].
      rewrite (IH _ _ Hm Hc). destruct (encr (m_ty m) v); reflexivity.
    - rewrite F1 in Hm, Hc.
      pose proof (x_find_alt_member n extl (Z.of_nat (length root))) as F2.
      destruct (x_find_alt n (Z.of_nat (length root)) extl) as [[j m]|]; cbn [obind]; [|reflexivity].
      destruct F2 as [F2 Hj]. rewrite F2 in Hm, Hc.
      rewrite Htag by (try lia; apply in_or_app; right; eapply find_member_in; exact F2).
      destruct (alt_tag auto j (m_ty m)) as [tg|]; cbn [obind to_opt]; [|reflexivity].
      rewrite (IH _ _ Hm Hc). destruct (encr (m_ty m) v) as [b|]; cbn [to_opt obind bind]; [|reflexivity].
      rewrite x_open_spec. destruct (wrap_open b); reflexivity.
  Qed.
End RStep.

Section RStepAll.
  Variables (numeric : bool) (e : env).
  Variables (encr : ty -> value -> result (list Z)) (specr : ty -> value -> option (list Z)).
  Variables (okr confr : ty -> value -> bool).
  Hypothesis IH : forall t v, okr t v = true -> confr t v = true -> specr t v = to_opt (encr t v).

  Lemma x_step_spec t v :
    ok_step numeric e okr t v = true -> conf_step e confr t v = true ->
    x_step numeric e specr t v = to_opt (enc_step numeric e encr t v).
  Proof.
    intros Hok Hc. destruct t.
    - destruct v; reflexivity.
    - destruct v; reflexivity.
    - destruct v; try reflexivity. cbn [x_step enc_step conf_step] in *. apply x_integer_spec. exact Hc.
    - cbn [x_step enc_step]. apply x_enumerated_spec.
    - destruct v; try reflexivity. cbn [x_step enc_step ok_step conf_step] in *.
      apply x_bitstring_spec; assumption.
    - destruct v; try reflexivity. cbn [x_step enc_step ok_step] in *.
      change (visible_fixed_size sz) with (fixed_size sz). apply x_sized_spec. exact Hok.
    - destruct v; try (destruct k; reflexivity).
      cbn [x_step enc_step ok_step] in *. unfold x_string.
      change (visible_fixed_size sz) with (fixed_size sz).
      destruct k; cbn [str_codec] in *; try reflexivity.
      + rewrite (x_chars_spec x_char7 ascii_enc1 cps x_char7_spec).
        destruct (enc_chars ascii_enc1 cps) as [payload|] eqn:E; cbn [obind bind to_opt]; [|reflexivity].
        apply x_sized_spec. exact Hok.
      + rewrite (x_chars_spec x_char7 ascii_enc1 cps x_char7_spec).
        destruct (enc_chars ascii_enc1 cps) as [payload|] eqn:E; cbn [obind bind to_opt]; [|reflexivity].
        apply x_sized_spec. exact Hok.
      + rewrite (x_chars_spec x_char7 ascii_enc1 cps x_char7_spec).
        destruct (enc_chars ascii_enc1 cps) as [payload|] eqn:E; cbn [obind bind to_opt]; [|reflexivity].
        apply x_sized_spec. exact Hok.
      + rewrite (x_chars_spec x_char7 ascii_enc1 cps x_char7_spec).
        destruct (enc_chars ascii_enc1 cps) as [payload|] eqn:E; cbn [obind bind to_opt]; [|reflexivity].
        apply x_sized_spec. exact Hok.
      + rewrite (x_chars_spec x_utf8 utf8_enc1 cps x_utf8_spec).
        destruct (enc_chars utf8_enc1 cps) as [payload|] eqn:E; cbn [obind bind to_opt]; [|reflexivity].
        destruct (fixed_size sz) as [s|] eqn:Es; [discriminate|].
        unfold x_sized, enc_sized. rewrite Es. rewrite x_length_spec by lia. destruct (len_det _); reflexivity.
    - destruct v; try reflexivity. cbn [x_step enc_step ok_step] in *. apply x_oid_spec. exact Hok.
    - destruct v; try (destruct isset; reflexivity).
      cbn [ok_step conf_step] in *.
      apply andb_prop in Hok. destruct Hok as [Hr Ha]. apply andb_prop in Hc. destruct Hc as [Cr Ca].
      destruct isset; cbn [x_step enc_step].
      + change (existsb (fun m => x_alt_tagged (m_ty m)) root) with (existsb (fun m => is_tagged (m_ty m)) root).
        destruct (existsb (fun m => is_tagged (m_ty m)) root); [reflexivity|].
        eapply x_sequence_spec; eassumption.
      + eapply x_sequence_spec; eassumption.
    - destruct v; try reflexivity. cbn [x_step enc_step ok_step conf_step] in *.
      rewrite x_uint_var_spec by lia.
      destruct (enc_uint_var (Z.of_nat (length vs))); cbn [obind bind to_opt]; [|reflexivity].
      rewrite (x_elements_spec encr specr okr confr IH _ _ Hok Hc).
      destruct (enc_list encr t vs); reflexivity.
    - destruct v; try reflexivity. cbn [x_step enc_step ok_step conf_step] in *.
      apply andb_prop in Hc. destruct Hc as [Hnu Hc].
      eapply x_choice_spec; eassumption.
    - cbn [ok_step conf_step] in *.
      assert (E : x_step numeric e specr (TRef name) v = olet t' := lookup name e in specr t' v)
        by (destruct v; reflexivity).
      assert (E' : enc_step numeric e encr (TRef name) v
                   = match lookup name e with Some t' => encr t' v | None => Err EUnmodelled end)
        by (destruct v; reflexivity).
      rewrite E, E'. destruct (lookup name e) as [t'|]; [|reflexivity]. cbn [obind]. apply IH; assumption.
    - cbn [ok_step conf_step] in *.
      assert (E : x_step numeric e specr (TTag tg t) v = specr t v) by (destruct v; reflexivity).
      assert (E' : enc_step numeric e encr (TTag tg t) v = encr t v) by (destruct v; reflexivity).
      rewrite E, E'. apply IH; assumption.
  Qed.
End RStepAll.

(** * The theorems *)
Theorem oer_refines_x696 numeric e : forall fuel t v,
  in_scope numeric fuel e t v = true ->
  x696_encode numeric fuel e t v = to_opt (oer_encode numeric fuel e t v).
Proof.
  unfold in_scope. induction fuel as [|f IHf]; intros t v H; [discriminate|].
  apply andb_prop in H. destruct H as [Hok Hc].
  cbn [x696_encode oer_encode oer_ok x_conf] in *.
  apply (x_step_spec numeric e _ _ (oer_ok numeric f e) (x_conf f e)); [|exact Hok|exact Hc].
  intros t' v' Hok' Hc'. apply IHf. rewrite Hok', Hc'. reflexivity.
Qed.

(** the decoder accepts the specification's octets *)
Theorem oer_dec_accepts numeric fuel e t v bs :
  in_scope numeric fuel e t v = true ->
  x696_encode numeric fuel e t v = Some bs ->
  forall tail, oer_decode numeric fuel e t (bs ++ tail) = Ok (oer_norm fuel e t v, length bs).
Proof.
  intros Hs Hx. rewrite (oer_refines_x696 _ _ _ _ _ Hs) in Hx.
  unfold in_scope in Hs. apply andb_prop in Hs. destruct Hs as [Hok _].
  destruct (oer_encode numeric fuel e t v) as [bs'|] eqn:E; [|discriminate].
  cbn [to_opt] in Hx. injection Hx as ->.
  apply oer_roundtrip; assumption.
Qed.
