(** Re-encoding the decoder's output reproduces the octets:
    [oer_reencode : enc (norm v) = enc v] on [oer_ok] and [oer_canon].

    [oer_canon] adds two conditions that the statement really needs:
      - member identifiers of a SEQUENCE/SET are distinct (X.680 25.4; the
        normalised value is re-keyed by identifier);
      - a value supplied for a DEFAULT root member that differs from the
        default must still differ after normalisation.  Without it the
        statement is false: a BIT STRING equal to the default except for
        garbage in the unused bits is encoded (presence bit 1), decoded to the
        cleaned value = the default, and re-encoded as absent
        ([oer_reencode_needs_canon]). *)
From Asn1V Require Import Base.Prelude Syntax.Asn1.
From Asn1V Require Import Oer.OerPrim Oer.OerImpl Oer.OerScope.
From Asn1V Require Import Oer.OerPrimProofs Oer.OerPrimProofs2 Oer.OerProofs.
Open Scope Z_scope.

Fixpoint nodup_names (l : list string) : bool :=
  match l with
  | [] => true
  | x :: r => negb (existsb (String.eqb x) r) && nodup_names r
  end.

Section Canon.
  Context (e : env) (normr : ty -> value -> value) (rec : ty -> value -> bool).

  Fixpoint canon_root (ms : list (member_of ty)) (fs : list (string * value)) : bool :=
    match ms with
    | [] => true
    | m :: ms' =>
      match lookup (m_name m) fs, m_opt m with
      | Some v, Default d =>
        (value_eqb v d || (negb (value_eqb (normr (m_ty m) v) d) && rec (m_ty m) v)) && canon_root ms' fs
      | Some v, _ => rec (m_ty m) v && canon_root ms' fs
      | None, _ => canon_root ms' fs
      end
    end.

  Fixpoint canon_adds (ms : list (member_of ty)) (fs : list (string * value)) : bool :=
    match ms with
    | [] => true
    | m :: ms' =>
      match lookup (m_name m) fs with
      | Some v => rec (m_ty m) v && canon_adds ms' fs
      | None => canon_adds ms' fs
      end
    end.

  Definition canon_step (t : ty) (v : value) : bool :=
    match t, v with
    | TSeq _ root ext, VSeq fs =>
      let flat := match ext with Some adds => flat_adds adds | None => [] end in
      nodup_names (map m_name (root ++ flat)) && canon_root root fs && canon_adds flat fs
    | TSeqOf _ t' _, VList vs => forallb (rec t') vs
    | TChoice root ext, VChoice n v' =>
      match find_member n (root ++ match ext with Some x => x | None => [] end) with
      | Some m => rec (m_ty m) v'
      | None => false
      end
    | TRef n, _ => match lookup n e with Some t' => rec t' v | None => false end
    | TTag _ t', _ => rec t' v
    | _, _ => true
    end.
End Canon.

Fixpoint oer_canon (fuel : nat) (e : env) (t : ty) (v : value) : bool :=
  match fuel with
  | O => false
  | S f => canon_step e (oer_norm f e) (oer_canon f e) t v
  end.

(** * [value_eqb] is reflexive *)
Lemma value_eqb_refl : forall v, value_eqb v v = true.
Proof.
  fix IH 1. intros v. destruct v; cbn [value_eqb].
  - destruct b; reflexivity.
  - apply Z.eqb_refl.
  - reflexivity.
  - apply String.eqb_refl.
  - rewrite zlist_eqb_refl, Z.eqb_refl. reflexivity.
  - apply zlist_eqb_refl.
  - apply zlist_eqb_refl.
  - apply zlist_eqb_refl.
  - induction fields as [|[n v] fs IHfs]; [reflexivity|].
    rewrite String.eqb_refl, IH, IHfs. reflexivity.
  - induction vs as [|v vs IHvs]; [reflexivity|]. rewrite IH, IHvs. reflexivity.
  - rewrite String.eqb_refl, IH. reflexivity.
  - reflexivity.
Qed.

(** * BIT STRING payload is a fixed point *)
Lemma bits_payload_idem data n payload unused cnt :
  (0 <=? n) && (negb (n mod 8 =? 0) || (n / 8 <=? Z.of_nat (length data))) = true ->
  bits_payload data n = Ok (payload, unused, cnt) ->
  bits_payload payload n = Ok (payload, unused, cnt).
Proof.
  unfold bits_payload. intros Hok H. destruct (n <? 0) eqn:E0; [discriminate|].
  destruct (n mod 8 =? 0) eqn:E1.
  - inv_eq H. cbn [negb orb] in Hok. rewrite firstn_firstn. rewrite Nat.min_id. reflexivity.
  - destruct (nth_error data (Z.to_nat (n / 8))) as [last|] eqn:E2; [|discriminate]. inv_eq H.
    assert (Hlt : (Z.to_nat (n / 8) < length data)%nat) by (apply nth_error_Some; congruence).
    assert (Hl : length (firstn (Z.to_nat (n / 8)) data) = Z.to_nat (n / 8)) by (apply firstn_length_le; lia).
    rewrite nth_error_app2 by lia. rewrite Hl, Nat.sub_diag. cbn [nth_error].
    rewrite firstn_app, Hl, Nat.sub_diag. cbn [firstn]. rewrite app_nil_r.
    rewrite firstn_all2 by lia.
    rewrite <- Z.land_assoc, Z.land_diag. reflexivity.
Qed.

(** * Looking members up in the normalised field list *)
Lemma lookup_app {A} n (l1 l2 : list (string * A)) :
  lookup n (l1 ++ l2) = match lookup n l1 with Some a => Some a | None => lookup n l2 end.
Proof.
  induction l1 as [|[k a] l1 IH]; cbn [app lookup]; [reflexivity|].
  destruct (String.eqb n k); [reflexivity|exact IH].
Qed.

Lemma existsb_eqb_false x (l : list string) : existsb (String.eqb x) l = false -> ~ In x l.
Proof.
  intros H Hin. rewrite <- not_true_iff_false in H. apply H. apply existsb_exists.
  exists x. split; [exact Hin|apply String.eqb_refl].
Qed.

Section Lookup.
  Variable normr : ty -> value -> value.

  Lemma lookup_norm_root_notin n ms fs :
    ~ In n (map m_name ms) -> lookup n (norm_root normr ms fs) = None.
  Proof.
    induction ms as [|m ms IH]; intros Hn; [reflexivity|].
    cbn [map In] in Hn. cbn [norm_root].
    assert (Hne : String.eqb n (m_name m) = false).
    { destruct (String.eqb n (m_name m)) eqn:E; [|reflexivity]. apply String.eqb_eq in E.
      exfalso. apply Hn. left. symmetry. exact E. }
    destruct (lookup (m_name m) fs) as [v|]; destruct (m_opt m) as [| |d]; cbn [lookup]; rewrite ?Hne;
      apply IH; intros Hin; apply Hn; right; exact Hin.
  Qed.

  Lemma lookup_norm_adds_notin n ms fs :
    ~ In n (map m_name ms) -> lookup n (norm_adds normr ms fs) = None.
  Proof.
    induction ms as [|m ms IH]; intros Hn; [reflexivity|].
    cbn [map In] in Hn. cbn [norm_adds].
    assert (Hne : String.eqb n (m_name m) = false).
    { destruct (String.eqb n (m_name m)) eqn:E; [|reflexivity]. apply String.eqb_eq in E.
      exfalso. apply Hn. left. symmetry. exact E. }
    destruct (lookup (m_name m) fs) as [v|]; cbn [lookup]; rewrite ?Hne;
      apply IH; intros Hin; apply Hn; right; exact Hin.
  Qed.

  Definition nfield_root (m : member_of ty) (fs : list (string * value)) : option value :=
    match lookup (m_name m) fs, m_opt m with
    | Some v, Default d => Some (if value_eqb v d then d else normr (m_ty m) v)
    | Some v, _ => Some (normr (m_ty m) v)
    | None, Default d => Some d
    | None, _ => None
    end.

  Lemma lookup_norm_root_in ms : forall m fs,
    nodup_names (map m_name ms) = true -> In m ms ->
    lookup (m_name m) (norm_root normr ms fs) = nfield_root m fs.
  Proof.
    induction ms as [|m0 ms IH]; intros m fs Hnd Hin; [destruct Hin|].
    cbn [map nodup_names] in Hnd. apply andb_prop in Hnd. destruct Hnd as [Hx Hnd].
    apply negb_true_iff in Hx. apply existsb_eqb_false in Hx.
    destruct Hin as [<-|Hin].
    - unfold nfield_root. cbn [norm_root].
      destruct (lookup (m_name m0) fs) as [v|]; destruct (m_opt m0) as [| |d]; cbn [lookup];
        rewrite ?String.eqb_refl; try reflexivity; apply lookup_norm_root_notin; exact Hx.
    - assert (Hne : String.eqb (m_name m) (m_name m0) = false).
      { destruct (String.eqb (m_name m) (m_name m0)) eqn:E; [|reflexivity].
        apply String.eqb_eq in E. exfalso. apply Hx. rewrite <- E. apply in_map. exact Hin. }
      cbn [norm_root].
      destruct (lookup (m_name m0) fs) as [v|]; destruct (m_opt m0) as [| |d]; cbn [lookup];
        rewrite ?Hne; apply IH; assumption.
  Qed.

  Lemma lookup_norm_adds_in ms : forall m fs,
    nodup_names (map m_name ms) = true -> In m ms ->
    lookup (m_name m) (norm_adds normr ms fs) =
    match lookup (m_name m) fs with Some v => Some (normr (m_ty m) v) | None => None end.
  Proof.
    induction ms as [|m0 ms IH]; intros m fs Hnd Hin; [destruct Hin|].
    cbn [map nodup_names] in Hnd. apply andb_prop in Hnd. destruct Hnd as [Hx Hnd].
    apply negb_true_iff in Hx. apply existsb_eqb_false in Hx.
    destruct Hin as [<-|Hin].
    - cbn [norm_adds]. destruct (lookup (m_name m0) fs) as [v|]; cbn [lookup];
        rewrite ?String.eqb_refl; [reflexivity|]. apply lookup_norm_adds_notin. exact Hx.
    - assert (Hne : String.eqb (m_name m) (m_name m0) = false).
      { destruct (String.eqb (m_name m) (m_name m0)) eqn:E; [|reflexivity].
        apply String.eqb_eq in E. exfalso. apply Hx. rewrite <- E. apply in_map. exact Hin. }
      cbn [norm_adds]. destruct (lookup (m_name m0) fs) as [v|]; cbn [lookup]; rewrite ?Hne; apply IH; assumption.
  Qed.
End Lookup.

Lemma nodup_names_app l1 l2 :
  nodup_names (l1 ++ l2) = true ->
  nodup_names l1 = true /\ nodup_names l2 = true /\ (forall x, In x l1 -> ~ In x l2).
Proof.
  induction l1 as [|x l1 IH]; cbn [app nodup_names]; intros H.
  - split; [reflexivity|]. split; [exact H|]. intros x [].
  - apply andb_prop in H. destruct H as [Hx H]. apply negb_true_iff in Hx.
    destruct (IH H) as [N1 [N2 D]]. apply existsb_eqb_false in Hx.
    split.
    + apply andb_true_intro. split; [|exact N1]. apply negb_true_iff.
      destruct (existsb (String.eqb x) l1) eqn:E; [|reflexivity].
      exfalso. apply existsb_exists in E. destruct E as [y [Hy E]]. apply String.eqb_eq in E. subst y.
      apply Hx. apply in_or_app. left. exact Hy.
    + split; [exact N2|]. intros y [<-|Hy] Hin.
      * apply Hx. apply in_or_app. right. exact Hin.
      * exact (D y Hy Hin).
Qed.

(** * One step *)
Section RStep.
  Variables (numeric : bool) (e : env).
  Variables (encr : ty -> value -> result (list Z)) (okr canr : ty -> value -> bool).
  Variables (normr : ty -> value -> value).
  Hypothesis IH : forall t v bs,
      okr t v = true -> canr t v = true -> encr t v = Ok bs -> encr t (normr t v) = Ok bs.

  (** the field list [N] answers every member of [ms] like the normalised view of [fs] *)
  Lemma reenc_root ms : forall fs N r,
    (forall m, In m ms -> lookup (m_name m) N = nfield_root normr m fs) ->
    ok_root okr ms fs = true -> canon_root normr canr ms fs = true ->
    enc_root encr ms fs = Ok r -> enc_root encr ms N = Ok r.
  Proof.
    induction ms as [|m ms IHms]; intros fs N r HN Hok Hc H; [exact H|].
    cbn [enc_root ok_root canon_root] in *.
    rewrite (HN m (or_introl eq_refl)). unfold nfield_root.
    assert (HN' : forall m', In m' ms -> lookup (m_name m') N = nfield_root normr m' fs)
      by (intros m' Hin; apply HN; right; exact Hin).
    destruct (lookup (m_name m) fs) as [v|]; destruct (m_opt m) as [| |d].
    - apply andb_prop in Hok. destruct Hok as [Hv Hok]. apply andb_prop in Hc. destruct Hc as [Cv Hc].
      bind_inv H b Eb. bind_inv H r' Er. rewrite (IH _ _ _ Hv Cv Eb). cbn [bind].
      rewrite (IHms _ _ _ HN' Hok Hc Er). exact H.
    - apply andb_prop in Hok. destruct Hok as [Hv Hok]. apply andb_prop in Hc. destruct Hc as [Cv Hc].
      bind_inv H b Eb. bind_inv H r' Er. rewrite (IH _ _ _ Hv Cv Eb). cbn [bind].
      rewrite (IHms _ _ _ HN' Hok Hc Er). exact H.
    - apply andb_prop in Hok. destruct Hok as [Hv Hok]. apply andb_prop in Hc. destruct Hc as [Cv Hc].
      destruct (value_eqb v d) eqn:Ed.
      + rewrite value_eqb_refl. bind_inv H r' Er. rewrite (IHms _ _ _ HN' Hok Hc Er). exact H.
      + cbn [orb] in Hv, Cv. apply andb_prop in Cv. destruct Cv as [Cn Cv]. apply negb_true_iff in Cn.
        rewrite Cn. bind_inv H b Eb. bind_inv H r' Er. rewrite (IH _ _ _ Hv Cv Eb). cbn [bind].
        rewrite (IHms _ _ _ HN' Hok Hc Er). exact H.
    - discriminate.
    - bind_inv H r' Er. rewrite (IHms _ _ _ HN' Hok Hc Er). exact H.
    - rewrite value_eqb_refl. bind_inv H r' Er. rewrite (IHms _ _ _ HN' Hok Hc Er). exact H.
  Qed.

  Lemma reenc_adds ms : forall fs N r,
    (forall m, In m ms -> lookup (m_name m) N =
                          match lookup (m_name m) fs with Some v => Some (normr (m_ty m) v) | None => None end) ->
    ok_adds okr ms fs = true -> canon_adds canr ms fs = true ->
    enc_adds encr ms fs = Ok r -> enc_adds encr ms N = Ok r.
  Proof.
    induction ms as [|m ms IHms]; intros fs N r HN Hok Hc H; [exact H|].
    cbn [enc_adds ok_adds canon_adds] in *. rewrite (HN m (or_introl eq_refl)).
    assert (HN' : forall m', In m' ms -> lookup (m_name m') N =
              match lookup (m_name m') fs with Some v => Some (normr (m_ty m') v) | None => None end)
      by (intros m' Hin; apply HN; right; exact Hin).
    destruct (lookup (m_name m) fs) as [v|].
    - apply andb_prop in Hok. destruct Hok as [Hv Hok]. apply andb_prop in Hc. destruct Hc as [Cv Hc].
      bind_inv H b Eb. bind_inv H r' Er. rewrite (IH _ _ _ Hv Cv Eb). cbn [bind].
      rewrite (IHms _ _ _ HN' Hok Hc Er). exact H.
    - bind_inv H r' Er. rewrite (IHms _ _ _ HN' Hok Hc Er). exact H.
  Qed.

  Lemma reenc_seq root ext fs bs :
    let flat := match ext with Some adds => flat_adds adds | None => [] end in
    nodup_names (map m_name (root ++ flat)) = true ->
    ok_root okr root fs = true -> ok_adds okr flat fs = true ->
    canon_root normr canr root fs = true -> canon_adds canr flat fs = true ->
    enc_seq encr root ext fs = Ok bs ->
    enc_seq encr root ext (norm_root normr root fs ++ norm_adds normr flat fs) = Ok bs.
  Proof.
    intros flat Hnd Hr Ha Cr Ca H.
    rewrite map_app in Hnd. destruct (nodup_names_app _ _ Hnd) as [Nr [Na Dis]].
    set (N := norm_root normr root fs ++ norm_adds normr flat fs).
    assert (HNr : forall m, In m root -> lookup (m_name m) N = nfield_root normr m fs).
    { intros m Hin. unfold N. rewrite lookup_app. rewrite (lookup_norm_root_in normr root m fs Nr Hin).
      destruct (nfield_root normr m fs) eqn:E; [reflexivity|].
      apply lookup_norm_adds_notin. apply Dis. apply in_map. exact Hin. }
    assert (HNa : forall m, In m flat -> lookup (m_name m) N =
              match lookup (m_name m) fs with Some v => Some (normr (m_ty m) v) | None => None end).
    { intros m Hin. unfold N. rewrite lookup_app.
      rewrite lookup_norm_root_notin.
      - apply lookup_norm_adds_in; assumption.
      - intros Hc. apply (Dis _ Hc). apply in_map. exact Hin. }
    unfold enc_seq in *. bind_inv H r Er. rewrite (reenc_root root fs N r HNr Hr Cr Er). cbn [bind].
    destruct r as [bits body]. destruct ext as [adds|]; [|exact H].
    fold flat in H |- *. destruct flat as [|m0 fl] eqn:Ef; [exact H|]. rewrite <- Ef in *.
    bind_inv H r2 Er2. rewrite (reenc_adds flat fs N r2 HNa Ha Ca Er2). cbn [bind]. exact H.
  Qed.

  Lemma reenc_list t vs : forall bs,
    forallb (okr t) vs = true -> forallb (canr t) vs = true ->
    enc_list encr t vs = Ok bs -> enc_list encr t (map (normr t) vs) = Ok bs.
  Proof.
    induction vs as [|v vs IHvs]; intros bs Hok Hc H; [exact H|].
    cbn [forallb map enc_list] in *. apply andb_prop in Hok. destruct Hok as [Hv Hok].
    apply andb_prop in Hc. destruct Hc as [Cv Hc].
    bind_inv H b Eb. bind_inv H r Er. rewrite (IH _ _ _ Hv Cv Eb). cbn [bind].
    rewrite (IHvs _ Hok Hc eq_refl). exact H.
  Qed.

  Lemma reenc_step t v bs :
    ok_step numeric e okr t v = true -> canon_step e normr canr t v = true ->
    enc_step numeric e encr t v = Ok bs ->
    enc_step numeric e encr t (norm_step e normr t v) = Ok bs.
  Proof.
    intros Hok Hc H. destruct t.
    - destruct v; exact H.
    - destruct v; exact H.
    - destruct v; exact H.
    - destruct v; exact H.
    - (* BIT STRING *)
      destruct v; try exact H. cbn [norm_step enc_step ok_step] in *.
      unfold bits_ok in Hok. apply andb_prop in Hok. destruct Hok as [Hok _].
      unfold enc_bits in *.
      destruct (bits_payload bytes nbits) as [[[payload unused] cnt]|] eqn:E; [|discriminate].
      cbn [enc_step]. unfold enc_bits. rewrite (bits_payload_idem _ _ _ _ _ Hok E). exact H.
    - destruct v; exact H.
    - destruct v; exact H.
    - destruct v; exact H.
    - (* SEQUENCE / SET *)
      destruct v; try (destruct isset; exact H).
      cbn [ok_step canon_step norm_step] in *.
      apply andb_prop in Hok. destruct Hok as [Hr Ha].
      apply andb_prop in Hc. destruct Hc as [Hc Ca]. apply andb_prop in Hc. destruct Hc as [Hnd Cr].
      assert (Ha' : ok_adds okr (match ext with Some adds => flat_adds adds | None => [] end) fields = true)
        by (destruct ext; [exact Ha|reflexivity]).
      pose proof (reenc_seq root ext fields bs Hnd Hr Ha' Cr Ca) as G. cbv zeta in G.
      assert (E : norm_root normr root fields ++ match ext with Some adds => norm_adds normr (flat_adds adds) fields | None => [] end
                  = norm_root normr root fields ++ norm_adds normr (match ext with Some adds => flat_adds adds | None => [] end) fields)
        by (destruct ext; reflexivity).
      rewrite E. destruct isset; cbn [enc_step] in *.
      + destruct (existsb (fun m => is_tagged (m_ty m)) root); [discriminate|]. apply G. exact H.
      + apply G. exact H.
    - (* SEQUENCE OF *)
      destruct v; try exact H. cbn [norm_step enc_step ok_step canon_step] in *.
      rewrite map_length. bind_inv H q Equ. bind_inv H b Eb. rewrite (reenc_list _ _ _ Hok Hc Eb). exact H.
    - (* CHOICE *)
      destruct v; try exact H. cbn [norm_step enc_step ok_step canon_step] in *.
      unfold ok_choice in Hok. apply andb_prop in Hok. destruct Hok as [_ Hm].
      set (extl := match ext with Some x => x | None => [] end) in *.
      destruct (find_member alt (root ++ extl)) as [m|] eqn:Fm; [|discriminate].
      cbn [enc_step]. unfold enc_choice in *. fold extl in H |- *.
      rewrite find_member_app in Fm.
      destruct (find_alt alt (alt_tags (choice_auto root ext) 0 root)) as [[[tg|] m']|] eqn:Ef.
      + destruct (find_alt_some _ _ _ _ _ _ Ef) as [F1 _]. rewrite F1 in Fm. injection Fm as <-.
        bind_inv H b Eb. rewrite (IH _ _ _ Hm Hc Eb). exact H.
      + discriminate.
      + rewrite (find_alt_none _ _ _ _ Ef) in Fm.
        destruct (find_alt alt (alt_tags (choice_auto root ext) (Z.of_nat (length root)) extl)) as [[[tg|] m']|] eqn:Ef2;
          try discriminate.
        destruct (find_alt_some _ _ _ _ _ _ Ef2) as [F2 _]. rewrite F2 in Fm. injection Fm as <-.
        bind_inv H b Eb. rewrite (IH _ _ _ Hm Hc Eb). exact H.
    - (* reference *)
      cbn [ok_step canon_step] in *.
      assert (E1 : forall w, enc_step numeric e encr (TRef name) w
                   = match lookup name e with Some t' => encr t' w | None => Err EUnmodelled end)
        by (intros w; destruct w; reflexivity).
      assert (E2 : norm_step e normr (TRef name) v = match lookup name e with Some t' => normr t' v | None => v end)
        by (destruct v; reflexivity).
      rewrite E1 in *. rewrite E2. destruct (lookup name e) as [t'|]; [|discriminate]. apply IH; assumption.
    - (* tag *)
      cbn [ok_step canon_step] in *.
      assert (E1 : forall w, enc_step numeric e encr (TTag tg t) w = encr t w) by (intros w; destruct w; reflexivity).
      assert (E2 : norm_step e normr (TTag tg t) v = normr t v) by (destruct v; reflexivity).
      rewrite E1 in *. rewrite E2. apply IH; assumption.
  Qed.
End RStep.

Theorem oer_reencode numeric e : forall fuel t v bs,
  oer_ok numeric fuel e t v = true -> oer_canon fuel e t v = true ->
  oer_encode numeric fuel e t v = Ok bs ->
  oer_encode numeric fuel e t (oer_norm fuel e t v) = Ok bs.
Proof.
  induction fuel as [|f IHf]; intros t v bs Hok Hc H; [discriminate|].
  cbn [oer_ok oer_canon oer_encode oer_norm] in *.
  eapply reenc_step; [exact IHf|exact Hok|exact Hc|exact H].
Qed.

(** the second conjunct of [oer_canon] is needed *)
Definition canon_ty :=
  TSeq false [("b"%string, TBits None SzNone, Default (VBits [160] 3))] None.
Definition canon_val := VSeq [("b"%string, VBits [167] 3)].
Lemma oer_reencode_needs_canon :
  oer_ok false 3 [] canon_ty canon_val = true /\
  oer_canon 3 [] canon_ty canon_val = false /\
  oer_encode false 3 [] canon_ty canon_val = Ok (hex "800205a0") /\
  oer_norm 3 [] canon_ty canon_val = VSeq [("b"%string, VBits [160] 3)] /\
  oer_encode false 3 [] canon_ty (oer_norm 3 [] canon_ty canon_val) = Ok (hex "00").
Proof. repeat split; vm_compute; reflexivity. Qed.
