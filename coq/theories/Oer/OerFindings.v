(** The recorded finding regions, each with a concrete witness on which the
    implementation model (which follows the library) and the X.696
    specification model disagree.  known_findings/C06.json replays the same
    witnesses on /repo.  These are the conjuncts that [in_scope] excludes. *)
From Asn1V Require Import Base.Prelude Syntax.Asn1 Oer.OerPrim Oer.OerImpl Oer.OerScope Oer.X696 Oer.X696Scope.
Open Scope Z_scope.
Open Scope string_scope.

(** UTF8String (SIZE(5)): encoded without length determinant by character
    count; X.696 always length-prefixes UTF8String.  The five characters
    "a" U+00E5 "bcd" take six octets, the decoder reads five. *)
Definition utf8_fixed_ty := TStr SkUTF8 (SzRange 5 (Some 5) false) None.
Definition utf8_fixed_val := VStr [97; 229; 98; 99; 100].
Lemma oer_utf8_fixed_size_refuted :
  oer_encode false 3 [] utf8_fixed_ty utf8_fixed_val = Ok (hex "61c3a5626364") /\
  x696_encode false 3 [] utf8_fixed_ty utf8_fixed_val = Some (hex "0661c3a5626364") /\
  oer_decode false 3 [] utf8_fixed_ty (hex "61c3a5626364") = Ok (VStr [97; 229; 98; 99], 5%nat) /\
  oer_ok false 3 [] utf8_fixed_ty utf8_fixed_val = false.
Proof. repeat split; vm_compute; reflexivity. Qed.

(** Addition groups: the library gives every member of [[ b, c ]] its own
    presence bit and length prefix; X.696 encodes the group as one SEQUENCE. *)
Definition group_ty :=
  TSeq false [("a", TBool, Mandatory)]
       (Some [(true, [("b", TInt IcNone, Mandatory); ("c", TInt IcNone, Mandatory)])]).
Definition group_val := VSeq [("a", VBool true); ("b", VInt 1); ("c", VInt 2)].
Lemma oer_addition_groups_refuted :
  oer_encode false 3 [] group_ty group_val = Ok (hex "80ff0206c0020101020102") /\
  x696_encode false 4 [] group_ty group_val = Some (hex "80ff0207800401010102") /\
  x_conf 3 [] group_ty group_val = false.
Proof. repeat split; vm_compute; reflexivity. Qed.

(** [UNIVERSAL n] on a CHOICE alternative: Type.set_tag forces the context class. *)
Definition univ_ty :=
  TChoice [("a", TTag (mkTag Univ 5 false) TBool, Mandatory); ("b", TTag (mkTag Ctx 1 false) TBool, Mandatory)] None.
Definition univ_val := VChoice "a" (VBool true).
Lemma oer_universal_class_tag_refuted :
  oer_encode false 3 [] univ_ty univ_val = Ok (hex "85ff") /\
  x696_encode false 3 [] univ_ty univ_val = Some (hex "05ff") /\
  x_conf 3 [] univ_ty univ_val = false.
Proof. repeat split; vm_compute; reflexivity. Qed.

(** Sender's option, not a defect: an addition supplied with its DEFAULT value
    is encoded by the library; the canonical form omits it. *)
Definition dflt_ty :=
  TSeq false [("a", TBool, Mandatory)] (Some [(false, [("b", TInt IcNone, Default (VInt 7))])]).
Definition dflt_val := VSeq [("a", VBool false); ("b", VInt 7)].
Lemma oer_default_in_addition_not_canonical :
  oer_encode false 3 [] dflt_ty dflt_val = Ok (hex "8000020780020107") /\
  x696_encode false 3 [] dflt_ty dflt_val = Some (hex "0000") /\
  x_conf 3 [] dflt_ty dflt_val = false.
Proof. repeat split; vm_compute; reflexivity. Qed.
