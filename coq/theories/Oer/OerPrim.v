(** Primitive layer of the OER implementation model (asn1tools/codecs/oer.py,
    classes [Encoder] and [Decoder], lines 48-293, plus [encode_tag] 30-45 and
    the OBJECT IDENTIFIER helpers of ber.py 412-466).

    Representation.  The Python encoder accumulates one big integer and a bit
    count; every [Type.encode] of oer.py appends whole octets except the
    SEQUENCE preamble / presence bitmap, which are followed by [align()].  The
    model therefore works on octet lists ([list Z], every element a byte) and
    represents the two bit fields as [list bool] packed MSB first
    ([pack_bits]).  The Python decoder keeps (value, number_of_bits); the
    model decoder is a function from the remaining octets to a result and the
    remaining octets ([dec A]).  Python partiality is explicit: negative
    counts reaching a shift raise ValueError, indexing raises IndexError,
    running off the data raises OutOfDataError. *)
From Asn1V Require Import Base.Prelude.

Open Scope Z_scope.

(** * Decoder monad over the remaining octets *)
Definition dec (A : Type) : Type := list Z -> result (A * list Z).
Definition dret {A} (a : A) : dec A := fun bs => Ok (a, bs).
Definition dfail {A} (e : err) : dec A := fun _ => Err e.
Definition dbind {A B} (m : dec A) (f : A -> dec B) : dec B :=
  fun bs => match m bs with Ok (a, r) => f a r | Err e => Err e end.
Notation "'dlet' x ':=' m 'in' k" := (dbind m (fun x => k))
  (at level 200, x pattern, m at level 100, k at level 200).

(** * Integers as octets *)

(** int.bit_length() for v >= 0 *)
Definition bit_length (v : Z) : Z := if v <=? 0 then 0 else Z.log2 v + 1.

(** [n] octets, big endian, of [v mod 256^n]; for negative [v] this is the
    two's complement on [n] octets (floor division). *)
Fixpoint be_bytes (n : nat) (v : Z) : list Z :=
  match n with
  | O => []
  | S k => (v / 256 ^ Z.of_nat k) mod 256 :: be_bytes k v
  end.

(** number of octets of the minimal unsigned form: (max(bit_length,1)+7)//8 *)
Definition ulen (v : Z) : Z := (Z.max (bit_length v) 1 + 7) / 8.

(** Encoder.append_length_determinant *)
Definition len_det (n : Z) : result (list Z) :=
  if n <? 128 then Ok [n]
  else
    let k := (bit_length n + 7) / 8 in
    if 127 <? k then Err EEncode
    else Ok ((128 + k) :: be_bytes (Z.to_nat k) n).

(** Encoder.append_unsigned_integer (value >= 0) *)
Definition enc_uint_var (v : Z) : result (list Z) :=
  let k := ulen v in
  let* ld := len_det k in Ok (ld ++ be_bytes (Z.to_nat k) v).

(** number of octets chosen by Encoder.append_integer *)
Definition slen (v : Z) : Z :=
  if v <? 0 then
    let nb := (bit_length (- v) + 7) / 8 in
    if 2 ^ (8 * nb - 1) <=? 2 ^ (8 * nb) + v then nb else nb + 1
  else if 0 <? v then
    let nb := (bit_length v + 7) / 8 in
    if bit_length v =? 8 * nb then nb + 1 else nb
  else 1.

(** Encoder.append_integer *)
Definition enc_sint_var (v : Z) : result (list Z) :=
  let k := slen v in
  let* ld := len_det k in Ok (ld ++ be_bytes (Z.to_nat k) v).

(** struct.pack('>B/H/I/Q', v) and ('>b/h/i/q', v): struct.error outside the range *)
Definition enc_fixed_u (n : Z) (v : Z) : result (list Z) :=
  if (0 <=? v) && (v <? 2 ^ (8 * n)) then Ok (be_bytes (Z.to_nat n) v)
  else Err (EForeign "error"%string).
Definition enc_fixed_s (n : Z) (v : Z) : result (list Z) :=
  if (- 2 ^ (8 * n - 1) <=? v) && (v <? 2 ^ (8 * n - 1)) then Ok (be_bytes (Z.to_nat n) v)
  else Err (EForeign "error"%string).

(** * Bit fields (preamble, presence bitmap): MSB first, zero padded *)
Fixpoint bits_value (acc : Z) (bs : list bool) : Z :=
  match bs with [] => acc | b :: r => bits_value (2 * acc + (if b then 1 else 0)) r end.

Definition byte_of_bits (b7 b6 b5 b4 b3 b2 b1 b0 : bool) : Z :=
  bits_value 0 [b7; b6; b5; b4; b3; b2; b1; b0].

Fixpoint pack_bits (bs : list bool) : list Z :=
  match bs with
  | [] => []
  | b7 :: b6 :: b5 :: b4 :: b3 :: b2 :: b1 :: b0 :: r =>
    byte_of_bits b7 b6 b5 b4 b3 b2 b1 b0 :: pack_bits r
  | _ => [bits_value 0 (bs ++ repeat false (8 - length bs))]
  end.

Definition bits_of_byte (b : Z) : list bool :=
  [Z.testbit b 7; Z.testbit b 6; Z.testbit b 5; Z.testbit b 4;
   Z.testbit b 3; Z.testbit b 2; Z.testbit b 1; Z.testbit b 0].
Definition unpack_bits (bs : list Z) : list bool := flat_map bits_of_byte bs.

(** * Decoder primitives *)

(** read_bits(8*n) / read_non_negative_binary_integer(8*n) / skip_bits(8*n):
    a negative count passes the length test and reaches [1 << n]. *)
Definition dec_take (n : Z) : dec (list Z) := fun bs =>
  if n <? 0 then Err (EForeign "ValueError"%string)
  else if Z.of_nat (length bs) <? n then Err EOutOfData
  else Ok (firstn (Z.to_nat n) bs, skipn (Z.to_nat n) bs).

Definition dec_byte : dec Z := fun bs =>
  match bs with [] => Err EOutOfData | b :: r => Ok (b, r) end.

(** Decoder.read_length_determinant *)
Definition dec_len : dec Z :=
  dlet b := dec_byte in
  if b <? 128 then dret b
  else dlet ds := dec_take (b - 128) in dret (be_value ds).

(** Decoder.read_unsigned_integer *)
Definition dec_uint_var : dec Z :=
  dlet n := dec_len in dlet ds := dec_take n in dret (be_value ds).

Definition to_signed (n : Z) (v : Z) : Z :=
  if 2 ^ (8 * n - 1) <=? v then v - 2 ^ (8 * n) else v.

(** Decoder.read_integer: [1 << (number_of_bits - 1)] with zero octets is a
    negative shift count. *)
Definition dec_sint_body (n : Z) : dec Z :=
  dlet ds := dec_take n in
  if n =? 0 then dfail (EForeign "ValueError"%string)
  else dret (to_signed n (be_value ds)).
Definition dec_sint_var : dec Z := dlet n := dec_len in dec_sint_body n.

Definition dec_fixed_u (n : Z) : dec Z := dlet ds := dec_take n in dret (be_value ds).
Definition dec_fixed_s (n : Z) : dec Z :=
  dlet ds := dec_take n in dret (to_signed n (be_value ds)).

(** [n] bits read one at a time followed by align(): the octets holding
    them are consumed, the first [n] bits returned. *)
Definition dec_bits (n : Z) : dec (list bool) :=
  if n <? 0 then dfail (EForeign "ValueError"%string)
  else dlet ds := dec_take ((n + 7) / 8) in dret (firstn (Z.to_nat n) (unpack_bits ds)).

(** * Tags (encode_tag, Decoder.read_tag) *)
Definition b128_len (v : Z) : Z := (Z.max (bit_length v) 1 + 6) / 7.
(** [n] base-128 digits, most significant first, continuation bit on all but the last *)
Fixpoint b128_digits (n : nat) (v : Z) : list Z :=
  match n with
  | O => []
  | S O => [v mod 128]
  | S k => (128 + (v / 128 ^ Z.of_nat k) mod 128) :: b128_digits k v
  end.

Definition encode_tag (number flags : Z) : list Z :=
  if number <? 63 then [flags + number]
  else (flags + 63) :: b128_digits (Z.to_nat (b128_len number)) number.

Fixpoint dec_tag_rest (bs : list Z) : result (list Z * list Z) :=
  match bs with
  | [] => Err EOutOfData
  | b :: r =>
    if b <? 128 then Ok ([b], r)
    else match dec_tag_rest r with Ok (t, r') => Ok (b :: t, r') | Err e => Err e end
  end.
Definition dec_tag : dec (list Z) :=
  dlet b := dec_byte in
  if b mod 64 =? 63 then dlet r := dec_tag_rest in dret (b :: r) else dret [b].

(** * Character strings *)
Definition EUnicodeEnc := EForeign "UnicodeEncodeError"%string.
Definition EUnicodeDec := EForeign "UnicodeDecodeError"%string.

Definition utf8_enc1 (c : Z) : result (list Z) :=
  if c <? 0 then Err EUnmodelled
  else if c <? 128 then Ok [c]
  else if c <? 2048 then Ok [192 + c / 64; 128 + c mod 64]
  else if c <? 65536 then
    if (55296 <=? c) && (c <=? 57343) then Err EUnicodeEnc
    else Ok [224 + c / 4096; 128 + (c / 64) mod 64; 128 + c mod 64]
  else if c <? 1114112 then
    Ok [240 + c / 262144; 128 + (c / 4096) mod 64; 128 + (c / 64) mod 64; 128 + c mod 64]
  else Err EUnmodelled.

Definition ascii_enc1 (c : Z) : result (list Z) :=
  if c <? 0 then Err EUnmodelled
  else if c <? 128 then Ok [c]
  else if c <? 1114112 then Err EUnicodeEnc else Err EUnmodelled.

Fixpoint enc_chars (f : Z -> result (list Z)) (cs : list Z) : result (list Z) :=
  match cs with
  | [] => Ok []
  | c :: r => let* a := f c in let* b := enc_chars f r in Ok (a ++ b)
  end.

Definition is_cont (b : Z) : bool := (128 <=? b) && (b <=? 191).

(** bytes.decode('utf-8'), strict *)
Fixpoint utf8_dec (bs : list Z) : result (list Z) :=
  match bs with
  | [] => Ok []
  | b0 :: r =>
    if b0 <? 128 then let* cs := utf8_dec r in Ok (b0 :: cs)
    else if b0 <? 194 then Err EUnicodeDec
    else if b0 <? 224 then
      match r with
      | b1 :: r1 =>
        if is_cont b1 then let* cs := utf8_dec r1 in Ok (((b0 - 192) * 64 + (b1 - 128)) :: cs)
        else Err EUnicodeDec
      | _ => Err EUnicodeDec
      end
    else if b0 <? 240 then
      match r with
      | b1 :: b2 :: r2 =>
        if is_cont b1 && is_cont b2
           && (negb (b0 =? 224) || (160 <=? b1)) && (negb (b0 =? 237) || (b1 <=? 159))
        then let* cs := utf8_dec r2 in
             Ok (((b0 - 224) * 4096 + (b1 - 128) * 64 + (b2 - 128)) :: cs)
        else Err EUnicodeDec
      | _ => Err EUnicodeDec
      end
    else if b0 <? 245 then
      match r with
      | b1 :: b2 :: b3 :: r3 =>
        if is_cont b1 && is_cont b2 && is_cont b3
           && (negb (b0 =? 240) || (144 <=? b1)) && (negb (b0 =? 244) || (b1 <=? 143))
        then let* cs := utf8_dec r3 in
             Ok (((b0 - 240) * 262144 + (b1 - 128) * 4096 + (b2 - 128) * 64 + (b3 - 128)) :: cs)
        else Err EUnicodeDec
      | _ => Err EUnicodeDec
      end
    else Err EUnicodeDec
  end.

Fixpoint ascii_dec (bs : list Z) : result (list Z) :=
  match bs with
  | [] => Ok []
  | b :: r => if b <? 128 then let* cs := ascii_dec r in Ok (b :: cs) else Err EUnicodeDec
  end.

(** * OBJECT IDENTIFIER contents (ber.encode_object_identifier / decode_object_identifier) *)
Definition EIndex := EForeign "IndexError"%string.

Definition enc_subid (v : Z) : list Z := b128_digits (Z.to_nat (b128_len v)) v.

Definition enc_oid (arcs : list Z) : result (list Z) :=
  if existsb (fun a => a <? 0) arcs then Err EUnmodelled
  else match arcs with
       | a0 :: a1 :: rest => Ok (enc_subid (40 * a0 + a1) ++ flat_map enc_subid rest)
       | _ => Err EIndex
       end.

(** the subidentifier loop: [data[offset]] past the end is an IndexError *)
Fixpoint dec_subids (acc : Z) (pending : bool) (bs : list Z) : result (list Z) :=
  match bs with
  | [] => if pending then Err EIndex else Ok []
  | b :: r =>
    if 128 <=? b then dec_subids ((acc + (b - 128)) * 128) true r
    else let* l := dec_subids 0 false r in Ok ((acc + b) :: l)
  end.

Definition dec_oid (bs : list Z) : result (list Z) :=
  match bs with
  | [] => Err EIndex
  | _ =>
    let* l := dec_subids 0 false bs in
    match l with
    | s :: rest => Ok ((if s <? 80 then [s / 40; s mod 40] else [2; s - 80]) ++ rest)
    | [] => Err EIndex   (* unreachable for non-empty input *)
    end
  end.

(** the arcs X.680/X.690 allow: first arc 0..2, second below 40 unless the first is 2 *)
Definition oid_ok (arcs : list Z) : bool :=
  match arcs with
  | a0 :: a1 :: _ =>
    forallb (fun a => 0 <=? a) arcs && (a0 <=? 2) && ((a0 =? 2) || (a1 <? 40))
  | _ => false
  end.

(** * Repetition: [for _ in range(n)] with early exit on the first error;
    binary recursion on the count so that a huge count costs nothing once
    an iteration has failed. *)
Fixpoint rep_pos {S} (p : positive) (f : S -> result S) (s : S) : result S :=
  match p with
  | xH => f s
  | xO q => let* s1 := rep_pos q f s in rep_pos q f s1
  | xI q => let* s0 := f s in let* s1 := rep_pos q f s0 in rep_pos q f s1
  end.
Definition rep_n {S} (n : Z) (f : S -> result S) (s : S) : result S :=
  match n with Zpos p => rep_pos p f s | _ => Ok s end.
