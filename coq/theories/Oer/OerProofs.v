(** Round trip and truncation for the OER model, by induction on the fuel:
    [oer_good] packages both as [good (oer_dec ...) bs (oer_norm ...)]. *)
From Asn1V Require Import Base.Prelude Syntax.Asn1.
From Asn1V Require Import Oer.OerPrim Oer.OerImpl Oer.OerScope Oer.OerPrimProofs Oer.OerPrimProofs2.
Open Scope Z_scope.

Ltac inv_ok H := apply Ok_inj in H; subst.
(** inversion of Ok/pair equalities without [injection] (which simplifies Z arithmetic away) *)
Ltac inv_eq H :=
  lazymatch type of H with
  | Ok ?a = Ok ?b =>
    let H' := fresh H in assert (H' : a = b) by congruence; clear H; inv_eq H'
  | (?a, ?b) = (?c, ?d) =>
    let H1 := fresh H in let H2 := fresh H in
    assert (H1 : a = c) by congruence; assert (H2 : b = d) by congruence; clear H;
    inv_eq H1; inv_eq H2
  | ?x = ?y => first [subst x | subst y | idtac]
  end.
Ltac bind_inv H x E :=
  match type of H with
  | bind ?A _ = Ok _ => destruct A as [x|] eqn:E; cbn [bind] in H; [|discriminate]
  end.

Lemma value_eqb_zlist a b : zlist_eqb a b = true -> a = b.
Proof.
  revert b. induction a as [|x a IH]; destruct b as [|y b]; cbn [zlist_eqb]; try discriminate; auto.
  intros H. apply andb_prop in H. destruct H as [H1 H2]. f_equal; [lia|auto].
Qed.

Lemma string_eqb_eq a b : String.eqb a b = true -> a = b.
Proof. apply String.eqb_eq. Qed.

(** [value_eqb] decides equality *)
Lemma value_eqb_eq : forall a b, value_eqb a b = true -> a = b.
Proof.
  fix IH 1. intros a b. destruct a; destruct b; cbn [value_eqb]; try discriminate; intros H.
  - f_equal. apply Bool.eqb_prop. exact H.
  - f_equal. lia.
  - reflexivity.
  - f_equal. apply string_eqb_eq. exact H.
  - apply andb_prop in H. destruct H as [H1 H2]. f_equal; [apply value_eqb_zlist; exact H1|lia].
  - f_equal. apply value_eqb_zlist. exact H.
  - f_equal. apply value_eqb_zlist. exact H.
  - f_equal. apply value_eqb_zlist. exact H.
  - f_equal. revert fields0 H. induction fields as [|[n v] fs IHfs]; intros [|[m w] gs] H; try discriminate.
    + reflexivity.
    + apply andb_prop in H. destruct H as [H H3]. apply andb_prop in H. destruct H as [H1 H2].
      f_equal; [f_equal; [apply string_eqb_eq; exact H1|apply IH; exact H2]|apply IHfs; exact H3].
  - f_equal. revert vs0 H. induction vs as [|v vs IHvs]; intros [|w ws] H; try discriminate.
    + reflexivity.
    + apply andb_prop in H. destruct H as [H1 H2]. f_equal; [apply IH; exact H1|apply IHvs; exact H2].
  - apply andb_prop in H. destruct H as [H1 H2]. f_equal; [apply string_eqb_eq; exact H1|apply IH; exact H2].
  - reflexivity.
Qed.

(** * Leaves *)
Lemma good_lift_ok {A} (a : A) : good (lift (Ok a)) [] a.
Proof. apply good_ret. Qed.

Lemma good_sized sz payload bs :
  size_ok sz (Z.of_nat (length payload)) = true ->
  enc_sized sz payload = Ok bs -> good (dec_sized sz) bs payload.
Proof.
  unfold size_ok, enc_sized, dec_sized. intros Hs H. destruct (fixed_size sz) as [s|].
  - inv_eq H. apply good_take'. lia.
  - bind_inv H ld E. inv_eq H.
    eapply good_bind; [apply (good_len (Z.of_nat (length payload))); [lia|exact E]|].
    apply good_take.
Qed.

Lemma good_int c z bs : enc_int c z = Ok bs -> good (dec_int c) bs z.
Proof.
  unfold enc_int, dec_int. intros H.
  destruct (int_form_of c) as [n|n| |] eqn:E.
  - apply good_fixed_u; [|exact H].
    unfold int_form_of in E. destruct c as [|[lo|] [hi|] [|]]; try discriminate.
    + destruct (0 <=? lo).
      * destruct (hi <? 256); [inversion E; lia|]. destruct (hi <? 65536); [inversion E; lia|].
        destruct (hi <? 4294967296); [inversion E; lia|].
        destruct (hi <? 18446744073709551616); [inversion E; lia|discriminate].
      * destruct (_ && _); [discriminate|]. destruct (_ && _); [discriminate|].
        destruct (_ && _); [discriminate|]. destruct (_ && _); discriminate.
    + destruct (lo <? 0); discriminate.
  - apply good_fixed_s; [|exact H].
    unfold int_form_of in E. destruct c as [|[lo|] [hi|] [|]]; try discriminate.
    + destruct (0 <=? lo).
      * destruct (hi <? 256); [discriminate|]. destruct (hi <? 65536); [discriminate|].
        destruct (hi <? 4294967296); [discriminate|].
        destruct (hi <? 18446744073709551616); discriminate.
      * destruct (_ && _); [inversion E; lia|]. destruct (_ && _); [inversion E; lia|].
        destruct (_ && _); [inversion E; lia|]. destruct (_ && _); [inversion E; lia|discriminate].
    + destruct (lo <? 0); discriminate.
  - destruct (z <? 0) eqn:Ez; [discriminate|]. apply good_uint_var; [lia|exact H].
  - apply good_sint_var. exact H.
Qed.

Definition dec_enum_value : dec Z :=
  dlet b := dec_byte in (if 128 <=? b then dec_sint_body (b - 128) else dret b).

Lemma good_enum_value z bs : enc_enum_value z = Ok bs -> good dec_enum_value bs z.
Proof.
  unfold enc_enum_value, dec_enum_value. intros H.
  destruct ((0 <=? z) && (z <=? 127)) eqn:E.
  - inv_eq H. rewrite <- (app_nil_r [z]). eapply good_bind; [apply good_byte|].
    destruct (128 <=? z) eqn:E1; [lia|]. apply good_ret.
  - pose proof (slen_pos z). pose proof (slen_spec z).
    destruct (128 <=? slen z) eqn:E1; [discriminate|]. inv_eq H.
    apply (good_bind dec_byte _ [128 + slen z] (be_bytes (Z.to_nat (slen z)) z) (128 + slen z));
      [apply good_byte|].
    destruct (128 <=? 128 + slen z) eqn:E2; [|lia].
    replace (128 + slen z - 128) with (slen z) by lia.
    apply good_sint_body; assumption.
Qed.

Lemma find_name_num n z items :
  nodup_z (map snd items) = true -> find_num n items = Some z -> find_name z items = Some n.
Proof.
  induction items as [|[k y] r IH]; cbn [map snd nodup_z find_num find_name]; [discriminate|].
  intros Hnd H. apply andb_prop in Hnd. destruct Hnd as [Hx Hnd].
  destruct (String.eqb n k) eqn:E.
  - injection H as ->. rewrite Z.eqb_refl.
    apply String.eqb_eq in E. congruence.
  - destruct (z =? y) eqn:E1.
    + exfalso. assert (z = y) by lia. subst y.
      assert (In z (map snd r)).
      { clear - H. induction r as [|[k' y'] r IHr]; cbn [find_num] in H; [discriminate|].
        destruct (String.eqb n k'); [injection H as ->; left; reflexivity|right; auto]. }
      apply negb_true_iff in Hx. rewrite <- not_true_iff_false in Hx. apply Hx.
      apply existsb_exists. exists z. split; [assumption|lia].
    + apply IH; assumption.
Qed.

Ltac Zify.zify_post_hook ::= Z.div_mod_to_equations.

Lemma firstn_length_le {A} (l : list A) n : (n <= length l)%nat -> length (firstn n l) = n.
Proof. intros H. rewrite firstn_length. lia. Qed.

Lemma bits_payload_spec data n payload unused cnt :
  (0 <=? n) && (negb (n mod 8 =? 0) || (n / 8 <=? Z.of_nat (length data))) = true ->
  bits_payload data n = Ok (payload, unused, cnt) ->
  Z.of_nat (length payload) = cnt /\ 8 * cnt - unused = n /\ cnt = (n + 7) / 8 /\ 0 <= cnt.
Proof.
  unfold bits_payload. intros Hok H. destruct (n <? 0) eqn:E0; [discriminate|].
  destruct (n mod 8 =? 0) eqn:E1.
  - inv_eq H.
    cbn [negb orb] in Hok. rewrite firstn_length_le by lia. rewrite Z2Nat.id by lia. lia.
  - destruct (nth_error data (Z.to_nat (n / 8))) as [last|] eqn:E2; [|discriminate].
    inv_eq H.
    assert (Z.to_nat (n / 8) < length data)%nat by (apply nth_error_Some; congruence).
    rewrite app_length, firstn_length_le by lia. cbn [length]. lia.
Qed.

Lemma good_bits_string sz data n bs :
  bits_ok sz data n = true -> enc_bits sz data n = Ok bs ->
  good (dec_bitstring sz) bs
       (match bits_payload data n with Ok (payload, _, _) => VBits payload n | Err _ => VBits data n end).
Proof.
  unfold bits_ok, enc_bits, dec_bitstring, size_ok. intros Hok H.
  apply andb_prop in Hok. destruct Hok as [Hok Hsz].
  destruct (bits_payload data n) as [[[payload unused] cnt]|] eqn:E; cbn [bind] in H; [|discriminate].
  destruct (bits_payload_spec _ _ _ _ _ Hok E) as [Hlen [Hn [Hcnt Hpos]]].
  destruct (fixed_size sz) as [s|].
  - inv_eq H. assert (s = n) by lia. subst s.
    eapply good_bind_ret_eq; [apply good_take'; lia|reflexivity].
  - bind_inv H ld E1. inv_eq H.
    eapply good_bind; [apply (good_len (cnt + 1)); [lia|exact E1]|].
    apply (good_bind dec_byte _ [unused] payload unused); [apply good_byte|].
    replace (cnt + 1 - 1) with cnt by lia.
    eapply good_bind_ret_eq; [apply good_take'; lia|]. f_equal. lia.
Qed.


(** * CHOICE alternatives and their tags *)
Lemma zlist_eqb_refl l : zlist_eqb l l = true.
Proof. induction l as [|x l IH]; cbn [zlist_eqb]; [reflexivity|]. rewrite Z.eqb_refl, IH. reflexivity. Qed.

Lemma find_member_app n a b :
  find_member n (a ++ b) = match find_member n a with Some m => Some m | None => find_member n b end.
Proof.
  induction a as [|m a IH]; cbn [app find_member]; [reflexivity|].
  destruct (String.eqb n (m_name m)); [reflexivity|exact IH].
Qed.

Lemma find_alt_some auto n ms : forall i tg m,
  find_alt n (alt_tags auto i ms) = Some (tg, m) ->
  find_member n ms = Some m /\ In (tg, m) (alt_tags auto i ms).
Proof.
  induction ms as [|m0 ms IH]; intros i tg m H; cbn [alt_tags find_alt find_member] in *; [discriminate|].
  cbn [snd] in H. destruct (String.eqb n (m_name m0)).
  - injection H as <- <-. split; [reflexivity|left; reflexivity].
  - destruct (IH _ _ _ H) as [H1 H2]. split; [exact H1|right; exact H2].
Qed.

Lemma find_alt_none auto n ms : forall i,
  find_alt n (alt_tags auto i ms) = None -> find_member n ms = None.
Proof.
  induction ms as [|m0 ms IH]; intros i H; cbn [alt_tags find_alt find_member] in *; [reflexivity|].
  cbn [snd] in H. destruct (String.eqb n (m_name m0)); [discriminate|]. eapply IH. exact H.
Qed.

Lemma tags_of_app a b : tags_of (a ++ b) = tags_of a ++ tags_of b.
Proof. unfold tags_of. apply flat_map_app. Qed.

Lemma in_tags_of tg m alts : In (Some tg, m) alts -> In tg (tags_of alts).
Proof.
  intros H. unfold tags_of. apply in_flat_map. exists (Some tg, m). split; [exact H|left; reflexivity].
Qed.

Lemma existsb_zlist_in x l : existsb (zlist_eqb x) l = false -> ~ In x l.
Proof.
  intros H Hin. rewrite <- not_true_iff_false in H. apply H. apply existsb_exists.
  exists x. split; [exact Hin|apply zlist_eqb_refl].
Qed.

Lemma nodup_tags_app l1 l2 :
  nodup_tags (l1 ++ l2) = true ->
  nodup_tags l1 = true /\ nodup_tags l2 = true /\ (forall x, In x l1 -> ~ In x l2).
Proof.
  induction l1 as [|x l1 IH]; cbn [app nodup_tags]; intros H.
  - split; [reflexivity|]. split; [exact H|]. intros x [].
  - apply andb_prop in H. destruct H as [Hx H]. apply negb_true_iff in Hx.
    destruct (IH H) as [N1 [N2 D]]. apply existsb_zlist_in in Hx.
    split.
    + apply andb_true_intro. split; [|exact N1]. apply negb_true_iff.
      destruct (existsb (zlist_eqb x) l1) eqn:E; [|reflexivity].
      exfalso. apply existsb_exists in E. destruct E as [y [Hy E]]. apply value_eqb_zlist in E. subst y.
      apply Hx. apply in_or_app. left. exact Hy.
    + split; [exact N2|]. intros y [<-|Hy] Hin.
      * apply Hx. apply in_or_app. right. exact Hin.
      * exact (D y Hy Hin).
Qed.

Lemma find_tag_notin tg alts : ~ In tg (tags_of alts) -> find_tag tg alts = None.
Proof.
  induction alts as [|[[tg'|] m] alts IH]; intros H; cbn [find_tag]; [reflexivity| |].
  - destruct (zlist_eqb tg tg') eqn:E.
    + exfalso. apply value_eqb_zlist in E. subst tg'. apply H. unfold tags_of. cbn. left. reflexivity.
    + apply IH. intros Hin. apply H. unfold tags_of in *. cbn. right. exact Hin.
  - apply IH. intros Hin. apply H. unfold tags_of in *. cbn. exact Hin.
Qed.

Lemma find_tag_in tg m alts :
  nodup_tags (tags_of alts) = true -> In (Some tg, m) alts -> find_tag tg alts = Some m.
Proof.
  induction alts as [|[[tg'|] m'] alts IH]; intros Hnd Hin; [destruct Hin| |].
  - unfold tags_of in Hnd. cbn [flat_map fst app nodup_tags] in Hnd.
    apply andb_prop in Hnd. destruct Hnd as [Hx Hnd]. apply negb_true_iff in Hx.
    cbn [find_tag]. destruct Hin as [Heq|Hin].
    + injection Heq as -> ->. rewrite zlist_eqb_refl. reflexivity.
    + destruct (zlist_eqb tg tg') eqn:E.
      * exfalso. apply value_eqb_zlist in E. subst tg'.
        apply (existsb_zlist_in _ _ Hx). apply (in_tags_of tg m). exact Hin.
      * apply IH; assumption.
  - cbn [find_tag]. destruct Hin as [Heq|Hin]; [discriminate|].
    apply IH; [|exact Hin]. unfold tags_of in *. cbn [flat_map fst app] in Hnd. exact Hnd.
Qed.

Lemma alt_tag_valid auto ms : forall i tg m,
  0 <= i ->
  forallb (fun m => match m_ty m with TTag tg _ => 0 <=? t_num tg | _ => true end) ms = true ->
  In (Some tg, m) (alt_tags auto i ms) ->
  exists num flags, tg = encode_tag num flags /\ 0 <= num /\ tag_flags_ok flags.
Proof.
  induction ms as [|m0 ms IH]; intros i tg m Hi Hf Hin; cbn [alt_tags] in Hin; [destruct Hin|].
  cbn [forallb] in Hf. apply andb_prop in Hf. destruct Hf as [Hf0 Hf].
  destruct Hin as [Heq|Hin].
  - unfold alt_tag in Heq. destruct auto.
    + injection Heq as <- <-. exists i, 128. unfold tag_flags_ok. auto.
    + destruct (m_ty m0) as [| | | | | | | | | | | |tg0 t0]; try discriminate.
      injection Heq as <- <-. exists (t_num tg0), (class_flags (t_class tg0)).
      split; [reflexivity|]. split; [lia|].
      unfold tag_flags_ok, class_flags. destruct (t_class tg0); auto.
  - apply (IH (i + 1) tg m); [lia|exact Hf|exact Hin].
Qed.

(** * One step of the recursion, given the induction hypothesis for the recursive calls *)
Section Step.
  Variables (numeric : bool) (e : env).
  Variables (encr : ty -> value -> result (list Z)) (okr : ty -> value -> bool).
  Variables (decr : ty -> dec value) (normr : ty -> value -> value).
  Hypothesis IH : forall t v bs,
      okr t v = true -> encr t v = Ok bs -> good (decr t) bs (normr t v).

  Lemma good_root ms : forall fs bits body,
    ok_root okr ms fs = true -> enc_root encr ms fs = Ok (bits, body) ->
    good (dec_root decr ms bits) body (norm_root normr ms fs) /\
    length bits = length (filter is_optional_member ms).
  Proof.
    induction ms as [|m ms IHms]; intros fs bits body Hok H.
    - cbn [enc_root] in H. inv_eq H. split; [apply good_ret|reflexivity].
    - cbn [enc_root ok_root norm_root dec_root filter] in *. unfold is_optional_member at 1.
      destruct (lookup (m_name m) fs) as [v|] eqn:El; destruct (m_opt m) as [| |d] eqn:Eo.
      + apply andb_prop in Hok. destruct Hok as [Hv Hok].
        bind_inv H b Eb. bind_inv H r Er. destruct r as [bits' body']. inv_eq H.
        destruct (IHms _ _ _ Hok Er) as [G L]. split; [|exact L].
        eapply good_bind; [apply IH; eassumption|].
        eapply good_bind_ret_eq; [exact G|reflexivity].
      + apply andb_prop in Hok. destruct Hok as [Hv Hok].
        bind_inv H b Eb. bind_inv H r Er. destruct r as [bits' body']. inv_eq H.
        destruct (IHms _ _ _ Hok Er) as [G L]. split; [|cbn [length]; congruence].
        eapply good_bind; [apply IH; eassumption|].
        eapply good_bind_ret_eq; [exact G|reflexivity].
      + apply andb_prop in Hok. destruct Hok as [Hv Hok].
        destruct (value_eqb v d) eqn:Ed.
        * bind_inv H r Er. destruct r as [bits' body']. inv_eq H.
          destruct (IHms _ _ _ Hok Er) as [G L]. split; [|cbn [length]; congruence].
          eapply good_bind_ret_eq; [exact G|reflexivity].
        * cbn [orb] in Hv.
          bind_inv H b Eb. bind_inv H r Er. destruct r as [bits' body']. inv_eq H.
          destruct (IHms _ _ _ Hok Er) as [G L]. split; [|cbn [length]; congruence].
          eapply good_bind; [apply IH; eassumption|].
          eapply good_bind_ret_eq; [exact G|reflexivity].
      + discriminate.
      + bind_inv H r Er. destruct r as [bits' body']. inv_eq H.
        destruct (IHms _ _ _ Hok Er) as [G L]. split; [|cbn [length]; congruence]. exact G.
      + bind_inv H r Er. destruct r as [bits' body']. inv_eq H.
        destruct (IHms _ _ _ Hok Er) as [G L]. split; [|cbn [length]; congruence].
        eapply good_bind_ret_eq; [exact G|reflexivity].
  Qed.

  Lemma good_adds ms : forall fs pres es tl,
    ok_adds okr ms fs = true -> enc_adds encr ms fs = Ok (pres, es) -> concat_open es = Ok tl ->
    good (dec_adds_loop decr ms pres) tl (norm_adds normr ms fs) /\ length pres = length ms.
  Proof.
    induction ms as [|m ms IHms]; intros fs pres es tl Hok H Hc.
    - cbn [enc_adds] in H. inv_eq H. cbn [concat_open] in Hc. inv_eq Hc.
      split; [apply good_ret|reflexivity].
    - cbn [enc_adds ok_adds norm_adds] in *.
      destruct (lookup (m_name m) fs) as [v|] eqn:El.
      + apply andb_prop in Hok. destruct Hok as [Hv Hok].
        bind_inv H b Eb. bind_inv H r Er. destruct r as [pres' es']. inv_eq H.
        cbn [concat_open] in Hc. bind_inv Hc w Ew. bind_inv Hc ws Ews. inv_eq Hc.
        unfold wrap_open in Ew. bind_inv Ew ld Eld. inv_eq Ew.
        destruct (IHms _ _ _ _ Hok Er Ews) as [G L]. split; [|cbn [length]; congruence].
        cbn [dec_adds_loop]. rewrite <- app_assoc.
        eapply good_bind; [apply (good_len (Z.of_nat (length b))); [lia|exact Eld]|].
        eapply good_bind; [apply IH; eassumption|].
        eapply good_bind_ret_eq; [exact G|reflexivity].
      + bind_inv H r Er. destruct r as [pres' es']. inv_eq H.
        destruct (IHms _ _ _ _ Hok Er Hc) as [G L]. split; [|cbn [length]; congruence].
        cbn [dec_adds_loop]. exact G.
  Qed.

  Lemma enc_adds_none ms : forall fs pres,
    enc_adds encr ms fs = Ok (pres, []) -> norm_adds normr ms fs = [].
  Proof.
    induction ms as [|m ms IHms]; intros fs pres H; [reflexivity|].
    cbn [enc_adds norm_adds] in *. destruct (lookup (m_name m) fs) as [v|].
    - bind_inv H b Eb. bind_inv H r Er. destruct r as [pres' es']. inv_eq H. discriminate.
    - bind_inv H r Er. destruct r as [pres' es']. inv_eq H. eapply IHms. exact Er.
  Qed.

  (** SEQUENCE OF / SET OF *)
  Lemma good_list_loop t vs : forall bs acc,
    forallb (okr t) vs = true -> enc_list encr t vs = Ok bs ->
    (forall tail, iter_n (length vs) (dec_elem decr t) (acc, bs ++ tail)
                  = Ok (rev (map (normr t) vs) ++ acc, tail)) /\
    (forall p, strict_prefix p bs -> dec_err (iter_n (length vs) (dec_elem decr t) (acc, p))).
  Proof.
    induction vs as [|v vs IHvs]; intros bs acc Hok H.
    - cbn [enc_list] in H. inv_eq H. split; [reflexivity|].
      intros p Hp. destruct (strict_prefix_nil _ Hp).
    - cbn [enc_list forallb] in *. apply andb_prop in Hok. destruct Hok as [Hv Hok].
      bind_inv H b Eb. bind_inv H bs' Ebs. inv_eq H.
      destruct (IH _ _ _ Hv Eb) as [G1 G2].
      split.
      + intros tail. cbn [length iter_n]. unfold dec_elem at 1. cbn [fst snd].
        rewrite <- app_assoc, G1. cbn [bind].
        destruct (IHvs _ (normr t v :: acc) Hok eq_refl) as [L1 _]. rewrite L1.
        cbn [map rev]. rewrite <- app_assoc. reflexivity.
      + intros p Hp. cbn [length iter_n]. unfold dec_elem at 1. cbn [fst snd].
        destruct (strict_prefix_app _ _ _ Hp) as [Hp1|[q [-> Hq]]].
        * destruct (G2 p Hp1) as [x [-> Hx]]. exists x. auto.
        * rewrite G1. cbn [bind].
          destruct (IHvs _ (normr t v :: acc) Hok eq_refl) as [_ L2]. apply L2. exact Hq.
  Qed.

  Lemma good_list t vs bs :
    forallb (okr t) vs = true ->
    (let* q := enc_uint_var (Z.of_nat (length vs)) in
     let* b := enc_list encr t vs in Ok (q ++ b)) = Ok bs ->
    good (dec_list decr t) bs (VList (map (normr t) vs)).
  Proof.
    intros Hok H. bind_inv H q Equ. bind_inv H b Eb. inv_eq H.
    unfold dec_list. eapply good_bind; [eapply good_uint_var; [|exact Equ]; lia|].
    destruct (good_list_loop t vs b [] Hok Eb) as [L1 L2]. split.
    - intros tail. rewrite rep_n_iter, L1. rewrite <- rev_alt, app_nil_r, rev_involutive. reflexivity.
    - intros p Hp. rewrite rep_n_iter. destruct (L2 p Hp) as [x [-> Hx]]. exists x. auto.
  Qed.

  (** SEQUENCE / SET *)
  Lemma bitmap_arith n : 0 <= n -> ((n + 7) / 8 + 1 - 1) * 8 - (- n) mod 8 = n.
  Proof. intros H. lia. Qed.

  Lemma good_seq root ext fs bs :
    ok_root okr root fs = true ->
    match ext with Some adds => ok_adds okr (flat_adds adds) fs | None => true end = true ->
    enc_seq encr root ext fs = Ok bs ->
    good (dec_seq decr root ext) bs
         (VSeq (norm_root normr root fs ++
                match ext with Some adds => norm_adds normr (flat_adds adds) fs | None => [] end)).
  Proof.
    intros Hr Ha H. unfold enc_seq in H. bind_inv H r Er. destruct r as [bits body].
    destruct (good_root root fs bits body Hr Er) as [G L]. unfold dec_seq.
    destruct ext as [adds|].
    - assert (Hpre : forall x, good (dec_bits (1 + Z.of_nat (length (filter is_optional_member root))))
                                    (pack_bits (x :: bits)) (x :: bits)).
      { intros x. apply good_bits'. cbn [length]. lia. }
      assert (Hnone : norm_adds normr (flat_adds adds) fs = [] ->
                      good (dlet bits0 := dec_bits (1 + Z.of_nat (length (filter is_optional_member root)))
                            in match bits0 with
                               | [] => dfail EUnmodelled
                               | x :: bits' =>
                                 dlet fs0 := dec_root decr root bits'
                                 in (if x then dlet afs := dec_adds decr (flat_adds adds) in dret (VSeq (fs0 ++ afs))
                                     else dret (VSeq fs0))
                               end)
                           (pack_bits (false :: bits) ++ body)
                           (VSeq (norm_root normr root fs ++ norm_adds normr (flat_adds adds) fs))).
      { intros ->. rewrite app_nil_r. eapply good_bind; [apply Hpre|].
        eapply good_bind_ret_eq; [exact G|reflexivity]. }
      destruct (flat_adds adds) as [|a0 flat'] eqn:Ef.
      + inv_eq H. apply Hnone. reflexivity.
      + rewrite <- Ef in *. bind_inv H r2 Er2. destruct r2 as [pres es].
        destruct es as [|e0 es'].
        * inv_eq H. apply Hnone. eapply enc_adds_none. exact Er2.
        * bind_inv H ld Eld. bind_inv H tlb Etl. inv_eq H.
          destruct (good_adds _ _ _ _ _ Ha Er2 Etl) as [GA LA].
          eapply good_bind; [apply Hpre|]. cbv beta iota.
          eapply good_bind; [exact G|].
          set (n := Z.of_nat (length (flat_adds adds))) in *.
          assert (Hn : 0 <= n) by (unfold n; lia).
          rewrite <- (app_nil_r (ld ++ _)).
          eapply good_bind; [|apply good_ret].
          unfold dec_adds.
          eapply good_bind; [apply (good_len ((n + 7) / 8 + 1)); [lia|exact Eld]|].
          apply (good_bind dec_byte _ [(- n) mod 8] (pack_bits pres ++ tlb) ((- n) mod 8)); [apply good_byte|].
          rewrite (bitmap_arith n Hn).
          eapply good_bind; [apply good_bits'; unfold n; lia|]. exact GA.
    - inv_eq H. rewrite app_nil_r.
      eapply good_bind; [apply good_bits'; lia|].
      eapply good_bind_ret_eq; [exact G|reflexivity].
  Qed.

  (** CHOICE *)
  Lemma good_choice root ext n v bs :
    ok_choice okr root ext n v = true ->
    enc_choice encr root ext n v = Ok bs ->
    good (dec_choice decr root ext) bs
         (match find_member n (root ++ match ext with Some x => x | None => [] end) with
          | Some m => VChoice n (normr (m_ty m) v)
          | None => VChoice n v
          end).
  Proof.
    unfold ok_choice, enc_choice, dec_choice.
    set (auto := choice_auto root ext). set (extl := match ext with Some x => x | None => [] end).
    set (ralts := alt_tags auto 0 root). set (ealts := alt_tags auto (Z.of_nat (length root)) extl).
    intros Hok H.
    apply andb_prop in Hok. destruct Hok as [Hok Hm].
    apply andb_prop in Hok. destruct Hok as [Hok Hnum].
    apply andb_prop in Hok. destruct Hok as [Hnd Hall].
    apply negb_true_iff in Hall. rewrite Hall.
    rewrite tags_of_app in Hnd. destruct (nodup_tags_app _ _ Hnd) as [Nr [Ne Dis]].
    rewrite forallb_app in Hnum. apply andb_prop in Hnum. destruct Hnum as [Hnr Hne].
    rewrite find_member_app in Hm |- *.
    destruct (find_alt n ralts) as [[[tg|] m]|] eqn:Ef.
    - destruct (find_alt_some _ _ _ _ _ _ Ef) as [Fm Hin]. rewrite Fm in Hm |- *.
      bind_inv H b Eb. inv_eq H.
      destruct (alt_tag_valid auto root 0 tg m ltac:(lia) Hnr Hin) as [num [fl [-> [Hn Hfl]]]].
      eapply good_bind; [apply good_tag; assumption|].
      fold ralts. rewrite (find_tag_in _ _ _ Nr Hin).
      assert (Hname : m_name m = n).
      { clear - Fm. induction root as [|m0 r IHr]; cbn [find_member] in Fm; [discriminate|].
        destruct (String.eqb n (m_name m0)) eqn:E; [injection Fm as <-; symmetry; apply String.eqb_eq; exact E|auto]. }
      rewrite Hname.
      eapply good_bind_ret_eq; [apply IH; eassumption|reflexivity].
    - discriminate.
    - rewrite (find_alt_none _ _ _ _ Ef) in Hm |- *.
      destruct (find_alt n ealts) as [[[tg|] m]|] eqn:Ef2; try discriminate.
      destruct (find_alt_some _ _ _ _ _ _ Ef2) as [Fm Hin]. rewrite Fm in Hm |- *.
      bind_inv H b Eb. bind_inv H w Ew. inv_eq H.
      unfold wrap_open in Ew. bind_inv Ew ld Eld. inv_eq Ew.
      destruct (alt_tag_valid auto extl (Z.of_nat (length root)) tg m ltac:(lia) Hne Hin) as [num [fl [-> [Hn Hfl]]]].
      eapply good_bind; [apply good_tag; assumption|].
      fold ralts ealts.
      rewrite (find_tag_notin _ ralts).
      2:{ intros Hc. apply (Dis _ Hc). apply (in_tags_of _ m). exact Hin. }
      rewrite (find_tag_in _ _ _ Ne Hin).
      assert (Hname : m_name m = n).
      { clear - Fm. induction extl as [|m0 r IHr]; cbn [find_member] in Fm; [discriminate|].
        destruct (String.eqb n (m_name m0)) eqn:E; [injection Fm as <-; symmetry; apply String.eqb_eq; exact E|auto]. }
      eapply good_bind; [apply (good_len (Z.of_nat (length b))); [lia|exact Eld]|].
      rewrite Hname.
      eapply good_bind_ret_eq; [apply IH; eassumption|reflexivity].
  Qed.
End Step.

Lemma good_bind_nil {A B} (m : dec A) (f : A -> dec B) bs a b :
  good m bs a -> good (f a) [] b -> good (dbind m f) bs b.
Proof. intros H1 H2. rewrite <- (app_nil_r bs). eapply good_bind; eassumption. Qed.

Lemma dbind_assoc {A B C} (m : dec A) (f : A -> dec B) (g : B -> dec C) l :
  dbind (dbind m f) g l = dbind m (fun a => dbind (f a) g) l.
Proof. unfold dbind. destruct (m l) as [[a r]|]; reflexivity. Qed.

Lemma good_enum numeric root ext v bs :
  numeric || nodup_z (map snd (enum_items root ext)) = true ->
  enc_enum numeric root ext v = Ok bs -> good (dec_enum numeric root ext) bs v.
Proof.
  intros Hok H. unfold enc_enum in H.
  apply (good_ext (dbind dec_enum_value
                         (fun z => match find_name z (enum_items root ext) with
                                   | Some n => dret (if numeric then VInt z else VEnum n)
                                   | None => match ext with Some _ => dret VNone | None => dfail EDecode end
                                   end))).
  { intros l. unfold dec_enum_value, dec_enum. apply dbind_assoc. }
  rewrite <- (app_nil_r bs).
  destruct v; try discriminate; destruct numeric; try discriminate.
  - destruct (find_name z (enum_items root ext)) as [n|] eqn:E; [|discriminate].
    eapply good_bind; [apply good_enum_value; exact H|]. rewrite E. apply good_ret.
  - cbn [orb] in Hok. destruct (find_num name (enum_items root ext)) as [z|] eqn:E; [|discriminate].
    eapply good_bind; [apply good_enum_value; exact H|].
    rewrite (find_name_num _ _ _ Hok E). apply good_ret.
Qed.

Lemma good_string (f : Z -> result (list Z)) (g : list Z -> result (list Z)) sz cs bs :
  (forall cs bs, enc_chars f cs = Ok bs -> g bs = Ok cs) ->
  (forall payload, enc_chars f cs = Ok payload -> size_ok sz (Z.of_nat (length payload)) = true) ->
  (let* payload := enc_chars f cs in enc_sized sz payload) = Ok bs ->
  good (dlet ds := dec_sized sz in dlet cs := lift (g ds) in dret (VStr cs)) bs (VStr cs).
Proof.
  intros Hrt Hsz H. bind_inv H payload Ep.
  rewrite <- (app_nil_r bs). eapply good_bind; [apply good_sized; [apply Hsz; reflexivity|exact H]|].
  rewrite (Hrt _ _ Ep). apply (good_bind_ret_eq (lift (Ok cs)) VStr [] cs (VStr cs)); [apply good_lift_ok|reflexivity].
Qed.

Section StepAll.
  Variables (numeric : bool) (e : env).
  Variables (encr : ty -> value -> result (list Z)) (okr : ty -> value -> bool).
  Variables (decr : ty -> dec value) (normr : ty -> value -> value).
  Hypothesis IH : forall t v bs,
      okr t v = true -> encr t v = Ok bs -> good (decr t) bs (normr t v).

  Lemma step_good t v bs :
    ok_step numeric e okr t v = true -> enc_step numeric e encr t v = Ok bs ->
    good (dec_step numeric e decr t) bs (norm_step e normr t v).
  Proof.
    intros Hok H. destruct t.
    - (* BOOLEAN *)
      destruct v; cbn [enc_step] in H; try discriminate. inv_eq H. cbn [dec_step norm_step].
      eapply good_bind_ret_eq; [apply good_byte|]. destruct b; reflexivity.
    - (* NULL *)
      destruct v; cbn [enc_step] in H; try discriminate. inv_eq H. apply good_ret.
    - (* INTEGER *)
      destruct v; cbn [enc_step] in H; try discriminate. cbn [dec_step norm_step].
      eapply good_bind_ret_eq; [apply good_int; exact H|reflexivity].
    - (* ENUMERATED *)
      cbn [enc_step ok_step dec_step] in *.
      replace (norm_step e normr (TEnum root ext) v) with v by (destruct v; reflexivity).
      apply good_enum; assumption.
    - (* BIT STRING *)
      destruct v; cbn [enc_step ok_step] in *; try discriminate. cbn [dec_step norm_step].
      pose proof (good_bits_string _ _ _ _ Hok H) as G.
      destruct (bits_payload bytes nbits) as [[[payload unused] cnt]|]; exact G.
    - (* OCTET STRING *)
      destruct v; cbn [enc_step ok_step] in *; try discriminate. cbn [dec_step norm_step].
      eapply good_bind_ret_eq; [apply good_sized; eassumption|reflexivity].
    - (* character strings *)
      destruct v; cbn [enc_step ok_step] in *; try discriminate.
      cbn [dec_step norm_step].
      destruct k; cbn [str_codec] in *; try discriminate.
      + apply (good_string ascii_enc1 ascii_dec); [apply ascii_roundtrip| |exact H].
        intros payload Ep. rewrite (ascii_length _ _ Ep). exact Hok.
      + apply (good_string ascii_enc1 ascii_dec); [apply ascii_roundtrip| |exact H].
        intros payload Ep. rewrite (ascii_length _ _ Ep). exact Hok.
      + apply (good_string ascii_enc1 ascii_dec); [apply ascii_roundtrip| |exact H].
        intros payload Ep. rewrite (ascii_length _ _ Ep). exact Hok.
      + apply (good_string ascii_enc1 ascii_dec); [apply ascii_roundtrip| |exact H].
        intros payload Ep. rewrite (ascii_length _ _ Ep). exact Hok.
      + apply (good_string utf8_enc1 utf8_dec); [apply utf8_roundtrip| |exact H].
        intros payload Ep. unfold size_ok. destruct (fixed_size sz); [discriminate|reflexivity].
    - (* OBJECT IDENTIFIER *)
      destruct v; cbn [enc_step ok_step] in *; try discriminate. cbn [dec_step norm_step].
      bind_inv H c Ec. unfold wrap_open in H. bind_inv H ld Eld. inv_eq H.
      eapply good_bind; [apply (good_len (Z.of_nat (length c))); [lia|exact Eld]|].
      eapply good_bind_nil; [apply good_take|].
      rewrite (oid_roundtrip _ _ Hok Ec).
      apply (good_bind_ret_eq (lift (Ok arcs)) VOid [] arcs (VOid arcs)); [apply good_lift_ok|reflexivity].
    - (* SEQUENCE / SET *)
      destruct v; try (destruct isset; cbn [enc_step] in H; discriminate).
      cbn [ok_step] in Hok. apply andb_prop in Hok. destruct Hok as [Hr Ha].
      cbn [norm_step].
      destruct isset; cbn [enc_step dec_step] in *.
      + destruct (existsb (fun m => is_tagged (m_ty m)) root); [discriminate|].
        eapply good_seq; eassumption.
      + eapply good_seq; eassumption.
    - (* SEQUENCE OF / SET OF *)
      destruct v; cbn [enc_step ok_step] in *; try discriminate. cbn [dec_step norm_step].
      eapply good_list; eassumption.
    - (* CHOICE *)
      destruct v; cbn [enc_step ok_step] in *; try discriminate. cbn [dec_step norm_step].
      pose proof (good_choice encr okr decr normr IH _ _ _ _ _ Hok H) as G.
      destruct (find_member alt (root ++ match ext with Some x => x | None => [] end)); exact G.
    - (* reference *)
      cbn [enc_step ok_step dec_step] in *.
      replace (norm_step e normr (TRef name) v)
        with (match lookup name e with Some t' => normr t' v | None => v end) by (destruct v; reflexivity).
      destruct (lookup name e) as [t'|]; [|destruct v; discriminate].
      apply IH; [exact Hok|]. destruct v; exact H.
    - (* tag *)
      cbn [enc_step ok_step dec_step] in *.
      replace (norm_step e normr (TTag tg t) v) with (normr t v) by (destruct v; reflexivity).
      apply IH; [exact Hok|]. destruct v; exact H.
  Qed.
End StepAll.

(** * The theorems *)
Theorem oer_good numeric e : forall fuel t v bs,
  oer_ok numeric fuel e t v = true -> oer_encode numeric fuel e t v = Ok bs ->
  good (oer_dec numeric fuel e t) bs (oer_norm fuel e t v).
Proof.
  induction fuel as [|f IHf]; intros t v bs Hok H; [discriminate|].
  cbn [oer_ok oer_encode oer_dec oer_norm] in *.
  eapply step_good; [exact IHf|exact Hok|exact H].
Qed.

Theorem oer_roundtrip numeric fuel e t v bs :
  oer_ok numeric fuel e t v = true -> oer_encode numeric fuel e t v = Ok bs ->
  forall tail, oer_decode numeric fuel e t (bs ++ tail) = Ok (oer_norm fuel e t v, length bs).
Proof.
  intros Hok H tail. destruct (oer_good _ _ _ _ _ _ Hok H) as [G _].
  unfold oer_decode. rewrite G. rewrite app_length. f_equal. f_equal. lia.
Qed.

Theorem oer_truncation numeric fuel e t v bs :
  oer_ok numeric fuel e t v = true -> oer_encode numeric fuel e t v = Ok bs ->
  forall p, strict_prefix p bs ->
  exists x, oer_decode numeric fuel e t p = Err x /\ is_decode_error x = true.
Proof.
  intros Hok H p Hp. destruct (oer_good _ _ _ _ _ _ Hok H) as [_ G].
  destruct (G p Hp) as [x [E Hx]]. exists x. unfold oer_decode. rewrite E. auto.
Qed.
