(** Backward instance of Ber/BerExtendsBack.v on the pair of Ber/BerExtendsEx.v
    (four nodes extended at once).  Cross-checked on /repo (ber and der):
      v1 = {'items': [{'id': 1, 'c': 'green'}], 'w': {'k': 3}, 'u': ('a', True)}
      version-1 encode = 30 14 30 08 30 06 02 01 01 0a 01 01 a1 05 30 03 02 01 03 01 01 ff
      version 2 decodes it to {'items': [{'id': 1, 'c': 'green'}], 'w': {'k': 3}, 'u': ('a', True)} *)
From Asn1V Require Import Base.Prelude Syntax.Asn1 Ber.BerCommon Ber.X690 Ber.BerScope Ber.DerImpl Ber.BerImpl
     Ber.DerRefine Ber.X690Read Ber.BerAcceptBase Ber.BerAccept Ber.BerRoundtripFull Ber.BerExt
     Ber.BerExtendsBase Ber.BerExtends Ber.BerExtendsEx Ber.BerExtendsBack.
Open Scope string_scope.

Definition v1 : value :=
  VSeq [("items", VList [VSeq [("id", VInt 1); ("c", VEnum "green")]]);
        ("w", VSeq [("k", VInt 3)]);
        ("u", VChoice "a" (VBool true))].
Definition v1_octets : list Z := [48; 20; 48; 8; 48; 6; 2; 1; 1; 10; 1; 1; 161; 5; 48; 3; 2; 1; 3; 1; 1; 255].

Example ex_backward_any_depth : forall tail,
  BerImpl.ber_decode false 8 env2 top (v1_octets ++ tail) = Ok (v1, 22%nat).
Proof.
  assert (Hs1 : in_scope false env1 8 top = true) by (vm_compute; reflexivity).
  assert (Hc1 : compiles env1 8 top = true) by (vm_compute; reflexivity).
  assert (Hs2 : in_scope false env2 8 top = true) by (vm_compute; reflexivity).
  assert (Hc2 : compiles env2 8 top = true) by (vm_compute; reflexivity).
  assert (He : BerImpl.ber_encode false 8 env1 top v1 = Ok v1_octets) by (vm_compute; reflexivity).
  assert (Hsm : DerRefine.small v1_octets) by (unfold DerRefine.small, v1_octets; cbn [length]; lia).
  destruct (der_tree false env1 8 top v1) as [Td|] eqn:ETd; [|vm_compute in ETd; discriminate].
  destruct (ber_backward_partial false env1 env2 8 top top v1 Td v1_octets bextends_inhabited Hs1 Hc1 Hs2 Hc2 ETd He Hsm)
    as (nv & Hn & Hdec).
  vm_compute in Hn. injection Hn as <-. intros tail. rewrite (Hdec tail). f_equal.
Qed.

(** DEFAULT values of new additions are filled in: version 2 of Inner gets
    [m INTEGER DEFAULT 5] after a new OPTIONAL addition; a mandatory new addition
    that is absent ends the value (no DEFAULT behind it is filled in) *)
Example bup_fills_defaults :
  bup [] [] 3 (TSeq false [("k", TInt IcNone, Mandatory)] (Some []))
               (TSeq false [("k", TInt IcNone, Mandatory)]
                     (Some [(false, [("n", TBool, Optional)]); (false, [("m", TInt IcNone, Default (VInt 5))]);
                            (false, [("l", TBool, Mandatory)]); (false, [("z", TInt IcNone, Default (VInt 9))])]))
      (VSeq [("k", VInt 3)])
  = VSeq [("k", VInt 3); ("m", VInt 5)] /\
  BerImpl.ber_decode false 3 []
    (TSeq false [("k", TInt IcNone, Mandatory)]
          (Some [(false, [("n", TBool, Optional)]); (false, [("m", TInt IcNone, Default (VInt 5))]);
                 (false, [("l", TBool, Mandatory)]); (false, [("z", TInt IcNone, Default (VInt 9))])]))
    [48; 3; 2; 1; 3] = Ok (VSeq [("k", VInt 3); ("m", VInt 5)], 5%nat).
Proof. split; vm_compute; reflexivity. Qed.
