(** Concrete instances for the REAL model (Ber/Real.v): the hypotheses of the
    theorems in Ber/RealProofs.v are satisfiable by non-trivial values, the
    recorded finding and the repaired defect as witnesses, and one input of
    every region of the decoder.  Every [vm_compute] here is a statement
    about the listed value only. *)
From Asn1V Require Import Base.Prelude Ber.Real Ber.RealProofs.
Open Scope Z_scope.

(** 0.1 = 3602879701896397 * 2^-55, 255.0, the least subnormal 2^-1074, the
    greatest double (2^53-1) * 2^971, -1.5 = -(3 * 2^-1). *)
Example ex_is_double :
  is_double (RFin false 3602879701896397 (-55)) /\ is_double (RFin false 255 0) /\
  is_double (RFin false 1 (-1074)) /\ is_double (RFin false (2 ^ 53 - 1) 971) /\
  is_double (RFin true 3 (-1)).
Proof. vm_compute. repeat split; discriminate. Qed.

Example ex_not_double :       (* 2^1024, 2^-1075, a 54-bit mantissa, an even mantissa *)
  is_doubleb (RFin false 1 1024) = false /\ is_doubleb (RFin false 1 (-1075)) = false /\
  is_doubleb (RFin false (2 ^ 53 + 1) 0) = false /\ is_doubleb (RFin false 2 0) = false.
Proof. vm_compute. repeat split. Qed.

Example ex_encode_tenth : encode_real (RFin false 3602879701896397 (-55)) = Ok (hex "80c90ccccccccccccd").
Proof. vm_compute. reflexivity. Qed.
Example ex_encode_255 : encode_real (RFin false 255 0) = Ok (hex "8000ff").
Proof. vm_compute. reflexivity. Qed.
Example ex_encode_255_pre_repair : encode_real_pre_repair (RFin false 255 0) = Ok (hex "800000ff").
Proof. vm_compute. reflexivity. Qed.
Example ex_encode_min_subnormal : encode_real (RFin true 1 (-1074)) = Ok (hex "c1fbce01").
Proof. vm_compute. reflexivity. Qed.
Example ex_encode_max : encode_real (RFin false (2 ^ 53 - 1) 971) = Ok (hex "8103cb1fffffffffffff").
Proof. vm_compute. reflexivity. Qed.
Example ex_encode_specials :
  encode_real RInf = Ok [64] /\ encode_real RNegInf = Ok [65] /\ encode_real RNaN = Ok [66] /\
  encode_real (RZero false) = Ok [] /\ encode_real (RZero true) = Ok [].
Proof. repeat split. Qed.

Example ex_roundtrip_tenth :
  decode_real (hex "80c90ccccccccccccd") = Ok (RFin false 3602879701896397 (-55)).
Proof. vm_compute. reflexivity. Qed.

(** The pre-repair content decodes to the same value (the defect was a DER
    canonicity defect, not a round-trip defect) but is not canonical. *)
Example ex_pre_repair_decodes :
  decode_real (hex "800000ff") = Ok (RFin false 255 0) /\ der_real_canonicalb (hex "800000ff") = false /\
  der_real_canonicalb (hex "8000ff") = true.
Proof. vm_compute. repeat split. Qed.

(** One input per region of [real_decode_spec], as replayed on /repo. *)
Example ex_regions :
  decode_real (hex "80") = Err (EForeign "IndexError") /\
  decode_real (hex "8100") = Err (EForeign "IndexError") /\
  decode_real (hex "8000") = Err (EForeign "ValueError") /\
  decode_real (hex "810000") = Err (EForeign "ValueError") /\
  decode_real (hex "00") = Err (EForeign "ValueError") /\
  decode_real (hex "817fff01") = Err (EForeign "OverflowError") /\
  decode_real (hex "82") = Err EDecode /\ decode_real (hex "44") = Err EDecode /\
  decode_real (hex "0331452b30") = Err EUnmodelled /\
  decode_real (hex "4000") = Ok RInf /\ decode_real (hex "43") = Ok (RZero true) /\
  decode_real (hex "c00000") = Ok (RZero true) /\
  decode_real [] = Ok (RZero false).
Proof. vm_compute. repeat split. Qed.

(** Python quirks of [float(mantissa * 2 ** exponent)] the model reproduces:
    2 ** -1075 is the float 0.0, so 3 * 2^-1075 (which correctly rounded is
    2^-1074) decodes as 0.0; a 54-bit mantissa is rounded half-to-even;
    products below the subnormal grid are rounded half-to-even. *)
Example ex_quirks :
  decode_real (hex "81fbcd03") = Ok (RZero false) /\
  decode_real (hex "80003fffffffffffff") = Ok (RFin false 1 54) /\
  decode_real (hex "800020000000000001") = Ok (RFin false 1 53) /\
  decode_real (hex "800020000000000003") = Ok (RFin false (2 ^ 51 + 1) 2) /\
  decode_real (hex "80ff20000000000003") = Ok (RFin false (2 ^ 51 + 1) 1) /\
  decode_real (hex "81fbce03") = Ok (RFin false 3 (-1074)).
Proof. vm_compute. repeat split. Qed.
