(** C07 for BER as ONE inductive statement: extension steps at any depth.
    This file: definitions and generic lemmas; the induction and the theorems
    are in Ber/BerExtends.v, the worked instance in Ber/BerExtendsEx.v.

    [bextends f t1 t2] (environments [e1], [e2] extended pointwise): version 2
    arises from version 1 by appending additions after the marker of any
    extensible SEQUENCE, alternatives to any extensible CHOICE, items to any
    extensible ENUMERATED, at any depth (SEQUENCE components, root and
    additions; SEQUENCE OF / SET OF elements; tagged types; CHOICE
    alternatives; through references).  [bproj f t1 t2 w] is the version-1
    view of a value [w] decoded by version 2 (unknown additions dropped, an
    unknown alternative is (None, None), an unknown item None).
    Clauses: SET nodes ([TSeq true]) are outside the relation; the type of a
    CHOICE alternative must be [alt_stable] (not an untagged CHOICE that
    receives alternatives); a DEFAULT value is its own projection. *)
From Coq Require Import Permutation.
From Asn1V Require Import Base.Prelude Syntax.Asn1 Ber.Header Ber.HeaderProofs Ber.BerCommon Ber.X690 Ber.BerScope
     Ber.BerLeafA Ber.BerLeafB Ber.DerImpl Ber.BerImpl Ber.DerRefine Ber.X690Canon Ber.X690Read
     Ber.BerAcceptBase Ber.BerMembers Ber.BerSet Ber.BerAccept Ber.BerTrunc Ber.BerRoundtrip Ber.DerAccept
     Ber.DerBer Ber.BerRoundtripFull Ber.BerExt.

Local Notation small := DerRefine.small.

(* ------------------------------------------------------------------ *)
(** * Generic facts *)

Lemma Forall2_length {A B} (R : A -> B -> Prop) l1 l2 : Forall2 R l1 l2 -> length l1 = length l2.
Proof. induction 1; cbn [length]; congruence. Qed.

Lemma Forall2_in_l {A B} (R : A -> B -> Prop) l1 l2 a : Forall2 R l1 l2 -> In a l1 -> exists b, In b l2 /\ R a b.
Proof.
  induction 1 as [|x y l1 l2 Hxy _ IH]; intros Hin; [destruct Hin|].
  destruct Hin as [<-|Hin]; [exists y; split; [left; reflexivity|exact Hxy]|].
  destruct (IH Hin) as (b & Hb & Hr). exists b. split; [right; exact Hb|exact Hr].
Qed.

Lemma Forall2_in_r {A B} (R : A -> B -> Prop) l1 l2 b : Forall2 R l1 l2 -> In b l2 -> exists a, In a l1 /\ R a b.
Proof.
  induction 1 as [|x y l1 l2 Hxy _ IH]; intros Hin; [destruct Hin|].
  destruct Hin as [<-|Hin]; [exists x; split; [left; reflexivity|exact Hxy]|].
  destruct (IH Hin) as (a & Ha & Hr). exists a. split; [right; exact Ha|exact Hr].
Qed.

Lemma Forall2_app_inv {A B} (R : A -> B -> Prop) a1 a2 b1 b2 :
  Forall2 R a1 b1 -> Forall2 R a2 b2 -> Forall2 R (a1 ++ a2) (b1 ++ b2).
Proof. induction 1; intros H2; cbn [app]; [exact H2|constructor; auto]. Qed.

Lemma Forall2_imp' {A B} (R S : A -> B -> Prop) l1 l2 :
  (forall x y, In x l1 -> In y l2 -> R x y -> S x y) -> Forall2 R l1 l2 -> Forall2 S l1 l2.
Proof.
  intros H F. induction F as [|x y l1 l2 Hxy F IH]; constructor.
  - apply H; [left; reflexivity|left; reflexivity|exact Hxy].
  - apply IH. intros a b Ha Hb. apply H; right; assumption.
Qed.

(** hereditarily definite lengths (all the encoder emits) *)
Fixpoint bdef (x : btlv) : bool :=
  match x with
  | BPrim _ _ _ _ => true
  | BCons _ _ l ch => match l with LDef _ => true | LIndef => false end && forallb bdef ch
  end.

Lemma bdef_bretag c n x : bdef (bretag c n x) = bdef x.
Proof. destruct x; reflexivity. Qed.

Lemma bdef_inj : forall T, bdef (inj T) = true.
Proof.
  induction T as [c n ct | c n ch IH] using tlv_ind'; [reflexivity|].
  cbn [inj bdef andb]. rewrite forallb_forall. intros y Hy. apply in_map_iff in Hy. destruct Hy as (T & <- & HT).
  rewrite Forall_forall in IH. apply IH. exact HT.
Qed.

Lemma bdef_top x : bdef x = true -> top_definite x = true.
Proof. destruct x as [|c n [lo|] ch]; cbn; intros H; [reflexivity|reflexivity|discriminate]. Qed.

(* ------------------------------------------------------------------ *)
(** * Tree-level member loops: mapping the values decoded *)

Definition tmap (g : value -> value) (t : tried) : tried :=
  match t with TryVal v => TryVal (g v) | TryMis => TryMis | TryUnknown => TryUnknown end.

Definition mapv (Pn : string -> value -> value) (l : list (string * value)) : list (string * value) :=
  map (fun nw => (fst nw, Pn (fst nw) (snd nw))) l.

Lemma mapv_app Pn a b : mapv Pn (a ++ b) = mapv Pn a ++ mapv Pn b.
Proof. apply map_app. Qed.
Lemma mapv_rev Pn a : mapv Pn (rev a) = rev (mapv Pn a).
Proof. apply map_rev. Qed.
Lemma mapv_add_values Pn vals vs : mapv Pn (add_values vals vs) = add_values (mapv Pn vals) (mapv Pn vs).
Proof. rewrite !add_values_rev, mapv_app, mapv_rev. reflexivity. Qed.
Lemma lookup_mapv Pn n l : lookup n (mapv Pn l) = option_map (Pn n) (lookup n l).
Proof.
  induction l as [|[k w] l IH]; cbn [mapv map lookup fst snd option_map]; [reflexivity|].
  destruct (String.eqb n k) eqn:E; [apply String.eqb_eq in E; subst; reflexivity|exact IH].
Qed.

Section Nat.
Variables tr1 tr2 : member_of ty -> btlv -> tried.
Variable Pn : string -> value -> value.

Definition trel (m1 m2 : member_of ty) : Prop :=
  m_name m1 = m_name m2 /\ m_opt m1 = m_opt m2 /\
  (forall x, tr1 m1 x = tmap (Pn (m_name m2)) (tr2 m2 x)) /\
  (forall d, m_opt m2 = Default d -> Pn (m_name m2) d = d).

Lemma tpass_nat : forall ms1 ms2, Forall2 trel ms1 ms2 -> forall xs xs' vs2 un2 s,
  tpass tr2 ms2 xs = Some (xs', vs2, un2, s) ->
  exists un1, tpass tr1 ms1 xs = Some (xs', mapv Pn vs2, un1, s) /\ Forall2 trel un1 un2.
Proof.
  induction 1 as [|m1 m2 r1 r2 Hm F IH]; intros xs xs' vs2 un2 s H; cbn [tpass] in *.
  - injection H as <- <- <- <-. exists []. split; [reflexivity|constructor].
  - destruct xs as [|x xr].
    + injection H as <- <- <- <-. exists (m1 :: r1). split; [reflexivity|]. constructor; assumption.
    + pose proof Hm as (Hn & Ho & Ht & Hd). rewrite Ht. destruct (tr2 m2 x) as [v| |]; cbn [tmap]; [| |discriminate].
      * destruct (tpass tr2 r2 xr) as [[[[a b] c] d]|] eqn:E; [|discriminate]. injection H as <- <- <- <-.
        destruct (IH _ _ _ _ _ E) as (un1 & -> & Hu). exists un1. split; [|exact Hu].
        cbn [mapv map fst snd]. rewrite Hn. reflexivity.
      * destruct (tpass tr2 r2 (x :: xr)) as [[[[a b] c] d]|] eqn:E; [|discriminate]. injection H as <- <- <- <-.
        destruct (IH _ _ _ _ _ E) as (un1 & -> & Hu). exists (m1 :: un1). split; [reflexivity|].
        constructor; assumption.
Qed.

Lemma defaults_nat un1 un2 : Forall2 trel un1 un2 ->
  defaults_of un1 = mapv Pn (defaults_of un2) /\ no_mandatory un1 = no_mandatory un2.
Proof.
  induction 1 as [|m1 m2 r1 r2 (Hn & Ho & _ & Hd) F [IH1 IH2]]; [split; reflexivity|].
  cbn [defaults_of no_mandatory forallb]. rewrite Ho. fold (no_mandatory r1). fold (no_mandatory r2). rewrite IH2.
  split; [|reflexivity].
  destruct (m_opt m2) as [| |d] eqn:E; [reflexivity|exact IH1|].
  cbn [mapv map fst snd]. rewrite (Hd d eq_refl), Hn, IH1. reflexivity.
Qed.

Lemma trel_mis un1 un2 x : Forall2 trel un1 un2 ->
  (forall m2, In m2 un2 -> tr2 m2 x = TryMis) -> forall m1, In m1 un1 -> tr1 m1 x = TryMis.
Proof.
  intros F H m1 Hm1. destruct (Forall2_in_l _ _ _ _ F Hm1) as (m2 & Hm2 & (_ & _ & Ht & _)).
  rewrite Ht, (H m2 Hm2). reflexivity.
Qed.
End Nat.

(** one pass decides the loop when the skipped members do not answer to the
    first encoding that is left *)
Lemma tloop_one_pass tr ms xs vals xs' vs un s :
  tpass tr ms xs = Some (xs', vs, un, s) ->
  (s = true -> match xs' with [] => True | y :: _ => forall m, In m un -> tr m y = TryMis end) ->
  tloop tr (S (length ms)) ms xs vals = Some (xs', add_values vals vs, un).
Proof.
  intros Hp Hin. cbn [tloop]. rewrite Hp. destruct xs' as [|y ys]; [reflexivity|].
  destruct s; cbn [negb]; [|reflexivity].
  pose proof (tpass_success_nonempty _ _ _ _ _ _ Hp) as Hne.
  destruct ms as [|m0 ms']; [contradiction|]. cbn [length tloop].
  rewrite tpass_inert by (apply Hin; reflexivity). cbn [negb]. reflexivity.
Qed.

(* ------------------------------------------------------------------ *)
(** * SEQUENCE contents with a definite end, for any tree-level description
      of the components: what is left when the loops stop is skipped *)

Section SeqContents.
Variable numeric : bool.
Variable e : env.
Local Notation decb := (dec false numeric e).

Lemma seq_contents_tr f (tr : member_of ty -> btlv -> tried) root ext data q r' en ch xs2 vals1 un1 xs3 vals2 un2 :
  behaves tr (fun m o => decb f None (m_ty m) data o) data (root ++ flat_additions ext) ch ->
  data = q ++ children_bytes ch ++ r' ->
  en = (length q + length (children_bytes ch))%nat ->
  forallb bwf ch = true ->
  tloop tr (S (length root)) root ch [] = Some (xs2, vals1, un1) -> no_mandatory un1 = true ->
  match flat_additions ext with
  | [] => vals2 = rev (defaults_of un1) ++ vals1 /\ un2 = []
  | adds => tloop tr (S (length adds)) adds xs2 (rev (defaults_of un1) ++ vals1) = Some (xs3, vals2, un2)
  end ->
  (let decm := fun m o => decb f None (m_ty m) data o in
   let* (off2, out2, vals) :=
      (let* (off1, out1, vals1) := decode_members decm data (Some en) root false (length q) false [] in
       match additions_flat ext with
       | [] => Ok (off1, out1, vals1)
       | adds => decode_members decm data (Some en) adds true off1 out1 vals1
       end) in
   let v := VSeq (canon_fields (members_of root ext) vals) in
   if out2 then Ok (v, off2)
   else match Some en with None => Err EDecode | Some en' => Ok (v, en') end)
  = Ok (VSeq (canon_fields (root ++ flat_additions ext) (rev (defaults_of un2) ++ vals2)), en).
Proof.
  intros Hbeh Hd Hen Hw Hl1 Hnm Hl2.
  change (additions_flat ext) with (flat_additions ext).
  change (members_of root ext) with (root ++ flat_additions ext).
  remember (flat_additions ext) as adds eqn:Eadds0.
  cbv zeta. set (decm := fun (m : member_of ty) (o : nat) => decb f None (m_ty m) data o) in *.
  assert (Hcl : closed (Some en) (length q + length (children_bytes ch))%nat r') by exact Hen.
  unfold decode_members at 1.
  destruct (members_loop_tloop tr decm data (Some en) (S (length root)) root ch q r' [] xs2 vals1 un1
                               (length q) false Hd Hcl Hw)
    as (q1 & Hq1 & Hlen1 & Hloop1).
  { eapply behaves_incl; [exact Hbeh | apply incl_appl, incl_refl | apply incl_refl]. }
  { right. split; reflexivity. }
  { exact Hl1. }
  rewrite Hloop1. cbn [bind]. rewrite (members_missing_strict un1 _ _ Hnm). cbn [bind].
  destruct (tloop_suffix _ _ _ _ _ _ _ _ Hl1) as (dn & Hdn).
  assert (Hw2 : forallb bwf xs2 = true) by (rewrite Hdn, forallb_app in Hw; apply andb_prop in Hw; tauto).
  assert (Hcl2 : closed (Some en) (length q1 + length (children_bytes xs2))%nat r') by (rewrite Hlen1; exact Hcl).
  assert (Hend : forall (q0 : list Z) (xs : list btlv) v,
             (length q0 + length (children_bytes xs) = en)%nat ->
             (if isnil xs then Ok (v, pos (Some en) q0 xs) else @Ok (value * nat) (v, en)) = Ok (v, en)).
  { intros q0 xs v Hq0. destruct xs as [|x0 xs0]; cbn [isnil pos after_close]; [|reflexivity].
    unfold children_bytes in Hq0. cbn [map concat length] in Hq0. rewrite Nat.add_0_r in Hq0. rewrite Hq0. reflexivity. }
  destruct adds as [|a0 adds'] eqn:Eadds.
  - destruct Hl2 as [-> ->]. cbn [bind defaults_of rev app].
    apply Hend. rewrite Hlen1. symmetry. exact Hen.
  - rewrite <- Eadds in *.
    replace (match adds with [] => Ok (pos (Some en) q1 xs2, isnil xs2, rev (defaults_of un1) ++ vals1)
                        | _ :: _ => decode_members decm data (Some en) adds true (pos (Some en) q1 xs2) (isnil xs2)
                                                   (rev (defaults_of un1) ++ vals1) end)
      with (decode_members decm data (Some en) adds true (pos (Some en) q1 xs2) (isnil xs2) (rev (defaults_of un1) ++ vals1))
      by (rewrite Eadds; reflexivity).
    replace (match adds with [] => vals2 = rev (defaults_of un1) ++ vals1 /\ un2 = []
                        | _ :: _ => tloop tr (S (length adds)) adds xs2 (rev (defaults_of un1) ++ vals1) = Some (xs3, vals2, un2) end)
      with (tloop tr (S (length adds)) adds xs2 (rev (defaults_of un1) ++ vals1) = Some (xs3, vals2, un2)) in Hl2
      by (rewrite Eadds; reflexivity).
    unfold decode_members.
    destruct (members_loop_tloop tr decm data (Some en) (S (length adds)) adds xs2 q1 r'
                                 (rev (defaults_of un1) ++ vals1) xs3 vals2 un2
                                 (pos (Some en) q1 xs2) (isnil xs2) Hq1 Hcl2 Hw2)
      as (q2 & Hq2 & Hlen2 & Hloop2).
    { eapply behaves_incl; [exact Hbeh | apply incl_appr, incl_refl | rewrite Hdn; apply incl_appr, incl_refl]. }
    { left. split; reflexivity. }
    { exact Hl2. }
    rewrite Hloop2. cbn [bind]. rewrite members_missing_ignore. cbn [bind].
    apply Hend. rewrite Hlen2, Hlen1. symmetry. exact Hen.
Qed.

End SeqContents.

(* ------------------------------------------------------------------ *)
(** * The relation and the projection *)

Fixpoint find_pair (name : string) (ms1 ms2 : list (member_of ty)) : option (member_of ty * member_of ty) :=
  match ms1, ms2 with
  | m1 :: r1, m2 :: r2 => if String.eqb name (m_name m2) then Some (m1, m2) else find_pair name r1 r2
  | _, _ => None
  end.

(** the fields version 1 knows, projected, in declaration order *)
Fixpoint pfields (P : ty -> ty -> value -> value) (ms1 ms2 : list (member_of ty))
         (fields : list (string * value)) : list (string * value) :=
  match ms1, ms2 with
  | m1 :: r1, m2 :: r2 =>
    match lookup (m_name m2) fields with
    | Some w => (m_name m1, P (m_ty m1) (m_ty m2) w) :: pfields P r1 r2 fields
    | None => pfields P r1 r2 fields
    end
  | _, _ => []
  end.

(** an ENUMERATED datum as version 1 reports it: an item it has not is None *)
Definition proj_enum (numeric : bool) (items1 : list (string * Z)) (w : value) : value :=
  match enum_number numeric items1 w with Some _ => w | None => VNone end.

Section Ext.
Variable numeric : bool.
Variables e1 e2 : env.

(** [bproj f t1 t2 w]: the version-1 view of a version-2 decoded value [w] *)
Fixpoint bproj (f : nat) (t1 t2 : ty) (w : value) {struct f} : value :=
  match f with
  | O => w
  | S f' =>
    match t1, t2 with
    | TSeq _ r1 x1, TSeq _ r2 x2 =>
      match w with
      | VSeq fields => VSeq (pfields (bproj f') (r1 ++ flat_additions x1) (r2 ++ flat_additions x2) fields)
      | _ => w
      end
    | TSeqOf _ el1 _, TSeqOf _ el2 _ =>
      match w with VList ws => VList (map (bproj f' el1 el2) ws) | _ => w end
    | TChoice r1 x1, TChoice r2 x2 =>
      match w with
      | VChoice name x =>
        match find_pair name (alternatives r1 x1) (alternatives r2 x2) with
        | Some (m1, m2) => VChoice name (bproj f' (m_ty m1) (m_ty m2) x)
        | None => VUnknownChoice
        end
      | _ => w
      end
    | TEnum r1 x1, TEnum _ _ => proj_enum numeric (all_items r1 x1) w
    | TRef n1, TRef n2 =>
      match lookup n1 e1, lookup n2 e2 with
      | Some a, Some b => bproj f' a b w
      | _, _ => w
      end
    | TTag _ a, TTag _ b => bproj f' a b w
    | _, _ => w
    end
  end.

(** named clause (finding ber-untagged-extensible-choice-in-choice): the type
    of a CHOICE alternative must not be a CHOICE without a tag of its own that
    receives new alternatives *)
Fixpoint alt_stable (f : nat) (t1 t2 : ty) {struct f} : bool :=
  match f with
  | O => true
  | S f' =>
    match t1, t2 with
    | TRef n1, TRef n2 =>
      match lookup n1 e1, lookup n2 e2 with
      | Some a, Some b => alt_stable f' a b
      | _, _ => true
      end
    | TChoice r1 x1, TChoice r2 x2 => (length (alternatives r1 x1) =? length (alternatives r2 x2))%nat
    | _, _ => true
    end
  end.

(** components: same name, same optionality (with the DEFAULT value, which is
    its own projection), related types *)
Definition mrel (R : ty -> ty -> Prop) (P : ty -> ty -> value -> value) (m1 m2 : member_of ty) : Prop :=
  m_name m1 = m_name m2 /\ m_opt m1 = m_opt m2 /\ R (m_ty m1) (m_ty m2) /\
  (forall d, m_opt m2 = Default d -> P (m_ty m1) (m_ty m2) d = d).
(** alternatives: same name, related types, the named clause *)
Definition arel (R : ty -> ty -> Prop) (S : ty -> ty -> bool) (m1 m2 : member_of ty) : Prop :=
  m_name m1 = m_name m2 /\ R (m_ty m1) (m_ty m2) /\ S (m_ty m1) (m_ty m2) = true.

Fixpoint bextends (f : nat) (t1 t2 : ty) {struct f} : Prop :=
  match f with
  | O => True
  | S f' =>
    match t1, t2 with
    | TSeq s1 r1 x1, TSeq s2 r2 x2 =>
      s1 = false /\ s2 = false /\
      Forall2 (mrel (bextends f') (bproj f')) r1 r2 /\
      match x1, x2 with
      | None, None => True
      | Some _, Some _ =>
        exists new, Forall2 (mrel (bextends f') (bproj f')) (flat_additions x1) (firstn (length (flat_additions x1)) (flat_additions x2))
                    /\ flat_additions x2 = firstn (length (flat_additions x1)) (flat_additions x2) ++ new
      | _, _ => False
      end
    | TSeqOf s1 el1 _, TSeqOf s2 el2 _ => s1 = s2 /\ bextends f' el1 el2
    | TChoice r1 x1, TChoice r2 x2 =>
      Forall2 (arel (bextends f') (alt_stable f')) r1 r2 /\
      match x1, x2 with
      | None, None => True
      | Some a1, Some a2 => exists c2 new, a2 = c2 ++ new /\ Forall2 (arel (bextends f') (alt_stable f')) a1 c2
      | _, _ => False
      end
    | TEnum r1 x1, TEnum r2 x2 =>
      r1 = r2 /\
      match x1, x2 with
      | None, None => True
      | Some a1, Some a2 => exists new, a2 = a1 ++ new
      | _, _ => False
      end
    | TRef n1, TRef n2 =>
      n1 = n2 /\
      match lookup n1 e1, lookup n2 e2 with
      | Some a, Some b => bextends f' a b
      | _, _ => False
      end
    | TTag g1 a, TTag g2 b => g1 = g2 /\ bextends f' a b
    | _, _ => t1 = t2
    end
  end.

Definition is_leaf (t : ty) : bool :=
  match t with
  | TBool | TNull | TInt _ | TBits _ _ | TOctets _ | TStr _ _ _ | TOid => true
  | _ => false
  end.

(** SEQUENCE: the members both versions know, and the new ones *)
Lemma bext_seq_members f s1 r1 x1 s2 r2 x2 :
  bextends (S f) (TSeq s1 r1 x1) (TSeq s2 r2 x2) ->
  s1 = false /\ s2 = false /\
  exists ms2k new, r2 ++ flat_additions x2 = ms2k ++ new /\
    Forall2 (mrel (bextends f) (bproj f)) (r1 ++ flat_additions x1) ms2k /\
    Forall2 (mrel (bextends f) (bproj f)) r1 r2 /\
    exists a2k, ms2k = r2 ++ a2k /\ flat_additions x2 = a2k ++ new /\
                Forall2 (mrel (bextends f) (bproj f)) (flat_additions x1) a2k /\
                (x1 = None -> x2 = None) /\ (x2 = None -> x1 = None).
Proof.
  cbn [bextends]. intros (-> & -> & Hr & Hx). split; [reflexivity|]. split; [reflexivity|].
  destruct x1 as [a1|], x2 as [a2|]; try contradiction.
  - destruct Hx as (new & Ha & Hs). set (a2k := firstn (length (flat_additions (Some a1))) (flat_additions (Some a2))) in *.
    exists (r2 ++ a2k), new. split; [rewrite <- app_assoc; f_equal; exact Hs|].
    split; [apply Forall2_app_inv; assumption|]. split; [exact Hr|].
    exists a2k. repeat split; try assumption; discriminate.
  - exists r2, []. cbn [flat_additions]. rewrite !app_nil_r. split; [reflexivity|]. split; [exact Hr|]. split; [exact Hr|].
    exists []. rewrite app_nil_r. repeat split; try constructor; reflexivity.
Qed.

(** ** tags *)

Lemma untagged_ext : forall f t1 t2, bextends f t1 t2 -> untagged_choice e1 f t1 = untagged_choice e2 f t2.
Proof.
  induction f as [|f IH]; intros t1 t2 H; [reflexivity|].
  destruct t1; destruct t2; cbn [bextends] in H; try discriminate H; try reflexivity.
  destruct H as [-> H]. cbn [untagged_choice]. unfold assoc.
  destruct (lookup name0 e1); [|contradiction]. destruct (lookup name0 e2); [|contradiction]. apply IH. exact H.
Qed.

Lemma concat_incl {A} (l1 l2 : list (list A)) :
  (forall a, In a l1 -> exists b, In b l2 /\ incl a b) -> incl (concat l1) (concat l2).
Proof.
  intros H x Hx. apply in_concat in Hx. destruct Hx as (a & Ha & Hxa). destruct (H a Ha) as (b & Hb & Hab).
  apply in_concat. exists b. split; [exact Hb|apply Hab; exact Hxa].
Qed.

Lemma outer_tags_sub : forall f t1 t2, bextends f t1 t2 -> incl (outer_tags e1 f t1) (outer_tags e2 f t2).
Proof.
  induction f as [|f IH]; intros t1 t2 H; [apply incl_refl|].
  destruct t1; destruct t2; cbn [bextends] in H; try discriminate H;
    try (injection H; intros; subst); try apply incl_refl.
  - destruct H as (-> & -> & _). apply incl_refl.
  - destruct H as (-> & _). apply incl_refl.
  - (* CHOICE *)
    destruct H as (Hr & Hx). cbn [outer_tags].
    assert (Ha : exists new, Forall2 (arel (bextends f) (alt_stable f)) (alternatives root ext)
                               (firstn (length (alternatives root ext)) (alternatives root0 ext0))
                             /\ alternatives root0 ext0 = firstn (length (alternatives root ext)) (alternatives root0 ext0) ++ new).
    { unfold alternatives. destruct ext as [a1|], ext0 as [a2|]; try contradiction.
      - destruct Hx as (c2 & new & -> & Ha). exists new.
        assert (El : length (root ++ a1) = length (root0 ++ c2))
          by (rewrite !app_length, (Forall2_length _ _ _ Hr), (Forall2_length _ _ _ Ha); reflexivity).
        rewrite El, app_assoc, firstn_length_app. split; [apply Forall2_app_inv; assumption|reflexivity].
      - exists []. rewrite !app_nil_r, (Forall2_length _ _ _ Hr), firstn_all. split; [exact Hr|reflexivity]. }
    destruct Ha as (new & Ha & Es). rewrite Es, map_app, concat_app. apply incl_appl.
    apply concat_incl. intros a Hin. apply in_map_iff in Hin. destruct Hin as (m1 & <- & Hm1).
    destruct (Forall2_in_l _ _ _ _ Ha Hm1) as (m2 & Hm2 & (_ & Hb & _)).
    exists (outer_tags e2 f (m_ty m2)). split; [apply in_map_iff; exists m2; split; [reflexivity|exact Hm2]|apply IH; exact Hb].
  - destruct H as [-> H]. cbn [outer_tags]. unfold assoc.
    destruct (lookup name0 e1); [|contradiction]. destruct (lookup name0 e2); [|contradiction]. apply IH. exact H.
  - destruct H as [-> _]. apply incl_refl.
Qed.

Lemma has_tag_sub f t1 t2 x : bextends f t1 t2 -> has_tag e2 f t2 x = false -> has_tag e1 f t1 x = false.
Proof.
  intros H H2. unfold has_tag in *. destruct (existsb (tag_eqb (btag x)) (outer_tags e1 f t1)) eqn:E; [|reflexivity].
  apply existsb_exists in E. destruct E as (tg & Hin & Et).
  assert (existsb (tag_eqb (btag x)) (outer_tags e2 f t2) = true)
    by (apply existsb_exists; exists tg; split; [apply (outer_tags_sub f t1 t2 H); exact Hin|exact Et]).
  congruence.
Qed.

Lemma greedy_sub : forall f t1 t2, bextends f t1 t2 -> greedy_choice e2 f t2 = false -> greedy_choice e1 f t1 = false.
Proof.
  induction f as [|f IH]; intros t1 t2 H; [reflexivity|].
  destruct t1; destruct t2; cbn [bextends] in H; try discriminate H; try reflexivity.
  - destruct H as (Hr & Hx). cbn [greedy_choice].
    destruct ext as [a1|], ext0 as [a2|]; try contradiction; [intros; discriminate|].
    intros H2. destruct (existsb (fun m => greedy_choice e1 f (m_ty m)) root) eqn:E; [|reflexivity].
    apply existsb_exists in E. destruct E as (m1 & Hm1 & Hg).
    destruct (Forall2_in_l _ _ _ _ Hr Hm1) as (m2 & Hm2 & (_ & Hb & _)).
    assert (Hg2 : greedy_choice e2 f (m_ty m2) = false).
    { destruct (greedy_choice e2 f (m_ty m2)) eqn:E2; [|reflexivity].
      assert (existsb (fun m => greedy_choice e2 f (m_ty m)) root0 = true) by (apply existsb_exists; exists m2; split; assumption).
      congruence. }
    rewrite (IH _ _ Hb Hg2) in Hg. discriminate.
  - destruct H as [-> H]. cbn [greedy_choice].
    destruct (lookup name0 e1); [|contradiction]. destruct (lookup name0 e2); [|contradiction]. apply IH. exact H.
Qed.

(** under the named clause both versions answer to the same identifier octets *)
Lemma alt_tags_stable der : forall f ovr t1 t2, bextends f t1 t2 ->
  (ovr = None -> alt_stable f t1 t2 = true) ->
  alt_tags der e1 f ovr t1 = alt_tags der e2 f ovr t2.
Proof.
  induction f as [|f IH]; intros ovr t1 t2 H Hs; [reflexivity|].
  destruct t1; destruct t2; cbn [bextends] in H; try discriminate H;
    try (injection H; intros; subst); try reflexivity.
  - destruct H as (-> & -> & _). reflexivity.
  - destruct H as (-> & _). reflexivity.
  - (* CHOICE *)
    cbn [alt_tags]. destruct ovr as [cn|]; [reflexivity|]. specialize (Hs eq_refl). cbn [alt_stable] in Hs.
    apply Nat.eqb_eq in Hs. destruct H as (Hr & Hx).
    change (choice_members root ext) with (alternatives root ext).
    change (choice_members root0 ext0) with (alternatives root0 ext0).
    assert (Ha : Forall2 (arel (bextends f) (alt_stable f)) (alternatives root ext) (alternatives root0 ext0)).
    { unfold alternatives in *. destruct ext as [a1|], ext0 as [a2|]; try contradiction.
      - destruct Hx as (c2 & new & -> & Ha). rewrite !app_length, (Forall2_length _ _ _ Hr), (Forall2_length _ _ _ Ha) in Hs.
        destruct new; [|cbn [length] in Hs; lia]. rewrite app_nil_r. apply Forall2_app_inv; assumption.
      - rewrite !app_nil_r. exact Hr. }
    assert (Em : mapM (fun m => alt_tags der e1 f None (m_ty m)) (alternatives root ext)
                 = mapM (fun m => alt_tags der e2 f None (m_ty m)) (alternatives root0 ext0)).
    { clear -Ha IH. induction Ha as [|m1 m2 l1 l2 (_ & Hb & Hst) _ IHa]; [reflexivity|].
      cbn [mapM]. rewrite (IH None _ _ Hb (fun _ => Hst)), IHa. reflexivity. }
    rewrite Em. reflexivity.
  - destruct H as [-> H]. cbn [alt_tags]. cbn [alt_stable] in Hs.
    destruct (lookup name0 e1); [|contradiction]. destruct (lookup name0 e2); [|contradiction]. apply IH; assumption.
  - destruct H as [-> H]. cbn [alt_tags]. destruct (t_explicit tg0); [reflexivity|].
    apply IH; [exact H|discriminate].
Qed.

End Ext.
