(** C04, depth-bounded form of the acceptance theorem.

    [compiles] (Ber/BerAcceptBase.v) follows a type to the bottom of the fuel;
    for a recursive type it therefore asks, at the innermost unrolling, for tag
    tables that cannot be computed with the little fuel left there, and is
    never true.  The decoder only needs those tables down to the depth of the
    encoding it is given.  [compilesD d] asks for them only [d] constructed
    levels deep; the acceptance theorem holds for every BER tree of depth at
    most [S d], for recursive types too. *)
From Coq Require Import Permutation.
From Asn1V Require Import Base.Prelude Syntax.Asn1 Ber.Header Ber.HeaderProofs Ber.BerCommon Ber.X690 Ber.BerScope
     Ber.BerLeafA Ber.BerLeafB Ber.BerAcceptBase Ber.BerAcceptBits Ber.BerMembers Ber.BerSet Ber.BerTrunc Ber.BerImpl
     Ber.BerAccept Ber.BerChain.

Section MainD.
Variable numeric : bool.
Variable e : env.

Local Notation decb := (dec false numeric e).
Local Notation rd := (bread numeric e).
Local Notation alt := (alt_tags false e).
Local Notation reading := (BerAccept.reading numeric e).
Local Notation chain_ok := (BerChain.chain_ok e).
Local Notation reading_norm := (BerAccept.reading_norm numeric e).
Local Notation sequence_contents := (BerAccept.sequence_contents numeric e).
Local Notation set_contents := (BerAccept.set_contents numeric e).

Fixpoint compilesD (d fuel : nat) (t : ty) : bool :=
  match fuel with
  | O => true
  | S f =>
    match t with
    | TRef n => match lookup n e with Some t' => compilesD d f t' | None => false end
    | TTag tg t' =>
      if t_explicit tg then match d with O => true | S d' => compilesD d' f t' end
      else compilesD d f t'
    | TSeq isset root ext =>
      (if isset then is_ok (sort_members_ber e f root) else true) &&
      match d with
      | O => true
      | S d' => forallb (fun m => compilesD d' f (m_ty m) && chain_ok f (m_ty m) && is_ok (alt f None (m_ty m)))
                        (root ++ flat_additions ext)
      end
    | TSeqOf _ el _ => match d with O => true | S d' => compilesD d' f el end
    | TChoice root ext =>
      forallb (fun m => compilesD d f (m_ty m) && chain_ok f (m_ty m) && is_ok (alt f None (m_ty m)))
              (alternatives root ext)
    | TStr k _ _ => match string_tag k with Some _ => true | None => false end
    | _ => true
    end
  end.

Definition AccD (f : nat) : Prop := forall d ovr t x v p r,
  scope_enc numeric e f t = true -> scope_dec e f t = true -> compilesD d f t = true ->
  (bdepth x <= S d)%nat ->
  ovr_ok ovr -> (ovr <> None -> untagged_choice e f t = false) ->
  bwf x = true -> reading f ovr t x v ->
  decb f ovr t (p ++ bser x ++ r) (length p) = Ok (DVal v, (length p + length (bser x))%nat).

Lemma members_behave_D f d data ms xs :
  AccD f ->
  forallb (fun m => scope_enc numeric e f (m_ty m) && default_ok numeric e f m) ms = true ->
  forallb (fun m => scope_dec e f (m_ty m)) ms = true ->
  forallb (fun m => compilesD d f (m_ty m) && chain_ok f (m_ty m) && is_ok (alt f None (m_ty m))) ms = true ->
  forallb bwf xs = true -> Forall (fun x => (bdepth x <= S d)%nat) xs ->
  behaves (tr_of numeric e f) (fun m o => decb f None (m_ty m) data o) data ms xs.
Proof.
  intros IH Hse Hsd Hcp Hw Hdep m x q' r' Hm Hx ->.
  rewrite forallb_forall in Hse, Hsd, Hcp, Hw. rewrite Forall_forall in Hdep.
  pose proof (Hse m Hm) as H1. apply andb_prop in H1. destruct H1 as [H1 _].
  pose proof (Hcp m Hm) as H3. apply andb_prop in H3. destruct H3 as [H3 H4]. apply andb_prop in H3. destruct H3 as [H3 H5].
  unfold tr_of. destruct (has_tag e f (m_ty m) x) eqn:Eh.
  - destruct (rd f (m_ty m) x) as [v|] eqn:Ev; [|exact I].
    apply (IH d); try assumption; [apply Hsd; exact Hm | apply Hdep; exact Hx | exact I | congruence | apply Hw; exact Hx].
  - destruct (greedy_choice e f (m_ty m)) eqn:Eg; [exact I|].
    apply (dec_mismatch_c numeric e); try assumption; [exact I | congruence | intros _; exact Eg | apply Hw; exact Hx].
Qed.

Lemma bdepth_nil c n l ch : (bdepth (BCons c n l ch) <= 1)%nat -> ch = [].
Proof.
  destruct ch as [|y ch]; [reflexivity|]. cbn [bdepth fold_right]. intros H.
  assert (1 <= bdepth y)%nat by (destruct y; cbn; lia). lia.
Qed.

Theorem dec_accepts_D : forall f, AccD f.
Proof.
  induction f as [|f IH]; intros d ovr t x v p r Hse Hsd Hcp Hdep Ho Hu Hw Hr.
  { destruct ovr as [cn|]; cbn in Hr; [destruct Hr as (_ & c0 & n0 & H & _); discriminate | discriminate]. }
  cbn [scope_enc] in Hse. cbn [scope_dec] in Hsd. cbn [compilesD] in Hcp. cbn [dec].
  destruct t as [ | | c | root ext | named sz | sz | k sz alpha | | isset root ext | isset el sz | root ext | name | tg t'].
  - (* TBool *)
    destruct (reading_norm (S f) ovr TBool x v Univ 1 eq_refl Hr) as [Hb Ht]. cbn [bread] in Hb.
    destruct (bretag Univ 1 x) as [c' n' lo content|] eqn:Ex; [|discriminate].
    destruct (bretag_prim_inv _ _ _ _ _ _ _ Ex) as (Hx & -> & ->).
    destruct content as [|b [|]]; try discriminate. injection Hb as <-.
    rewrite Hx in *. cbn [btag fst snd] in *. rewrite btag_eta in Ht.
    apply (std_prim_accept (fun d => dec_bool d) ovr 1 _ _ lo [b] p r _ Ht Hw).
    intros q r'. apply dec_bool_at.
  - (* TNull *)
    destruct (reading_norm (S f) ovr TNull x v Univ 5 eq_refl Hr) as [Hb Ht]. cbn [bread] in Hb.
    destruct (bretag Univ 5 x) as [c' n' lo content|] eqn:Ex; [|discriminate].
    destruct (bretag_prim_inv _ _ _ _ _ _ _ Ex) as (Hx & -> & ->).
    destruct content; try discriminate. injection Hb as <-.
    rewrite Hx in *. cbn [btag fst snd] in *. rewrite btag_eta in Ht.
    apply (std_prim_accept (fun d off' _ => Ok (VNone, off')) ovr 5 _ _ lo [] p r _ Ht Hw).
    intros q r'. cbn [length]. rewrite Nat.add_0_r. reflexivity.
  - (* TInt *)
    destruct (reading_norm (S f) ovr (TInt c) x v Univ 2 eq_refl Hr) as [Hb Ht]. cbn [bread] in Hb.
    destruct (bretag Univ 2 x) as [c' n' lo content|] eqn:Ex; [|discriminate].
    destruct (bretag_prim_inv _ _ _ _ _ _ _ Ex) as (Hx & -> & ->).
    destruct (read_integer content) as [z|] eqn:Ez; [|discriminate]. injection Hb as <-.
    rewrite Hx in *. cbn [btag fst snd] in *. rewrite btag_eta in Ht.
    apply (std_prim_accept (fun d => dec_int d) ovr 2 _ _ lo content p r _ Ht Hw).
    intros q r'. apply dec_int_at. exact Ez.
  - (* TEnum *)
    destruct (reading_norm (S f) ovr (TEnum root ext) x v Univ 10 eq_refl Hr) as [Hb Ht]. cbn [bread] in Hb.
    destruct (bretag Univ 10 x) as [c' n' lo content|] eqn:Ex; [|discriminate].
    destruct (bretag_prim_inv _ _ _ _ _ _ _ Ex) as (Hx & -> & ->).
    destruct (read_integer content) as [z|] eqn:Ez; [|discriminate].
    rewrite Hx in *. cbn [btag fst snd] in *. rewrite btag_eta in Ht.
    unfold enum_ok in Hse. apply andb_prop in Hse. destruct Hse as [_ Hnn].
    apply (std_prim_accept (fun d => dec_enum numeric (enum_items root ext)
                                              (match ext with Some _ => true | None => false end) d)
                           ovr 10 _ _ lo content p r _ Ht Hw).
    intros q r'. apply (dec_enum_at numeric q content r' _ _ z v); [exact Hnn | exact Ez | exact Hb].
  - (* TBits *)
    destruct (reading_norm (S f) ovr (TBits named sz) x v Univ 3 eq_refl Hr) as [Hb Ht]. cbn [bread] in Hb.
    destruct (tag_eqb _ _); [|discriminate]. rewrite read_bits_true_bretag in Hb.
    destruct (read_bits true x) as [[bs nbits]|] eqn:Eb; [|discriminate]. cbn in Hb. injection Hb as <-.
    unfold string_decode. rewrite (mk_tag_of_x ovr 3 false x Ht Hw).
    apply pc_decode_bits; [apply bser_fuel; exact Hw | exact Hw | exact Eb].
  - (* TOctets *)
    destruct (reading_norm (S f) ovr (TOctets sz) x v Univ 4 eq_refl Hr) as [Hb Ht]. cbn [bread] in Hb.
    destruct (tag_eqb _ _); [|discriminate]. rewrite read_octets_true_bretag in Hb.
    destruct (read_octets true x) as [bs|] eqn:Eb; [|discriminate]. cbn in Hb. injection Hb as <-.
    unfold string_decode. rewrite (mk_tag_of_x ovr 4 false x Ht Hw).
    rewrite (pc_decode_octets _ x bs PcOctets p r); [reflexivity | apply bser_fuel; exact Hw | exact Hw | discriminate | exact Eb].
  - (* TStr *)
    destruct (string_tag k) as [u|] eqn:Ek; [|discriminate].
    assert (Hot : outer_tags e (S f) (TStr k sz alpha) = [(Univ, u)]) by (cbn [outer_tags]; rewrite Ek; reflexivity).
    destruct (reading_norm (S f) ovr (TStr k sz alpha) x v Univ u Hot Hr) as [Hb Ht]. cbn [bread] in Hb.
    rewrite Ek in Hb. destruct (tag_eqb _ _); [|discriminate]. rewrite read_octets_true_bretag in Hb.
    destruct (read_octets true x) as [bs|] eqn:Eb; [|discriminate].
    destruct (read_string k bs) as [cps|] eqn:Es; [|discriminate]. cbn in Hb. injection Hb as <-.
    unfold string_decode. rewrite (str_univ_tag_spec _ _ Ek). rewrite (mk_tag_of_x ovr u false x Ht Hw).
    rewrite (pc_decode_octets _ x bs (PcStr k) p r); [| apply bser_fuel; exact Hw | exact Hw | discriminate | exact Eb].
    cbn [octets_result]. unfold dec_str_prim. rewrite (str_decode_spec _ _ _ Es). reflexivity.
  - (* TOid *)
    destruct (reading_norm (S f) ovr TOid x v Univ 6 eq_refl Hr) as [Hb Ht]. cbn [bread] in Hb.
    destruct (bretag Univ 6 x) as [c' n' lo content|] eqn:Ex; [|discriminate].
    destruct (bretag_prim_inv _ _ _ _ _ _ _ Ex) as (Hx & -> & ->).
    destruct (read_oid content) as [arcs|] eqn:Ez; [|discriminate]. injection Hb as <-.
    rewrite Hx in *. cbn [btag fst snd] in *. rewrite btag_eta in Ht.
    destruct (bwf_prim _ _ _ _ Hw) as (_ & _ & Hbytes & _).
    apply (std_prim_accept (fun d => dec_oid d) ovr 6 _ _ lo content p r _ Ht Hw).
    intros q r'. apply dec_oid_at; assumption.
  - (* TSeq *)
    set (u := if isset then 17 else 16).
    assert (Hot : outer_tags e (S f) (TSeq isset root ext) = [(Univ, u)]) by reflexivity.
    destruct (reading_norm (S f) ovr (TSeq isset root ext) x v Univ u Hot Hr) as [Hb Ht]. cbn [bread] in Hb.
    destruct (bretag Univ u x) as [|c' n' l ch] eqn:Ex; [discriminate|].
    destruct (bretag_cons_inv _ _ _ _ _ _ _ Ex) as (Hx & -> & ->).
    fold u in Hb. rewrite Z.eqb_refl in Hb.
    destruct (bwf_tag x Hw) as [Hxn _].
    assert (Hmk : mk_tag ovr u true = identifier (fst (btag x)) true (snd (btag x))) by (apply mk_tag_of_x; assumption).
    fold u. rewrite Hmk.
    rewrite Hx in Hw, Hdep |- *. cbn [btag fst snd] in *.
    set (cx := fst (btag x)) in *. set (nx := snd (btag x)) in *.
    assert (Hwch : forallb bwf ch = true) by (destruct l; [apply bwf_cons_def in Hw | apply bwf_cons_indef in Hw]; tauto).
    apply andb_prop in Hcp. destruct Hcp as [Hsortok Hcpm].
    assert (Hbehave : forall data, behaves (tr_of numeric e f) (fun m o => decb f None (m_ty m) data o) data
                                           (root ++ flat_additions ext) ch).
    { intros data. destruct d as [|d'].
      - rewrite (bdepth_nil _ _ _ _ Hdep). intros m x0 q' r' _ [].
      - pose proof Hse as Hse'. pose proof Hsd as Hsd'.
        apply andb_prop in Hse'. destruct Hse' as [_ Hse']. apply andb_prop in Hsd'. destruct Hsd' as [Hsd' _].
        apply (members_behave_D f d'); try assumption. apply (bdepth_children _ _ _ _ _ Hdep). }
    destruct isset.
    + (* SET *)
      destruct (read_set e f (rd f) (length root) false (root ++ flat_additions ext) ch) as [[fields used]|] eqn:Ers;
        [|discriminate].
      destruct ((used =? length ch)%nat && forallb (fun x0 => existsb (fun m => has_tag e f (m_ty m) x0)
                                                                    (root ++ flat_additions ext)) ch) eqn:Echk;
        [|discriminate].
      injection Hb as <-. apply andb_prop in Echk. destruct Echk as [Hused Hown]. apply Nat.eqb_eq in Hused.
      destruct (sort_members_ber e f root) as [root'|] eqn:Esort; [|discriminate].
      assert (Hroot : compiled_root false e f true root = Ok root') by (unfold compiled_root; cbn [andb negb]; exact Esort).
      destruct l as [lo|].
      * destruct (bwf_cons_def _ _ _ _ Hw) as (_ & _ & _ & Hl).
        cbn [bser]. rewrite <- !app_assoc.
        rewrite (std_decode_definite cx true nx lo (concat (map bser ch)) r p true _ Hxn Hl).
        rewrite Hroot. cbn [bind end_of]. rewrite Nat2Z.id.
        set (q := p ++ identifier cx true nx ++ lo).
        replace (length p + length (identifier cx true nx) + length lo)%nat with (length q)
          by (unfold q; rewrite !app_length; lia).
        pose proof (set_contents f root root' ext (p ++ identifier cx true nx ++ lo ++ concat (map bser ch) ++ r)
                                 q r (Some (length q + length (concat (map bser ch)))%nat) ch fields used) as Hsc.
        cbn [scope_enc scope_dec] in Hsc. cbv zeta in Hsc. rewrite Hsc; try assumption.
        -- cbn [bind after_close]. f_equal. f_equal. unfold q, children_bytes. rewrite !app_length. lia.
        -- apply Hbehave.
        -- unfold q, children_bytes. rewrite <- !app_assoc. reflexivity.
        -- cbn [closed]. reflexivity.
      * cbn [bser]. rewrite <- !app_assoc. cbn [app].
        rewrite (std_decode_indefinite cx true nx (concat (map bser ch) ++ 0 :: 0 :: r) p).
        rewrite Hroot. cbn [bind end_of].
        set (q := p ++ identifier cx true nx ++ [128%Z]).
        replace (S (length p + length (identifier cx true nx))) with (length q)
          by (unfold q; rewrite !app_length; cbn [length]; lia).
        pose proof (set_contents f root root' ext (p ++ identifier cx true nx ++ 128 :: concat (map bser ch) ++ 0 :: 0 :: r)
                                 q (0 :: 0 :: r) None ch fields used) as Hsc.
        cbn [scope_enc scope_dec] in Hsc. cbv zeta in Hsc. rewrite Hsc; try assumption.
        -- cbn [bind after_close]. f_equal. f_equal. unfold q, children_bytes. rewrite !app_length. cbn [length].
           rewrite !app_length. cbn [length]. lia.
        -- apply Hbehave.
        -- unfold q, children_bytes. rewrite <- !app_assoc. reflexivity.
        -- cbn [closed]. eexists; reflexivity.
    + (* SEQUENCE *)
      destruct (read_sequence e f (rd f) (length root) false (root ++ flat_additions ext) ch) as [fields|] eqn:Ers;
        [|discriminate].
      cbn in Hb. injection Hb as <-.
      assert (Hroot : compiled_root false e f false root = Ok root) by reflexivity.
      destruct l as [lo|].
      * destruct (bwf_cons_def _ _ _ _ Hw) as (_ & _ & _ & Hl).
        cbn [bser]. rewrite <- !app_assoc.
        rewrite (std_decode_definite cx true nx lo (concat (map bser ch)) r p true _ Hxn Hl).
        rewrite Hroot. cbn [bind end_of]. rewrite Nat2Z.id.
        set (q := p ++ identifier cx true nx ++ lo).
        replace (length p + length (identifier cx true nx) + length lo)%nat with (length q)
          by (unfold q; rewrite !app_length; lia).
        pose proof (sequence_contents f root ext (p ++ identifier cx true nx ++ lo ++ concat (map bser ch) ++ r)
                                      q r (Some (length q + length (concat (map bser ch)))%nat) ch fields) as Hsc.
        cbn [scope_enc scope_dec compiles] in Hsc. cbv zeta in Hsc.
        rewrite Hsc; try assumption.
        -- cbn [bind after_close]. f_equal. f_equal. unfold q, children_bytes. rewrite !app_length. lia.
        -- apply Hbehave.
        -- unfold q, children_bytes. rewrite <- !app_assoc. reflexivity.
        -- cbn [closed]. reflexivity.
      * cbn [bser]. rewrite <- !app_assoc. cbn [app].
        rewrite (std_decode_indefinite cx true nx (concat (map bser ch) ++ 0 :: 0 :: r) p).
        rewrite Hroot. cbn [bind end_of].
        set (q := p ++ identifier cx true nx ++ [128%Z]).
        replace (S (length p + length (identifier cx true nx))) with (length q)
          by (unfold q; rewrite !app_length; cbn [length]; lia).
        pose proof (sequence_contents f root ext (p ++ identifier cx true nx ++ 128 :: concat (map bser ch) ++ 0 :: 0 :: r)
                                      q (0 :: 0 :: r) None ch fields) as Hsc.
        cbn [scope_enc scope_dec compiles] in Hsc. cbv zeta in Hsc.
        rewrite Hsc; try assumption.
        -- cbn [bind after_close]. f_equal. f_equal. unfold q, children_bytes. rewrite !app_length. cbn [length].
           rewrite !app_length. cbn [length]. lia.
        -- apply Hbehave.
        -- unfold q, children_bytes. rewrite <- !app_assoc. reflexivity.
        -- cbn [closed]. eexists; reflexivity.
  - (* TSeqOf *)
    set (u := if isset then 17 else 16).
    assert (Hot : outer_tags e (S f) (TSeqOf isset el sz) = [(Univ, u)]) by reflexivity.
    destruct (reading_norm (S f) ovr (TSeqOf isset el sz) x v Univ u Hot Hr) as [Hb Ht]. cbn [bread] in Hb.
    destruct (bretag Univ u x) as [|c' n' l ch] eqn:Ex; [discriminate|].
    destruct (bretag_cons_inv _ _ _ _ _ _ _ Ex) as (Hx & -> & ->).
    fold u in Hb. rewrite Z.eqb_refl in Hb.
    destruct (traverse (rd f el) ch) as [vs|] eqn:Etr; [|discriminate]. cbn in Hb. injection Hb as <-.
    destruct (bwf_tag x Hw) as [Hxn _].
    assert (Hmk : mk_tag ovr u true = identifier (fst (btag x)) true (snd (btag x))) by (apply mk_tag_of_x; assumption).
    fold u. rewrite Hmk. cbn [negb].
    rewrite Hx in Hw, Hdep |- *. cbn [btag fst snd] in *.
    set (cx := fst (btag x)) in *. set (nx := snd (btag x)) in *.
    assert (Hwch : forallb bwf ch = true) by (destruct l; [apply bwf_cons_def in Hw | apply bwf_cons_indef in Hw]; tauto).
    remember (p ++ bser (BCons cx nx l ch) ++ r) as data eqn:Ed.
    (* the elements *)
    assert (Hel : Forall2 (fun x0 v0 => forall q' r', data = q' ++ bser x0 ++ r' ->
                      decb f None el data (length q') = Ok (DVal v0, (length q' + length (bser x0))%nat)) ch vs).
    { destruct d as [|d']; [rewrite (bdepth_nil _ _ _ _ Hdep) in Etr |- *; cbn [traverse] in Etr; injection Etr as <-; constructor|].
      pose proof (bdepth_children _ _ _ _ _ Hdep) as Hdch.
      apply traverse_forall2 in Etr. clear -Etr Hwch IH Hse Hsd Hcp Hdch.
      induction Etr as [|y w ch vs Hy _ IHl]; [constructor|].
      cbn [forallb] in Hwch. apply andb_prop in Hwch. destruct Hwch as [Hwy Hwch].
      inversion Hdch as [|? ? Hdy Hdch']; subst.
      constructor; [|apply IHl; assumption].
      intros q' r' ->. apply (IH d'); try assumption; [exact I | congruence]. }
    assert (Hfuel : (length ch < S (length data))%nat).
    { subst data. rewrite !app_length. cbn [bser]. pose proof (children_bytes_length ch Hwch) as Hlen.
      unfold children_bytes in Hlen. destruct l; rewrite !app_length; cbn [length]; rewrite ?app_length; lia. }
    destruct l as [lo|].
    + destruct (bwf_cons_def _ _ _ _ Hw) as (_ & _ & _ & Hl).
      subst data. cbn [bser]. rewrite <- !app_assoc.
      rewrite (std_decode_definite cx true nx lo (concat (map bser ch)) r p true _ Hxn Hl).
      set (q := p ++ identifier cx true nx ++ lo).
      replace (length p + length (identifier cx true nx) + length lo)%nat with (length q)
        by (unfold q; rewrite !app_length; lia).
      rewrite (array_loop_spec _ _ (length q) (Some (Z.of_nat (length (concat (map bser ch))))) ch vs q r).
      * cbn [bind]. f_equal. f_equal. unfold q, children_bytes. rewrite !app_length. lia.
      * unfold q, children_bytes. rewrite <- !app_assoc. reflexivity.
      * cbn [bser] in Hel. repeat rewrite <- app_assoc in Hel. exact Hel.
      * exact Hwch.
      * unfold children_bytes. lia.
      * cbn [bser] in Hfuel. repeat rewrite <- app_assoc in Hfuel. exact Hfuel.
    + subst data. cbn [bser]. rewrite <- !app_assoc. cbn [app].
      rewrite (std_decode_indefinite cx true nx (concat (map bser ch) ++ 0 :: 0 :: r) p).
      set (q := p ++ identifier cx true nx ++ [128%Z]).
      replace (S (length p + length (identifier cx true nx))) with (length q)
        by (unfold q; rewrite !app_length; cbn [length]; lia).
      rewrite (array_loop_spec _ _ (length q) None ch vs q (0 :: 0 :: r)).
      * cbn [bind]. f_equal. f_equal. unfold q, children_bytes. rewrite !app_length. cbn [length]. rewrite !app_length. cbn [length]. lia.
      * unfold q, children_bytes. rewrite <- !app_assoc. reflexivity.
      * cbn [bser] in Hel. repeat rewrite <- app_assoc in Hel. cbn [app] in Hel. repeat rewrite <- app_assoc in Hel. exact Hel.
      * exact Hwch.
      * eexists; reflexivity.
      * cbn [bser] in Hfuel. repeat rewrite <- app_assoc in Hfuel. cbn [app] in Hfuel. repeat rewrite <- app_assoc in Hfuel. exact Hfuel.
  - (* TChoice *)
    destruct ovr as [cn|]; [specialize (Hu ltac:(discriminate)); discriminate|].
    cbn [BerAccept.reading bread] in Hr.
    destruct (filter _ (alternatives root ext)) as [|m [|m' l']] eqn:Ef; try discriminate.
    destruct (rd f (m_ty m) x) as [v'|] eqn:Ev; [|discriminate]. cbn in Hr. injection Hr as <-.
    destruct (filter_single _ _ _ Ef) as (l1 & l2 & Hl & Hf1 & Hf2 & Hm).
    destruct (bwf_tag x Hw) as [Hxn _].
    apply andb_prop in Hse. destruct Hse as [_ Hse]. apply andb_prop in Hsd. destruct Hsd as [Hsd _].
    rewrite forallb_forall in Hse, Hsd, Hcp.
    assert (Hinm : In m (alternatives root ext)) by (rewrite Hl; apply in_or_app; right; left; reflexivity).
    pose proof (Hcp m Hinm) as Hcm. apply andb_prop in Hcm. destruct Hcm as [Hcm Hokm]. apply andb_prop in Hcm. destruct Hcm as [Hcm Hchm].
    destruct (alt_tags false e f None (m_ty m)) as [ts|] eqn:Ets; [|discriminate].
    remember (p ++ bser x ++ r) as data eqn:Ed.
    set (idx := identifier (fst (btag x)) (bcons x) (snd (btag x))).
    assert (Ed' : data = p ++ idx ++ (after_id x ++ r))
      by (subst data; unfold idx; rewrite (bser_shape x) at 1; rewrite <- app_assoc; reflexivity).
    assert (Hskip : skip_tag data (length p) = Ok (length p + length idx)%nat).
    { rewrite Ed'. apply skip_tag_at; [exact Hxn|]. intros E. apply app_eq_nil in E. destruct E as [E _].
      revert E. apply after_id_nonempty. exact Hw. }
    assert (Hslice : slice data (length p) (length p + length idx) = idx) by (rewrite Ed'; apply slice_at).
    rewrite Hskip. cbn [bind]. rewrite Hslice.
    change (choice_members root ext) with (alternatives root ext). rewrite Hl.
    rewrite (find_alt_pick _ idx l1 m l2 ts Ets).
    + cbn [bind]. subst data.
      rewrite (IH d None (m_ty m) x v' p r (Hse m Hinm) (Hsd m Hinm) Hcm Hdep I ltac:(congruence) Hw Ev).
      cbn [bind]. reflexivity.
    + apply (alt_tags_complete_c numeric e f None (m_ty m) x v' ts (Hse m Hinm) Hchm I Hw Ev Ets).
    + apply Forall_forall. intros m2 Hm2.
      assert (Hin2 : In m2 (alternatives root ext)) by (rewrite Hl; apply in_or_app; right; right; exact Hm2).
      pose proof (Hcp m2 Hin2) as Hc2. apply andb_prop in Hc2. destruct Hc2 as [Hc2 Hok2]. apply andb_prop in Hc2. destruct Hc2 as [_ Hc2].
      destruct (alt_tags false e f None (m_ty m2)) as [ts2|] eqn:Ets2; [|discriminate].
      exists ts2. split; [reflexivity|].
      apply (not_listed_c numeric e f (m_ty m2) x ts2 (Hse m2 Hin2) Hc2 Hw Ets2).
      apply (filter_nil_forall _ _ Hf2 m2 Hm2).
  - (* TRef *)
    unfold assoc in *. cbn [untagged_choice] in Hu. unfold assoc in Hu.
    destruct (lookup name e) as [t'|] eqn:El; [|discriminate].
    apply (IH d); try assumption.
    destruct ovr as [cn|]; cbn [BerAccept.reading bread outer_tags] in *; unfold assoc in *; rewrite El in Hr; exact Hr.
  - (* TTag *)
    assert (Hot : outer_tags e (S f) (TTag tg t') = [(t_class tg, t_num tg)]) by reflexivity.
    destruct (reading_norm (S f) ovr (TTag tg t') x v _ _ Hot Hr) as [Hb Ht]. cbn [bread] in Hb.
    rewrite btag_bretag in Hb.
    assert (Heq : tag_eqb (t_class tg, t_num tg) (t_class tg, t_num tg) = true) by (apply tag_eqb_eq; reflexivity).
    rewrite Heq in Hb.
    apply andb_prop in Hse. destruct Hse as [Hse1 Hse3]. apply andb_prop in Hse1. destruct Hse1 as [Hn Hse2].
    apply andb_prop in Hsd. destruct Hsd as [_ Hsd].
    destruct (bwf_tag x Hw) as [Hxn _].
    destruct (t_explicit tg).
    + (* EXPLICIT *)
      destruct (bretag (t_class tg) (t_num tg) x) as [|c' n' l ch] eqn:Ex; [discriminate|].
      destruct (bretag_cons_inv _ _ _ _ _ _ _ Ex) as (Hx & -> & ->).
      destruct ch as [|inner [|]]; try discriminate.
      assert (Hd1 : exists d', d = S d' /\ (bdepth inner <= S d')%nat).
      { rewrite Hx in Hdep. cbn [bdepth fold_right] in Hdep. assert (1 <= bdepth inner)%nat by (destruct inner; cbn; lia).
        destruct d as [|d']; [lia|]. exists d'. split; [reflexivity|lia]. }
      destruct Hd1 as (d' & -> & Hdi).
      rewrite <- Ht. rewrite btag_eta. rewrite tag_octets_identifier by exact Hxn.
      rewrite Hx in Hw, Hdep |- *. cbn [btag fst snd] in *.
      set (cx := fst (btag x)) in *. set (nx := snd (btag x)) in *.
      destruct l as [lo|].
      * destruct (bwf_cons_def _ _ _ _ Hw) as (_ & _ & Hwch & Hl). cbn [forallb] in Hwch.
        apply andb_prop in Hwch. destruct Hwch as [Hwi _].
        cbn [bser map concat] in *. rewrite app_nil_r in *. rewrite <- !app_assoc.
        rewrite (std_decode_definite cx true nx lo (bser inner) r p true _ Hxn Hl).
        replace (p ++ identifier cx true nx ++ lo ++ bser inner ++ r)
          with ((p ++ identifier cx true nx ++ lo) ++ bser inner ++ r) by (rewrite <- !app_assoc; reflexivity).
        replace (length p + length (identifier cx true nx) + length lo)%nat
          with (length (p ++ identifier cx true nx ++ lo)) by (rewrite !app_length; lia).
        rewrite (IH d' None t' inner v _ r Hse3 Hsd Hcp Hdi I ltac:(congruence) Hwi Hb). cbn [bind].
        f_equal. f_equal. rewrite !app_length. lia.
      * destruct (bwf_cons_indef _ _ _ Hw) as (_ & _ & Hwch). cbn [forallb] in Hwch.
        apply andb_prop in Hwch. destruct Hwch as [Hwi _].
        cbn [bser map concat] in *. rewrite app_nil_r in *. rewrite <- !app_assoc. cbn [app].
        rewrite (std_decode_indefinite cx true nx (bser inner ++ 0 :: 0 :: r) p).
        replace (p ++ identifier cx true nx ++ 128 :: bser inner ++ 0 :: 0 :: r)
          with ((p ++ identifier cx true nx ++ [128%Z]) ++ bser inner ++ 0 :: 0 :: r)
          by (rewrite <- !app_assoc; reflexivity).
        replace (S (length p + length (identifier cx true nx)))
          with (length (p ++ identifier cx true nx ++ [128%Z])) by (rewrite !app_length; cbn [length]; lia).
        rewrite (IH d' None t' inner v _ (0 :: 0 :: r) Hse3 Hsd Hcp Hdi I ltac:(congruence) Hwi Hb). cbn [bind].
        replace ((p ++ identifier cx true nx ++ [128%Z]) ++ bser inner ++ 0 :: 0 :: r)
          with (((p ++ identifier cx true nx ++ [128%Z]) ++ bser inner) ++ 0 :: 0 :: r)
          by (rewrite <- !app_assoc; reflexivity).
        replace (length (p ++ identifier cx true nx ++ [128%Z]) + length (bser inner))%nat
          with (length ((p ++ identifier cx true nx ++ [128%Z]) ++ bser inner)) by (rewrite !app_length; reflexivity).
        rewrite detect_eoc_at_end. cbn [bind].
        f_equal. f_equal. rewrite !app_length. cbn [length]. rewrite !app_length. cbn [length]. lia.
    + (* IMPLICIT *)
      destruct (untagged_choice e f t') eqn:Euc; [discriminate|].
      destruct (outer_tags e f t') as [|[c' n'] [|]] eqn:Eo; try discriminate.
      rewrite bretag_bretag in Hb.
      apply (IH d); try assumption.
      * rewrite <- Ht. rewrite btag_eta. cbn [ovr_ok]. exact Hxn.
      * intros _. exact Euc.
      * cbn [BerAccept.reading]. split; [exact Ht|]. exists c', n'. split; [exact Eo | exact Hb].
Qed.

(** C04, main statement for all types in scope including recursive ones:
    every BER tree of depth at most [S d] that the specification reads as [v]
    is decoded, with any octets after it, to exactly [v]. *)
Theorem ber_accepts_tree_D d fuel t x v tail :
  in_scope numeric e fuel t = true -> compilesD d fuel t = true -> (bdepth x <= S d)%nat ->
  bwf x = true -> rd fuel t x = Some v ->
  Ber.BerImpl.ber_decode numeric fuel e t (bser x ++ tail) = Ok (v, length (bser x)).
Proof.
  intros Hs Hc Hd Hw Hr. unfold in_scope in Hs. apply andb_prop in Hs. destruct Hs as [Hs1 Hs2].
  unfold BerImpl.ber_decode, decode_top.
  pose proof (dec_accepts_D fuel d None t x v [] tail Hs1 Hs2 Hc Hd I ltac:(congruence) Hw Hr) as H.
  cbn [app length] in H. rewrite H. reflexivity.
Qed.

End MainD.
