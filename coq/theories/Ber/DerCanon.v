(** C03, corollary: two equal abstract values always encode to identical
    bytes.  [veq] (Ber/X690Canon.v) is abstract equality: an absent root
    component equals one present with its DEFAULT value, named-bit strings are
    equal modulo trailing zero bits (BIT STRINGs modulo the unused bits of the
    last octet), SET OF values are equal as multisets, field order and unknown
    field names of a SEQUENCE value do not matter. *)
From Asn1V Require Import Base.Prelude Syntax.Asn1 Ber.X690 Ber.BerScope Ber.X690Canon Ber.DerImpl Ber.DerRefine.

Theorem der_canonical numeric e fuel t v1 v2 bs :
  scope_enc numeric e fuel t = true ->
  veq e fuel t v1 v2 ->
  X690.der_encode numeric e fuel t v1 = Some bs -> small bs ->
  DerImpl.der_encode numeric fuel e t v1 = Ok bs /\ DerImpl.der_encode numeric fuel e t v2 = Ok bs.
Proof.
  intros Hs Hv H1 Hsm. split.
  - apply der_refines_x690; assumption.
  - apply der_refines_x690; try assumption.
    apply (x690_canonical numeric e fuel t v1 v2 bs Hs Hv H1).
Qed.
