(** C07 for BER with SET containers: the relation [bextends_s] is [bextends]
    (Ber/BerExtendsBase.v) with SET nodes ([TSeq true]) admitted — root
    components pairwise related, existing additions pairwise related, but no
    NEW addition at the SET node itself ([s1 = true -> new = []]) — so that a
    specification is not restricted to SEQUENCE-only types ([bextends_s_of]:
    it subsumes [bextends]).  [fwd_accepts_s] is the acceptance induction of
    Ber/BerExtends.v re-run for this relation (the non-SET cases are the same
    text), with the SET case: [BerSet.set_one_loop] for version 2, both
    versions sort the root components alike ([static_tag_ext_s],
    [sort_members_zip]), [tloop_nat] transports the loop, [set_contents_tr]
    runs the decoder.  Corollaries [ber_forward_tree_s_partial],
    [ber_forward_s_partial], [der_encoding_ber_forward_s_partial]. *)
(* OPEN: a SET node that itself receives additions (BER: fine for the
   encoder's own order, node theorem BerExt.ber_set_forward; sorted DER
   encodings: refuted); backward with SET containers; the DER decoder. *)
From Coq Require Import Permutation.
From Asn1V Require Import Base.Prelude Syntax.Asn1 Ber.Header Ber.HeaderProofs Ber.BerCommon Ber.X690 Ber.BerScope
     Ber.BerLeafA Ber.BerLeafB Ber.DerImpl Ber.BerImpl Ber.DerRefine Ber.X690Canon Ber.X690Read
     Ber.BerAcceptBase Ber.BerMembers Ber.BerSet Ber.BerAccept Ber.BerTrunc Ber.BerRoundtrip Ber.DerAccept
     Ber.DerBer Ber.BerRoundtripFull Ber.BerExt Ber.BerExtendsBase Ber.BerExtends.

(* ------------------------------------------------------------------ *)
(** * Generic: the loops, filters and sorting on related member lists *)

Section NatLoop.
Variables tr1 tr2 : member_of ty -> btlv -> tried.
Variable Pn : string -> value -> value.
Local Notation trl := (trel tr1 tr2 Pn).

Lemma tloop_nat : forall n ms1 ms2 xs vals2 xs' vals2' un2,
  Forall2 trl ms1 ms2 ->
  tloop tr2 n ms2 xs vals2 = Some (xs', vals2', un2) ->
  exists un1, tloop tr1 n ms1 xs (mapv Pn vals2) = Some (xs', mapv Pn vals2', un1) /\ Forall2 trl un1 un2.
Proof.
  induction n as [|n IH]; intros ms1 ms2 xs vals2 xs' vals2' un2 F H; [discriminate|].
  cbn [tloop] in *. destruct (tpass tr2 ms2 xs) as [[[[xa vs] unp] s]|] eqn:Ep; [|discriminate].
  destruct (tpass_nat tr1 tr2 Pn _ _ F _ _ _ _ _ Ep) as (un1 & -> & Fu). rewrite <- mapv_add_values.
  destruct xa as [|x0 xr].
  - injection H as <- <- <-. exists un1. split; [reflexivity|exact Fu].
  - destruct (negb s).
    + injection H as <- <- <-. exists un1. split; [reflexivity|exact Fu].
    + apply (IH _ _ _ _ _ _ _ Fu H).
Qed.

Lemma filter_nat (p1 p2 : member_of ty -> bool) l1 l2 :
  Forall2 (fun a b => trl a b /\ p1 a = p2 b) l1 l2 -> Forall2 trl (filter p1 l1) (filter p2 l2).
Proof.
  induction 1 as [|a b l1 l2 [Hr Hp] _ IH]; [constructor|]. cbn [filter]. rewrite Hp.
  destruct (p2 b); [constructor; assumption|exact IH].
Qed.
End NatLoop.

Section SortZip.
Variables (A B : Type) (R : A -> B -> Prop).
Let Rk (a : list Z * A) (b : list Z * B) : Prop := fst a = fst b /\ R (snd a) (snd b).

Lemma insert_zip x y l1 l2 : Rk x y -> Forall2 Rk l1 l2 ->
  Forall2 Rk (insert_sorted (fun a b => bytes_leb (fst a) (fst b)) x l1)
             (insert_sorted (fun a b => bytes_leb (fst a) (fst b)) y l2).
Proof.
  intros Hxy F. induction F as [|a b l1 l2 Hab F IH]; cbn [insert_sorted]; [constructor; [exact Hxy|constructor]|].
  destruct Hxy as [Hk Hr]. destruct Hab as [Hk' Hr']. rewrite Hk, Hk'.
  destruct (bytes_leb (fst y) (fst b)).
  - constructor; [split; assumption|]. constructor; [split; assumption|exact F].
  - constructor; [split; assumption|]. apply IH.
Qed.

Lemma isort_zip l1 l2 : Forall2 Rk l1 l2 ->
  Forall2 Rk (isort (fun a b => bytes_leb (fst a) (fst b)) l1) (isort (fun a b => bytes_leb (fst a) (fst b)) l2).
Proof. induction 1 as [|a b l1 l2 Hab F IH]; cbn [isort]; [constructor|]. apply insert_zip; assumption. Qed.

Lemma map_snd_zip l1 l2 : Forall2 Rk l1 l2 -> Forall2 R (map snd l1) (map snd l2).
Proof. induction 1 as [|a b l1 l2 [_ Hr] _ IH]; cbn [map]; constructor; assumption. Qed.
End SortZip.

Lemma sort_members_zip (R : member_of ty -> member_of ty -> Prop) e1 e2 f r1 r2 r1' r2' :
  Forall2 (fun a b => R a b /\ static_tag_key e1 f (m_ty a) = static_tag_key e2 f (m_ty b)) r1 r2 ->
  sort_members_ber e1 f r1 = Ok r1' -> sort_members_ber e2 f r2 = Ok r2' -> Forall2 R r1' r2'.
Proof.
  intros F H1 H2. unfold sort_members_ber in *.
  destruct (mapM _ r1) as [k1|] eqn:E1; [|discriminate]. destruct (mapM _ r2) as [k2|] eqn:E2; [|discriminate].
  cbn [bind] in *. injection H1 as <-. injection H2 as <-.
  apply map_snd_zip. apply isort_zip.
  revert k1 k2 E1 E2. induction F as [|a b l1 l2 [Hr Hk] F IH]; intros k1 k2 E1 E2; cbn [mapM] in *.
  - injection E1 as <-. injection E2 as <-. constructor.
  - rewrite Hk in E1. destruct (static_tag_key e2 f (m_ty b)) as [kb|]; [|discriminate]. cbn [bind] in *.
    destruct (mapM _ l1) as [k1'|] eqn:E1'; [|discriminate]. destruct (mapM _ l2) as [k2'|] eqn:E2'; [|discriminate].
    cbn [bind] in *. injection E1 as <-. injection E2 as <-. constructor; [split; [reflexivity|exact Hr]|].
    apply IH; reflexivity.
Qed.

Lemma lookup_canon ms V m : NoDup (map (@m_name ty) ms) -> In m ms ->
  lookup (m_name m) (canon_fields ms V) = lookup (m_name m) V.
Proof.
  induction ms as [|a ms IH]; intros Hnd Hin; [destruct Hin|].
  cbn [map] in Hnd. inversion Hnd as [|? ? Hnot Hnd']; subst. cbn [canon_fields].
  destruct Hin as [->|Hin].
  - destruct (lookup (m_name m) V) eqn:E.
    + cbn [lookup]. rewrite String.eqb_refl. reflexivity.
    + apply lookup_none. intros X. apply Hnot.
      clear -X. induction ms as [|b ms IH]; cbn [canon_fields] in X; [destruct X|].
      destruct (lookup (m_name b) V); [destruct X as [X|X]; [left; exact X|right; exact (IH X)]|right; exact (IH X)].
  - assert (Hne : String.eqb (m_name m) (m_name a) = false).
    { apply String.eqb_neq. intros E. apply Hnot. rewrite <- E. apply in_map. exact Hin. }
    destruct (lookup (m_name a) V); [cbn [lookup]; rewrite Hne|]; apply IH; assumption.
Qed.

(** SET contents with a definite end, for any tree-level description of the
    components under which one loop consumes every encoding *)
Section SetContents.
Variable numeric : bool.
Variable e : env.
Local Notation decb := (dec false numeric e).

Lemma set_contents_tr f (tr : member_of ty -> btlv -> tried) root root' ext data q r' en ch vals un :
  behaves tr (fun m o => decb f None (m_ty m) data o) data (root' ++ flat_additions ext) ch ->
  data = q ++ children_bytes ch ++ r' ->
  en = (length q + length (children_bytes ch))%nat ->
  forallb bwf ch = true ->
  tloop tr (S (length (root' ++ flat_additions ext))) (root' ++ flat_additions ext) ch [] = Some ([], vals, un) ->
  no_mandatory (filter (fun m => negb (is_add (flat_additions ext) m)) un) = true ->
  (let decm := fun m o => decb f None (m_ty m) data o in
   let* (off2, out2, vals2) :=
      (let adds := additions_flat ext in
       let is_add := fun m => existsb (fun a => String.eqb (m_name m) (m_name a)) adds in
       let* (off1, out1, vals1, un) :=
          members_loop (S (length (root' ++ adds))) decm data (Some en) (root' ++ adds) (length q) false [] in
       let* vals1' := members_missing (filter (fun m => negb (is_add m)) un) false out1 vals1 in
       let* vals1'' := members_missing (filter is_add un) true out1 vals1' in
       Ok (off1, out1, vals1'')) in
   let v := VSeq (canon_fields (members_of root ext) vals2) in
   if out2 then Ok (v, off2)
   else match Some en with None => Err EDecode | Some en' => Ok (v, en') end)
  = Ok (VSeq (canon_fields (root ++ flat_additions ext)
                (rev (defaults_of (filter (is_add (flat_additions ext)) un)) ++
                 rev (defaults_of (filter (fun m => negb (is_add (flat_additions ext) m)) un)) ++ vals)), en).
Proof.
  intros Hbeh Hd Hen Hw Hloop Hnm.
  change (additions_flat ext) with (flat_additions ext).
  change (members_of root ext) with (root ++ flat_additions ext).
  cbv zeta. set (decm := fun (m : member_of ty) (o : nat) => decb f None (m_ty m) data o) in *.
  assert (Hcl : closed (Some en) (length q + length (children_bytes ch))%nat r') by exact Hen.
  destruct (members_loop_tloop tr decm data (Some en) (S (length (root' ++ flat_additions ext))) (root' ++ flat_additions ext)
                               ch q r' [] [] vals un (length q) false Hd Hcl Hw Hbeh)
    as (q1 & Hq1 & Hlen1 & Hloop1).
  { right. split; reflexivity. }
  { exact Hloop. }
  rewrite Hloop1. cbn [bind isnil pos].
  unfold is_add in Hnm |- *. rewrite (members_missing_strict _ _ _ Hnm). cbn [bind].
  rewrite members_missing_ignore. cbn [bind after_close].
  f_equal. f_equal. unfold children_bytes in Hlen1. cbn [map concat length] in Hlen1. rewrite Nat.add_0_r in Hlen1.
  rewrite Hlen1. symmetry. exact Hen.
Qed.
End SetContents.

Section ExtS.
Variable numeric : bool.
Variables e1 e2 : env.

Fixpoint bextends_s (f : nat) (t1 t2 : ty) {struct f} : Prop :=
  match f with
  | O => True
  | S f' =>
    match t1, t2 with
    | TSeq s1 r1 x1, TSeq s2 r2 x2 =>
      s1 = s2 /\
      Forall2 (mrel (bextends_s f') (bproj numeric e1 e2 f')) r1 r2 /\
      match x1, x2 with
      | None, None => True
      | Some _, Some _ =>
        exists new, Forall2 (mrel (bextends_s f') (bproj numeric e1 e2 f')) (flat_additions x1) (firstn (length (flat_additions x1)) (flat_additions x2))
                    /\ flat_additions x2 = firstn (length (flat_additions x1)) (flat_additions x2) ++ new
                    /\ (s1 = true -> new = [])
      | _, _ => False
      end
    | TSeqOf s1 el1 _, TSeqOf s2 el2 _ => s1 = s2 /\ bextends_s f' el1 el2
    | TChoice r1 x1, TChoice r2 x2 =>
      Forall2 (arel (bextends_s f') (alt_stable e1 e2 f')) r1 r2 /\
      match x1, x2 with
      | None, None => True
      | Some a1, Some a2 => exists c2 new, a2 = c2 ++ new /\ Forall2 (arel (bextends_s f') (alt_stable e1 e2 f')) a1 c2
      | _, _ => False
      end
    | TEnum r1 x1, TEnum r2 x2 =>
      r1 = r2 /\
      match x1, x2 with
      | None, None => True
      | Some a1, Some a2 => exists new, a2 = a1 ++ new
      | _, _ => False
      end
    | TRef n1, TRef n2 =>
      n1 = n2 /\
      match lookup n1 e1, lookup n2 e2 with
      | Some a, Some b => bextends_s f' a b
      | _, _ => False
      end
    | TTag g1 a, TTag g2 b => g1 = g2 /\ bextends_s f' a b
    | _, _ => t1 = t2
    end
  end.

(** SEQUENCE: the members both versions know, and the new ones *)
Lemma bext_seq_members_s f s1 r1 x1 s2 r2 x2 :
  bextends_s (S f) (TSeq s1 r1 x1) (TSeq s2 r2 x2) ->
  s1 = s2 /\
  exists ms2k new, r2 ++ flat_additions x2 = ms2k ++ new /\
    Forall2 (mrel (bextends_s f) (bproj numeric e1 e2 f)) (r1 ++ flat_additions x1) ms2k /\
    Forall2 (mrel (bextends_s f) (bproj numeric e1 e2 f)) r1 r2 /\
    exists a2k, ms2k = r2 ++ a2k /\ flat_additions x2 = a2k ++ new /\
                Forall2 (mrel (bextends_s f) (bproj numeric e1 e2 f)) (flat_additions x1) a2k /\
                (x1 = None -> x2 = None) /\ (x2 = None -> x1 = None) /\ (s1 = true -> new = []).
Proof.
  cbn [bextends_s]. intros (Es & Hr & Hx). split; [exact Es|].
  destruct x1 as [a1|], x2 as [a2|]; try contradiction.
  - destruct Hx as (new & Ha & Hs & Hsn). set (a2k := firstn (length (flat_additions (Some a1))) (flat_additions (Some a2))) in *.
    exists (r2 ++ a2k), new. split; [rewrite <- app_assoc; f_equal; exact Hs|].
    split; [apply Forall2_app_inv; assumption|]. split; [exact Hr|].
    exists a2k. repeat split; try assumption; discriminate.
  - exists r2, []. cbn [flat_additions]. rewrite !app_nil_r. split; [reflexivity|]. split; [exact Hr|]. split; [exact Hr|].
    exists []. rewrite app_nil_r. repeat split; try constructor; reflexivity.
Qed.

(** ** tags *)

Lemma untagged_ext_s : forall f t1 t2, bextends_s f t1 t2 -> untagged_choice e1 f t1 = untagged_choice e2 f t2.
Proof.
  induction f as [|f IH]; intros t1 t2 H; [reflexivity|].
  destruct t1; destruct t2; cbn [bextends_s] in H; try discriminate H; try reflexivity.
  destruct H as [-> H]. cbn [untagged_choice]. unfold assoc.
  destruct (lookup name0 e1); [|contradiction]. destruct (lookup name0 e2); [|contradiction]. apply IH. exact H.
Qed.

Lemma outer_tags_sub_s : forall f t1 t2, bextends_s f t1 t2 -> incl (outer_tags e1 f t1) (outer_tags e2 f t2).
Proof.
  induction f as [|f IH]; intros t1 t2 H; [apply incl_refl|].
  destruct t1; destruct t2; cbn [bextends_s] in H; try discriminate H;
    try (injection H; intros; subst); try apply incl_refl.
  - destruct H as (-> & _). apply incl_refl.
  - destruct H as (-> & _). apply incl_refl.
  - (* CHOICE *)
    destruct H as (Hr & Hx). cbn [outer_tags].
    assert (Ha : exists new, Forall2 (arel (bextends_s f) (alt_stable e1 e2 f)) (alternatives root ext)
                               (firstn (length (alternatives root ext)) (alternatives root0 ext0))
                             /\ alternatives root0 ext0 = firstn (length (alternatives root ext)) (alternatives root0 ext0) ++ new).
    { unfold alternatives. destruct ext as [a1|], ext0 as [a2|]; try contradiction.
      - destruct Hx as (c2 & new & -> & Ha). exists new.
        assert (El : length (root ++ a1) = length (root0 ++ c2))
          by (rewrite !app_length, (Forall2_length _ _ _ Hr), (Forall2_length _ _ _ Ha); reflexivity).
        rewrite El, app_assoc, firstn_length_app. split; [apply Forall2_app_inv; assumption|reflexivity].
      - exists []. rewrite !app_nil_r, (Forall2_length _ _ _ Hr), firstn_all. split; [exact Hr|reflexivity]. }
    destruct Ha as (new & Ha & Es). rewrite Es, map_app, concat_app. apply incl_appl.
    apply concat_incl. intros a Hin. apply in_map_iff in Hin. destruct Hin as (m1 & <- & Hm1).
    destruct (Forall2_in_l _ _ _ _ Ha Hm1) as (m2 & Hm2 & (_ & Hb & _)).
    exists (outer_tags e2 f (m_ty m2)). split; [apply in_map_iff; exists m2; split; [reflexivity|exact Hm2]|apply IH; exact Hb].
  - destruct H as [-> H]. cbn [outer_tags]. unfold assoc.
    destruct (lookup name0 e1); [|contradiction]. destruct (lookup name0 e2); [|contradiction]. apply IH. exact H.
  - destruct H as [-> _]. apply incl_refl.
Qed.

Lemma has_tag_sub_s f t1 t2 x : bextends_s f t1 t2 -> has_tag e2 f t2 x = false -> has_tag e1 f t1 x = false.
Proof.
  intros H H2. unfold has_tag in *. destruct (existsb (tag_eqb (btag x)) (outer_tags e1 f t1)) eqn:E; [|reflexivity].
  apply existsb_exists in E. destruct E as (tg & Hin & Et).
  assert (existsb (tag_eqb (btag x)) (outer_tags e2 f t2) = true)
    by (apply existsb_exists; exists tg; split; [apply (outer_tags_sub_s f t1 t2 H); exact Hin|exact Et]).
  congruence.
Qed.

Lemma greedy_sub_s : forall f t1 t2, bextends_s f t1 t2 -> greedy_choice e2 f t2 = false -> greedy_choice e1 f t1 = false.
Proof.
  induction f as [|f IH]; intros t1 t2 H; [reflexivity|].
  destruct t1; destruct t2; cbn [bextends_s] in H; try discriminate H; try reflexivity.
  - destruct H as (Hr & Hx). cbn [greedy_choice].
    destruct ext as [a1|], ext0 as [a2|]; try contradiction; [intros; discriminate|].
    intros H2. destruct (existsb (fun m => greedy_choice e1 f (m_ty m)) root) eqn:E; [|reflexivity].
    apply existsb_exists in E. destruct E as (m1 & Hm1 & Hg).
    destruct (Forall2_in_l _ _ _ _ Hr Hm1) as (m2 & Hm2 & (_ & Hb & _)).
    assert (Hg2 : greedy_choice e2 f (m_ty m2) = false).
    { destruct (greedy_choice e2 f (m_ty m2)) eqn:E2; [|reflexivity].
      assert (existsb (fun m => greedy_choice e2 f (m_ty m)) root0 = true) by (apply existsb_exists; exists m2; split; assumption).
      congruence. }
    rewrite (IH _ _ Hb Hg2) in Hg. discriminate.
  - destruct H as [-> H]. cbn [greedy_choice].
    destruct (lookup name0 e1); [|contradiction]. destruct (lookup name0 e2); [|contradiction]. apply IH. exact H.
Qed.

(** under the named clause both versions answer to the same identifier octets *)
Lemma alt_tags_stable_s der : forall f ovr t1 t2, bextends_s f t1 t2 ->
  (ovr = None -> alt_stable e1 e2 f t1 t2 = true) ->
  alt_tags der e1 f ovr t1 = alt_tags der e2 f ovr t2.
Proof.
  induction f as [|f IH]; intros ovr t1 t2 H Hs; [reflexivity|].
  destruct t1; destruct t2; cbn [bextends_s] in H; try discriminate H;
    try (injection H; intros; subst); try reflexivity.
  - destruct H as (-> & _). reflexivity.
  - destruct H as (-> & _). reflexivity.
  - (* CHOICE *)
    cbn [alt_tags]. destruct ovr as [cn|]; [reflexivity|]. specialize (Hs eq_refl). cbn [alt_stable] in Hs.
    apply Nat.eqb_eq in Hs. destruct H as (Hr & Hx).
    change (choice_members root ext) with (alternatives root ext).
    change (choice_members root0 ext0) with (alternatives root0 ext0).
    assert (Ha : Forall2 (arel (bextends_s f) (alt_stable e1 e2 f)) (alternatives root ext) (alternatives root0 ext0)).
    { unfold alternatives in *. destruct ext as [a1|], ext0 as [a2|]; try contradiction.
      - destruct Hx as (c2 & new & -> & Ha). rewrite !app_length, (Forall2_length _ _ _ Hr), (Forall2_length _ _ _ Ha) in Hs.
        destruct new; [|cbn [length] in Hs; lia]. rewrite app_nil_r. apply Forall2_app_inv; assumption.
      - rewrite !app_nil_r. exact Hr. }
    assert (Em : mapM (fun m => alt_tags der e1 f None (m_ty m)) (alternatives root ext)
                 = mapM (fun m => alt_tags der e2 f None (m_ty m)) (alternatives root0 ext0)).
    { clear -Ha IH. induction Ha as [|m1 m2 l1 l2 (_ & Hb & Hst) _ IHa]; [reflexivity|].
      cbn [mapM]. rewrite (IH None _ _ Hb (fun _ => Hst)), IHa. reflexivity. }
    rewrite Em. reflexivity.
  - destruct H as [-> H]. cbn [alt_tags]. cbn [alt_stable] in Hs.
    destruct (lookup name0 e1); [|contradiction]. destruct (lookup name0 e2); [|contradiction]. apply IH; assumption.
  - destruct H as [-> H]. cbn [alt_tags]. destruct (t_explicit tg0); [reflexivity|].
    apply IH; [exact H|discriminate].
Qed.


Lemma static_tag_ext_s : forall f ovr t1 t2, bextends_s f t1 t2 -> static_tag e1 f ovr t1 = static_tag e2 f ovr t2.
Proof.
  induction f as [|f IH]; intros ovr t1 t2 H; [reflexivity|].
  destruct t1; destruct t2; cbn [bextends_s] in H; try discriminate H;
    try (injection H; intros; subst); try reflexivity; destruct H as [-> H]; cbn [static_tag]; try reflexivity.
  - destruct (lookup name0 e1); [|contradiction]. destruct (lookup name0 e2); [|contradiction]. apply IH. exact H.
  - destruct (t_explicit tg0); [reflexivity|]. apply IH. exact H.
Qed.

End ExtS.

Section FwdS.
Variable numeric : bool.
Variables e1 e2 : env.
Local Notation dec1 := (dec false numeric e1).
Local Notation rd2 := (bread numeric e2).
Local Notation bx := (bextends_s numeric e1 e2).
Local Notation bp := (bproj numeric e1 e2).
Local Notation Pn_of := (BerExtends.Pn_of numeric e1 e2).
Local Notation tr1_of := (BerExtends.tr1_of numeric e1 e2).

Definition FwdAcc_s (f : nat) : Prop := forall ovr t1 t2 x w p r,
  bx f t1 t2 ->
  scope_enc numeric e1 f t1 = true -> scope_dec e1 f t1 = true -> compiles e1 f t1 = true ->
  scope_enc numeric e2 f t2 = true -> scope_dec e2 f t2 = true -> compiles e2 f t2 = true ->
  ovr_ok ovr -> (ovr <> None -> untagged_choice e2 f t2 = false) ->
  bwf x = true -> bdef x = true ->
  reading numeric e2 f ovr t2 x w ->
  dec1 f ovr t1 (p ++ bser x ++ r) (length p) = Ok (DVal (bp f t1 t2 w), (length p + length (bser x))%nat).

Lemma mrel_name_s f m1 m2 : mrel (bx f) (bp f) m1 m2 -> m_name m1 = m_name m2.
Proof. intros (H & _). exact H. Qed.
Lemma arel_name_s f m1 m2 : arel (bx f) (alt_stable e1 e2 f) m1 m2 -> m_name m1 = m_name m2.
Proof. intros (H & _). exact H. Qed.

Lemma members_trel_s f ms1 ms2k new :
  Forall2 (mrel (bx f) (bp f)) ms1 ms2k -> NoDup (map (@m_name ty) ms2k) ->
  Forall2 (fun m1 m2 => mrel (bx f) (bp f) m1 m2 /\
                        trel (tr1_of f ms1 (ms2k ++ new)) (tr_of numeric e2 f) (Pn_of f ms1 (ms2k ++ new)) m1 m2 /\
                        Pn_of f ms1 (ms2k ++ new) (m_name m2) = bp f (m_ty m1) (m_ty m2)) ms1 ms2k.
Proof.
  intros F Hnd. pose proof (find_pair_zip _ _ _ F Hnd new) as Hz.
  eapply Forall2_imp'; [|exact (Forall2_conj _ _ _ _ F Hz)]. intros m1 m2 _ _ [Hrel Hfind].
  pose proof Hrel as (Hn & Ho & Hb & Hd).
  assert (HP : Pn_of f ms1 (ms2k ++ new) (m_name m2) = bp f (m_ty m1) (m_ty m2)) by (unfold Pn_of; rewrite Hfind; reflexivity).
  split; [exact Hrel|]. split; [|exact HP]. repeat split; try assumption.
  - intros x. unfold tr1_of. rewrite Hn, Hfind. reflexivity.
  - intros d Hdd. rewrite HP. apply Hd. exact Hdd.
Qed.

Lemma members_behave_fwd_s f data ms1 ms2k new xs :
  FwdAcc_s f ->
  Forall2 (mrel (bx f) (bp f)) ms1 ms2k ->
  NoDup (map (@m_name ty) ms2k) ->
  forallb (fun m => scope_enc numeric e1 f (m_ty m) && default_ok numeric e1 f m) ms1 = true ->
  forallb (fun m => scope_dec e1 f (m_ty m)) ms1 = true ->
  forallb (fun m => compiles e1 f (m_ty m) && is_ok (alt_tags false e1 f None (m_ty m))) ms1 = true ->
  forallb (fun m => scope_enc numeric e2 f (m_ty m) && default_ok numeric e2 f m) (ms2k ++ new) = true ->
  forallb (fun m => scope_dec e2 f (m_ty m)) (ms2k ++ new) = true ->
  forallb (fun m => compiles e2 f (m_ty m) && is_ok (alt_tags false e2 f None (m_ty m))) (ms2k ++ new) = true ->
  forallb bwf xs = true -> forallb bdef xs = true ->
  behaves (tr1_of f ms1 (ms2k ++ new)) (fun m o => dec1 f None (m_ty m) data o) data ms1 xs.
Proof.
  intros IH F Hnd S1 D1 C1 S2 D2 C2 Hw Hdf m1 x q' r' Hm1 Hx ->.
  rewrite forallb_forall in S1, D1, C1, S2, D2, C2, Hw, Hdf.
  destruct (Forall2_in_l _ _ _ _ (members_trel_s f ms1 ms2k new F Hnd) Hm1) as (m2 & Hm2 & Hrel & (_ & _ & Ht & _) & HP).
  destruct Hrel as (Hn & Ho & Hb & Hd).
  assert (Hm2' : In m2 (ms2k ++ new)) by (apply in_or_app; left; exact Hm2).
  pose proof (S1 m1 Hm1) as A1. apply andb_prop in A1. destruct A1 as [A1 _].
  pose proof (C1 m1 Hm1) as A3. apply andb_prop in A3. destruct A3 as [A3 A4].
  pose proof (S2 m2 Hm2') as B1. apply andb_prop in B1. destruct B1 as [B1 _].
  pose proof (C2 m2 Hm2') as B3. apply andb_prop in B3. destruct B3 as [B3 B4].
  rewrite Ht. unfold tr_of. destruct (has_tag e2 f (m_ty m2) x) eqn:Eh.
  - destruct (rd2 f (m_ty m2) x) as [v|] eqn:Ev; [|exact I]. cbn [tmap]. rewrite HP.
    apply IH; try assumption; [apply D1; exact Hm1 | apply D2; exact Hm2' | exact I | congruence | apply Hw; exact Hx | apply Hdf; exact Hx].
  - destruct (greedy_choice e2 f (m_ty m2)) eqn:Eg; [exact I|]. cbn [tmap].
    apply dec_mismatch; try assumption.
    + exact I.
    + congruence.
    + intros _. exact (greedy_sub_s numeric e1 e2 f _ _ Hb Eg).
    + apply Hw; exact Hx.
    + exact (has_tag_sub_s numeric e1 e2 f _ _ x Hb Eh).
Qed.


Lemma seqof_elems_s f el el0 data ch vs :
  FwdAcc_s f -> bx f el el0 ->
  scope_enc numeric e1 f el = true -> scope_dec e1 f el = true -> compiles e1 f el = true ->
  scope_enc numeric e2 f el0 = true -> scope_dec e2 f el0 = true -> compiles e2 f el0 = true ->
  Forall2 (fun a b => rd2 f el0 a = Some b) ch vs -> forallb bwf ch = true -> forallb bdef ch = true ->
  Forall2 (fun x0 v0 => forall q' r', data = q' ++ bser x0 ++ r' ->
              dec1 f None el data (length q') = Ok (DVal v0, (length q' + length (bser x0))%nat))
          ch (map (bp f el el0) vs).
Proof.
  intros IH Hx S1 D1 C1 S2 D2 C2 Etr. induction Etr as [|y w ch vs Hy _ IHl]; intros Hwch Hdf; [constructor|].
  cbn [forallb] in Hwch, Hdf. apply andb_prop in Hwch. destruct Hwch as [Hwy Hwch].
  apply andb_prop in Hdf. destruct Hdf as [Hdy Hdf].
  cbn [map]. constructor; [|apply IHl; assumption].
  intros q' r' ->. apply IH; try assumption; [exact I | congruence].
Qed.

Theorem fwd_accepts_s : forall f, FwdAcc_s f.
Proof.
  induction f as [|f IH]; intros ovr t1 t2 x w p r Hx S1 D1 C1 S2 D2 C2 Ho Hu Hw Hdf Hr.
  { destruct ovr as [cn|]; cbn in Hr; [destruct Hr as (_ & c0 & n0 & H & _); discriminate | discriminate]. }
  destruct (is_leaf t1) eqn:El.
  { assert (E : t2 = t1)
      by (destruct t1; try discriminate El; destruct t2; cbn [bextends_s] in Hx; try discriminate Hx; symmetry; exact Hx).
    subst t2.
    replace (bp (S f) t1 t1 w) with w by (destruct t1; try discriminate El; reflexivity).
    apply (dec_accepts numeric e1 (S f) ovr t1 x w p r S1 D1 C1 Ho); [|exact Hw|].
    - intros _. destruct t1; try discriminate El; reflexivity.
    - destruct t1; try discriminate El; exact Hr. }
  destruct t1 as [ | | c | root ext | named sz | sz | k sz alpha | | isset root ext | isset el sz | root ext | name | tg t1'];
    try discriminate El;
    destruct t2 as [ | | c0 | root0 ext0 | named0 sz0 | sz0 | k0 sz0 alpha0 | | isset0 root0 ext0 | isset0 el0 sz0 | root0 ext0 | name0 | tg0 t2'];
    cbn [bextends_s] in Hx; try discriminate Hx.
  - (* ENUMERATED *)
    destruct Hx as [<- Hx].
    destruct (reading_norm numeric e2 (S f) ovr (TEnum root ext0) x w Univ 10 eq_refl Hr) as [Hb Ht]. cbn [bread] in Hb.
    destruct (bretag Univ 10 x) as [c' n' lo content|] eqn:Ex; [|discriminate].
    destruct (bretag_prim_inv _ _ _ _ _ _ _ Ex) as (Hxx & -> & ->).
    destruct (read_integer content) as [z|] eqn:Ez; [|discriminate].
    rewrite Hxx in *. cbn [btag fst snd] in *. rewrite btag_eta in Ht.
    cbn [scope_enc] in S2. cbn [dec bproj].
    apply (std_prim_accept (fun d => dec_enum numeric (enum_items root ext)
                                              (match ext with Some _ => true | None => false end) d)
                           ovr 10 _ _ lo content p r _ Ht Hw).
    intros q r'. change (enum_items root ext) with (all_items root ext).
    destruct ext as [a1|], ext0 as [a2|]; try contradiction.
    + destruct Hx as [new ->]. unfold all_items in *. rewrite app_assoc in S2, Hb.
      apply (dec_enum_fwd numeric q content r' (root ++ a1) new true z w S2 Ez Hb). reflexivity.
    + unfold all_items in *. rewrite <- (app_nil_r (root ++ [])) in S2, Hb.
      apply (dec_enum_fwd numeric q content r' (root ++ []) [] false z w S2 Ez Hb). intros X; contradiction X; reflexivity.
  - (* SEQUENCE / SET *)
    destruct (bext_seq_members_s numeric e1 e2 f _ _ _ _ _ _ Hx)
      as (-> & ms2k & new & Ems & Fall & Froot & a2k & -> & Ea2 & Fadds & Hx1 & Hx2 & Hsn).
    destruct isset0.
    { (* SET: a container of extended types, no addition of its own *)
      assert (Hnew : new = []) by (apply Hsn; reflexivity). subst new. rewrite app_nil_r in Ea2.
      destruct (reading_norm numeric e2 (S f) ovr (TSeq true root0 ext0) x w Univ 17 eq_refl Hr) as [Hb Ht]. cbn [bread] in Hb.
      destruct (bretag Univ 17 x) as [|c' n' l ch] eqn:Ex; [discriminate|].
      destruct (bretag_cons_inv _ _ _ _ _ _ _ Ex) as (Hxx & -> & ->).
      rewrite Z.eqb_refl in Hb.
      destruct (read_set e2 f (rd2 f) (length root0) false (root0 ++ flat_additions ext0) ch) as [[fields2 used]|] eqn:Ers;
        [|discriminate].
      destruct ((used =? length ch)%nat && forallb (fun x0 => existsb (fun m => has_tag e2 f (m_ty m) x0)
                                                                    (root0 ++ flat_additions ext0)) ch) eqn:Echk;
        [|discriminate].
      injection Hb as <-. apply andb_prop in Echk. destruct Echk as [Hused Hown]. apply Nat.eqb_eq in Hused.
      destruct (bwf_tag x Hw) as [Hxn _].
      assert (Hmk : mk_tag ovr 17 true = identifier (fst (btag x)) true (snd (btag x))) by (apply mk_tag_of_x; assumption).
      cbn [dec]. rewrite Hmk.
      rewrite Hxx in Hw, Hdf |- *. cbn [btag fst snd] in *.
      set (cx := fst (btag x)) in *. set (nx := snd (btag x)) in *.
      cbn [bdef] in Hdf. destruct l as [lo|]; [|discriminate Hdf]. cbn [andb] in Hdf.
      destruct (bwf_cons_def _ _ _ _ Hw) as (_ & _ & Hwch & Hl).
      cbn [bser]. rewrite <- !app_assoc.
      rewrite (std_decode_definite cx true nx lo (concat (map bser ch)) r p true _ Hxn Hl).
      cbn [scope_enc] in S1, S2. cbn [scope_dec] in D1, D2. cbn [compiles] in C1, C2.
      apply andb_prop in C1. destruct C1 as [C1 Hso1]. apply andb_prop in C2. destruct C2 as [C2 Hso2].
      destruct (sort_members_ber e1 f root) as [root1'|] eqn:Es1; [|discriminate].
      destruct (sort_members_ber e2 f root0) as [root2'|] eqn:Es2; [|discriminate].
      assert (Hroot : compiled_root false e1 f true root = Ok root1') by (unfold compiled_root; cbn [andb negb]; exact Es1).
      rewrite Hroot. cbn [bind end_of]. rewrite Nat2Z.id.
      set (q := p ++ identifier cx true nx ++ lo).
      replace (length p + length (identifier cx true nx) + length lo)%nat with (length q)
        by (unfold q; rewrite !app_length; lia).
      set (data := p ++ identifier cx true nx ++ lo ++ concat (map bser ch) ++ r).
      set (A1 := flat_additions ext) in *. rewrite Ea2 in S2, D2, C2, Ers, Hown.
      set (ms1 := root ++ A1) in *. set (ms2 := root0 ++ a2k) in *.
      apply andb_prop in S1. destruct S1 as [Hnd1 S1]. apply andb_prop in S2. destruct S2 as [Hnd2 S2].
      apply andb_prop in D1. destruct D1 as [D1 _]. apply andb_prop in D2. destruct D2 as [D2 D2'].
      apply andb_prop in D2'. destruct D2' as [Hpw2 Hgreedy2].
      apply nodupb_NoDup in Hnd2.
      assert (Hdisj2 : forall m m' y, In m ms2 -> In m' ms2 -> m_name m <> m_name m' ->
                                     has_tag e2 f (m_ty m) y = true -> has_tag e2 f (m_ty m') y = false).
      { intros m m' y Hm Hm' Hne Hty.
        apply (disjoint_has_tag e2 f (m_ty m') (m_ty m) y); [|exact Hty].
        apply (pairwise_disjoint_in (fun m0 => outer_tags e2 f (m_ty m0)) ms2); try assumption.
        intros E. apply Hne. symmetry. exact E. }
      assert (Hng2 : forall m, In m ms2 -> greedy_choice e2 f (m_ty m) = false).
      { intros m Hm. rewrite forallb_forall in Hgreedy2. apply negb_true_iff. apply Hgreedy2. exact Hm. }
      pose proof (sort_members_ber_perm e2 f root0 root2' Es2) as Hperm2.
      pose proof (sort_members_ber_perm e1 f root root1' Es1) as Hperm1.
      destruct (set_one_loop numeric e2 f root0 root2' a2k ch fields2 used Hperm2 Hnd2 Hdisj2 Hng2 Ers Hused Hown)
        as (vals & un & Hloop & Hnm & Hcanon).
      set (tr1 := tr1_of f ms1 (ms2 ++ [])). set (Pn := Pn_of f ms1 (ms2 ++ [])).
      pose proof (members_trel_s f ms1 ms2 [] Fall Hnd2) as Htr. fold tr1 in Htr. fold Pn in Htr.
      destruct (Forall2_app_len _ _ _ _ _ Htr (Forall2_length _ _ _ Froot)) as [Htr_r Htr_a].
      set (R' := fun m1 m2 : member_of ty => mrel (bx f) (bp f) m1 m2 /\ trel tr1 (tr_of numeric e2 f) Pn m1 m2 /\
                                             Pn (m_name m2) = bp f (m_ty m1) (m_ty m2)) in *.
      assert (Hsorted : Forall2 R' root1' root2').
      { apply (sort_members_zip R' e1 e2 f root root0 root1' root2'); [|exact Es1|exact Es2].
        eapply Forall2_imp'; [|exact Htr_r]. intros a b _ _ H. split; [exact H|].
        destruct H as ((_ & _ & Hbb & _) & _). unfold static_tag_key.
        rewrite (static_tag_ext_s numeric e1 e2 f None _ _ Hbb). reflexivity. }
      assert (T1 : Forall2 (trel tr1 (tr_of numeric e2 f) Pn) root1' root2')
        by (eapply Forall2_imp'; [|exact Hsorted]; intros a b _ _ (_ & H & _); exact H).
      assert (T2 : Forall2 (trel tr1 (tr_of numeric e2 f) Pn) A1 a2k)
        by (eapply Forall2_imp'; [|exact Htr_a]; intros a b _ _ (_ & H & _); exact H).
      pose proof (Forall2_app_inv _ _ _ _ _ T1 T2) as Htrel.
      destruct (tloop_nat tr1 (tr_of numeric e2 f) Pn _ _ _ _ [] _ _ _ Htrel Hloop) as (un1 & L1 & Fu).
      cbn [mapv map] in L1. rewrite <- (Forall2_length _ _ _ Htrel) in L1.
      (* the two groups of undecoded members *)
      assert (Hadd : forall a b, m_name a = m_name b -> is_add A1 a = is_add a2k b).
      { intros a b Hab. unfold is_add. rewrite Hab. clear -Fadds. induction Fadds as [|x1 x2 l1 l2 (Hn & _) _ IHa]; [reflexivity|].
        cbn [existsb]. rewrite Hn, IHa. reflexivity. }
      assert (Fu' : forall p1 p2, (forall a b, m_name a = m_name b -> p1 a = p2 b) ->
                     Forall2 (trel tr1 (tr_of numeric e2 f) Pn) (filter p1 un1) (filter p2 un)).
      { intros p1 p2 Hp. apply filter_nat. eapply Forall2_imp'; [|exact Fu]. intros a b _ _ H. split; [exact H|].
        destruct H as (Hn & _). apply Hp. exact Hn. }
      pose proof (Fu' (is_add A1) (is_add a2k) Hadd) as FuA.
      pose proof (Fu' (fun m => negb (is_add A1 m)) (fun m => negb (is_add a2k m))
                      (fun a b H => f_equal negb (Hadd a b H))) as FuN.
      destruct (defaults_nat tr1 (tr_of numeric e2 f) Pn _ _ FuA) as [DA _].
      destruct (defaults_nat tr1 (tr_of numeric e2 f) Pn _ _ FuN) as [DN NmN].
      pose proof (set_contents_tr numeric e1 f tr1 root root1' ext data q r (length q + length (concat (map bser ch)))%nat ch
                                  (mapv Pn vals) un1) as Hsc.
      cbv zeta in Hsc. rewrite Hsc; clear Hsc.
      - cbn [bind]. f_equal. f_equal; [|unfold q; rewrite !app_length; lia]. f_equal. cbn [bproj]. f_equal.
        fold A1. fold ms1. rewrite Ea2. fold ms2. rewrite DA, DN, <- !mapv_rev, <- !mapv_app.
        rewrite <- (app_nil_r ms2). apply pfields_canon.
        eapply Forall2_imp'; [|exact Htr]. intros m1 m2 _ Hm2 (Hrel & _ & HP). split; [exact (mrel_name_s f _ _ Hrel)|].
        split; [exact HP|]. rewrite <- Hcanon. symmetry. apply lookup_canon; assumption.
      - fold A1. fold tr1.
        rewrite <- (app_nil_r ms2) in S2, D2, C2.
        eapply behaves_incl;
          [exact (members_behave_fwd_s f data ms1 ms2 [] ch IH Fall Hnd2 S1 D1 C1 S2 D2 C2 Hwch Hdf)| |apply incl_refl].
        intros m Hm. apply in_app_or in Hm. apply in_or_app. destruct Hm as [Hm|Hm]; [left|right; exact Hm].
        eapply Permutation_in; [exact Hperm1|exact Hm].
      - unfold data, q, children_bytes. rewrite <- !app_assoc. reflexivity.
      - unfold children_bytes. reflexivity.
      - exact Hwch.
      - fold A1. exact L1.
      - fold A1. rewrite NmN. exact Hnm. }
    destruct (reading_norm numeric e2 (S f) ovr (TSeq false root0 ext0) x w Univ 16 eq_refl Hr) as [Hb Ht]. cbn [bread] in Hb.
    destruct (bretag Univ 16 x) as [|c' n' l ch] eqn:Ex; [discriminate|].
    destruct (bretag_cons_inv _ _ _ _ _ _ _ Ex) as (Hxx & -> & ->).
    rewrite Z.eqb_refl in Hb.
    destruct (read_sequence e2 f (rd2 f) (length root0) false (root0 ++ flat_additions ext0) ch) as [fields2|] eqn:Ers;
      [|discriminate].
    cbn in Hb. injection Hb as <-.
    destruct (bwf_tag x Hw) as [Hxn _].
    assert (Hmk : mk_tag ovr 16 true = identifier (fst (btag x)) true (snd (btag x))) by (apply mk_tag_of_x; assumption).
    cbn [dec]. rewrite Hmk.
    rewrite Hxx in Hw, Hdf |- *. cbn [btag fst snd] in *.
    set (cx := fst (btag x)) in *. set (nx := snd (btag x)) in *.
    cbn [bdef] in Hdf. destruct l as [lo|]; [|discriminate Hdf]. cbn [andb] in Hdf.
    destruct (bwf_cons_def _ _ _ _ Hw) as (_ & _ & Hwch & Hl).
    cbn [bser]. rewrite <- !app_assoc.
    rewrite (std_decode_definite cx true nx lo (concat (map bser ch)) r p true _ Hxn Hl).
    assert (Hroot : compiled_root false e1 f false root = Ok root) by reflexivity.
    rewrite Hroot. cbn [bind end_of]. rewrite Nat2Z.id.
    set (q := p ++ identifier cx true nx ++ lo).
    replace (length p + length (identifier cx true nx) + length lo)%nat with (length q)
      by (unfold q; rewrite !app_length; lia).
    set (data := p ++ identifier cx true nx ++ lo ++ concat (map bser ch) ++ r).
    (* scopes *)
    cbn [scope_enc] in S1, S2. cbn [scope_dec] in D1, D2. cbn [compiles] in C1, C2.
    set (A1 := flat_additions ext) in *. rewrite Ea2 in *.
    set (ms1 := root ++ A1) in *. set (ms2 := (root0 ++ a2k) ++ new).
    rewrite (app_assoc root0 a2k new) in S2, D2, C2. fold ms2 in S2, D2, C2.
    apply andb_prop in S1. destruct S1 as [Hnd1 S1]. apply andb_prop in S2. destruct S2 as [Hnd2 S2].
    apply andb_prop in D1. destruct D1 as [D1 _]. apply andb_prop in D2. destruct D2 as [D2 D2'].
    apply andb_prop in D2'. destruct D2' as [D2' Hgreedy2]. apply andb_prop in D2'. destruct D2' as [Htags2 Hsteal2].
    rewrite andb_true_r in C1, C2.
    apply nodupb_NoDup in Hnd2.
    assert (Hnd2k : NoDup (map (@m_name ty) (root0 ++ a2k))).
    { unfold ms2 in Hnd2. rewrite map_app in Hnd2. apply nodup_app_iff in Hnd2. tauto. }
    assert (Hab2 : absentable_ok e2 f (length root0) (root0 ++ a2k ++ new)).
    { apply scope_absentable. rewrite app_assoc. exact Hgreedy2. }
    assert (Hdisj2 : forall m a y, In m root0 -> m_opt m <> Mandatory -> In a (a2k ++ new) ->
                                  has_tag e2 f (m_ty a) y = true -> has_tag e2 f (m_ty m) y = false).
    { intros m a y Hm Hop Ha Hta. rewrite forallb_forall in Hsteal2. specialize (Hsteal2 m Hm).
      destruct (m_opt m); [contradiction| |]; rewrite forallb_forall in Hsteal2;
        apply (disjoint_has_tag e2 f _ _ y (Hsteal2 a Ha) Hta). }
    (* version 2: the passes *)
    assert (Hnd2' : NoDup (map (@m_name ty) (root0 ++ a2k ++ new))) by (rewrite app_assoc; exact Hnd2).
    destruct (v2_split e2 f (rd2 f) root0 a2k new ch fields2 Hab2 Hnd2' Ers)
      as (xs2 & vs_r & un_r & s_r & xs3 & vs_a & un_a & s_a & vs_n & un_n & s_n & E1 & E2 & E3 & Hnm & Hlook & _).
    change (tr_rd e2 f (rd2 f)) with (tr_of numeric e2 f) in E1, E2, E3.
    (* version 1: the description of its components *)
    set (tr1 := tr1_of f ms1 ms2). set (Pn := Pn_of f ms1 ms2).
    pose proof (members_trel_s f ms1 (root0 ++ a2k) new Fall Hnd2k) as Htr. fold ms2 in Htr. fold tr1 in Htr. fold Pn in Htr.
    assert (Htrel : Forall2 (trel tr1 (tr_of numeric e2 f) Pn) ms1 (root0 ++ a2k))
      by (eapply Forall2_imp'; [|exact Htr]; intros a b _ _ (_ & H & _); exact H).
    destruct (Forall2_app_len _ _ _ _ _ Htrel (Forall2_length _ _ _ Froot)) as [Htrel_r Htrel_a].
    destruct (tpass_nat tr1 (tr_of numeric e2 f) Pn _ _ Htrel_r _ _ _ _ _ E1) as (un_r' & P1 & Fu1).
    destruct (tpass_nat tr1 (tr_of numeric e2 f) Pn _ _ Htrel_a _ _ _ _ _ E2) as (un_a' & P2 & Fu2).
    destruct (defaults_nat tr1 (tr_of numeric e2 f) Pn _ _ Fu1) as [Dr1 Nm1].
    destruct (defaults_nat tr1 (tr_of numeric e2 f) Pn _ _ Fu2) as [Da1 _].
    assert (Hgr2 : forall i m, nth_error (root0 ++ a2k ++ new) i = Some m ->
                   (match m_opt m with Mandatory => (length root0 <= i)%nat | _ => True end) ->
                   greedy_choice e2 f (m_ty m) = false) by exact Hab2.
    (* phase 1 *)
    assert (L1 : tloop tr1 (S (length root)) root ch [] = Some (xs2, add_values [] (mapv Pn vs_r), un_r')).
    { apply (tloop_one_pass tr1 root ch [] xs2 _ un_r' s_r P1). intros Hs. destruct xs2 as [|y ys]; [exact I|].
      apply (trel_mis tr1 (tr_of numeric e2 f) Pn un_r' un_r y Fu1). intros m2 Hm2.
      assert (Hcons : tpass (tr_of numeric e2 f) (a2k ++ new) (y :: ys) = Some ([], vs_a ++ vs_n, un_a ++ un_n, s_a || s_n))
        by (rewrite tpass_app, E2, E3; reflexivity).
      destruct (tpass_head_consumed _ _ _ _ _ _ _ Hcons) as (a & va & Hina & Hva).
      pose proof (tr_of_val_has_tag numeric e2 f _ _ _ Hva) as Hta.
      assert (Hmr : In m2 root0) by (apply (tpass_un_incl _ _ _ _ _ _ _ E1); exact Hm2).
      assert (Hopt : m_opt m2 <> Mandatory).
      { unfold no_mandatory in Hnm. rewrite forallb_forall in Hnm. specialize (Hnm m2 Hm2).
        destruct (m_opt m2); [discriminate| |]; discriminate. }
      unfold tr_of. rewrite (Hdisj2 m2 a y Hmr Hopt Hina Hta).
      destruct (In_nth_error _ _ Hmr) as (i & Hi).
      rewrite (Hgr2 i m2); [reflexivity| |].
      - rewrite nth_error_app1; [exact Hi|]. apply nth_error_Some. congruence.
      - destruct (m_opt m2); [contradiction| |]; exact I. }
    (* phase 2 *)
    assert (L2 : forall V, tloop tr1 (S (length A1)) A1 xs2 V = Some (xs3, add_values V (mapv Pn vs_a), un_a')).
    { intros V. apply (tloop_one_pass tr1 A1 xs2 V xs3 _ un_a' s_a P2). intros Hs. destruct xs3 as [|y ys]; [exact I|].
      apply (trel_mis tr1 (tr_of numeric e2 f) Pn un_a' un_a y Fu2). intros m2 Hm2.
      destruct (tpass_head_consumed _ _ _ _ _ _ _ E3) as (my & vy & Hmy & Hvy).
      pose proof (tr_of_val_has_tag numeric e2 f _ _ _ Hvy) as Hty.
      assert (Hma : In m2 a2k) by (apply (tpass_un_incl _ _ _ _ _ _ _ E2); exact Hm2).
      unfold tr_of.
      assert (Htg : seq_tags_ok (annot e2 f (length root0) 0 (root0 ++ a2k ++ new)) = true)
        by (unfold annot; rewrite app_assoc; exact Htags2).
      rewrite (disjoint_has_tag e2 f _ _ y (additions_disjoint e2 f root0 a2k new m2 my Htg Hma Hmy) Hty).
      destruct (In_nth_error _ _ Hma) as (i & Hi).
      rewrite (Hgr2 (length root0 + i)%nat m2); [reflexivity| |].
      - rewrite nth_error_app2 by lia. replace (length root0 + i - length root0)%nat with i by lia.
        rewrite nth_error_app1; [exact Hi|]. apply nth_error_Some. congruence.
      - destruct (m_opt m2); try exact I. lia. }
    (* the decoder of version 1 *)
    pose proof (seq_contents_tr numeric e1 f tr1 root ext data q r (length q + length (concat (map bser ch)))%nat ch
                                xs2 (add_values [] (mapv Pn vs_r)) un_r' xs3
                                (add_values (rev (defaults_of un_r') ++ add_values [] (mapv Pn vs_r)) (mapv Pn vs_a)) un_a') as Hsc.
    cbv zeta in Hsc. rewrite Hsc; clear Hsc.
    + cbn [bind]. f_equal. f_equal; [|unfold q; rewrite !app_length; lia]. f_equal. cbn [bproj]. f_equal.
      fold A1. fold ms1. rewrite Ea2, app_assoc.
      rewrite Dr1, Da1, <- !mapv_rev. change (@nil (string * value)) with (mapv Pn []).
      rewrite <- !mapv_add_values, <- mapv_app, <- mapv_add_values, <- mapv_app.
      apply pfields_canon.
      eapply Forall2_imp'; [|exact Htr]. intros m1 m2 _ Hm2 (Hrel & _ & HP). split; [exact (mrel_name_s f _ _ Hrel)|].
      split; [exact HP|]. apply Hlook. exact Hm2.
    + fold A1. fold ms1. fold tr1.
      apply (members_behave_fwd_s f data ms1 (root0 ++ a2k) new ch IH Fall Hnd2k S1 D1 C1 S2 D2 C2 Hwch Hdf).
    + unfold data, q, children_bytes. rewrite <- !app_assoc. reflexivity.
    + unfold children_bytes. reflexivity.
    + exact Hwch.
    + exact L1.
    + rewrite Nm1. exact Hnm.
    + fold A1. generalize (L2 (rev (defaults_of un_r') ++ add_values [] (mapv Pn vs_r))) P2. generalize A1.
      intros [|a0 A'] HL HP; [|exact HL].
      cbn [tpass] in HP. injection HP as _ Evs <- _. rewrite <- Evs. split; reflexivity.
  - (* SEQUENCE OF / SET OF *)
    destruct Hx as [<- Hx].
    set (u := if isset then 17 else 16).
    assert (Hot : outer_tags e2 (S f) (TSeqOf isset el0 sz0) = [(Univ, u)]) by reflexivity.
    destruct (reading_norm numeric e2 (S f) ovr (TSeqOf isset el0 sz0) x w Univ u Hot Hr) as [Hb Ht]. cbn [bread] in Hb.
    destruct (bretag Univ u x) as [|c' n' l ch] eqn:Ex; [discriminate|].
    destruct (bretag_cons_inv _ _ _ _ _ _ _ Ex) as (Hxx & -> & ->).
    fold u in Hb. rewrite Z.eqb_refl in Hb.
    destruct (traverse (rd2 f el0) ch) as [vs|] eqn:Etr; [|discriminate]. cbn in Hb. injection Hb as <-.
    destruct (bwf_tag x Hw) as [Hxn _].
    assert (Hmk : mk_tag ovr u true = identifier (fst (btag x)) true (snd (btag x))) by (apply mk_tag_of_x; assumption).
    cbn [dec]. fold u. rewrite Hmk. cbn [negb].
    rewrite Hxx in Hw, Hdf |- *. cbn [btag fst snd] in *.
    set (cx := fst (btag x)) in *. set (nx := snd (btag x)) in *.
    cbn [bdef] in Hdf. destruct l as [lo|]; [|discriminate Hdf]. cbn [andb] in Hdf.
    destruct (bwf_cons_def _ _ _ _ Hw) as (_ & _ & Hwch & Hl).
    cbn [scope_enc] in S1, S2. cbn [scope_dec] in D1, D2. cbn [compiles] in C1, C2.
    remember (p ++ bser (BCons cx nx (LDef lo) ch) ++ r) as data eqn:Ed.
    assert (Hel : Forall2 (fun x0 v0 => forall q' r', data = q' ++ bser x0 ++ r' ->
                      dec1 f None el data (length q') = Ok (DVal v0, (length q' + length (bser x0))%nat))
                          ch (map (bp f el el0) vs)).
    { apply traverse_forall2 in Etr. exact (seqof_elems_s f el el0 data ch vs IH Hx S1 D1 C1 S2 D2 C2 Etr Hwch Hdf). }
    assert (Hfuel : (length ch < S (length data))%nat).
    { subst data. rewrite !app_length. cbn [bser]. pose proof (children_bytes_length ch Hwch) as Hlen.
      unfold children_bytes in Hlen. rewrite !app_length. lia. }
    subst data. cbn [bser]. rewrite <- !app_assoc.
    rewrite (std_decode_definite cx true nx lo (concat (map bser ch)) r p true _ Hxn Hl).
    set (q := p ++ identifier cx true nx ++ lo).
    replace (length p + length (identifier cx true nx) + length lo)%nat with (length q)
      by (unfold q; rewrite !app_length; lia).
    rewrite (array_loop_spec _ _ (length q) (Some (Z.of_nat (length (concat (map bser ch))))) ch (map (bp f el el0) vs) q r).
    + cbn [bind bproj]. f_equal. f_equal. unfold q, children_bytes. rewrite !app_length. lia.
    + unfold q, children_bytes. rewrite <- !app_assoc. reflexivity.
    + cbn [bser] in Hel. repeat rewrite <- app_assoc in Hel. exact Hel.
    + exact Hwch.
    + unfold children_bytes. lia.
    + cbn [bser] in Hfuel. repeat rewrite <- app_assoc in Hfuel. exact Hfuel.
  - (* CHOICE *)
    destruct ovr as [cn|]; [specialize (Hu ltac:(discriminate)); discriminate|].
    cbn [reading bread] in Hr.
    destruct (filter _ (alternatives root0 ext0)) as [|m2 [|m' l']] eqn:Ef; try discriminate.
    destruct (rd2 f (m_ty m2) x) as [v'|] eqn:Ev; [|discriminate]. cbn in Hr. injection Hr as <-.
    destruct (bwf_tag x Hw) as [Hxn _].
    cbn [scope_enc] in S1, S2. cbn [scope_dec] in D1, D2. cbn [compiles] in C1, C2.
    apply andb_prop in S1. destruct S1 as [_ S1]. apply andb_prop in S2. destruct S2 as [Hnd2 S2]. apply nodupb_NoDup in Hnd2.
    apply andb_prop in D1. destruct D1 as [D1 _]. apply andb_prop in D2. destruct D2 as [D2 _].
    rewrite forallb_forall in S1, S2, D1, D2, C1, C2.
    destruct Hx as (Hrt & Hxe).
    assert (Ha : exists alts2k new, alternatives root0 ext0 = alts2k ++ new /\
                   Forall2 (arel (bx f) (alt_stable e1 e2 f)) (alternatives root ext) alts2k /\ (new <> [] -> ext <> None)).
    { unfold alternatives. destruct ext as [a1|], ext0 as [a2|]; try contradiction.
      - destruct Hxe as (c2 & new & -> & Ha). exists (root0 ++ c2), new. split; [apply app_assoc|].
        split; [apply Forall2_app_inv; assumption|discriminate].
      - exists root0, []. rewrite !app_nil_r. split; [reflexivity|]. split; [exact Hrt|]. intros X; contradiction X; reflexivity. }
    destruct Ha as (alts2k & new & Ealts & Fa & Hnew).
    assert (Hf2 : In m2 (filter (fun m0 => has_tag e2 f (m_ty m0) x) (alternatives root0 ext0))) by (rewrite Ef; left; reflexivity).
    apply filter_In in Hf2. destruct Hf2 as [Hinm2 Htag2].
    assert (Hother : forall m', In m' (alternatives root0 ext0) -> has_tag e2 f (m_ty m') x = true -> m' = m2).
    { intros m0 Hin Ht'.
      assert (H : In m0 (filter (fun m => has_tag e2 f (m_ty m) x) (alternatives root0 ext0))) by (apply filter_In; split; assumption).
      rewrite Ef in H. destruct H as [H|[]]. symmetry. exact H. }
    pose proof (C2 m2 Hinm2) as Hc2. apply andb_prop in Hc2. destruct Hc2 as [Hc2 Hok2].
    remember (p ++ bser x ++ r) as data eqn:Ed.
    set (idx := identifier (fst (btag x)) (bcons x) (snd (btag x))).
    assert (Ed' : data = p ++ idx ++ (after_id x ++ r))
      by (subst data; unfold idx; rewrite (bser_shape x) at 1; rewrite <- app_assoc; reflexivity).
    assert (Hskip : skip_tag data (length p) = Ok (length p + length idx)%nat).
    { rewrite Ed'. apply skip_tag_at; [exact Hxn|]. intros E. apply app_eq_nil in E. destruct E as [E _].
      revert E. apply after_id_nonempty. exact Hw. }
    assert (Hslice : slice data (length p) (length p + length idx) = idx) by (rewrite Ed'; apply slice_at).
    cbn [dec]. rewrite Hskip. cbn [bind]. rewrite Hslice.
    change (choice_members root ext) with (alternatives root ext).
    assert (Hnl : forall m1 m2', arel (bx f) (alt_stable e1 e2 f) m1 m2' -> In m1 (alternatives root ext) ->
                    In m2' (alternatives root0 ext0) -> m2' <> m2 ->
                    exists ts, alt_tags false e1 f None (m_ty m1) = Ok ts /\ existsb (zlist_eqb idx) ts = false).
    { intros m1 m2' (_ & Hb & _) Hi1 Hi2 Hne.
      pose proof (C1 m1 Hi1) as Hc. apply andb_prop in Hc. destruct Hc as [Hc Hok].
      destruct (alt_tags false e1 f None (m_ty m1)) as [ts|] eqn:Ets; [|discriminate]. exists ts. split; [reflexivity|].
      apply (not_listed numeric e1 f (m_ty m1) x ts (S1 m1 Hi1) Hc Hw Ets).
      apply (has_tag_sub_s numeric e1 e2 f _ _ x Hb).
      destruct (has_tag e2 f (m_ty m2') x) eqn:E; [|reflexivity]. exfalso. apply Hne. apply Hother; assumption. }
    cbn [bproj]. rewrite Ealts.
    destruct (find_pair (m_name m2) (alternatives root ext) (alts2k ++ new)) as [[m1 m2'']|] eqn:Efp.
    + (* an alternative both versions know *)
      destruct (find_pair_some _ (m_name m2) _ _ Fa new m1 m2'' Efp) as (j1 & j2 & k1 & k2 & Ej & Ek & F1 & Hrel & F2 & Hname).
      assert (Hnd2k : NoDup (map (@m_name ty) (k1 ++ m2'' :: k2))).
      { rewrite Ealts, Ek, map_app in Hnd2. apply nodup_app_iff in Hnd2. tauto. }
      assert (E2 : m2'' = m2).
      { apply (nodup_name_inj (alternatives root0 ext0)); [exact Hnd2| |exact Hinm2|exact Hname].
        rewrite Ealts, Ek. apply in_or_app. left. apply in_or_app. right. left. reflexivity. }
      subst m2''. destruct Hrel as (Hn & Hb & Hst).
      assert (Hin1 : In m1 (alternatives root ext)) by (rewrite Ej; apply in_or_app; right; left; reflexivity).
      pose proof (C1 m1 Hin1) as Hc. apply andb_prop in Hc. destruct Hc as [Hc1 Hok1].
      destruct (alt_tags false e1 f None (m_ty m1)) as [ts|] eqn:Ets; [|discriminate].
      rewrite Ej. rewrite (find_alt_pick _ idx j1 m1 j2 ts Ets).
      * cbn [bind]. subst data.
        rewrite (IH None (m_ty m1) (m_ty m2) x v' p r Hb (S1 m1 Hin1) (D1 m1 Hin1) Hc1 (S2 m2 Hinm2) (D2 m2 Hinm2) Hc2
                    I ltac:(congruence) Hw Hdf Ev).
        cbn [bind]. rewrite Hn. reflexivity.
      * rewrite (alt_tags_stable_s numeric e1 e2 false f None _ _ Hb (fun _ => Hst)) in Ets.
        apply (alt_tags_complete numeric e2 f None (m_ty m2) x v' ts (S2 m2 Hinm2) Hc2 I Hw Ev Ets).
      * apply Forall_forall. intros m1' Hm1'. destruct (Forall2_in_l _ _ _ _ F2 Hm1') as (m2' & Hm2' & Hrel').
        apply (Hnl m1' m2' Hrel').
        -- rewrite Ej. apply in_or_app. right. right. exact Hm1'.
        -- rewrite Ealts, Ek. apply in_or_app. left. apply in_or_app. right. right. exact Hm2'.
        -- intros ->. rewrite map_app in Hnd2k. cbn [map] in Hnd2k. apply nodup_app_iff in Hnd2k.
           destruct Hnd2k as (_ & Hk & _). inversion Hk as [|? ? Hnot _]; subst. apply Hnot. apply in_map. exact Hm2'.
    + (* an alternative version 1 does not know *)
      pose proof (find_pair_none _ (m_name m2) _ _ Fa new Efp) as Hnotin.
      rewrite (find_alt_none e1 f idx (alternatives root ext)).
      * cbn [bind]. destruct ext as [a1|].
        -- subst data. rewrite (skip_tlv_at p x r Hw (bdef_top x Hdf)). cbn [bind]. rewrite Nat2Z.id. reflexivity.
        -- exfalso. destruct new as [|n0 new']; [|apply Hnew; [discriminate|reflexivity]].
           rewrite app_nil_r in Ealts. apply Hnotin. rewrite <- Ealts. apply in_map. exact Hinm2.
      * apply Forall_forall. intros m1' Hm1'. destruct (Forall2_in_l _ _ _ _ Fa Hm1') as (m2' & Hm2' & Hrel').
        apply (Hnl m1' m2' Hrel' Hm1').
        -- rewrite Ealts. apply in_or_app. left. exact Hm2'.
        -- intros ->. apply Hnotin. apply in_map. exact Hm2'.
  - (* reference *)
    destruct Hx as [<- Hx].
    cbn [scope_enc] in S1, S2. cbn [scope_dec] in D1, D2. cbn [compiles] in C1, C2. cbn [untagged_choice] in Hu.
    unfold assoc in *. cbn [dec bproj].
    destruct (lookup name e1) as [a|] eqn:El1; [|contradiction].
    destruct (lookup name e2) as [b|] eqn:El2; [|contradiction].
    apply IH; try assumption.
    destruct ovr as [cn|]; cbn [reading bread outer_tags] in *; unfold assoc in *; rewrite El2 in Hr; exact Hr.
  - (* tagged *)
    destruct Hx as [<- Hx].
    assert (Hot : outer_tags e2 (S f) (TTag tg t2') = [(t_class tg, t_num tg)]) by reflexivity.
    destruct (reading_norm numeric e2 (S f) ovr (TTag tg t2') x w _ _ Hot Hr) as [Hb Ht]. cbn [bread] in Hb.
    rewrite btag_bretag in Hb.
    assert (Heq : tag_eqb (t_class tg, t_num tg) (t_class tg, t_num tg) = true) by (apply tag_eqb_eq; reflexivity).
    rewrite Heq in Hb.
    cbn [scope_enc] in S1, S2. cbn [scope_dec] in D1, D2. cbn [compiles] in C1, C2.
    apply andb_prop in S1. destruct S1 as [S1a S1]. apply andb_prop in S2. destruct S2 as [S2a S2].
    apply andb_prop in S2a. destruct S2a as [Hn2 S2b].
    apply andb_prop in D1. destruct D1 as [_ D1]. apply andb_prop in D2. destruct D2 as [_ D2].
    destruct (bwf_tag x Hw) as [Hxn _].
    cbn [dec bproj]. destruct (t_explicit tg).
    + (* EXPLICIT *)
      destruct (bretag (t_class tg) (t_num tg) x) as [|c' n' l ch] eqn:Ex; [discriminate|].
      destruct (bretag_cons_inv _ _ _ _ _ _ _ Ex) as (Hxx & -> & ->).
      destruct ch as [|inner [|]]; try discriminate.
      rewrite <- Ht. rewrite btag_eta. rewrite tag_octets_identifier by exact Hxn.
      rewrite Hxx in Hw, Hdf |- *. cbn [btag fst snd] in *.
      set (cx := fst (btag x)) in *. set (nx := snd (btag x)) in *.
      cbn [bdef] in Hdf. destruct l as [lo|]; [|discriminate Hdf]. cbn [andb forallb] in Hdf.
      apply andb_prop in Hdf. destruct Hdf as [Hdi _].
      destruct (bwf_cons_def _ _ _ _ Hw) as (_ & _ & Hwch & Hl). cbn [forallb] in Hwch.
      apply andb_prop in Hwch. destruct Hwch as [Hwi _].
      cbn [bser map concat] in *. rewrite app_nil_r in *. rewrite <- !app_assoc.
      rewrite (std_decode_definite cx true nx lo (bser inner) r p true _ Hxn Hl).
      replace (p ++ identifier cx true nx ++ lo ++ bser inner ++ r)
        with ((p ++ identifier cx true nx ++ lo) ++ bser inner ++ r) by (rewrite <- !app_assoc; reflexivity).
      replace (length p + length (identifier cx true nx) + length lo)%nat
        with (length (p ++ identifier cx true nx ++ lo)) by (rewrite !app_length; lia).
      rewrite (IH None t1' t2' inner w _ r Hx S1 D1 C1 S2 D2 C2 I ltac:(congruence) Hwi Hdi Hb). cbn [bind].
      f_equal. f_equal. rewrite !app_length. lia.
    + (* IMPLICIT *)
      destruct (untagged_choice e2 f t2') eqn:Euc; [discriminate|].
      destruct (outer_tags e2 f t2') as [|[c' n'] [|]] eqn:Eo; try discriminate.
      rewrite bretag_bretag in Hb.
      apply IH; try assumption.
      * rewrite <- Ht. rewrite btag_eta. cbn [ovr_ok]. exact Hxn.
      * intros _. exact Euc.
      * cbn [reading]. split; [exact Ht|]. exists c', n'. split; [exact Eo | exact Hb].
Qed.

End FwdS.

Print Assumptions fwd_accepts_s.

(* ------------------------------------------------------------------ *)
(** * The relation with SET containers subsumes the SEQUENCE-only one *)

Lemma bextends_s_of numeric e1 e2 : forall f t1 t2, bextends numeric e1 e2 f t1 t2 -> bextends_s numeric e1 e2 f t1 t2.
Proof.
  induction f as [|f IH]; intros t1 t2 H; [exact I|].
  assert (Hm : forall m1 m2, mrel (bextends numeric e1 e2 f) (bproj numeric e1 e2 f) m1 m2 ->
                             mrel (bextends_s numeric e1 e2 f) (bproj numeric e1 e2 f) m1 m2)
    by (intros m1 m2 (A & B & C & D); repeat split; auto).
  assert (Ha : forall m1 m2, arel (bextends numeric e1 e2 f) (alt_stable e1 e2 f) m1 m2 ->
                             arel (bextends_s numeric e1 e2 f) (alt_stable e1 e2 f) m1 m2)
    by (intros m1 m2 (A & B & C); repeat split; auto).
  destruct t1; destruct t2; cbn [bextends] in H; cbn [bextends_s]; try exact H.
  - destruct H as (-> & -> & Hr & Hx). split; [reflexivity|]. split; [eapply Forall2_imp'; [|exact Hr]; intros; auto|].
    destruct ext as [a1|], ext0 as [a2|]; try exact Hx.
    destruct Hx as (new & Hf & Hs). exists new. split; [eapply Forall2_imp'; [|exact Hf]; intros; auto|]. split; [exact Hs|discriminate].
  - destruct H as (E & H). split; [exact E|apply IH; exact H].
  - destruct H as (Hr & Hx). split; [eapply Forall2_imp'; [|exact Hr]; intros; auto|].
    destruct ext as [a1|], ext0 as [a2|]; try exact Hx.
    destruct Hx as (c2 & new & E & Hf). exists c2, new. split; [exact E|eapply Forall2_imp'; [|exact Hf]; intros; auto].
  - destruct H as (E & H). split; [exact E|].
    destruct (lookup name e1); [|exact H]. destruct (lookup name0 e2); [|exact H]. apply IH. exact H.
  - destruct H as (E & H). split; [exact E|apply IH; exact H].
Qed.

(* ------------------------------------------------------------------ *)
(** * C07 forward for BER with SET containers *)

Theorem ber_forward_tree_s_partial numeric e1 e2 fuel t1 t2 x w :
  bextends_s numeric e1 e2 fuel t1 t2 ->
  in_scope numeric e1 fuel t1 = true -> compiles e1 fuel t1 = true ->
  in_scope numeric e2 fuel t2 = true -> compiles e2 fuel t2 = true ->
  bwf x = true -> bdef x = true -> bread numeric e2 fuel t2 x = Some w ->
  forall tail, BerImpl.ber_decode numeric fuel e1 t1 (bser x ++ tail)
               = Ok (bproj numeric e1 e2 fuel t1 t2 w, length (bser x)).
Proof.
  intros Hx Hs1 Hc1 Hs2 Hc2 Hw Hd Hr tail.
  apply in_scope_split in Hs1. destruct Hs1 as [S1 D1]. apply in_scope_split in Hs2. destruct Hs2 as [S2 D2].
  unfold BerImpl.ber_decode, decode_top.
  pose proof (fwd_accepts_s numeric e1 e2 fuel None t1 t2 x w [] tail Hx S1 D1 Hc1 S2 D2 Hc2 I ltac:(congruence) Hw Hd Hr) as H.
  cbn [app length] in H. rewrite H. reflexivity.
Qed.

Theorem ber_forward_s_partial numeric e1 e2 fuel t1 t2 v Td bs :
  bextends_s numeric e1 e2 fuel t1 t2 ->
  in_scope numeric e1 fuel t1 = true -> compiles e1 fuel t1 = true ->
  in_scope numeric e2 fuel t2 = true -> compiles e2 fuel t2 = true ->
  der_tree numeric e2 fuel t2 v = Some Td ->
  BerImpl.ber_encode numeric fuel e2 t2 v = Ok bs -> DerRefine.small bs ->
  exists nv, bnorm e2 fuel t2 v = Some nv /\
    forall tail, BerImpl.ber_decode numeric fuel e1 t1 (bs ++ tail)
                 = Ok (bproj numeric e1 e2 fuel t1 t2 nv, length bs).
Proof.
  intros Hx Hs1 Hc1 Hs2 Hc2 Hd He Hsm.
  pose proof (in_scope_split _ _ _ _ Hs2) as [Hse2 _].
  destruct (ber_tree_of_value numeric e2 fuel _ _ Td Hc2 Hd) as (T & HT).
  pose proof (enc_ber_tree numeric e2 fuel _ _ T bs Hse2 HT He Hsm) as ->.
  destruct (ber_tree_reads numeric e2 fuel _ _ T Hs2 HT Hsm) as (Hw & Hser & nv & Hn & Hr).
  exists nv. split; [exact Hn|]. intros tail. rewrite <- Hser.
  apply ber_forward_tree_s_partial; try assumption. apply bdef_inj.
Qed.

(** the distinguished encoding of version 2 (SET components sorted), BER decoder of version 1 *)
Theorem der_encoding_ber_forward_s_partial numeric e1 e2 fuel t1 t2 v bs :
  bextends_s numeric e1 e2 fuel t1 t2 ->
  in_scope numeric e1 fuel t1 = true -> compiles e1 fuel t1 = true ->
  in_scope numeric e2 fuel t2 = true -> compiles e2 fuel t2 = true ->
  X690.der_encode numeric e2 fuel t2 v = Some bs -> DerRefine.small bs ->
  exists nv, norm numeric e2 fuel t2 v = Some nv /\
    forall tail, BerImpl.ber_decode numeric fuel e1 t1 (bs ++ tail)
                 = Ok (bproj numeric e1 e2 fuel t1 t2 nv, length bs).
Proof.
  intros Hx Hs1 Hc1 Hs2 Hc2 Hd Hsm. unfold X690.der_encode in Hd.
  destruct (der_tree numeric e2 fuel t2 v) as [T|] eqn:ET; [|discriminate]. injection Hd as <-.
  destruct (der_tree_reads numeric e2 fuel t2 v T Hs2 ET Hsm) as (Hw & Hser & nv & Hn & Hr).
  exists nv. split; [exact Hn|]. intros tail. rewrite <- Hser.
  apply ber_forward_tree_s_partial; try assumption. apply bdef_inj.
Qed.

Print Assumptions ber_forward_tree_s_partial.
Print Assumptions ber_forward_s_partial.
Print Assumptions der_encoding_ber_forward_s_partial.

Lemma bext_s_seq numeric e1 e2 f s1 r1 x1 s2 r2 x2 :
  bextends_s numeric e1 e2 (S f) (TSeq s1 r1 x1) (TSeq s2 r2 x2) =
  (s1 = s2 /\ Forall2 (mrel (bextends_s numeric e1 e2 f) (bproj numeric e1 e2 f)) r1 r2 /\
   match x1, x2 with
   | None, None => True
   | Some _, Some _ =>
     exists new, Forall2 (mrel (bextends_s numeric e1 e2 f) (bproj numeric e1 e2 f)) (flat_additions x1)
                         (firstn (length (flat_additions x1)) (flat_additions x2))
                 /\ flat_additions x2 = firstn (length (flat_additions x1)) (flat_additions x2) ++ new
                 /\ (s1 = true -> new = [])
   | _, _ => False
   end).
Proof. reflexivity. Qed.
