(** C08, work bound for the BER / DER decoder model: proofs about the
    instrumented decoder of [Ber/BerCost.v].

    1. [c_dec_erases], [ber_decode_cost_erases], [der_decode_cost_erases]:
       dropping the step counter gives back the decoder of [Ber/BerCommon.v].
    2. [ber_decode_cost_bound], [der_decode_cost_bound]: on ANY octet string
       the decoder makes at most [Kber e fuel t * (length data + 1)] steps.
       The constant is quadratic in the number of components of a
       SEQUENCE / SET (the retry loop of [decode_members] runs up to
       [components + 1] passes over up to [components] candidates), additive
       along the nesting, and covers indefinite lengths and constructed
       (segmented) strings nested to any depth.
    3. [Kber_fuel_stable]: the constant does not depend on the fuel for
       specifications that are acyclic below [t] ([fits], as for UPER). *)
From Coq Require Import Permutation NArith.
From Asn1V Require Import Base.Prelude Syntax.Asn1 Ber.Header Ber.BerCommon Ber.BerCost.

(** * 1. Erasure *)

Lemma fst_tick {A} n (m : cres A) : fst (cr_tick n m) = fst m.
Proof. unfold cr_tick. destruct m. reflexivity. Qed.

Lemma fst_bind_eq {A B} (m : cres A) (f : A -> cres B) r g :
  fst m = r -> (forall a, fst (f a) = g a) -> fst (cr_bind m f) = bind r g.
Proof.
  intros H1 H2. unfold cr_bind. destruct m as [[a|x] c]; cbn [fst] in H1; subst r; cbn [bind fst]; [|reflexivity].
  rewrite <- H2. destruct (f a). reflexivity.
Qed.

Ltac cer_step :=
  match goal with
  | |- fst (cr_ret _) = _ => reflexivity
  | |- fst (cr_fail _) = _ => reflexivity
  | |- fst (cr_prim _) = _ => reflexivity
  | |- fst (cr_free _) = _ => reflexivity
  | |- fst (cr_tick _ _) = _ => rewrite fst_tick
  | |- fst (cr_bind _ _) = bind _ _ => apply fst_bind_eq; [|intros ?]
  | |- fst (let _ := _ in _) = _ => cbv zeta
  | |- fst (match ?x with _ => _ end) = _ => destruct x
  end.
Ltac cer := repeat cer_step; try assumption; try reflexivity.

Section ErasureB.
Variable der : bool.
Variable numeric : bool.
Variable e : env.

Lemma er_std tagb indef data off content content' :
  (forall o l, fst (content o l) = content' o l) ->
  fst (c_std_decode tagb indef data off content) = std_decode tagb indef data off content'.
Proof. intros H. unfold c_std_decode, std_decode. cer. apply H. Qed.

Lemma er_seg_loop decseg decseg' data endo :
  (forall o, fst (decseg o) = decseg' o) ->
  forall loop o, fst (c_seg_loop decseg data endo loop o) = seg_loop decseg' data endo loop o.
Proof.
  intros H. induction loop as [|lp IH]; intros o; cbn [c_seg_loop seg_loop]; cer.
  - apply H.
  - apply IH.
Qed.

Lemma er_pc_decode : forall sf pk tagb data off,
  fst (c_pc_decode sf pk tagb data off) = pc_decode sf pk tagb data off.
Proof.
  induction sf as [|sf IH]; intros pk tagb data off; cbn [c_pc_decode pc_decode]; cer.
  all: apply er_seg_loop; intros ?; apply IH.
Qed.

Lemma er_string_decode pk tagb data off :
  fst (c_string_decode der pk tagb data off) = string_decode der pk tagb data off.
Proof.
  unfold c_string_decode, string_decode. destruct der; [|apply er_pc_decode].
  unfold c_der_prim_decode, der_prim_decode. apply er_std. intros o l. reflexivity.
Qed.

Lemma er_members_pass decm decm' data endo :
  (forall m o, fst (decm m o) = decm' m o) ->
  forall ms off out, fst (c_members_pass decm data endo ms off out) = members_pass decm' data endo ms off out.
Proof.
  intros H. induction ms as [|m r IH]; intros off out; cbn [c_members_pass members_pass]; cer.
  - apply H.
  - apply IH.
Qed.

Lemma er_members_loop decm decm' data endo :
  (forall m o, fst (decm m o) = decm' m o) ->
  forall n remaining off out vals,
    fst (c_members_loop n decm data endo remaining off out vals) = members_loop n decm' data endo remaining off out vals.
Proof.
  intros H. induction n as [|k IH]; intros remaining off out vals; cbn [c_members_loop members_loop]; cer.
  - apply er_members_pass, H.
  - apply IH.
Qed.

Lemma er_members_missing ms ig out vals :
  fst (c_members_missing ms ig out vals) = members_missing ms ig out vals.
Proof. unfold c_members_missing. rewrite fst_tick. reflexivity. Qed.

Lemma er_decode_members decm decm' data endo ms ig off out vals :
  (forall m o, fst (decm m o) = decm' m o) ->
  fst (c_decode_members decm data endo ms ig off out vals) = decode_members decm' data endo ms ig off out vals.
Proof.
  intros H. unfold c_decode_members, decode_members.
  apply fst_bind_eq; [apply er_members_loop, H|]. intros [[[off' out'] vals'] un].
  apply fst_bind_eq; [apply er_members_missing|]. intros vals''. reflexivity.
Qed.

Lemma er_array_loop dece dece' data start len :
  (forall o, fst (dece o) = dece' o) ->
  forall loop off, fst (c_array_loop der loop dece data start len off) = array_loop der loop dece' data start len off.
Proof.
  intros H. induction loop as [|lp IH]; intros off; cbn [c_array_loop array_loop]; cer.
  - apply H.
  - apply IH.
Qed.

Theorem c_dec_erases : forall fuel ovr t data off,
  fst (c_dec der numeric e fuel ovr t data off) = dec der numeric e fuel ovr t data off.
Proof.
  induction fuel as [|f IH]; intros ovr t data off; cbn [c_dec dec]; rewrite fst_tick; [reflexivity|].
  destruct t.
  - apply er_std. intros; reflexivity.
  - apply er_std. intros; reflexivity.
  - apply er_std. intros; reflexivity.
  - apply er_std. intros; reflexivity.
  - apply er_string_decode.
  - apply er_string_decode.
  - apply er_string_decode.
  - apply er_std. intros; reflexivity.
  - apply er_std. intros o l. cer.
    all: try (apply er_members_loop; intros; apply IH).
    all: try apply er_members_missing.
    all: try (apply er_decode_members; intros; apply IH).
  - apply er_std. intros o l. cer. apply er_array_loop. intros; apply IH.
  - cer. apply IH.
  - destruct (lookup name e); [apply IH|reflexivity].
  - cbv zeta. destruct (t_explicit tg); [|apply IH].
    apply er_std. intros o l. cer. apply IH.
Qed.

Theorem c_decode_top_erases fuel t data :
  fst (c_decode_top der numeric e fuel t data) = decode_top der numeric e fuel t data.
Proof. unfold c_decode_top, decode_top. cer. apply c_dec_erases. Qed.
End ErasureB.

(** * 2. The bound *)
Local Open Scope N_scope.

Ltac nl := first [lia | nia].

Lemma incl_firstn {A} k (l : list A) : incl (firstn k l) l.
Proof.
  revert l. induction k as [|k IH]; intros l x Hx; [destruct Hx|].
  destruct l as [|y l]; [destruct Hx|]. cbn [firstn] in Hx. destruct Hx as [->|Hx]; [left; reflexivity|right; apply IH, Hx].
Qed.

Lemma incl_skipn {A} k (l : list A) : incl (skipn k l) l.
Proof.
  revert l. induction k as [|k IH]; intros l x Hx; [exact Hx|].
  destruct l as [|y l]; [destruct Hx|]. cbn [skipn] in Hx. right. apply IH, Hx.
Qed.

Lemma slice_length {A} (d : list A) a b : length (slice d a b) = Nat.min (b - a) (length d - a).
Proof. unfold slice. rewrite firstn_length, skipn_length. reflexivity. Qed.

Lemma be_value_acc_nonneg bs : forall acc, (0 <= acc)%Z -> Forall (fun b => 0 <= b)%Z bs -> (0 <= be_value_acc acc bs)%Z.
Proof.
  induction bs as [|b r IH]; intros acc Ha Hf; cbn [be_value_acc]; [exact Ha|].
  inversion Hf; subst. apply IH; [lia|assumption].
Qed.

Lemma zlist_eqb_len a : forall b, zlist_eqb a b = true -> length a = length b.
Proof.
  induction a as [|x a IH]; intros [|y b] H; cbn [zlist_eqb] in H; try discriminate; [reflexivity|].
  apply andb_prop in H. destruct H as [_ H]. cbn [length]. f_equal. apply IH, H.
Qed.

Lemma skip_high_ge d : forall off r, skip_high d off = Ok r -> (S off <= r)%nat.
Proof.
  induction d as [|b d IH]; intros off r H; cbn [skip_high] in H; [discriminate|].
  destruct (Z.land b 128 =? 0)%Z; [inversion H; lia|]. apply IH in H. lia.
Qed.

Lemma skip_tag_ge data off r : skip_tag data off = Ok r -> (S off <= r)%nat.
Proof.
  unfold skip_tag. destruct (skipn off data) as [|b d']; cbn [bind]; [discriminate|].
  destruct (Z.land b 31 =? 31)%Z.
  - destruct (skip_high d' (S off)) as [o|] eqn:E; cbn [bind]; [|discriminate].
    apply skip_high_ge in E. destruct (length data <=? o)%nat; [discriminate|]. intros H. inversion H; subst. lia.
  - cbn [bind]. destruct (length data <=? S off)%nat; [discriminate|]. intros H. inversion H; subst. lia.
Qed.

Lemma find_alt_In tags_of tag ms : forall m,
  find_alt tags_of tag ms = Ok (Some m) -> In m ms.
Proof.
  induction ms as [|a r IH]; intros m H; cbn [find_alt] in H; [discriminate|].
  destruct (find_alt tags_of tag r) as [[m'|]|] eqn:E; cbn [bind] in H; try discriminate.
  - inversion H; subst. right. apply IH. reflexivity.
  - destruct (tags_of (m_ty a)) as [ts|]; cbn [bind] in H; [|discriminate].
    destruct (existsb (zlist_eqb tag) ts); inversion H; subst. left. reflexivity.
Qed.

(** BER's compile-time ordering of the SET components is a permutation *)
Lemma insert_sorted_perm' {A} (leb : A -> A -> bool) x l : Permutation (insert_sorted leb x l) (x :: l).
Proof.
  induction l as [|y l IHl]; cbn [insert_sorted]; [apply Permutation_refl|].
  destruct (leb x y); [apply Permutation_refl|].
  eapply Permutation_trans; [apply perm_skip; exact IHl | apply perm_swap].
Qed.

Lemma isort_perm' {A} (leb : A -> A -> bool) l : Permutation (isort leb l) l.
Proof.
  induction l as [|x l IHl]; cbn [isort]; [constructor|].
  eapply Permutation_trans; [apply insert_sorted_perm' | apply perm_skip; exact IHl].
Qed.

Lemma mapM_keyed {A K} (key : A -> result K) : forall (ms : list A) keyed,
  mapM (fun m => let* k := key m in Ok (k, m)) ms = Ok keyed -> map snd keyed = ms.
Proof.
  induction ms as [|m ms IH]; intros keyed H; cbn [mapM] in H; [inversion H; reflexivity|].
  destruct (key m) as [k|]; cbn [bind] in H; [|discriminate].
  destruct (mapM _ ms) as [ys|] eqn:E; cbn [bind] in H; [|discriminate].
  inversion H; subst. cbn [map snd]. f_equal. apply IH. reflexivity.
Qed.

Lemma compiled_root_perm der e f isset root root' :
  compiled_root der e f isset root = Ok root' -> Permutation root' root.
Proof.
  unfold compiled_root. destruct (isset && negb der); [|intros H; inversion H; apply Permutation_refl].
  unfold sort_members_ber. destruct (mapM _ root) as [keyed|] eqn:Em; cbn [bind]; [|discriminate].
  intros H. inversion H; subst. pose proof (mapM_keyed _ _ _ Em) as Hk.
  rewrite <- Hk. apply Permutation_map, isort_perm'.
Qed.

Section Bound.
Variable der : bool.
Variable numeric : bool.
Variable e : env.
Variable data : list Z.
Hypothesis Hbytes : bytes_ok data.
Notation L := (length data).

Lemma data_nonneg : Forall (fun b => 0 <= b)%Z data.
Proof. eapply Forall_impl; [|exact Hbytes]. intros b Hb. unfold is_byte in Hb. lia. Qed.

Definition len_ok (off' : nat) (len : option Z) : Prop :=
  match len with
  | Some l => (0 <= l /\ Z.of_nat off' + l <= Z.of_nat L)%Z
  | None => True
  end.

Lemma decode_length_spec o enf len off' :
  decode_length data o enf = Ok (len, off') -> (o + 1 <= off' <= L)%nat /\ len_ok off' len.
Proof.
  unfold decode_length. destruct (nth_error data o) as [l0|] eqn:En; [|discriminate].
  assert (Ho : (o < L)%nat) by (apply nth_error_Some; congruence).
  assert (Hl0 : (0 <= l0)%Z).
  { pose proof data_nonneg as Hn. rewrite Forall_forall in Hn. apply Hn. eapply nth_error_In, En. }
  unfold check_missing.
  destruct (Z.land l0 128 =? 0)%Z.
  - destruct (Z.of_nat (S o) + l0 >? Z.of_nat L)%Z eqn:E; [discriminate|].
    intros H. inversion H; subst. cbn [len_ok]. lia.
  - destruct (l0 =? 128)%Z.
    + destruct enf; [discriminate|]. intros H. inversion H; subst. cbn [len_ok]. lia.
    + set (n := Z.to_nat (Z.land l0 127)). set (el := slice data (S o) (n + S o)).
      destruct (negb (length el =? n)%nat) eqn:El; [discriminate|].
      assert (Hn : length el = n) by (apply negb_false_iff, Nat.eqb_eq in El; exact El).
      unfold el in Hn. rewrite slice_length in Hn.
      destruct (Z.of_nat (S o + n) + be_value el >? Z.of_nat L)%Z eqn:E; [discriminate|].
      intros H. inversion H; subst. cbn [len_ok].
      assert (0 <= be_value el)%Z.
      { apply be_value_acc_nonneg; [lia|]. pose proof data_nonneg as Hd. rewrite Forall_forall in *.
        intros x Hx. apply Hd. unfold el, slice in Hx. apply incl_firstn in Hx. apply incl_skipn in Hx. exact Hx. }
      lia.
Qed.

Lemma detect_eoc_true o : detect_eoc data o = Ok true -> (o + 2 <= L)%nat.
Proof.
  unfold detect_eoc. destruct (zlist_eqb (slice data o (o + 2)) [0; 0]%Z) eqn:E.
  - intros _. apply zlist_eqb_len in E. rewrite slice_length in E. cbn [length] in E. lia.
  - destruct (negb (length (slice data o (o + 2)) =? 2)%nat); intros H; inversion H.
Qed.

Lemma is_end_spec o endo fin o1 :
  is_end_of_data data o endo = Ok (fin, o1) ->
  (o <= o1)%nat /\ ((o <= L)%nat -> (o1 <= L)%nat) /\ (fin = false -> o1 = o) /\
  (fin = false -> match endo with Some en => (o < en)%nat | None => True end).
Proof.
  unfold is_end_of_data. destruct endo as [en|].
  - intros H. inversion H; subst. repeat split; lia.
  - destruct (detect_eoc data o) as [b|] eqn:E; cbn [bind]; [|discriminate].
    intros H. inversion H; subst. destruct fin.
    + apply detect_eoc_true in E. repeat split; try lia; discriminate.
    + repeat split; auto; lia.
Qed.

Lemma skip_tlc_spec off en :
  skip_tag_length_contents data off = Ok en -> (off + 1 <= Z.to_nat en <= L)%nat.
Proof.
  unfold skip_tag_length_contents. destruct (skip_tag data off) as [o|] eqn:E1; cbn [bind]; [|discriminate].
  apply skip_tag_ge in E1.
  destruct (decode_length data o true) as [[len off']|] eqn:E2; cbn [bind]; [|discriminate].
  apply decode_length_spec in E2. destruct E2 as (Ho & Hl).
  destruct len as [l|]; [|discriminate]. cbn [len_ok] in Hl. intros H. inversion H; subst. lia.
Qed.

(** ** The invariants *)

(** a decoder at an offset: a value and the end offset (at least one octet
    further, inside the data) paid by [a + b * consumed] steps; TAG_MISMATCH
    at the same offset for at most [am] steps; an error for at most
    [a + b * remaining] steps *)
Definition BC (a b am : N) (r : cres (dres * nat)) (off : nat) : Prop :=
  match r with
  | (Ok (DVal _, en), c) => (off + 1 <= en <= L)%nat /\ c <= a + b * N.of_nat (en - off)
  | (Ok (DMis, o), c) => o = off /\ c <= am
  | (Err _, c) => c <= a + b * N.of_nat (L - off)
  end.

(** a contents decoder started behind the length octets *)
Definition CC {A} (a b : N) (r : cres (A * nat)) (off : nat) : Prop :=
  match r with
  | (Ok (_, en), c) => (off <= en <= L)%nat /\ c <= a + b * N.of_nat (en - off)
  | (Err _, c) => c <= a + b * N.of_nat (L - off)
  end.

Lemma mul_mono_nat b x y : (x <= y)%nat -> b * N.of_nat x <= b * N.of_nat y.
Proof. intros H. apply N.mul_le_mono_l. lia. Qed.

Lemma BC_weaken a b am a' b' am' r off :
  a <= a' -> b <= b' -> am <= am' -> BC a b am r off -> BC a' b' am' r off.
Proof.
  intros Ha Hb Hm H. unfold BC in *. destruct r as [[[[|v] en]|x] c].
  - destruct H as (H1 & H2). split; [exact H1|lia].
  - destruct H as (H1 & H2). split; [exact H1|].
    pose proof (N.mul_le_mono_r _ _ (N.of_nat (en - off)) Hb). lia.
  - pose proof (N.mul_le_mono_r _ _ (N.of_nat (L - off)) Hb). lia.
Qed.

Lemma BC_tick n a b am r off : BC a b am r off -> BC (n + a) b (n + am) (cr_tick n r) off.
Proof.
  unfold BC, cr_tick. destruct r as [[[[|v] en]|x] c]; intros H.
  - destruct H as (H1 & H2). split; [exact H1|lia].
  - destruct H as (H1 & H2). split; [exact H1|lia].
  - lia.
Qed.

Lemma BC_std tagb indef off content a b :
  (forall off' len, (off + 1 <= off' <= L)%nat -> len_ok off' len -> CC a b (content off' len) off') ->
  BC (2 + a) b 1 (c_std_decode tagb indef data off content) off.
Proof.
  intros Hc. unfold c_std_decode, cr_bind, cr_prim, cr_ret.
  destruct (match_tag tagb data off) as [m|x]; [|cbn [BC]; nl].
  destruct m; cbn [negb]; [|cbn [BC]; split; [reflexivity|nl]].
  destruct (decode_length data (off + length tagb) (negb indef)) as [[len off']|x] eqn:El; [|cbn [BC]; nl].
  apply decode_length_spec in El. destruct El as (Ho & Hl).
  specialize (Hc off' len ltac:(nl) Hl). unfold CC in Hc.
  destruct (content off' len) as [[[v en]|x] c].
  - destruct Hc as (H1 & H2). cbn [BC]. split; [nl|].
    pose proof (mul_mono_nat b (en - off') (en - off) ltac:(nl)). nl.
  - cbn [BC]. pose proof (mul_mono_nat b (L - off') (L - off) ltac:(nl)). nl.
Qed.

(** leaf contents: one step *)
Lemma CC_with_len {A} (f : nat -> result A) off' len :
  len_ok off' len ->
  CC 1 0 (cr_prim (with_len len (fun l => let* v := f l in Ok (v, (off' + l)%nat)))) off'.
Proof.
  intros Hl. unfold cr_prim, with_len, CC. destruct len as [l|]; [|nl].
  destruct (f (Z.to_nat l)) as [v|x]; cbn [bind]; [|nl].
  cbn [len_ok] in Hl. split; nl.
Qed.

Lemma CC_dec_bool off' len : (off' <= L)%nat -> CC 1 0 (cr_prim (dec_bool data off' len)) off'.
Proof.
  intros Ho. unfold cr_prim, dec_bool, CC. destruct len as [[|[p|p|]|p]|]; try nl.
  destruct (nth_error data off') as [b|] eqn:E; [|nl].
  assert (off' < L)%nat by (apply nth_error_Some; congruence). split; nl.
Qed.

Lemma CC_dec_int off' len : len_ok off' len -> CC 1 0 (cr_prim (dec_int data off' len)) off'.
Proof.
  intros Hl. unfold cr_prim, dec_int, with_len, CC. destruct len as [l|]; [|nl].
  cbn [len_ok] in Hl. split; nl.
Qed.

Lemma CC_dec_enum items has_ext off' len :
  len_ok off' len -> CC 1 0 (cr_prim (dec_enum numeric items has_ext data off' len)) off'.
Proof.
  intros Hl. unfold cr_prim, dec_enum, with_len, CC. destruct len as [l|]; [|nl].
  cbn [len_ok] in Hl.
  destruct (enum_name_of _ items); [split; nl|]. destruct has_ext; [split; nl|nl].
Qed.

Lemma CC_dec_oid off' len : len_ok off' len -> CC 1 0 (cr_prim (dec_oid data off' len)) off'.
Proof.
  intros Hl. unfold cr_prim, dec_oid, with_len, CC. destruct len as [l|]; [|nl].
  cbn [len_ok] in Hl. destruct (decode_oid data off' (off' + Z.to_nat l)); cbn [bind]; [split; nl|nl].
Qed.

(** ** SEQUENCE OF / SET OF: every element pays for its iteration *)
Lemma CC_array_loop dece a b am :
  (forall o, BC a b am (dece o) o) ->
  forall loop start len off, (off <= L)%nat ->
    CC (2 + a + am) (2 + a + b) (c_array_loop der loop dece data start len off) off.
Proof.
  intros He. induction loop as [|lp IH]; intros start len off Ho; cbn [c_array_loop].
  - unfold cr_fail, CC. nl.
  - unfold cr_tick, cr_bind, cr_prim, cr_ret, cr_fail.
    set (finr := match len with
                 | Some l => Ok (l <=? Z.of_nat off - Z.of_nat start)%Z
                 | None => if der then Err (EForeign "TypeError") else detect_eoc data off
                 end).
    destruct finr as [fin|x] eqn:Ef; [|unfold CC; nl].
    destruct fin.
    + unfold CC. destruct len as [l|].
      * split; nl.
      * unfold finr in Ef. destruct der; [discriminate|]. apply detect_eoc_true in Ef. split; nl.
    + specialize (He off). unfold BC in He. destruct (dece off) as [[[[|v] en]|x] c1].
      * destruct He as (_ & Hc). unfold CC. nl.
      * destruct He as (Hen & Hc). specialize (IH start len en ltac:(lia)). unfold CC in IH.
        destruct (c_array_loop der lp dece data start len en) as [[[vs en2]|x] c2].
        -- destruct IH as (Hen2 & Hc2). unfold CC. split; [lia|].
           replace (N.of_nat (en2 - off)) with (N.of_nat (en - off) + N.of_nat (en2 - en)) by lia.
           assert (1 <= N.of_nat (en - off)) by lia.
           set (D1 := N.of_nat (en - off)) in *. set (D2 := N.of_nat (en2 - en)) in *. nia.
        -- unfold CC.
           replace (N.of_nat (L - off)) with (N.of_nat (en - off) + N.of_nat (L - en)) by lia.
           assert (1 <= N.of_nat (en - off)) by lia.
           set (D1 := N.of_nat (en - off)) in *. set (D2 := N.of_nat (L - en)) in *. nia.
      * unfold CC. nl.
Qed.

(** ** Strings: primitive, or constructed from segments nested to any depth.
    A string at any depth costs at most [8 * (its octets) - 2] steps: every
    encoding has at least one length octet, which pays for the (at most 6)
    steps of its own header and leaves 2 for the iteration of the segment
    loop that contains it - the bound does not depend on the nesting. *)
Definition PCI (r : cres (dres * nat)) (off : nat) : Prop :=
  match r with
  | (Ok (DVal _, en), c) => (off + 1 <= en <= L)%nat /\ c + 2 <= 8 * N.of_nat (en - off)
  | (Ok (DMis, o), c) => o = off /\ c <= 2
  | (Err _, c) => c <= 4 + 8 * N.of_nat (L - off)
  end.

Lemma seg_loop_bound decseg endo :
  (forall o, PCI (decseg o) o) ->
  forall loop o, (o <= L)%nat ->
    match c_seg_loop decseg data endo loop o with
    | (Ok (_, o3), c) => (o <= o3 <= L)%nat /\ c <= 2 + 8 * N.of_nat (o3 - o)
    | (Err _, c) => c <= 8 + 8 * N.of_nat (L - o)
    end.
Proof.
  intros Hd. induction loop as [|lp IH]; intros o Ho; cbn [c_seg_loop].
  - unfold cr_fail. nl.
  - unfold cr_tick, cr_bind, cr_prim, cr_ret, cr_fail.
    destruct (is_end_of_data data o endo) as [[fin o1]|x] eqn:Ee; [|nl].
    apply is_end_spec in Ee. destruct Ee as (H1 & H2 & H3 & _). specialize (H2 Ho).
    destruct fin; [split; nl|]. specialize (H3 eq_refl). subst o1.
    specialize (Hd o). unfold PCI in Hd. destruct (decseg o) as [[[[|sv] o2]|x] c1].
    + destruct Hd as (_ & Hc). nl.
    + destruct Hd as (Ho2 & Hc). specialize (IH o2 ltac:(lia)).
      destruct (c_seg_loop decseg data endo lp o2) as [[[rest o3]|x] c2].
      * destruct IH as (Ho3 & Hc2). split; [lia|].
        replace (N.of_nat (o3 - o)) with (N.of_nat (o2 - o) + N.of_nat (o3 - o2)) by lia. nl.
      * replace (N.of_nat (L - o)) with (N.of_nat (o2 - o) + N.of_nat (L - o2)) by lia. nl.
    + nl.
Qed.

Lemma PCI_pc_decode : forall sf pk tagb off, PCI (c_pc_decode sf pk tagb data off) off.
Proof.
  induction sf as [|sf IH]; intros pk tagb off; cbn [c_pc_decode].
  - unfold cr_fail, PCI. nl.
  - cbv zeta. unfold cr_tick.
    destruct (zlist_eqb (slice data off (off + length tagb)) tagb).
    + (* primitive *)
      unfold cr_bind, cr_prim.
      destruct (decode_length data (off + length tagb) false) as [[len off']|x] eqn:El; [|unfold PCI; nl].
      apply decode_length_spec in El. destruct El as (Ho & Hl).
      unfold with_len. destruct len as [l|]; [|unfold PCI; nl]. cbn [len_ok] in Hl.
      destruct (pc_primitive pk data off' (Z.to_nat l)); cbn [bind]; unfold PCI; [split; nl|nl].
    + destruct (zlist_eqb (slice data off (off + length tagb)) (set_constructed tagb)).
      * (* constructed *)
        unfold cr_bind at 1. unfold cr_prim at 1.
        destruct (decode_length data (off + length tagb) false) as [[len off']|x] eqn:El; [|unfold PCI; nl].
        apply decode_length_spec in El. destruct El as (Ho & Hl).
        pose proof (seg_loop_bound
                      (c_pc_decode sf (if pc_segment_is_bits pk then PcBits else PcOctets)
                                   (mk_tag None (if pc_segment_is_bits pk then 3 else 4)%Z false) data)
                      (end_of off' len) (fun o => IH _ _ o) (S (length data)) off' ltac:(lia)) as Hs.
        unfold cr_bind, cr_prim, cr_ret.
        destruct (c_seg_loop _ data (end_of off' len) (S (length data)) off') as [[[svs en]|x] c1].
        -- destruct Hs as (Hen & Hc). destruct (join_segments pk svs); unfold PCI.
           ++ split; [lia|].
              replace (N.of_nat (en - off)) with (N.of_nat (off' - off) + N.of_nat (en - off')) by lia. nl.
           ++ replace (N.of_nat (L - off)) with (N.of_nat (off' - off) + N.of_nat (en - off') + N.of_nat (L - en)) by lia. nl.
        -- unfold PCI.
           replace (N.of_nat (L - off)) with (N.of_nat (off' - off) + N.of_nat (L - off')) by lia. nl.
      * destruct (negb _ && _); unfold cr_fail, cr_ret, PCI; [nl|split; [reflexivity|nl]].
Qed.

Lemma BC_string pk tagb off : BC 4 8 2 (c_string_decode der pk tagb data off) off.
Proof.
  unfold c_string_decode. destruct der.
  - eapply BC_weaken; [| | |apply (BC_std tagb false off _ 1 0)]; try nl.
    intros off' len Ho Hl. apply CC_with_len, Hl.
  - pose proof (PCI_pc_decode (S (length data)) pk tagb off) as H. unfold PCI, BC in *.
    destruct (c_pc_decode (S (length data)) pk tagb data off) as [[[[|v] en]|x] c].
    + exact H.
    + destruct H as (H1 & H2). split; [exact H1|nl].
    + exact H.
Qed.
(** ** The member loops of SEQUENCE / SET *)
Section Members.
  Variable decm : member_of ty -> nat -> cres (dres * nat).
  Variables a b am : N.
  (** the members that answer within the uniform bound *)
  Definition okm (m : member_of ty) : Prop := forall o, BC a b am (decm m o) o.

  Definition inv_out (endo : option nat) (off : nat) (out : bool) : Prop :=
    out = false -> match endo with Some en => (off < en)%nat | None => True end.

  (** one pass: every remaining member is tried once (2 + am steps when it
      does not match); a member that is decoded pays with its octets *)
  Lemma members_pass_bound endo : forall ms off out,
    Forall okm ms -> (off <= L)%nat -> inv_out endo off out ->
    match c_members_pass decm data endo ms off out with
    | (Ok (off', out', _, un, _), c) =>
      (off <= off' <= L)%nat /\ (length un <= length ms)%nat /\ Forall okm un /\ inv_out endo off' out' /\
      c <= N.of_nat (length ms) * (2 + am) + (2 + a + b) * N.of_nat (off' - off)
    | (Err _, c) => c <= N.of_nat (length ms) * (2 + am) + (2 + a) + (2 + a + b) * N.of_nat (L - off)
    end.
  Proof.
    induction ms as [|m r IH]; intros off out Hf Ho Hio; cbn [c_members_pass].
    - unfold cr_ret. repeat split; try nl; [constructor|exact Hio].
    - destruct out; [unfold cr_ret; repeat split; try nl; [exact Hf|discriminate]|].
      inversion Hf as [|m' r' Hm Hr]; subst.
      unfold cr_tick, cr_bind, cr_prim, cr_ret.
      specialize (Hm off). unfold BC in Hm. cbn [length]. rewrite Nat2N.inj_succ, N.mul_succ_l.
      destruct (decm m off) as [[[[|v] off1]|x] c1].
      + destruct Hm as (-> & Hc1).
        destruct (is_end_of_data data off endo) as [[out1 off2]|x] eqn:Ee; [|nl].
        apply is_end_spec in Ee. destruct Ee as (E1 & E2 & E3 & E4). specialize (E2 Ho).
        assert (Hio2 : inv_out endo off2 out1).
        { intros Hf2. specialize (E3 Hf2). subst off2. apply E4, Hf2. }
        specialize (IH off2 out1 Hr E2 Hio2).
        destruct (c_members_pass decm data endo r off2 out1) as [[[[[[off' out'] vs] un] s]|x] c3].
        * destruct IH as (I1 & I2 & I3 & I4 & I5). split; [lia|]. split; [cbn [length]; lia|].
          split; [constructor; [exact (fun o => ltac:(inversion Hf; auto))|exact I3]|]. split; [exact I4|].
          pose proof (mul_mono_nat (2 + a + b) (off' - off2) (off' - off) ltac:(lia)). nl.
        * pose proof (mul_mono_nat (2 + a + b) (L - off2) (L - off) ltac:(lia)). nl.
      + destruct Hm as (Hen & Hc1).
        destruct (is_end_of_data data off1 endo) as [[out1 off2]|x] eqn:Ee.
        2:{ assert (1 <= N.of_nat (off1 - off)) by lia.
            pose proof (mul_mono_nat (2 + a + b) (off1 - off) (L - off) ltac:(lia)).
            set (D := N.of_nat (off1 - off)) in *. nia. }
        apply is_end_spec in Ee. destruct Ee as (E1 & E2 & E3 & E4). specialize (E2 ltac:(lia)).
        assert (Hio2 : inv_out endo off2 out1).
        { intros Hf2. specialize (E3 Hf2). subst off2. apply E4, Hf2. }
        specialize (IH off2 out1 Hr E2 Hio2).
        assert (Hd : 1 <= N.of_nat (off1 - off)) by lia.
        destruct (c_members_pass decm data endo r off2 out1) as [[[[[[off' out'] vs] un] s]|x] c3].
        * destruct IH as (I1 & I2 & I3 & I4 & I5). split; [lia|]. split; [lia|]. split; [exact I3|]. split; [exact I4|].
          replace (N.of_nat (off' - off)) with (N.of_nat (off1 - off) + N.of_nat (off2 - off1) + N.of_nat (off' - off2)) by lia.
          set (D1 := N.of_nat (off1 - off)) in *. set (D2 := N.of_nat (off2 - off1)) in *.
          set (D3 := N.of_nat (off' - off2)) in *. nia.
        * replace (N.of_nat (L - off)) with (N.of_nat (off1 - off) + N.of_nat (off2 - off1) + N.of_nat (L - off2)) by lia.
          set (D1 := N.of_nat (off1 - off)) in *. set (D2 := N.of_nat (off2 - off1)) in *.
          set (D3 := N.of_nat (L - off2)) in *. nia.
      + nl.
  Qed.

  (** the [while True] loop: at most [n] passes *)
  Lemma members_loop_bound endo : forall n remaining off out vals,
    Forall okm remaining -> (off <= L)%nat ->
    match c_members_loop n decm data endo remaining off out vals with
    | (Ok (off', out', _, un), c) =>
      (off <= off' <= L)%nat /\ (length un <= length remaining)%nat /\ Forall okm un /\ inv_out endo off' out' /\
      c <= N.of_nat n * (2 + N.of_nat (length remaining) * (2 + am)) + (2 + a + b) * N.of_nat (off' - off)
    | (Err _, c) =>
      c <= N.of_nat n * (2 + N.of_nat (length remaining) * (2 + am)) + (2 + a) + (2 + a + b) * N.of_nat (L - off)
    end.
  Proof.
    induction n as [|k IH]; intros remaining off out vals Hf Ho; cbn [c_members_loop].
    - unfold cr_fail. nl.
    - unfold cr_tick. unfold cr_bind at 1.
      set (first := if out then cr_ret (true, off) else cr_prim (is_end_of_data data off endo)).
      assert (Hfirst : match first with
                       | (Ok (out0, off0), c0) => (off <= off0 <= L)%nat /\ inv_out endo off0 out0 /\ c0 <= 1
                       | (Err _, c0) => c0 <= 1
                       end).
      { unfold first. destruct out; [unfold cr_ret; repeat split; try nl; discriminate|].
        unfold cr_prim. destruct (is_end_of_data data off endo) as [[out0 off0]|x] eqn:Ee; [|nl].
        apply is_end_spec in Ee. destruct Ee as (E1 & E2 & E3 & E4). specialize (E2 Ho).
        repeat split; try nl. intros Hf2. specialize (E3 Hf2). subst off0. apply E4, Hf2. }
      rewrite Nat2N.inj_succ, N.mul_succ_l.
      destruct first as [[[out0 off0]|x] c0]; [|nl].
      destruct Hfirst as (F1 & F2 & F3).
      pose proof (members_pass_bound endo remaining off0 out0 Hf ltac:(lia) F2) as Hp.
      unfold cr_bind.
      destruct (c_members_pass decm data endo remaining off0 out0) as [[[[[[off' out'] vs] un] s]|x] c1].
      + destruct Hp as (P1 & P2 & P3 & P4 & P5).
        assert (Hret : (off <= off' <= L)%nat /\ (length un <= length remaining)%nat /\ Forall okm un /\
                       inv_out endo off' out' /\
                       1 + (c0 + (c1 + 0)) <= N.of_nat k * (2 + N.of_nat (length remaining) * (2 + am)) +
                                              (2 + N.of_nat (length remaining) * (2 + am)) +
                                              (2 + a + b) * N.of_nat (off' - off)).
        { repeat split; try lia; try assumption.
          pose proof (mul_mono_nat (2 + a + b) (off' - off0) (off' - off) ltac:(lia)). nl. }
        destruct out'; [unfold cr_ret; exact Hret|].
        destruct s; cbn [negb]; [|unfold cr_ret; exact Hret].
        specialize (IH un off' false (add_values vals vs) P3 ltac:(lia)).
        destruct (c_members_loop k decm data endo un off' false (add_values vals vs)) as [[[[[off2 out2] vals2] un2]|x] c2].
        * destruct IH as (I1 & I2 & I3 & I4 & I5). split; [lia|]. split; [lia|]. split; [exact I3|]. split; [exact I4|].
          assert (N.of_nat k * (2 + N.of_nat (length un) * (2 + am)) <=
                  N.of_nat k * (2 + N.of_nat (length remaining) * (2 + am))).
          { apply N.mul_le_mono_l. apply N.add_le_mono_l. apply N.mul_le_mono_r. lia. }
          replace (N.of_nat (off2 - off)) with (N.of_nat (off0 - off) + N.of_nat (off' - off0) + N.of_nat (off2 - off')) by lia.
          set (D1 := N.of_nat (off0 - off)) in *. set (D2 := N.of_nat (off' - off0)) in *.
          set (D3 := N.of_nat (off2 - off')) in *. nia.
        * assert (N.of_nat k * (2 + N.of_nat (length un) * (2 + am)) <=
                  N.of_nat k * (2 + N.of_nat (length remaining) * (2 + am))).
          { apply N.mul_le_mono_l. apply N.add_le_mono_l. apply N.mul_le_mono_r. lia. }
          replace (N.of_nat (L - off)) with (N.of_nat (off0 - off) + N.of_nat (off' - off0) + N.of_nat (L - off')) by lia.
          set (D1 := N.of_nat (off0 - off)) in *. set (D2 := N.of_nat (off' - off0)) in *.
          set (D3 := N.of_nat (L - off')) in *. nia.
      + pose proof (mul_mono_nat (2 + a + b) (L - off0) (L - off) ltac:(lia)). nl.
  Qed.

  (** (passes) * (2 + candidates * (2 + am)) + the trailing loop *)
  Definition Qm (n : N) : N := (n + 1) * (2 + n * (2 + am)) + n.

  Lemma Qm_mono n n' : n <= n' -> Qm n <= Qm n'.
  Proof. intros H. unfold Qm. nia. Qed.

  Lemma decode_members_bound endo ms ig off out vals :
    Forall okm ms -> (off <= L)%nat ->
    match c_decode_members decm data endo ms ig off out vals with
    | (Ok (off', out', _), c) =>
      (off <= off' <= L)%nat /\ inv_out endo off' out' /\
      c <= Qm (N.of_nat (length ms)) + (2 + a + b) * N.of_nat (off' - off)
    | (Err _, c) => c <= Qm (N.of_nat (length ms)) + (2 + a) + (2 + a + b) * N.of_nat (L - off)
    end.
  Proof.
    intros Hf Ho. unfold c_decode_members, cr_bind.
    pose proof (members_loop_bound endo (S (length ms)) ms off out vals Hf Ho) as Hl.
    destruct (c_members_loop (S (length ms)) decm data endo ms off out vals) as [[[[[off' out'] vals'] un]|x] c1].
    - destruct Hl as (L1 & L2 & L3 & L4 & L5). unfold c_members_missing, cr_tick, cr_free, cr_ret.
      rewrite Nat2N.inj_succ in L5. unfold Qm.
      destruct (members_missing un ig out' vals') as [vals''|x].
      + split; [lia|]. split; [exact L4|]. nl.
      + pose proof (mul_mono_nat (2 + a + b) (off' - off) (L - off) ltac:(lia)). nl.
    - rewrite Nat2N.inj_succ in Hl. unfold Qm. nl.
  Qed.
End Members.
End Bound.

(** ** The constant of a type, by the recursion of [dec] (same fuel) *)

Record bk : Type := BK { ba : N; bb : N; bm : N }.
Definition bk_max (k1 k2 : bk) : bk := BK (N.max (ba k1) (ba k2)) (N.max (bb k1) (bb k2)) (N.max (bm k1) (bm k2)).
Definition bk_tick (n : N) (k : bk) : bk := BK (n + ba k) (bb k) (n + bm k).
Definition kmax_ms (kT : ty -> bk) (ms : list (member_of ty)) : bk :=
  fold_right (fun m acc => bk_max (kT (m_ty m)) acc) (BK 0 0 0) ms.

Lemma kmax_ms_ge kT ms m : In m ms ->
  ba (kT (m_ty m)) <= ba (kmax_ms kT ms) /\ bb (kT (m_ty m)) <= bb (kmax_ms kT ms) /\
  bm (kT (m_ty m)) <= bm (kmax_ms kT ms).
Proof.
  induction ms as [|x r IH]; intros Hin; [destruct Hin|].
  cbn [kmax_ms fold_right bk_max ba bb bm]. fold (kmax_ms kT r). destruct Hin as [->|Hin]; [lia|].
  specialize (IH Hin). lia.
Qed.

Fixpoint Kb (e : env) (fuel : nat) (t : ty) {struct fuel} : bk :=
  match fuel with
  | O => BK 1 0 1
  | S f =>
    bk_tick 1 (
    match t with
    | TBool | TNull | TInt _ | TEnum _ _ | TOid => BK 3 0 1
    | TBits _ _ | TOctets _ | TStr _ _ _ => BK 4 8 2
    | TSeq _ root ext =>
      let ms := members_of root ext in
      let k := kmax_ms (Kb e f) ms in
      BK (2 + (2 * Qm (bm k) (N.of_nat (length ms)) + (2 + ba k))) (2 + ba k + bb k) 1
    | TSeqOf _ el _ => let k := Kb e f el in BK (2 + (2 + ba k + bm k)) (2 + ba k + bb k) 1
    | TChoice root ext =>
      let k := kmax_ms (Kb e f) (choice_members root ext) in BK (2 + ba k + bm k) (bb k) 1
    | TRef n => match lookup n e with Some t' => Kb e f t' | None => BK 0 0 0 end
    | TTag tg t' =>
      if t_explicit tg then let k := Kb e f t' in BK (2 + (1 + ba k + bm k)) (bb k) 1 else Kb e f t'
    end)
  end.

(** the constant of the bound *)
Definition Kber (e : env) (fuel : nat) (t : ty) : N :=
  ba (Kb e fuel t) + bb (Kb e fuel t) + bm (Kb e fuel t).

Lemma filter_len_le {A} (p : A -> bool) l : (length (filter p l) <= length l)%nat.
Proof. induction l as [|x l IH]; cbn [filter length]; [lia|]. destruct (p x); cbn [length]; lia. Qed.

Section Main.
Variable der : bool.
Variable numeric : bool.
Variable e : env.
Variable data : list Z.
Hypothesis Hbytes : bytes_ok data.
Notation L := (length data).
Notation BCd := (BC data).
Notation CCd := (CC data).

Lemma Forall_okm_members f (ms : list (member_of ty)) :
  (forall ovr t off, BCd (ba (Kb e f t)) (bb (Kb e f t)) (bm (Kb e f t)) (c_dec der numeric e f ovr t data off) off) ->
  forall sub, incl sub ms ->
  Forall (okm data (fun m o => c_dec der numeric e f None (m_ty m) data o)
              (ba (kmax_ms (Kb e f) ms)) (bb (kmax_ms (Kb e f) ms)) (bm (kmax_ms (Kb e f) ms))) sub.
Proof.
  intros IH sub Hs. apply Forall_forall. intros m Hm o.
  destruct (kmax_ms_ge (Kb e f) ms m (Hs m Hm)) as (H1 & H2 & H3).
  eapply BC_weaken; [exact H1|exact H2|exact H3|apply IH].
Qed.

Theorem BC_dec : forall fuel ovr t off,
  BCd (ba (Kb e fuel t)) (bb (Kb e fuel t)) (bm (Kb e fuel t)) (c_dec der numeric e fuel ovr t data off) off.
Proof.
  induction fuel as [|f IH]; intros ovr t off; cbn [c_dec Kb].
  - unfold cr_tick, cr_fail, BC. cbn [ba bb bm]. lia.
  - apply (BC_tick data 1). destruct t; unfold bk_tick; cbn [ba bb bm].
    + (* BOOLEAN *) apply (BC_std data Hbytes _ _ _ _ 1 0). intros off' len Ho Hl. apply CC_dec_bool. lia.
    + (* NULL *) apply (BC_std data Hbytes _ _ _ _ 1 0). intros off' len Ho Hl. unfold cr_ret, CC. split; lia.
    + (* INTEGER *) apply (BC_std data Hbytes _ _ _ _ 1 0). intros off' len Ho Hl. apply CC_dec_int, Hl.
    + (* ENUMERATED *) apply (BC_std data Hbytes _ _ _ _ 1 0). intros off' len Ho Hl. apply CC_dec_enum, Hl.
    + apply (BC_string der data Hbytes).
    + apply (BC_string der data Hbytes).
    + apply (BC_string der data Hbytes).
    + (* OID *) apply (BC_std data Hbytes _ _ _ _ 1 0). intros off' len Ho Hl. apply CC_dec_oid, Hl.
    + (* SEQUENCE / SET *)
      cbv zeta. set (ms := members_of root ext). set (k := kmax_ms (Kb e f) ms).
      apply (BC_std data Hbytes). intros off' len Ho Hl.
      set (decm := fun (m : member_of ty) (o : nat) => c_dec der numeric e f None (m_ty m) data o).
      set (Bm := 2 + ba k + bb k). set (Q := Qm (bm k) (N.of_nat (length ms))).
      assert (Hall : forall sub, incl sub ms -> Forall (okm data decm (ba k) (bb k) (bm k)) sub)
        by (apply Forall_okm_members, IH).
      unfold cr_bind at 1. unfold cr_free at 1.
      destruct (compiled_root der e f isset root) as [root'|x] eqn:Ecr; [|unfold CC; nl].
      pose proof (compiled_root_perm _ _ _ _ _ _ Ecr) as Hperm.
      assert (Hroot' : incl root' ms).
      { intros m Hm. unfold ms, members_of. apply in_or_app. left. eapply Permutation_in; [exact Hperm|exact Hm]. }
      assert (Hadds : incl (additions_flat ext) ms).
      { intros m Hm. unfold ms, members_of, additions_flat in *. apply in_or_app. right. exact Hm. }
      assert (Hlen : length ms = (length root' + length (additions_flat ext))%nat).
      { unfold ms, members_of, additions_flat. rewrite app_length, (Permutation_length Hperm). reflexivity. }
      (* the member phase *)
      match goal with |- context [cr_bind ?p _] =>
        lazymatch p with (if isset then _ else _) => set (phase := p) end end.
      assert (Hphase :
        match phase with
        | (Ok (off2, out2, _), c) =>
          (off' <= off2 <= L)%nat /\ inv_out (end_of off' len) off2 out2 /\ c <= 2 * Q + Bm * N.of_nat (off2 - off')
        | (Err _, c) => c <= 2 * Q + (2 + ba k) + Bm * N.of_nat (L - off')
        end).
      { unfold phase. destruct isset.
        - cbv zeta. unfold cr_bind at 1.
          pose proof (members_loop_bound der data decm (ba k) (bb k) (bm k) (end_of off' len)
                        (S (length (root' ++ additions_flat ext))) (root' ++ additions_flat ext) off' false []
                        (Hall _ (incl_app Hroot' Hadds)) ltac:(lia)) as Hl2.
          assert (Hn : length (root' ++ additions_flat ext) = length ms) by (rewrite app_length; lia).
          destruct (c_members_loop (S (length (root' ++ additions_flat ext))) decm data (end_of off' len)
                                   (root' ++ additions_flat ext) off' false [])
            as [[[[[off1 out1] vals1] un]|x] c1]; rewrite Hn in Hl2.
          + destruct Hl2 as (L1 & L2 & L3 & L4 & L5).
            cbv beta iota zeta. unfold c_members_missing, cr_tick, cr_free, cr_bind, cr_ret.
            rewrite Nat2N.inj_succ in L5. fold Bm in L5. unfold Q, Qm.
            repeat match goal with
                   | |- context [length (filter ?p un)] =>
                     lazymatch goal with
                     | H : (length (filter p un) <= length un)%nat |- _ => fail
                     | _ => pose proof (filter_len_le p un)
                     end
                   end.
            match goal with |- context [members_missing ?l false out1 vals1] =>
              destruct (members_missing l false out1 vals1) as [vals1'|x] end.
            * match goal with |- context [members_missing ?l true out1 vals1'] =>
                destruct (members_missing l true out1 vals1') as [vals1''|x] end.
              -- split; [lia|]. split; [exact L4|]. nl.
              -- pose proof (mul_mono_nat Bm (off1 - off') (L - off') ltac:(lia)). nl.
            * pose proof (mul_mono_nat Bm (off1 - off') (L - off') ltac:(lia)). nl.
          + rewrite Nat2N.inj_succ in Hl2. unfold Q, Qm. fold Bm in Hl2. nl.
        - unfold cr_bind at 1.
          pose proof (decode_members_bound der data decm (ba k) (bb k) (bm k) (end_of off' len) root' false off' false []
                        (Hall _ Hroot') ltac:(lia)) as Hd1.
          assert (Hq1 : Qm (bm k) (N.of_nat (length root')) <= Q) by (apply Qm_mono; lia).
          assert (Hq2 : Qm (bm k) (N.of_nat (length (additions_flat ext))) <= Q) by (apply Qm_mono; lia).
          destruct (c_decode_members decm data (end_of off' len) root' false off' false []) as [[[[off1 out1] vals1]|x] c1].
          + destruct Hd1 as (D1 & D2 & D3). fold Bm in D3.
            destruct (additions_flat ext) as [|ad adds] eqn:Ea.
            * unfold cr_ret. split; [lia|]. split; [exact D2|]. nl.
            * pose proof (decode_members_bound der data decm (ba k) (bb k) (bm k) (end_of off' len) (ad :: adds) true off1 out1 vals1
                            (Hall _ Hadds) ltac:(lia)) as Hd2.
              destruct (c_decode_members decm data (end_of off' len) (ad :: adds) true off1 out1 vals1) as [[[[off2 out2] vals2]|x] c2].
              -- destruct Hd2 as (E1 & E2 & E3). fold Bm in E3. split; [lia|]. split; [exact E2|].
                 replace (N.of_nat (off2 - off')) with (N.of_nat (off1 - off') + N.of_nat (off2 - off1)) by lia. nl.
              -- fold Bm in Hd2.
                 replace (N.of_nat (L - off')) with (N.of_nat (off1 - off') + N.of_nat (L - off1)) by lia. nl.
          + fold Bm in Hd1. nl. }
      clearbody phase. unfold cr_bind.
      destruct phase as [[[[off2 out2] vals2]|x] c].
      * destruct Hphase as (P1 & P2 & P3). unfold cr_ret, cr_fail. destruct out2.
        -- unfold CC. split; [lia|]. nl.
        -- specialize (P2 eq_refl). destruct len as [l|]; cbn [end_of] in *.
           ++ cbn [len_ok] in Hl. unfold CC. split; [lia|].
              pose proof (mul_mono_nat Bm (off2 - off') (off' + Z.to_nat l - off') ltac:(lia)). nl.
           ++ unfold CC. pose proof (mul_mono_nat Bm (off2 - off') (L - off') ltac:(lia)). nl.
      * unfold CC. nl.
    + (* SEQUENCE OF / SET OF *)
      cbv zeta. apply (BC_std data Hbytes). intros off' len Ho Hl.
      pose proof (CC_array_loop der data (fun o => c_dec der numeric e f None t data o)
                    (ba (Kb e f t)) (bb (Kb e f t)) (bm (Kb e f t)) (fun o => IH None t o)
                    (S (length data)) off' len off' ltac:(lia)) as Ha.
      unfold cr_bind, cr_ret. unfold CC in *.
      destruct (c_array_loop der (S (length data)) _ data off' len off') as [[[vs en]|x] c]; [|exact Ha].
      destruct Ha as (H1 & H2). split; [exact H1|nl].
    + (* CHOICE *)
      cbv zeta. set (k := kmax_ms (Kb e f) (choice_members root ext)).
      destruct ovr as [cn|]; [unfold cr_fail, BC; nl|].
      unfold cr_bind at 1. unfold cr_prim at 1.
      destruct (skip_tag data off) as [tend|x] eqn:Es; [|unfold BC; nl].
      unfold cr_bind at 1. unfold cr_free at 1.
      destruct (find_alt _ _ (choice_members root ext)) as [[m|]|x] eqn:Ef; [| |unfold BC; nl].
      * apply find_alt_In in Ef.
        destruct (kmax_ms_ge (Kb e f) (choice_members root ext) m Ef) as (K1 & K2 & K3). fold k in K1, K2, K3.
        pose proof (IH None (m_ty m) off) as Hm. unfold cr_bind, cr_ret, cr_fail. unfold BC in *.
        destruct (c_dec der numeric e f None (m_ty m) data off) as [[[[|v] en]|x] c].
        -- destruct Hm as (_ & Hc). nl.
        -- destruct Hm as (H1 & H2). split; [exact H1|].
           pose proof (N.mul_le_mono_r _ _ (N.of_nat (en - off)) K2). nl.
        -- pose proof (N.mul_le_mono_r _ _ (N.of_nat (L - off)) K2). nl.
      * destruct ext as [adds|].
        -- unfold cr_bind, cr_prim, cr_ret.
           destruct (skip_tag_length_contents data off) as [en|x] eqn:Et; [|unfold BC; nl].
           apply (skip_tlc_spec data Hbytes) in Et. unfold BC. split; [lia|nl].
        -- unfold cr_ret, BC. split; [reflexivity|nl].
    + (* reference *)
      destruct (lookup name e) as [t'|]; [apply IH|unfold cr_fail, BC; nl].
    + (* tag *)
      cbv zeta. destruct (t_explicit tg); [|apply IH].
      cbv zeta. cbn [ba bb bm]. apply (BC_std data Hbytes). intros off' len Ho Hl.
      pose proof (IH None t off') as Hi. unfold cr_bind, cr_ret, cr_fail, cr_prim. unfold BC, CC in *.
      destruct (c_dec der numeric e f None t data off') as [[[[|v] en]|x] c].
      * destruct Hi as (_ & Hc). nl.
      * destruct Hi as (H1 & H2). destruct len as [l|].
        -- split; [lia|nl].
        -- destruct (detect_eoc data en) as [b|x] eqn:Ed.
           ++ destruct b.
              ** apply (detect_eoc_true data) in Ed. split; [lia|].
                 pose proof (mul_mono_nat (bb (Kb e f t)) (en - off') (en + 2 - off') ltac:(lia)). nl.
              ** pose proof (mul_mono_nat (bb (Kb e f t)) (en - off') (L - off') ltac:(lia)). nl.
           ++ pose proof (mul_mono_nat (bb (Kb e f t)) (en - off') (L - off') ltac:(lia)). nl.
      * nl.
Qed.

Theorem c_decode_top_bound fuel t :
  snd (c_decode_top der numeric e fuel t data) <= Kber e fuel t * (N.of_nat L + 1).
Proof.
  unfold c_decode_top, Kber, cr_bind, cr_ret, cr_fail.
  pose proof (BC_dec fuel None t 0) as H. unfold BC in H.
  destruct (c_dec der numeric e fuel None t data 0) as [[[[|v] en]|x] c]; cbn [snd].
  - destruct H as (_ & H). nl.
  - destruct H as (H1 & H2).
    pose proof (mul_mono_nat (bb (Kb e fuel t)) (en - 0) L ltac:(lia)). nl.
  - rewrite Nat.sub_0_r in H. nl.
Qed.
End Main.

(** ** The theorems for [Ber/BerImpl.v] and [Ber/DerImpl.v] *)
From Asn1V Require Import Ber.BerImpl Ber.DerImpl.

Theorem ber_decode_cost_erases numeric fuel e t bs :
  fst (ber_decode_cost numeric fuel e t bs) = ber_decode numeric fuel e t bs.
Proof. apply c_decode_top_erases. Qed.

Theorem der_decode_cost_erases numeric fuel e t bs :
  fst (der_decode_cost numeric fuel e t bs) = der_decode numeric fuel e t bs.
Proof. apply c_decode_top_erases. Qed.

(** THE WORK BOUND for BER: on any octet string - valid, malformed, truncated,
    indefinite lengths, segmented strings, SET components in any order - the
    decoder makes at most [Kber e fuel t * (length bs + 1)] steps. *)
Theorem ber_decode_cost_bound numeric fuel e t bs :
  bytes_ok bs ->
  snd (ber_decode_cost numeric fuel e t bs) <= Kber e fuel t * (N.of_nat (length bs) + 1).
Proof. intros H. apply (c_decode_top_bound false numeric e bs H). Qed.

Theorem der_decode_cost_bound numeric fuel e t bs :
  bytes_ok bs ->
  snd (der_decode_cost numeric fuel e t bs) <= Kber e fuel t * (N.of_nat (length bs) + 1).
Proof. intros H. apply (c_decode_top_bound true numeric e bs H). Qed.

(** additive / per-octet form, and success paid by the consumed octets *)
Theorem ber_dec_cost_bound_consumed der numeric e fuel ovr t data off v en c :
  bytes_ok data ->
  c_dec der numeric e fuel ovr t data off = (Ok (DVal v, en), c) ->
  (off + 1 <= en <= length data)%nat /\
  c <= ba (Kb e fuel t) + bb (Kb e fuel t) * N.of_nat (en - off).
Proof.
  intros H E. pose proof (BC_dec der numeric e data H fuel ovr t off) as Hb. rewrite E in Hb. exact Hb.
Qed.

(** * 3. Fuel stability for acyclic specifications *)

(** every path of nested types below [t] has at most [d] levels (the same
    notion as [fits] of Per/UperCostProofs.v, over the component lists BER uses) *)
Fixpoint fitsb (e : env) (d : nat) (t : ty) {struct d} : bool :=
  match d with
  | O => false
  | S d' =>
    match t with
    | TSeq _ root ext => forallb (fun m => fitsb e d' (m_ty m)) (members_of root ext)
    | TSeqOf _ el _ => fitsb e d' el
    | TChoice root ext => forallb (fun m => fitsb e d' (m_ty m)) (choice_members root ext)
    | TRef n => match lookup n e with Some t' => fitsb e d' t' | None => true end
    | TTag _ t' => fitsb e d' t'
    | _ => true
    end
  end.

Lemma kmax_ms_agree (P : ty -> bool) kT1 kT2 ms :
  (forall t, P t = true -> kT1 t = kT2 t) ->
  forallb (fun m => P (m_ty m)) ms = true -> kmax_ms kT1 ms = kmax_ms kT2 ms.
Proof.
  intros Hag. induction ms as [|m r IH]; [reflexivity|]. cbn [forallb kmax_ms fold_right]. intros H.
  apply andb_prop in H. destruct H as [H1 H2]. fold (kmax_ms kT1 r) (kmax_ms kT2 r).
  rewrite (Hag _ H1), (IH H2). reflexivity.
Qed.

Lemma Kb_fuel_stable e d : forall t fuel,
  fitsb e d t = true -> (d <= fuel)%nat -> Kb e fuel t = Kb e d t.
Proof.
  induction d as [|d IH]; intros t fuel Hf Hle; [discriminate|].
  destruct fuel as [|f]; [lia|]. assert (Hle' : (d <= f)%nat) by lia.
  assert (Hag : forall t', fitsb e d t' = true -> Kb e f t' = Kb e d t') by (intros; apply IH; assumption).
  cbn [Kb]. f_equal. cbn [fitsb] in Hf. destruct t; try reflexivity.
  - cbv zeta. rewrite (kmax_ms_agree (fitsb e d) (Kb e f) (Kb e d) _ Hag Hf). reflexivity.
  - cbv zeta. rewrite (Hag _ Hf). reflexivity.
  - cbv zeta. rewrite (kmax_ms_agree (fitsb e d) (Kb e f) (Kb e d) _ Hag Hf). reflexivity.
  - destruct (lookup name e); [apply Hag, Hf|reflexivity].
  - destruct (t_explicit tg); cbv zeta; rewrite (Hag _ Hf); reflexivity.
Qed.

(* OPEN: ber_decode_cost_bound_rec - for recursive specifications [Kber]
   grows with the fuel; every BER value consumes at least two octets, so the
   debt analysis of Per/UperCostProofs.v section 4 (cut points with assumed
   debts, checked by computation) would give a constant independent of the
   fuel; it has not been ported to the offset-based decoder. *)

Theorem Kber_fuel_stable e d t fuel :
  fitsb e d t = true -> (d <= fuel)%nat -> Kber e fuel t = Kber e d t.
Proof. intros Hf Hle. unfold Kber. rewrite (Kb_fuel_stable e d t fuel Hf Hle). reflexivity. Qed.

Theorem ber_decode_cost_bound_acyclic numeric e d t fuel bs :
  fitsb e d t = true -> (d <= fuel)%nat -> bytes_ok bs ->
  snd (ber_decode_cost numeric fuel e t bs) <= Kber e d t * (N.of_nat (length bs) + 1).
Proof. intros Hf Hle Hb. rewrite <- (Kber_fuel_stable e d t fuel Hf Hle). apply ber_decode_cost_bound, Hb. Qed.

Print Assumptions ber_decode_cost_erases.
Print Assumptions der_decode_cost_erases.
Print Assumptions ber_decode_cost_bound.
Print Assumptions der_decode_cost_bound.
Print Assumptions ber_dec_cost_bound_consumed.
Print Assumptions Kber_fuel_stable.
Print Assumptions ber_decode_cost_bound_acyclic.

(** * 4. Non-vacuity: constants, hostile inputs, and the retry loop is
    really quadratic in the number of SET components *)
From Coq Require Import Ascii.
Local Close Scope N_scope.
Local Open Scope string_scope.

(** SET { a [0] NULL, b [1] NULL, ... } with [n] components *)
Definition mname (i : nat) : string := String (ascii_of_nat (97 + i)) EmptyString.
Definition set_ty (n : nat) : ty :=
  TSeq true (map (fun i => (mname i, TTag (mkTag Ctx (Z.of_nat i) false) TNull, Mandatory)) (seq 0 n)) None.
(** its components in ascending / in descending tag order ([2 * n + 2] octets) *)
Definition set_fwd (n : nat) : list Z :=
  (49 :: Z.of_nat (2 * n) :: flat_map (fun i => [128 + Z.of_nat i; 0]) (seq 0 n))%list.
Definition set_rev (n : nat) : list Z :=
  (49 :: Z.of_nat (2 * n) :: flat_map (fun i => [128 + Z.of_nat (n - 1 - i); 0]) (seq 0 n))%list.

(** descending order makes every pass of the retry loop decode one component
    after trying all the others: 207 / 731 / 1575 steps for 8 / 16 / 24
    components on 18 / 34 / 50 octets (ascending order: 53 / 101 / 149), i.e.
    11.5 / 21.5 / 31.5 steps per octet - no constant independent of the type
    bounds the steps per octet; [Kber] is 791 / 2839 / 6167. *)
Example set_retry_measured :
  map (fun n => (length (set_rev n),
                 snd (ber_decode_cost false 5 [] (set_ty n) (set_rev n)),
                 snd (ber_decode_cost false 5 [] (set_ty n) (set_fwd n)),
                 Kber [] 5 (set_ty n))) [8; 16; 24]%nat
  = [(18%nat, 207%N, 53%N, 791%N); (34%nat, 731%N, 101%N, 2839%N); (50%nat, 1575%N, 149%N, 6167%N)].
Proof. vm_compute. reflexivity. Qed.

Example set_retry_decodes :
  fst (ber_decode_cost false 5 [] (set_ty 8) (set_rev 8)) = fst (ber_decode_cost false 5 [] (set_ty 8) (set_fwd 8)) /\
  match fst (ber_decode_cost false 5 [] (set_ty 8) (set_rev 8)) with Ok (VSeq l, 18%nat) => length l = 8%nat | _ => False end.
Proof. vm_compute. split; reflexivity. Qed.

(** a type with a string, an array and a CHOICE: acyclic of depth 3 *)
Definition bstr_ty : ty :=
  TSeq false [("s", TOctets SzNone, Mandatory); ("l", TSeqOf false (TInt IcNone) SzNone, Mandatory);
              ("c", TChoice [("x", TBool, Mandatory); ("y", TNull, Mandatory)] None, Optional)] None.

Example Kber_bstr_ty :
  fitsb [] 3 bstr_ty = true /\ Kb [] 3 bstr_ty = BK 158%N 21%N 2%N /\ Kber [] 3 bstr_ty = 181%N.
Proof. vm_compute. repeat split; reflexivity. Qed.

Example Kber_bstr_ty_any_fuel numeric fuel bs :
  (3 <= fuel)%nat -> bytes_ok bs ->
  (snd (ber_decode_cost numeric fuel [] bstr_ty bs) <= 181 * (N.of_nat (length bs) + 1))%N.
Proof.
  intros Hf Hb. apply (ber_decode_cost_bound_acyclic numeric [] 3 bstr_ty fuel bs); [reflexivity|exact Hf|exact Hb].
Qed.

(** hostile inputs: an OCTET STRING wrapped in [k + 1] indefinite-length
    constructed segments (nesting 11: 114 steps on 58 octets); constructed
    segments that never end (out of data after 22 steps); an indefinite
    SEQUENCE OF that runs into the end of the data after 20 elements *)
Definition seg_nest (k : nat) : list Z :=
  (48 :: 128 :: concat (repeat [36; 128] (S k)) ++ [4; 1; 97] ++ concat (repeat [0; 0] (S k)) ++
      [48; 128; 2; 1; 5; 0; 0; 0; 0])%list.

Example bstr_measured :
  ber_decode_cost false 5 [] bstr_ty (seg_nest 10)
  = (Ok (VSeq [("s", VBytes [97]); ("l", VList [VInt 5])], 58%nat), 114%N) /\
  ber_decode_cost false 5 [] bstr_ty [48; 128; 36; 128; 36; 128; 36; 128] = (Err EOutOfData, 22%N) /\
  ber_decode_cost false 5 [] bstr_ty (48 :: 128 :: 4 :: 0 :: 48 :: 128 :: concat (repeat [2; 1; 7] 20))%list
  = (Err EOutOfData, 138%N).
Proof. vm_compute. repeat split; reflexivity. Qed.
