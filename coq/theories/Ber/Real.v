(** Implementation model of the REAL content octets of asn1tools/codecs/ber.py:
    encode_real (313-352), decode_real_binary (355-380), decode_real_special
    (383-393), decode_real_decimal (396-397), decode_real (400-414) and
    compiler.lowest_set_bit (compiler.py 49-55).  der.py, per.py, uper.py and
    the non-IEEE branch of oer.py call the same two functions.

    A Python float is an IEEE-754 binary64.  Every finite non-zero binary64 is
    exactly +-m * 2^e for a unique odd positive integer m and integer e, so the
    model needs no hardware floats: [real] below is the set of values a Python
    float can hold, [is_double] carves out the binary64 ones, and the only two
    floating-point operations the code performs on values that are not already
    exact ([float(int)] / int*float conversion, and a float multiplication by a
    power of two that lands in the subnormal range) are modelled by explicit
    round-half-to-even on integers ([rhe_shift]). *)
From Asn1V Require Import Base.Prelude.
Open Scope Z_scope.

(** * Abstract reals *)

Inductive real : Type :=
| RInf
| RNegInf
| RNaN                                  (* any NaN; payload and sign are not observable through == / isnan *)
| RZero (neg : bool)                    (* +0.0 / -0.0 *)
| RFin (neg : bool) (m : Z) (e : Z).    (* (-1)^neg * m * 2^e, m odd and positive *)

(** binary64: 53-bit precision, least exponent of the grid -1074 (so the
    subnormals, which are the multiples of 2^-1074 below 2^-1022, need no
    separate clause: an odd m < 2^53 times 2^e with e >= -1074 is normal when
    log2 m + e >= -1022 and a multiple of 2^-1074 below 2^-1022 otherwise),
    and magnitude below 2^1024 (m * 2^e < 2^1024 iff e + log2 m <= 1023). *)
Definition is_double (r : real) : Prop :=
  match r with
  | RFin _ m e => Z.odd m = true /\ 0 < m < 2 ^ 53 /\ -1074 <= e /\ e + Z.log2 m <= 1023
  | _ => True
  end.

Definition is_doubleb (r : real) : bool :=
  match r with
  | RFin _ m e => Z.odd m && (0 <? m) && (m <? 2 ^ 53) && (-1074 <=? e) && (e + Z.log2 m <=? 1023)
  | _ => true
  end.

Definition real_eqb (a b : real) : bool :=
  match a, b with
  | RInf, RInf | RNegInf, RNegInf | RNaN, RNaN => true
  | RZero s, RZero t => Bool.eqb s t
  | RFin s m e, RFin t n f => Bool.eqb s t && (m =? n) && (e =? f)
  | _, _ => false
  end.

(** [math.frexp(x)] returns (f, ex) with x = f * 2^ex and 0.5 <= f < 1, exactly
    (also for subnormals); [int(f * 2 ** 53)] is then the 53-bit integer
    M in [2^52, 2^53) with x = M * 2^(ex - 53) (the product f * 2^53 is exact).
    For x = m * 2^e that is m shifted left to 53 bits, and ex = e + log2 m + 1. *)
Definition frexp53 (m e : Z) : Z * Z :=
  (Z.shiftl m (52 - Z.log2 m), e + Z.log2 m + 1).

(** * Python integer helpers *)

(** int.bit_length() *)
Definition bit_length (n : Z) : Z := if n =? 0 then 0 else Z.log2 (Z.abs n) + 1.

(** compiler.lowest_set_bit *)
Definition lowest_set_bit (value : Z) : Z :=
  let offset := bit_length (Z.land value (- value)) - 1 in
  if offset <? 0 then 0 else offset.

(** [k] big-endian octets of n (n mod 256^k). *)
Fixpoint to_be (k : nat) (n : Z) : list Z :=
  match k with
  | O => []
  | S k' => to_be k' (n / 256) ++ [n mod 256]
  end.

(** The minimal big-endian octets of a non-negative integer: what
    [binascii.unhexlify(hex(n)[2:])] yields when hex(n) has an even number of
    digits. *)
Definition be_octets (n : Z) : list Z := to_be (Z.to_nat ((bit_length n + 7) / 8)) n.

(** * encode_real *)

Definition real_exponent_octets (negative_bit exponent : Z) : result (list Z) :=
  if (-129 <? exponent) && (exponent <? 128) then
    Ok [Z.lor 128 negative_bit; Z.land (255 - exponent) 255]
  else if (-32769 <? exponent) && (exponent <? 32768) then
    let ex := Z.land (65535 - exponent) 65535 in
    Ok [Z.lor 129 negative_bit; Z.shiftr ex 8; Z.land ex 255]
  else Err (EForeign "NotImplementedError"%string).

(** [nbytes] is the formula, in terms of mantissa.bit_length(), for the number
    of mantissa octets below the 0x80 marker octet: [(bl + 7) // 8] at HEAD,
    [bl // 8 + 1] before repair 7cb3c45.  [hex(mantissa)[4:]] drops "0x" and
    the two digits of the marker octet, which is the leading octet of the
    number because the marker sits on an octet boundary above the mantissa. *)
Definition encode_real_gen (nbytes : Z -> Z) (r : real) : result (list Z) :=
  match r with
  | RInf => Ok [64]
  | RNegInf => Ok [65]
  | RNaN => Ok [66]
  | RZero _ => Ok []                       (* -0.0 == 0.0 is True *)
  | RFin neg m e =>
    let negative_bit := if neg then 64 else 0 in
    let '(mantissa, exponent) := frexp53 m e in
    let lsb := lowest_set_bit mantissa in
    let mantissa := Z.shiftr mantissa lsb in
    let mantissa := Z.lor mantissa (Z.shiftl 128 (8 * nbytes (bit_length mantissa))) in
    let* mantissa :=
      match be_octets mantissa with
      | _ :: rest => Ok rest
      | [] => Err (EForeign "binascii.Error"%string)
      end in
    let exponent := 52 - lsb - exponent in
    let* exponent := real_exponent_octets negative_bit exponent in
    Ok (exponent ++ mantissa)
  end.

Definition encode_real : real -> result (list Z) := encode_real_gen (fun bl => (bl + 7) / 8).
Definition encode_real_pre_repair : real -> result (list Z) := encode_real_gen (fun bl => bl / 8 + 1).

(** * decode_real *)

(** Round-half-to-even of N / 2^s for s >= 1.  (Powers of two are written
    as shifts throughout the decoder: [Z.pow] multiplies repeatedly, which
    is too slow for [vm_compute] with exponents around 32767.) *)
Definition rhe_shift (N s : Z) : Z :=
  let q := Z.shiftr N s in
  let r := N - Z.shiftl q s in
  let half := Z.shiftl 1 (s - 1) in
  if (half <? r) || ((r =? half) && Z.odd q) then q + 1 else q.

(** [float(N)] / the int -> float conversion of [N * <float>] for N >= 0:
    correctly rounded to 53 bits, half to even; OverflowError ("int too large
    to convert to float") when the rounded value is 2^1024 or more.  The
    result (M, E) stands for M * 2^E with M <= 2^53. *)
Definition float_of_int (N : Z) : result (Z * Z) :=
  let bl := bit_length N in
  if bl <=? 53 then Ok (N, 0)
  else
    let s := bl - 53 in
    let q := rhe_shift N s in
    if 1024 <? bit_length q + s (* 2^1024 <= q * 2^s *) then Err (EForeign "OverflowError"%string) else Ok (q, s).

Fixpoint pos_lsb (p : positive) : Z :=
  match p with xO p' => 1 + pos_lsb p' | _ => 0 end.
Fixpoint pos_odd (p : positive) : positive :=
  match p with xO p' => pos_odd p' | _ => p end.

(** The float with magnitude M * 2^E (known to be representable) and the
    given sign, in the normal form of [real]. *)
Definition mk_real (neg : bool) (M E : Z) : real :=
  match M with
  | Zpos p => RFin neg (Zpos (pos_odd p)) (E + pos_lsb p)
  | _ => RZero neg
  end.

(** [float(mantissa * 2 ** exponent)], as (M, E).
    exponent >= 0: [2 ** exponent] is an int, the product is an int and
    [float()] rounds it once.  exponent < 0: [2 ** exponent] is the float
    2^exponent (exact down to 2^-1074, 0.0 below: pow underflows silently),
    [mantissa * <float>] first converts the mantissa to a float (rounding to
    53 bits, OverflowError) and then multiplies; the product is exact unless
    it falls below the subnormal grid, where the hardware rounds it to a
    multiple of 2^-1074, half to even. *)
Definition real_scale (mantissa exponent : Z) : result (Z * Z) :=
  if 0 <=? exponent then float_of_int (Z.shiftl mantissa exponent) (* mantissa * 2 ** exponent *)
  else
    let* (M, E) := float_of_int mantissa in
    if exponent <? -1074 then Ok (0, 0)
    else
      let E' := E + exponent in
      if -1074 <=? E' then Ok (M, E') else Ok (rhe_shift M (-1074 - E'), -1074).

Definition decode_real_binary (control : Z) (data : list Z) : result real :=
  let* (exponent, offset) :=
    if (control =? 128) || (control =? 192) then
      match nth_error data 1 with
      | None => Err (EForeign "IndexError"%string)
      | Some exponent =>
        Ok (if negb (Z.land exponent 128 =? 0) then exponent - 256 else exponent, 2%nat)
      end
    else if (control =? 129) || (control =? 193) then
      match nth_error data 1, nth_error data 2 with
      | Some d1, Some d2 =>
        let exponent := Z.lor (Z.shiftl d1 8) d2 in
        Ok (if negb (Z.land exponent 32768 =? 0) then exponent - 65536 else exponent, 3%nat)
      | _, _ => Err (EForeign "IndexError"%string)
      end
    else Err EDecode in
  let* mantissa :=
    match skipn offset data with
    | [] => Err (EForeign "ValueError"%string)        (* int(b'', 16) *)
    | mo => Ok (be_value mo)
    end in
  let* (M, E) := real_scale mantissa exponent in
  Ok (mk_real (negb (Z.land control 64 =? 0)) M E).

Definition decode_real_special (control : Z) : result real :=
  if control =? 64 then Ok RInf
  else if control =? 65 then Ok RNegInf
  else if control =? 66 then Ok RNaN
  else if control =? 67 then Ok (RZero true)
  else Err EDecode.

(** ISO 6093 NR1-3 through Python's [float(bytes)]: only the empty string is
    modelled (ValueError); everything else is [EUnmodelled]. *)
Definition decode_real_decimal (data : list Z) : result real :=
  match data with
  | [_] => Err (EForeign "ValueError"%string)
  | _ => Err EUnmodelled
  end.

Definition decode_real (data : list Z) : result real :=
  match data with
  | [] => Ok (RZero false)
  | control :: _ =>
    if negb (Z.land control 128 =? 0) then decode_real_binary control data
    else if negb (Z.land control 64 =? 0) then decode_real_special control
    else decode_real_decimal data
  end.

(** * X.690 11.3 (DER) / 8.5.7 canonical binary content, as a checker that does
    not mention the encoder: first octet 1SBBFFEE with BB = 00 (base 2),
    FF = 00 (scaling factor 0), EE in {00, 01}; the exponent in the fewest
    two's complement octets; a non-empty mantissa without a leading zero
    octet whose value is odd. *)
Definition real_mantissa_canonicalb (mo : list Z) : bool :=
  match mo with
  | [] => false
  | b :: _ => negb (b =? 0) && Z.odd (be_value mo)
  end.

Definition der_real_canonicalb (bs : list Z) : bool :=
  match bs with
  | [] => false
  | control :: rest =>
    (Z.land control 128 =? 128) && (Z.land control 60 =? 0) &&
    match Z.land control 3, rest with
    | 0, _ :: mo => real_mantissa_canonicalb mo
    | 1, e0 :: e1 :: mo =>
      negb ((e0 =? 0) && (e1 <? 128)) && negb ((e0 =? 255) && (128 <=? e1)) &&
      real_mantissa_canonicalb mo
    | _, _ => false
    end
  end.

(** Outcome tags for the correspondence run (harness/real_model.py). *)
Definition real_code (r : real) : Z * Z * Z :=
  match r with
  | RInf => (1, 0, 0)
  | RNegInf => (2, 0, 0)
  | RNaN => (3, 0, 0)
  | RZero neg => (if neg then 5 else 4, 0, 0)
  | RFin neg m e => (if neg then 7 else 6, m, e)
  end.

Definition decode_probe (bs : list Z) : Z * Z * Z :=
  match decode_real bs with
  | Ok r => real_code r
  | Err EDecode => (-1, 0, 0)
  | Err (EForeign k) =>
    if String.eqb k "IndexError"%string then (-2, 0, 0)
    else if String.eqb k "ValueError"%string then (-3, 0, 0)
    else if String.eqb k "OverflowError"%string then (-4, 0, 0)
    else (-5, 0, 0)
  | Err EUnmodelled => (-9, 0, 0)
  | Err _ => (-8, 0, 0)
  end.

Definition encode_probe (c : bool * Z * Z * Z) : list Z :=
  let '(neg, kind, m, e) := c in
  let r := match kind with
           | 1 => RInf | 2 => RNegInf | 3 => RNaN | 4 => RZero neg | _ => RFin neg m e
           end in
  match encode_real r with
  | Ok bs => 0 :: bs
  | Err _ => [-1]
  end.

(** Compact forms for the generated case files (one numeral per octet
    string: the octets prefixed with 0x01, read big-endian). *)
Definition encode_probe_n (c : bool * Z * Z * Z) : Z :=
  match encode_probe c with
  | 0 :: bs => be_value (1 :: bs)
  | _ => 0
  end.
Definition decode_probe_n (n : Z) : Z * Z * Z :=
  match be_octets n with
  | _ :: bs => decode_probe bs
  | [] => (-7, 0, 0)
  end.
Definition triple_eqb (a b : Z * Z * Z) : bool :=
  let '(a1, a2, a3) := a in let '(b1, b2, b3) := b in (a1 =? b1) && (a2 =? b2) && (a3 =? b3).
