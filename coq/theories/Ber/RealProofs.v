(** Proofs about the REAL content-octet model (Ber/Real.v): round trip for every
    binary64, totality of the encoder on binary64, DER canonical form (X.690
    11.3), injectivity, and the exact outcome regions of the decoder. *)
From Asn1V Require Import Base.Prelude Ber.Real.
Open Scope Z_scope.

(** * Bit-level helpers *)

Lemma land_255 a : Z.land a 255 = a mod 256.
Proof. change 255 with (Z.ones 8). rewrite Z.land_ones by lia. reflexivity. Qed.

Lemma land_65535 a : Z.land a 65535 = a mod 65536.
Proof. change 65535 with (Z.ones 16). rewrite Z.land_ones by lia. reflexivity. Qed.

Lemma shiftr_8 a : Z.shiftr a 8 = a / 256.
Proof. rewrite Z.shiftr_div_pow2 by lia. reflexivity. Qed.

Lemma land_pow2 a n : 0 <= n -> Z.land a (2 ^ n) = if Z.testbit a n then 2 ^ n else 0.
Proof.
  intros Hn. apply Z.bits_inj'. intros k Hk.
  rewrite Z.land_spec, Z.pow2_bits_eqb by lia.
  destruct (Z.eqb_spec n k) as [->|Hne].
  - rewrite andb_true_r. destruct (Z.testbit a k) eqn:E.
    + rewrite Z.pow2_bits_true by lia. reflexivity.
    + rewrite Z.bits_0. reflexivity.
  - rewrite andb_false_r. destruct (Z.testbit a n).
    + rewrite Z.pow2_bits_false by lia. reflexivity.
    + rewrite Z.bits_0. reflexivity.
Qed.

Lemma high_bit_test v n : 0 <= n -> 0 <= v < 2 ^ (n + 1) ->
  (Z.land v (2 ^ n) =? 0) = (v <? 2 ^ n).
Proof.
  intros Hn Hv. rewrite land_pow2 by lia.
  assert (Hp : 0 < 2 ^ n) by (apply Z.pow_pos_nonneg; lia).
  assert (H2 : 2 ^ (n + 1) = 2 * 2 ^ n) by (rewrite Z.pow_add_r by lia; lia).
  destruct (Z.testbit v n) eqn:E.
  - apply Z.testbit_true in E; [|lia].
    assert (2 ^ n <= v).
    { destruct (Z.lt_ge_cases v (2 ^ n)) as [Hlt|]; [|lia].
      rewrite Z.div_small in E by lia. discriminate. }
    lia.
  - assert (v < 2 ^ n).
    { destruct (Z.lt_ge_cases v (2 ^ n)) as [|Hge]; [lia|].
      assert (Hq : v / 2 ^ n = 1).
      { symmetry. apply (Z.div_unique v (2 ^ n) 1 (v - 2 ^ n)); lia. }
      assert (Z.testbit v n = true).
      { apply Z.testbit_true; [lia|]. rewrite Hq. reflexivity. }
      congruence. }
    lia.
Qed.

Lemma byte_high_bit b : 0 <= b < 256 -> (Z.land b 128 =? 0) = (b <? 128).
Proof. intros. apply (high_bit_test b 7); lia. Qed.

Lemma word_high_bit v : 0 <= v < 65536 -> (Z.land v 32768 =? 0) = (v <? 32768).
Proof. intros. apply (high_bit_test v 15); lia. Qed.

Lemma land_low_shiftl a b k : 0 <= k -> 0 <= a < 2 ^ k -> Z.land a (Z.shiftl b k) = 0.
Proof.
  intros Hk Ha. apply Z.bits_inj'. intros n Hn.
  rewrite Z.land_spec, Z.bits_0.
  destruct (Z.ltb_spec n k).
  - rewrite Z.shiftl_spec_low by lia. apply andb_false_r.
  - destruct (Z.eq_dec a 0) as [->|Hne]; [rewrite Z.bits_0; reflexivity|].
    rewrite (Z.bits_above_log2 a n); [reflexivity|lia|].
    assert (Z.log2 a < k) by (apply Z.log2_lt_pow2; lia). lia.
Qed.

Lemma lor_shiftl_add a b k : 0 <= k -> 0 <= a < 2 ^ k -> Z.lor a (Z.shiftl b k) = a + b * 2 ^ k.
Proof.
  intros Hk Ha. pose proof (land_low_shiftl a b k Hk Ha) as H0.
  rewrite <- Z.lxor_lor by exact H0. rewrite <- Z.add_nocarry_lxor by exact H0.
  rewrite Z.shiftl_mul_pow2 by lia. reflexivity.
Qed.

(** * bit_length, lowest_set_bit *)

Lemma bit_length_pos n : 0 < n -> bit_length n = Z.log2 n + 1.
Proof.
  intros H. unfold bit_length. destruct (Z.eqb_spec n 0); [lia|].
  rewrite Z.abs_eq by lia. reflexivity.
Qed.

Lemma land_odd_neg m : Z.odd m = true -> Z.land m (- m) = 1.
Proof.
  intros Ho.
  assert (Hm : m = 2 * (m / 2) + 1).
  { pose proof (Z.div_mod m 2 ltac:(lia)) as H. rewrite Zmod_odd, Ho in H. exact H. }
  remember (m / 2) as a eqn:Ea. clear Ea.
  assert (Hn : - m = 2 * Z.lnot a + 1) by (unfold Z.lnot; lia).
  rewrite Hn, Hm. clear Hn Hm Ho m.
  apply Z.bits_inj'. intros n Hn. rewrite Z.land_spec.
  destruct (Z.eq_dec n 0) as [->|Hne].
  - rewrite !Z.testbit_odd_0. reflexivity.
  - replace n with (Z.succ (n - 1)) by lia.
    rewrite !Z.testbit_odd_succ by lia. rewrite Z.lnot_spec by lia.
    change 1 with (2 * 0 + 1). rewrite Z.testbit_odd_succ by lia. rewrite Z.bits_0.
    apply andb_negb_r.
Qed.

Lemma lowest_set_bit_odd_shift m k :
  0 < m -> Z.odd m = true -> 0 <= k -> lowest_set_bit (m * 2 ^ k) = k.
Proof.
  intros Hm Ho Hk. unfold lowest_set_bit.
  replace (- (m * 2 ^ k)) with ((- m) * 2 ^ k) by lia.
  rewrite <- !Z.shiftl_mul_pow2 by lia. rewrite <- Z.shiftl_land, land_odd_neg by exact Ho.
  rewrite Z.shiftl_mul_pow2 by lia. rewrite Z.mul_1_l.
  assert (0 < 2 ^ k) by (apply Z.pow_pos_nonneg; lia).
  rewrite bit_length_pos by lia. rewrite Z.log2_pow2 by lia.
  destruct (Z.ltb_spec (k + 1 - 1) 0); lia.
Qed.

(** * Big-endian octets *)

Lemma be_value_acc_snoc acc l b : be_value_acc acc (l ++ [b]) = be_value_acc acc l * 256 + b.
Proof. revert acc. induction l as [|x l IH]; intros acc; simpl; [reflexivity|apply IH]. Qed.

Lemma pow256_pos k : 0 < 256 ^ Z.of_nat k.
Proof. apply Z.pow_pos_nonneg; lia. Qed.

Lemma pow256_succ k : 256 ^ Z.of_nat (S k) = 256 * 256 ^ Z.of_nat k.
Proof. rewrite Nat2Z.inj_succ, Z.pow_succ_r by lia. reflexivity. Qed.

Lemma be_value_to_be k n : 0 <= n -> be_value (to_be k n) = n mod 256 ^ Z.of_nat k.
Proof.
  revert n. induction k as [|k IH]; intros n Hn.
  - simpl. rewrite Z.mod_1_r. reflexivity.
  - cbn [to_be]. unfold be_value in *. rewrite be_value_acc_snoc.
    rewrite IH by (apply Z.div_pos; lia).
    rewrite pow256_succ. pose proof (pow256_pos k).
    rewrite (Z.rem_mul_r n 256 (256 ^ Z.of_nat k)) by lia. lia.
Qed.

Lemma to_be_length k n : length (to_be k n) = k.
Proof.
  revert n. induction k as [|k IH]; intros n; [reflexivity|].
  cbn [to_be]. rewrite app_length, IH. simpl. lia.
Qed.

Lemma to_be_head k n : to_be (S k) n = ((n / 256 ^ Z.of_nat k) mod 256) :: to_be k n.
Proof.
  revert n. induction k as [|k IH]; intros n.
  - simpl. rewrite Z.div_1_r. reflexivity.
  - change (to_be (S (S k)) n) with (to_be (S k) (n / 256) ++ [n mod 256]).
    rewrite IH. rewrite pow256_succ. pose proof (pow256_pos k).
    rewrite Z.div_div by lia. reflexivity.
Qed.

Lemma to_be_add_mul k a m : to_be k (a * 256 ^ Z.of_nat k + m) = to_be k m.
Proof.
  revert a m. induction k as [|k IH]; intros a m; [reflexivity|].
  cbn [to_be]. rewrite pow256_succ.
  replace (a * (256 * 256 ^ Z.of_nat k) + m) with (m + (a * 256 ^ Z.of_nat k) * 256) by lia.
  rewrite Z.div_add, Z.mod_add by lia.
  replace (m / 256 + a * 256 ^ Z.of_nat k) with (a * 256 ^ Z.of_nat k + m / 256) by lia.
  rewrite IH. reflexivity.
Qed.

Lemma to_be_bytes k n : Forall is_byte (to_be k n).
Proof.
  revert n. induction k as [|k IH]; intros n; [constructor|].
  cbn [to_be]. apply Forall_app. split; [apply IH|].
  constructor; [|constructor]. unfold is_byte. apply Z.mod_pos_bound. lia.
Qed.

(** The number of octets of [be_octets m] and the power-of-two sandwich. *)
Definition noct (m : Z) : Z := (bit_length m + 7) / 8.

Lemma noct_bounds m : 0 < m ->
  1 <= noct m /\ 2 ^ (8 * (noct m - 1)) <= m < 2 ^ (8 * noct m).
Proof.
  intros Hm. unfold noct. rewrite bit_length_pos by lia.
  pose proof (Z.log2_nonneg m) as Hl.
  destruct (Z.log2_spec m Hm) as [Hlo Hhi].
  set (l := Z.log2 m) in *.
  assert (Hq : 8 * ((l + 1 + 7) / 8) <= l + 8 /\ l + 1 <= 8 * ((l + 1 + 7) / 8)).
  { pose proof (Z.div_mod (l + 1 + 7) 8 ltac:(lia)).
    pose proof (Z.mod_pos_bound (l + 1 + 7) 8 ltac:(lia)). lia. }
  set (q := (l + 1 + 7) / 8) in *.
  split; [lia|]. split.
  - eapply Z.le_trans; [|exact Hlo]. apply Z.pow_le_mono_r; lia.
  - eapply Z.lt_le_trans; [exact Hhi|]. replace (Z.succ l) with (l + 1) by lia.
    apply Z.pow_le_mono_r; lia.
Qed.

Lemma pow256_pow2 k : 0 <= k -> 256 ^ k = 2 ^ (8 * k).
Proof. intros. rewrite Z.pow_mul_r by lia. reflexivity. Qed.

Lemma be_octets_unfold m : be_octets m = to_be (Z.to_nat (noct m)) m.
Proof. reflexivity. Qed.

Lemma be_value_be_octets m : 0 < m -> be_value (be_octets m) = m.
Proof.
  intros Hm. rewrite be_octets_unfold, be_value_to_be by lia.
  destruct (noct_bounds m Hm) as (H1 & _ & Hhi).
  rewrite Z2Nat.id by lia. rewrite pow256_pow2 by lia.
  apply Z.mod_small. lia.
Qed.

Lemma be_octets_length m : Z.of_nat (length (be_octets m)) = noct m \/ noct m < 0.
Proof.
  rewrite be_octets_unfold, to_be_length. destruct (Z.le_gt_cases 0 (noct m)); [left|right]; lia.
Qed.

(** No leading zero octet: the first octet of the minimal representation is
    non-zero (X.690 11.3.1: fewest octets). *)
Lemma be_octets_head m : 0 < m ->
  exists b rest, be_octets m = b :: rest /\ 0 < b < 256 /\ length rest = Z.to_nat (noct m - 1).
Proof.
  intros Hm. destruct (noct_bounds m Hm) as (H1 & Hlo & Hhi).
  rewrite be_octets_unfold.
  replace (Z.to_nat (noct m)) with (S (Z.to_nat (noct m - 1))) by lia.
  rewrite to_be_head. eexists. eexists. split; [reflexivity|].
  rewrite to_be_length. split; [|reflexivity].
  rewrite Z2Nat.id by lia. rewrite pow256_pow2 by lia.
  set (P := 2 ^ (8 * (noct m - 1))) in *.
  assert (HP : 0 < P) by (apply Z.pow_pos_nonneg; lia).
  assert (Hhi' : m < 256 * P).
  { unfold P. replace (8 * noct m) with (8 + 8 * (noct m - 1)) in Hhi by lia.
    rewrite Z.pow_add_r in Hhi by lia. exact Hhi. }
  assert (1 <= m / P) by (apply Z.div_le_lower_bound; lia).
  assert (m / P < 256) by (apply Z.div_lt_upper_bound; lia).
  rewrite Z.mod_small by lia. lia.
Qed.

Lemma be_octets_bytes m : Forall is_byte (be_octets m).
Proof. apply to_be_bytes. Qed.

(** [hex(mantissa | 0x80 << 8*n)[4:]]: the marker octet is the leading octet
    and what follows are exactly the n = ceil(bit_length / 8) minimal octets. *)
Lemma marker_octets m : 0 < m ->
  be_octets (Z.lor m (Z.shiftl 128 (8 * ((bit_length m + 7) / 8)))) = 128 :: be_octets m.
Proof.
  intros Hm. fold (noct m). destruct (noct_bounds m Hm) as (H1 & Hlo & Hhi).
  rewrite lor_shiftl_add by lia.
  set (n := noct m) in *.
  assert (HP : 0 < 2 ^ (8 * n)) by (apply Z.pow_pos_nonneg; lia).
  set (X := m + 128 * 2 ^ (8 * n)).
  assert (HlX : Z.log2 X = 8 * n + 7).
  { apply Z.log2_unique; [lia|]. unfold X.
    replace (Z.succ (8 * n + 7)) with (8 + 8 * n) by lia.
    rewrite !Z.pow_add_r by lia. change (2 ^ 7) with 128. change (2 ^ 8) with 256. lia. }
  assert (HnX : noct X = n + 1).
  { unfold noct. rewrite bit_length_pos by (unfold X; lia). rewrite HlX.
    replace (8 * n + 7 + 1 + 7) with (7 + (n + 1) * 8) by lia.
    rewrite Z.div_add by lia. reflexivity. }
  rewrite (be_octets_unfold X), HnX.
  replace (Z.to_nat (n + 1)) with (S (Z.to_nat n)) by lia.
  rewrite to_be_head. rewrite Z2Nat.id by lia. rewrite pow256_pow2 by lia.
  unfold X at 2. replace (m + 128 * 2 ^ (8 * n)) with (128 * 256 ^ Z.of_nat (Z.to_nat n) + m)
    by (rewrite Z2Nat.id by lia; rewrite pow256_pow2 by lia; lia).
  rewrite to_be_add_mul. change (to_be (Z.to_nat n) m) with (be_octets m). f_equal.
  unfold X. rewrite Z.add_comm, Z.div_add_l by lia. rewrite Z.div_small by lia. reflexivity.
Qed.

(** * The encoder on binary64 values *)

(** Control octet and exponent octets of a finite value: one two's complement
    octet iff -128 <= e <= 127, otherwise two. *)
Definition exp_octets (neg : bool) (e : Z) : list Z :=
  let nb := if neg then 64 else 0 in
  if (-128 <=? e) && (e <=? 127) then [128 + nb; e mod 256]
  else [129 + nb; (e mod 65536) / 256; e mod 256].

Lemma real_exponent_octets_spec (neg : bool) e : -32768 <= e <= 32767 ->
  real_exponent_octets (if neg then 64 else 0) (- e - 1) = Ok (exp_octets neg e).
Proof.
  intros He. unfold real_exponent_octets, exp_octets.
  destruct ((-128 <=? e) && (e <=? 127)) eqn:E1.
  - replace ((-129 <? - e - 1) && (- e - 1 <? 128)) with true by lia.
    rewrite land_255. replace (255 - (- e - 1)) with (e + 1 * 256) by lia.
    rewrite Z.mod_add by lia. destruct neg; reflexivity.
  - replace ((-129 <? - e - 1) && (- e - 1 <? 128)) with false by lia.
    replace ((-32769 <? - e - 1) && (- e - 1 <? 32768)) with true by lia.
    cbv zeta. rewrite shiftr_8, land_255, land_65535.
    replace (65535 - (- e - 1)) with (e + 1 * 65536) by lia.
    rewrite Z.mod_add by lia.
    replace ((e mod 65536) mod 256) with (e mod 256) by (Z.div_mod_to_equations; lia).
    destruct neg; reflexivity.
Qed.

Lemma is_double_fin_facts m : Z.odd m = true -> 0 < m < 2 ^ 53 ->
  0 <= Z.log2 m <= 52.
Proof.
  intros Ho Hm. split; [apply Z.log2_nonneg|].
  assert (Z.log2 m < 53) by (apply Z.log2_lt_pow2; lia). lia.
Qed.

Theorem encode_real_fin neg m e :
  is_double (RFin neg m e) ->
  encode_real (RFin neg m e) = Ok (exp_octets neg e ++ be_octets m).
Proof.
  intros (Ho & Hm & Hlo & Hhi).
  pose proof (is_double_fin_facts m Ho Hm) as Hl.
  unfold encode_real, encode_real_gen, frexp53. cbv beta iota zeta.
  rewrite Z.shiftl_mul_pow2 by lia.
  rewrite lowest_set_bit_odd_shift by lia.
  rewrite Z.shiftr_div_pow2 by lia.
  rewrite Z.div_mul by (apply Z.pow_nonzero; lia).
  rewrite marker_octets by lia. cbn [bind].
  replace (52 - (52 - Z.log2 m) - (e + Z.log2 m + 1)) with (- e - 1) by lia.
  rewrite real_exponent_octets_spec by lia. reflexivity.
Qed.

(** Every binary64 is encodable: the exponent of a double lies in
    [-1074, 1023], inside the two-octet range, so the NotImplementedError
    branch of [encode_real] is unreachable from a Python float. *)
Theorem real_encode_total r : is_double r -> exists bs, encode_real r = Ok bs.
Proof.
  destruct r as [| | |z|neg m e]; intros H; try (eexists; reflexivity).
  eexists. apply encode_real_fin. exact H.
Qed.

(** * The decoder on the encoder's image *)

Lemma mk_real_odd_shift neg m a E :
  0 < m -> Z.odd m = true -> 0 <= a -> mk_real neg (m * 2 ^ a) E = RFin neg m (E + a).
Proof.
  intros Hm Ho Ha. revert E. pattern a. apply natlike_ind; [| |exact Ha]; clear a Ha.
  - intros E. rewrite Z.mul_1_r, Z.add_0_r. destruct m as [|p|p]; try lia.
    destruct p; try discriminate; cbn [mk_real pos_odd pos_lsb]; rewrite Z.add_0_r; reflexivity.
  - intros a Ha IH E. rewrite Z.pow_succ_r by lia.
    assert (Hpos : 0 < m * 2 ^ a) by (apply Z.mul_pos_pos; [lia|apply Z.pow_pos_nonneg; lia]).
    specialize (IH (E + 1)).
    replace (m * (2 * 2 ^ a)) with (2 * (m * 2 ^ a)) by lia.
    destruct (m * 2 ^ a) as [|q|q]; try lia.
    change (2 * Z.pos q) with (Z.pos q~0). cbn [mk_real pos_odd pos_lsb] in *.
    injection IH as Hq Hl. rewrite Hq. f_equal. lia.
Qed.

Lemma log2_mul_pow2' m a : 0 < m -> 0 <= a -> Z.log2 (m * 2 ^ a) = Z.log2 m + a.
Proof. intros. rewrite Z.log2_mul_pow2 by lia. lia. Qed.

(** On a binary64 value [float(mantissa * 2 ** exponent)] is exact. *)
Lemma real_scale_exact neg m e :
  is_double (RFin neg m e) ->
  exists M E, real_scale m e = Ok (M, E) /\ forall s, mk_real s M E = RFin s m e.
Proof.
  intros (Ho & Hm & Hlo & Hhi).
  pose proof (is_double_fin_facts m Ho Hm) as Hl.
  unfold real_scale. destruct (Z.leb_spec 0 e) as [He|He].
  - (* integer product, one rounding that is exact *)
    rewrite Z.shiftl_mul_pow2 by lia. unfold float_of_int.
    assert (HN : 0 < m * 2 ^ e) by (apply Z.mul_pos_pos; [lia|apply Z.pow_pos_nonneg; lia]).
    rewrite bit_length_pos by exact HN. rewrite log2_mul_pow2' by lia.
    destruct (Z.leb_spec (Z.log2 m + e + 1) 53) as [Hs|Hs].
    + exists (m * 2 ^ e), 0. split; [reflexivity|]. intros s.
      rewrite mk_real_odd_shift by lia. f_equal.
    + set (sh := Z.log2 m + e + 1 - 53).
      assert (Hsh : 1 <= sh <= e) by (unfold sh; lia).
      assert (Hq : rhe_shift (m * 2 ^ e) sh = m * 2 ^ (e - sh)).
      { unfold rhe_shift. rewrite Z.shiftr_div_pow2 by lia.
        replace (m * 2 ^ e) with (m * 2 ^ (e - sh) * 2 ^ sh)
          by (rewrite <- Z.mul_assoc, <- Z.pow_add_r by lia; f_equal; f_equal; lia).
        rewrite Z.div_mul by (apply Z.pow_nonzero; lia).
        rewrite !Z.shiftl_mul_pow2 by lia. rewrite Z.sub_diag, Z.mul_1_l.
        assert (0 < 2 ^ (sh - 1)) by (apply Z.pow_pos_nonneg; lia).
        destruct (Z.ltb_spec (2 ^ (sh - 1)) 0); [lia|].
        destruct (Z.eqb_spec 0 (2 ^ (sh - 1))); [lia|]. reflexivity. }
      cbv zeta. rewrite Hq.
      assert (Hq0 : 0 < m * 2 ^ (e - sh))
        by (apply Z.mul_pos_pos; [lia|apply Z.pow_pos_nonneg; lia]).
      rewrite bit_length_pos by exact Hq0. rewrite log2_mul_pow2' by lia.
      destruct (Z.ltb_spec 1024 (Z.log2 m + (e - sh) + 1 + sh)); [lia|].
      exists (m * 2 ^ (e - sh)), sh. split; [reflexivity|]. intros s.
      rewrite mk_real_odd_shift by lia. f_equal. lia.
  - (* the float 2^e, exact because -1074 <= e; m < 2^53 converts exactly *)
    unfold float_of_int. rewrite bit_length_pos by lia.
    destruct (Z.leb_spec (Z.log2 m + 1) 53); [|lia]. cbn [bind].
    destruct (Z.ltb_spec e (-1074)); [lia|]. cbv zeta.
    destruct (Z.leb_spec (-1074) (0 + e)); [|lia].
    exists m, (0 + e). split; [reflexivity|]. intros s.
    replace m with (m * 2 ^ 0) at 1 by lia. rewrite mk_real_odd_shift by lia. f_equal. lia.
Qed.

Lemma decode_real_short (neg : bool) x mo : mo <> [] ->
  decode_real ((128 + (if neg then 64 else 0)) :: x :: mo) =
  let* (M, E) := real_scale (be_value mo) (if negb (Z.land x 128 =? 0) then x - 256 else x) in
  Ok (mk_real neg M E).
Proof. intros Hmo. destruct mo; [congruence|]. destruct neg; reflexivity. Qed.

Lemma decode_real_long (neg : bool) x1 x2 mo : mo <> [] ->
  decode_real ((129 + (if neg then 64 else 0)) :: x1 :: x2 :: mo) =
  let ex := Z.lor (Z.shiftl x1 8) x2 in
  let* (M, E) := real_scale (be_value mo) (if negb (Z.land ex 32768 =? 0) then ex - 65536 else ex) in
  Ok (mk_real neg M E).
Proof. intros Hmo. destruct mo; [congruence|]. destruct neg; reflexivity. Qed.

Theorem decode_encode_fin neg m e :
  is_double (RFin neg m e) ->
  decode_real (exp_octets neg e ++ be_octets m) = Ok (RFin neg m e).
Proof.
  intros Hd. destruct (real_scale_exact neg m e Hd) as (M & E & Hsc & Hmk).
  destruct Hd as (Ho & Hm & Hlo & Hhi).
  pose proof (is_double_fin_facts m Ho Hm) as Hl.
  destruct (be_octets_head m ltac:(lia)) as (b & rest & Hb & _).
  assert (Hne : be_octets m <> []) by (rewrite Hb; discriminate).
  unfold exp_octets. cbv zeta. destruct ((-128 <=? e) && (e <=? 127)) eqn:E1.
  - cbn [app]. rewrite decode_real_short by exact Hne.
    rewrite be_value_be_octets by lia.
    rewrite byte_high_bit by (apply Z.mod_pos_bound; lia).
    replace (if negb (e mod 256 <? 128) then e mod 256 - 256 else e mod 256) with e.
    + rewrite Hsc. cbn [bind]. rewrite Hmk. reflexivity.
    + destruct (Z.ltb_spec (e mod 256) 128); cbn [negb]; Z.div_mod_to_equations; lia.
  - cbn [app]. rewrite decode_real_long by exact Hne. cbv zeta.
    rewrite be_value_be_octets by lia.
    assert (Hex : Z.lor (Z.shiftl (e mod 65536 / 256) 8) (e mod 256) = e mod 65536).
    { rewrite Z.lor_comm. rewrite lor_shiftl_add; [|lia|].
      - change (2 ^ 8) with 256. Z.div_mod_to_equations; lia.
      - change (2 ^ 8) with 256. apply Z.mod_pos_bound; lia. }
    rewrite Hex. rewrite word_high_bit by (apply Z.mod_pos_bound; lia).
    replace (if negb (e mod 65536 <? 32768) then e mod 65536 - 65536 else e mod 65536) with e.
    + rewrite Hsc. cbn [bind]. rewrite Hmk. reflexivity.
    + destruct (Z.ltb_spec (e mod 65536) 32768); cbn [negb]; Z.div_mod_to_equations; lia.
Qed.

(** -0.0 is not distinguished by [encode_real] (data == 0.0): the value that
    comes back is the one with the sign of zero forgotten. *)
Definition forget_zero_sign (r : real) : real :=
  match r with RZero _ => RZero false | _ => r end.

Theorem real_roundtrip_gen r :
  is_double r -> exists bs, encode_real r = Ok bs /\ decode_real bs = Ok (forget_zero_sign r).
Proof.
  destruct r as [| | |z|neg m e]; intros H; try (eexists; split; reflexivity).
  exists (exp_octets neg e ++ be_octets m). split.
  - apply encode_real_fin. exact H.
  - apply decode_encode_fin. exact H.
Qed.

(** C03 for REAL: every binary64 except -0.0 survives encode/decode (NaN as
    the constructor RNaN: the library returns a NaN, not a particular one). *)
Theorem real_roundtrip r :
  is_double r -> r <> RZero true ->
  exists bs, encode_real r = Ok bs /\ decode_real bs = Ok r.
Proof.
  intros H Hnz. destruct (real_roundtrip_gen r H) as (bs & He & Hdd).
  exists bs. split; [exact He|]. rewrite Hdd. f_equal.
  destruct r as [| | |[|]|]; try reflexivity. congruence.
Qed.
Print Assumptions real_roundtrip.

(** The recorded finding real-minus-zero: -0.0 is a binary64, it is encoded
    as the empty content (X.690 8.5.2 reserves that for plus zero; minus
    zero has the special value 0x43 of 8.5.9), and comes back as +0.0. *)
Theorem real_minus_zero_refuted :
  exists r, is_double r /\
    exists bs, encode_real r = Ok bs /\ exists r', decode_real bs = Ok r' /\ r' <> r.
Proof.
  exists (RZero true). split; [exact I|]. exists []. split; [reflexivity|].
  exists (RZero false). split; [reflexivity|discriminate].
Qed.
Print Assumptions real_minus_zero_refuted.

Print Assumptions real_encode_total.

(** * DER canonical form (X.690 11.3, 8.5.7) *)

Lemma canon_short (neg : bool) x mo :
  der_real_canonicalb ((128 + (if neg then 64 else 0)) :: x :: mo) = real_mantissa_canonicalb mo.
Proof. destruct neg; reflexivity. Qed.

Lemma canon_long (neg : bool) x1 x2 mo :
  der_real_canonicalb ((129 + (if neg then 64 else 0)) :: x1 :: x2 :: mo) =
  negb ((x1 =? 0) && (x2 <? 128)) && negb ((x1 =? 255) && (128 <=? x2)) &&
  real_mantissa_canonicalb mo.
Proof. destruct neg; reflexivity. Qed.

Lemma mantissa_canonical m : 0 < m -> Z.odd m = true ->
  real_mantissa_canonicalb (be_octets m) = true.
Proof.
  intros Hm Ho. destruct (be_octets_head m Hm) as (b & rest & Hb & Hb0 & _).
  unfold real_mantissa_canonicalb. rewrite Hb. rewrite <- Hb.
  rewrite be_value_be_octets by lia. rewrite Ho.
  destruct (Z.eqb_spec b 0); [lia|]. reflexivity.
Qed.

(** For a finite non-zero binary64 the content produced by [encode_real] is
    the X.690 11.3 form: binary encoding, base 2, scaling factor 0 (control
    octet 1S000000 or 1S000001), the exponent e of the odd mantissa m in the
    fewest two's complement octets (one iff -128 <= e <= 127, else two), and
    m itself in its minimal octets: first octet non-zero, value odd. *)
Theorem der_real_canonical neg m e bs :
  is_double (RFin neg m e) -> encode_real (RFin neg m e) = Ok bs ->
  der_real_canonicalb bs = true /\
  bs = exp_octets neg e ++ be_octets m /\
  (length (exp_octets neg e) = 2%nat <-> -128 <= e <= 127) /\
  (length (exp_octets neg e) = 3%nat <-> ~ -128 <= e <= 127) /\
  be_value (be_octets m) = m /\ Z.odd m = true /\
  (exists b rest, be_octets m = b :: rest /\ 0 < b < 256).
Proof.
  intros Hd Henc. rewrite encode_real_fin in Henc by exact Hd.
  injection Henc as <-. destruct Hd as (Ho & Hm & Hlo & Hhi).
  pose proof (Z.log2_nonneg m) as Hl0.
  assert (Hcan : der_real_canonicalb (exp_octets neg e ++ be_octets m) = true).
  { unfold exp_octets. cbv zeta. destruct ((-128 <=? e) && (e <=? 127)) eqn:E1; cbn [app].
    - rewrite canon_short. apply mantissa_canonical; lia.
    - rewrite canon_long. rewrite mantissa_canonical by lia.
      rewrite andb_true_r. apply andb_true_intro. split; apply negb_true_iff.
      + destruct (Z.eqb_spec (e mod 65536 / 256) 0);
          destruct (Z.ltb_spec (e mod 256) 128); try reflexivity.
        exfalso. Z.div_mod_to_equations. lia.
      + destruct (Z.eqb_spec (e mod 65536 / 256) 255);
          destruct (Z.leb_spec 128 (e mod 256)); try reflexivity.
        exfalso. Z.div_mod_to_equations. lia. }
  split; [exact Hcan|]. split; [reflexivity|].
  split; [|split; [|split; [|split]]].
  - unfold exp_octets. cbv zeta. destruct ((-128 <=? e) && (e <=? 127)) eqn:E1; cbn [length]; lia.
  - unfold exp_octets. cbv zeta. destruct ((-128 <=? e) && (e <=? 127)) eqn:E1; cbn [length]; lia.
  - apply be_value_be_octets. lia.
  - exact Ho.
  - destruct (be_octets_head m ltac:(lia)) as (b & rest & Hb & Hb0 & _). eauto.
Qed.
Print Assumptions der_real_canonical.

(** The arithmetic before repair 7cb3c45 ([bit_length // 8 + 1] octets)
    violates it: 255.0 gets a leading zero mantissa octet. *)
Example der_real_canonical_pre_repair_refuted :
  exists r bs, is_double r /\ encode_real_pre_repair r = Ok bs /\
               der_real_canonicalb bs = false /\ bs = [128; 0; 0; 255].
Proof.
  exists (RFin false 255 0), [128; 0; 0; 255].
  split; [|split; [|split]]; try (vm_compute; reflexivity).
  vm_compute. repeat split; discriminate.
Qed.

(** * Injectivity *)

Lemma encode_forget_zero_sign r : encode_real (forget_zero_sign r) = encode_real r.
Proof. destruct r; reflexivity. Qed.

Theorem real_encode_injective r1 r2 :
  is_double r1 -> is_double r2 -> encode_real r1 = encode_real r2 ->
  forget_zero_sign r1 = forget_zero_sign r2.
Proof.
  intros H1 H2 Heq.
  destruct (real_roundtrip_gen r1 H1) as (b1 & He1 & Hd1).
  destruct (real_roundtrip_gen r2 H2) as (b2 & He2 & Hd2).
  rewrite He1, He2 in Heq. injection Heq as ->. rewrite Hd1 in Hd2. congruence.
Qed.
Print Assumptions real_encode_injective.

(** Two different canonical contents decode to different reals. *)
Theorem real_decode_canonical_unique r1 r2 bs1 bs2 :
  is_double r1 -> is_double r2 -> encode_real r1 = Ok bs1 -> encode_real r2 = Ok bs2 ->
  bs1 <> bs2 -> decode_real bs1 <> decode_real bs2.
Proof.
  intros H1 H2 He1 He2 Hne Heq. apply Hne.
  destruct (real_roundtrip_gen r1 H1) as (b1 & He1' & Hd1).
  destruct (real_roundtrip_gen r2 H2) as (b2 & He2' & Hd2).
  rewrite He1 in He1'. rewrite He2 in He2'. injection He1' as <-. injection He2' as <-.
  rewrite Hd1, Hd2 in Heq. injection Heq as Hf.
  assert (Hx : encode_real r1 = encode_real r2)
    by (rewrite <- (encode_forget_zero_sign r1), <- (encode_forget_zero_sign r2), Hf; reflexivity).
  rewrite He1, He2 in Hx. congruence.
Qed.
Print Assumptions real_decode_canonical_unique.

(** * Outcome regions of the decoder on arbitrary octet strings *)

Definition short_control (c : Z) : Prop := c = 128 \/ c = 192.   (* 1S000000: one exponent octet  *)
Definition long_control (c : Z) : Prop := c = 129 \/ c = 193.    (* 1S000001: two exponent octets *)

Definition signed8 (d : Z) : Z := if negb (Z.land d 128 =? 0) then d - 256 else d.
Definition signed16 (d1 d2 : Z) : Z :=
  let ex := Z.lor (Z.shiftl d1 8) d2 in if negb (Z.land ex 32768 =? 0) then ex - 65536 else ex.
Definition binary_outcome (c mant ex : Z) : result real :=
  let* (M, E) := real_scale mant ex in Ok (mk_real (negb (Z.land c 64 =? 0)) M E).

(** One constructor per input region, with the outcome on that region.  The
    regions are pairwise disjoint and (theorem [real_decode_regions]) cover
    every octet string.  Three of them are foreign Python exceptions on
    hostile input (IndexError: truncated exponent; ValueError: empty mantissa
    [int(b'', 16)] or empty decimal string [float(b'')]); a fourth foreign
    exception, OverflowError, lives inside [binary_outcome]
    ([real_scale_class], [float_of_int_overflow_iff]). *)
Inductive real_decode_spec : list Z -> result real -> Prop :=
| RD_empty : real_decode_spec [] (Ok (RZero false))
| RD_bad_binary c rest :
    Z.land c 128 <> 0 -> ~ short_control c -> ~ long_control c ->
    real_decode_spec (c :: rest) (Err EDecode)
| RD_short_index c :
    short_control c -> real_decode_spec [c] (Err (EForeign "IndexError"))
| RD_long_index c rest :
    long_control c -> (length rest < 2)%nat ->
    real_decode_spec (c :: rest) (Err (EForeign "IndexError"))
| RD_short_value c d :
    short_control c -> real_decode_spec [c; d] (Err (EForeign "ValueError"))
| RD_long_value c d1 d2 :
    long_control c -> real_decode_spec [c; d1; d2] (Err (EForeign "ValueError"))
| RD_short c d b mo :
    short_control c ->
    real_decode_spec (c :: d :: b :: mo) (binary_outcome c (be_value (b :: mo)) (signed8 d))
| RD_long c d1 d2 b mo :
    long_control c ->
    real_decode_spec (c :: d1 :: d2 :: b :: mo) (binary_outcome c (be_value (b :: mo)) (signed16 d1 d2))
| RD_special c rest :                       (* trailing octets are ignored *)
    Z.land c 128 = 0 -> Z.land c 64 <> 0 ->
    real_decode_spec (c :: rest) (decode_real_special c)
| RD_decimal_empty c :
    Z.land c 128 = 0 -> Z.land c 64 = 0 ->
    real_decode_spec [c] (Err (EForeign "ValueError"))
| RD_decimal c d rest :                     (* ISO 6093 through float(bytes): not modelled *)
    Z.land c 128 = 0 -> Z.land c 64 = 0 ->
    real_decode_spec (c :: d :: rest) (Err EUnmodelled).

Theorem real_decode_regions bs : real_decode_spec bs (decode_real bs).
Proof.
  destruct bs as [|c rest]; [constructor|].
  unfold decode_real. destruct (Z.eqb_spec (Z.land c 128) 0) as [H7|H7]; cbn [negb].
  - destruct (Z.eqb_spec (Z.land c 64) 0) as [H6|H6]; cbn [negb].
    + destruct rest as [|d rest']; cbn [decode_real_decimal].
      * apply RD_decimal_empty; assumption.
      * apply RD_decimal; assumption.
    + apply RD_special; assumption.
  - unfold decode_real_binary.
    destruct (Z.eqb_spec c 128) as [E1|N1]; [|destruct (Z.eqb_spec c 192) as [E2|N2]]; cbn [orb].
    1,2: assert (Hs : short_control c) by (unfold short_control; lia).
    1,2: destruct rest as [|d [|b mo]]; cbn [nth_error bind skipn];
         [apply RD_short_index; exact Hs | apply RD_short_value; exact Hs | apply RD_short; exact Hs].
    destruct (Z.eqb_spec c 129) as [E3|N3]; [|destruct (Z.eqb_spec c 193) as [E4|N4]]; cbn [orb].
    1,2: assert (Hl : long_control c) by (unfold long_control; lia).
    1,2: destruct rest as [|d1 [|d2 [|b mo]]]; cbn [nth_error bind skipn];
         [apply RD_long_index; [exact Hl|cbn; lia]
         |apply RD_long_index; [exact Hl|cbn; lia]
         |apply RD_long_value; exact Hl
         |apply RD_long; exact Hl].
    cbn [bind]. apply RD_bad_binary; [exact H7| |]; unfold short_control, long_control; lia.
Qed.
Print Assumptions real_decode_regions.

Lemma float_of_int_class N :
  match float_of_int N with Ok _ => True | Err e => e = EForeign "OverflowError" end.
Proof.
  unfold float_of_int. destruct (bit_length N <=? 53); [exact I|]. cbv zeta.
  destruct (1024 <? _); [reflexivity|exact I].
Qed.

Lemma real_scale_class mant ex :
  match real_scale mant ex with Ok _ => True | Err e => e = EForeign "OverflowError" end.
Proof.
  unfold real_scale. destruct (0 <=? ex); [apply float_of_int_class|].
  pose proof (float_of_int_class mant) as H. destruct (float_of_int mant) as [[M E]|e']; [|exact H].
  cbn [bind]. destruct (ex <? -1074); [exact I|]. cbv zeta. destruct (-1074 <=? E + ex); exact I.
Qed.

(** For every octet string: a value, the library's DecodeError, one of three
    named foreign exceptions, or "not modelled" (decimal forms only). *)
Theorem real_decode_total_class bs :
  match decode_real bs with
  | Ok _ | Err EDecode | Err EUnmodelled => True
  | Err (EForeign k) =>
    k = "IndexError"%string \/ k = "ValueError"%string \/ k = "OverflowError"%string
  | Err _ => False
  end.
Proof.
  destruct (real_decode_regions bs); try exact I; try (left; reflexivity);
    try (right; left; reflexivity).
  - unfold binary_outcome. pose proof (real_scale_class (be_value (b :: mo)) (signed8 d)) as H0.
    destruct (real_scale _ _) as [[M E]|e']; [exact I|]. cbn [bind]. subst e'. right. right. reflexivity.
  - unfold binary_outcome. pose proof (real_scale_class (be_value (b :: mo)) (signed16 d1 d2)) as H0.
    destruct (real_scale _ _) as [[M E]|e']; [exact I|]. cbn [bind]. subst e'. right. right. reflexivity.
  - unfold decode_real_special.
    destruct (c =? 64); [exact I|]. destruct (c =? 65); [exact I|].
    destruct (c =? 66); [exact I|]. destruct (c =? 67); exact I.
Qed.
Print Assumptions real_decode_total_class.

(** * The OverflowError region: [float(N)] raises iff N rounds to 2^1024,
    i.e. iff N >= 2^1024 - 2^970 (half an ulp below 2^1024; the tie goes to
    the even neighbour, which is 2^1024). *)

Lemma rhe_shift_unfold N s : 1 <= s ->
  rhe_shift N s =
  if (2 ^ (s - 1) <? N - N / 2 ^ s * 2 ^ s) || ((N - N / 2 ^ s * 2 ^ s =? 2 ^ (s - 1)) && Z.odd (N / 2 ^ s))
  then N / 2 ^ s + 1 else N / 2 ^ s.
Proof.
  intros Hs. unfold rhe_shift. rewrite Z.shiftr_div_pow2 by lia.
  rewrite !Z.shiftl_mul_pow2 by lia. rewrite Z.mul_1_l. reflexivity.
Qed.

Lemma log2_le_53 q : 0 < q <= 2 ^ 53 -> Z.log2 q <= 53.
Proof.
  intros Hq. destruct (Z.eq_dec q (2 ^ 53)) as [->|Hne].
  - rewrite Z.log2_pow2 by lia. lia.
  - assert (Z.log2 q < 53) by (apply Z.log2_lt_pow2; lia). lia.
Qed.

Lemma log2_ge_52 q : 2 ^ 52 <= q -> 52 <= Z.log2 q.
Proof.
  intros Hq. assert (0 < 2 ^ 52) by reflexivity. apply Z.log2_le_pow2; lia.
Qed.

Theorem float_of_int_overflow_iff N : 0 <= N ->
  (float_of_int N = Err (EForeign "OverflowError") <-> 2 ^ 1024 - 2 ^ 970 <= N).
Proof.
  intros HN. unfold float_of_int.
  destruct (Z.eq_dec N 0) as [->|Hnz].
  { cbn. split; [discriminate|]. intros H. exfalso. revert H. apply Z.lt_nge. reflexivity. }
  assert (HN0 : 0 < N) by lia.
  rewrite bit_length_pos by lia.
  destruct (Z.log2_spec N HN0) as [Hlo Hhi].
  set (L := Z.log2 N) in *. pose proof (Z.log2_nonneg N) as HL0. fold L in HL0.
  destruct (Z.leb_spec (L + 1) 53) as [Hb|Hb].
  { split; [discriminate|]. intros H. exfalso.
    assert (2 ^ Z.succ L <= 2 ^ 53) by (apply Z.pow_le_mono_r; lia).
    assert (2 ^ 53 < 2 ^ 1024 - 2 ^ 970) by reflexivity. lia. }
  cbv zeta. set (s := L + 1 - 53). assert (Hs : 1 <= s) by (unfold s; lia).
  set (P := 2 ^ s). assert (HP : 0 < P) by (apply Z.pow_pos_nonneg; lia).
  assert (HL : 2 ^ L = 2 ^ 52 * P).
  { unfold P. rewrite <- Z.pow_add_r by lia. f_equal. unfold s. lia. }
  assert (HL1 : 2 ^ Z.succ L = 2 ^ 53 * P).
  { unfold P. rewrite <- Z.pow_add_r by lia. f_equal. unfold s. lia. }
  assert (Hq0 : 2 ^ 52 <= N / P < 2 ^ 53).
  { split; [apply Z.div_le_lower_bound; lia|apply Z.div_lt_upper_bound; lia]. }
  rewrite rhe_shift_unfold by exact Hs. fold P.
  pose proof (Z.div_mod N P ltac:(lia)) as Hdm. pose proof (Z.mod_pos_bound N P HP) as Hmb.
  set (q0 := N / P) in *.
  replace (N - q0 * P) with (N mod P) by lia.
  set (r := N mod P) in *.
  set (up := (2 ^ (s - 1) <? r) || ((r =? 2 ^ (s - 1)) && Z.odd q0)).
  assert (Hq : 2 ^ 52 <= (if up then q0 + 1 else q0) <= 2 ^ 53) by (destruct up; lia).
  set (q := if up then q0 + 1 else q0) in *.
  rewrite bit_length_pos by lia.
  pose proof (log2_le_53 q ltac:(lia)) as Hq53. pose proof (log2_ge_52 q ltac:(lia)) as Hq52.
  assert (C1 : 2 ^ 1023 < 2 ^ 1024 - 2 ^ 970) by reflexivity.
  assert (C2 : 2 ^ 1024 - 2 ^ 970 < 2 ^ 1024) by reflexivity.
  destruct (Z.lt_trichotomy L 1023) as [Hlt|[Heq|Hgt]].
  - (* below 2^1023: never *)
    destruct (Z.ltb_spec 1024 (Z.log2 q + 1 + s)) as [Hov|Hov]; [unfold s in *; lia|].
    split; [discriminate|]. intros H. exfalso.
    assert (2 ^ Z.succ L <= 2 ^ 1023) by (apply Z.pow_le_mono_r; lia). lia.
  - (* 2^1023 <= N < 2^1024: iff the mantissa rounds up to 2^53 *)
    assert (Hs971 : s = 971) by (unfold s; lia).
    assert (HP971 : P = 2 ^ 971) by (unfold P; rewrite Hs971; reflexivity).
    assert (Hhalf : 2 ^ (s - 1) = 2 ^ 970) by (rewrite Hs971; reflexivity).
    assert (C3 : 2 ^ 1024 - 2 ^ 970 = (2 ^ 53 - 1) * 2 ^ 971 + 2 ^ 970) by reflexivity.
    assert (C4 : 2 ^ 971 = 2 * 2 ^ 970) by reflexivity.
    split.
    + intros H. destruct (Z.ltb_spec 1024 (Z.log2 q + 1 + s)) as [Hov|]; [|discriminate].
      assert (Hq2 : 2 ^ 53 <= q).
      { destruct (Z.lt_ge_cases q (2 ^ 53)) as [Hlt|]; [|assumption].
        assert (Z.log2 q < 53) by (apply Z.log2_lt_pow2; lia). lia. }
      unfold q in Hq2. destruct up eqn:Eup; [|lia].
      assert (Hq0e : q0 = 2 ^ 53 - 1) by lia.
      unfold up in Eup. rewrite Hhalf in Eup.
      assert (2 ^ 970 <= r).
      { destruct (Z.ltb_spec (2 ^ 970) r); [lia|]. destruct (Z.eqb_spec r (2 ^ 970)); [lia|]. discriminate. }
      rewrite C3. rewrite HP971 in Hdm. rewrite Hq0e in Hdm. lia.
    + intros H.
      assert (Hq0e : q0 = 2 ^ 53 - 1).
      { assert (2 ^ 53 - 1 <= q0); [|lia]. unfold q0. apply Z.div_le_lower_bound; [lia|].
        rewrite HP971. lia. }
      assert (Hr : 2 ^ 970 <= r) by (rewrite HP971, Hq0e in Hdm; lia).
      assert (Hup : up = true).
      { unfold up. rewrite Hhalf. destruct (Z.ltb_spec (2 ^ 970) r); [reflexivity|].
        destruct (Z.eqb_spec r (2 ^ 970)); [|lia]. rewrite Hq0e. reflexivity. }
      assert (Hqe : q = 2 ^ 53) by (unfold q; rewrite Hup; lia).
      rewrite Hqe. rewrite Z.log2_pow2 by lia.
      destruct (Z.ltb_spec 1024 (53 + 1 + s)); [reflexivity|lia].
  - (* 2^1024 <= N: always *)
    destruct (Z.ltb_spec 1024 (Z.log2 q + 1 + s)); [|unfold s in *; lia].
    split; [intros _|reflexivity].
    assert (2 ^ 1024 <= 2 ^ L) by (apply Z.pow_le_mono_r; lia). lia.
Qed.
Print Assumptions float_of_int_overflow_iff.
