(** Leaf-level agreement between the BER/DER implementation model
    (Ber/BerCommon.v) and the X.690 specification model (Ber/X690.v), part B:
    restricted character strings (incl. UTF-8), OBJECT IDENTIFIER and
    BIT STRING contents octets. *)
From Asn1V Require Import Base.Prelude Base.Sweep Syntax.Asn1 Ber.Header Ber.BerCommon Ber.X690.

Local Ltac Zify.zify_post_hook ::= Z.div_mod_to_equations.

Lemma some_inj {A} (x y : A) : Some x = Some y -> x = y.
Proof. congruence. Qed.

(* ---- restricted character strings ---- *)
Lemma str_univ_tag_spec k n : string_tag k = Some n -> str_univ_tag k = n.
Proof. destruct k; cbn; congruence. Qed.

Lemma utf8_cp_encode c a : utf8_cp c = Some a -> utf8_encode_cp c = Ok a.
Proof.
  unfold utf8_cp, utf8_encode_cp.
  destruct (c <? 0); [discriminate|].
  destruct (c <? 128); [congruence|].
  destruct (c <? 2048); [congruence|].
  destruct (c <? 65536).
  - destruct ((55296 <=? c) && (c <=? 57343)); [discriminate|congruence].
  - destruct (c <? 1114112); [congruence|discriminate].
Qed.

Lemma utf8_mapM cps : forall bs, utf8 cps = Some bs ->
  exists l, mapM utf8_encode_cp cps = Ok l /\ concat l = bs.
Proof.
  induction cps as [|c r IH]; intros bs; cbn [utf8 mapM].
  - intros H; inversion H. exists []. split; reflexivity.
  - destruct (utf8_cp c) as [a|] eqn:E; [|discriminate].
    destruct (utf8 r) as [b|] eqn:F; [|discriminate].
    intros H; inversion H; subst.
    destruct (IH b eq_refl) as (l & Hl & Hc).
    exists (a :: l). rewrite (utf8_cp_encode _ _ E), Hl. cbn [bind concat]. rewrite Hc. split; reflexivity.
Qed.

Lemma forallb_ascii_bytes cps : forallb (fun c => (0 <=? c) && (c <? 128)) cps = true -> Forall is_byte cps.
Proof.
  intros H. apply Forall_forall. intros x Hx. rewrite forallb_forall in H. apply H in Hx. unfold is_byte. lia.
Qed.

Lemma str_encode_spec k cps bs : string_octets k cps = Some bs -> str_encode k cps = Ok bs.
Proof.
  destruct k; unfold str_encode; cbn [string_octets str_encoding]; try discriminate;
    try (destruct (forallb (fun c : Z => (0 <=? c) && (c <? 128)) cps); congruence).
  intros H. destruct (utf8_mapM _ _ H) as (l & Hl & Hc). rewrite Hl. cbn [bind]. congruence.
Qed.

Lemma utf8_read_decode_n n : forall bs cps,
  (length bs <= n)%nat -> utf8_read bs = Some cps -> utf8_decode bs = Ok cps.
Proof.
  induction n as [|n IH]; intros bs cps Hl.
  - destruct bs; [|cbn [length] in Hl; lia]. cbn. congruence.
  - destruct bs as [|b0 r]; [cbn; congruence|].
    cbn [length] in Hl.
    assert (STEP : forall r' c, (length r' <= n)%nat ->
              option_map (cons c) (utf8_read r') = Some cps ->
              (let* s := utf8_decode r' in Ok (c :: s)) = Ok cps).
    { intros r' c Hr. destruct (utf8_read r') as [l|] eqn:E; cbn [option_map]; [|discriminate].
      intros HH. inversion HH; subst. rewrite (IH r' l Hr E). reflexivity. }
    cbn [utf8_read utf8_decode]. unfold is_cont.
    destruct (b0 <? 128). { apply STEP. lia. }
    destruct (b0 <? 194); [discriminate|].
    destruct (b0 <? 224).
    { destruct r as [|b1 r']; [discriminate|]. cbn [length] in Hl.
      destruct ((128 <=? b1) && (b1 <? 192)); [|discriminate]. apply STEP. lia. }
    destruct (b0 <? 240).
    { destruct r as [|b1 [|b2 r']]; try discriminate. cbn [length] in Hl.
      match goal with |- (if ?c then _ else _) = _ -> _ => destruct c end; [|discriminate].
      apply STEP. lia. }
    destruct (b0 <? 245); [|discriminate].
    destruct r as [|b1 [|b2 [|b3 r']]]; try discriminate. cbn [length] in Hl.
    match goal with |- (if ?c then _ else _) = _ -> _ => destruct c end; [|discriminate].
    apply STEP. lia.
Qed.

Lemma utf8_read_decode bs cps : utf8_read bs = Some cps -> utf8_decode bs = Ok cps.
Proof. apply (utf8_read_decode_n (length bs)). lia. Qed.

Lemma str_decode_spec k bs cps : read_string k bs = Some cps -> str_decode k bs = Ok cps.
Proof.
  destruct k; unfold str_decode; cbn [read_string str_encoding]; try discriminate;
    try apply utf8_read_decode;
    (destruct (forallb (fun c : Z => (0 <=? c) && (c <? 128)) bs) eqn:E; [|discriminate];
     intros H; inversion H; subst;
     replace (forallb (fun c : Z => c <? 128) cps) with true; [reflexivity|];
     symmetry; apply forallb_forall; intros x Hx; rewrite forallb_forall in E; apply E in Hx; lia).
Qed.

Lemma utf8_read_eq b0 r : utf8_read (b0 :: r) =
  ltac:(let t := eval cbn [utf8_read] in (utf8_read (b0 :: r)) in exact t).
Proof. reflexivity. Qed.

Lemma utf8_cp_read c a : utf8_cp c = Some a ->
  forall r, utf8_read (a ++ r) = option_map (cons c) (utf8_read r).
Proof.
  unfold utf8_cp.
  destruct (c <? 0) eqn:E0; [discriminate|].
  destruct (c <? 128) eqn:E1.
  { intros H r; apply some_inj in H; subst a. cbv beta iota zeta delta [app]. rewrite utf8_read_eq. rewrite E1. reflexivity. }
  destruct (c <? 2048) eqn:E2.
  { intros H r; apply some_inj in H; subst a. cbv beta iota zeta delta [app]. rewrite utf8_read_eq. cbv beta iota zeta.
    repeat match goal with |- context[if ?c then _ else _] =>
       let E := fresh "E" in destruct c eqn:E; try lia end.
    f_equal. f_equal. lia. }
  destruct (c <? 65536) eqn:E3.
  { destruct ((55296 <=? c) && (c <=? 57343)) eqn:E4; [discriminate|].
    intros H r; apply some_inj in H; subst a. cbv beta iota zeta delta [app]. rewrite utf8_read_eq. cbv beta iota zeta.
    repeat match goal with |- context[if ?c then _ else _] =>
       let E := fresh "E" in destruct c eqn:E; try lia end.
    f_equal. f_equal. lia. }
  destruct (c <? 1114112) eqn:E4; [|discriminate].
  intros H r; apply some_inj in H; subst a. cbv beta iota zeta delta [app]. rewrite utf8_read_eq. cbv beta iota zeta.
  repeat match goal with |- context[if ?c then _ else _] =>
     let E := fresh "E" in destruct c eqn:E; try lia end.
  f_equal. f_equal. lia.
Qed.

Lemma utf8_read_utf8 cps : forall bs, utf8 cps = Some bs -> utf8_read bs = Some cps.
Proof.
  induction cps as [|c r IH]; intros bs; cbn [utf8].
  - intros H; inversion H. reflexivity.
  - destruct (utf8_cp c) as [a|] eqn:E; [|discriminate].
    destruct (utf8 r) as [b|] eqn:F; [|discriminate].
    intros H; inversion H; subst.
    rewrite (utf8_cp_read _ _ E), (IH b eq_refl). reflexivity.
Qed.

Lemma read_string_octets k cps bs : string_octets k cps = Some bs -> read_string k bs = Some cps.
Proof.
  destruct k; cbn [string_octets read_string]; try discriminate;
    try apply utf8_read_utf8;
    (destruct (forallb (fun c : Z => (0 <=? c) && (c <? 128)) cps) eqn:E; [|discriminate];
     intros H; inversion H; subst; rewrite E; reflexivity).
Qed.

Lemma utf8_cp_bytes c a : utf8_cp c = Some a -> Forall is_byte a.
Proof.
  unfold utf8_cp.
  destruct (c <? 0) eqn:E0; [discriminate|].
  destruct (c <? 128) eqn:E1.
  { intros H; apply some_inj in H; subst a. repeat constructor; unfold is_byte; lia. }
  destruct (c <? 2048) eqn:E2.
  { intros H; apply some_inj in H; subst a. repeat constructor; unfold is_byte; lia. }
  destruct (c <? 65536) eqn:E3.
  { destruct ((55296 <=? c) && (c <=? 57343)) eqn:E4; [discriminate|].
    intros H; apply some_inj in H; subst a. repeat constructor; unfold is_byte; lia. }
  destruct (c <? 1114112) eqn:E4; [|discriminate].
  intros H; apply some_inj in H; subst a. repeat constructor; unfold is_byte; lia.
Qed.

Lemma utf8_bytes cps : forall bs, utf8 cps = Some bs -> Forall is_byte bs.
Proof.
  induction cps as [|c r IH]; intros bs; cbn [utf8].
  - intros H; inversion H. constructor.
  - destruct (utf8_cp c) as [a|] eqn:E; [|discriminate].
    destruct (utf8 r) as [b|] eqn:F; [|discriminate].
    intros H; inversion H; subst. apply Forall_app. split; [eapply utf8_cp_bytes; eauto|auto].
Qed.

Lemma string_octets_bytes k cps bs : string_octets k cps = Some bs -> Forall is_byte bs.
Proof.
  destruct k; cbn [string_octets]; try discriminate;
    try apply utf8_bytes;
    (destruct (forallb (fun c : Z => (0 <=? c) && (c <? 128)) cps) eqn:E; [|discriminate];
     intros H; inversion H; subst; apply forallb_ascii_bytes; exact E).
Qed.

(* ---- OBJECT IDENTIFIER ---- *)

Lemma digits_le_be f : forall n, rev (digits_le 7 f n) = be_digits 128 f n.
Proof.
  induction f as [|f IH]; intros n; cbn [digits_le be_digits]; [reflexivity|].
  destruct (n >? 0) eqn:E.
  - replace (n <=? 0) with false by lia. cbn [rev]. rewrite IH.
    rewrite Z.shiftr_div_pow2 by lia.
    change (2 ^ 7 - 1) with (Z.ones 7). rewrite Z.land_ones by lia.
    change (2 ^ 7) with 128. reflexivity.
  - replace (n <=? 0) with true by lia. reflexivity.
Qed.

Lemma be_digits_range f : forall n, Forall (fun d => 0 <= d < 128) (be_digits 128 f n).
Proof.
  induction f as [|f IH]; intros n; cbn [be_digits]; [constructor|].
  destruct (n <=? 0); [constructor|].
  apply Forall_app. split; [apply IH|]. constructor; [lia|constructor].
Qed.

Lemma pow2_pos k : 0 < 2 ^ Z.of_nat k.
Proof. apply Z.pow_pos_nonneg; lia. Qed.

Lemma be_digits_fuel f1 : forall f2 n,
  n < 2 ^ Z.of_nat f1 -> n < 2 ^ Z.of_nat f2 -> be_digits 128 f1 n = be_digits 128 f2 n.
Proof.
  induction f1 as [|f1 IH]; intros f2 n H1 H2.
  - change (2 ^ Z.of_nat 0) with 1 in H1. destruct f2; cbn [be_digits]; [reflexivity|].
    replace (n <=? 0) with true by lia. reflexivity.
  - destruct f2 as [|f2].
    + change (2 ^ Z.of_nat 0) with 1 in H2. cbn [be_digits].
      replace (n <=? 0) with true by lia. reflexivity.
    + cbn [be_digits]. destruct (n <=? 0) eqn:E; [reflexivity|].
      rewrite Nat2Z.inj_succ, Z.pow_succ_r in H1, H2 by lia.
      pose proof (pow2_pos f1). pose proof (pow2_pos f2).
      f_equal. apply IH; lia.
Qed.

Lemma fuel_ok n : n < 2 ^ Z.of_nat (S (Z.to_nat (Z.log2 n))).
Proof.
  destruct (Z_lt_le_dec 0 n) as [H|H].
  - rewrite Nat2Z.inj_succ, Z2Nat.id by apply Z.log2_nonneg. apply Z.log2_spec. exact H.
  - pose proof (pow2_pos (S (Z.to_nat (Z.log2 n)))). lia.
Qed.

Lemma fuel_ok_div n : 0 < n -> n / 128 < 2 ^ Z.of_nat (Z.to_nat (Z.log2 n)).
Proof.
  intros H. rewrite Z2Nat.id by apply Z.log2_nonneg.
  pose proof (Z.log2_spec n H) as [_ H2]. rewrite Z.pow_succ_r in H2 by apply Z.log2_nonneg.
  assert (0 < 2 ^ Z.log2 n) by (apply Z.pow_pos_nonneg; [lia|apply Z.log2_nonneg]).
  lia.
Qed.

Lemma match_snoc (l : list Z) x :
  match l ++ [x] with [] => [0] | ds => mark_continuation ds end = mark_continuation (l ++ [x]).
Proof. destruct l; reflexivity. Qed.

Lemma mark_snoc l x : mark_continuation (l ++ [x]) = map (fun d => 128 + d) l ++ [x].
Proof.
  induction l as [|a l IH]; [reflexivity|].
  destruct l as [|b l]; [reflexivity|].
  change (mark_continuation ((a :: b :: l) ++ [x])) with ((128 + a) :: mark_continuation ((b :: l) ++ [x])).
  rewrite IH. reflexivity.
Qed.

Lemma map_lor_128 l : Forall (fun d => 0 <= d < 128) l ->
  map (fun d => Z.lor 128 d) l = map (fun d => 128 + d) l.
Proof.
  intros H. apply map_ext_in. intros a Ha. rewrite Forall_forall in H. apply lor_128_small. apply H. exact Ha.
Qed.

Lemma encode_subid_base128_local s : 0 <= s -> encode_subid s = base128 s.
Proof.
  intros Hs. unfold encode_subid, base128, digits_of.
  cbn [rev]. rewrite <- map_rev, digits_le_be.
  rewrite Z.shiftr_div_pow2 by lia. change (2 ^ 7) with 128.
  change 127 with (Z.ones 7). rewrite Z.land_ones by lia. change (2 ^ 7) with 128.
  destruct (Z.eq_dec s 0) as [->|Hn]; [reflexivity|].
  cbn [be_digits]. replace (s <=? 0) with false by lia.
  rewrite match_snoc, mark_snoc, map_lor_128 by apply be_digits_range.
  f_equal. f_equal. apply be_digits_fuel; [apply fuel_ok|apply fuel_ok_div; lia].
Qed.

Lemma encode_oid_spec arcs bs : oid_octets arcs = Some bs -> encode_oid arcs = Ok bs.
Proof.
  unfold oid_octets, encode_oid.
  destruct arcs as [|x [|y rest]]; try discriminate.
  match goal with |- (if ?c then _ else _) = _ -> _ => destruct c eqn:E end; [|discriminate].
  intros H; apply some_inj in H; subst bs.
  apply andb_prop in E as [E F].
  cbn [map concat]. rewrite encode_subid_base128_local by lia.
  f_equal. f_equal. f_equal. apply map_ext_in. intros a Ha.
  apply encode_subid_base128_local.
  rewrite forallb_forall in F. apply F in Ha. lia.
Qed.
(* fuel-free form of the specification reader *)
Fixpoint rsub (bs : list Z) (acc : Z) (fresh : bool) : option (list Z) :=
  match bs with
  | [] => if fresh then Some [] else None
  | b :: r =>
    if fresh && (b =? 128) then None
    else if b <? 128 then option_map (cons (128 * acc + b)) (rsub r 0 true)
    else rsub r (128 * acc + (b - 128)) false
  end.

Lemma read_subids_rsub bs : forall fuel acc fresh,
  (length bs < fuel)%nat -> read_subids fuel bs acc fresh = rsub bs acc fresh.
Proof.
  induction bs as [|b r IH]; intros fuel acc fresh Hf; (destruct fuel as [|f]; [cbn [length] in Hf; lia|]).
  - reflexivity.
  - cbn [length] in Hf. cbn [read_subids rsub]. rewrite !IH by lia. reflexivity.
Qed.

Definition dval (ds : list Z) (acc : Z) : Z := fold_left (fun a d => 128 * a + d) ds acc.

Lemma rsub_digits ds : forall acc fresh rest,
  ds <> [] -> Forall (fun d => 0 <= d < 128) ds -> (fresh = false \/ hd 1 ds <> 0) ->
  rsub (mark_continuation ds ++ rest) acc fresh = option_map (cons (dval ds acc)) (rsub rest 0 true).
Proof.
  induction ds as [|d ds IH]; intros acc fresh rest Hne Hr Hh; [congruence|].
  inversion Hr as [|? ? Hd Hr']; subst.
  destruct ds as [|d' ds].
  - cbn [mark_continuation app rsub dval fold_left].
    replace (fresh && (d =? 128)) with false by lia. replace (d <? 128) with true by lia. reflexivity.
  - change (mark_continuation (d :: d' :: ds)) with ((128 + d) :: mark_continuation (d' :: ds)).
    cbn [app rsub].
    replace (fresh && (128 + d =? 128)) with false
      by (destruct Hh as [->|Hh]; [reflexivity|cbn [hd] in Hh; lia]).
    replace (128 + d <? 128) with false by lia.
    rewrite IH; [|congruence|assumption|left; reflexivity].
    unfold dval. cbn [fold_left]. replace (128 + d - 128) with d by lia. reflexivity.
Qed.

Lemma be_digits_nonempty f n : 0 < n -> n < 2 ^ Z.of_nat f -> be_digits 128 f n <> [].
Proof.
  intros H1 H2. destruct f as [|f].
  - change (2 ^ Z.of_nat 0) with 1 in H2. lia.
  - cbn [be_digits]. replace (n <=? 0) with false by lia. apply not_eq_sym, app_cons_not_nil.
Qed.

Lemma be_digits_nonpos f n : n <= 0 -> be_digits 128 f n = [].
Proof. intros H. destruct f; cbn [be_digits]; [reflexivity|]. replace (n <=? 0) with true by lia. reflexivity. Qed.

Lemma hd_app_ne (l : list Z) x d : l <> [] -> hd d (l ++ [x]) = hd d l.
Proof. destruct l; [congruence|reflexivity]. Qed.

Lemma be_digits_hd f : forall n, n < 2 ^ Z.of_nat f -> hd 1 (be_digits 128 f n) <> 0.
Proof.
  induction f as [|f IH]; intros n Hn; cbn [be_digits]; [cbn; lia|].
  destruct (n <=? 0) eqn:E; [cbn; lia|].
  rewrite Nat2Z.inj_succ, Z.pow_succ_r in Hn by lia. pose proof (pow2_pos f).
  destruct (Z.eq_dec (n / 128) 0) as [Hz|Hz].
  - rewrite be_digits_nonpos by lia. cbn [app hd]. lia.
  - rewrite hd_app_ne; [apply IH; lia|apply be_digits_nonempty; lia].
Qed.

Lemma be_digits_val f : forall n, 0 <= n -> n < 2 ^ Z.of_nat f -> dval (be_digits 128 f n) 0 = n.
Proof.
  induction f as [|f IH]; intros n H0 Hn.
  - change (2 ^ Z.of_nat 0) with 1 in Hn. cbn. lia.
  - cbn [be_digits]. destruct (n <=? 0) eqn:E; [cbn; lia|].
    rewrite Nat2Z.inj_succ, Z.pow_succ_r in Hn by lia. pose proof (pow2_pos f).
    unfold dval. rewrite fold_left_app. cbn [fold_left]. fold (dval (be_digits 128 f (n / 128)) 0).
    rewrite IH by lia. lia.
Qed.

Lemma rsub_base128 s rest : 0 <= s ->
  rsub (base128 s ++ rest) 0 true = option_map (cons s) (rsub rest 0 true).
Proof.
  intros Hs. unfold base128, digits_of.
  destruct (Z.eq_dec s 0) as [->|Hn]; [reflexivity|].
  pose proof (fuel_ok s) as Hf.
  pose proof (be_digits_nonempty _ s ltac:(lia) Hf) as Hne.
  destruct (be_digits 128 (S (Z.to_nat (Z.log2 s))) s) as [|d ds] eqn:E; [congruence|].
  rewrite <- E in *.
  rewrite rsub_digits; [|exact Hne|apply be_digits_range|right; apply be_digits_hd; exact Hf].
  rewrite be_digits_val by (lia || exact Hf). reflexivity.
Qed.

Lemma rsub_concat l : Forall (fun a => 0 <= a) l ->
  rsub (concat (map base128 l)) 0 true = Some l.
Proof.
  induction 1 as [|a l Ha Hl IH]; [reflexivity|].
  cbn [map concat]. rewrite rsub_base128 by exact Ha. rewrite IH. reflexivity.
Qed.

Lemma read_oid_octets arcs bs : oid_octets arcs = Some bs -> read_oid bs = Some arcs.
Proof.
  unfold oid_octets, read_oid.
  destruct arcs as [|x [|y rest]]; try discriminate.
  match goal with |- (if ?c then _ else _) = _ -> _ => destruct c eqn:E end; [|discriminate].
  intros H; apply some_inj in H; subst bs.
  apply andb_prop in E as [E F].
  rewrite read_subids_rsub by lia.
  rewrite rsub_concat.
  - destruct (40 * x + y <? 80) eqn:E80.
    + replace ((40 * x + y) / 40) with x by lia. replace ((40 * x + y) mod 40) with y by lia. reflexivity.
    + replace x with 2 by lia. replace (40 * 2 + y - 80) with y by lia. reflexivity.
  - constructor; [lia|]. apply Forall_forall. intros a Ha.
    rewrite forallb_forall in F. apply F in Ha. lia.
Qed.

Lemma mark_bytes ds : Forall (fun d => 0 <= d < 128) ds -> Forall is_byte (mark_continuation ds).
Proof.
  induction 1 as [|d ds Hd Hr IH]; [constructor|].
  destruct ds as [|d' ds]; [constructor; [unfold is_byte; lia|constructor]|].
  change (mark_continuation (d :: d' :: ds)) with ((128 + d) :: mark_continuation (d' :: ds)).
  constructor; [unfold is_byte; lia|exact IH].
Qed.

Lemma base128_bytes s : Forall is_byte (base128 s).
Proof.
  unfold base128. destruct (digits_of 128 s) eqn:E.
  - constructor; [unfold is_byte; lia|constructor].
  - rewrite <- E. apply mark_bytes. apply be_digits_range.
Qed.

Lemma oid_octets_bytes arcs bs : oid_octets arcs = Some bs -> Forall is_byte bs.
Proof.
  unfold oid_octets.
  destruct arcs as [|x [|y rest]]; try discriminate.
  match goal with |- (if ?c then _ else _) = _ -> _ => destruct c eqn:E end; [|discriminate].
  intros H; apply some_inj in H; subst bs.
  generalize (40 * x + y :: rest). intros l. induction l as [|a l IH]; [constructor|].
  cbn [map concat]. apply Forall_app. split; [apply base128_bytes|exact IH].
Qed.

Lemma rsub_nil_inv bs : forall acc fresh, rsub bs acc fresh = Some [] -> bs = [] /\ fresh = true.
Proof.
  induction bs as [|b r IH]; intros acc fresh; cbn [rsub].
  - destruct fresh; [auto|discriminate].
  - destruct (fresh && (b =? 128)); [discriminate|].
    destruct (b <? 128).
    + destruct (rsub r 0 true); cbn [option_map]; discriminate.
    + intros H. apply IH in H. destruct H; discriminate.
Qed.

Lemma decode_subid_rsub bs : forall acc fresh v vs tail, Forall is_byte bs ->
  rsub bs acc fresh = Some (v :: vs) ->
  exists n, decode_subid (bs ++ tail) (128 * acc) = Ok (v, n) /\ (0 < n <= length bs)%nat /\
            rsub (skipn n bs) 0 true = Some vs.
Proof.
  induction bs as [|b r IH]; intros acc fresh v vs tail Hb; cbn [rsub].
  - destruct fresh; discriminate.
  - inversion Hb as [|? ? Hb0 Hr]; subst. unfold is_byte in Hb0.
    destruct (fresh && (b =? 128)); [discriminate|].
    destruct (b <? 128) eqn:E.
    + destruct (rsub r 0 true) as [l|] eqn:R; cbn [option_map]; [|discriminate].
      intros H; apply some_inj in H. injection H as Hv Hl. subst v l.
      exists 1%nat. cbn [app decode_subid]. rewrite land_128_small by lia.
      change (0 =? 0) with true. cbv iota.
      split; [reflexivity|]. split; [cbn [length]; lia|]. cbn [skipn]. exact R.
    + intros H. destruct (IH _ _ _ _ tail Hr H) as (n & D & L & R).
      exists (S n). cbn [app decode_subid]. rewrite land_128_big by lia.
      change (128 =? 0) with false. cbv iota.
      replace ((128 * acc + Z.land b 127) * 128) with (128 * (128 * acc + (b - 128)))
        by (rewrite land_127_byte by lia; lia).
      rewrite D. cbn [bind]. split; [reflexivity|]. split; [cbn [length]; lia|]. cbn [skipn]. exact R.
Qed.

Lemma Forall_skipn_l {A} (P : A -> Prop) n : forall l, Forall P l -> Forall P (skipn n l).
Proof.
  induction n as [|n IH]; intros l H; [exact H|].
  destruct l; [constructor|]. inversion H; subst. cbn [skipn]. apply IH. assumption.
Qed.

Lemma skipn_add {A} m : forall n (l : list A), skipn n (skipn m l) = skipn (m + n) l.
Proof.
  induction m as [|m IH]; intros n l; [reflexivity|].
  destruct l; [cbn [skipn]; destruct n; reflexivity|]. cbn [skipn Nat.add]. apply IH.
Qed.

Lemma skipn_mid (pre content rest : list Z) k : (k <= length content)%nat ->
  skipn (length pre + k) (pre ++ content ++ rest) = skipn k content ++ rest.
Proof.
  intros Hk. rewrite skipn_app. rewrite skipn_all2 by lia.
  replace (length pre + k - length pre)%nat with k by lia.
  rewrite skipn_app. replace (k - length content)%nat with 0%nat by lia. reflexivity.
Qed.

Lemma decode_subids_rsub pre content rest : Forall is_byte content -> forall fuel k vs,
  (k <= length content)%nat -> (length content - k < fuel)%nat ->
  rsub (skipn k content) 0 true = Some vs ->
  decode_subids fuel (pre ++ content ++ rest) (length pre + k) (length pre + length content) = Ok vs.
Proof.
  intros Hb. induction fuel as [|fuel IH]; intros k vs Hk Hf R; [lia|].
  cbn [decode_subids].
  destruct (length pre + k <? length pre + length content)%nat eqn:E.
  - rewrite skipn_mid by lia.
    destruct vs as [|v vs].
    { apply rsub_nil_inv in R. destruct R as [R _].
      apply (f_equal (@length Z)) in R. rewrite skipn_length in R. cbn [length] in R. lia. }
    destruct (decode_subid_rsub _ _ _ _ _ rest (Forall_skipn_l _ k _ Hb) R) as (n & D & L & R').
    change (128 * 0) with 0 in D. rewrite D. cbn [bind].
    rewrite skipn_length in L. rewrite skipn_add in R'.
    rewrite <- Nat.add_assoc. rewrite (IH (k + n)%nat vs); [reflexivity|lia|lia|].
    exact R'.
  - rewrite skipn_all2 in R by lia. cbn [rsub] in R. congruence.
Qed.

Lemma decode_oid_spec pre content rest arcs :
  Forall is_byte content -> read_oid content = Some arcs ->
  decode_oid (pre ++ content ++ rest) (length pre) (length pre + length content) = Ok arcs.
Proof.
  intros Hb. unfold read_oid. rewrite read_subids_rsub by lia.
  destruct (rsub content 0 true) as [[|s r]|] eqn:R; try discriminate.
  intros H; apply some_inj in H; subst arcs.
  unfold decode_oid.
  pose proof (skipn_mid pre content rest 0 ltac:(lia)) as S0.
  rewrite Nat.add_0_r in S0. cbn [skipn] in S0. rewrite S0.
  destruct (decode_subid_rsub _ _ _ _ _ rest Hb R) as (n & D & L & R').
  change (128 * 0) with 0 in D. rewrite D. cbn [bind].
  rewrite (decode_subids_rsub pre content rest Hb _ n r); [reflexivity|lia| |exact R'].
  rewrite !app_length. lia.
Qed.

(* ---- BIT STRING ---- *)

Lemma zlist_eqb_eq a : forall b, zlist_eqb a b = true -> a = b.
Proof.
  induction a as [|x a IH]; intros [|y b]; cbn [zlist_eqb]; try discriminate; [reflexivity|].
  intros H. apply andb_prop in H as [H1 H2]. apply Z.eqb_eq in H1. apply IH in H2. congruence.
Qed.
Lemma zlist_eqb_refl a : zlist_eqb a a = true.
Proof. induction a as [|x a IH]; cbn [zlist_eqb]; [reflexivity|]. rewrite Z.eqb_refl, IH. reflexivity. Qed.
Lemma bools_eqb_eq a : forall b, bools_eqb a b = true -> a = b.
Proof.
  induction a as [|x a IH]; intros [|y b]; cbn [bools_eqb]; try discriminate; [reflexivity|].
  intros H. apply andb_prop in H as [H1 H2]. apply eqb_prop in H1. apply IH in H2. congruence.
Qed.
Lemma bools_eqb_refl a : bools_eqb a a = true.
Proof. induction a as [|x a IH]; cbn [bools_eqb]; [reflexivity|]. rewrite eqb_reflx, IH. reflexivity. Qed.

(** all bit lists of length at most [n], for finite sweeps over chunks *)
Fixpoint blists (n : nat) : list (list bool) :=
  match n with
  | O => [[]]
  | S k => [] :: flat_map (fun l => [true :: l; false :: l]) (blists k)
  end.

Lemma blists_in n : forall l, (length l <= n)%nat -> In l (blists n).
Proof.
  induction n as [|n IH]; intros l H.
  - destruct l; [left; reflexivity|cbn [length] in H; lia].
  - destruct l as [|b l]; [left; reflexivity|]. right. apply in_flat_map. exists l.
    split; [apply IH; cbn [length] in H; lia|]. destruct b; cbn; auto.
Qed.

Lemma bsweep (P : list bool -> bool) n :
  forallb P (blists n) = true -> forall l, (length l <= n)%nat -> P l = true.
Proof. intros H l Hl. rewrite forallb_forall in H. apply H. apply blists_in. exact Hl. Qed.

Definition pk (l : list bool) : list Z := pack_bits (S (length l)) l.

Lemma pack_fuel f1 : forall f2 l,
  (length l <= f1)%nat -> (length l <= f2)%nat -> pack_bits f1 l = pack_bits f2 l.
Proof.
  induction f1 as [|f1 IH]; intros f2 l H1 H2.
  - destruct l; [|cbn [length] in H1; lia]. destruct f2; reflexivity.
  - destruct f2 as [|f2].
    + destruct l; [reflexivity|cbn [length] in H2; lia].
    + cbn [pack_bits]. destruct l as [|b l]; [reflexivity|]. f_equal.
      apply IH; rewrite skipn_length; cbn [length] in *; lia.
Qed.

Lemma pack_cons f l : l <> [] ->
  pack_bits (S f) l = bits_value (firstn 8 (l ++ repeat false 7)) 0 :: pack_bits f (skipn 8 l).
Proof. destruct l; [congruence|reflexivity]. Qed.

Lemma pack_chunk f c l : length c = 8%nat ->
  pack_bits (S f) (c ++ l) = bits_value c 0 :: pack_bits f l.
Proof.
  intros Hc. rewrite pack_cons by (destruct c; [discriminate|cbn [app]; discriminate]).
  rewrite <- app_assoc. rewrite firstn_app, skipn_app, Hc, Nat.sub_diag, firstn_O, skipn_O, app_nil_r.
  rewrite firstn_all2, skipn_all2 by lia. reflexivity.
Qed.

Lemma pk_chunk c l : length c = 8%nat -> pk (c ++ l) = bits_value c 0 :: pk l.
Proof.
  intros Hc. unfold pk. rewrite pack_chunk by exact Hc. f_equal.
  apply pack_fuel; rewrite ?app_length; lia.
Qed.

Lemma pk_chunk1 c : length c = 8%nat -> pk c = [bits_value c 0].
Proof. intros Hc. rewrite <- (app_nil_r c) at 1. rewrite pk_chunk by exact Hc. reflexivity. Qed.

Lemma pack_short f l : l <> [] -> (length l <= 8)%nat ->
  pack_bits (S f) l = [bits_value (firstn 8 (l ++ repeat false 7)) 0].
Proof.
  destruct l as [|b l]; [congruence|]. intros _ H. cbn [pack_bits]. f_equal.
  rewrite skipn_all2 by lia. destruct f; reflexivity.
Qed.

Lemma pk_nonempty l : l <> [] -> pk l <> [].
Proof. destruct l; [congruence|]. intros _. unfold pk. cbn [length pack_bits]. discriminate. Qed.

Lemma chunk_ind (P : list bool -> Prop) :
  (forall l, (length l <= 8)%nat -> P l) ->
  (forall c l, length c = 8%nat -> l <> [] -> P l -> P (c ++ l)) ->
  forall l, P l.
Proof.
  intros Hb Hs.
  assert (H : forall n l, (length l <= 8 * n)%nat -> P l).
  { induction n as [|n IH]; intros l Hl; [apply Hb; lia|].
    destruct (le_lt_dec (length l) 8) as [Hle|Hgt]; [apply Hb; exact Hle|].
    rewrite <- (firstn_skipn 8 l). apply Hs.
    - rewrite firstn_length. lia.
    - intros E. apply (f_equal (@length bool)) in E. rewrite skipn_length in E. cbn [length] in E. lia.
    - apply IH. rewrite skipn_length. lia. }
  intros l. apply (H (length l)). lia.
Qed.

(** per-octet facts *)
Lemma byte_bits_value b : is_byte b -> bits_value (byte_bits b) 0 = b.
Proof.
  intros H. apply Z.eqb_eq.
  apply (sweep (fun b => bits_value (byte_bits b) 0 =? b) 0 256); [vm_compute; reflexivity|exact H].
Qed.

Lemma byte_bits_mask b k : is_byte b -> (0 < k < 8)%nat ->
  bits_value (firstn 8 (firstn k (byte_bits b) ++ repeat false 7)) 0 = Z.land b (mask_high (Z.of_nat k)).
Proof.
  intros H Hk.
  destruct k as [|[|[|[|[|[|[|[|k]]]]]]]]; try lia;
  match goal with |- ?L = ?R =>
    let P := eval pattern b in (L =? R) in
    match P with ?F b => apply Z.eqb_eq; apply (sweep F 0 256); [vm_compute; reflexivity|exact H] end
  end.
Qed.

Lemma bits_all_length bs : length (concat (map byte_bits bs)) = (8 * length bs)%nat.
Proof.
  induction bs as [|b bs IH]; [reflexivity|]. cbn [map concat length]. rewrite app_length, IH.
  change (length (byte_bits b)) with 8%nat. lia.
Qed.

(** recursive view of [bits_trim] *)
Lemma bits_trim_0 bs : bits_trim bs 0 = Ok [].
Proof. reflexivity. Qed.

Lemma bits_trim_small b bs n : 0 < n < 8 -> bits_trim (b :: bs) n = Ok [Z.land b (mask_high n)].
Proof.
  intros H. unfold bits_trim. cbv zeta.
  replace (n <? 0) with false by lia. replace (n / 8) with 0 by lia.
  replace (n mod 8) with n by lia. replace (n =? 0) with false by lia. reflexivity.
Qed.

Lemma bits_trim_big b bs n : 8 <= n ->
  bits_trim (b :: bs) n = let* d := bits_trim bs (n - 8) in Ok (b :: d).
Proof.
  intros H. unfold bits_trim. cbv zeta.
  replace (n <? 0) with false by lia. replace (n - 8 <? 0) with false by lia.
  replace (Z.to_nat (n / 8)) with (S (Z.to_nat ((n - 8) / 8))) by lia.
  replace (n mod 8) with ((n - 8) mod 8) by lia.
  destruct ((n - 8) mod 8 =? 0); cbn [bind firstn nth_error app]; [reflexivity|].
  destruct (nth_error bs (Z.to_nat ((n - 8) / 8))); reflexivity.
Qed.

Lemma trim_pack bs : forall k, Forall is_byte bs -> (k <= 8 * length bs)%nat ->
  bits_trim bs (Z.of_nat k) = Ok (pk (firstn k (concat (map byte_bits bs)))).
Proof.
  induction bs as [|b bs IH]; intros k Hb Hk.
  - cbn [length] in Hk. replace k with 0%nat by lia. reflexivity.
  - inversion Hb as [|? ? Hb0 Hbs]; subst. cbn [map concat]. cbn [length] in Hk.
    destruct (Nat.eq_dec k 0) as [->|Hk0]; [reflexivity|].
    destruct (le_lt_dec 8 k) as [Hge|Hlt].
    + rewrite bits_trim_big by lia. replace (Z.of_nat k - 8) with (Z.of_nat (k - 8)) by lia.
      rewrite IH by (auto; lia). cbn [bind].
      rewrite firstn_app_ge by (change (length (byte_bits b)) with 8%nat; lia).
      change (length (byte_bits b)) with 8%nat.
      rewrite pk_chunk by reflexivity. rewrite byte_bits_value by assumption. reflexivity.
    + rewrite bits_trim_small by lia.
      rewrite firstn_app_le by (change (length (byte_bits b)) with 8%nat; lia).
      unfold pk. rewrite pack_short.
      * rewrite byte_bits_mask by (auto; lia). reflexivity.
      * intros E. apply (f_equal (@length bool)) in E. rewrite firstn_length in E.
        change (length (byte_bits b)) with 8%nat in E. cbn [length] in E. lia.
      * rewrite firstn_length. lia.
Qed.

Lemma trim_pack_Z bs n bits : Forall is_byte bs -> bits_of bs n = Some bits ->
  bits_trim bs n = Ok (pk bits) /\ Z.of_nat (length bits) = n.
Proof.
  intros Hb. unfold bits_of. rewrite bits_all_length.
  destruct ((0 <=? n) && (n <=? Z.of_nat (8 * length bs))) eqn:E; [|discriminate].
  intros H; apply some_inj in H; subst bits. split.
  - rewrite <- trim_pack by (auto; lia). f_equal. lia.
  - rewrite firstn_length, bits_all_length. lia.
Qed.

Lemma pad_eq n : 0 <= n ->
  8 * ((n + 7) / 8) - n = (if n mod 8 =? 0 then 0 else 8 - n mod 8).
Proof. intros H. destruct (n mod 8 =? 0) eqn:E; lia. Qed.

Lemma bits_content_spec bs n c :
  Forall is_byte bs -> bitstring_octets false bs n = Some c -> bits_content bs n = Ok c.
Proof.
  intros Hb. unfold bitstring_octets. destruct (bits_of bs n) as [bits|] eqn:B; [|discriminate].
  destruct (trim_pack_Z _ _ _ Hb B) as [T L].
  intros H; apply some_inj in H; subst c.
  unfold bits_content. rewrite T. cbn [bind]. fold (pk bits). rewrite L, pad_eq by lia. reflexivity.
Qed.

(** trailing zero bits / octets *)
Lemma strip_app l1 l2 :
  strip_trailing_false (l1 ++ l2) =
  match strip_trailing_false l2 with [] => strip_trailing_false l1 | _ => l1 ++ strip_trailing_false l2 end.
Proof.
  induction l1 as [|a l1 IH]; cbn [app strip_trailing_false].
  - destruct (strip_trailing_false l2); reflexivity.
  - rewrite IH. destruct (strip_trailing_false l2); [reflexivity|]. destruct l1; reflexivity.
Qed.

Lemma strip_idem l : strip_trailing_false (strip_trailing_false l) = strip_trailing_false l.
Proof.
  induction l as [|b l IH]; [reflexivity|]. cbn [strip_trailing_false].
  destruct (strip_trailing_false l) as [|x r] eqn:S.
  - destruct b; reflexivity.
  - cbn [strip_trailing_false]. cbn [strip_trailing_false] in IH. rewrite IH. reflexivity.
Qed.

Lemma strip_length l : (length (strip_trailing_false l) <= length l)%nat.
Proof.
  induction l as [|b l IH]; [cbn; lia|]. cbn [strip_trailing_false].
  destruct (strip_trailing_false l); [destruct b; cbn [length]; lia|cbn [length] in *; lia].
Qed.

Lemma rstrip_pk_base l : (length l <= 8)%nat -> rstrip0 (pk l) = pk (strip_trailing_false l).
Proof.
  intros H. apply zlist_eqb_eq.
  apply (bsweep (fun l => zlist_eqb (rstrip0 (pk l)) (pk (strip_trailing_false l))) 8);
    [vm_compute; reflexivity|exact H].
Qed.

Lemma rstrip_pk l : rstrip0 (pk l) = pk (strip_trailing_false l).
Proof.
  induction l as [l Hl|c l Hc Hne IH] using chunk_ind; [apply rstrip_pk_base; exact Hl|].
  rewrite pk_chunk by exact Hc. cbn [rstrip0]. rewrite IH, strip_app.
  destruct (strip_trailing_false l) as [|x r] eqn:S.
  - change (pk []) with (@nil Z). cbv iota.
    rewrite <- rstrip_pk_base by lia. rewrite pk_chunk1 by exact Hc. reflexivity.
  - rewrite pk_chunk by exact Hc.
    destruct (pk (x :: r)) eqn:P; [|reflexivity].
    exfalso. revert P. apply pk_nonempty. discriminate.
Qed.

Definition lsb_ok (l : list bool) : Prop :=
  match rev (pk l) with
  | [] => False
  | last :: _ => 8 * Z.of_nat (length (pk l)) - lowest_set_bit last = Z.of_nat (length l)
  end.

Lemma lsb_pk_base l : (length l <= 8)%nat -> l <> [] -> strip_trailing_false l = l -> lsb_ok l.
Proof.
  intros H Hne Hs.
  pose proof (bsweep (fun l =>
     match l with
     | [] => true
     | _ => if bools_eqb (strip_trailing_false l) l then
              match rev (pk l) with
              | [] => false
              | last :: _ => 8 * Z.of_nat (length (pk l)) - lowest_set_bit last =? Z.of_nat (length l)
              end
            else true
     end) 8 ltac:(vm_compute; reflexivity) l H) as Q.
  cbv beta in Q. destruct l as [|b l]; [congruence|].
  rewrite Hs, bools_eqb_refl in Q. unfold lsb_ok.
  destruct (rev (pk (b :: l))); [discriminate|]. apply Z.eqb_eq. exact Q.
Qed.

Lemma lsb_pk l : l <> [] -> strip_trailing_false l = l -> lsb_ok l.
Proof.
  induction l as [l Hl|c l Hc Hne IH] using chunk_ind; [apply lsb_pk_base; exact Hl|].
  intros _ Hs. rewrite strip_app in Hs.
  destruct (strip_trailing_false l) as [|x r] eqn:S.
  - exfalso. apply (f_equal (@length bool)) in Hs. rewrite app_length in Hs.
    pose proof (strip_length c). destruct l; [congruence|]. cbn [length] in Hs. lia.
  - apply app_inv_head in Hs. specialize (IH Hne ltac:(congruence)).
    unfold lsb_ok in *. rewrite pk_chunk by exact Hc. cbn [rev length].
    destruct (rev (pk l)) as [|last t]; [contradiction|]. cbn [app].
    rewrite app_length, Hc. lia.
Qed.

Lemma byte_bits_chunk c : length c = 8%nat -> byte_bits (bits_value c 0) = c.
Proof.
  intros Hc.
  pose proof (bsweep (fun c => if (length c =? 8)%nat then bools_eqb (byte_bits (bits_value c 0)) c else true)
                     8 ltac:(vm_compute; reflexivity) c ltac:(lia)) as Q.
  cbv beta in Q. rewrite Hc in Q. cbn [Nat.eqb] in Q. apply bools_eqb_eq. exact Q.
Qed.

Lemma unpack_pk l : firstn (length l) (concat (map byte_bits (pk l))) = l.
Proof.
  induction l as [l Hl|c l Hc Hne IH] using chunk_ind.
  - apply bools_eqb_eq.
    apply (bsweep (fun l => bools_eqb (firstn (length l) (concat (map byte_bits (pk l)))) l) 8);
      [vm_compute; reflexivity|exact Hl].
  - rewrite pk_chunk by exact Hc. cbn [map concat]. rewrite byte_bits_chunk by exact Hc.
    rewrite app_length, Hc. rewrite firstn_app_ge by lia. rewrite Hc.
    replace (8 + length l - 8)%nat with (length l) by lia. rewrite IH. reflexivity.
Qed.

Lemma pk_length l : Z.of_nat (length (pk l)) = (Z.of_nat (length l) + 7) / 8.
Proof.
  induction l as [l Hl|c l Hc Hne IH] using chunk_ind.
  - apply Z.eqb_eq.
    apply (bsweep (fun l => Z.of_nat (length (pk l)) =? (Z.of_nat (length l) + 7) / 8) 8);
      [vm_compute; reflexivity|exact Hl].
  - rewrite pk_chunk by exact Hc. cbn [length]. rewrite app_length, Hc. lia.
Qed.

Lemma forallb_bytes l : forallb is_byteb l = true -> Forall is_byte l.
Proof.
  intros H. apply Forall_forall. intros x Hx. rewrite forallb_forall in H. apply H in Hx.
  unfold is_byteb in Hx. unfold is_byte. lia.
Qed.

Lemma pk_bytes_base l : (length l <= 8)%nat -> Forall is_byte (pk l).
Proof.
  intros H. apply forallb_bytes.
  apply (bsweep (fun l => forallb is_byteb (pk l)) 8); [vm_compute; reflexivity|exact H].
Qed.

Lemma pk_bytes l : Forall is_byte (pk l).
Proof.
  induction l as [l Hl|c l Hc Hne IH] using chunk_ind; [apply pk_bytes_base; exact Hl|].
  rewrite pk_chunk by exact Hc. constructor; [|exact IH].
  pose proof (pk_bytes_base c ltac:(lia)) as Q. rewrite pk_chunk1 in Q by exact Hc.
  inversion Q; assumption.
Qed.

(** canonical form of a cleaned value *)
Lemma clean_bits_canon nm bs n bits : Forall is_byte bs -> bitstring_abs nm bs n = Some bits ->
  clean_bits nm bs n = Ok (pk bits, Z.of_nat (length bits)).
Proof.
  intros Hb. unfold bitstring_abs. destruct (bits_of bs n) as [l|] eqn:B; [|discriminate].
  intros H; apply some_inj in H. destruct (trim_pack_Z _ _ _ Hb B) as [T L].
  unfold clean_bits. rewrite T. cbn [bind]. destruct nm.
  - subst bits. rewrite rstrip_pk.
    destruct (strip_trailing_false l) as [|x r] eqn:S; [reflexivity|].
    rewrite <- S.
    assert (Q : lsb_ok (strip_trailing_false l)).
    { apply lsb_pk; [rewrite S; discriminate|apply strip_idem]. }
    unfold lsb_ok in Q.
    destruct (rev (pk (strip_trailing_false l))) as [|last t]; [contradiction|].
    rewrite Q. reflexivity.
  - subst bits. rewrite L. reflexivity.
Qed.

Lemma bits_content_named_spec bs n c :
  Forall is_byte bs -> bitstring_octets true bs n = Some c ->
  (let* (b, m) := clean_bits true bs n in bits_content b m) = Ok c.
Proof.
  intros Hb. unfold bitstring_octets. destruct (bits_of bs n) as [l|] eqn:B; [|discriminate].
  intros H; apply some_inj in H; subst c.
  rewrite (clean_bits_canon true bs n (strip_trailing_false l) Hb)
    by (unfold bitstring_abs; rewrite B; reflexivity).
  cbn [bind]. set (s := strip_trailing_false l). fold (pk s).
  unfold bits_content. pose proof (pk_length s) as PL.
  rewrite trim_pack by (try apply pk_bytes; lia).
  rewrite unpack_pk. cbn [bind]. rewrite pad_eq by lia. reflexivity.
Qed.

Lemma clean_bits_eq_spec nm b1 n1 b2 n2 x y :
  Forall is_byte b1 -> Forall is_byte b2 ->
  bitstring_abs nm b1 n1 = Some x -> bitstring_abs nm b2 n2 = Some y ->
  exists c1 m1 c2 m2, clean_bits nm b1 n1 = Ok (c1, m1) /\ clean_bits nm b2 n2 = Ok (c2, m2) /\
                      (zlist_eqb c1 c2 && (m1 =? m2)) = bools_eqb x y.
Proof.
  intros H1 H2 A1 A2.
  exists (pk x), (Z.of_nat (length x)), (pk y), (Z.of_nat (length y)).
  split; [apply clean_bits_canon; assumption|]. split; [apply clean_bits_canon; assumption|].
  destruct (bools_eqb x y) eqn:E.
  - apply bools_eqb_eq in E. subst y. rewrite zlist_eqb_refl, Z.eqb_refl. reflexivity.
  - destruct (Z.of_nat (length x) =? Z.of_nat (length y)) eqn:EL; [|apply andb_false_r].
    rewrite andb_true_r. destruct (zlist_eqb (pk x) (pk y)) eqn:EZ; [|reflexivity].
    exfalso. apply zlist_eqb_eq in EZ.
    assert (x = y).
    { rewrite <- (unpack_pk x), <- (unpack_pk y), EZ. replace (length x) with (length y) by lia. reflexivity. }
    subst y. rewrite bools_eqb_refl in E. discriminate.
Qed.

Lemma read_bits_prim_content nm bs n c :
  Forall is_byte bs -> bitstring_octets nm bs n = Some c ->
  exists d m, clean_bits nm bs n = Ok (d, m) /\ read_bits_prim c = Some (d, m) /\ Forall is_byte c.
Proof.
  intros Hb. unfold bitstring_octets. destruct (bits_of bs n) as [l|] eqn:B; [|discriminate].
  set (bits := if nm then strip_trailing_false l else l).
  intros H; apply some_inj in H; subst c. fold (pk bits).
  exists (pk bits), (Z.of_nat (length bits)).
  split; [apply clean_bits_canon; [exact Hb|unfold bitstring_abs; rewrite B; reflexivity]|].
  pose proof (pk_length bits) as PL.
  split.
  - unfold read_bits_prim.
    destruct bits as [|b bits'] eqn:EB; [reflexivity|]. rewrite <- EB in *.
    destruct (pk bits) as [|z t] eqn:P; [exfalso; revert P; apply pk_nonempty; rewrite EB; discriminate|].
    rewrite <- P.
    match goal with |- (if ?c then _ else _) = _ => replace c with true by lia end.
    pose proof (pk_length bits) as PL'. f_equal. f_equal. lia.
  - constructor; [unfold is_byte; lia|apply pk_bytes].
Qed.
