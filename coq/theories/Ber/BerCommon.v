(** Implementation model of asn1tools/codecs/ber.py and der.py over the shared
    universe [ty]/[value]: one model parameterised by [der : bool] because
    der.py re-uses most of ber.py (Boolean, Null, ObjectIdentifier, Enumerated,
    Sequence, Set, Choice, ExplicitTag, Recursive and every encoder helper) and
    only replaces the string / bit string / octet string / integer / array
    classes by primitive-only, definite-length ones.

    Compile time is fused into the codec functions: the effect of
    [Compiler.compile_type] (copy, ExplicitTag wrapper, [set_tag]) on a type
    [TTag tg t] is an *override* [ovr] handed down to the type that finally
    owns the identifier octets, exactly as [set_tag] on a copy replaces the
    tag of the compiled object (and as Recursive.set_inner_type re-applies it).

    Python partiality is explicit: [data[i]] is [nth_error] (IndexError),
    slices clamp, [None + int] is TypeError, the TAG_MISMATCH sentinel is
    [DMis], loops run on fuel with the distinct outcome [EFuel].

    Dictionaries: a decoded SEQUENCE/SET is a Python dict, compared with [==]
    (insertion order is not observable); the model returns the fields in
    declaration order ([canon_fields]).

    The model follows the *repaired* tree (proposed_fixes/C03-*.diff,
    C04-*.diff): DER SET components sorted by tag and SET OF elements sorted by
    encoding at encode time, DER named-bit strings stripped of trailing zero
    bits, no class rewriting in der.Type.set_tag, end-of-contents state carried
    from the root members to the additions. *)
From Asn1V Require Import Base.Prelude Syntax.Asn1 Ber.Header.

(* ------------------------------------------------------------------ *)
(** * Python integer / bytes helpers *)

(** int.bit_length() *)
Definition bit_length (n : Z) : Z := if n =? 0 then 0 else Z.log2 (Z.abs n) + 1.

(** little-endian base-256 digits of [n mod 256^len] (floor division: two's complement) *)
Fixpoint le_bytes (len : nat) (n : Z) : list Z :=
  match len with
  | O => []
  | S l => n mod 256 :: le_bytes l (n / 256)
  end.
(** int.to_bytes(len, 'big', signed=True) for a value that fits *)
Definition be_bytes (len : nat) (n : Z) : list Z := rev (le_bytes len n).

(** ber.encode_signed_integer *)
Definition int_byte_length (n : Z) : Z := (8 + bit_length (n + (if n <? 0 then 1 else 0))) / 8.
Definition encode_signed_integer (n : Z) : list Z := be_bytes (Z.to_nat (int_byte_length n)) n.

(** int.from_bytes(bs, 'big', signed=True) *)
Definition signed_of_bytes (bs : list Z) : Z :=
  match bs with
  | [] => 0
  | b :: _ => if b <? 128 then be_value bs else be_value bs - 256 ^ Z.of_nat (length bs)
  end.

Fixpoint mapM {A B} (f : A -> result B) (l : list A) : result (list B) :=
  match l with
  | [] => Ok []
  | x :: r => let* y := f x in let* ys := mapM f r in Ok (y :: ys)
  end.

(** Python list/bytes comparison [a <= b] (lexicographic, a proper prefix is smaller) *)
Fixpoint bytes_leb (a b : list Z) : bool :=
  match a, b with
  | [], _ => true
  | _ :: _, [] => false
  | x :: a', y :: b' => if x <? y then true else if y <? x then false else bytes_leb a' b'
  end.

(** sorted(l, key=...) — a stable sort; [leb] compares keys *)
Fixpoint insert_sorted {A} (leb : A -> A -> bool) (x : A) (l : list A) : list A :=
  match l with
  | [] => [x]
  | y :: r => if leb x y then x :: l else y :: insert_sorted leb x r
  end.
Fixpoint isort {A} (leb : A -> A -> bool) (l : list A) : list A :=
  match l with
  | [] => []
  | x :: r => insert_sorted leb x (isort leb r)
  end.

(* ------------------------------------------------------------------ *)
(** * Character string codecs (str.encode / bytes.decode) *)

Inductive strenc : Type := EncAscii | EncUtf8 | EncLatin1 | EncOther.

Definition str_encoding (k : strkind) : strenc :=
  match k with
  | SkIA5 | SkVisible | SkNumeric | SkPrintable => EncAscii
  | SkUTF8 => EncUtf8
  | SkGeneral | SkGraphic | SkTeletex | SkObjectDescriptor => EncLatin1
  | SkBMP | SkUniversal => EncOther
  end.

Definition str_univ_tag (k : strkind) : Z :=
  match k with
  | SkIA5 => 22 | SkVisible => 26 | SkNumeric => 18 | SkPrintable => 19 | SkUTF8 => 12
  | SkBMP => 30 | SkGeneral => 27 | SkGraphic => 25 | SkTeletex => 20 | SkUniversal => 28
  | SkObjectDescriptor => 7
  end.

Definition utf8_encode_cp (c : Z) : result (list Z) :=
  if c <? 0 then Err (EForeign "ValueError")
  else if c <? 128 then Ok [c]
  else if c <? 2048 then Ok [192 + c / 64; 128 + c mod 64]
  else if c <? 65536 then
    if (55296 <=? c) && (c <=? 57343) then Err (EForeign "UnicodeEncodeError")
    else Ok [224 + c / 4096; 128 + (c / 64) mod 64; 128 + c mod 64]
  else if c <? 1114112 then
    Ok [240 + c / 262144; 128 + (c / 4096) mod 64; 128 + (c / 64) mod 64; 128 + c mod 64]
  else Err (EForeign "ValueError").

Definition is_cont (b : Z) : bool := (128 <=? b) && (b <? 192).

(** bytes.decode('utf-8'), strict *)
Fixpoint utf8_decode (bs : list Z) : result (list Z) :=
  let bad := Err (EForeign "UnicodeDecodeError") in
  match bs with
  | [] => Ok []
  | b0 :: r =>
    if b0 <? 128 then let* s := utf8_decode r in Ok (b0 :: s)
    else if b0 <? 194 then bad
    else if b0 <? 224 then
      match r with
      | b1 :: r' =>
        if is_cont b1 then let* s := utf8_decode r' in Ok ((b0 - 192) * 64 + (b1 - 128) :: s)
        else bad
      | _ => bad
      end
    else if b0 <? 240 then
      match r with
      | b1 :: b2 :: r' =>
        let c := (b0 - 224) * 4096 + (b1 - 128) * 64 + (b2 - 128) in
        if is_cont b1 && is_cont b2 && (2048 <=? c) && negb ((55296 <=? c) && (c <=? 57343))
        then let* s := utf8_decode r' in Ok (c :: s) else bad
      | _ => bad
      end
    else if b0 <? 245 then
      match r with
      | b1 :: b2 :: b3 :: r' =>
        let c := (b0 - 240) * 262144 + (b1 - 128) * 4096 + (b2 - 128) * 64 + (b3 - 128) in
        if is_cont b1 && is_cont b2 && is_cont b3 && (65536 <=? c) && (c <? 1114112)
        then let* s := utf8_decode r' in Ok (c :: s) else bad
      | _ => bad
      end
    else bad
  end.

Definition str_encode (k : strkind) (cps : list Z) : result (list Z) :=
  match str_encoding k with
  | EncAscii =>
    if forallb (fun c => (0 <=? c) && (c <? 128)) cps then Ok cps
    else Err (EForeign "UnicodeEncodeError")
  | EncLatin1 =>
    if forallb (fun c => (0 <=? c) && (c <? 256)) cps then Ok cps
    else Err (EForeign "UnicodeEncodeError")
  | EncUtf8 => let* l := mapM utf8_encode_cp cps in Ok (concat l)
  | EncOther => Err EUnmodelled
  end.

Definition str_decode (k : strkind) (bs : list Z) : result (list Z) :=
  match str_encoding k with
  | EncAscii =>
    if forallb (fun c => c <? 128) bs then Ok bs else Err (EForeign "UnicodeDecodeError")
  | EncLatin1 => Ok bs
  | EncUtf8 => utf8_decode bs
  | EncOther => Err EUnmodelled
  end.

(* ------------------------------------------------------------------ *)
(** * BIT STRING helpers *)

(** compiler.lowest_set_bit for a byte 1..255 *)
Fixpoint lowest_set_bit_fuel (n : nat) (b : Z) : Z :=
  match n with
  | O => 0
  | S k => if Z.odd b then 0 else 1 + lowest_set_bit_fuel k (b / 2)
  end.
Definition lowest_set_bit (b : Z) : Z := if b <=? 0 then 0 else lowest_set_bit_fuel 8 b.

(** bytes.rstrip(b'\x00') *)
Fixpoint rstrip0 (bs : list Z) : list Z :=
  match bs with
  | [] => []
  | b :: r => match rstrip0 r with
              | [] => if b =? 0 then [] else [b]
              | r' => b :: r'
              end
  end.

Definition mask_high (rest : Z) : Z := 255 - (255 / 2 ^ rest).   (* (0xff >> rest) ^ 0xff *)

(** the common prefix of BitString.encode_content / clean_bit_string_value:
    keep [nbits] bits, masking the unused bits of the last octet.
    [data[number_of_bytes]] raises IndexError when the bytes are too short. *)
Definition bits_trim (bs : list Z) (nbits : Z) : result (list Z) :=
  if nbits <? 0 then Err EUnmodelled
  else
    let nb := Z.to_nat (nbits / 8) in
    let rest := nbits mod 8 in
    if rest =? 0 then Ok (firstn nb bs)
    else match nth_error bs nb with
         | None => Err (EForeign "IndexError")
         | Some last => Ok (firstn nb bs ++ [Z.land last (mask_high rest)])
         end.

(** compiler.clean_bit_string_value (value, has_named_bits) *)
Definition clean_bits (named : bool) (bs : list Z) (nbits : Z) : result (list Z * Z) :=
  let* d := bits_trim bs nbits in
  if named then
    let d' := rstrip0 d in
    match rev d' with
    | [] => Ok ([], 0)
    | last :: _ => Ok (d', 8 * Z.of_nat (length d') - lowest_set_bit last)
    end
  else Ok (d, nbits).

(** contents octets: unused-bits octet followed by the trimmed bytes *)
Definition bits_content (bs : list Z) (nbits : Z) : result (list Z) :=
  let* d := bits_trim bs nbits in
  let rest := nbits mod 8 in
  Ok ((if rest =? 0 then 0 else 8 - rest) :: d).

(* ------------------------------------------------------------------ *)
(** * OBJECT IDENTIFIER helpers *)

(** encode_object_identifier_subidentifier: low 7 bits first, then
    [while sub > 0] continuation groups, reversed *)
Definition encode_subid (s : Z) : list Z :=
  rev (Z.land s 127 :: map (fun d => Z.lor 128 d) (digits_le 7 (digits_fuel (Z.shiftr s 7)) (Z.shiftr s 7))).

Definition encode_oid (arcs : list Z) : result (list Z) :=
  match arcs with
  | a0 :: a1 :: rest => Ok (encode_subid (40 * a0 + a1) ++ concat (map encode_subid rest))
  | _ => Err (EForeign "IndexError")
  end.

(** decode_object_identifier_subidentifier on the remaining data [d]
    (= data[offset:]); the loop is bounded by the data, running off the end
    is Python's IndexError.  Returns the value and the number of octets read. *)
Fixpoint decode_subid (d : list Z) (acc : Z) : result (Z * nat) :=
  match d with
  | [] => Err (EForeign "IndexError")
  | b :: d' =>
    if Z.land b 128 =? 0 then Ok (acc + b, 1%nat)
    else let* (v, n) := decode_subid d' ((acc + Z.land b 127) * 128) in Ok (v, S n)
  end.

Fixpoint decode_subids (fuel : nat) (data : list Z) (off endo : nat) : result (list Z) :=
  match fuel with
  | O => Err EFuel
  | S f =>
    if (off <? endo)%nat then
      let* (v, n) := decode_subid (skipn off data) 0 in
      let* r := decode_subids f data (off + n) endo in Ok (v :: r)
    else Ok []
  end.

Definition decode_oid (data : list Z) (off endo : nat) : result (list Z) :=
  let* (s, n) := decode_subid (skipn off data) 0 in
  let first := if s <? 80 then [s / 40; s mod 40] else [2; s - 80] in
  let* r := decode_subids (S (length data)) data (off + n) endo in
  Ok (first ++ r).

(* ------------------------------------------------------------------ *)
(** * Tags *)

Definition class_flags (c : tclass) : Z :=
  match c with Univ => 0 | Appl => 64 | Ctx => 128 | Priv => 192 end.

Definition ovr_t : Type := option (tclass * Z).

Definition eff (ovr : ovr_t) (c : tclass) (n : Z) : tclass * Z :=
  match ovr with Some p => p | None => (c, n) end.

(** identifier octets of a type object: encode_tag(number, class | constructed) *)
Definition tag_octets (cn : tclass * Z) (constructed : bool) : list Z :=
  encode_tag (snd cn) (Z.lor (class_flags (fst cn)) (if constructed then 32 else 0)).

Definition mk_tag (ovr : ovr_t) (univ : Z) (constructed : bool) : list Z :=
  tag_octets (eff ovr Univ univ) constructed.

(** constructed_tag = copy(tag); constructed_tag[0] |= 0x20 *)
Definition set_constructed (tagb : list Z) : list Z :=
  match tagb with [] => [] | b :: r => Z.lor b 32 :: r end.

Definition tlv (tagb content : list Z) : list Z :=
  tagb ++ encode_length_definite (Z.of_nat (length content)) ++ content.

(** [(class bits, number)] read back from the identifier octets at the head
    of an encoding: the sort key of the repaired DER SET encoder *)
Fixpoint tag_number_acc (d : list Z) (acc : Z) : Z :=
  match d with
  | [] => acc
  | b :: d' => if Z.land b 128 =? 0 then acc * 128 + b else tag_number_acc d' (acc * 128 + Z.land b 127)
  end.
Definition tag_sort_key (enc : list Z) : Z * Z :=
  match enc with
  | [] => (0, 0)
  | b :: r => (Z.land b 192, if Z.land b 31 =? 31 then tag_number_acc r 0 else Z.land b 31)
  end.
Definition key_leb (a b : Z * Z) : bool :=
  if fst a <? fst b then true else if fst b <? fst a then false else snd a <=? snd b.

(* ------------------------------------------------------------------ *)
(** * Members *)

Definition members_of (t_root : list (member_of ty)) (ext : option (list (addition_of ty)))
  : list (member_of ty) :=
  t_root ++ match ext with None => [] | Some adds => concat (map snd adds) end.

Definition additions_flat (ext : option (list (addition_of ty))) : list (member_of ty) :=
  match ext with None => [] | Some adds => concat (map snd adds) end.

Definition choice_members (root : list (member_of ty)) (ext : option (list (member_of ty)))
  : list (member_of ty) := root ++ match ext with None => [] | Some l => l end.

Fixpoint find_member (n : string) (ms : list (member_of ty)) : option (member_of ty) :=
  match ms with
  | [] => None
  | m :: r => if String.eqb n (m_name m) then Some m else find_member n r
  end.

(** the decoded dict in declaration order *)
Fixpoint canon_fields (ms : list (member_of ty)) (vals : list (string * value)) : list (string * value) :=
  match ms with
  | [] => []
  | m :: r => match lookup (m_name m) vals with
              | Some v => (m_name m, v) :: canon_fields r vals
              | None => canon_fields r vals
              end
  end.

Definition enum_items (root : list (string * Z)) (ext : option (list (string * Z))) : list (string * Z) :=
  root ++ match ext with None => [] | Some l => l end.

Fixpoint enum_name_of (z : Z) (items : list (string * Z)) : option string :=
  match items with
  | [] => None
  | (n, k) :: r => match enum_name_of z r with      (* dict comprehension: the last entry wins *)
                   | Some n' => Some n'
                   | None => if z =? k then Some n else None
                   end
  end.
Fixpoint enum_value_of (nm : string) (items : list (string * Z)) : option Z :=
  match items with
  | [] => None
  | (n, k) :: r => match enum_value_of nm r with
                   | Some k' => Some k'
                   | None => if String.eqb nm n then Some k else None
                   end
  end.

Inductive dres : Type := DMis | DVal (v : value).

(* ------------------------------------------------------------------ *)
Section Codec.
Variable der : bool.
Variable numeric : bool.
Variable e : env.

(** The base type behind tag prefixes and references (what the compiled
    member object *is*: BitString, Null, ... or an ExplicitTag around it, which
    delegates is_default to its inner type). *)
Fixpoint base_of (fuel : nat) (t : ty) : option ty :=
  match fuel with
  | O => None
  | S f =>
    match t with
    | TTag _ t' => base_of f t'
    | TRef n => match lookup n e with Some t' => base_of f t' | None => None end
    | _ => Some t
    end
  end.

(** member.is_default(value); clean_bit_string_value can raise IndexError *)
Definition is_default (fuel : nat) (t : ty) (v d : value) : result bool :=
  match base_of fuel t with
  | Some TNull => Ok false
  | Some (TBits named _) =>
    match v, d with
    | VBits b1 n1, VBits b2 n2 =>
      let nm := match named with Some _ => true | None => false end in
      let* (c1, m1) := clean_bits nm b1 n1 in
      let* (c2, m2) := clean_bits nm b2 n2 in
      Ok (zlist_eqb c1 c2 && (m1 =? m2))
    | _, _ => Ok (value_eqb v d)
    end
  | _ => Ok (value_eqb v d)
  end.

(** The identifier octets a type object answers to (Choice.get_member_tags):
    one tag, two for BER's primitive-or-constructed types, the union of the
    alternatives for an untagged CHOICE. *)
Fixpoint alt_tags (fuel : nat) (ovr : ovr_t) (t : ty) : result (list (list Z)) :=
  match fuel with
  | O => Err EFuel
  | S f =>
    match t with
    | TTag tg t' =>
      let cn := eff ovr (t_class tg) (t_num tg) in
      if t_explicit tg then Ok [tag_octets cn true] else alt_tags f (Some cn) t'
    | TRef n => match lookup n e with Some t' => alt_tags f ovr t' | None => Err EUnmodelled end
    | TChoice root ext =>
      match ovr with
      | Some _ => Err EUnmodelled
      | None => let* l := mapM (fun m => alt_tags f None (m_ty m)) (choice_members root ext) in
                Ok (concat l)
      end
    | TBool => Ok [mk_tag ovr 1 false]
    | TNull => Ok [mk_tag ovr 5 false]
    | TInt _ => Ok [mk_tag ovr 2 false]
    | TEnum _ _ => Ok [mk_tag ovr 10 false]
    | TOid => Ok [mk_tag ovr 6 false]
    | TBits _ _ => Ok (mk_tag ovr 3 false :: if der then [] else [set_constructed (mk_tag ovr 3 false)])
    | TOctets _ => Ok (mk_tag ovr 4 false :: if der then [] else [set_constructed (mk_tag ovr 4 false)])
    | TStr k _ _ =>
      Ok (mk_tag ovr (str_univ_tag k) false ::
          if der then [] else [set_constructed (mk_tag ovr (str_univ_tag k) false)])
    | TSeq isset _ _ => Ok [mk_tag ovr (if isset then 17 else 16) true]
    | TSeqOf isset _ _ => Ok [mk_tag ovr (if isset then 17 else 16) true]
    end
  end.

(** member.tag as used by ber.get_tag_no_encoding (BER SET members are sorted
    at compile time by the identifier octets without the constructed bit); an
    untagged CHOICE has tag None: TypeError *)
Fixpoint static_tag (fuel : nat) (ovr : ovr_t) (t : ty) : result (list Z) :=
  match fuel with
  | O => Err EFuel
  | S f =>
    match t with
    | TTag tg t' =>
      let cn := eff ovr (t_class tg) (t_num tg) in
      if t_explicit tg then Ok (tag_octets cn true) else static_tag f (Some cn) t'
    | TRef n => match lookup n e with Some t' => static_tag f ovr t' | None => Err EUnmodelled end
    | TChoice _ _ => match ovr with Some _ => Err EUnmodelled | None => Err (EForeign "TypeError") end
    | TBool => Ok (mk_tag ovr 1 false)
    | TNull => Ok (mk_tag ovr 5 false)
    | TInt _ => Ok (mk_tag ovr 2 false)
    | TEnum _ _ => Ok (mk_tag ovr 10 false)
    | TOid => Ok (mk_tag ovr 6 false)
    | TBits _ _ => Ok (mk_tag ovr 3 false)
    | TOctets _ => Ok (mk_tag ovr 4 false)
    | TStr k _ _ => Ok (mk_tag ovr (str_univ_tag k) false)
    | TSeq isset _ _ => Ok (mk_tag ovr (if isset then 17 else 16) true)
    | TSeqOf isset _ _ => Ok (mk_tag ovr (if isset then 17 else 16) true)
    end
  end.
Definition static_tag_key (fuel : nat) (t : ty) : result (list Z) :=
  let* tg := static_tag fuel None t in
  match tg with
  | b :: r => Ok (Z.land b 223 :: r)
  | [] => Err (EForeign "IndexError")
  end.

Definition sort_members_ber (fuel : nat) (ms : list (member_of ty)) : result (list (member_of ty)) :=
  let* keyed := mapM (fun m => let* k := static_tag_key fuel (m_ty m) in Ok (k, m)) ms in
  Ok (map snd (isort (fun a b => bytes_leb (fst a) (fst b)) keyed)).

(** root members in the order the compiled MembersType holds them *)
Definition compiled_root (fuel : nat) (isset : bool) (root : list (member_of ty))
  : result (list (member_of ty)) :=
  if isset && negb der then sort_members_ber fuel root else Ok root.

(* ---------------------------------------------------------------- *)
(** ** Encoder *)

Definition enc_string_like (tagb : list Z) (content : result (list Z)) : result (list Z) :=
  let* c := content in Ok (tlv tagb c).

(** MembersType.encode_member; [Some []] when nothing is emitted, [None] when a
    member that is neither OPTIONAL nor DEFAULT is missing from the value (the
    EncodeError raised here carries no location) *)
Definition enc_member_opt (fuel : nat) (encf : ty -> value -> result (list Z))
           (fields : list (string * value)) (m : member_of ty) : result (option (list Z)) :=
  match lookup (m_name m) fields with
  | Some v =>
    match m_opt m with
    | Default d => let* isd := is_default fuel (m_ty m) v d in
                   if isd then Ok (Some []) else let* bs := encf (m_ty m) v in Ok (Some bs)
    | _ => let* bs := encf (m_ty m) v in Ok (Some bs)
    end
  | None =>
    match m_opt m with
    | Mandatory => Ok None
    | _ => Ok (Some [])
    end
  end.

Definition enc_member (fuel : nat) (encf : ty -> value -> result (list Z))
           (fields : list (string * value)) (m : member_of ty) : result (list Z) :=
  match enc_member_opt fuel encf fields m with
  | Ok (Some bs) => Ok bs
  | Ok None => Err EEncode
  | Err x => Err x
  end.

(** the members of one addition (member or group), in order; [None] as soon as
    a member is missing *)
Fixpoint enc_addition (encm : member_of ty -> result (option (list Z))) (ms : list (member_of ty))
  : result (option (list (list Z))) :=
  match ms with
  | [] => Ok (Some [])
  | m :: r =>
    let* o := encm m in
    match o with
    | None => Ok None
    | Some bs =>
      let* rest := enc_addition encm r in
      match rest with
      | None => Ok None
      | Some l => Ok (Some (bs :: l))
      end
    end
  end.

(** MembersType.encode_additions: one addition at a time; a missing member
    (EncodeError without location) drops that addition and all later ones; an
    error raised inside a present member has a location and is re-raised *)
Fixpoint enc_additions (encm : member_of ty -> result (option (list Z))) (adds : list (addition_of ty))
  : result (list (list Z)) :=
  match adds with
  | [] => Ok []
  | a :: r =>
    let* one := enc_addition encm (snd a) in
    match one with
    | None => Ok []
    | Some l => let* more := enc_additions encm r in Ok (l ++ more)
    end
  end.

Fixpoint enc (fuel : nat) (ovr : ovr_t) (t : ty) (v : value) {struct fuel} : result (list Z) :=
  match fuel with
  | O => Err EFuel
  | S f =>
    match t with
    | TTag tg t' =>
      let cn := eff ovr (t_class tg) (t_num tg) in
      if t_explicit tg then
        let* inner := enc f None t' v in Ok (tlv (tag_octets cn true) inner)
      else enc f (Some cn) t' v
    | TRef n => match lookup n e with Some t' => enc f ovr t' v | None => Err EUnmodelled end
    | TBool =>
      match v with
      | VBool b => Ok (tlv (mk_tag ovr 1 false) [if b then 255 else 0])
      | _ => Err EEncode
      end
    | TNull =>
      match v with
      | VNone => Ok (mk_tag ovr 5 false ++ [0])
      | _ => Err EEncode
      end
    | TInt _ =>
      match v with
      | VInt z => Ok (tlv (mk_tag ovr 2 false) (encode_signed_integer z))
      | _ => Err EEncode
      end
    | TEnum root ext =>
      let items := enum_items root ext in
      match v with
      | VInt z =>
        if numeric then
          match enum_name_of z items with
          | Some _ => Ok (tlv (mk_tag ovr 10 false) (encode_signed_integer z))
          | None => Err EEncode
          end
        else Err EEncode
      | VEnum nm =>
        if numeric then Err EEncode
        else match enum_value_of nm items with
             | Some z => Ok (tlv (mk_tag ovr 10 false) (encode_signed_integer z))
             | None => Err EEncode
             end
      | _ => Err EEncode
      end
    | TBits named _ =>
      match v with
      | VBits bs n =>
        let* (bs', n') :=
           (if der then match named with
                        | Some _ => clean_bits true bs n
                        | None => Ok (bs, n)
                        end
            else Ok (bs, n)) in
        enc_string_like (mk_tag ovr 3 false) (bits_content bs' n')
      | _ => Err EEncode
      end
    | TOctets _ =>
      match v with
      | VBytes bs => Ok (tlv (mk_tag ovr 4 false) bs)
      | _ => Err EEncode
      end
    | TStr k _ _ =>
      match v with
      | VStr cps => enc_string_like (mk_tag ovr (str_univ_tag k) false) (str_encode k cps)
      | _ => Err EEncode
      end
    | TOid =>
      match v with
      | VOid arcs => enc_string_like (mk_tag ovr 6 false) (encode_oid arcs)
      | _ => Err EEncode
      end
    | TSeq isset root ext =>
      match v with
      | VSeq fields =>
        let* root' := compiled_root f isset root in
        let encm := enc_member f (fun t' v' => enc f None t' v') fields in
        let* r := mapM encm root' in
        let* a := match ext with
                  | Some adds => enc_additions (enc_member_opt f (fun t' v' => enc f None t' v') fields) adds
                  | None => Ok []
                  end in
        let parts := r ++ a in
        let parts := if der && isset
                     then isort (fun x y => key_leb (tag_sort_key x) (tag_sort_key y))
                                (filter (fun p => match p with [] => false | _ => true end) parts)
                     else parts in
        Ok (tlv (mk_tag ovr (if isset then 17 else 16) true) (concat parts))
      | _ => Err EEncode
      end
    | TSeqOf isset el _ =>
      match v with
      | VList vs =>
        let* parts := mapM (enc f None el) vs in
        let parts := if der && isset then isort bytes_leb parts else parts in
        Ok (tlv (mk_tag ovr (if isset then 17 else 16) true) (concat parts))
      | _ => Err EEncode
      end
    | TChoice root ext =>
      match ovr with
      | Some _ => Err EUnmodelled
      | None =>
        match v with
        | VChoice nm v' =>
          match find_member nm (choice_members root ext) with
          | Some m => enc f None (m_ty m) v'
          | None => Err EEncode
          end
        | VUnknownChoice => Err EEncode
        | _ => Err EEncode
        end
      end
    end
  end.

(* ---------------------------------------------------------------- *)
(** ** Decoder *)

(** bytes.startswith: [a] is a prefix of [b] *)
Fixpoint is_prefix (a b : list Z) : bool :=
  match a, b with
  | [], _ => true
  | x :: a', y :: b' => (x =? y) && is_prefix a' b'
  | _ :: _, [] => false
  end.

(** the tag comparison of StandardDecodeMixin.decode: "out of data" only when
    the data ends within the expected tag (repaired; originally whenever fewer
    octets than the expected tag has were left) *)
Definition match_tag (tagb data : list Z) (off : nat) : result bool :=
  let td := slice data off (off + length tagb) in
  if zlist_eqb td tagb then Ok true
  else if negb (length td =? length tagb)%nat && is_prefix td tagb then Err EOutOfData
  else Ok false.

(** ber.detect_end_of_contents_tag *)
Definition detect_eoc (data : list Z) (off : nat) : result bool :=
  let two := slice data off (off + 2) in
  if zlist_eqb two [0; 0] then Ok true
  else if negb (length two =? 2)%nat then Err EOutOfData
  else Ok false.

(** ber.is_end_of_data *)
Definition is_end_of_data (data : list Z) (off : nat) (endo : option nat) : result (bool * nat) :=
  match endo with
  | Some en => Ok ((en <=? off)%nat, off)
  | None => let* b := detect_eoc data off in Ok (b, if b then (off + 2)%nat else off)
  end.

Definition end_of (off : nat) (len : option Z) : option nat :=
  match len with Some l => Some (off + Z.to_nat l)%nat | None => None end.

(** [offset + length] where [length] may be None: TypeError *)
Definition with_len {A} (len : option Z) (k : nat -> result A) : result A :=
  match len with Some l => k (Z.to_nat l) | None => Err (EForeign "TypeError") end.

(** StandardDecodeMixin.decode *)
Definition std_decode (tagb : list Z) (indef : bool) (data : list Z) (off : nat)
           (content : nat -> option Z -> result (value * nat)) : result (dres * nat) :=
  let* m := match_tag tagb data off in
  if negb m then Ok (DMis, off)
  else
    let* (len, off') := decode_length data (off + length tagb) (negb indef) in
    let* (v, en) := content off' len in
    Ok (DVal v, en).

Definition dec_bool (data : list Z) (off : nat) (len : option Z) : result (value * nat) :=
  match len with
  | Some 1 =>
    match nth_error data off with
    | Some b => Ok (VBool (negb (b =? 0)), (off + 1)%nat)
    | None => Err (EForeign "IndexError")
    end
  | _ => Err EDecode
  end.

Definition dec_int (data : list Z) (off : nat) (len : option Z) : result (value * nat) :=
  with_len len (fun l => Ok (VInt (signed_of_bytes (slice data off (off + l))), (off + l)%nat)).

Definition dec_enum (items : list (string * Z)) (has_ext : bool)
           (data : list Z) (off : nat) (len : option Z) : result (value * nat) :=
  with_len len (fun l =>
    let z := signed_of_bytes (slice data off (off + l)) in
    match enum_name_of z items with
    | Some nm => Ok (if numeric then VInt z else VEnum nm, (off + l)%nat)
    | None => if has_ext then Ok (VNone, (off + l)%nat) else Err EDecode
    end).

Definition dec_oid (data : list Z) (off : nat) (len : option Z) : result (value * nat) :=
  with_len len (fun l => let* arcs := decode_oid data off (off + l) in Ok (VOid arcs, (off + l)%nat)).

(** BitString primitive contents (identical arithmetic in ber.py and der.py) *)
Definition dec_bits_prim (data : list Z) (off l : nat) : result value :=
  match nth_error data off with
  | None => Err (EForeign "IndexError")
  | Some u => Ok (VBits (slice data (off + 1) (off + l)) (8 * (Z.of_nat l - 1) - u))
  end.

Definition dec_str_prim (k : strkind) (bs : list Z) : result value :=
  let* s := str_decode k bs in Ok (VStr s).

(** what the three kinds of primitive-or-constructed types do with the
    contents octets / the list of decoded segments *)
Inductive pc_kind : Type := PcBits | PcOctets | PcStr (k : strkind).

Definition pc_primitive (pk : pc_kind) (data : list Z) (off l : nat) : result value :=
  match pk with
  | PcBits => dec_bits_prim data off l
  | PcOctets => Ok (VBytes (slice data off (off + l)))
  | PcStr k => dec_str_prim k (slice data off (off + l))
  end.

(** segments of a constructed string are decoded by [self.segment]: a BIT
    STRING object for bit strings, an OCTET STRING object otherwise, both with
    their universal tag *)
Definition pc_segment_is_bits (pk : pc_kind) : bool := match pk with PcBits => true | _ => false end.

Definition join_segments (pk : pc_kind) (segs : list value) : result value :=
  match pk with
  | PcBits =>
    let* parts := mapM (fun s => match s with VBits b n => Ok (b, n) | _ => Err EUnmodelled end) segs in
    Ok (VBits (concat (map fst parts)) (fold_left Z.add (map snd parts) 0))
  | PcOctets =>
    let* parts := mapM (fun s => match s with VBytes b => Ok b | _ => Err EUnmodelled end) segs in
    Ok (VBytes (concat parts))
  | PcStr k =>
    let* parts := mapM (fun s => match s with VBytes b => Ok b | _ => Err EUnmodelled end) segs in
    dec_str_prim k (concat parts)
  end.

(** the [while True] loop of decode_constructed_contents; [decseg] decodes one
    segment, [loop] bounds the number of segments (each consumes at least two
    octets) *)
Fixpoint seg_loop (decseg : nat -> result (dres * nat)) (data : list Z) (endo : option nat)
         (loop : nat) (o : nat) : result (list value * nat) :=
  match loop with
  | O => Err EFuel
  | S lp =>
    let* (fin, o1) := is_end_of_data data o endo in
    if fin then Ok ([], o1)
    else
      let* (d, o2) := decseg o1 in
      match d with
      | DMis => Err EDecode
      | DVal sv => let* (rest, o3) := seg_loop decseg data endo lp o2 in Ok (sv :: rest, o3)
      end
  end.

(** PrimitiveOrConstructedType.decode / decode_constructed_contents.
    [seg_fuel] bounds the nesting of constructed segments. *)
Fixpoint pc_decode (seg_fuel : nat) (pk : pc_kind) (tagb : list Z) (data : list Z) (off : nat)
  : result (dres * nat) :=
  match seg_fuel with
  | O => Err EFuel
  | S sf =>
    let td := slice data off (off + length tagb) in
    let go (prim : bool) :=
      let* (len, off') := decode_length data (off + length tagb) false in
      if prim then
        with_len len (fun l => let* v := pc_primitive pk data off' l in Ok (DVal v, (off' + l)%nat))
      else
        let endo := end_of off' len in
        let segk := if pc_segment_is_bits pk then PcBits else PcOctets in
        let segtag := mk_tag None (if pc_segment_is_bits pk then 3 else 4) false in
        let* (svs, en) := seg_loop (pc_decode sf segk segtag data) data endo (S (length data)) off' in
        let* v := join_segments pk svs in
        Ok (DVal v, en) in
    if zlist_eqb td tagb then go true
    else if zlist_eqb td (set_constructed tagb) then go false
    else if negb (length td =? length tagb)%nat && (is_prefix td tagb || is_prefix td (set_constructed tagb))
    then Err EOutOfData
    else Ok (DMis, off)
  end.

(** DER string-like types: StandardDecodeMixin with definite lengths *)
Definition der_prim_decode (pk : pc_kind) (tagb : list Z) (data : list Z) (off : nat)
  : result (dres * nat) :=
  std_decode tagb false data off (fun off' len =>
    with_len len (fun l => let* v := pc_primitive pk data off' l in Ok (v, (off' + l)%nat))).

Definition string_decode (pk : pc_kind) (tagb : list Z) (data : list Z) (off : nat)
  : result (dres * nat) :=
  if der then der_prim_decode pk tagb data off
  else pc_decode (S (length data)) pk tagb data off.

(** one pass of the inner [for member in remaining_members] loop of
    MembersType.decode_members: new offset, out_of_data, the values decoded in
    this pass, the undecoded members, decode_success *)
Fixpoint members_pass (decm : member_of ty -> nat -> result (dres * nat))
         (data : list Z) (endo : option nat) (ms : list (member_of ty)) (off : nat) (out : bool)
  : result (nat * bool * list (string * value) * list (member_of ty) * bool) :=
  match ms with
  | [] => Ok (off, out, [], [], false)
  | m :: r =>
    if out then Ok (off, true, [], ms, false)
    else
      let* (d, off1) := decm m off in
      let* (out1, off2) := is_end_of_data data off1 endo in
      let* (off', out', vs, un, s) := members_pass decm data endo r off2 out1 in
      match d with
      | DMis => Ok (off', out', vs, m :: un, s)
      | DVal v => Ok (off', out', (m_name m, v) :: vs, un, true)
      end
  end.

(** values[name] = value for the values of one pass, in order *)
Definition add_values (vals news : list (string * value)) : list (string * value) :=
  fold_left (fun acc nv => nv :: acc) news vals.

(** the outer [while True] loop; at most one pass per member plus one *)
Fixpoint members_loop (n : nat) (decm : member_of ty -> nat -> result (dres * nat))
         (data : list Z) (endo : option nat) (remaining : list (member_of ty))
         (off : nat) (out : bool) (vals : list (string * value))
  : result (nat * bool * list (string * value) * list (member_of ty)) :=
  match n with
  | O => Err EFuel
  | S k =>
    let* (out0, off0) := if out then Ok (true, off) else is_end_of_data data off endo in
    let* (off', out', vs, un, s) := members_pass decm data endo remaining off0 out0 in
    let vals' := add_values vals vs in
    if out' then Ok (off', out', vals', un)
    else if negb s then Ok (off', out', vals', un)
    else members_loop k decm data endo un off' out' vals'
  end.

(** the trailing [for member in remaining_members] of decode_members *)
Fixpoint members_missing (ms : list (member_of ty)) (ignore_missing out : bool)
         (vals : list (string * value)) : result (list (string * value)) :=
  match ms with
  | [] => Ok vals
  | m :: r =>
    match m_opt m with
    | Optional => members_missing r ignore_missing out vals
    | Default d => members_missing r ignore_missing out ((m_name m, d) :: vals)
    | Mandatory => if ignore_missing then Ok vals else Err EDecode
    end
  end.

Definition decode_members (decm : member_of ty -> nat -> result (dres * nat))
           (data : list Z) (endo : option nat) (ms : list (member_of ty)) (ignore_missing : bool)
           (off : nat) (out : bool) (vals : list (string * value))
  : result (nat * bool * list (string * value)) :=
  let* (off', out', vals', un) := members_loop (S (length ms)) decm data endo ms off out vals in
  let* vals'' := members_missing un ignore_missing out' vals' in
  Ok (off', out', vals'').

(** ArrayType.decode_content, ber.py (definite or indefinite) and der.py *)
Fixpoint array_loop (loop : nat) (dece : nat -> result (dres * nat)) (data : list Z)
         (start : nat) (len : option Z) (off : nat) : result (list value * nat) :=
  match loop with
  | O => Err EFuel
  | S lp =>
    let* fin :=
       match len with
       | None => if der then Err (EForeign "TypeError") else detect_eoc data off
       | Some l => Ok (l <=? Z.of_nat off - Z.of_nat start)
       end in
    if fin then Ok ([], match len with None => (off + 2)%nat | Some _ => off end)
    else
      let* (d, off1) := dece off in
      match d with
      | DMis => Err EDecode
      | DVal v => let* (rest, en) := array_loop lp dece data start len off1 in Ok (v :: rest, en)
      end
  end.

Fixpoint find_alt (tags_of : ty -> result (list (list Z))) (tag : list Z)
         (ms : list (member_of ty)) : result (option (member_of ty)) :=
  match ms with
  | [] => Ok None
  | m :: r =>
    let* later := find_alt tags_of tag r in     (* the last member registered for a tag wins *)
    match later with
    | Some m' => Ok (Some m')
    | None => let* ts := tags_of (m_ty m) in
              Ok (if existsb (zlist_eqb tag) ts then Some m else None)
    end
  end.

Fixpoint dec (fuel : nat) (ovr : ovr_t) (t : ty) (data : list Z) (off : nat) {struct fuel}
  : result (dres * nat) :=
  match fuel with
  | O => Err EFuel
  | S f =>
    match t with
    | TTag tg t' =>
      let cn := eff ovr (t_class tg) (t_num tg) in
      if t_explicit tg then
        std_decode (tag_octets cn true) true data off (fun off' len =>
          let* (d, en) := dec f None t' data off' in
          match d with
          | DMis => Err EDecode
          | DVal v =>
            match len with
            | Some _ => Ok (v, en)
            | None => let* b := detect_eoc data en in
                      if b then Ok (v, (en + 2)%nat) else Err EDecode
            end
          end)
      else dec f (Some cn) t' data off
    | TRef n => match lookup n e with Some t' => dec f ovr t' data off | None => Err EUnmodelled end
    | TBool => std_decode (mk_tag ovr 1 false) false data off (dec_bool data)
    | TNull => std_decode (mk_tag ovr 5 false) false data off (fun off' _ => Ok (VNone, off'))
    | TInt _ => std_decode (mk_tag ovr 2 false) false data off (dec_int data)
    | TEnum root ext =>
      std_decode (mk_tag ovr 10 false) false data off
                 (dec_enum (enum_items root ext) (match ext with Some _ => true | None => false end) data)
    | TOid => std_decode (mk_tag ovr 6 false) false data off (dec_oid data)
    | TBits _ _ => string_decode PcBits (mk_tag ovr 3 false) data off
    | TOctets _ => string_decode PcOctets (mk_tag ovr 4 false) data off
    | TStr k _ _ => string_decode (PcStr k) (mk_tag ovr (str_univ_tag k) false) data off
    | TSeq isset root ext =>
      std_decode (mk_tag ovr (if isset then 17 else 16) true) true data off (fun off' len =>
        let* root' := compiled_root f isset root in
        let endo := end_of off' len in
        let decm := fun m o => dec f None (m_ty m) data o in
        let* (off2, out2, vals2) :=
           if isset then
             (* Set.decode_root_and_additions: one loop over root members and additions *)
             let adds := additions_flat ext in
             let is_add := fun m => existsb (fun a => String.eqb (m_name m) (m_name a)) adds in
             let* (off1, out1, vals1, un) :=
                members_loop (S (length (root' ++ adds))) decm data endo (root' ++ adds) off' false [] in
             let* vals1' := members_missing (filter (fun m => negb (is_add m)) un) false out1 vals1 in
             let* vals1'' := members_missing (filter is_add un) true out1 vals1' in
             Ok (off1, out1, vals1'')
           else
             let* (off1, out1, vals1) := decode_members decm data endo root' false off' false [] in
             match additions_flat ext with
             | [] => Ok (off1, out1, vals1)
             | adds => decode_members decm data endo adds true off1 out1 vals1
             end in
        let v := VSeq (canon_fields (members_of root ext) vals2) in
        if out2 then Ok (v, off2)
        else match endo with
             | None => Err EDecode
             | Some en => Ok (v, en)
             end)
    | TSeqOf isset el _ =>
      std_decode (mk_tag ovr (if isset then 17 else 16) true) (negb der) data off (fun off' len =>
        let* (vs, en) := array_loop (S (length data)) (fun o => dec f None el data o) data off' len off' in
        Ok (VList vs, en))
    | TChoice root ext =>
      match ovr with
      | Some _ => Err EUnmodelled
      | None =>
        let* tend := skip_tag data off in
        let tag := slice data off tend in
        let* found := find_alt (alt_tags f None) tag (choice_members root ext) in
        match found with
        | Some m =>
          let* (d, en) := dec f None (m_ty m) data off in
          match d with
          | DMis => Err EUnmodelled
          | DVal v => Ok (DVal (VChoice (m_name m) v), en)
          end
        | None =>
          match ext with
          | Some _ =>
            let* en := skip_tag_length_contents data off in
            Ok (DVal VUnknownChoice, Z.to_nat en)
          | None => Ok (DMis, off)
          end
        end
      end
    end
  end.

(** CompiledType.encode / decode_with_length *)
Definition encode_top (fuel : nat) (t : ty) (v : value) : result (list Z) := enc fuel None t v.

Definition decode_top (fuel : nat) (t : ty) (data : list Z) : result (value * nat) :=
  let* (d, en) := dec fuel None t data 0 in
  match d with
  | DMis => Err EDecode
  | DVal v => Ok (v, en)
  end.

End Codec.
