(** C04: the BER decoder model accepts every BER encoding in the sense of
    X690.ber_sem (any definite length form, indefinite lengths on constructed
    encodings, ...) and returns the value it denotes.

    Structure: (0) list/slice facts, (1) the header of an encoding at an offset
    (tag comparison, length octets, end-of-contents detection), (2) a component
    tried against another component's encoding reports a mismatch, (3) the
    tree-level description of the member loops, (4) the acceptance induction. *)
From Asn1V Require Import Base.Prelude Syntax.Asn1 Ber.Header Ber.HeaderProofs Ber.BerCommon Ber.X690 Ber.BerScope
     Ber.BerLeafA Ber.BerLeafB.

Local Notation tlvb := BerCommon.tlv.

(* ------------------------------------------------------------------ *)
(** * 0. lists, slices *)

Lemma zlist_eqb_eq a b : zlist_eqb a b = true <-> a = b.
Proof.
  revert b. induction a as [|x a IH]; destruct b as [|y b]; cbn [zlist_eqb]; split; try congruence; try discriminate.
  - intros H. apply andb_prop in H. destruct H as [H1 H2]. apply IH in H2. f_equal; [lia|exact H2].
  - intros H. injection H as -> ->. rewrite Z.eqb_refl. cbn. apply IH. reflexivity.
Qed.

Lemma zlist_eqb_refl a : zlist_eqb a a = true.
Proof. apply zlist_eqb_eq. reflexivity. Qed.

Lemma zlist_eqb_neq a b : a <> b -> zlist_eqb a b = false.
Proof. intros H. destruct (zlist_eqb a b) eqn:E; [|reflexivity]. apply zlist_eqb_eq in E. contradiction. Qed.

Lemma skipn_app_exact {A} (p l : list A) : skipn (length p) (p ++ l) = l.
Proof. rewrite skipn_app, skipn_all, Nat.sub_diag. reflexivity. Qed.

Lemma slice_at {A} (p a r : list A) : slice (p ++ a ++ r) (length p) (length p + length a) = a.
Proof.
  unfold slice. rewrite skipn_app_exact. replace (length p + length a - length p)%nat with (length a) by lia.
  rewrite firstn_app, firstn_all, Nat.sub_diag. cbn. apply app_nil_r.
Qed.

Lemma slice_at_short {A} (p l : list A) n : slice (p ++ l) (length p) (length p + n) = firstn n l.
Proof. unfold slice. rewrite skipn_app_exact. f_equal. lia. Qed.

Lemma nth_error_at {A} (p : list A) x r : nth_error (p ++ x :: r) (length p) = Some x.
Proof. rewrite nth_error_app2 by lia. rewrite Nat.sub_diag. reflexivity. Qed.

Lemma is_prefix_spec a b : is_prefix a b = true <-> exists r, b = a ++ r.
Proof.
  revert b. induction a as [|x a IH]; intros b; cbn [is_prefix].
  - split; [intros _; exists b; reflexivity | reflexivity].
  - destruct b as [|y b].
    + split; [discriminate | intros (r & H); discriminate].
    + split.
      * intros H. apply andb_prop in H. destruct H as [H1 H2]. apply IH in H2. destruct H2 as (r & ->).
        exists r. cbn. f_equal. lia.
      * intros (r & H). cbn in H. injection H as -> ->. rewrite Z.eqb_refl. cbn. apply IH. eexists; reflexivity.
Qed.

(* ------------------------------------------------------------------ *)
(** * 1. headers *)

Lemma match_tag_same tagb p r : match_tag tagb (p ++ tagb ++ r) (length p) = Ok true.
Proof. unfold match_tag. rewrite slice_at, zlist_eqb_refl. reflexivity. Qed.

(** the identifier octets of another tag never compare equal, and the data
    never "ends within the expected tag" (identifier octets are prefix-free) *)
Lemma tag_cmp_other c k n c' k' n' p r :
  0 <= n -> 0 <= n' -> (c, n) <> (c', n') ->
  let td := slice (p ++ identifier c' k' n' ++ r) (length p) (length p + length (identifier c k n)) in
  zlist_eqb td (identifier c k n) = false /\
  (negb (length td =? length (identifier c k n))%nat && is_prefix td (identifier c k n)) = false.
Proof.
  intros Hn Hn' Hne. cbv zeta. rewrite slice_at_short.
  set (l := identifier c' k' n' ++ r). set (tg := identifier c k n).
  split.
  - destruct (zlist_eqb (firstn (length tg) l) tg) eqn:E; [|reflexivity].
    apply zlist_eqb_eq in E. exfalso.
    assert (H : l = tg ++ skipn (length tg) l) by (rewrite <- E at 1; symmetry; apply firstn_skipn).
    unfold l, tg in H. symmetry in H. apply identifier_prefix_free in H; try assumption.
    destruct H as (-> & _ & ->). apply Hne. reflexivity.
  - destruct (negb (length (firstn (length tg) l) =? length tg)%nat && is_prefix (firstn (length tg) l) tg) eqn:E2;
      [|reflexivity].
    exfalso. apply andb_prop in E2. destruct E2 as [E2 E3].
    apply is_prefix_spec in E3. destruct E3 as (q & Hq).
    assert (Hl : firstn (length tg) l = l).
    { apply firstn_all2. rewrite firstn_length in E2. lia. }
    rewrite Hl in Hq. unfold l, tg in Hq.
    assert (H : identifier c k n ++ [] = identifier c' k' n' ++ (r ++ q)) by (rewrite app_nil_r, app_assoc; exact Hq).
    apply identifier_prefix_free in H; try assumption.
    destruct H as (-> & _ & ->). apply Hne. reflexivity.
Qed.

Lemma match_tag_other c k n c' k' n' p r :
  0 <= n -> 0 <= n' -> (c, n) <> (c', n') ->
  match_tag (identifier c k n) (p ++ identifier c' k' n' ++ r) (length p) = Ok false.
Proof.
  intros Hn Hn' Hne. unfold match_tag.
  destruct (tag_cmp_other c k n c' k' n' p r Hn Hn' Hne) as [H1 H2]. cbv zeta in H1, H2.
  rewrite H1, H2. reflexivity.
Qed.

Lemma identifier_length_kind c n : length (identifier c true n) = length (identifier c false n).
Proof. unfold identifier. destruct (n <? 31); reflexivity. Qed.

(** tags as the decoder sees them *)
Definition tag_of_ovr (ovr : ovr_t) (u : Z) : tclass * Z := eff ovr Univ u.

Lemma mk_tag_identifier ovr u k :
  0 <= snd (eff ovr Univ u) -> mk_tag ovr u k = identifier (fst (eff ovr Univ u)) k (snd (eff ovr Univ u)).
Proof.
  intros H. unfold mk_tag. destruct (eff ovr Univ u) as [c n]. cbn [fst snd] in *. apply tag_octets_identifier. exact H.
Qed.

(** end-of-contents detection *)
Lemma detect_eoc_at_child p c k n r :
  0 <= n -> (c, n) <> (Univ, 0) -> r <> [] ->
  detect_eoc (p ++ identifier c k n ++ r) (length p) = Ok false.
Proof.
  intros Hn Hne Hr. unfold detect_eoc. rewrite slice_at_short.
  destruct (identifier c k n) as [|b i] eqn:Ei.
  { pose proof (identifier_wf_tag c k n Hn) as W. rewrite Ei in W. inversion W. }
  assert (Hb : b <> 0).
  { intros ->. destruct (identifier_first_zero c k n 0 i Hn Ei) as [H _].
    destruct (H eq_refl) as (-> & _ & ->). apply Hne. reflexivity. }
  destruct (i ++ r) as [|y w] eqn:Eir.
  { destruct i; [cbn in Eir; contradiction | discriminate]. }
  cbn [app]. rewrite Eir. cbn [firstn zlist_eqb length].
  assert (b =? 0 = false) by lia. rewrite H. cbn. reflexivity.
Qed.

Lemma detect_eoc_at_end p r : detect_eoc (p ++ 0 :: 0 :: r) (length p) = Ok true.
Proof. unfold detect_eoc. rewrite slice_at_short. reflexivity. Qed.

(** std_decode on the header of a definite-length encoding *)
Lemma std_decode_definite c k n lo body tail p indef
      (K : nat -> option Z -> result (value * nat)) :
  0 <= n -> length_value lo = Some (Z.of_nat (length body)) ->
  std_decode (identifier c k n) indef (p ++ identifier c k n ++ lo ++ body ++ tail) (length p) K =
  (let* (v, en) := K (length p + length (identifier c k n) + length lo)%nat (Some (Z.of_nat (length body))) in
   Ok (DVal v, en)).
Proof.
  intros Hn Hl. unfold std_decode. rewrite match_tag_same. cbn [bind negb].
  replace (p ++ identifier c k n ++ lo ++ body ++ tail) with ((p ++ identifier c k n) ++ lo ++ (body ++ tail))
    by (rewrite <- !app_assoc; reflexivity).
  replace (length p + length (identifier c k n))%nat with (length (p ++ identifier c k n)) by (rewrite app_length; reflexivity).
  rewrite (decode_length_at _ lo _ (body ++ tail) _ Hl) by (rewrite app_length; lia).
  cbn [bind]. reflexivity.
Qed.

Lemma std_decode_indefinite c k n rest p (K : nat -> option Z -> result (value * nat)) :
  std_decode (identifier c k n) true (p ++ identifier c k n ++ 128 :: rest) (length p) K =
  (let* (v, en) := K (S (length p + length (identifier c k n))) None in Ok (DVal v, en)).
Proof.
  unfold std_decode. rewrite match_tag_same. cbn [bind negb].
  replace (p ++ identifier c k n ++ 128 :: rest) with ((p ++ identifier c k n) ++ 128 :: rest)
    by (rewrite <- !app_assoc; reflexivity).
  replace (length p + length (identifier c k n))%nat with (length (p ++ identifier c k n)) by (rewrite app_length; reflexivity).
  rewrite decode_length_indefinite. cbn [bind]. reflexivity.
Qed.

Lemma std_decode_other c k n c' k' n' r p indef (K : nat -> option Z -> result (value * nat)) :
  0 <= n -> 0 <= n' -> (c, n) <> (c', n') ->
  std_decode (identifier c k n) indef (p ++ identifier c' k' n' ++ r) (length p) K = Ok (DMis, length p).
Proof. intros. unfold std_decode. rewrite match_tag_other by assumption. reflexivity. Qed.

(* ------------------------------------------------------------------ *)
(** * BER trees: shape and well-formedness *)

Definition bcons (x : btlv) : bool := match x with BPrim _ _ _ _ => false | BCons _ _ _ _ => true end.

Definition after_id (x : btlv) : list Z :=
  match x with
  | BPrim _ _ lo content => lo ++ content
  | BCons _ _ (LDef lo) ch => lo ++ concat (map bser ch)
  | BCons _ _ LIndef ch => 128 :: concat (map bser ch) ++ [0; 0]
  end.

Lemma bser_shape x : bser x = identifier (fst (btag x)) (bcons x) (snd (btag x)) ++ after_id x.
Proof. destruct x as [c n lo content | c n [lo|] ch]; reflexivity. Qed.

Lemma bwf_tag x : bwf x = true -> 0 <= snd (btag x) /\ btag x <> (Univ, 0).
Proof.
  intros H. assert (H' : (0 <=? snd (btag x)) && negb (tag_eqb (btag x) (Univ, 0)) = true).
  { destruct x; cbn [bwf btag snd] in *; repeat (apply andb_prop in H; destruct H as [H ?]);
      apply andb_true_intro; split; assumption. }
  apply andb_prop in H'. destruct H' as [H1 H2]. split; [lia|].
  intros E. rewrite E in H2. cbn in H2. discriminate.
Qed.

Lemma length_value_nonempty lo n : length_value lo = Some n -> lo <> [].
Proof. destruct lo; [discriminate|congruence]. Qed.

Lemma after_id_nonempty x : bwf x = true -> after_id x <> [].
Proof.
  destruct x as [c n lo content | c n [lo|] ch]; cbn [after_id bwf]; intros H; try discriminate.
  - apply andb_prop in H. destruct H as [_ H]. destruct (length_value lo) eqn:E; [|discriminate].
    apply length_value_nonempty in E. destruct lo; [contradiction|discriminate].
  - apply andb_prop in H. destruct H as [_ H]. destruct (length_value lo) eqn:E; [|discriminate].
    apply length_value_nonempty in E. destruct lo; [contradiction|discriminate].
Qed.

(** skip_tag / read_tag at an offset *)
Lemma skip_high_shift d k n : skip_high d (k + n) = match skip_high d n with Ok m => Ok (k + m)%nat | Err x => Err x end.
Proof.
  revert n. induction d as [|b d IH]; intros n; cbn [skip_high]; [reflexivity|].
  destruct (Z.land b 128 =? 0); [f_equal; lia|].
  replace (S (k + n)) with (k + S n)%nat by lia. apply IH.
Qed.

Lemma skip_tag_shift p l :
  skip_tag (p ++ l) (length p) = match skip_tag l 0 with Ok m => Ok (length p + m)%nat | Err x => Err x end.
Proof.
  unfold skip_tag. rewrite skipn_app_exact. cbn [skipn].
  destruct l as [|b d]; [reflexivity|].
  destruct (Z.land b 31 =? 31).
  - replace (S (length p)) with (length p + 1)%nat by lia. rewrite skip_high_shift.
    destruct (skip_high d 1) as [m|x]; cbn [bind]; [|reflexivity].
    rewrite app_length. destruct (length (b :: d) <=? m)%nat eqn:E1;
      destruct (length p + length (b :: d) <=? length p + m)%nat eqn:E2; try reflexivity; lia.
  - cbn [bind]. rewrite app_length.
    destruct (length (b :: d) <=? 1)%nat eqn:E1;
      destruct (length p + length (b :: d) <=? S (length p))%nat eqn:E2; try lia; try reflexivity.
    f_equal. lia.
Qed.

Lemma skip_tag_at p c k n r :
  0 <= n -> r <> [] ->
  skip_tag (p ++ identifier c k n ++ r) (length p) = Ok (length p + length (identifier c k n))%nat.
Proof.
  intros Hn Hr. rewrite skip_tag_shift. rewrite skip_tag_full by (try assumption; apply identifier_wf_tag; exact Hn).
  reflexivity.
Qed.

(* ------------------------------------------------------------------ *)
(** * 2. a type tried against an encoding with a foreign tag *)

Definition is_ok {A} (r : result A) : bool := match r with Ok _ => true | Err _ => false end.

Lemma mapM_ok {A B} (g : A -> result B) l rs : mapM g l = Ok rs -> Forall2 (fun a r => g a = Ok r) l rs.
Proof.
  revert rs. induction l as [|a l IH]; intros rs H; cbn [mapM] in H.
  - injection H as <-. constructor.
  - destruct (g a) as [r|] eqn:E; [|discriminate]. cbn [bind] in H.
    destruct (mapM g l) as [rr|]; [|discriminate]. cbn [bind] in H. injection H as <-.
    constructor; [exact E | apply IH; reflexivity].
Qed.

Section Accept.
Variable numeric : bool.
Variable e : env.

Local Notation decb := (dec false numeric e).
Local Notation alt := (alt_tags false e).

(** the library compiles the type: the tag tables of every reachable CHOICE
    can be built and BER's compile-time ordering of SET components succeeds *)
Fixpoint compiles (fuel : nat) (t : ty) : bool :=
  match fuel with
  | O => true
  | S f =>
    match t with
    | TRef n => match lookup n e with Some t' => compiles f t' | None => false end
    | TTag _ t' => compiles f t'
    | TSeq isset root ext =>
      forallb (fun m => compiles f (m_ty m) && is_ok (alt f None (m_ty m))) (root ++ flat_additions ext) &&
      (if isset then is_ok (sort_members_ber e f root) else true)
    | TSeqOf _ el _ => compiles f el
    | TChoice root ext =>
      forallb (fun m => compiles f (m_ty m) && is_ok (alt f None (m_ty m))) (alternatives root ext)
    | TStr k _ _ => match string_tag k with Some _ => true | None => false end
    | _ => true
    end
  end.

(** the tags the decoder accepts for (override, type) *)
Definition dtags (f : nat) (ovr : ovr_t) (t : ty) : list (tclass * Z) :=
  match ovr with Some cn => [cn] | None => outer_tags e f t end.

Definition ovr_ok (ovr : ovr_t) : Prop := match ovr with None => True | Some (_, n) => 0 <= n end.

Definition tag_in (tg : tclass * Z) (l : list (tclass * Z)) : bool := existsb (tag_eqb tg) l.

Lemma tag_eqb_eq a b : tag_eqb a b = true <-> a = b.
Proof.
  destruct a as [c n], b as [c' n']. unfold tag_eqb, tclass_eqb. cbn [fst snd].
  split.
  - intros H. apply andb_prop in H. destruct H as [H1 H2].
    assert (n = n') by lia. subst. f_equal. destruct c, c'; cbn in H1; try reflexivity; discriminate.
  - intros H. injection H as -> ->. rewrite !Z.eqb_refl. reflexivity.
Qed.

Lemma tag_in_spec tg l : tag_in tg l = true <-> In tg l.
Proof.
  unfold tag_in. rewrite existsb_exists. split.
  - intros (x & Hx & E). apply tag_eqb_eq in E. subst. exact Hx.
  - intros H. exists tg. split; [exact H | apply tag_eqb_eq; reflexivity].
Qed.

Lemma untagged_not_greedy f t : untagged_choice e f t = false -> greedy_choice e f t = false.
Proof.
  revert t. induction f as [|f IH]; intros t; cbn [untagged_choice greedy_choice]; [reflexivity|].
  destruct t; try reflexivity; try discriminate.
  unfold assoc. destruct (lookup name e); [apply IH|reflexivity].
Qed.

Definition tag_entry (l : list (tclass * Z)) (tb : list Z) : Prop :=
  exists c n k, tb = identifier c k n /\ 0 <= n /\ In (c, n) l.

Lemma choice_tags_sound f ms tss :
  (forall t ts, scope_enc numeric e f t = true -> compiles f t = true -> alt f None t = Ok ts ->
                Forall (tag_entry (outer_tags e f t)) ts) ->
  forallb (fun m => scope_enc numeric e f (m_ty m)) ms = true ->
  forallb (fun m => compiles f (m_ty m) && is_ok (alt f None (m_ty m))) ms = true ->
  Forall2 (fun m r => alt f None (m_ty m) = Ok r) ms tss ->
  Forall (tag_entry (concat (map (fun m => outer_tags e f (m_ty m)) ms))) (concat tss).
Proof.
  intros IH Hs Hc H2. induction H2 as [|m r ms tss E _ IHl]; cbn [concat map]; [constructor|].
  cbn [forallb] in Hs, Hc. apply andb_prop in Hs. destruct Hs as [Hs1 Hs2].
  apply andb_prop in Hc. destruct Hc as [Hc1 Hc2]. apply andb_prop in Hc1. destruct Hc1 as [Hc1 _].
  apply Forall_app. split.
  - eapply Forall_impl; [|exact (IH (m_ty m) r Hs1 Hc1 E)]. intros tb (c & n & k & -> & Hn & Hin).
    exists c, n, k. split; [reflexivity|]. split; [exact Hn|]. apply in_or_app. left. exact Hin.
  - eapply Forall_impl; [|exact (IHl Hs2 Hc2)]. intros tb (c & n & k & -> & Hn & Hin).
    exists c, n, k. split; [reflexivity|]. split; [exact Hn|]. apply in_or_app. right. exact Hin.
Qed.

(** every entry of a tag table is the identifier of an accepted tag *)
Lemma alt_tags_sound f : forall ovr t ts,
  scope_enc numeric e f t = true -> compiles f t = true -> ovr_ok ovr ->
  alt f ovr t = Ok ts ->
  Forall (tag_entry (dtags f ovr t)) ts.
Proof.
  unfold tag_entry. induction f as [|f IH]; intros ovr t ts Hs Hc Ho Ha; [discriminate|].
  cbn [alt_tags] in Ha. cbn [scope_enc] in Hs. cbn [compiles] in Hc.
  assert (Hprim : forall u k, 0 <= u ->
            Forall (fun tb => exists c n k, tb = identifier c k n /\ 0 <= n /\
                                            In (c, n) (match ovr with Some cn => [cn] | None => [(Univ, u)] end))
                   [mk_tag ovr u k]).
  { intros u k Hu. constructor; [|constructor].
    assert (H0 : 0 <= snd (eff ovr Univ u)) by (destruct ovr as [[c n]|]; cbn; auto).
    rewrite mk_tag_identifier by exact H0.
    exists (fst (eff ovr Univ u)), (snd (eff ovr Univ u)), k. split; [reflexivity|]. split; [exact H0|].
    destruct ovr as [[c n]|]; cbn; left; reflexivity. }
  assert (Hpc : forall u, 0 <= u ->
            Forall (fun tb => exists c n k, tb = identifier c k n /\ 0 <= n /\
                                            In (c, n) (match ovr with Some cn => [cn] | None => [(Univ, u)] end))
                   [mk_tag ovr u false; set_constructed (mk_tag ovr u false)]).
  { intros u Hu. assert (H0 : 0 <= snd (eff ovr Univ u)) by (destruct ovr as [[c n]|]; cbn; auto).
    constructor; [|constructor; [|constructor]].
    - pose proof (Hprim u false Hu) as H. inversion H; assumption.
    - rewrite mk_tag_identifier by exact H0. rewrite set_constructed_identifier by exact H0.
      exists (fst (eff ovr Univ u)), (snd (eff ovr Univ u)), true. split; [reflexivity|]. split; [exact H0|].
      destruct ovr as [[c n]|]; cbn; left; reflexivity. }
  unfold dtags. cbn [outer_tags].
  destruct t as [ | | c | root ext | named sz | sz | k sz alpha | | isset root ext | isset el sz | root ext | name | tg t'];
    try (injection Ha as <-).
  - apply (Hprim 1 false). lia.
  - apply (Hprim 5 false). lia.
  - apply (Hprim 2 false). lia.
  - apply (Hprim 10 false). lia.
  - apply (Hpc 3). lia.
  - apply (Hpc 4). lia.
  - destruct (string_tag k) as [u|] eqn:Ek; [|discriminate].
    rewrite (str_univ_tag_spec _ _ Ek). apply (Hpc u).
    destruct k; cbn in Ek; try discriminate; injection Ek as <-; lia.
  - apply (Hprim 6 false). lia.
  - destruct isset; [apply (Hprim 17 true)|apply (Hprim 16 true)]; lia.
  - destruct isset; [apply (Hprim 17 true)|apply (Hprim 16 true)]; lia.
  - (* TChoice *)
    destruct ovr as [cn|]; [discriminate|].
    apply andb_prop in Hs. destruct Hs as [_ Hs].
    change (choice_members root ext) with (alternatives root ext) in Ha.
    destruct (mapM (fun m => alt f None (m_ty m)) (alternatives root ext)) as [tss|] eqn:Em; [|discriminate].
    cbn [bind] in Ha. injection Ha as <-.
    apply (choice_tags_sound f (alternatives root ext) tss); try assumption.
    + intros t ts Hst Hct Hat. exact (IH None t ts Hst Hct I Hat).
    + apply mapM_ok. exact Em.
  - (* TRef *)
    unfold assoc. destruct (lookup name e) as [t'|]; [|discriminate].
    pose proof (IH ovr t' ts Hs Hc Ho Ha) as H. destruct ovr; exact H.
  - (* TTag *)
    apply andb_prop in Hs. destruct Hs as [Hs1 Hs3]. apply andb_prop in Hs1. destruct Hs1 as [Hn _].
    assert (Hcn : 0 <= snd (eff ovr (t_class tg) (t_num tg))) by (destruct ovr as [[c n]|]; cbn; [exact Ho|lia]).
    assert (Hd : match ovr with Some cn => [cn] | None => [(t_class tg, t_num tg)] end = [eff ovr (t_class tg) (t_num tg)])
      by (destruct ovr; reflexivity).
    rewrite Hd. destruct (t_explicit tg).
    + injection Ha as <-. constructor; [|constructor].
      destruct (eff ovr (t_class tg) (t_num tg)) as [c n]. cbn [snd] in Hcn.
      exists c, n, true. split; [apply tag_octets_identifier; exact Hcn|]. split; [exact Hcn | left; reflexivity].
    + assert (Ho' : ovr_ok (Some (eff ovr (t_class tg) (t_num tg)))) by (destruct (eff ovr _ _); exact Hcn).
      exact (IH (Some (eff ovr (t_class tg) (t_num tg))) t' ts Hs3 Hc Ho' Ha).
Qed.

Lemma pc_decode_other sf pk c n c' k' n' p r :
  0 <= n -> 0 <= n' -> (c, n) <> (c', n') ->
  pc_decode (S sf) pk (identifier c false n) (p ++ identifier c' k' n' ++ r) (length p) = Ok (DMis, length p).
Proof.
  intros Hn Hn' Hne. cbn [pc_decode]. cbv zeta.
  destruct (tag_cmp_other c false n c' k' n' p r Hn Hn' Hne) as [H1 H2]. cbv zeta in H1, H2.
  destruct (tag_cmp_other c true n c' k' n' p r Hn Hn' Hne) as [H3 H4]. cbv zeta in H3, H4.
  rewrite identifier_length_kind in H3, H4.
  rewrite set_constructed_identifier by exact Hn.
  rewrite H1, H3.
  apply andb_false_iff in H2. apply andb_false_iff in H4.
  destruct (negb (length _ =? length (identifier c false n))%nat) eqn:El; cbn [andb].
  - destruct H2 as [H2|H2]; [discriminate|]. destruct H4 as [H4|H4]; [discriminate|].
    rewrite H2, H4. reflexivity.
  - reflexivity.
Qed.

Lemma find_alt_none f tag ms :
  Forall (fun m => exists ts, alt f None (m_ty m) = Ok ts /\ existsb (zlist_eqb tag) ts = false) ms ->
  find_alt (alt f None) tag ms = Ok None.
Proof.
  induction 1 as [|m ms (ts & E & Hn) _ IH]; cbn [find_alt]; [reflexivity|].
  rewrite IH. cbn [bind]. rewrite E. cbn [bind]. rewrite Hn. reflexivity.
Qed.

(** a type that does not own the tag of an encoding reports TAG_MISMATCH *)
Lemma dec_mismatch : forall f ovr t x p r,
  scope_enc numeric e f t = true -> compiles f t = true -> ovr_ok ovr ->
  (ovr <> None -> untagged_choice e f t = false) ->
  (ovr = None -> greedy_choice e f t = false) ->
  is_ok (alt f ovr t) = true ->
  bwf x = true ->
  tag_in (btag x) (dtags f ovr t) = false ->
  decb f ovr t (p ++ bser x ++ r) (length p) = Ok (DMis, length p).
Proof.
  induction f as [|f IH]; intros ovr t x p r Hs Hc Ho Hu Hg Ha Hw Ht; [discriminate|].
  cbn [scope_enc] in Hs. cbn [compiles] in Hc. cbn [alt_tags] in Ha. cbn [dec].
  destruct (bwf_tag x Hw) as [Hxn Hx0].
  rewrite (bser_shape x). rewrite <- app_assoc.
  unfold dtags in Ht. cbn [outer_tags] in Ht.
  (* one expected tag *)
  assert (Hstd : forall u k indef K, 0 <= u ->
             tag_in (btag x) (match ovr with Some cn => [cn] | None => [(Univ, u)] end) = false ->
             std_decode (mk_tag ovr u k) indef
                        (p ++ identifier (fst (btag x)) (bcons x) (snd (btag x)) ++ after_id x ++ r) (length p) K
             = Ok (DMis, length p)).
  { intros u k indef K Hu0 Hin.
    assert (H0 : 0 <= snd (eff ovr Univ u)) by (destruct ovr as [[c n]|]; cbn; auto).
    rewrite mk_tag_identifier by exact H0.
    apply std_decode_other; try assumption.
    intros E. assert (Hin' : tag_in (btag x) [eff ovr Univ u] = true).
    { apply tag_in_spec. left. rewrite (surjective_pairing (eff ovr Univ u)), (surjective_pairing (btag x)). exact E. }
    destruct ovr as [cn|]; cbn [eff] in Hin'; congruence. }
  assert (Hpc : forall u pk, 0 <= u ->
             tag_in (btag x) (match ovr with Some cn => [cn] | None => [(Univ, u)] end) = false ->
             string_decode false pk (mk_tag ovr u false)
                        (p ++ identifier (fst (btag x)) (bcons x) (snd (btag x)) ++ after_id x ++ r) (length p)
             = Ok (DMis, length p)).
  { intros u pk Hu0 Hin.
    assert (H0 : 0 <= snd (eff ovr Univ u)) by (destruct ovr as [[c n]|]; cbn; auto).
    rewrite mk_tag_identifier by exact H0. unfold string_decode.
    apply pc_decode_other; try assumption.
    intros E. assert (Hin' : tag_in (btag x) [eff ovr Univ u] = true).
    { apply tag_in_spec. left. rewrite (surjective_pairing (eff ovr Univ u)), (surjective_pairing (btag x)). exact E. }
    destruct ovr as [cn|]; cbn [eff] in Hin'; congruence. }
  destruct t as [ | | c | root ext | named sz | sz | k sz alpha | | isset root ext | isset el sz | root ext | name | tg t'].
  - apply Hstd; [lia|exact Ht].
  - apply Hstd; [lia|exact Ht].
  - apply Hstd; [lia|exact Ht].
  - apply Hstd; [lia|exact Ht].
  - apply Hpc; [lia|exact Ht].
  - apply Hpc; [lia|exact Ht].
  - destruct (string_tag k) as [u|] eqn:Ek; [|discriminate].
    rewrite (str_univ_tag_spec _ _ Ek). apply Hpc; [|exact Ht].
    destruct k; cbn in Ek; try discriminate; injection Ek as <-; lia.
  - apply Hstd; [lia|exact Ht].
  - destruct isset; (apply Hstd; [lia|exact Ht]).
  - destruct isset; (apply Hstd; [lia|exact Ht]).
  - (* TChoice *)
    destruct ovr as [cn|]; [specialize (Hu ltac:(discriminate)); discriminate|].
    specialize (Hg eq_refl). cbn [greedy_choice] in Hg.
    rewrite skip_tag_at by (try assumption; intros E; apply app_eq_nil in E; destruct E as [E _];
                            revert E; apply after_id_nonempty; exact Hw).
    cbn [bind]. rewrite slice_at.
    change (choice_members root ext) with (alternatives root ext).
    apply andb_prop in Hs. destruct Hs as [_ Hs].
    destruct (mapM (fun m => alt f None (m_ty m)) (choice_members root ext)) as [tss|] eqn:Em; [|discriminate].
    change (choice_members root ext) with (alternatives root ext) in Em.
    apply mapM_ok in Em.
    rewrite find_alt_none.
    + cbn [bind]. destruct ext; [discriminate|]. reflexivity.
    + (* no alternative lists this tag *)
      clear Ha Hg. revert Hs Hc Ht. induction Em as [|m ts ms tss E _ IHm]; intros Hs Hc Ht; [constructor|].
      cbn [forallb] in Hs, Hc. apply andb_prop in Hs. destruct Hs as [Hs1 Hs2].
      apply andb_prop in Hc. destruct Hc as [Hc1 Hc2]. apply andb_prop in Hc1. destruct Hc1 as [Hc1 _].
      cbn [map concat] in Ht. unfold tag_in in Ht. rewrite existsb_app in Ht.
      apply orb_false_elim in Ht. destruct Ht as [Ht1 Ht2].
      constructor; [|apply IHm; assumption].
      exists ts. split; [exact E|].
      destruct (existsb _ ts) eqn:Ex; [|reflexivity]. exfalso.
      apply existsb_exists in Ex. destruct Ex as (tb & Hin & Eq). apply zlist_eqb_eq in Eq. subst tb.
      pose proof (alt_tags_sound f None (m_ty m) ts Hs1 Hc1 I E) as Hsound.
      rewrite Forall_forall in Hsound. destruct (Hsound _ Hin) as (c' & n' & k' & Eid & Hn' & Hin').
      assert (Eid' : identifier (fst (btag x)) (bcons x) (snd (btag x)) ++ [] = identifier c' k' n' ++ [])
        by (rewrite !app_nil_r; exact Eid).
      apply identifier_prefix_free in Eid'; try assumption. destruct Eid' as (Ec & _ & En).
      unfold dtags in Hin'. assert (Hin2 : tag_in (btag x) (outer_tags e f (m_ty m)) = true).
      { apply tag_in_spec. destruct (btag x); cbn [fst snd] in *. subst. exact Hin'. }
      unfold tag_in in Hin2. congruence.
  - (* TRef *)
    unfold assoc in *. cbn [untagged_choice greedy_choice] in Hu, Hg. unfold assoc in Hu.
    destruct (lookup name e) as [t'|]; [|discriminate].
    replace (identifier (fst (btag x)) (bcons x) (snd (btag x)) ++ after_id x ++ r) with (bser x ++ r)
      by (rewrite (bser_shape x), <- app_assoc; reflexivity).
    apply IH; assumption.
  - (* TTag *)
    apply andb_prop in Hs. destruct Hs as [Hs1 Hs3]. apply andb_prop in Hs1. destruct Hs1 as [Hn Hs2].
    assert (Hcn : 0 <= snd (eff ovr (t_class tg) (t_num tg))) by (destruct ovr as [[c n]|]; cbn; [exact Ho|lia]).
    assert (Hd : tag_in (btag x) [eff ovr (t_class tg) (t_num tg)] = false) by (destruct ovr; exact Ht).
    destruct (t_explicit tg).
    + destruct (eff ovr (t_class tg) (t_num tg)) as [c n] eqn:Ee. cbn [snd] in Hcn.
      rewrite tag_octets_identifier by exact Hcn.
      apply std_decode_other; try assumption.
      intros E. assert (Hin' : tag_in (btag x) [(c, n)] = true).
      { apply tag_in_spec. left. rewrite (surjective_pairing (btag x)). exact E. }
      congruence.
    + cbn [orb] in Hs2. apply negb_true_iff in Hs2.
      replace (identifier (fst (btag x)) (bcons x) (snd (btag x)) ++ after_id x ++ r) with (bser x ++ r)
        by (rewrite (bser_shape x), <- app_assoc; reflexivity).
      apply IH; try assumption.
      * destruct (eff ovr (t_class tg) (t_num tg)); exact Hcn.
      * intros _. exact Hs2.
      * discriminate.
Qed.

(* ------------------------------------------------------------------ *)
(** * 3. contents of the simple types *)

Lemma bwf_prim c n lo content :
  bwf (BPrim c n lo content) = true ->
  0 <= n /\ (c, n) <> (Univ, 0) /\ Forall is_byte content /\
  length_value lo = Some (Z.of_nat (length content)).
Proof.
  intros H. destruct (bwf_tag _ H) as [H1 H2]. cbn [btag snd] in *. cbn [bwf] in H.
  apply andb_prop in H. destruct H as [H Hl]. apply andb_prop in H. destruct H as [_ Hb].
  split; [exact H1|]. split; [exact H2|]. split; [apply forallb_is_byteb; exact Hb|].
  destruct (length_value lo) as [l|]; [|discriminate]. f_equal. lia.
Qed.

Lemma bwf_cons_def c n lo ch :
  bwf (BCons c n (LDef lo) ch) = true ->
  0 <= n /\ (c, n) <> (Univ, 0) /\ forallb bwf ch = true /\
  length_value lo = Some (Z.of_nat (length (concat (map bser ch)))).
Proof.
  intros H. destruct (bwf_tag _ H) as [H1 H2]. cbn [btag snd] in *. cbn [bwf] in H.
  apply andb_prop in H. destruct H as [H Hl]. apply andb_prop in H. destruct H as [_ Hb].
  split; [exact H1|]. split; [exact H2|]. split; [exact Hb|].
  destruct (length_value lo) as [l|]; [|discriminate]. f_equal. lia.
Qed.

Lemma bwf_cons_indef c n ch :
  bwf (BCons c n LIndef ch) = true -> 0 <= n /\ (c, n) <> (Univ, 0) /\ forallb bwf ch = true.
Proof.
  intros H. destruct (bwf_tag _ H) as [H1 H2]. cbn [btag snd] in *. cbn [bwf] in H.
  apply andb_prop in H. destruct H as [H _]. apply andb_prop in H. destruct H as [_ Hb].
  repeat split; assumption.
Qed.

(** std_decode on a primitive encoding whose tag is the expected one *)
Lemma std_decode_prim c n lo content p r indef (K : nat -> option Z -> result (value * nat)) :
  bwf (BPrim c n lo content) = true ->
  std_decode (identifier c false n) indef (p ++ bser (BPrim c n lo content) ++ r) (length p) K =
  (let* (v, en) := K (length (p ++ identifier c false n ++ lo)) (Some (Z.of_nat (length content))) in
   Ok (DVal v, en)).
Proof.
  intros Hw. destruct (bwf_prim _ _ _ _ Hw) as (Hn & _ & _ & Hl).
  cbn [bser]. rewrite <- !app_assoc.
  rewrite (std_decode_definite c false n lo content r p indef K Hn Hl).
  rewrite !app_length. rewrite Nat.add_assoc. reflexivity.
Qed.

Lemma dec_bool_at q b r : dec_bool (q ++ [b] ++ r) (length q) (Some 1) = Ok (VBool (negb (b =? 0)), (length q + 1)%nat).
Proof. unfold dec_bool. cbn [app]. rewrite nth_error_at. reflexivity. Qed.

Lemma dec_int_at q content r z :
  read_integer content = Some z ->
  dec_int (q ++ content ++ r) (length q) (Some (Z.of_nat (length content))) = Ok (VInt z, (length q + length content)%nat).
Proof.
  intros H. unfold dec_int, with_len. rewrite Nat2Z.id, slice_at. rewrite (read_integer_signed _ _ H). reflexivity.
Qed.

Lemma enum_name_of_find z items nm k :
  nodupb Z.eqb (map snd items) = true ->
  find (fun it : string * Z => snd it =? z) items = Some (nm, k) -> enum_name_of z items = Some nm.
Proof.
  induction items as [|[n0 k0] items IH]; cbn [map nodupb find enum_name_of snd]; [discriminate|].
  intros Hn Hf. apply andb_prop in Hn. destruct Hn as [Hn1 Hn2].
  destruct (k0 =? z) eqn:E.
  - injection Hf as <- <-.
    assert (Hnone : enum_name_of z items = None).
    { assert (k0 = z) by lia. subst k0. apply negb_true_iff in Hn1. clear -Hn1.
      induction items as [|[n1 k1] items IH]; cbn [enum_name_of]; [reflexivity|].
      cbn [map existsb snd] in Hn1. apply orb_false_elim in Hn1. destruct Hn1 as [H1 H2].
      rewrite (IH H2). assert (z =? k1 = false) by lia. rewrite H. reflexivity. }
    rewrite Hnone. assert (z =? k0 = true) by lia. rewrite H. reflexivity.
  - rewrite (IH Hn2 Hf). reflexivity.
Qed.

Lemma dec_enum_at q content r items has_ext z v :
  nodupb Z.eqb (map snd items) = true ->
  read_integer content = Some z -> enum_value numeric items z = Some v ->
  dec_enum numeric items has_ext (q ++ content ++ r) (length q) (Some (Z.of_nat (length content))) =
  Ok (v, (length q + length content)%nat).
Proof.
  intros Hn H Hv. unfold dec_enum, with_len. rewrite Nat2Z.id, slice_at. rewrite (read_integer_signed _ _ H).
  unfold enum_value in Hv. destruct (find _ items) as [[nm k]|] eqn:Ef; [|discriminate].
  rewrite (enum_name_of_find _ _ _ _ Hn Ef). injection Hv as <-. reflexivity.
Qed.

Lemma dec_oid_at q content r arcs :
  Forall is_byte content -> read_oid content = Some arcs ->
  dec_oid (q ++ content ++ r) (length q) (Some (Z.of_nat (length content))) = Ok (VOid arcs, (length q + length content)%nat).
Proof.
  intros Hb H. unfold dec_oid, with_len. rewrite Nat2Z.id. rewrite (decode_oid_spec q content r arcs Hb H). reflexivity.
Qed.

(* ------------------------------------------------------------------ *)
(** * 4. the contents of a constructed encoding: children, then the end *)

(** the contents end at offset [o]: the announced length is reached, or the
    end-of-contents octets follow *)
Definition closed (endo : option nat) (o : nat) (r : list Z) : Prop :=
  match endo with Some en => en = o | None => exists r', r = 0 :: 0 :: r' end.

Definition after_close (endo : option nat) (o : nat) : nat :=
  match endo with Some _ => o | None => (o + 2)%nat end.

Lemma is_end_at_close endo q r :
  closed endo (length q) r -> is_end_of_data (q ++ r) (length q) endo = Ok (true, after_close endo (length q)).
Proof.
  unfold closed, is_end_of_data, after_close. destruct endo as [en|].
  - intros ->. rewrite Nat.leb_refl. reflexivity.
  - intros (r' & ->). rewrite detect_eoc_at_end. reflexivity.
Qed.

Lemma bser_length_pos x : bwf x = true -> (2 <= length (bser x))%nat.
Proof.
  intros Hw. rewrite bser_shape, app_length.
  destruct (bwf_tag x Hw) as [Hn _].
  pose proof (identifier_wf_tag (fst (btag x)) (bcons x) (snd (btag x)) Hn) as W.
  pose proof (after_id_nonempty x Hw) as A.
  destruct (identifier _ _ _); [inversion W|]. destruct (after_id x); [contradiction|]. cbn. lia.
Qed.

(** a child starts at offset |q| and the contents extend at least to its end *)
Lemma is_end_at_child endo q x r :
  bwf x = true ->
  match endo with Some en => (length q + length (bser x) <= en)%nat | None => True end ->
  is_end_of_data (q ++ bser x ++ r) (length q) endo = Ok (false, length q).
Proof.
  intros Hw He. unfold is_end_of_data. destruct endo as [en|].
  - pose proof (bser_length_pos x Hw). destruct (en <=? length q)%nat eqn:E; [lia|reflexivity].
  - destruct (bwf_tag x Hw) as [Hn H0]. rewrite bser_shape, <- app_assoc.
    rewrite detect_eoc_at_child; try assumption.
    + reflexivity.
    + rewrite <- surjective_pairing. exact H0.
    + intros E. apply app_eq_nil in E. destruct E as [E _]. revert E. apply after_id_nonempty. exact Hw.
Qed.

Definition children_bytes (xs : list btlv) : list Z := concat (map bser xs).

Lemma seg_loop_spec (decseg : nat -> result (dres * nat)) data endo : forall xs vs q r lp,
  data = q ++ children_bytes xs ++ r ->
  Forall2 (fun x v => forall q' r', data = q' ++ bser x ++ r' ->
                                    decseg (length q') = Ok (DVal v, (length q' + length (bser x))%nat)) xs vs ->
  forallb bwf xs = true ->
  closed endo (length q + length (children_bytes xs))%nat r ->
  (length xs < lp)%nat ->
  seg_loop decseg data endo lp (length q) = Ok (vs, after_close endo (length q + length (children_bytes xs))).
Proof.
  intros xs vs q r lp Hd H2. revert q lp Hd. induction H2 as [|x v xs vs Hx _ IH]; intros q lp Hd Hw Hc Hlp.
  - destruct lp; [cbn in Hlp; lia|]. cbn [seg_loop]. unfold children_bytes in *. cbn [map concat app length] in *.
    rewrite Nat.add_0_r in *. subst data. rewrite is_end_at_close by exact Hc. reflexivity.
  - destruct lp; [cbn in Hlp; lia|]. cbn [seg_loop]. unfold children_bytes in *. cbn [map concat forallb length] in *.
    apply andb_prop in Hw. destruct Hw as [Hwx Hw]. rewrite <- app_assoc in Hd.
    rewrite Hd at 1. rewrite is_end_at_child; [|exact Hwx|].
    2:{ destruct endo as [en|]; [|exact I]. unfold closed in Hc. rewrite app_length in Hc. lia. }
    cbn [bind]. rewrite (Hx q _ Hd). cbn [bind].
    assert (Hd' : data = (q ++ bser x) ++ concat (map bser xs) ++ r) by (rewrite <- app_assoc; exact Hd).
    replace (length q + length (bser x))%nat with (length (q ++ bser x)) by apply app_length.
    rewrite (IH (q ++ bser x) lp Hd' Hw); [| |cbn in Hlp; lia].
    + cbn [bind]. f_equal. f_equal. rewrite !app_length. f_equal. lia.
    + rewrite !app_length in *. replace (length q + length (bser x) + length (concat (map bser xs)))%nat
        with (length q + (length (bser x) + length (concat (map bser xs))))%nat by lia. exact Hc.
Qed.

(* ------------------------------------------------------------------ *)
(** * 5. primitive-or-constructed strings *)

Fixpoint bdepth (x : btlv) : nat :=
  match x with
  | BPrim _ _ _ _ => 1%nat
  | BCons _ _ _ ch => S (fold_right (fun c acc => Nat.max (bdepth c) acc) 0%nat ch)
  end.

Lemma bdepth_child c n l ch x : In x ch -> (bdepth x < bdepth (BCons c n l ch))%nat.
Proof.
  cbn [bdepth]. induction ch as [|y ch IH]; [intros []|]. cbn [fold_right In].
  intros [->|H]; [lia|]. specialize (IH H). lia.
Qed.

Lemma children_bytes_length xs : forallb bwf xs = true -> (length xs <= length (children_bytes xs))%nat.
Proof.
  unfold children_bytes. induction xs as [|x xs IH]; cbn [forallb map concat length]; [lia|].
  intros H. apply andb_prop in H. destruct H as [H1 H2]. rewrite app_length.
  pose proof (bser_length_pos x H1). specialize (IH H2). lia.
Qed.

Lemma read_octets_false_true x bytes :
  read_octets false x = Some bytes -> btag x = (Univ, 4) /\ read_octets true x = Some bytes.
Proof.
  destruct x as [c n lo content | c n l ch]; cbn [read_octets orb btag].
  - destruct (tag_eqb (c, n) (Univ, 4)) eqn:E; [|discriminate]. apply tag_eqb_eq in E. intros H. split; assumption.
  - destruct (tag_eqb (c, n) (Univ, 4)) eqn:E; [|discriminate]. apply tag_eqb_eq in E. intros H. split; assumption.
Qed.

Lemma read_octets_cons c n l ch bytes :
  read_octets true (BCons c n l ch) = Some bytes ->
  exists parts, Forall2 (fun x p => read_octets false x = Some p) ch parts /\ bytes = concat parts.
Proof.
  cbn [read_octets orb]. revert bytes. induction ch as [|x ch IH]; intros bytes H.
  - injection H as <-. exists []. split; [constructor|reflexivity].
  - destruct (read_octets false x) as [a|] eqn:Ea; [|discriminate].
    match type of H with match ?g with _ => _ end = _ => destruct g as [b|] eqn:Eb; [|discriminate] end.
    injection H as <-. destruct (IH b eq_refl) as (parts & H2 & ->).
    exists (a :: parts). split; [constructor; assumption | reflexivity].
Qed.

Definition octets_result (pk : pc_kind) (bytes : list Z) : result value :=
  match pk with
  | PcOctets => Ok (VBytes bytes)
  | PcStr k => dec_str_prim k bytes
  | PcBits => Err EUnmodelled
  end.

Lemma join_segments_octets pk parts :
  pk <> PcBits -> join_segments pk (map VBytes parts) = octets_result pk (concat parts).
Proof.
  intros Hpk. assert (Hm : mapM (fun s => match s with VBytes b => Ok b | _ => Err EUnmodelled end) (map VBytes parts) = Ok parts).
  { induction parts as [|a parts IH]; cbn [map mapM]; [reflexivity|]. cbn [bind]. rewrite IH. reflexivity. }
  destruct pk; [contradiction| |]; cbn [join_segments octets_result]; rewrite Hm; reflexivity.
Qed.

Lemma identifier_kind_neq c n : 0 <= n -> identifier c true n <> identifier c false n.
Proof.
  intros Hn E. assert (E' : identifier c true n ++ [] = identifier c false n ++ []) by (rewrite E; reflexivity).
  apply identifier_prefix_free in E'; try assumption. destruct E' as (_ & E' & _). discriminate.
Qed.

Lemma bdepth_children c n l ch sf :
  (bdepth (BCons c n l ch) <= S sf)%nat -> Forall (fun x => (bdepth x <= sf)%nat) ch.
Proof.
  intros H. apply Forall_forall. intros x Hx. pose proof (bdepth_child c n l ch x Hx). lia.
Qed.

Lemma segs_octets sf data ch parts :
  (forall x bytes pk p r,
      (bdepth x <= sf)%nat -> bwf x = true -> pk <> PcBits -> read_octets true x = Some bytes ->
      pc_decode sf pk (identifier (fst (btag x)) false (snd (btag x))) (p ++ bser x ++ r) (length p) =
      (let* v := octets_result pk bytes in Ok (DVal v, (length p + length (bser x))%nat))) ->
  Forall (fun x => (bdepth x <= sf)%nat) ch -> forallb bwf ch = true ->
  Forall2 (fun x pt => read_octets false x = Some pt) ch parts ->
  Forall2 (fun x v => forall q' r', data = q' ++ bser x ++ r' ->
                                    pc_decode sf PcOctets (mk_tag None 4 false) data (length q') =
                                    Ok (DVal v, (length q' + length (bser x))%nat)) ch (map VBytes parts).
Proof.
  intros IH Hdep Hw H2. induction H2 as [|x pt ch parts Hx _ IHl]; [constructor|].
  cbn [map]. cbn [forallb] in Hw. apply andb_prop in Hw. destruct Hw as [Hwx Hw].
  inversion Hdep as [|? ? Hdx Hdch]; subst.
  constructor; [|apply IHl; assumption].
  intros q' r' Hq. destruct (read_octets_false_true _ _ Hx) as [Htag Hx'].
  rewrite Hq. unfold mk_tag. cbn [eff]. rewrite tag_octets_identifier by lia.
  cbn [fst snd].
  replace Univ with (fst (btag x)) by (rewrite Htag; reflexivity).
  replace 4 with (snd (btag x)) at 1 by (rewrite Htag; reflexivity).
  rewrite (IH x pt PcOctets q' r'); try assumption; try discriminate. reflexivity.
Qed.

Lemma pc_decode_octets : forall sf x bytes pk p r,
  (bdepth x <= sf)%nat -> bwf x = true -> pk <> PcBits ->
  read_octets true x = Some bytes ->
  pc_decode sf pk (identifier (fst (btag x)) false (snd (btag x))) (p ++ bser x ++ r) (length p) =
  (let* v := octets_result pk bytes in Ok (DVal v, (length p + length (bser x))%nat)).
Proof.
  induction sf as [|sf IH]; intros x bytes pk p r Hd Hw Hpk Hr.
  { destruct x; cbn in Hd; lia. }
  destruct x as [c n lo content | c n l ch]; cbn [btag fst snd].
  - (* primitive *)
    destruct (bwf_prim _ _ _ _ Hw) as (Hn & _ & _ & Hl).
    cbn [read_octets orb] in Hr. injection Hr as <-.
    cbn [pc_decode]. cbv zeta. cbn [bser]. rewrite <- !app_assoc. rewrite slice_at, zlist_eqb_refl.
    replace (p ++ identifier c false n ++ lo ++ content ++ r) with ((p ++ identifier c false n) ++ lo ++ (content ++ r))
      by (rewrite <- !app_assoc; reflexivity).
    replace (length p + length (identifier c false n))%nat with (length (p ++ identifier c false n)) by apply app_length.
    rewrite (decode_length_at _ lo _ (content ++ r) false Hl) by (rewrite app_length; lia).
    cbn [bind]. unfold with_len. rewrite Nat2Z.id.
    replace ((p ++ identifier c false n) ++ lo ++ content ++ r) with (((p ++ identifier c false n) ++ lo) ++ content ++ r)
      by (rewrite <- !app_assoc; reflexivity).
    replace (length (p ++ identifier c false n) + length lo)%nat with (length ((p ++ identifier c false n) ++ lo)) by apply app_length.
    assert (Hprim : pc_primitive pk (((p ++ identifier c false n) ++ lo) ++ content ++ r)
                                 (length ((p ++ identifier c false n) ++ lo)) (length content) = octets_result pk content).
    { destruct pk; [contradiction| |]; cbn [pc_primitive octets_result]; rewrite slice_at; reflexivity. }
    rewrite Hprim. destruct (octets_result pk content); cbn [bind]; [|reflexivity].
    f_equal. f_equal. rewrite !app_length. lia.
  - (* constructed *)
    destruct (read_octets_cons _ _ _ _ _ Hr) as (parts & H2 & ->).
    assert (Hn : 0 <= n) by (destruct (bwf_tag _ Hw) as [H _]; exact H).
    assert (Hwch : forallb bwf ch = true) by (destruct l; [apply bwf_cons_def in Hw | apply bwf_cons_indef in Hw]; tauto).
    assert (Hsb : pc_segment_is_bits pk = false) by (destruct pk; [contradiction|reflexivity|reflexivity]).
    cbn [pc_decode]. cbv zeta. rewrite Hsb.
    rewrite set_constructed_identifier by exact Hn.
    rewrite (bser_shape (BCons c n l ch)). cbn [btag fst snd bcons].
    remember (p ++ (identifier c true n ++ after_id (BCons c n l ch)) ++ r) as data eqn:Ed.
    assert (Etd : slice data (length p) (length p + length (identifier c false n)) = identifier c true n).
    { subst data. rewrite <- identifier_length_kind, <- !app_assoc. apply slice_at. }
    rewrite Etd. rewrite (zlist_eqb_neq _ _ (identifier_kind_neq c n Hn)). rewrite zlist_eqb_refl.
    rewrite <- identifier_length_kind.
    (* the segments *)
    assert (Hseg : forall q r' endo,
               data = q ++ children_bytes ch ++ r' ->
               closed endo (length q + length (children_bytes ch)) r' ->
               seg_loop (pc_decode sf PcOctets (mk_tag None 4 false) data) data endo (S (length data)) (length q)
               = Ok (map VBytes parts, after_close endo (length q + length (children_bytes ch)))).
    { intros q r' endo Hdata Hcl.
      apply seg_loop_spec with (r := r'); try assumption.
      - apply segs_octets; try assumption. eapply bdepth_children; exact Hd.
      - rewrite Hdata, !app_length. pose proof (children_bytes_length ch Hwch). lia. }
    destruct l as [lo|]; cbn [after_id] in Ed.
    + destruct (bwf_cons_def _ _ _ _ Hw) as (_ & _ & _ & Hl).
      assert (E1 : data = (p ++ identifier c true n) ++ lo ++ (concat (map bser ch) ++ r))
        by (subst data; rewrite <- !app_assoc; reflexivity).
      assert (Hdl : decode_length data (length p + length (identifier c true n)) false =
                    Ok (Some (Z.of_nat (length (concat (map bser ch)))), length ((p ++ identifier c true n) ++ lo))).
      { rewrite E1. replace (length p + length (identifier c true n))%nat with (length (p ++ identifier c true n))
          by apply app_length.
        rewrite (decode_length_at _ lo _ (concat (map bser ch) ++ r) false Hl) by (rewrite app_length; lia).
        rewrite !app_length. reflexivity. }
      rewrite Hdl. cbn [bind end_of]. rewrite Nat2Z.id.
      rewrite (Hseg ((p ++ identifier c true n) ++ lo) r).
      * cbn [bind after_close]. rewrite join_segments_octets by exact Hpk.
        destruct (octets_result pk (concat parts)); cbn [bind]; [|reflexivity].
        f_equal. f_equal. unfold children_bytes. cbn [after_id]. rewrite !app_length. lia.
      * subst data. unfold children_bytes. rewrite <- !app_assoc. reflexivity.
      * cbn [closed]. reflexivity.
    + assert (E1 : data = (p ++ identifier c true n) ++ 128 :: (concat (map bser ch) ++ [0; 0] ++ r))
        by (subst data; rewrite <- !app_assoc; cbn [app]; rewrite <- !app_assoc; reflexivity).
      assert (Hdl : decode_length data (length p + length (identifier c true n)) false =
                    Ok (None, length ((p ++ identifier c true n) ++ [128]))).
      { rewrite E1. replace (length p + length (identifier c true n))%nat with (length (p ++ identifier c true n))
          by apply app_length.
        rewrite decode_length_indefinite. rewrite !app_length. cbn [length]. f_equal. f_equal. lia. }
      rewrite Hdl. cbn [bind end_of].
      rewrite (Hseg ((p ++ identifier c true n) ++ [128]) (0 :: 0 :: r)).
      * cbn [bind after_close]. rewrite join_segments_octets by exact Hpk.
        destruct (octets_result pk (concat parts)); cbn [bind]; [|reflexivity].
        f_equal. f_equal. unfold children_bytes. cbn [after_id]. rewrite !app_length. cbn [length]. rewrite !app_length. cbn [length]. lia.
      * subst data. unfold children_bytes. rewrite <- !app_assoc. cbn [app]. rewrite <- !app_assoc. reflexivity.
      * cbn [closed]. eexists; reflexivity.
Qed.

End Accept.
