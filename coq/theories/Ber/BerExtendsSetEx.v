(** Instance of Ber/BerExtendsSet.v: the pair of Ber/BerExtendsEx.v (Color, Item,
    Inner, U extended at once) inside a SET whose components are declared out of
    tag order:
      Top ::= SET { w [1] Inner, items [0] SEQUENCE OF Item, u [2] U }     (EXPLICIT TAGS)
    Cross-checked on /repo (ber and der, same octets):
      v2 = {'items': [{'id': 1, 'c': 'blue', 'note': b'\xab'}, {'id': 2}], 'w': {'k': 3, 'l': True}, 'u': ('b', 9)}
      encode = 31 23 a0 12 30 10 30 09 02 01 01 0a 01 02 04 01 ab 30 03 02 01 02 a1 08 30 06 02 01 03 01 01 ff a2 03 02 01 09
      version 1 decodes it to {'items': [{'id': 1, 'c': None}, {'id': 2, 'c': 'red'}], 'w': {'k': 3}, 'u': (None, None)} *)
From Asn1V Require Import Base.Prelude Syntax.Asn1 Ber.BerCommon Ber.X690 Ber.BerScope Ber.DerImpl Ber.BerImpl
     Ber.DerRefine Ber.X690Read Ber.BerAcceptBase Ber.BerAccept Ber.BerRoundtripFull Ber.BerExt
     Ber.BerExtendsBase Ber.BerExtends Ber.BerExtendsEx Ber.BerExtendsSet.
Open Scope string_scope.

Definition top_s : ty :=
  TSeq true
       [("w", TTag (mkTag Ctx 1 true) (TRef "Inner"), Mandatory);
        ("items", TTag (mkTag Ctx 0 true) (TSeqOf false (TRef "Item") SzNone), Mandatory);
        ("u", TTag (mkTag Ctx 2 true) (TRef "U"), Mandatory)] None.

Definition v2s : value :=
  VSeq [("items", VList [VSeq [("id", VInt 1); ("c", VEnum "blue"); ("note", VBytes [171])];
                         VSeq [("id", VInt 2)]]);
        ("w", VSeq [("k", VInt 3); ("l", VBool true)]);
        ("u", VChoice "b" (VInt 9))].
Definition v2s_octets : list Z :=
  [49; 35; 160; 18; 48; 16; 48; 9; 2; 1; 1; 10; 1; 2; 4; 1; 171; 48; 3; 2; 1; 2; 161; 8; 48; 6; 2; 1; 3; 1; 1; 255;
   162; 3; 2; 1; 9].
Definition v2s_as_v1 : value :=
  VSeq [("w", VSeq [("k", VInt 3)]);
        ("items", VList [VSeq [("id", VInt 1); ("c", VNone)]; VSeq [("id", VInt 2); ("c", VEnum "red")]]);
        ("u", VUnknownChoice)].

Example bextends_s_inhabited : bextends_s false env1 env2 9 top_s top_s.
Proof.
  unfold top_s. rewrite bext_s_seq. split; [reflexivity|]. split; [|exact I].
  constructor; [|constructor; [|constructor; [|constructor]]];
    (unfold mrel; cbn [m_name m_ty m_opt fst snd]; split; [reflexivity|]; split; [reflexivity|];
     split; [apply bextends_s_of; repeat bstep|intros d Hd; discriminate Hd]).
Qed.

Example ex_forward_set_container : forall tail,
  BerImpl.ber_decode false 9 env1 top_s (v2s_octets ++ tail) = Ok (v2s_as_v1, 37%nat).
Proof.
  assert (Hs1 : in_scope false env1 9 top_s = true) by (vm_compute; reflexivity).
  assert (Hc1 : compiles env1 9 top_s = true) by (vm_compute; reflexivity).
  assert (Hs2 : in_scope false env2 9 top_s = true) by (vm_compute; reflexivity).
  assert (Hc2 : compiles env2 9 top_s = true) by (vm_compute; reflexivity).
  assert (He : BerImpl.ber_encode false 9 env2 top_s v2s = Ok v2s_octets) by (vm_compute; reflexivity).
  assert (Hsm : DerRefine.small v2s_octets) by (unfold DerRefine.small, v2s_octets; cbn [length]; lia).
  destruct (der_tree false env2 9 top_s v2s) as [Td|] eqn:ETd; [|vm_compute in ETd; discriminate].
  destruct (ber_forward_s_partial false env1 env2 9 top_s top_s v2s Td v2s_octets bextends_s_inhabited Hs1 Hc1 Hs2 Hc2 ETd He Hsm)
    as (nv & Hn & Hdec).
  vm_compute in Hn. injection Hn as <-. intros tail. rewrite (Hdec tail). f_equal.
Qed.
